(** C04, bash: the WHOLE emitted script is read back by the specification-side reader.

    The script is a sequence of lines.  A line is *local* when what the statement reader makes of it
    does not depend on what follows its newline ([line_sem]); [scan_lines_sem] turns a list of local
    lines into the statements they stand for.  The fixed skeleton is cut into regions (closed
    templates from gen/TplBash.v, concatenated), every region into lines, and every line is
    discharged either by computation (closed lines), by its indentation (deeper than any data
    statement), or by one of the few lemmas about lines that carry the command name. *)
From Coq Require Import DecimalString.
From CG Require Import Base.Prelude Model.Ast Model.Dfa Model.Tpl Model.Quote Model.Tables Model.EmitBash
     Spec.ShellDQ Spec.ScriptRead Proofs.QuoteRT Proofs.BashCodec.
From CGgen Require Import Consts TplBash.
Open Scope N_scope.
Open Scope list_scope.

(** ** lines *)
Fixpoint no_nl (s : string) : bool :=
  match s with
  | EmptyString => true
  | String c t => negb (Ascii.eqb c nl_char) && no_nl t
  end.

Lemma no_nl_app a b : no_nl (append a b) = no_nl a && no_nl b.
Proof. induction a; cbn; [reflexivity | rewrite IHa, andb_assoc; reflexivity]. Qed.

Lemma line_app l rest : no_nl l = true -> line (append l (append nl rest)) = (l, rest).
Proof.
  induction l as [|c l IH]; cbn [append no_nl line]; intros H.
  - change (Ascii.eqb nl_char nl_char) with true. reflexivity.
  - apply andb_prop in H. destruct H as [Hc Hl]. apply negb_true_iff in Hc. rewrite Hc, (IH Hl). reflexivity.
Qed.

Definition unlines (l : list string) : string := sconcat (map (fun x => append x nl) l).

Lemma unlines_app a b : unlines (a ++ b) = append (unlines a) (unlines b).
Proof. unfold unlines. rewrite map_app. apply sconcat_app. Qed.

(** what the reader makes of a line, with nothing after it *)
Definition lift (rest : string) (o : option (stmt * string)) : option (stmt * string) :=
  match o with Some (st, r) => Some (st, append r rest) | None => None end.

Definition line_sem (cmd : string) (l : string) (o : option stmt) : Prop :=
  no_nl l = true
  /\ (forall rest, bash_stmt (append l (append nl rest)) = match o with Some st => Some (st, rest) | None => None end)
  /\ match o with Some (SFunc n) => is_cmd_fn cmd n = false | _ => True end.

Definition stmts_of (os : list (option stmt)) : list stmt :=
  flat_map (fun o => match o with Some st => [st] | None => [] end) os.

Lemma scan_lines_sem cmd ls os :
  Forall2 (line_sem cmd) ls os ->
  forall k rest, scan (List.length ls + k) Bash cmd (append (unlines ls) rest) = stmts_of os ++ scan k Bash cmd rest.
Proof.
  induction 1 as [|l o ls os [Hnl [Hrd Hfn]] _ IH]; intros k rest; [reflexivity|].
  unfold unlines. cbn [map sconcat List.length Nat.add]. rewrite !append_assoc. cbn [scan].
  destruct (l ++ nl ++ sconcat (map (fun x => x ++ nl) ls) ++ rest)%string eqn:E.
  - destruct l; discriminate E.
  - rewrite <- E. change (stmt_of Bash) with bash_stmt. rewrite Hrd. destruct o as [st|].
    + cbn [stmts_of flat_map]. fold (stmts_of os). change (sconcat (map (fun x => x ++ nl) ls))%string with (unlines ls).
      destruct st; try (cbn [app]; f_equal; apply IH). rewrite Hfn. cbn [app]. f_equal. apply IH.
    + rewrite (line_app l _ Hnl). cbn [stmts_of flat_map app]. fold (stmts_of os). apply IH.
Qed.

(** a line indented deeper than four blanks is no data statement, whatever it contains *)
Lemma deep_none x : bash_stmt (append "     " x) = None.
Proof. reflexivity. Qed.

Lemma deep_line_sem cmd x : no_nl x = true -> line_sem cmd (append "     " x) None.
Proof.
  intros H. split; [exact H|]. split; [|exact I]. intros rest. rewrite append_assoc. apply deep_none.
Qed.

(** ** the command name *)
Definition name_ok (command : string) : Prop :=
  command <> EmptyString /\ forallb is_name_char (list_ascii_of_string command) = true.

Lemma name_char_not_nl c : is_name_char c = true -> Ascii.eqb c nl_char = false.
Proof.
  unfold is_name_char. destruct (Ascii.eqb c nl_char); [|reflexivity].
  rewrite orb_true_r. cbn. discriminate.
Qed.

Lemma name_ok_no_nl command : name_ok command -> no_nl command = true.
Proof.
  intros [_ H]. induction command as [|c t IH]; [reflexivity|]. cbn in H. apply andb_prop in H. destruct H as [Hc Ht].
  cbn [no_nl]. rewrite (IH Ht), (name_char_not_nl _ Hc). reflexivity.
Qed.

Lemma take_name_app command c r :
  forallb is_name_char (list_ascii_of_string command) = true -> is_name_char c = false ->
  take_while is_name_char (append command (String c r)) = (command, String c r).
Proof.
  intros H Hc. induction command as [|a t IH]; cbn [append take_while].
  - rewrite Hc. reflexivity.
  - cbn in H. apply andb_prop in H. destruct H as [Ha Ht]. rewrite Ha, (IH Ht). reflexivity.
Qed.

Lemma strip_app_both a b c : strip (append a b) (append a c) = strip b c.
Proof. induction a; cbn; [reflexivity | rewrite Ascii.eqb_refl; exact IHa]. Qed.

(** ** templates as lines *)
Fixpoint split_nl (s : string) : list string :=
  match s with
  | EmptyString => [EmptyString]
  | String c t =>
      let r := split_nl t in
      if Ascii.eqb c nl_char then EmptyString :: r
      else match r with
           | x :: r' => String c x :: r'
           | [] => [String c EmptyString]
           end
  end.

Definition txt (s : string) : list seg := match s with EmptyString => [] | _ => [Text s] end.

Fixpoint tpl_lines_go (cur : list seg) (t : list seg) : list (list seg) :=
  match t with
  | [] => [cur]
  | Hole n :: r => tpl_lines_go (cur ++ [Hole n]) r
  | Text s :: r =>
      match split_nl s with
      | [] => tpl_lines_go cur r
      | [x] => tpl_lines_go (cur ++ txt x) r
      | x :: more => (cur ++ txt x) :: map txt (removelast more) ++ tpl_lines_go (txt (last more EmptyString)) r
      end
  end.

(** the lines of a template that ends with a newline (this function is only used to STATE the
    line decompositions below; each of them is then proved by computation) *)
Definition region_lines (t : list seg) : list (list seg) := removelast (tpl_lines_go [] t).

Definition render_lines (env : list (string * string)) (t : list seg) : list string :=
  map (render env) (region_lines t).

Definition seg_nl : list seg := [Text nl].

Lemma render_app env a b : render env (a ++ b) = append (render env a) (render env b).
Proof.
  induction a as [|[s|n] a IH]; cbn [app render]; [reflexivity | |]; rewrite IH, append_assoc; reflexivity.
Qed.

Definition env_cmd (command : string) : list (string * string) :=
  [("command", command); ("MATCH_FN_NAME", match_fn_name_bash)].

(** *** the generic decomposition of a rendered template into its lines *)
Definition jnl (l : list string) : string := join nl l.

Lemma join_cons2 (x y : string) l : join nl (x :: y :: l) = append x (append nl (join nl (y :: l))).
Proof. reflexivity. Qed.

Lemma split_nl_nonempty s : split_nl s <> [].
Proof.
  destruct s as [|c t]; cbn [split_nl]; [discriminate|]. destruct (Ascii.eqb c nl_char); [discriminate|].
  destruct (split_nl t); discriminate.
Qed.

Lemma join_split_nl s : join nl (split_nl s) = s.
Proof.
  induction s as [|c t IH]; [reflexivity|]. cbn [split_nl].
  destruct (Ascii.eqb_spec c nl_char) as [->|Hne].
  - destruct (split_nl t) as [|y l] eqn:E; [exfalso; exact (split_nl_nonempty t E)|].
    rewrite join_cons2, IH. reflexivity.
  - destruct (split_nl t) as [|y l] eqn:E; [exfalso; exact (split_nl_nonempty t E)|].
    destruct l as [|z l].
    + cbn [join] in *. congruence.
    + rewrite join_cons2 in *. cbn [append]. congruence.
Qed.

Lemma render_txt env x : render env (txt x) = x.
Proof. destruct x; [reflexivity|]. cbn [txt render]. apply QuoteRT.append_nil_r. Qed.

Lemma join_app_ne (a : list string) b0 (b : list string) :
  join nl (a ++ b0 :: b) = append (sconcat (map (fun x => append x nl) a)) (join nl (b0 :: b)).
Proof.
  induction a as [|x a IH]; [reflexivity|]. cbn [app map sconcat].
  destruct (a ++ b0 :: b) as [|y l] eqn:E; [destruct a; discriminate E|].
  rewrite join_cons2, IH, !append_assoc. reflexivity.
Qed.

Lemma tpl_lines_go_nonempty cur t : tpl_lines_go cur t <> [].
Proof.
  revert cur. induction t as [|[s|n] r IH]; intros cur; cbn [tpl_lines_go]; [discriminate | | apply IH].
  destruct (split_nl s) as [|x [|y more]]; [apply IH | apply IH | discriminate].
Qed.

Lemma render_join_lines env t :
  forall cur, join nl (map (render env) (tpl_lines_go cur t)) = append (render env cur) (render env t).
Proof.
  induction t as [|[s|n] r IH]; intros cur.
  - cbn. rewrite QuoteRT.append_nil_r. reflexivity.
  - cbn [tpl_lines_go render]. pose proof (join_split_nl s) as Hs.
    destruct (split_nl s) as [|x [|y more]] eqn:E; [exfalso; exact (split_nl_nonempty s E) | |].
    + cbn [join] in Hs. subst x. rewrite IH, render_app, render_txt, append_assoc. reflexivity.
    + (* at least one newline in s *)
      set (more' := y :: more) in *.
      assert (Hm : more' <> []) by discriminate.
      rewrite (app_removelast_last EmptyString Hm) in Hs.
      destruct (tpl_lines_go (txt (last more' EmptyString)) r) as [|l0 ls] eqn:El;
        [exfalso; exact (tpl_lines_go_nonempty _ _ El)|].
      cbn [map]. rewrite map_app. cbn [map].
      change (render env (cur ++ txt x) :: map (render env) (map txt (removelast more')) ++ render env l0 :: map (render env) ls)
        with ((render env (cur ++ txt x) :: map (render env) (map txt (removelast more'))) ++ render env l0 :: map (render env) ls).
      rewrite join_app_ne.
      change (render env l0 :: map (render env) ls) with (map (render env) (l0 :: ls)). rewrite <- El, IH, render_txt.
      cbn [map sconcat]. rewrite render_app, render_txt.
      rewrite <- Hs. change (x :: removelast more' ++ [last more' EmptyString]) with ((x :: removelast more') ++ [last more' EmptyString]).
      rewrite join_app_ne. cbn [map sconcat join]. rewrite !map_map.
      rewrite (map_ext (fun x0 => render env (txt x0) ++ nl)%string (fun x0 => x0 ++ nl)%string) by (intros; rewrite render_txt; reflexivity).
      rewrite !append_assoc. reflexivity.
  - cbn [tpl_lines_go render]. rewrite IH, render_app. cbn [render]. rewrite QuoteRT.append_nil_r, append_assoc. reflexivity.
Qed.

(** a template whose last line is empty (it ends with a newline) is the [unlines] of its lines *)
Lemma render_region env t :
  last (tpl_lines_go [] t) [Text "x"] = [] ->
  render env t = unlines (render_lines env t).
Proof.
  intros Hl. pose proof (render_join_lines env t []) as H. cbn [render append] in H. rewrite <- H.
  unfold render_lines, region_lines.
  pose proof (tpl_lines_go_nonempty [] t) as Hne.
  rewrite (app_removelast_last [Text "x"] Hne) at 1. rewrite Hl, map_app. cbn [map render].
  rewrite join_app_ne. cbn [join]. rewrite QuoteRT.append_nil_r. reflexivity.
Qed.

(** ** discharging the lines of a region *)
Definition seg_no_nl (env : list (string * string)) (l : list seg) : bool :=
  forallb (fun s => match s with
                    | Text t => no_nl t
                    | Hole n => match assoc n env with Some v => no_nl v | None => false end
                    end) l.

Lemma render_no_nl env l : seg_no_nl env l = true -> no_nl (render env l) = true.
Proof.
  induction l as [|[t|n] l IH]; cbn [seg_no_nl forallb render]; intros H; [reflexivity | |];
    apply andb_prop in H; destruct H as [H1 H2]; rewrite no_nl_app, (IH H2), andb_true_r.
  - exact H1.
  - destruct (assoc n env); [exact H1 | discriminate].
Qed.

Definition is_deep (l : list seg) : bool :=
  match l with Text t :: _ => is_prefix "     " t | _ => false end.

Lemma is_prefix_split p s : is_prefix p s = true -> exists r, s = append p r.
Proof.
  revert s. induction p as [|c p IH]; intros s H; [exists s; reflexivity|].
  destruct s as [|d s]; [discriminate|]. cbn in H. destruct (Ascii.eqb_spec c d); [|discriminate]. subst.
  destruct (IH _ H) as [r ->]. exists r. reflexivity.
Qed.

Lemma deep_render_sem cmd env l :
  is_deep l = true -> seg_no_nl env l = true -> line_sem cmd (render env l) None.
Proof.
  intros Hd Hn. split; [apply render_no_nl; exact Hn|]. split; [|exact I]. intros rest.
  destruct l as [|[t|n] l]; try discriminate. cbn [is_deep] in Hd. destruct (is_prefix_split _ _ Hd) as [r ->].
  cbn [render]. rewrite !append_assoc. apply deep_none.
Qed.

(** a line without holes: what the reader makes of it is computed *)
Definition is_closed (l : list seg) : bool := forallb (fun s => match s with Text _ => true | Hole _ => false end) l.

Lemma closed_render env l : is_closed l = true -> render env l = render [] l.
Proof.
  induction l as [|[t|n] l IH]; cbn [is_closed forallb render]; intros H; [reflexivity | | discriminate].
  rewrite (IH H). reflexivity.
Qed.

Definition closed_outcome (s : string) : option stmt :=
  match bash_stmt (append s nl) with Some (st, _) => Some st | None => None end.

Lemma closed_render_sem cmd env l :
  is_closed l = true -> no_nl (render [] l) = true ->
  (forall rest, bash_stmt (append (render [] l) (append nl rest))
                = match closed_outcome (render [] l) with Some st => Some (st, rest) | None => None end) ->
  match closed_outcome (render [] l) with Some (SFunc _) => False | _ => True end ->
  line_sem cmd (render env l) (closed_outcome (render [] l)).
Proof.
  intros Hc Hn Hrd Hf. rewrite (closed_render env l Hc). split; [exact Hn|]. split; [exact Hrd|].
  destruct (closed_outcome (render [] l)) as [[]|]; try exact I. destruct Hf.
Qed.

Ltac closed_line :=
  apply closed_render_sem; [reflexivity | vm_compute; reflexivity | intro; vm_compute; reflexivity | vm_compute; exact I].

(** lines that carry the command name at statement indentation *)
Lemma is_cmd_fn_suffix cmd suf :
  strip "_cmd_" suf = None -> is_cmd_fn cmd (append "_" (append cmd suf)) = false.
Proof.
  intros H. unfold is_cmd_fn. rewrite <- (append_assoc "_" cmd "_cmd_"), <- (append_assoc "_" cmd suf).
  rewrite strip_app_both, H. reflexivity.
Qed.

Lemma header_reads cmd suf :
  name_ok cmd -> forallb is_name_char (list_ascii_of_string suf) = true -> no_nl suf = true ->
  no_nl (append "_" (append cmd (append suf " () {"))) = true
  /\ forall rest, bash_stmt (append (append "_" (append cmd (append suf " () {"))) (append nl rest))
                  = Some (SFunc (append "_" (append cmd suf)), rest).
Proof.
  intros Hc Hsuf Hnl. split.
  - cbn [append no_nl]. rewrite !no_nl_app, (name_ok_no_nl _ Hc), Hnl. reflexivity.
  - intros rest. unfold bash_stmt, bz_stmt. rewrite !append_assoc.
    rewrite alt_skip by reflexivity. rewrite alt_skip by reflexivity. rewrite alt_skip by reflexivity.
    rewrite alt_skip by reflexivity. rewrite alt_skip by reflexivity.
    apply alt_take. erewrite pbind_lit' by reflexivity.
    assert (N1 : name (cmd ++ suf ++ " () {" ++ nl ++ rest)%string = Some (append cmd suf, (" () {" ++ nl ++ rest)%string)).
    { unfold name. rewrite <- append_assoc.
      assert (T : forallb is_name_char (list_ascii_of_string (cmd ++ suf)) = true).
      { destruct Hc as [_ Hc]. clear -Hc Hsuf. induction cmd as [|c t IH]; cbn; [exact Hsuf|].
        cbn in Hc. apply andb_prop in Hc. destruct Hc as [H1 H2]. rewrite H1, (IH H2). reflexivity. }
      change (" () {" ++ nl ++ rest)%string with (String " " ("() {" ++ nl ++ rest))%string.
      rewrite (take_name_app _ " "%char _ T eq_refl).
      destruct Hc as [Hne _]. destruct cmd; [congruence | reflexivity]. }
    rewrite (pbind_some _ _ _ _ _ N1). erewrite pbind_lit' by reflexivity.
    rewrite (pbind_some _ _ _ _ _ (eol_nl rest)). reflexivity.
Qed.

Lemma header_sem cmd suf :
  name_ok cmd -> forallb is_name_char (list_ascii_of_string suf) = true -> no_nl suf = true ->
  strip "_cmd_" suf = None ->
  line_sem cmd (append "_" (append cmd (append suf " () {"))) (Some (SFunc (append "_" (append cmd suf)))).
Proof.
  intros Hc Hsuf Hnl Hs. destruct (header_reads cmd suf Hc Hsuf Hnl) as [H1 H2].
  split; [exact H1|]. split; [exact H2|]. apply is_cmd_fn_suffix. exact Hs.
Qed.

(** ** units: maximal pieces of the skeleton that begin and end at line boundaries *)
Lemma no_nl_uint d : no_nl (NilEmpty.string_of_uint d) = true.
Proof. induction d; cbn; auto. Qed.

Lemma no_nl_sN n : no_nl (sN n) = true.
Proof.
  Transparent sN. unfold sN. destruct (N.to_uint n); try apply no_nl_uint. reflexivity. Opaque sN.
Qed.

Ltac deep_line Hnl :=
  apply deep_render_sem;
  [ reflexivity
  | unfold seg_no_nl, env_cmd; cbn [forallb assoc String.eqb Ascii.eqb Bool.eqb]; rewrite ?Hnl, ?no_nl_sN; reflexivity ].

Ltac region_list R :=
  let L := eval vm_compute in (region_lines R) in change (region_lines R) with L.

(** a unit is scanned: its lines are closed or deep, apart from the ones given first *)
Definition unit_scans_env (command : string) (env : list (string * string)) (u : list seg) (sts : list stmt) : Prop :=
  forall k rest,
    scan (List.length (region_lines u) + k) Bash command (append (render env u) rest)
    = sts ++ scan k Bash command rest.

Definition unit_scans (command : string) (u : list seg) (sts : list stmt) : Prop :=
  unit_scans_env command (env_cmd command) u sts.

Ltac unit_tac cmd Hc Hnl first_lines :=
  unfold unit_scans; intros k rest;
  rewrite render_region by (vm_compute; reflexivity);
  match goal with |- context [render_lines ?E ?R] =>
    replace (List.length (region_lines R)) with (List.length (render_lines E R)) by apply map_length
  end;
  erewrite scan_lines_sem;
  [ | unfold render_lines;
      match goal with |- context [region_lines ?R] => region_list R end;
      cbn [map];
      first_lines;
      repeat (eapply Forall2_cons; [first [closed_line | deep_line Hnl]|]);
      apply Forall2_nil ];
  match goal with |- _ = _ ++ ?T => generalize T; intro end;
  vm_compute; reflexivity.

Section Units.
Variable command : string.
Hypothesis Hc : name_ok command.
Let Hnl := name_ok_no_nl _ Hc.

(** the template without its leading newline *)
Definition drop_nl (t : list seg) : list seg :=
  match t with
  | Text (String c s) :: r => if Ascii.eqb c nl_char then txt s ++ r else t
  | _ => t
  end.

Definition U_sub0 := write_subword_fn_0 ++ seg_nl.
Definition U_sub2 := write_subword_fn_2 ++ seg_nl.
Definition U_sub8 := write_subword_fn_8 ++ seg_nl.
Definition U_sub910 := write_subword_fn_9 ++ write_subword_fn_10 ++ seg_nl ++ seg_nl.

Lemma U_sub0_scans :
  unit_scans command U_sub0
    [SFunc (append "_" (append command "_subword")); SScalar "subword_state" 0; SScalar "char_index" 0; SScalar "matched" 0].
Proof.
  unit_tac command Hc Hnl ltac:(eapply Forall2_cons; [apply (header_sem command "_subword" Hc); reflexivity|]).
Qed.

Lemma U_sub1_scans : unit_scans command write_subword_fn_1 [].
Proof. unit_tac command Hc Hnl idtac. Qed.
Lemma U_sub2_scans : unit_scans command U_sub2 [].
Proof. unit_tac command Hc Hnl idtac. Qed.
Lemma U_sub3_scans : unit_scans command write_subword_fn_3 [].
Proof. unit_tac command Hc Hnl idtac. Qed.
Lemma U_sub4_scans : unit_scans command write_subword_fn_4 [].
Proof. unit_tac command Hc Hnl idtac. Qed.
Lemma U_sub5_scans : unit_scans command write_subword_fn_5 [].
Proof. unit_tac command Hc Hnl idtac. Qed.
Lemma U_sub6_scans : unit_scans command write_subword_fn_6 [].
Proof. unit_tac command Hc Hnl idtac. Qed.
Lemma U_sub7_scans : unit_scans command write_subword_fn_7 [SLits "subword_candidates" []; SLits "subword_matches" []].
Proof. unit_tac command Hc Hnl idtac. Qed.
Lemma U_sub8_scans : unit_scans command U_sub8 [].
Proof. unit_tac command Hc Hnl idtac. Qed.
Lemma U_sub910_scans : unit_scans command U_sub910 [SEnd].
Proof. unit_tac command Hc Hnl idtac. Qed.
End Units.

(** ** the remaining lines that carry variable text at statement indentation *)
Ltac nonl H1 H2 :=
  repeat (progress (cbn [append no_nl]; rewrite ?no_nl_app, ?H1, ?H2, ?no_nl_sN)); reflexivity.

Lemma name_chars_app a b :
  forallb is_name_char (list_ascii_of_string a) = true -> forallb is_name_char (list_ascii_of_string b) = true ->
  forallb is_name_char (list_ascii_of_string (append a b)) = true.
Proof. intros Ha Hb. induction a as [|c t IH]; cbn in *; [exact Hb|]. apply andb_prop in Ha. destruct Ha as [H1 H2]. rewrite H1, (IH H2). reflexivity. Qed.

Lemma name_chars_uint d : forallb is_name_char (list_ascii_of_string (NilEmpty.string_of_uint d)) = true.
Proof. induction d; cbn; auto. Qed.

Lemma name_chars_sN n : forallb is_name_char (list_ascii_of_string (sN n)) = true.
Proof. Transparent sN. unfold sN. destruct (N.to_uint n); try apply name_chars_uint. reflexivity. Opaque sN. Qed.

Lemma name_read (v : string) c r :
  v <> EmptyString -> forallb is_name_char (list_ascii_of_string v) = true -> is_name_char c = false ->
  name (append v (String c r)) = Some (v, String c r).
Proof.
  intros Hne Hv Hc. unfold name. rewrite (take_name_app _ _ _ Hv Hc). destruct v; [congruence | reflexivity].
Qed.

(** [    local VAR=N] as it comes out of a template: the hole value is followed by the empty rest of the line *)
Lemma scalar_sem cmd var n :
  var = "max_fallback_level" \/ var = "state" ->
  line_sem cmd (append "    local " (append var (append "=" (append (sN n) EmptyString)))) (Some (SScalar var n)).
Proof.
  intros Hvar. rewrite QuoteRT.append_nil_r. split; [|split; [|exact I]].
  - destruct Hvar as [-> | ->]; nonl no_nl_sN no_nl_sN.
  - intros rest. pose proof (bash_scalar_stmt var n rest Hvar) as H. unfold scalar_line in H.
    rewrite !append_assoc in H. rewrite !append_assoc. exact H.
Qed.

(** complete -o nospace -F _<cmd> <cmd> *)
Lemma register_sem cmd :
  name_ok cmd ->
  line_sem cmd (append "complete -o nospace -F _" (append cmd (append " " (append cmd EmptyString))))
           (Some (SRegister [append "_" cmd; cmd])).
Proof.
  intros [Hne Hc]. pose proof (name_ok_no_nl cmd (conj Hne Hc)) as Hnl. rewrite QuoteRT.append_nil_r.
  split; [|split; [|exact I]].
  - nonl Hnl Hnl.
  - intros rest. unfold bash_stmt, bz_stmt. rewrite !append_assoc.
    do 7 (rewrite alt_skip by reflexivity). apply alt_take.
    change ("complete -o nospace -F _" ++ cmd ++ " " ++ cmd ++ nl ++ rest)%string
      with ("complete -o nospace -F " ++ ("_" ++ cmd) ++ String " " (cmd ++ nl ++ rest))%string.
    rewrite pbind_lit.
    assert (H1 : forallb is_name_char (list_ascii_of_string ("_" ++ cmd)%string) = true) by (cbn; exact Hc).
    rewrite (pbind_some _ _ _ _ _ (name_read ("_" ++ cmd)%string " "%char _ ltac:(discriminate) H1 eq_refl)).
    erewrite pbind_lit' by reflexivity.
    change (cmd ++ nl ++ rest)%string with (cmd ++ String nl_char rest)%string.
    rewrite (pbind_some _ _ _ _ _ (name_read cmd nl_char _ Hne Hc eq_refl)).
    change (String nl_char rest) with (nl ++ rest)%string.
    rewrite (pbind_some _ _ _ _ _ (eol_nl rest)). reflexivity.
Qed.

(** [    _<cmd><suffix> "$1" "$2"]: the call that ends a wrapper *)
Lemma call_sem cmd suf :
  name_ok cmd -> forallb is_name_char (list_ascii_of_string suf) = true -> no_nl suf = true ->
  line_sem cmd (append "    _" (append cmd (append suf (append " ""$1"" ""$2""" EmptyString))))
           (Some (SCall (append "_" (append cmd suf)))).
Proof.
  intros [Hne Hc] Hsuf Hsnl. pose proof (name_ok_no_nl cmd (conj Hne Hc)) as Hnl. rewrite QuoteRT.append_nil_r.
  assert (Hv : forallb is_name_char (list_ascii_of_string (cmd ++ suf)%string) = true) by (apply name_chars_app; assumption).
  assert (Hvne : (cmd ++ suf)%string <> EmptyString) by (destruct cmd; [congruence | discriminate]).
  split; [|split; [|exact I]].
  - nonl Hnl Hsnl.
  - intros rest. unfold bash_stmt, bz_stmt. rewrite !append_assoc.
    set (R := ("""$1"" ""$2""" ++ nl ++ rest)%string).
    assert (E4 : ("    _" ++ cmd ++ suf ++ " ""$1"" ""$2""" ++ nl ++ rest)%string
                 = ("    " ++ ("_" ++ cmd ++ suf) ++ String " " R)%string)
      by (unfold R; rewrite !append_assoc; reflexivity).
    assert (E5 : ("    _" ++ cmd ++ suf ++ " ""$1"" ""$2""" ++ nl ++ rest)%string
                 = ("    _" ++ (cmd ++ suf) ++ String " " R)%string)
      by (unfold R; rewrite !append_assoc; reflexivity).
    do 3 (rewrite alt_skip by reflexivity).
    (* X[s]=... : the name is followed by a blank, not by [ *)
    rewrite alt_skip.
    2:{ rewrite E4. rewrite pbind_lit.
        assert (H1 : forallb is_name_char (list_ascii_of_string ("_" ++ cmd ++ suf)%string) = true) by (cbn; exact Hv).
        rewrite (pbind_some _ _ _ _ _ (name_read ("_" ++ cmd ++ suf)%string " "%char _ ltac:(discriminate) H1 eq_refl)).
        reflexivity. }
    apply alt_take. rewrite E5. rewrite pbind_lit.
    rewrite (pbind_some _ _ _ _ _ (name_read (cmd ++ suf)%string " "%char _ Hvne Hv eq_refl)).
    erewrite pbind_lit' by reflexivity. unfold R. cbv beta.
    match goal with |- context [line ?X] =>
      replace (line X) with ("$1"" ""$2""", rest) by (symmetry; apply (line_app "$1"" ""$2""" rest eq_refl))
    end.
    try rewrite append_assoc. reflexivity.
Qed.

(** the first line of the script *)
Lemma hash_sem cmd x : no_nl x = true -> line_sem cmd (append "# " x) None.
Proof. intros H. split; [exact H|]. split; [|exact I]. intros rest. reflexivity. Qed.

Lemma header_main_sem cmd :
  name_ok cmd -> line_sem cmd (append "_" (append cmd " () {")) (Some (SFunc (append "_" cmd))).
Proof.
  intros Hc. pose proof (header_sem cmd EmptyString Hc eq_refl eq_refl eq_refl) as H.
  cbn [append] in H. rewrite QuoteRT.append_nil_r in H. exact H.
Qed.

(** ** the units of the completion function [_<cmd>] *)
Section MainUnits.
Variable command : string.
Hypothesis Hc : name_ok command.
Let Hnl := name_ok_no_nl _ Hc.

Definition U_head := write_completion_script_0.
Definition U_main_a := write_completion_script_2 ++ write_completion_script_3 ++ seg_nl.
Definition U_main13 := write_completion_script_13 ++ seg_nl.
Definition U_main14 := drop_nl write_completion_script_14 ++ seg_nl.
Definition U_main15 := drop_nl write_completion_script_15 ++ seg_nl.
Definition U_main16 := drop_nl write_completion_script_16.
Definition U_main17 := write_completion_script_17.

Lemma U_head_scans : unit_scans command U_head [].
Proof. unit_tac command Hc Hnl idtac. Qed.

Lemma U_main_a_scans : unit_scans command U_main_a [SFunc (append "_" command)].
Proof.
  unit_tac command Hc Hnl ltac:(eapply Forall2_cons; [apply (header_main_sem command Hc)|]).
Qed.

Definition env_state (start : N) : list (string * string) := ("starting_state", sN start) :: env_cmd command.

Lemma U_main6_scans start :
  unit_scans_env command (env_state start) write_completion_script_6 [SScalar "state" start; SScalar "word_index" 1].
Proof.
  unit_tac command Hc Hnl
    ltac:(eapply Forall2_cons; [closed_line|];
          eapply Forall2_cons; [apply (scalar_sem command "state" start); auto|]).
Qed.

Lemma U_main7_scans : unit_scans command write_completion_script_7 [].
Proof. unit_tac command Hc Hnl idtac. Qed.
Lemma U_main8_scans : unit_scans command write_completion_script_8 [].
Proof. unit_tac command Hc Hnl idtac. Qed.
Lemma U_main9_scans : unit_scans command write_completion_script_9 [].
Proof. unit_tac command Hc Hnl idtac. Qed.
Lemma U_main10_scans : unit_scans command write_completion_script_10 [].
Proof. unit_tac command Hc Hnl idtac. Qed.

Definition env_max (m : N) : list (string * string) := ("max_fallback_level", sN m) :: env_cmd command.

Ltac unit_open :=
  unfold unit_scans, unit_scans_env; intros k rest;
  rewrite render_region by (vm_compute; reflexivity);
  match goal with |- context [render_lines ?E ?R] =>
    replace (List.length (region_lines R)) with (List.length (render_lines E R)) by apply map_length
  end.
Ltac unit_lines :=
  unfold render_lines;
  match goal with |- context [region_lines ?R] => region_list R end;
  cbn [map].
Ltac unit_close :=
  match goal with |- _ = _ ++ ?T => generalize T; intro end; vm_compute; reflexivity.

Lemma U_main13_scans m :
  unit_scans_env command (env_max m) U_main13
    [SLits "candidates" []; SLits "matches" []; SScalar "max_fallback_level" m].
Proof.
  unit_open. erewrite scan_lines_sem.
  2:{ unit_lines.
      repeat (eapply Forall2_cons; [first [closed_line | deep_line Hnl]|]).
      eapply Forall2_cons.
      { unfold env_max; cbn [render assoc String.eqb Ascii.eqb Bool.eqb env_cmd].
        apply (scalar_sem command "max_fallback_level" m); auto. }
      repeat (eapply Forall2_cons; [first [closed_line | deep_line Hnl]|]).
      apply Forall2_nil. }
  unit_close.
Qed.

Lemma U_main17_scans :
  unit_scans command U_main17 [SEnd; SRegister [append "_" command; command]].
Proof.
  unit_open. erewrite scan_lines_sem.
  2:{ unit_lines.
      repeat (eapply Forall2_cons; [first [closed_line | deep_line Hnl]|]).
      eapply Forall2_cons.
      { cbn [render assoc String.eqb Ascii.eqb Bool.eqb env_cmd]. apply (register_sem command Hc). }
      apply Forall2_nil. }
  unit_close.
Qed.

Lemma U_main14_scans : unit_scans command U_main14 [].
Proof. unit_tac command Hc Hnl idtac. Qed.
Lemma U_main15_scans : unit_scans command U_main15 [].
Proof. unit_tac command Hc Hnl idtac. Qed.
Lemma U_main16_scans : unit_scans command U_main16 [].
Proof. unit_tac command Hc Hnl idtac. Qed.
End MainUnits.

(** ** composing: [scans n text sts] = the scanner reads [text] (followed by anything) as [sts],
    using [n] steps of fuel, and [text] is at least [n] characters long *)
Definition scans (cmd : string) (n : nat) (text : string) (sts : list stmt) : Prop :=
  (n <= String.length text)%nat
  /\ forall k rest, scan (n + k) Bash cmd (append text rest) = sts ++ scan k Bash cmd rest.

Lemma scans_nil cmd : scans cmd 0 EmptyString [].
Proof. split; [apply Nat.le_refl | reflexivity]. Qed.

Lemma scans_app cmd n1 t1 s1 n2 t2 s2 :
  scans cmd n1 t1 s1 -> scans cmd n2 t2 s2 -> scans cmd (n1 + n2) (append t1 t2) (s1 ++ s2).
Proof.
  intros [L1 H1] [L2 H2]. split.
  - rewrite length_app. lia.
  - intros k rest. rewrite append_assoc, <- Nat.add_assoc, H1, H2, app_assoc. reflexivity.
Qed.

Lemma length_unlines_ge ls : (List.length ls <= String.length (unlines ls))%nat.
Proof.
  induction ls as [|l ls IH]; [apply Nat.le_refl|]. unfold unlines in *. cbn [map sconcat List.length].
  rewrite !length_app. cbn [String.length nl]. change (String.length nl) with 1%nat. lia.
Qed.

Lemma unit_scans_scans cmd env u sts :
  last (tpl_lines_go [] u) [Text "x"] = [] ->
  unit_scans_env cmd env u sts -> scans cmd (List.length (region_lines u)) (render env u) sts.
Proof.
  intros Hl H. split; [|exact H]. rewrite (render_region env u Hl). unfold render_lines.
  rewrite <- (map_length (render env) (region_lines u)). apply length_unlines_ge.
Qed.

(** the lines read by the lemmas of BashCodec.v ([reads_as]: the line includes its newline) *)
Lemma reads_scans cmd lines stmts :
  Forall2 reads_as lines stmts -> scans cmd (List.length stmts) (sconcat lines) stmts.
Proof.
  intros H. split; [|intros k rest; apply scan_lines; exact H].
  induction H as [|ln st lines stmts [Hne _] _ IH]; [apply Nat.le_refl|]. cbn [sconcat List.length].
  rewrite length_app. destruct ln; [congruence|]. cbn [String.length]. lia.
Qed.

Lemma scans_line cmd l o : line_sem cmd l o -> scans cmd 1 (append l nl) (stmts_of [o]).
Proof.
  intros H. split.
  - rewrite length_app. change (String.length nl) with 1%nat. lia.
  - intros k rest. pose proof (scan_lines_sem cmd [l] [o] (Forall2_cons _ _ H (Forall2_nil _)) k rest) as E.
    unfold unlines in E. cbn [map sconcat] in E. rewrite QuoteRT.append_nil_r in E. exact E.
Qed.

(** ** the function of an external command: header, body, closing brace, blank line *)
Lemma join_lines_join l : join_lines l = join nl l.
Proof. induction l as [|x [|y l] IH]; [reflexivity | reflexivity |]. cbn [join_lines join] in *. rewrite IH. reflexivity. Qed.

Definition body_ok (body : string) : Prop :=
  forallb (fun l => negb (String.eqb l "}")) (split_nl body) = true.

Lemma split_nl_no_nl s : forallb no_nl (split_nl s) = true.
Proof.
  induction s as [|c t IH]; [reflexivity|]. cbn [split_nl]. destruct (Ascii.eqb c nl_char) eqn:E.
  - cbn. exact IH.
  - destruct (split_nl t) as [|x r]; cbn in *; [rewrite E; reflexivity|].
    apply andb_prop in IH. destruct IH as [H1 H2]. rewrite E, H1, H2. reflexivity.
Qed.

Lemma body_lines_unlines ls T :
  forallb no_nl ls = true -> forallb (fun l => negb (String.eqb l "}")) ls = true ->
  forall fuel, (List.length ls < fuel)%nat ->
  body_lines fuel "}" (append (unlines ls) (append "}" (append nl T))) = Some (ls, T).
Proof.
  induction ls as [|l ls IH]; intros Hn Hb fuel Hf.
  - destruct fuel; [lia|]. cbn [unlines map sconcat append body_lines].
    change (line (String "}" (nl ++ T))) with (line ("}" ++ nl ++ T))%string. rewrite (line_app "}" T eq_refl).
    reflexivity.
  - destruct fuel; [cbn in Hf; lia|]. cbn [forallb] in Hn, Hb. apply andb_prop in Hn, Hb.
    destruct Hn as [Hn1 Hn2], Hb as [Hb1 Hb2]. unfold unlines. cbn [map sconcat]. rewrite !append_assoc.
    cbn [body_lines]. rewrite (line_app l _ Hn1). apply negb_true_iff in Hb1. rewrite Hb1.
    destruct (l ++ nl ++ sconcat (map (fun x => x ++ nl) ls) ++ "}" ++ nl ++ T)%string eqn:E;
      [destruct l; discriminate E|].
    change (sconcat (map (fun x => x ++ nl) ls))%string with (unlines ls).
    rewrite (IH Hn2 Hb2 fuel) by (cbn in Hf; lia). reflexivity.
Qed.

Lemma unlines_split body : unlines (split_nl body) = append body nl.
Proof.
  pose proof (join_split_nl body) as H. pose proof (split_nl_nonempty body) as Hne.
  destruct (split_nl body) as [|x l]; [congruence|]. clear Hne. rewrite <- H. clear H.
  revert x. induction l as [|y l IH]; intros x.
  - unfold unlines. cbn [map sconcat join]. rewrite QuoteRT.append_nil_r. reflexivity.
  - specialize (IH y). unfold unlines in *. cbn [map sconcat] in *. rewrite join_cons2, !append_assoc.
    rewrite !append_assoc in IH. f_equal. f_equal. exact IH.
Qed.

Lemma is_cmd_fn_true cmd id : is_cmd_fn cmd (append "_" (append cmd (append "_cmd_" (sN id)))) = true.
Proof.
  unfold is_cmd_fn. rewrite <- (append_assoc "_" cmd "_cmd_"), <- (append_assoc "_" cmd (append "_cmd_" (sN id))).
  rewrite <- (append_assoc (append "_" cmd) "_cmd_" (sN id)). rewrite strip_app.
  pose proof (take_digits_uint (N.to_uint id) EmptyString I) as T. rewrite QuoteRT.append_nil_r in T.
  Transparent sN. unfold sN at 1. rewrite T. fold (sN id). Opaque sN.
  destruct (sN_nonempty id) as [c [s' E]]. rewrite E. reflexivity.
Qed.

Definition cmd_fn_text (command : string) (id : N) (body : string) : string :=
  append (append "_" (append command (append (append "_cmd_" (sN id)) " () {")))
         (append nl (append "    " (append body (append nl (append "}" (append nl nl)))))).

Lemma blank_line_scan cmd k rest : scan (S k) Bash cmd (append nl rest) = scan k Bash cmd rest.
Proof.
  pose proof (scan_lines_sem cmd [EmptyString] [None]) as H.
  assert (L : line_sem cmd EmptyString None) by (split; [reflexivity | split; [intros r; reflexivity | exact I]]).
  specialize (H (Forall2_cons _ _ L (Forall2_nil _)) k rest). exact H.
Qed.

Lemma scan_unfold k cmd s :
  scan (S k) Bash cmd s =
  match s with
  | EmptyString => []
  | _ =>
      match bash_stmt s with
      | Some (SFunc n, r) =>
          if is_cmd_fn cmd n then
            match read_body Bash r with
            | Some (b, r') => SFunc n :: SBody b :: SEnd :: scan k Bash cmd r'
            | None => SFunc n :: scan k Bash cmd r
            end
          else SFunc n :: scan k Bash cmd r
      | Some (st, r) => st :: scan k Bash cmd r
      | None => let (_, r) := line s in scan k Bash cmd r
      end
  end.
Proof. reflexivity. Qed.

Lemma cmd_fn_scans command id body :
  name_ok command -> body_ok body ->
  scans command 2 (cmd_fn_text command id body)
        [SFunc (append "_" (append command (append "_cmd_" (sN id)))); SBody body; SEnd].
Proof.
  intros Hc Hb. split; [unfold cmd_fn_text; rewrite !length_app; cbn [String.length]; lia|].
  intros k rest. unfold cmd_fn_text.
  assert (Hsuf : forallb is_name_char (list_ascii_of_string ("_cmd_" ++ sN id)%string) = true)
    by (apply (name_chars_app "_cmd_"); [reflexivity | apply name_chars_sN]).
  assert (Hsnl : no_nl ("_cmd_" ++ sN id)%string = true) by (rewrite no_nl_app, no_nl_sN; reflexivity).
  destruct (header_reads command ("_cmd_" ++ sN id)%string Hc Hsuf Hsnl) as [_ Hrd].
  set (hdr := ("_" ++ command ++ ("_cmd_" ++ sN id) ++ " () {")%string) in *.
  set (R := ("    " ++ body ++ nl ++ "}" ++ nl ++ nl)%string).
  rewrite (append_assoc hdr). rewrite (append_assoc nl R rest).
  change (2 + k)%nat with (S (S k)). rewrite scan_unfold.
  destruct (hdr ++ nl ++ R ++ rest)%string eqn:E; [destruct hdr; discriminate E|]. rewrite <- E. clear E.
  rewrite Hrd, is_cmd_fn_true.
  unfold read_body, R. rewrite !append_assoc. rewrite strip_app.
  rewrite <- (append_assoc body nl), <- (unlines_split body).
  rewrite (body_lines_unlines (split_nl body) (nl ++ rest)%string (split_nl_no_nl body) Hb).
  - rewrite join_lines_join, join_split_nl, blank_line_scan. reflexivity.
  - rewrite unlines_split. rewrite !length_app. pose proof (length_unlines_ge (split_nl body)) as L.
    rewrite unlines_split, length_app in L. change (String.length nl) with 1%nat in *. lia.
Qed.

(** ** wrapper and shape functions of within-word automata *)
Ltac tpl_norm := cbv -[append sN]; rewrite ?append_assoc, ?QuoteRT.append_nil_r; cbn [append]; reflexivity.

Lemma tpl_wrapper_header command id :
  fmtln write_subword_wrapper_fn_0 [("command", command); ("id", sN id)]
  = append (append "_" (append command (append (append "_subword_" (sN id)) " () {"))) nl.
Proof. tpl_norm. Qed.
Lemma tpl_shape_wrapper_header command id :
  fmtln write_subword_shape_wrapper_fn_0 [("command", command); ("id", sN id)]
  = append (append "_" (append command (append (append "_subword_" (sN id)) " () {"))) nl.
Proof. tpl_norm. Qed.
Lemma tpl_shape_header command sid :
  fmtln write_subword_shape_fn_0 [("command", command); ("shape_id", sN sid)]
  = append (append "_" (append command (append (append "_subword_shape_" (sN sid)) " () {"))) nl.
Proof. tpl_norm. Qed.
Lemma tpl_wrapper_call command :
  fmtln write_subword_wrapper_fn_1 [("command", command)]
  = append (append "    _" (append command (append "_subword" (append " ""$1"" ""$2""" EmptyString)))) nl.
Proof. tpl_norm. Qed.
Lemma tpl_shape_call command :
  fmtln write_subword_shape_fn_1 [("command", command)]
  = append (append "    _" (append command (append "_subword" (append " ""$1"" ""$2""" EmptyString)))) nl.
Proof. tpl_norm. Qed.
Lemma tpl_shape_wrapper_call command sid :
  fmtln write_subword_shape_wrapper_fn_1 [("command", command); ("shape_id", sN sid)]
  = append (append "    _" (append command (append (append "_subword_shape_" (sN sid)) (append " ""$1"" ""$2""" EmptyString)))) nl.
Proof. tpl_norm. Qed.
Lemma tpl_close_wrapper : fmtln write_subword_wrapper_fn_2 [] = append "}" nl.
Proof. tpl_norm. Qed.
Lemma tpl_close_shape : fmtln write_subword_shape_fn_2 [] = append "}" nl.
Proof. tpl_norm. Qed.
Lemma tpl_close_shape_wrapper : fmtln write_subword_shape_wrapper_fn_2 [] = append "}" nl.
Proof. tpl_norm. Qed.

Lemma close_sem cmd : line_sem cmd "}" (Some SEnd).
Proof. split; [reflexivity|]. split; [intros rest; reflexivity | exact I]. Qed.

Lemma blank_sem cmd : line_sem cmd EmptyString None.
Proof. split; [reflexivity|]. split; [intros rest; reflexivity | exact I]. Qed.

Lemma sub_suffix_ok (pre : string) (n : N) :
  forallb is_name_char (list_ascii_of_string pre) = true -> no_nl pre = true ->
  forallb is_name_char (list_ascii_of_string (append pre (sN n))) = true /\ no_nl (append pre (sN n)) = true.
Proof.
  intros H1 H2. split; [apply name_chars_app; [exact H1 | apply name_chars_sN] | rewrite no_nl_app, H2, no_nl_sN; reflexivity].
Qed.

Definition acc_pairs (acc : list N) : list (N * N) := map (fun s => (s, 1)) acc.

Transparent sN.
Lemma kv_one (s : N) : ("[" ++ sN s ++ "]=1")%string = kv (s, 1).
Proof. reflexivity. Qed.
Opaque sN.

Lemma write_accepting_states_line acc :
  write_accepting_states acc = assoc_pairs_line "accepting_states" (acc_pairs acc).
Proof.
  unfold write_accepting_states, assoc_pairs_line, acc_pairs. rewrite map_map.
  rewrite (map_ext _ _ kv_one).
  generalize (join " " (map (fun x : N => kv (x, 1)) acc)). intros b. tpl_norm.
Qed.

Lemma accepting_scans cmd acc :
  scans cmd 1 (write_accepting_states acc) [SAssoc "accepting_states" (map (fun p => (fst p, [snd p])) (acc_pairs acc))].
Proof.
  rewrite write_accepting_states_line.
  pose proof (reads_scans cmd [assoc_pairs_line "accepting_states" (acc_pairs acc)]
                [SAssoc "accepting_states" (map (fun p => (fst p, [snd p])) (acc_pairs acc))]) as H.
  cbn [sconcat List.length] in H. rewrite QuoteRT.append_nil_r in H. apply H.
  constructor; [|constructor]. split; [discriminate|]. split; [exact I|]. intros rest. apply bash_pairs_stmt. auto.
Qed.

Lemma literals_scans cmd t :
  scans cmd 1 (write_literals t) [SLits "literals" (map (fun l => snd (fst l)) (t_literals t))].
Proof.
  rewrite write_literals_line.
  pose proof (reads_scans cmd [literals_line (map (fun l => snd (fst l)) (t_literals t))]
                [SLits "literals" (map (fun l => snd (fst l)) (t_literals t))]) as H.
  cbn [sconcat List.length] in H. rewrite QuoteRT.append_nil_r in H. apply H.
  constructor; [|constructor]. split; [discriminate|]. split; [exact I|]. intros rest.
  apply bash_literals_stmt. apply all_admissible_bash.
Qed.

Lemma match_scans cmd t : scans cmd (List.length (match_stmts t)) (write_match_transitions t) (match_stmts t).
Proof. rewrite write_match_transitions_lines. apply reads_scans, reads_match. Qed.

Lemma completion_scans cmd t : scans cmd (List.length (completion_stmts t)) (write_completion_tables t) (completion_stmts t).
Proof. rewrite write_completion_tables_lines. apply reads_scans, reads_completion. Qed.

Definition acc_stmt (acc : list N) : stmt := SAssoc "accepting_states" (map (fun p => (fst p, [snd p])) (acc_pairs acc)).
Definition lits_stmt (t : tables) : stmt := SLits "literals" (map (fun l => snd (fst l)) (t_literals t)).
Definition fn_name (command suf : string) : string := append "_" (append command suf).

Definition wrapper_stmts (command : string) (id : N) (t : tables) (acc : list N) : list stmt :=
  [SFunc (fn_name command (append "_subword_" (sN id))); acc_stmt acc; lits_stmt t]
  ++ match_stmts t ++ completion_stmts t ++ [SCall (fn_name command "_subword"); SEnd].

Definition shape_fn_stmts (command : string) (sid : N) (t : tables) : list stmt :=
  [SFunc (fn_name command (append "_subword_shape_" (sN sid)))]
  ++ match_stmts t ++ completion_stmts t ++ [SCall (fn_name command "_subword"); SEnd].

Definition shape_wrapper_stmts (command : string) (id sid : N) (t : tables) (acc : list N) : list stmt :=
  [SFunc (fn_name command (append "_subword_" (sN id))); acc_stmt acc; lits_stmt t;
   SCall (fn_name command (append "_subword_shape_" (sN sid))); SEnd].

Section Wrappers.
Variable command : string.
Hypothesis Hc : name_ok command.

Lemma header_scans suf :
  forallb is_name_char (list_ascii_of_string suf) = true -> no_nl suf = true -> strip "_cmd_" suf = None ->
  scans command 1 (append (append "_" (append command (append suf " () {"))) nl) [SFunc (fn_name command suf)].
Proof. intros H1 H2 H3. apply (scans_line command _ _ (header_sem command suf Hc H1 H2 H3)). Qed.

Lemma call_scans suf :
  forallb is_name_char (list_ascii_of_string suf) = true -> no_nl suf = true ->
  scans command 1 (append (append "    _" (append command (append suf (append " ""$1"" ""$2""" EmptyString)))) nl)
        [SCall (fn_name command suf)].
Proof. intros H1 H2. apply (scans_line command _ _ (call_sem command suf Hc H1 H2)). Qed.

Lemma close_scans : scans command 1 (append "}" nl) [SEnd].
Proof. apply (scans_line command _ _ (close_sem command)). Qed.

Lemma blank_scans : scans command 1 nl [].
Proof. apply (scans_line command _ _ (blank_sem command)). Qed.

Lemma wrapper_scans id t acc :
  exists n, scans command n (append (write_subword_wrapper_fn command id t acc) nl) (wrapper_stmts command id t acc).
Proof.
  destruct (sub_suffix_ok "_subword_" id eq_refl eq_refl) as [S1 S2].
  eexists. unfold write_subword_wrapper_fn, wrapper_stmts.
  rewrite tpl_wrapper_header, tpl_wrapper_call, tpl_close_wrapper.
  set (A := (("_" ++ command ++ ("_subword_" ++ sN id) ++ " () {") ++ nl)%string).
  set (F := (("    _" ++ command ++ "_subword" ++ " ""$1"" ""$2""" ++ "") ++ nl)%string).
  set (G := ("}" ++ nl)%string).
  rewrite !append_assoc.
  change ([SFunc (fn_name command ("_subword_" ++ sN id)); acc_stmt acc; lits_stmt t] ++
          match_stmts t ++ completion_stmts t ++ [SCall (fn_name command "_subword"); SEnd])
    with ([SFunc (fn_name command ("_subword_" ++ sN id))] ++ [acc_stmt acc] ++ [lits_stmt t] ++
          match_stmts t ++ completion_stmts t ++ [SCall (fn_name command "_subword")] ++ [SEnd] ++ []).
  apply scans_app; [apply (header_scans _ S1 S2 eq_refl)|].
  apply scans_app; [apply accepting_scans|].
  apply scans_app; [apply literals_scans|].
  apply scans_app; [apply match_scans|].
  apply scans_app; [apply completion_scans|].
  apply scans_app; [apply (call_scans "_subword" eq_refl eq_refl)|].
  apply scans_app; [apply close_scans|]. apply blank_scans.
Qed.

Lemma shape_fn_scans sid t :
  exists n, scans command n (append (write_subword_shape_fn command sid t) nl) (shape_fn_stmts command sid t).
Proof.
  destruct (sub_suffix_ok "_subword_shape_" sid eq_refl eq_refl) as [S1 S2].
  eexists. unfold write_subword_shape_fn, shape_fn_stmts.
  rewrite tpl_shape_header, tpl_shape_call, tpl_close_shape.
  set (A := (("_" ++ command ++ ("_subword_shape_" ++ sN sid) ++ " () {") ++ nl)%string).
  set (F := (("    _" ++ command ++ "_subword" ++ " ""$1"" ""$2""" ++ "") ++ nl)%string).
  set (G := ("}" ++ nl)%string).
  rewrite !append_assoc.
  change ([SFunc (fn_name command ("_subword_shape_" ++ sN sid))] ++
          match_stmts t ++ completion_stmts t ++ [SCall (fn_name command "_subword"); SEnd])
    with ([SFunc (fn_name command ("_subword_shape_" ++ sN sid))] ++
          match_stmts t ++ completion_stmts t ++ [SCall (fn_name command "_subword")] ++ [SEnd] ++ []).
  apply scans_app; [apply (header_scans _ S1 S2 eq_refl)|].
  apply scans_app; [apply match_scans|].
  apply scans_app; [apply completion_scans|].
  apply scans_app; [apply (call_scans "_subword" eq_refl eq_refl)|].
  apply scans_app; [apply close_scans|]. apply blank_scans.
Qed.

Lemma shape_wrapper_scans id sid t acc :
  exists n, scans command n (append (write_subword_shape_wrapper_fn command id sid t acc) nl)
                  (shape_wrapper_stmts command id sid t acc).
Proof.
  destruct (sub_suffix_ok "_subword_" id eq_refl eq_refl) as [S1 S2].
  destruct (sub_suffix_ok "_subword_shape_" sid eq_refl eq_refl) as [T1 T2].
  eexists. unfold write_subword_shape_wrapper_fn, shape_wrapper_stmts.
  rewrite tpl_shape_wrapper_header, tpl_shape_wrapper_call, tpl_close_shape_wrapper.
  set (A := (("_" ++ command ++ ("_subword_" ++ sN id) ++ " () {") ++ nl)%string).
  set (F := (("    _" ++ command ++ ("_subword_shape_" ++ sN sid) ++ " ""$1"" ""$2""" ++ "") ++ nl)%string).
  set (G := ("}" ++ nl)%string).
  rewrite !append_assoc.
  change [SFunc (fn_name command ("_subword_" ++ sN id)); acc_stmt acc; lits_stmt t;
          SCall (fn_name command ("_subword_shape_" ++ sN sid)); SEnd]
    with ([SFunc (fn_name command ("_subword_" ++ sN id))] ++ [acc_stmt acc] ++ [lits_stmt t] ++
          [SCall (fn_name command ("_subword_shape_" ++ sN sid))] ++ [SEnd] ++ []).
  apply scans_app; [apply (header_scans _ S1 S2 eq_refl)|].
  apply scans_app; [apply accepting_scans|].
  apply scans_app; [apply literals_scans|].
  apply scans_app; [apply (call_scans _ T1 T2)|].
  apply scans_app; [apply close_scans|]. apply blank_scans.
Qed.
End Wrappers.

(** ** groups of within-word automata *)
Definition group_stmts (command : string) (a : alltables) (sid : N) (group : list N) : res (list stmt) :=
  match group with
  | [] => Panic "chunk_by: empty chunk"
  | [id] =>
      do t <- tables_of_id a id;
      do acc <- accepting_of_id a id;
      Ok (wrapper_stmts command id t acc)
  | leader :: _ =>
      do lt <- tables_of_id a leader;
      do ws <- omap (fun id => do t <- tables_of_id a id;
                               do acc <- accepting_of_id a id;
                               Ok (shape_wrapper_stmts command id sid t acc)) group;
      Ok (shape_fn_stmts command sid lt ++ List.concat ws)
  end.

Lemma obind_ok' {E A B} (x : outcome E A) (f : A -> outcome E B) b :
  obind x f = Ok b -> exists a, x = Ok a /\ f a = Ok b.
Proof. destruct x; cbn; intros H; try discriminate. eauto. Qed.

Lemma scans_ex_app cmd t1 s1 t2 s2 :
  (exists n, scans cmd n t1 s1) -> (exists n, scans cmd n t2 s2) -> exists n, scans cmd n (append t1 t2) (s1 ++ s2).
Proof. intros [n1 H1] [n2 H2]. exists (n1 + n2)%nat. apply scans_app; assumption. Qed.

Lemma members_scans command a sid (Hc : name_ok command) ids texts :
  omap (fun id => do t <- tables_of_id a id; do acc <- accepting_of_id a id;
                  Ok (append (write_subword_shape_wrapper_fn command id sid t acc) nl)) ids = Ok texts ->
  exists stss,
    omap (fun id => do t <- tables_of_id a id; do acc <- accepting_of_id a id;
                    Ok (shape_wrapper_stmts command id sid t acc)) ids = Ok stss
    /\ exists n, scans command n (sconcat texts) (List.concat stss).
Proof.
  revert texts. induction ids as [|id ids IH]; cbn [omap]; intros texts H.
  - inversion H; subst. exists []. split; [reflexivity|]. exists 0%nat. apply scans_nil.
  - apply obind_ok' in H. destruct H as [x [Hx H]]. apply obind_ok' in H. destruct H as [xs [Hxs H]].
    inversion H; subst; clear H.
    apply obind_ok' in Hx. destruct Hx as [t [Ht Hx]]. apply obind_ok' in Hx. destruct Hx as [acc [Hacc Hx]].
    inversion Hx; subst; clear Hx.
    destruct (IH _ Hxs) as [stss [Hs Hn]]. exists (shape_wrapper_stmts command id sid t acc :: stss). split.
    + rewrite Ht. cbn [obind]. rewrite Hacc. cbn [obind]. rewrite Hs. reflexivity.
    + cbn [sconcat List.concat]. apply scans_ex_app; [apply (shape_wrapper_scans command Hc) | exact Hn].
Qed.

Lemma group_scans command a sid group text :
  name_ok command -> write_group command a sid group = Ok text ->
  exists sts, group_stmts command a sid group = Ok sts /\ exists n, scans command n text sts.
Proof.
  intros Hc H. destruct group as [|id [|id2 rest]]; [discriminate H | |].
  - unfold write_group in H. unfold group_stmts.
    apply obind_ok' in H. destruct H as [t [Ht H]]. apply obind_ok' in H. destruct H as [acc [Hacc H]].
    rewrite Ht. cbn [obind]. rewrite Hacc. cbn [obind].
    eexists. split; [reflexivity|].
    assert (E : (write_subword_wrapper_fn command id t acc ++ EmitBash.nl)%string = text) by congruence.
    rewrite <- E. apply (wrapper_scans command Hc).
  - unfold write_group in H. unfold group_stmts.
    apply obind_ok' in H. destruct H as [lt [Hlt H]]. apply obind_ok' in H. destruct H as [ws [Hws H]].
    rewrite Hlt. cbn [obind].
    destruct (members_scans command a sid Hc _ _ Hws) as [stss [Hs Hn]]. rewrite Hs. cbn [obind].
    eexists. split; [reflexivity|].
    assert (E : (write_subword_shape_fn command sid lt ++ EmitBash.nl ++ sconcat ws)%string = text) by congruence.
    rewrite <- E. rewrite <- (append_assoc (write_subword_shape_fn command sid lt)).
    apply scans_ex_app; [apply (shape_fn_scans command Hc) | exact Hn].
Qed.

Lemma groups_scans command a (Hc : name_ok command) igs texts :
  omap (fun ig : N * list N => write_group command a (fst ig) (snd ig)) igs = Ok texts ->
  exists stss, omap (fun ig : N * list N => group_stmts command a (fst ig) (snd ig)) igs = Ok stss
               /\ exists n, scans command n (sconcat texts) (List.concat stss).
Proof.
  revert texts. induction igs as [|ig igs IH]; cbn [omap]; intros texts H.
  - inversion H; subst. exists []. split; [reflexivity|]. exists 0%nat. apply scans_nil.
  - apply obind_ok' in H. destruct H as [x [Hx H]]. apply obind_ok' in H. destruct H as [xs [Hxs H]].
    inversion H; subst; clear H.
    destruct (group_scans _ _ _ _ _ Hc Hx) as [sts [Hs Hn]]. destruct (IH _ Hxs) as [stss [Hss Hnn]].
    exists (sts :: stss). split; [rewrite Hs; cbn [obind]; rewrite Hss; reflexivity|].
    cbn [sconcat List.concat]. apply scans_ex_app; assumption.
Qed.

(** ** the whole script *)
Definition sub_fn_stmts (command : string) : list stmt :=
  [ SFunc (fn_name command "_subword"); SScalar "subword_state" 0; SScalar "char_index" 0; SScalar "matched" 0;
    SLits "subword_candidates" []; SLits "subword_matches" []; SEnd ].

Definition cmd_fns_stmts (command : string) (ics : list (N * string)) : list stmt :=
  flat_map (fun ic => [SFunc (fn_name command (append "_cmd_" (sN (fst ic)))); SBody (cmd_body (snd ic)); SEnd]) ics.

Definition subtrans_rows (a : alltables) : res (list (N * list (N * N))) :=
  omap (fun row : N * list (N * N) =>
          do kvs <- omap (fun pt : N * N => do id <- script_id a (fst pt); Ok (id, snd pt)) (snd row);
          Ok (fst row, kvs)) (a_subtrans a).

Definition script_stmts (command : string) (start : N) (nd : needs) (a : alltables) (groups : list (list N))
  : res (list stmt) :=
  let main := a_main a in
  do gs <- (if n_subwords nd then
              do l <- omap (fun ig : N * list N => group_stmts command a (fst ig) (snd ig)) (number_from 0 groups);
              Ok (List.concat l ++ sub_fn_stmts command)
            else Ok []);
  do st <- (if n_subwords nd then
              do rows <- subtrans_rows a;
              Ok (SDecl "subword_transitions" :: row_stmts "subword_transitions" rows)
            else Ok []);
  Ok (cmd_fns_stmts command (number_from 0 (a_commands a)) ++ gs
      ++ [SFunc (append "_" command); lits_stmt main] ++ match_stmts main ++ st
      ++ [SScalar "state" start; SScalar "word_index" 1]
      ++ completion_stmts main
      ++ (if n_subwords nd then level_stmts "subword_transitions_level_" (a_csub a) else [])
      ++ [SLits "candidates" []; SLits "matches" []; SScalar "max_fallback_level" (t_maxlevel main);
          SEnd; SRegister [append "_" command; command]]).

Lemma tpl_cmd_fn command id body :
  fmtln write_completion_script_1 (("id", sN id) :: ("cmd", body) :: env_cmd command) = cmd_fn_text command id body.
Proof. unfold cmd_fn_text. tpl_norm. Qed.

Lemma cmd_fns_scans command (Hc : name_ok command) ics :
  Forall (fun ic => body_ok (cmd_body (snd ic))) ics ->
  exists n, scans command n
    (sconcat (map (fun ic : N * string => fmtln write_completion_script_1
                                            (("id", sN (fst ic)) :: ("cmd", cmd_body (snd ic)) :: env_cmd command)) ics))
    (cmd_fns_stmts command ics).
Proof.
  induction 1 as [|ic ics Hb _ IH]; [exists 0%nat; apply scans_nil|].
  cbn [map sconcat cmd_fns_stmts flat_map]. rewrite tpl_cmd_fn.
  apply scans_ex_app; [exists 2%nat; apply (cmd_fn_scans command (fst ic) _ Hc Hb) | exact IH].
Qed.

Lemma scans_if cmd (b : bool) t s :
  (exists n, scans cmd n t s) ->
  exists n, scans cmd n (if b then t else EmptyString) (if b then s else []).
Proof. destruct b; [auto | intros _; exists 0%nat; apply scans_nil]. Qed.

Lemma unit_ex cmd env u sts :
  last (tpl_lines_go [] u) [Text "x"] = [] -> unit_scans_env cmd env u sts -> exists n, scans cmd n (render env u) sts.
Proof. intros Hl H. eexists. apply (unit_scans_scans cmd env u sts Hl H). Qed.

Lemma subtrans_text a rows_text :
  omap (fun row : N * list (N * N) =>
          do kvs <- omap (fun pt : N * N => do id <- script_id a (fst pt); Ok (kv (id, snd pt))) (snd row);
          Ok (fmtln write_completion_script_5 [("state", sN (fst row)); ("state_transitions", join " " kvs)]))
       (a_subtrans a) = Ok rows_text ->
  exists rows, subtrans_rows a = Ok rows
    /\ rows_text = map (fun row : N * list (N * N) =>
                          fmtln write_completion_script_5
                            [("state", sN (fst row)); ("state_transitions", join " " (map kv (snd row)))]) rows.
Proof.
  unfold subtrans_rows. generalize (a_subtrans a). intros l. revert rows_text.
  induction l as [|row l IH]; cbn [omap]; intros rows_text H.
  - injection H as <-. exists []. split; reflexivity.
  - apply obind_ok' in H. destruct H as [x [Hx H]]. apply obind_ok' in H. destruct H as [xs [Hxs H]].
    assert (E : x :: xs = rows_text) by congruence. subst rows_text. clear H.
    apply obind_ok' in Hx. destruct Hx as [kvs [Hkvs Hx]].
    assert (Ex : fmtln write_completion_script_5 [("state", sN (fst row)); ("state_transitions", join " " kvs)] = x) by congruence.
    subst x. clear Hx.
    assert (K : exists pairs, omap (fun pt : N * N => do id <- script_id a (fst pt); Ok (id, snd pt)) (snd row) = Ok pairs
                              /\ kvs = map kv pairs).
    { clear -Hkvs. revert kvs Hkvs. generalize (snd row). intros pts. induction pts as [|pt pts IHp]; cbn [omap]; intros kvs H.
      - injection H as <-. exists []. split; reflexivity.
      - apply obind_ok' in H. destruct H as [y [Hy H]]. apply obind_ok' in H. destruct H as [ys [Hys H]].
        assert (E : y :: ys = kvs) by congruence. subst kvs.
        apply obind_ok' in Hy. destruct Hy as [id [Hid Hy]]. assert (Ey : kv (id, snd pt) = y) by congruence. subst y.
        destruct (IHp _ Hys) as [pairs [Hp ->]]. exists ((id, snd pt) :: pairs). split; [|reflexivity].
        rewrite Hid. cbn [obind]. rewrite Hp. reflexivity. }
    destruct K as [pairs [Hp ->]]. destruct (IH _ Hxs) as [rows [Hr ->]].
    exists ((fst row, pairs) :: rows). split; [|reflexivity]. rewrite Hp. cbn [obind]. rewrite Hr. reflexivity.
Qed.

(** the within-word matcher as a chain of units *)
Lemma last_line_ok u : last (tpl_lines_go [] u) [Text "x"] = [] -> True. Proof. exact (fun _ => I). Qed.

Ltac unit_of L cmd Hc :=
  first [refine (unit_ex _ _ _ _ _ (L cmd Hc)) | refine (unit_ex _ _ _ _ _ (L cmd))]; vm_compute; reflexivity.
Ltac unit_of1 H := refine (unit_ex _ _ _ _ _ H); vm_compute; reflexivity.

Lemma sub_fn_scans command (Hc : name_ok command) nc ns :
  exists n, scans command n (write_subword_fn command nc ns) (sub_fn_stmts command).
Proof.
  assert (T : write_subword_fn command nc ns
              = (render (env_cmd command) U_sub0
                 ++ (if ns then render (env_cmd command) write_subword_fn_1 else EmptyString)
                 ++ render (env_cmd command) U_sub2
                 ++ (if nc then render (env_cmd command) write_subword_fn_3 else EmptyString)
                 ++ (if ns then render (env_cmd command) write_subword_fn_4 else EmptyString)
                 ++ render (env_cmd command) write_subword_fn_5
                 ++ render (env_cmd command) write_subword_fn_6
                 ++ render (env_cmd command) write_subword_fn_7
                 ++ (if nc then render (env_cmd command) U_sub8 else EmptyString)
                 ++ render (env_cmd command) U_sub910)%string).
  { unfold write_subword_fn, U_sub0, U_sub2, U_sub8, U_sub910, fmtln, fmt, seg_nl, env_cmd. cbn [sconcat].
    rewrite !render_app. cbn [render]. destruct nc, ns; rewrite ?QuoteRT.append_nil_r, ?append_assoc; reflexivity. }
  rewrite T. clear T.
  assert (S : sub_fn_stmts command
              = [SFunc (fn_name command "_subword"); SScalar "subword_state" 0; SScalar "char_index" 0; SScalar "matched" 0]
                ++ (if ns then [] else []) ++ [] ++ (if nc then [] else []) ++ (if ns then [] else []) ++ [] ++ []
                ++ [SLits "subword_candidates" []; SLits "subword_matches" []]
                ++ (if nc then [] else []) ++ [SEnd]) by (destruct nc, ns; reflexivity).
  rewrite S. clear S.
  apply scans_ex_app; [unit_of U_sub0_scans command Hc|].
  apply scans_ex_app; [apply scans_if; unit_of U_sub1_scans command Hc|].
  apply scans_ex_app; [unit_of U_sub2_scans command Hc|].
  apply scans_ex_app; [apply scans_if; unit_of U_sub3_scans command Hc|].
  apply scans_ex_app; [apply scans_if; unit_of U_sub4_scans command Hc|].
  apply scans_ex_app; [unit_of U_sub5_scans command Hc|].
  apply scans_ex_app; [unit_of U_sub6_scans command Hc|].
  apply scans_ex_app; [unit_of U_sub7_scans command Hc|].
  apply scans_ex_app; [apply scans_if; unit_of U_sub8_scans command Hc|].
  unit_of U_sub910_scans command Hc.
Qed.

(** the completion function as a chain of units and data sections *)
Lemma tail14 env : render env write_completion_script_14 = append nl (render env (drop_nl write_completion_script_14)).
Proof. reflexivity. Qed.
Lemma tail15 env : render env write_completion_script_15 = append nl (render env (drop_nl write_completion_script_15)).
Proof. reflexivity. Qed.
Lemma tail16 env : render env write_completion_script_16 = append nl (render env (drop_nl write_completion_script_16)).
Proof. reflexivity. Qed.

Lemma tail_text command m (nsub ntc : bool) :
  (fmt write_completion_script_13 (env_max command m)
   ++ (if nsub then fmt write_completion_script_14 (env_cmd command) else EmptyString)
   ++ (if ntc then fmt write_completion_script_15 (env_cmd command) else EmptyString)
   ++ fmt write_completion_script_16 (env_cmd command)
   ++ fmt write_completion_script_17 (env_cmd command))%string
  = (render (env_max command m) U_main13
     ++ (if nsub then render (env_cmd command) U_main14 else EmptyString)
     ++ (if ntc then render (env_cmd command) U_main15 else EmptyString)
     ++ render (env_cmd command) U_main16
     ++ render (env_cmd command) U_main17)%string.
Proof.
  unfold fmt, U_main13, U_main14, U_main15, U_main16, U_main17, seg_nl.
  rewrite tail14, tail15, tail16, !render_app. cbn [render].
  destruct nsub, ntc; rewrite ?QuoteRT.append_nil_r, ?append_assoc; reflexivity.
Qed.

Lemma main_a_text command :
  (fmt write_completion_script_2 (env_cmd command) ++ fmtln write_completion_script_3 (env_cmd command))%string
  = render (env_cmd command) U_main_a.
Proof.
  unfold fmt, fmtln, U_main_a, seg_nl. rewrite !render_app. cbn [render].
  rewrite ?QuoteRT.append_nil_r, ?append_assoc. reflexivity.
Qed.

Lemma decl_subtrans_scans cmd :
  scans cmd 1 (fmtln write_completion_script_4 []) [SDecl "subword_transitions"].
Proof.
  assert (E : fmtln write_completion_script_4 [] = append "    local -A subword_transitions" nl) by tpl_norm.
  rewrite E. apply (scans_line cmd "    local -A subword_transitions" (Some (SDecl "subword_transitions"))).
  split; [reflexivity|]. split; [intros rest; reflexivity | exact I].
Qed.

Lemma sig_scans cmd sig : no_nl sig = true -> scans cmd 1 (append "# " (append sig EmitBash.nl)) [].
Proof.
  intros H. rewrite <- append_assoc. apply (scans_line cmd (append "# " sig) None). apply hash_sem. exact H.
Qed.

Lemma scan_empty k cmd : scan k Bash cmd EmptyString = [].
Proof. destruct k; reflexivity. Qed.

Lemma scans_read cmd n text sts : scans cmd n text sts -> read_stmts Bash cmd text = sts.
Proof.
  intros [Hn H]. unfold read_stmts.
  replace (S (String.length text)) with (n + (S (String.length text) - n))%nat by lia.
  rewrite <- (QuoteRT.append_nil_r text) at 2. rewrite H, scan_empty, app_nil_r. reflexivity.
Qed.

Ltac unit_open2 :=
  unfold unit_scans, unit_scans_env; intros k rest;
  rewrite render_region by (vm_compute; reflexivity);
  match goal with |- context [render_lines ?E ?R] =>
    replace (List.length (region_lines R)) with (List.length (render_lines E R)) by apply map_length
  end.
Ltac unit_lines2 :=
  unfold render_lines;
  match goal with |- context [region_lines ?R] => region_list R end;
  cbn [map].
Ltac unit_close2 :=
  match goal with |- _ = _ ++ ?T => generalize T; intro end; vm_compute; reflexivity.

Lemma U_head_scans0 command : unit_scans_env command [] U_head [].
Proof.
  unit_open2. erewrite scan_lines_sem.
  2:{ unit_lines2. repeat (eapply Forall2_cons; [closed_line|]). apply Forall2_nil. }
  unit_close2.
Qed.

Lemma rows_scans cmd (rows : list (N * list (N * N))) :
  scans cmd (List.length (row_stmts "subword_transitions" rows))
    (sconcat (map (fun row : N * list (N * N) =>
                     fmtln write_completion_script_5
                       [("state", sN (fst row)); ("state_transitions", join " " (map kv (snd row)))]) rows))
    (row_stmts "subword_transitions" rows).
Proof.
  rewrite (sconcat_map_fmtln _ (fun row => row_line "subword_transitions" (fst row) (snd row)))
    by (intros [s0 row]; apply tpl_subrow).
  apply (reads_scans cmd (row_lines "subword_transitions" rows)). apply reads_rows. auto.
Qed.

Lemma sub_levels_scans cmd levels :
  scans cmd (List.length (level_stmts "subword_transitions_level_" levels))
    (write_levels write_completion_script_11 write_completion_script_12 levels)
    (level_stmts "subword_transitions_level_" levels).
Proof. rewrite write_levels_sub. apply reads_scans. apply reads_levels. auto. Qed.

Theorem bash_script_read command sig start nd a groups s :
  name_ok command -> no_nl sig = true ->
  Forall (fun c => body_ok (cmd_body c)) (a_commands a) ->
  script command sig start nd a groups = Ok s ->
  exists sts, script_stmts command start nd a groups = Ok sts /\ read_stmts Bash command s = sts.
Proof.
  intros Hc Hsig Hbodies H. unfold script in H.
  apply obind_ok' in H. destruct H as [subs_part [Hsubs H]].
  apply obind_ok' in H. destruct H as [subtrans_part [Hst H]].
  (* the groups and the matcher *)
  assert (G : exists gs, (if n_subwords nd then
                            do l <- omap (fun ig : N * list N => group_stmts command a (fst ig) (snd ig)) (number_from 0 groups);
                            Ok (List.concat l ++ sub_fn_stmts command)
                          else Ok []) = Ok gs /\ exists n, scans command n subs_part gs).
  { destruct (n_subwords nd).
    - apply obind_ok' in Hsubs. destruct Hsubs as [texts [Ht Hs]].
      destruct (groups_scans command a Hc _ _ Ht) as [stss [Hss Hn]]. rewrite Hss. cbn [obind].
      eexists. split; [reflexivity|].
      assert (E : (sconcat texts ++ write_subword_fn command (n_sub_cmd nd) (n_sub_star nd))%string = subs_part) by congruence.
      rewrite <- E. apply scans_ex_app; [exact Hn | apply (sub_fn_scans command Hc)].
    - assert (E : EmptyString = subs_part) by congruence. rewrite <- E.
      exists []. split; [reflexivity|]. exists 0%nat. apply scans_nil. }
  destruct G as [gs [Hgs Hgn]].
  (* the within-word transitions of the completion function *)
  assert (T : exists st, (if n_subwords nd then
                            do rows <- subtrans_rows a;
                            Ok (SDecl "subword_transitions" :: row_stmts "subword_transitions" rows)
                          else Ok []) = Ok st /\ exists n, scans command n subtrans_part st).
  { destruct (n_subwords nd).
    - apply obind_ok' in Hst. destruct Hst as [rows_text [Hr Hs]].
      destruct (subtrans_text a rows_text Hr) as [rows [Hrows ->]]. rewrite Hrows. cbn [obind].
      eexists. split; [reflexivity|].
      assert (E : (fmtln write_completion_script_4 [] ++
                   sconcat (map (fun row : N * list (N * N) =>
                                   fmtln write_completion_script_5
                                     [("state", sN (fst row)); ("state_transitions", join " " (map kv (snd row)))]) rows))%string
                  = subtrans_part) by congruence.
      rewrite <- E. change (SDecl "subword_transitions" :: row_stmts "subword_transitions" rows)
        with ([SDecl "subword_transitions"] ++ row_stmts "subword_transitions" rows).
      apply scans_ex_app; [exists 1%nat; apply decl_subtrans_scans | eexists; apply rows_scans].
    - assert (E : EmptyString = subtrans_part) by congruence. rewrite <- E.
      exists []. split; [reflexivity|]. exists 0%nat. apply scans_nil. }
  destruct T as [st [Hst' Hstn]].
  unfold script_stmts. rewrite Hgs. cbn [obind]. rewrite Hst'. cbn [obind]. eexists. split; [reflexivity|].
  match type of H with Ok ?X = Ok _ => assert (E : X = s) by congruence end.
  rewrite <- E. clear E H Hsubs Hst Hgs Hst'.
  cut (exists n, scans command n
         (sconcat
            [("# " ++ sig ++ EmitBash.nl)%string; fmt write_completion_script_0 [];
             sconcat (map (fun ic : N * string =>
                             fmtln write_completion_script_1
                               (("id", sN (fst ic)) :: ("cmd", cmd_body (snd ic)) :: env_cmd command))
                          (number_from 0 (a_commands a)));
             subs_part; fmt write_completion_script_2 (env_cmd command); fmtln write_completion_script_3 (env_cmd command);
             write_literals (a_main a); write_match_transitions (a_main a); subtrans_part;
             fmt write_completion_script_6 (("starting_state", sN start) :: env_cmd command);
             (if n_subwords nd then fmt write_completion_script_7 (env_cmd command) else EmptyString);
             (if n_top_cmd nd then fmt write_completion_script_8 (env_cmd command) else EmptyString);
             (if n_top_star nd then fmt write_completion_script_9 (env_cmd command) else EmptyString);
             fmt write_completion_script_10 (env_cmd command); write_completion_tables (a_main a);
             (if n_subwords nd then write_levels write_completion_script_11 write_completion_script_12 (a_csub a) else EmptyString);
             fmt write_completion_script_13 (("max_fallback_level", sN (t_maxlevel (a_main a))) :: env_cmd command);
             (if n_subwords nd then fmt write_completion_script_14 (env_cmd command) else EmptyString);
             (if n_top_cmd nd then fmt write_completion_script_15 (env_cmd command) else EmptyString);
             fmt write_completion_script_16 (env_cmd command); fmt write_completion_script_17 (env_cmd command)])
         (cmd_fns_stmts command (number_from 0 (a_commands a)) ++ gs ++
          [SFunc ("_" ++ command); lits_stmt (a_main a)] ++ match_stmts (a_main a) ++ st ++
          [SScalar "state" start; SScalar "word_index" 1] ++ completion_stmts (a_main a) ++
          (if n_subwords nd then level_stmts "subword_transitions_level_" (a_csub a) else []) ++
          [SLits "candidates" []; SLits "matches" []; SScalar "max_fallback_level" (t_maxlevel (a_main a)); SEnd;
           SRegister [("_" ++ command)%string; command]])).
  { intros [n Hn]. exact (scans_read _ _ _ _ Hn). }
  cbn [sconcat].
  rewrite (QuoteRT.append_nil_r (fmt write_completion_script_17 (env_cmd command))).
  change (("max_fallback_level", sN (t_maxlevel (a_main a))) :: env_cmd command) with (env_max command (t_maxlevel (a_main a))).
  rewrite tail_text.
  rewrite <- (append_assoc (fmt write_completion_script_2 (env_cmd command)) (fmtln write_completion_script_3 (env_cmd command))).
  rewrite main_a_text.
  (* the statement list, regrouped along the text *)
  match goal with |- exists n, scans _ n _ ?L =>
    replace L with
      ([] ++ [] ++ cmd_fns_stmts command (number_from 0 (a_commands a)) ++ gs ++ [SFunc ("_" ++ command)%string]
       ++ [lits_stmt (a_main a)] ++ match_stmts (a_main a) ++ st ++ [SScalar "state" start; SScalar "word_index" 1]
       ++ (if n_subwords nd then [] else []) ++ (if n_top_cmd nd then [] else []) ++ (if n_top_star nd then [] else [])
       ++ [] ++ completion_stmts (a_main a)
       ++ (if n_subwords nd then level_stmts "subword_transitions_level_" (a_csub a) else [])
       ++ [SLits "candidates" []; SLits "matches" []; SScalar "max_fallback_level" (t_maxlevel (a_main a))]
       ++ (if n_subwords nd then [] else []) ++ (if n_top_cmd nd then [] else []) ++ []
       ++ [SEnd; SRegister [("_" ++ command)%string; command]])
      by (destruct (n_subwords nd), (n_top_cmd nd), (n_top_star nd); cbn [app]; rewrite <- ?app_assoc; reflexivity)
  end.
  apply scans_ex_app; [exists 1%nat; apply (sig_scans command sig Hsig)|].
  apply scans_ex_app; [unit_of1 (U_head_scans0 command)|].
  apply scans_ex_app.
  { apply (cmd_fns_scans command Hc). clear -Hbodies. revert Hbodies. generalize 0. generalize (a_commands a).
    induction l as [|c l IH]; intros n0 Hb; cbn [number_from]; constructor; inversion Hb; subst; [assumption | apply IH; assumption]. }
  apply scans_ex_app; [exact Hgn|].
  apply scans_ex_app; [unit_of U_main_a_scans command Hc|].
  apply scans_ex_app; [exists 1%nat; apply literals_scans|].
  apply scans_ex_app; [eexists; apply match_scans|].
  apply scans_ex_app; [exact Hstn|].
  apply scans_ex_app; [unit_of1 (U_main6_scans command start)|].
  apply scans_ex_app; [apply scans_if; unit_of U_main7_scans command Hc|].
  apply scans_ex_app; [apply scans_if; unit_of U_main8_scans command Hc|].
  apply scans_ex_app; [apply scans_if; unit_of U_main9_scans command Hc|].
  apply scans_ex_app; [unit_of U_main10_scans command Hc|].
  apply scans_ex_app; [eexists; apply completion_scans|].
  apply scans_ex_app; [apply scans_if; eexists; apply sub_levels_scans|].
  apply scans_ex_app; [unit_of1 (U_main13_scans command (t_maxlevel (a_main a)))|].
  apply scans_ex_app; [apply scans_if; unit_of U_main14_scans command Hc|].
  apply scans_ex_app; [apply scans_if; unit_of U_main15_scans command Hc|].
  apply scans_ex_app; [unit_of U_main16_scans command Hc|].
  unit_of U_main17_scans command Hc.
Qed.
