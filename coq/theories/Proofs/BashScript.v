(** C04, bash: the WHOLE emitted script is read back by the specification-side reader.

    The script is a sequence of lines.  A line is *local* when what the statement reader makes of it
    does not depend on what follows its newline ([line_sem]); [scan_lines_sem] turns a list of local
    lines into the statements they stand for.  The fixed skeleton is cut into regions (closed
    templates from gen/TplBash.v, concatenated), every region into lines, and every line is
    discharged either by computation (closed lines), by its indentation (deeper than any data
    statement), or by one of the few lemmas about lines that carry the command name. *)
From Coq Require Import DecimalString.
From CG Require Import Base.Prelude Model.Ast Model.Dfa Model.Tpl Model.Quote Model.Tables Model.EmitBash
     Spec.ShellDQ Spec.ScriptRead Proofs.QuoteRT Proofs.BashCodec.
From CGgen Require Import Consts TplBash.
Open Scope N_scope.
Open Scope list_scope.

(** ** lines *)
Fixpoint no_nl (s : string) : bool :=
  match s with
  | EmptyString => true
  | String c t => negb (Ascii.eqb c nl_char) && no_nl t
  end.

Lemma no_nl_app a b : no_nl (append a b) = no_nl a && no_nl b.
Proof. induction a; cbn; [reflexivity | rewrite IHa, andb_assoc; reflexivity]. Qed.

Lemma line_app l rest : no_nl l = true -> line (append l (append nl rest)) = (l, rest).
Proof.
  induction l as [|c l IH]; cbn [append no_nl line]; intros H.
  - change (Ascii.eqb nl_char nl_char) with true. reflexivity.
  - apply andb_prop in H. destruct H as [Hc Hl]. apply negb_true_iff in Hc. rewrite Hc, (IH Hl). reflexivity.
Qed.

Definition unlines (l : list string) : string := sconcat (map (fun x => append x nl) l).

Lemma unlines_app a b : unlines (a ++ b) = append (unlines a) (unlines b).
Proof. unfold unlines. rewrite map_app. apply sconcat_app. Qed.

(** what the reader makes of a line, with nothing after it *)
Definition lift (rest : string) (o : option (stmt * string)) : option (stmt * string) :=
  match o with Some (st, r) => Some (st, append r rest) | None => None end.

Definition line_sem (cmd : string) (l : string) (o : option stmt) : Prop :=
  no_nl l = true
  /\ (forall rest, bash_stmt (append l (append nl rest)) = match o with Some st => Some (st, rest) | None => None end)
  /\ match o with Some (SFunc n) => is_cmd_fn cmd n = false | _ => True end.

Definition stmts_of (os : list (option stmt)) : list stmt :=
  flat_map (fun o => match o with Some st => [st] | None => [] end) os.

Lemma scan_lines_sem cmd ls os :
  Forall2 (line_sem cmd) ls os ->
  forall k rest, scan (List.length ls + k) Bash cmd (append (unlines ls) rest) = stmts_of os ++ scan k Bash cmd rest.
Proof.
  induction 1 as [|l o ls os [Hnl [Hrd Hfn]] _ IH]; intros k rest; [reflexivity|].
  unfold unlines. cbn [map sconcat List.length Nat.add]. rewrite !append_assoc. cbn [scan].
  destruct (l ++ nl ++ sconcat (map (fun x => x ++ nl) ls) ++ rest)%string eqn:E.
  - destruct l; discriminate E.
  - rewrite <- E. change (stmt_of Bash) with bash_stmt. rewrite Hrd. destruct o as [st|].
    + cbn [stmts_of flat_map]. fold (stmts_of os). change (sconcat (map (fun x => x ++ nl) ls))%string with (unlines ls).
      destruct st; try (cbn [app]; f_equal; apply IH). rewrite Hfn. cbn [app]. f_equal. apply IH.
    + rewrite (line_app l _ Hnl). cbn [stmts_of flat_map app]. fold (stmts_of os). apply IH.
Qed.

(** a line indented deeper than four blanks is no data statement, whatever it contains *)
Lemma deep_none x : bash_stmt (append "     " x) = None.
Proof. reflexivity. Qed.

Lemma deep_line_sem cmd x : no_nl x = true -> line_sem cmd (append "     " x) None.
Proof.
  intros H. split; [exact H|]. split; [|exact I]. intros rest. rewrite append_assoc. apply deep_none.
Qed.

(** ** the command name *)
Definition name_ok (command : string) : Prop :=
  command <> EmptyString /\ forallb is_name_char (list_ascii_of_string command) = true.

Lemma name_char_not_nl c : is_name_char c = true -> Ascii.eqb c nl_char = false.
Proof.
  unfold is_name_char. destruct (Ascii.eqb c nl_char); [|reflexivity].
  rewrite orb_true_r. cbn. discriminate.
Qed.

Lemma name_ok_no_nl command : name_ok command -> no_nl command = true.
Proof.
  intros [_ H]. induction command as [|c t IH]; [reflexivity|]. cbn in H. apply andb_prop in H. destruct H as [Hc Ht].
  cbn [no_nl]. rewrite (IH Ht), (name_char_not_nl _ Hc). reflexivity.
Qed.

Lemma take_name_app command c r :
  forallb is_name_char (list_ascii_of_string command) = true -> is_name_char c = false ->
  take_while is_name_char (append command (String c r)) = (command, String c r).
Proof.
  intros H Hc. induction command as [|a t IH]; cbn [append take_while].
  - rewrite Hc. reflexivity.
  - cbn in H. apply andb_prop in H. destruct H as [Ha Ht]. rewrite Ha, (IH Ht). reflexivity.
Qed.

Lemma strip_app_both a b c : strip (append a b) (append a c) = strip b c.
Proof. induction a; cbn; [reflexivity | rewrite Ascii.eqb_refl; exact IHa]. Qed.

(** ** templates as lines *)
Fixpoint split_nl (s : string) : list string :=
  match s with
  | EmptyString => [EmptyString]
  | String c t =>
      let r := split_nl t in
      if Ascii.eqb c nl_char then EmptyString :: r
      else match r with
           | x :: r' => String c x :: r'
           | [] => [String c EmptyString]
           end
  end.

Definition txt (s : string) : list seg := match s with EmptyString => [] | _ => [Text s] end.

Fixpoint tpl_lines_go (cur : list seg) (t : list seg) : list (list seg) :=
  match t with
  | [] => [cur]
  | Hole n :: r => tpl_lines_go (cur ++ [Hole n]) r
  | Text s :: r =>
      match split_nl s with
      | [] => tpl_lines_go cur r
      | [x] => tpl_lines_go (cur ++ txt x) r
      | x :: more => (cur ++ txt x) :: map txt (removelast more) ++ tpl_lines_go (txt (last more EmptyString)) r
      end
  end.

(** the lines of a template that ends with a newline (this function is only used to STATE the
    line decompositions below; each of them is then proved by computation) *)
Definition region_lines (t : list seg) : list (list seg) := removelast (tpl_lines_go [] t).

Definition render_lines (env : list (string * string)) (t : list seg) : list string :=
  map (render env) (region_lines t).

(** *** region: the within-word matcher [_<cmd>_subword] *)
Definition seg_nl : list seg := [Text nl].

Definition R_sub (nc ns : bool) : list seg :=
  write_subword_fn_0 ++ seg_nl
  ++ (if nc then write_subword_fn_1 else []) ++ (if ns then write_subword_fn_2 else [])
  ++ write_subword_fn_3 ++ write_subword_fn_4 ++ write_subword_fn_5
  ++ (if nc then write_subword_fn_6 ++ seg_nl else [])
  ++ write_subword_fn_7 ++ write_subword_fn_8 ++ seg_nl ++ seg_nl.

Lemma render_app env a b : render env (a ++ b) = append (render env a) (render env b).
Proof.
  induction a as [|[s|n] a IH]; cbn [app render]; [reflexivity | |]; rewrite IH, append_assoc; reflexivity.
Qed.

Definition env_cmd (command : string) : list (string * string) :=
  [("command", command); ("MATCH_FN_NAME", match_fn_name_bash)].

Lemma write_subword_fn_region command nc ns :
  write_subword_fn command nc ns = render (env_cmd command) (R_sub nc ns).
Proof.
  unfold write_subword_fn, R_sub, fmtln, fmt, env_cmd, seg_nl. cbn [sconcat].
  destruct nc, ns; rewrite !render_app; cbn [render]; rewrite ?QuoteRT.append_nil_r, ?append_assoc; reflexivity.
Qed.


(** *** the generic decomposition of a rendered template into its lines *)
Definition jnl (l : list string) : string := join nl l.

Lemma join_cons2 (x y : string) l : join nl (x :: y :: l) = append x (append nl (join nl (y :: l))).
Proof. reflexivity. Qed.

Lemma split_nl_nonempty s : split_nl s <> [].
Proof.
  destruct s as [|c t]; cbn [split_nl]; [discriminate|]. destruct (Ascii.eqb c nl_char); [discriminate|].
  destruct (split_nl t); discriminate.
Qed.

Lemma join_split_nl s : join nl (split_nl s) = s.
Proof.
  induction s as [|c t IH]; [reflexivity|]. cbn [split_nl].
  destruct (Ascii.eqb_spec c nl_char) as [->|Hne].
  - destruct (split_nl t) as [|y l] eqn:E; [exfalso; exact (split_nl_nonempty t E)|].
    rewrite join_cons2, IH. reflexivity.
  - destruct (split_nl t) as [|y l] eqn:E; [exfalso; exact (split_nl_nonempty t E)|].
    destruct l as [|z l].
    + cbn [join] in *. congruence.
    + rewrite join_cons2 in *. cbn [append]. congruence.
Qed.

Lemma render_txt env x : render env (txt x) = x.
Proof. destruct x; [reflexivity|]. cbn [txt render]. apply QuoteRT.append_nil_r. Qed.

Lemma join_app_ne (a : list string) b0 (b : list string) :
  join nl (a ++ b0 :: b) = append (sconcat (map (fun x => append x nl) a)) (join nl (b0 :: b)).
Proof.
  induction a as [|x a IH]; [reflexivity|]. cbn [app map sconcat].
  destruct (a ++ b0 :: b) as [|y l] eqn:E; [destruct a; discriminate E|].
  rewrite join_cons2, IH, !append_assoc. reflexivity.
Qed.

Lemma tpl_lines_go_nonempty cur t : tpl_lines_go cur t <> [].
Proof.
  revert cur. induction t as [|[s|n] r IH]; intros cur; cbn [tpl_lines_go]; [discriminate | | apply IH].
  destruct (split_nl s) as [|x [|y more]]; [apply IH | apply IH | discriminate].
Qed.

Lemma render_join_lines env t :
  forall cur, join nl (map (render env) (tpl_lines_go cur t)) = append (render env cur) (render env t).
Proof.
  induction t as [|[s|n] r IH]; intros cur.
  - cbn. rewrite QuoteRT.append_nil_r. reflexivity.
  - cbn [tpl_lines_go render]. pose proof (join_split_nl s) as Hs.
    destruct (split_nl s) as [|x [|y more]] eqn:E; [exfalso; exact (split_nl_nonempty s E) | |].
    + cbn [join] in Hs. subst x. rewrite IH, render_app, render_txt, append_assoc. reflexivity.
    + (* at least one newline in s *)
      set (more' := y :: more) in *.
      assert (Hm : more' <> []) by discriminate.
      rewrite (app_removelast_last EmptyString Hm) in Hs.
      destruct (tpl_lines_go (txt (last more' EmptyString)) r) as [|l0 ls] eqn:El;
        [exfalso; exact (tpl_lines_go_nonempty _ _ El)|].
      cbn [map]. rewrite map_app. cbn [map].
      change (render env (cur ++ txt x) :: map (render env) (map txt (removelast more')) ++ render env l0 :: map (render env) ls)
        with ((render env (cur ++ txt x) :: map (render env) (map txt (removelast more'))) ++ render env l0 :: map (render env) ls).
      rewrite join_app_ne.
      change (render env l0 :: map (render env) ls) with (map (render env) (l0 :: ls)). rewrite <- El, IH, render_txt.
      cbn [map sconcat]. rewrite render_app, render_txt.
      rewrite <- Hs. change (x :: removelast more' ++ [last more' EmptyString]) with ((x :: removelast more') ++ [last more' EmptyString]).
      rewrite join_app_ne. cbn [map sconcat join]. rewrite !map_map.
      rewrite (map_ext (fun x0 => render env (txt x0) ++ nl)%string (fun x0 => x0 ++ nl)%string) by (intros; rewrite render_txt; reflexivity).
      rewrite !append_assoc. reflexivity.
  - cbn [tpl_lines_go render]. rewrite IH, render_app. cbn [render]. rewrite QuoteRT.append_nil_r, append_assoc. reflexivity.
Qed.

(** a template whose last line is empty (it ends with a newline) is the [unlines] of its lines *)
Lemma render_region env t :
  last (tpl_lines_go [] t) [Text "x"] = [] ->
  render env t = unlines (render_lines env t).
Proof.
  intros Hl. pose proof (render_join_lines env t []) as H. cbn [render append] in H. rewrite <- H.
  unfold render_lines, region_lines.
  pose proof (tpl_lines_go_nonempty [] t) as Hne.
  rewrite (app_removelast_last [Text "x"] Hne) at 1. rewrite Hl, map_app. cbn [map render].
  rewrite join_app_ne. cbn [join]. rewrite QuoteRT.append_nil_r. reflexivity.
Qed.

Lemma R_sub_lines command nc ns :
  render (env_cmd command) (R_sub nc ns) = unlines (render_lines (env_cmd command) (R_sub nc ns)).
Proof. apply render_region. destruct nc, ns; vm_compute; reflexivity. Qed.
