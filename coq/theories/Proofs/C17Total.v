(** The repaired skeleton always terminates: [run_from Repaired] never runs out of fuel (every round of the
    within-word loop consumes at least one character: literals are non-empty, an empty candidate is never
    consumed) and never panics; its result is a return code 0 or 1, or [Err] = outside the modelled domain. *)
From CG Require Import Base.Prelude Model.Dfa Model.Glob Model.BashSem Proofs.C12Proofs.

Definition fine {A} (x : M A) : Prop := match x with Ok _ | Err _ => True | _ => False end.

Lemma fine_bind {A B} (x : M A) (f : A -> M B) :
  fine x -> (forall a, x = Ok a -> fine (f a)) -> fine (obind x f).
Proof. destruct x; cbn; auto. Qed.

Lemma fine_globm pat s : fine (globm pat s).
Proof. unfold globm. destruct (glob_match true pat s); exact I. Qed.

Lemma fine_filterM {A} (f : A -> M bool) l : (forall x, fine (f x)) -> fine (filterM f l).
Proof.
  intros H. induction l as [|x r IH]; [exact I|]. cbn [filterM].
  apply fine_bind; [apply H|]. intros b _. apply fine_bind; [exact IH|]. intros rs _. exact I.
Qed.

Lemma fine_match_fn e p cands : fine (match_fn e p cands).
Proof.
  unfold match_fn. destruct p; [exact I|]. destruct (printf_q _); [|exact I].
  apply fine_filterM. intros x. apply fine_globm.
Qed.

Lemma fine_run_cmd v tabs e cid a1 a2 log : fine (run_cmd v tabs e cid a1 a2 log).
Proof. unfold run_cmd. destruct (nthN _ _); exact I. Qed.

Lemma fine_omap {A B} (f : A -> M B) l : (forall x, fine (f x)) -> fine (omap f l).
Proof.
  intros H. induction l as [|x r IH]; [exact I|]. cbn [omap].
  apply fine_bind; [apply H|]. intros y _. apply fine_bind; [exact IH|]. intros ys _. exact I.
Qed.

(** *** progress of one round *)
Definition nonempty_lits (lits : list (N * string)) : Prop := forall id l, In (id, l) lits -> l <> EmptyString.

Lemma lit_loop_str_progress c st sub : forall lits to adv,
    nonempty_lits lits -> lit_loop_str c lits st sub = SCont to adv -> (1 <= adv)%nat.
Proof.
  induction lits as [|[lid lit] r IH]; intros to adv Hn H; [discriminate|].
  assert (Hr : nonempty_lits r) by (intros id l Hin; apply (Hn id l); now right).
  assert (Hl : (1 <= String.length lit)%nat).
  { pose proof (Hn lid lit (or_introl eq_refl)). destruct lit; [congruence|cbn; lia]. }
  cbn [lit_loop_str] in H. destruct (assocN lid st) as [t|]; [|now apply (IH to adv)].
  destruct (String.eqb lit sub); [injection H as _ <-; exact Hl|].
  destruct (c && String.prefix sub lit); [discriminate|].
  destruct (String.prefix lit sub); [injection H as _ <-; exact Hl|now apply (IH to adv)].
Qed.

Lemma cand_loop_str_progress c sub to : forall cands t adv,
    sub <> EmptyString -> cand_loop_str c cands to sub = SCont t adv -> (1 <= adv)%nat.
Proof.
  induction cands as [|x r IH]; intros t adv Hs H; [discriminate|].
  cbn [cand_loop_str] in H.
  destruct (String.eqb sub x) eqn:E.
  - apply String.eqb_eq in E. subst x. injection H as _ <-. destruct sub; [congruence|cbn; lia].
  - destruct (c && String.prefix sub x); [discriminate|].
    destruct x as [|a x']; cbn [andb] in H; [now apply (IH t adv)|].
    destruct (String.prefix (String a x') sub); [injection H as _ <-; cbn; lia|now apply (IH t adv)].
Qed.

Lemma cmd_loop_repaired c tabs e sub mp : sub <> EmptyString -> forall cmds log,
    fine (cmd_loop Repaired c tabs e cmds sub mp log)
    /\ (forall t adv log', cmd_loop Repaired c tabs e cmds sub mp log = Ok (SCont t adv, log') -> (1 <= adv)%nat).
Proof.
  intros Hs. induction cmds as [|[cid to] r IH]; intros log.
  - split; [exact I|]. intros t adv log' H. discriminate.
  - cbn [cmd_loop]. pose proof (fine_run_cmd Repaired tabs e cid sub mp log) as Fr.
    destruct (run_cmd Repaired tabs e cid sub mp log) as [[cands log1]| | |]; cbn [obind]; try contradiction.
    2:{ split; [exact I|]. intros; discriminate. }
    destruct cands as [|x xs]; [apply IH|].
    cbn [cand_loop quirky obind].
    destruct (cand_loop_str c (sort_desc (x :: xs)) to sub) as [t0 adv0| |] eqn:E.
    + split; [exact I|]. intros t adv log' H. injection H as <- <- _.
      eapply cand_loop_str_progress; eauto.
    + split; [exact I|]. intros; discriminate.
    + apply IH.
Qed.

Lemma sdrop_nonempty ci : forall word, (ci < String.length word)%nat -> sdrop ci word <> EmptyString.
Proof.
  induction ci as [|ci IH]; intros word H; destruct word as [|a w]; cbn in *; try lia; [discriminate|].
  apply IH. lia.
Qed.

Theorem sw_loop_fine c tabs e T acc word :
  nonempty_lits (lits_of T) ->
  forall fuel state ci log,
    (String.length word - ci < fuel)%nat ->
    fine (sw_loop fuel Repaired c tabs e T acc word state ci log).
Proof.
  intros Hn. induction fuel as [|fuel IH]; intros state ci log Hf; [lia|].
  rewrite sw_loop_S. destruct (Nat.leb (String.length word) ci) eqn:El; [exact I|].
  destruct (star_first Repaired c T state); [exact I|].
  apply Nat.leb_gt in El. cbv zeta.
  pose proof (sdrop_nonempty ci word El) as Hs.
  assert (Step : forall st adv, (1 <= adv)%nat ->
                                fine (sw_loop fuel Repaired c tabs e T acc word st (ci + adv) log)).
  { intros st adv Ha. apply IH. lia. }
  assert (Tail : forall log0,
             (forall st adv, (1 <= adv)%nat -> fine (sw_loop fuel Repaired c tabs e T acc word st (ci + adv) log0)) ->
             fine (do (s2, log2) <- match t_mcmd T with
                                    | Some ct =>
                                      match assocN state ct with
                                      | Some row => cmd_loop Repaired c tabs e (assoc_of row) (sdrop ci word) (stake ci word) log0
                                      | None => Ok (SNone, log0)
                                      end
                                    | None => Ok (SNone, log0)
                                    end;
                   match s2 with
                   | SCont st adv => sw_loop fuel Repaired c tabs e T acc word st (ci + adv) log2
                   | SBreak => Ok (false, state, ci, log2)
                   | SNone =>
                     match t_mstar T with
                     | Some stars => if has_key state stars then Ok (true, state, ci, log2) else Ok (false, state, ci, log2)
                     | None => Ok (false, state, ci, log2)
                     end
                   end)).
  { intros log0 _.
    assert (Last : forall log2, fine (match t_mstar T with
                                      | Some stars => if has_key state stars then Ok (true, state, ci, log2) else Ok (false, state, ci, log2)
                                      | None => Ok (false, state, ci, log2)
                                      end : M (bool * N * nat * list invocation))).
    { intros log2. destruct (t_mstar T) as [stars|]; [destruct (has_key state stars)|]; exact I. }
    destruct (t_mcmd T) as [ct|]; [|cbn [obind]; apply Last].
    destruct (assocN state ct) as [row|]; [|cbn [obind]; apply Last].
    destruct (cmd_loop_repaired c tabs e (sdrop ci word) (stake ci word) Hs (assoc_of row) log0) as [Fc Pc].
    apply fine_bind; [exact Fc|]. intros [s2 log2] E.
    destruct s2 as [st adv| |]; [|exact I|apply Last].
    apply IH. pose proof (Pc st adv log2 E). lia. }
  destruct (assocN state (t_mlit T)) as [st|].
  - cbn [lit_loop obind]. fold (lits_of T).
    destruct (lit_loop_str c (lits_of T) st (sdrop ci word)) as [st1 adv| |] eqn:E.
    + apply Step. eapply lit_loop_str_progress; eauto.
    + exact I.
    + apply Tail. exact Step.
  - cbn [obind]. apply Tail. exact Step.
Qed.

Lemma sw_fuel_enough T word : (String.length word - 0 < sw_fuel T word)%nat.
Proof.
  unfold sw_fuel.
  set (k := (count_entries (t_mlit T) + match t_mcmd T with Some l => count_entries l | None => 0 end)%nat).
  nia.
Qed.

(** *** the completion part and the top level (any variant unless stated) *)
Lemma fine_sw_cmds_level v tabs e : forall cids cp mp sc sm log, fine (sw_cmds_level v tabs e cids cp mp sc sm log).
Proof.
  induction cids as [|cid r IH]; intros cp mp sc sm log; [exact I|]. cbn [sw_cmds_level].
  apply fine_bind; [apply fine_run_cmd|]. intros [cands log1] _.
  apply fine_bind; [apply fine_match_fn|]. intros f _. apply IH.
Qed.

Lemma fine_sw_levels v tabs e T state mp cp : forall n level sc sm log,
    fine (sw_levels n level v tabs e T state mp cp sc sm log).
Proof.
  induction n as [|n IH]; intros level sc sm log; [exact I|]. cbn [sw_levels].
  apply fine_bind; [apply fine_match_fn|]. intros m _.
  apply fine_bind.
  - destruct (t_ccmd T); [apply fine_sw_cmds_level|exact I].
  - intros [[sc2 sm2] log2] _. destruct sm2; [apply IH|exact I].
Qed.

Definition wf_subword_literals (tabs : alltables) : Prop :=
  forall pool sid T, In (pool, sid, T) (a_subwords tabs) -> nonempty_lits (lits_of T).

Lemma subword_tables_in subs sid T : subword_tables subs sid = Some T -> exists pool, In (pool, sid, T) subs.
Proof.
  induction subs as [|[[p i] t] r IH]; cbn [subword_tables]; [discriminate|].
  destruct (N.eqb i sid) eqn:E.
  - intros H. injection H as <-. apply N.eqb_eq in E. subst i. exists p. now left.
  - intros H. destruct (IH H) as [pool Hin]. exists pool. now right.
Qed.

Section Top.
  Variables (tabs : alltables) (e : env).
  Hypothesis Hwf : wf_subword_literals tabs.

  Lemma fine_subword_matches T acc word log :
    nonempty_lits (lits_of T) -> fine (subword_matches Repaired tabs e T acc word log).
  Proof.
    intros Hn. unfold subword_matches, subword_matches_from.
    apply fine_bind; [apply sw_loop_fine; [exact Hn|apply sw_fuel_enough]|].
    intros [[[m s] c] l] _. exact I.
  Qed.

  Lemma fine_subword_complete T word log :
    nonempty_lits (lits_of T) -> fine (subword_complete Repaired tabs e T word log).
  Proof.
    intros Hn. unfold subword_complete, subword_complete_from.
    apply fine_bind; [apply sw_loop_fine; [exact Hn|apply sw_fuel_enough]|].
    intros [[[m s] c] l] _. apply fine_sw_levels.
  Qed.

  Lemma fine_sub_row subs : forall row, fine (sub_row subs row).
  Proof.
    induction row as [|[pool to] r IH]; [exact I|]. cbn [sub_row].
    destruct (script_id subs pool); [|exact I]. apply fine_bind; [exact IH|]. intros; exact I.
  Qed.

  Lemma fine_top_sub_loop word : forall row log, fine (top_sub_loop Repaired tabs e row word log).
  Proof.
    induction row as [|[sid to] r IH]; intros log; [exact I|]. cbn [top_sub_loop].
    destruct (subword_tables (a_subwords tabs) sid) as [T|] eqn:E; [|exact I].
    destruct (subword_tables_in _ _ _ E) as [pool Hin].
    apply fine_bind; [apply fine_subword_matches; eapply Hwf; eauto|].
    intros [m log1] _. destruct m; [exact I|apply IH].
  Qed.

  Lemma fine_top_cmd_loop word last : forall cmds log, fine (top_cmd_loop Repaired tabs e cmds word last log).
  Proof.
    induction cmds as [|[cid to] r IH]; intros log; [exact I|]. cbn [top_cmd_loop quirky].
    apply fine_bind; [apply fine_run_cmd|]. intros [cands log1] _.
    destruct cands as [|x xs]; [apply IH|]. cbn [obind].
    destruct (existsb (String.eqb word) (sort_desc (x :: xs))); [exact I|].
    rewrite andb_false_r. apply IH.
  Qed.

  Lemma fine_walk : forall words state log, fine (walk Repaired tabs e state words log).
  Proof.
    induction words as [|w rest IH]; intros state log; [exact I|]. cbn [walk].
    destruct (match assocN state (t_mlit (a_main tabs)) with
              | Some st => top_lit_loop (indexed_from 0 (literal_texts (a_main tabs))) st w
              | None => None
              end) as [to|]; [apply IH|].
    apply fine_bind.
    { destruct (assocN state (a_subtrans tabs)) as [row|]; [|exact I].
      apply fine_bind; [apply fine_sub_row|]. intros srow _. apply fine_top_sub_loop. }
    intros [s1 log1] _. destruct s1 as [to|]; [apply IH|].
    apply fine_bind.
    { destruct (t_mcmd (a_main tabs)) as [ct|]; [|exact I].
      destruct (assocN state ct) as [row|]; [apply fine_top_cmd_loop|exact I]. }
    intros [s2 log2] _. destruct s2 as [to| |]; [apply IH|exact I|].
    destruct (match t_mstar (a_main tabs) with Some stars => assocN state stars | None => None end); [apply IH|exact I].
  Qed.

  Lemma fine_top_subs_level prefix : forall sids matches log, fine (top_subs_level Repaired tabs e sids prefix matches log).
  Proof.
    induction sids as [|sid r IH]; intros matches log; [exact I|]. cbn [top_subs_level].
    destruct (subword_tables (a_subwords tabs) sid) as [T|] eqn:E; [|exact I].
    destruct (subword_tables_in _ _ _ E) as [pool Hin].
    apply fine_bind; [apply fine_subword_complete; eapply Hwf; eauto|].
    intros [add log1] _. apply IH.
  Qed.

  Lemma fine_top_cmds_level v prefix : forall cids cands matches log, fine (top_cmds_level v tabs e cids prefix cands matches log).
  Proof.
    induction cids as [|cid r IH]; intros cands matches log; [exact I|]. cbn [top_cmds_level].
    apply fine_bind; [apply fine_run_cmd|]. intros [cands1 log1] _.
    apply fine_bind; [destruct cands1; [exact I|apply fine_match_fn]|]. intros m _. apply IH.
  Qed.

  Lemma fine_shortest_suffix prefix : forall breaks best, fine (shortest_suffix breaks prefix best).
  Proof.
    induction breaks as [|c r IH]; intros best; [exact I|]. cbn [shortest_suffix].
    destruct (rm_longest_prefix _ prefix); [apply IH|exact I].
  Qed.

  Lemma fine_strip_reply prefix matches : fine (strip_reply e prefix matches).
  Proof.
    unfold strip_reply. apply fine_bind; [apply fine_shortest_suffix|]. intros sh _.
    apply fine_bind.
    { destruct (String.eqb sh prefix); [exact I|]. destruct (rm_shortest_suffix sh prefix); exact I. }
    intros sup _. apply fine_omap. intros m. destruct (rm_shortest_prefix sup m); exact I.
  Qed.

  Lemma fine_top_levels state prefix : forall n level cands matches log,
      fine (top_levels n level Repaired tabs e state prefix cands matches log).
  Proof.
    induction n as [|n IH]; intros level cands matches log; [exact I|]. cbn [top_levels].
    apply fine_bind.
    { destruct (_ ++ _); [exact I|apply fine_match_fn]. }
    intros m _. apply fine_bind; [apply fine_top_subs_level|]. intros [matches2 log2] _.
    apply fine_bind.
    { destruct (t_ccmd (a_main tabs)); [apply fine_top_cmds_level|exact I]. }
    intros [[cands3 matches3] log3] _. destruct matches3; [apply IH|].
    apply fine_bind; [apply fine_strip_reply|]. intros; exact I.
  Qed.

  Theorem run_from_repaired_total start ws p :
    fine (run_from Repaired start tabs e ws p)
    /\ (forall r, run_from Repaired start tabs e ws p = Ok r -> r_rc r = 0 \/ r_rc r = 1).
  Proof.
    unfold run_from. split.
    - apply fine_bind; [apply fine_walk|]. intros [st log] _. destruct st as [state|]; [|exact I].
      apply fine_bind; [apply fine_top_levels|]. intros [reply log1] _. exact I.
    - intros r H.
      destruct (walk Repaired tabs e start ws []) as [[st log]| | |]; cbn [obind] in H; try discriminate.
      destruct st as [state|].
      + destruct (top_levels _ 0 Repaired tabs e state p [] [] log) as [[reply log1]| | |]; cbn [obind] in H; try discriminate.
        injection H as <-. now left.
      + injection H as <-. now right.
  Qed.
End Top.
