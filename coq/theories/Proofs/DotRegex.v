(** C16, the --regex file: whenever the (patched) model of [Regex::to_dot] returns, every line it
    wrote is well formed for the reader, a node name determines its label, every node reachable from
    the root without passing a [Star] has its line, and every within-word regex met has its cluster. *)
From CG Require Import Base.Prelude Model.Dfa Spec.DotRead Spec.DotSpec Model.Dot
     Proofs.DotLex Proofs.DotParse Proofs.DotNames Proofs.DotStates.
Local Open Scope string_scope.

(** ** Label bodies *)
Definition leaf_body (pos : N) (inp : rinput) : string :=
  match inp with
  | RLit lit None => dec pos ++ ": " ++ bs ++ dq ++ escape_dot lit ++ bs ++ dq
  | RLit lit (Some d) =>
      dec pos ++ ": " ++ bs ++ dq ++ escape_dot lit ++ bs ++ dq ++ bs ++ "n" ++ bs ++ dq ++ escape_dot d ++ bs ++ dq
  | RNonterm name => dec pos ++ ": <" ++ escape_dot name ++ ">"
  | RCmd cmd => escape_dot (dec pos ++ ": " ++ cmd)
  | RSub rid => dec pos ++ ": Subword " ++ dec rid
  end.

Definition node_body (r : regex) (m : N) : string :=
  match nthN (r_nodes r) m with
  | Some REps => "Epsilon"
  | Some (RCat _) => "Cat"
  | Some (ROr _) => "Or"
  | Some (RStar _) => "Star"
  | Some (REnd pos) => dec pos ++ ": EndMarker"
  | Some (RTerm pos) | Some (RNt pos) | Some (RCommand pos) | Some (RSubword pos) =>
      match nthN (r_inputs r) pos with Some inp => leaf_body pos inp | None => "" end
  | None => ""
  end.

(** ** What every item the printer returns looks like *)
Definition block_head (rid : N) : list item :=
  [ILine (LAssignQ "label" ("SUBWORD " ++ dec rid)); ILine (LAssign "color" "grey91"); ILine (LAssign "style" "filled")].

Inductive rx_item (pool : rpool) : regex -> string -> item -> Prop :=
| rxi_node r p m : rx_item pool r p (ILine (LNode (node_id p m) (node_body r m)))
| rxi_edge r p a b : id_ok a -> id_ok b -> rx_item pool r p (ILine (LEdge a b))
| rxi_block r p rid sr inner :
    assocN rid pool = Some sr -> Forall (rx_item pool sr (sub_pre rid)) inner ->
    rx_item pool r p (IBlock ("cluster_" ++ dec rid) (block_head rid ++ inner)).

Lemma parent_edge_rx pool r p parent me :
  (forall pid, parent = Some pid -> id_ok pid) -> id_ok me ->
  Forall (rx_item pool r p) (parent_edge parent me).
Proof.
  intros Hp Hme. destruct parent as [pid|]; cbn; constructor; [|constructor].
  constructor; [now apply Hp|exact Hme].
Qed.

Lemma rx_items_inv pool : forall f r node parent p vis res,
  prefix_ok p -> (forall pid, parent = Some pid -> id_ok pid) ->
  rx_items f patched pool r node parent p vis = Ok res ->
  Forall (rx_item pool r p) (fst res).
Proof.
  induction f as [|f IH]; intros r node parent p vis res Hp Hpar H; [discriminate|].
  cbn [rx_items] in H.
  assert (Hme : id_ok (node_id p node)) by now apply node_id_ok.
  pose proof (parent_edge_rx pool r p parent (node_id p node) Hpar Hme) as Hpe.
  assert (Hnb : forall b, node_body r node = b ->
                          rx_item pool r p (ILine (LNode (node_id p node) b))).
  { intros b <-. constructor. }
  unfold node_body in Hnb.
  destruct (nthN (r_nodes r) node) as [n|] eqn:En; [|discriminate].
  destruct n as [|pos|pos|pos|pos|pos|children|children|c].
  - (* Epsilon *) injection H as <-. cbn [fst]. constructor; [now apply Hnb|exact Hpe].
  - (* Terminal *)
    unfold rx_input in H. destruct (nthN (r_inputs r) pos) as [inp|] eqn:Ei; [|discriminate]. cbn [obind] in H.
    destruct inp as [lit descr|?|?|?]; try discriminate. injection H as <-. cbn [fst].
    constructor; [|exact Hpe]. apply Hnb. destruct descr; reflexivity.
  - (* Nonterminal *)
    unfold rx_input in H. destruct (nthN (r_inputs r) pos) as [inp|] eqn:Ei; [|discriminate]. cbn [obind] in H.
    destruct inp as [?|name|?|?]; try discriminate. injection H as <-. cbn [fst].
    constructor; [|exact Hpe]. apply Hnb. reflexivity.
  - (* Command *)
    unfold rx_input in H. destruct (nthN (r_inputs r) pos) as [inp|] eqn:Ei; [|discriminate]. cbn [obind] in H.
    destruct inp as [?|?|cmd|?]; try discriminate. injection H as <-. cbn [fst].
    constructor; [|exact Hpe]. apply Hnb. reflexivity.
  - (* Subword *)
    unfold rx_input in H. destruct (nthN (r_inputs r) pos) as [inp|] eqn:Ei; [|discriminate]. cbn [obind] in H.
    destruct inp as [?|?|?|rid]; try discriminate.
    destruct (assocN rid pool) as [sr|] eqn:Ep; [|discriminate].
    assert (Hpre : Forall (rx_item pool r p)
                     (parent_edge parent (node_id p node)
                      ++ [ILine (LNode (node_id p node) (dec pos ++ ": Subword " ++ dec rid));
                          ILine (LEdge (node_id p node) (node_id (dec rid ++ "_") (r_root sr)))])%list).
    { apply Forall_app. split; [exact Hpe|]. constructor; [apply Hnb; reflexivity|].
      constructor; [|constructor]. constructor; [exact Hme|]. apply (node_id_ok (sub_pre rid)). constructor. }
    destruct (memN rid vis).
    + injection H as <-. exact Hpre.
    + destruct (rx_items f patched pool sr (r_root sr) None (dec rid ++ "_") (rid :: vis)) as [[inner vis']| | |] eqn:Er;
        try discriminate. cbn [obind] in H. injection H as <-. cbn [fst].
      apply Forall_app. split; [exact Hpre|]. constructor; [|constructor].
      apply (rxi_block pool r p rid sr inner Ep).
      apply (IH sr (r_root sr) None (sub_pre rid) (rid :: vis) (inner, vis')); [constructor|discriminate|exact Er].
  - (* EndMarker *) injection H as <-. cbn [fst]. constructor; [now apply Hnb|exact Hpe].
  - (* Cat *)
    match type of H with (do res0 <- ?go children vis; _) = _ => destruct (go children vis) as [[its vis']| | |] eqn:Eg end;
      try discriminate. cbn [obind] in H. injection H as <-. cbn [fst].
    constructor; [now apply Hnb|]. apply Forall_app. split; [|exact Hpe].
    clear Hnb Hpe En. revert vis its vis' Eg. induction children as [|c rest IHc]; intros vis its vis' Eg.
    + injection Eg as <- <-. constructor.
    + destruct (rx_items f patched pool r c (Some (node_id p node)) p vis) as [a| | |] eqn:Ea; try discriminate.
      cbn [obind] in Eg.
      match type of Eg with (do b <- ?go rest (snd a); _) = _ => destruct (go rest (snd a)) as [b| | |] eqn:Eb end;
        try discriminate. cbn [obind] in Eg. injection Eg as <- <-.
      apply Forall_app. split.
      * apply (IH r c (Some (node_id p node)) p vis a Hp); [|exact Ea]. intros pid E. injection E as <-. exact Hme.
      * destruct b as [bi bv]. exact (IHc (snd a) bi bv Eb).
  - (* Or *)
    match type of H with (do res0 <- ?go children vis; _) = _ => destruct (go children vis) as [[its vis']| | |] eqn:Eg end;
      try discriminate. cbn [obind] in H. injection H as <-. cbn [fst].
    constructor; [now apply Hnb|]. apply Forall_app. split; [|exact Hpe].
    clear Hnb Hpe En. revert vis its vis' Eg. induction children as [|c rest IHc]; intros vis its vis' Eg.
    + injection Eg as <- <-. constructor.
    + destruct (rx_items f patched pool r c (Some (node_id p node)) p vis) as [a| | |] eqn:Ea; try discriminate.
      cbn [obind] in Eg.
      match type of Eg with (do b <- ?go rest (snd a); _) = _ => destruct (go rest (snd a)) as [b| | |] eqn:Eb end;
        try discriminate. cbn [obind] in Eg. injection Eg as <- <-.
      apply Forall_app. split.
      * apply (IH r c (Some (node_id p node)) p vis a Hp); [|exact Ea]. intros pid E. injection E as <-. exact Hme.
      * destruct b as [bi bv]. exact (IHc (snd a) bi bv Eb).
  - (* Star *) injection H as <-. cbn [fst]. constructor; [now apply Hnb|exact Hpe].
Qed.

(** ** Label bodies decode and render to the prescribed labels *)
Lemma esc_all_app a b : esc_all (a ++ b) = esc_all a ++ esc_all b.
Proof. induction a as [|c a IH]; [reflexivity|]. cbn [append esc_all]. now rewrite IH, sapp_assoc. Qed.

Lemma esc_all_plain s : all_chars plain_char s = true -> esc_all s = s.
Proof.
  induction s as [|c s IH]; [reflexivity|]. cbn [all_chars esc_all]. intro H.
  apply andb_true_iff in H as [Hc Hs]. unfold plain_char in Hc. apply andb_true_iff in Hc as [H1 H2].
  apply negb_true_iff in H1, H2. unfold esc1. rewrite H1, H2, (IH Hs). reflexivity.
Qed.

Lemma esc_all_dq : esc_all dq = bs ++ dq.
Proof. reflexivity. Qed.

Lemma esc_all_quoted x : esc_all (dq ++ x ++ dq) = bs ++ dq ++ esc_all x ++ bs ++ dq.
Proof.
  change (dq ++ x ++ dq) with (String c_dq (x ++ dq)). cbn [esc_all]. rewrite esc_all_app, esc_all_dq.
  unfold esc1. change (Ascii.eqb c_dq c_bs) with false. change (Ascii.eqb c_dq c_dq) with true. cbn match.
  now rewrite !sapp_assoc.
Qed.

Lemma qdecode_esc_app a rest :
  qdecode false (esc_all a ++ rest) = option_map (append (double_bs a)) (qdecode false rest).
Proof.
  induction a as [|c a IH].
  - cbn. destruct (qdecode false rest); reflexivity.
  - cbn [esc_all double_bs]. unfold esc1. destruct (Ascii.eqb c c_bs) eqn:Eb.
    + change ((bs ++ bs) ++ esc_all a) with (String c_bs (String c_bs (esc_all a))).
      cbn [append qdecode]. change (Ascii.eqb c_bs c_dq) with false. change (Ascii.eqb c_bs c_bs) with true.
      cbn match. rewrite IH. destruct (qdecode false rest); reflexivity.
    + destruct (Ascii.eqb c c_dq) eqn:Eq.
      * change ((bs ++ dq) ++ esc_all a) with (String c_bs (String c_dq (esc_all a))).
        cbn [append qdecode]. change (Ascii.eqb c_bs c_dq) with false. change (Ascii.eqb c_bs c_bs) with true.
        change (Ascii.eqb c_dq c_dq) with true. cbn match. rewrite IH.
        apply Ascii.eqb_eq in Eq. subst c. destruct (qdecode false rest); reflexivity.
      * change (String c "" ++ esc_all a) with (String c (esc_all a)).
        cbn [append qdecode]. rewrite Eq, Eb, IH. destruct (qdecode false rest); reflexivity.
Qed.

Lemma render_double_bs_app a rest : render_label (double_bs a ++ rest) = a ++ render_label rest.
Proof.
  induction a as [|c a IH]; [reflexivity|]. cbn [double_bs].
  destruct (Ascii.eqb c c_bs) eqn:Eb.
  - apply Ascii.eqb_eq in Eb. subst c. cbn [append render_label].
    change (Ascii.eqb c_bs c_bs) with true. cbn match.
    change (Ascii.eqb c_bs "n"%char) with false. change (Ascii.eqb c_bs "l"%char) with false.
    change (Ascii.eqb c_bs "r"%char) with false. change (Ascii.eqb c_bs "N"%char) with false.
    change (Ascii.eqb c_bs "G"%char) with false. change (Ascii.eqb c_bs "E"%char) with false.
    change (Ascii.eqb c_bs "T"%char) with false. change (Ascii.eqb c_bs "H"%char) with false.
    change (Ascii.eqb c_bs "L"%char) with false. cbn. now rewrite IH.
  - cbn [append render_label]. rewrite Eb. now rewrite IH.
Qed.

Definition ritem_of (i : rinput) : ritem :=
  match i with
  | RLit t d => XLit t d
  | RNonterm n => XNonterm n
  | RCmd c => XCmd c
  | RSub r => XSub r
  end.

Lemma plain_dec_colon pos : all_chars plain_char (dec pos ++ ": ") = true.
Proof. rewrite all_chars_app, (all_chars_impl _ _ _ digit_plain (dec_digits pos)). reflexivity. Qed.

Lemma leaf_body_decodes pos inp :
  exists v, qdecode false (leaf_body pos inp) = Some v /\ render_label v = item_label pos (ritem_of inp).
Proof.
  destruct inp as [lit [d|]|name|cmd|rid]; cbn [leaf_body ritem_of item_label].
  - (* literal with description *)
    set (A := (dec pos ++ ": ") ++ dq ++ lit ++ dq). set (B := dq ++ d ++ dq).
    assert (E : dec pos ++ ": " ++ bs ++ dq ++ escape_dot lit ++ bs ++ dq ++ bs ++ "n" ++ bs ++ dq ++ escape_dot d ++ bs ++ dq
                = esc_all A ++ (bs ++ "n" ++ esc_all B)).
    { unfold A, B. rewrite !escape_dot_chars.
      rewrite (esc_all_app (dec pos ++ ": ")), (esc_all_plain _ (plain_dec_colon pos)), !esc_all_quoted.
      rewrite !sapp_assoc. reflexivity. }
    rewrite E, qdecode_esc_app.
    change (bs ++ "n" ++ esc_all B) with (String c_bs (String "n"%char (esc_all B))).
    cbn [qdecode]. change (Ascii.eqb c_bs c_dq) with false. change (Ascii.eqb c_bs c_bs) with true.
    change (Ascii.eqb "n"%char c_dq) with false. change (Ascii.eqb "n"%char c_bs) with false.
    change (Ascii.eqb "n"%char c_nl) with false. cbn match. rewrite qdecode_esc_all. cbn [option_map].
    eexists. split; [reflexivity|]. rewrite render_double_bs_app.
    cbn [render_label]. change (Ascii.eqb c_bs c_bs) with true. cbn match.
    change (Ascii.eqb "n"%char "n"%char) with true. cbn [orb]. rewrite render_double_bs.
    unfold A, B. change decimal with dec. change sdq with dq. change lf with (String c_nl "").
    rewrite !sapp_assoc. reflexivity.
  - (* literal *)
    assert (E : dec pos ++ ": " ++ bs ++ dq ++ escape_dot lit ++ bs ++ dq
                = escape_dot ((dec pos ++ ": ") ++ dq ++ lit ++ dq)).
    { rewrite !escape_dot_chars.
      rewrite (esc_all_app (dec pos ++ ": ")), (esc_all_plain _ (plain_dec_colon pos)), !esc_all_quoted.
      rewrite !sapp_assoc. reflexivity. }
    rewrite E, qdecode_escape_dot. eexists. split; [reflexivity|]. rewrite render_double_bs.
    change decimal with dec. change sdq with dq. rewrite !sapp_assoc. reflexivity.
  - (* nonterminal *)
    assert (Hpl : all_chars plain_char (dec pos ++ ": <") = true).
    { rewrite all_chars_app, (all_chars_impl _ _ _ digit_plain (dec_digits pos)). reflexivity. }
    assert (E : dec pos ++ ": <" ++ escape_dot name ++ ">" = escape_dot ((dec pos ++ ": <") ++ name ++ ">")).
    { rewrite !escape_dot_chars. rewrite (esc_all_app (dec pos ++ ": <")), (esc_all_plain _ Hpl), (esc_all_app name).
      rewrite !sapp_assoc. reflexivity. }
    rewrite E, qdecode_escape_dot. eexists. split; [reflexivity|]. rewrite render_double_bs.
    change decimal with dec. rewrite !sapp_assoc. reflexivity.
  - (* command *)
    rewrite qdecode_escape_dot. eexists. split; [reflexivity|]. rewrite render_double_bs. reflexivity.
  - (* within-word regex *)
    assert (Hpl : all_chars plain_char (dec pos ++ ": Subword " ++ dec rid) = true).
    { rewrite !all_chars_app, (all_chars_impl _ _ _ digit_plain (dec_digits pos)),
        (all_chars_impl _ _ _ digit_plain (dec_digits rid)). reflexivity. }
    rewrite (plain_qdecode _ Hpl). eexists. split; [reflexivity|].
    rewrite (render_plain _ (plain_no_bs _ Hpl)). reflexivity.
Qed.

Lemma node_body_ok r m : body_ok (node_body r m).
Proof.
  unfold body_ok, node_body.
  assert (Hleaf : forall pos, qdecode false match nthN (r_inputs r) pos with Some inp => leaf_body pos inp | None => "" end <> None).
  { intro pos. destruct (nthN (r_inputs r) pos) as [inp|]; [|discriminate].
    destruct (leaf_body_decodes pos inp) as [v [E _]]. now rewrite E. }
  destruct (nthN (r_nodes r) m) as [[|pos|pos|pos|pos|pos|l|l|c]|]; try discriminate; try apply Hleaf.
  rewrite plain_qdecode; [discriminate|].
  rewrite all_chars_app, (all_chars_impl _ _ _ digit_plain (dec_digits pos)). reflexivity.
Qed.

(** ** Every item is well formed for the reader *)
Lemma block_head_ok rid : Forall item_ok (block_head rid).
Proof.
  unfold block_head. repeat apply Forall_cons; try apply Forall_nil.
  - constructor. split; [split; reflexivity|]. apply plain_body.
    rewrite all_chars_app. exact (all_chars_impl _ _ _ digit_plain (dec_digits _)).
  - constructor. split; split; reflexivity.
  - constructor. split; split; reflexivity.
Qed.

Lemma rx_item_ok pool : forall it r p, rx_item pool r p it -> prefix_ok p -> item_ok it.
Proof.
  induction it as [l|name body IH] using item_ind2; intros r p H Hp.
  - inversion H; subst; constructor.
    + split; [now apply node_id_ok|apply node_body_ok].
    + now split.
  - inversion H as [| |r' p' rid sr inner Ea Hin]; subst. constructor; [apply cluster_name_ok|].
    apply (proj2 (Forall_app item_ok (block_head rid) inner)). split; [apply block_head_ok|].
    apply (proj1 (Forall_app _ (block_head rid) inner)) in IH. destruct IH as [_ IH].
    rewrite Forall_forall in *. intros x Hx.
    apply (IH x Hx sr (sub_pre rid)); [now apply Hin|constructor].
Qed.

(** ** The loop over the children of a [Cat] / [Or] node *)
Definition fold_children (F : N -> list N -> outcome unit (list item * list N)) :=
  fix go (l : list N) (visited : list N) : outcome unit (list item * list N) :=
    match l with
    | [] => Ok ([], visited)
    | c :: rest => do a <- F c visited; do b <- go rest (snd a); Ok ((fst a ++ fst b)%list, snd b)
    end.

Lemma fold_facts F :
  (forall c v rc, F c v = Ok rc -> incl v (snd rc)) ->
  forall l vis res, fold_children F l vis = Ok res ->
    incl vis (snd res)
    /\ (forall c, In c l -> exists v rc, F c v = Ok rc /\ incl (fst rc) (fst res) /\ incl (snd rc) (snd res))
    /\ (forall x, In x (snd res) -> In x vis \/ exists c v rc, In c l /\ F c v = Ok rc /\ In x (snd rc) /\ ~ In x v
                                                   /\ incl (fst rc) (fst res)).
Proof.
  intro Hmono. induction l as [|c rest IH]; intros vis res H; cbn [fold_children] in H.
  - injection H as <-. cbn [fst snd]. split; [apply incl_refl|]. split; [intros ? []|intros x Hx; now left].
  - destruct (F c vis) as [a| | |] eqn:Ea; try discriminate. cbn [obind] in H.
    destruct (fold_children F rest (snd a)) as [b| | |] eqn:Eb; try discriminate. cbn [obind] in H.
    injection H as <-. cbn [fst snd]. destruct (IH _ _ Eb) as [I1 [I2 I3]]. pose proof (Hmono _ _ _ Ea) as Ha.
    split; [eapply incl_tran; eassumption|]. split.
    + intros c' [<-|Hc'].
      * exists vis, a. split; [exact Ea|]. split; [apply incl_appl, incl_refl|exact I1].
      * destruct (I2 c' Hc') as [v [rc [E1 [E2 E3]]]]. exists v, rc. split; [exact E1|]. split; [now apply incl_appr|exact E3].
    + intros x Hx. destruct (I3 x Hx) as [Hin|[c' [v [rc [Hc' [E1 [E2 [E3 E4]]]]]]]].
      * destruct (in_dec N.eq_dec x vis) as [Hv|Hnv]; [now left|]. right. exists c, vis, a.
        split; [now left|]. split; [exact Ea|]. split; [exact Hin|]. split; [exact Hnv|apply incl_appl, incl_refl].
      * right. exists c', v, rc. split; [now right|]. split; [exact E1|]. split; [exact E2|]. split; [exact E3|now apply incl_appr].
Qed.

Lemma fold_same F l : (forall c v rc, In c l -> F c v = Ok rc -> snd rc = v) ->
  forall vis res, fold_children F l vis = Ok res -> snd res = vis.
Proof.
  induction l as [|c rest IH]; intros Hs vis res H; cbn [fold_children] in H.
  - now injection H as <-.
  - destruct (F c vis) as [a| | |] eqn:Ea; try discriminate. cbn [obind] in H.
    destruct (fold_children F rest (snd a)) as [b| | |] eqn:Eb; try discriminate. cbn [obind] in H.
    injection H as <-. cbn [snd]. rewrite (IH (fun c' v rc Hc' => Hs c' v rc (or_intror Hc')) _ _ Eb).
    exact (Hs c vis a (or_introl eq_refl) Ea).
Qed.

(** ** Reachability without passing a [Star], and what the printer returns for it *)
Inductive reach_from (r : regex) : N -> N -> Prop :=
| rf_here n : reach_from r n n
| rf_cat n l c m : nthN (r_nodes r) n = Some (RCat l) -> In c l -> reach_from r c m -> reach_from r n m
| rf_or n l c m : nthN (r_nodes r) n = Some (ROr l) -> In c l -> reach_from r c m -> reach_from r n m.

Definition flat (r : regex) : Prop := forall m pos, nthN (r_nodes r) m <> Some (RSubword pos).
Definition pool_flat (pool : rpool) : Prop := forall rid sr, assocN rid pool = Some sr -> flat sr.

Definition node_line (r : regex) (p : string) (m : N) : item := ILine (LNode (node_id p m) (node_body r m)).
Definition block_of (rid : N) (inner : list item) : item := IBlock ("cluster_" ++ dec rid) (block_head rid ++ inner).

Definition rx_facts (pool : rpool) (r : regex) (node : N) (p : string) (vis : list N) (res : list item * list N) : Prop :=
  incl vis (snd res)
  /\ (forall m, reach_from r node m ->
                In (node_line r p m) (fst res)
                /\ forall pos rid, nthN (r_nodes r) m = Some (RSubword pos) -> nthN (r_inputs r) pos = Some (RSub rid) ->
                                   In rid (snd res))
  /\ (forall x, In x (snd res) ->
                In x vis \/ exists sr inner f' v0 v1,
                              assocN x pool = Some sr /\ In (block_of x inner) (fst res)
                              /\ rx_items f' patched pool sr (r_root sr) None (sub_pre x) v0 = Ok (inner, v1))
  /\ (flat r -> snd res = vis).

Lemma rx_items_facts pool : pool_flat pool -> forall f r node parent p vis res,
  rx_items f patched pool r node parent p vis = Ok res -> rx_facts pool r node p vis res.
Proof.
  intro Hpf. induction f as [|f IH]; intros r node parent p vis res H; [discriminate|].
  cbn [rx_items] in H.
  (* the facts for a node without children that leaves the visited set alone *)
  assert (Hleafcase : forall body, nthN (r_nodes r) node <> None ->
            (forall l, nthN (r_nodes r) node <> Some (RCat l)) -> (forall l, nthN (r_nodes r) node <> Some (ROr l)) ->
            (forall pos, nthN (r_nodes r) node <> Some (RSubword pos)) ->
            node_body r node = body ->
            rx_facts pool r node p vis (ILine (LNode (node_id p node) body) :: parent_edge parent (node_id p node), vis)).
  { intros body _ Hc Ho Hs Eb. unfold rx_facts. cbn [fst snd]. split; [apply incl_refl|]. split; [|split; [intros x Hx; now left|reflexivity]].
    intros m Hm. inversion Hm as [n|n l c m' En _ _|n l c m' En _ _]; subst.
    - split; [left; reflexivity|]. intros pos rid E. now elim (Hs pos).
    - now elim (Hc l).
    - now elim (Ho l). }
  unfold node_body in Hleafcase.
  destruct (nthN (r_nodes r) node) as [n|] eqn:En; [|discriminate].
  destruct n as [|pos|pos|pos|pos|pos|children|children|c].
  - injection H as <-. apply Hleafcase; try discriminate; reflexivity.
  - unfold rx_input in H. destruct (nthN (r_inputs r) pos) as [inp|] eqn:Ei; [|discriminate]. cbn [obind] in H.
    destruct inp as [lit descr|?|?|?]; try discriminate. injection H as <-.
    apply Hleafcase; try discriminate. destruct descr; reflexivity.
  - unfold rx_input in H. destruct (nthN (r_inputs r) pos) as [inp|] eqn:Ei; [|discriminate]. cbn [obind] in H.
    destruct inp as [?|name|?|?]; try discriminate. injection H as <-.
    apply Hleafcase; try discriminate. reflexivity.
  - unfold rx_input in H. destruct (nthN (r_inputs r) pos) as [inp|] eqn:Ei; [|discriminate]. cbn [obind] in H.
    destruct inp as [?|?|cmd|?]; try discriminate. injection H as <-.
    apply Hleafcase; try discriminate. reflexivity.
  - (* Subword *)
    clear Hleafcase.
    unfold rx_input in H. destruct (nthN (r_inputs r) pos) as [inp|] eqn:Ei; [|discriminate]. cbn [obind] in H.
    destruct inp as [?|?|?|rid]; try discriminate.
    destruct (assocN rid pool) as [sr|] eqn:Ep; [|discriminate].
    assert (Hline : node_line r p node = ILine (LNode (node_id p node) (dec pos ++ ": Subword " ++ dec rid))).
    { unfold node_line, node_body. now rewrite En, Ei. }
    assert (Hreach : forall m, reach_from r node m -> m = node).
    { intros m Hm. inversion Hm as [n|n l c m' En' _ _|n l c m' En' _ _]; subst; [reflexivity|congruence|congruence]. }
    destruct (memN rid vis) eqn:Ev.
    + injection H as <-. unfold rx_facts. cbn [fst snd]. split; [apply incl_refl|]. split; [|split].
      * intros m Hm. apply Hreach in Hm. subst m. split.
        -- apply in_or_app. right. left. now rewrite Hline.
        -- intros pos' rid' E1 E2. rewrite En in E1. injection E1 as <-. rewrite Ei in E2. injection E2 as <-.
           now apply memN_In.
      * intros x Hx. now left.
      * intro Hf. now elim (Hf node pos).
    + destruct (rx_items f patched pool sr (r_root sr) None (dec rid ++ "_") (rid :: vis)) as [[inner vis']| | |] eqn:Er;
        try discriminate. cbn [obind] in H. injection H as <-.
      destruct (IH _ _ _ _ _ _ Er) as [_ [_ [_ Hflat]]]. cbn [snd] in Hflat. specialize (Hflat (Hpf rid sr Ep)). subst vis'.
      unfold rx_facts. cbn [fst snd]. split; [intros x Hx; now right|]. split; [|split].
      * intros m Hm. apply Hreach in Hm. subst m. split.
        -- apply in_or_app. left. apply in_or_app. right. left. now rewrite Hline.
        -- intros pos' rid' E1 E2. rewrite En in E1. injection E1 as <-. rewrite Ei in E2. injection E2 as <-. now left.
      * intros x [<-|Hx]; [|now left]. right. exists sr, inner, f, (rid :: vis), (rid :: vis).
        split; [exact Ep|]. split; [|exact Er]. apply in_or_app. right. now left.
      * intro Hf. now elim (Hf node pos).
  - injection H as <-. apply Hleafcase; try discriminate; reflexivity.
  - (* Cat *)
    clear Hleafcase.
    change (fix go (l visited : list N) {struct l} : outcome unit (list item * list N) :=
              match l with
              | [] => Ok ([], visited)
              | c :: rest => do a <- rx_items f patched pool r c (Some (node_id p node)) p visited;
                             do b <- go rest (snd a); Ok ((fst a ++ fst b)%list, snd b)
              end)
      with (fold_children (fun c v => rx_items f patched pool r c (Some (node_id p node)) p v)) in H.
    destruct (fold_children _ children vis) as [[its vis']| | |] eqn:Eg; try discriminate.
    cbn [obind fst snd] in H. injection H as <-.
    destruct (fold_facts _ (fun c v rc E => proj1 (IH _ _ _ _ _ _ E)) _ _ _ Eg) as [F1 [F2 F3]]. cbn [fst snd] in *.
    unfold rx_facts. cbn [fst snd]. split; [exact F1|]. split; [|split].
    + intros m Hm. inversion Hm as [n|n l c m' En' Hc Hcm|n l c m' En' Hc Hcm]; subst.
      * split; [left; unfold node_line, node_body; now rewrite En|]. intros pos rid E. congruence.
      * rewrite En in En'. injection En' as <-. destruct (F2 c Hc) as [v [rc [E1 [E2 E3]]]].
        destruct (IH _ _ _ _ _ _ E1) as [_ [Hb _]]. destruct (Hb m Hcm) as [B1 B2]. split.
        -- right. apply in_or_app. left. now apply E2.
        -- intros pos rid Ea Eb. apply E3. exact (B2 pos rid Ea Eb).
      * congruence.
    + intros x Hx. destruct (F3 x Hx) as [Hv|[c [v [rc [Hc [E1 [E2 [E3 E4]]]]]]]]; [now left|].
      destruct (IH _ _ _ _ _ _ E1) as [_ [_ [Hc3 _]]]. destruct (Hc3 x E2) as [Hv|[sr [inner [f' [v0 [v1 [A1 [A2 A3]]]]]]]]; [contradiction|].
      right. exists sr, inner, f', v0, v1. split; [exact A1|]. split; [|exact A3]. right. apply in_or_app. left. now apply E4.
    + intro Hf. apply (fold_same _ children) with (vis := vis) (res := (its, vis')) in Eg; [exact Eg|].
      intros c v rc _ E. exact (proj2 (proj2 (proj2 (IH _ _ _ _ _ _ E))) Hf).
  - (* Or *)
    clear Hleafcase.
    change (fix go (l visited : list N) {struct l} : outcome unit (list item * list N) :=
              match l with
              | [] => Ok ([], visited)
              | c :: rest => do a <- rx_items f patched pool r c (Some (node_id p node)) p visited;
                             do b <- go rest (snd a); Ok ((fst a ++ fst b)%list, snd b)
              end)
      with (fold_children (fun c v => rx_items f patched pool r c (Some (node_id p node)) p v)) in H.
    destruct (fold_children _ children vis) as [[its vis']| | |] eqn:Eg; try discriminate.
    cbn [obind fst snd] in H. injection H as <-.
    destruct (fold_facts _ (fun c v rc E => proj1 (IH _ _ _ _ _ _ E)) _ _ _ Eg) as [F1 [F2 F3]]. cbn [fst snd] in *.
    unfold rx_facts. cbn [fst snd]. split; [exact F1|]. split; [|split].
    + intros m Hm. inversion Hm as [n|n l c m' En' Hc Hcm|n l c m' En' Hc Hcm]; subst.
      * split; [left; unfold node_line, node_body; now rewrite En|]. intros pos rid E. congruence.
      * congruence.
      * rewrite En in En'. injection En' as <-. destruct (F2 c Hc) as [v [rc [E1 [E2 E3]]]].
        destruct (IH _ _ _ _ _ _ E1) as [_ [Hb _]]. destruct (Hb m Hcm) as [B1 B2]. split.
        -- right. apply in_or_app. left. now apply E2.
        -- intros pos rid Ea Eb. apply E3. exact (B2 pos rid Ea Eb).
    + intros x Hx. destruct (F3 x Hx) as [Hv|[c [v [rc [Hc [E1 [E2 [E3 E4]]]]]]]]; [now left|].
      destruct (IH _ _ _ _ _ _ E1) as [_ [_ [Hc3 _]]]. destruct (Hc3 x E2) as [Hv|[sr [inner [f' [v0 [v1 [A1 [A2 A3]]]]]]]]; [contradiction|].
      right. exists sr, inner, f', v0, v1. split; [exact A1|]. split; [|exact A3]. right. apply in_or_app. left. now apply E4.
    + intro Hf. apply (fold_same _ children) with (vis := vis) (res := (its, vis')) in Eg; [exact Eg|].
      intros c v rc _ E. exact (proj2 (proj2 (proj2 (IH _ _ _ _ _ _ E))) Hf).
  - injection H as <-. apply Hleafcase; try discriminate; reflexivity.
Qed.

(** ** The statements of the items: only labelled nodes, edges, assignments, subgraphs; and a
    node name determines its label *)
From CG Require Import Proofs.DotSemLabels.

Definition ctx_ok (pool : rpool) (r0 : regex) (p : string) (r : regex) : Prop :=
  (p = "" /\ r = r0) \/ exists rid, p = sub_pre rid /\ assocN rid pool = Some r.

Definition lab_rel (pool : rpool) (r0 : regex) (pr : string * string) : Prop :=
  exists p r m, ctx_ok pool r0 p r /\ fst pr = node_id p m /\ snd pr = qdec (node_body r m).

Lemma ctx_prefix pool r0 p r : ctx_ok pool r0 p r -> prefix_ok p.
Proof. intros [[-> _]|[rid [-> _]]]; constructor. Qed.

Lemma lab_rel_fun pool r0 i L L' : lab_rel pool r0 (i, L) -> lab_rel pool r0 (i, L') -> L = L'.
Proof.
  intros [p [r [m [Hc [Hi Hl]]]]] [p' [r' [m' [Hc' [Hi' Hl']]]]]. cbn [fst snd] in *.
  rewrite Hi in Hi'. destruct (node_id_inj _ _ _ _ (ctx_prefix _ _ _ _ Hc) (ctx_prefix _ _ _ _ Hc') Hi') as [Ep Em].
  subst p' m'. assert (r = r').
  { destruct Hc as [[E1 ->]|[rid [E1 A1]]], Hc' as [[E2 ->]|[rid' [E2 A2]]].
    - reflexivity.
    - rewrite E1 in E2. symmetry in E2. now elim (sub_pre_not_main rid').
    - rewrite E2 in E1. symmetry in E1. now elim (sub_pre_not_main rid).
    - rewrite E1 in E2. apply sub_pre_inj in E2. subst rid'. rewrite A1 in A2. now injection A2. }
  subst r'. now rewrite Hl, Hl'.
Qed.

Lemma block_head_stmts rid inner :
  flat_map item_stmts (block_head rid ++ inner)
  = (SAssign "label" (qdec ("SUBWORD " ++ dec rid)) :: SAssign "color" "grey91" :: SAssign "style" "filled"
     :: items_stmts inner)%list.
Proof. reflexivity. Qed.

Lemma rx_item_stmts pool r0 : forall it r p, rx_item pool r p it -> ctx_ok pool r0 p r ->
  Forall simple (item_stmts it) /\ forall pr, In pr (stated_all (item_stmts it)) -> lab_rel pool r0 pr.
Proof.
  induction it as [l|name body IH] using item_ind2; intros r p H Hc.
  - inversion H; subst; cbn [item_stmts line_stmts stated_all flat_map stated app].
    + split; [repeat constructor|]. intros pr [<-|[]]. exists p, r, m. now repeat split.
    + split; [repeat constructor|]. intros pr [].
  - inversion H as [| |r' p' rid sr inner Ea Hin]; subst.
    change (Forall simple [SSub (Some ("cluster_" ++ dec rid))
                                (SAssign "label" (qdec ("SUBWORD " ++ dec rid)) :: SAssign "color" "grey91"
                                 :: SAssign "style" "filled" :: items_stmts inner)]
            /\ forall pr, In pr (stated_all [SSub (Some ("cluster_" ++ dec rid))
                                               (SAssign "label" (qdec ("SUBWORD " ++ dec rid)) :: SAssign "color" "grey91"
                                                :: SAssign "style" "filled" :: items_stmts inner)]) ->
                           lab_rel pool r0 pr).
    apply (proj1 (Forall_app _ (block_head rid) inner)) in IH. destruct IH as [_ IH].
    assert (Hctx : ctx_ok pool r0 (sub_pre rid) sr) by (right; now exists rid).
    assert (Hall : Forall simple (items_stmts inner)
                   /\ forall pr, In pr (stated_all (items_stmts inner)) -> lab_rel pool r0 pr).
    { clear H. induction inner as [|x rest IHr]; [split; [constructor|intros ? []]|].
      inversion IH as [|? ? Hx Hr]; subst. inversion Hin as [|? ? Hx' Hr']; subst.
      destruct (Hx sr (sub_pre rid) Hx' Hctx) as [A B]. destruct (IHr Hr Hr') as [A' B'].
      cbn [items_stmts flat_map]. split; [apply Forall_app; now split|].
      intros pr Hpr. unfold stated_all in Hpr. rewrite flat_map_app in Hpr. apply in_app_or in Hpr as [Hpr|Hpr];
        [now apply B|now apply B']. }
    destruct Hall as [A B]. split.
    + constructor; [|constructor]. constructor. repeat (constructor; [constructor|]). exact A.
    + intros pr Hpr. cbn [stated_all flat_map stated app] in Hpr. rewrite app_nil_r in Hpr. exact (B pr Hpr).
Qed.

Lemma rx_items_stmts pool r0 l p r :
  Forall (rx_item pool r p) l -> ctx_ok pool r0 p r ->
  Forall simple (items_stmts l) /\ forall pr, In pr (stated_all (items_stmts l)) -> lab_rel pool r0 pr.
Proof.
  intros H Hc. induction H as [|x rest Hx Hr IH]; [split; [constructor|intros ? []]|].
  destruct (rx_item_stmts pool r0 x r p Hx Hc) as [A B]. destruct IH as [A' B'].
  cbn [items_stmts flat_map]. split; [apply Forall_app; now split|].
  intros pr Hpr. unfold stated_all in Hpr. rewrite flat_map_app in Hpr. apply in_app_or in Hpr as [Hpr|Hpr];
    [now apply B|now apply B'].
Qed.

(** ** The theorem for the --regex file *)
Definition leaf_for (inp : rinput) (pos : N) : rnode :=
  match inp with
  | RLit _ _ => RTerm pos
  | RNonterm _ => RNt pos
  | RCmd _ => RCommand pos
  | RSub _ => RSubword pos
  end.

(** every position has its leaf, reachable from the root without passing a [Star] *)
Definition rx_cover (r : regex) : Prop :=
  forall pos inp, nthN (r_inputs r) pos = Some inp ->
                  exists m, reach_from r (r_root r) m /\ nthN (r_nodes r) m = Some (leaf_for inp pos).

Definition spec_items (r : regex) : list ritem := map ritem_of (r_inputs r).
Definition spec_pool (pool : rpool) : list (N * list ritem) := map (fun q => (fst q, spec_items (snd q))) pool.

Lemma labels_from_in its : forall n l,
  In l (labels_from n its) -> exists k it, nth_error its k = Some it /\ l = item_label (n + N.of_nat k) it.
Proof.
  induction its as [|x r IH]; intros n l H; [destruct H|]. cbn [labels_from] in H. destruct H as [<-|H].
  - exists 0%nat, x. split; [reflexivity|]. now rewrite N.add_0_r.
  - destruct (IH _ _ H) as [k [it [E1 E2]]]. exists (S k), it. split; [exact E1|]. rewrite E2. f_equal. lia.
Qed.

Lemma spec_items_nth r k it :
  nth_error (spec_items r) k = Some it ->
  exists inp, nthN (r_inputs r) (N.of_nat k) = Some inp /\ it = ritem_of inp.
Proof.
  unfold spec_items, nthN. rewrite Nat2N.id. intro H.
  destruct (nth_error (r_inputs r) k) as [inp|] eqn:E.
  - rewrite (map_nth_error ritem_of _ _ E) in H. injection H as <-. now exists inp.
  - apply nth_error_None in E. assert (Hn : nth_error (map ritem_of (r_inputs r)) k = None)
      by (apply nth_error_None; now rewrite map_length). congruence.
Qed.

Lemma spec_pool_assoc pool rid its :
  assocN rid (spec_pool pool) = Some its -> exists sr, assocN rid pool = Some sr /\ its = spec_items sr.
Proof.
  unfold spec_pool. induction pool as [|[k sr] rest IH]; [discriminate|]. cbn [map assocN fst snd].
  destruct (rid =? k)%N; [intro H; injection H as <-; now exists sr|exact IH].
Qed.

Lemma node_body_leaf r m pos inp :
  nthN (r_nodes r) m = Some (leaf_for inp pos) -> nthN (r_inputs r) pos = Some inp ->
  node_body r m = leaf_body pos inp.
Proof. intros E1 E2. unfold node_body. rewrite E1. destruct inp; cbn [leaf_for]; now rewrite E2. Qed.

Lemma stated_of_line i b l : In (ILine (LNode i b)) l -> In (i, qdec b) (stated_all (items_stmts l)).
Proof.
  intro H. unfold stated_all, items_stmts. apply in_flat_map. exists (SNode i [("label", qdec b)]). split.
  - apply in_flat_map. exists (ILine (LNode i b)). split; [exact H|now left].
  - now left.
Qed.

Lemma stmt_of_block name b l : In (IBlock name b) l -> In (SSub (Some name) (items_stmts b)) (items_stmts l).
Proof. intro H. unfold items_stmts. apply in_flat_map. exists (IBlock name b). split; [exact H|now left]. Qed.

Lemma stated_sub_incl name body l pr :
  In (SSub name body) l -> In pr (stated_all body) -> In pr (stated_all l).
Proof. intros H Hp. unfold stated_all. apply in_flat_map. exists (SSub name body). split; [exact H|exact Hp]. Qed.

Lemma sub_rids_in l rid : In rid (sub_rids l) -> In (XSub rid) l.
Proof.
  unfold sub_rids. rewrite dedup_in, in_flat_map. intros [x [Hx Hr]]. destruct x; try destruct Hr.
  - subst. exact Hx.
  - destruct H.
Qed.

Lemma graph_directed a : g_directed (graph_of_ast a) = a_directed a.
Proof. unfold graph_of_ast. destruct (run_stmts (a_body a) _). reflexivity. Qed.

Theorem regex_dot_patched pool r text :
  pool_flat pool -> of_regex_with patched pool r = Ok text ->
  exists g, read text = Some g
            /\ (rx_cover r -> (forall rid sr, assocN rid pool = Some sr -> rx_cover sr) ->
                regex_ok g (spec_pool pool) (spec_items r)).
Proof.
  intros Hpf H. unfold of_regex_with, regex_items in H.
  destruct (rx_items (rx_fuel pool r) patched pool r (r_root r) None "" []) as [[items vis]| | |] eqn:Er; try discriminate.
  cbn [obind fst] in H. injection H as <-.
  pose proof (rx_items_inv pool _ _ _ _ _ _ _ pre_main (fun pid E => False_ind _ (eq_ind None (fun o => match o with None => True | Some _ => False end) I _ E)) Er) as Hinv.
  cbn [fst] in Hinv.
  assert (Hok : Forall item_ok items).
  { rewrite Forall_forall in *. intros x Hx. exact (rx_item_ok pool x r "" (Hinv x Hx) pre_main). }
  eexists. split; [apply (read_render_doc "rx" items); [split; reflexivity|exact Hok]|].
  intros Hcov Hcovs.
  destruct (rx_items_stmts pool r items "" r Hinv (or_introl (conj eq_refl eq_refl))) as [Hsimple Hrel].
  destruct (labels_kept (items_stmts items) false (Some "rx") Hsimple) as [K1 K2].
  { intros i L L' H1 H2. exact (lab_rel_fun pool r i L L' (Hrel _ H1) (Hrel _ H2)). }
  cbn zeta in K1, K2.
  destruct (rx_items_facts pool Hpf _ _ _ _ _ _ _ Er) as [_ [FB [FC _]]]. cbn [fst snd] in FB, FC.
  split; [apply graph_directed|].
  intros w Hw. unfold expected_labels in Hw. apply in_app_or in Hw as [Hw|Hw].
  - (* a position of the regex itself *)
    apply in_map_iff in Hw as [l [<- Hl]].
    destruct (labels_from_in _ _ _ Hl) as [k [it [E1 ->]]]. rewrite N.add_0_l.
    destruct (spec_items_nth r k it E1) as [inp [Ei ->]].
    destruct (Hcov _ _ Ei) as [m [Hreach Hnode]].
    destruct (FB m Hreach) as [Hline _]. unfold node_line in Hline.
    rewrite (node_body_leaf r m _ inp Hnode Ei) in Hline.
    destruct (leaf_body_decodes (N.of_nat k) inp) as [v [Ed Ev]].
    destruct (K1 _ _ (stated_of_line _ _ _ Hline)) as [n [Hn [Hid Hlab]]].
    unfold labels_node. apply existsb_exists. exists n. split; [exact Hn|].
    unfold rendered. rewrite Hlab. unfold qdec. rewrite Ed. cbn [option_map option_eqb]. rewrite Ev.
    rewrite String.eqb_refl. reflexivity.
  - (* a position of a within-word regex *)
    apply in_flat_map in Hw as [rid [Hrid Hw]].
    destruct (assocN rid (spec_pool pool)) as [its|] eqn:Ea; [|destruct Hw].
    destruct (spec_pool_assoc pool rid its Ea) as [sr [Esr ->]].
    apply in_map_iff in Hw as [l [<- Hl]].
    destruct (labels_from_in _ _ _ Hl) as [k [it [E1 ->]]]. rewrite N.add_0_l.
    destruct (spec_items_nth sr k it E1) as [inp [Ei ->]].
    (* the within-word regex is met: its cluster was written *)
    apply sub_rids_in in Hrid. unfold spec_items in Hrid. apply in_map_iff in Hrid as [inp0 [E0 Hin0]].
    destruct inp0 as [| | |rid0]; try discriminate E0. injection E0 as ->.
    apply In_nth_error in Hin0 as [k0 Hk0].
    assert (Ei0 : nthN (r_inputs r) (N.of_nat k0) = Some (RSub rid)) by (unfold nthN; now rewrite Nat2N.id).
    destruct (Hcov _ _ Ei0) as [m0 [Hreach0 Hnode0]]. cbn [leaf_for] in Hnode0.
    destruct (FB m0 Hreach0) as [_ Hvis]. specialize (Hvis _ _ Hnode0 Ei0).
    destruct (FC rid Hvis) as [[]|[sr' [inner [f' [v0 [v1 [Esr' [Hblock Hrun]]]]]]]].
    rewrite Esr in Esr'. injection Esr' as <-.
    destruct (rx_items_facts pool Hpf _ _ _ _ _ _ _ Hrun) as [_ [FB' _]]. cbn [fst] in FB'.
    destruct (Hcovs rid sr Esr _ _ Ei) as [m [Hreach Hnode]].
    destruct (FB' m Hreach) as [Hline _]. unfold node_line in Hline.
    rewrite (node_body_leaf sr m _ inp Hnode Ei) in Hline.
    destruct (leaf_body_decodes (N.of_nat k) inp) as [v [Ed Ev]].
    unfold block_of in Hblock. apply stmt_of_block in Hblock.
    assert (Hin_body : In (node_id (sub_pre rid) m, qdec (leaf_body (N.of_nat k) inp))
                          (stated_all (items_stmts (block_head rid ++ inner)))).
    { apply stated_of_line. apply in_or_app. now right. }
    destruct (K1 _ _ (stated_sub_incl _ _ _ _ Hblock Hin_body)) as [n [Hn [Hid Hlab]]].
    pose proof (K2 _ _ _ _ Hblock Hin_body) as Hcl.
    unfold labels_node. apply existsb_exists. exists n. split; [exact Hn|].
    unfold rendered. rewrite Hlab. unfold qdec. rewrite Ed. cbn [option_map option_eqb]. rewrite Ev.
    rewrite String.eqb_refl, Hid. cbn [andb]. exact Hcl.
Qed.

(** ** The old printer agrees with the patched one when no text needs escaping *)
Lemma escape_quotes_none s : contains_char c_dq s = false -> escape_quotes s = s.
Proof.
  unfold escape_quotes. change """"%char with c_dq.
  induction s as [|c s IH]; [reflexivity|]. cbn [contains_char replace_char].
  destruct (Ascii.eqb c c_dq); [discriminate|]. intro H. now rewrite IH.
Qed.

Lemma escape_dot_safe s : needs_dot_escape s = false -> escape_dot s = s.
Proof.
  unfold needs_dot_escape. intro H. apply orb_false_iff in H as [H1 H2]. unfold escape_dot.
  rewrite (escape_backslashes_none s H2). now apply escape_quotes_none.
Qed.

Lemma fold_children_ext F G l : (forall c v, F c v = G c v) -> forall vis, fold_children F l vis = fold_children G l vis.
Proof.
  intro H. induction l as [|c rest IH]; intro vis; [reflexivity|]. cbn [fold_children]. rewrite H.
  destruct (G c vis) as [a| | |]; try reflexivity. cbn [obind]. now rewrite IH.
Qed.

Definition inputs_safe (r : regex) : Prop := forall inp, In inp (r_inputs r) -> rinput_raw_unsafe inp = false.

(** two variants write the texts of an input the same way *)
Definition rx_agree (v1 v2 : variant) (inp : rinput) : Prop :=
  match inp with
  | RLit t None => v_rx_escape v1 t = v_rx_escape v2 t
  | RLit t (Some d) => v_rx_escape v1 t = v_rx_escape v2 t /\ v_rx_escape v1 d = v_rx_escape v2 d
  | RNonterm n => v_rx_escape v1 n = v_rx_escape v2 n
  | _ => True
  end.
Definition inputs_agree (v1 v2 : variant) (r : regex) : Prop := forall inp, In inp (r_inputs r) -> rx_agree v1 v2 inp.

Lemma rx_items_agree v1 v2 pool :
  (forall rid sr, assocN rid pool = Some sr -> inputs_agree v1 v2 sr) ->
  forall f r node parent p vis, inputs_agree v1 v2 r ->
    rx_items f v1 pool r node parent p vis = rx_items f v2 pool r node parent p vis.
Proof.
  intro Hpool. induction f as [|f IH]; intros r node parent p vis Hs; [reflexivity|].
  cbn [rx_items]. destruct (nthN (r_nodes r) node) as [n|]; [|reflexivity].
  assert (Hin : forall pos inp, nthN (r_inputs r) pos = Some inp -> rx_agree v1 v2 inp).
  { intros pos inp E. apply Hs. unfold nthN in E. exact (nth_error_In _ _ E). }
  destruct n as [|pos|pos|pos|pos|pos|children|children|c]; try reflexivity.
  - unfold rx_input. destruct (nthN (r_inputs r) pos) as [inp|] eqn:Ei; [|reflexivity]. cbn [obind].
    destruct inp as [lit [d|]|?|?|?]; try reflexivity; specialize (Hin _ _ Ei); cbn [rx_agree] in Hin.
    + destruct Hin as [H1 H2]. now rewrite H1, H2.
    + now rewrite Hin.
  - unfold rx_input. destruct (nthN (r_inputs r) pos) as [inp|] eqn:Ei; [|reflexivity]. cbn [obind].
    destruct inp as [?|name|?|?]; try reflexivity. specialize (Hin _ _ Ei). cbn [rx_agree] in Hin. now rewrite Hin.
  - unfold rx_input. destruct (nthN (r_inputs r) pos) as [inp|] eqn:Ei; [|reflexivity]. cbn [obind].
    destruct inp as [?|?|?|rid]; try reflexivity. destruct (assocN rid pool) as [sr|] eqn:Ep; [|reflexivity].
    destruct (memN rid vis); [reflexivity|]. now rewrite (IH sr _ _ _ _ (Hpool rid sr Ep)).
  - change (fix go (l visited : list N) {struct l} : outcome unit (list item * list N) :=
              match l with
              | [] => Ok ([], visited)
              | c :: rest => do a <- rx_items f v1 pool r c (Some (node_id p node)) p visited;
                             do b <- go rest (snd a); Ok ((fst a ++ fst b)%list, snd b)
              end)
      with (fold_children (fun c v => rx_items f v1 pool r c (Some (node_id p node)) p v)).
    change (fix go (l visited : list N) {struct l} : outcome unit (list item * list N) :=
              match l with
              | [] => Ok ([], visited)
              | c :: rest => do a <- rx_items f v2 pool r c (Some (node_id p node)) p visited;
                             do b <- go rest (snd a); Ok ((fst a ++ fst b)%list, snd b)
              end)
      with (fold_children (fun c v => rx_items f v2 pool r c (Some (node_id p node)) p v)).
    rewrite (fold_children_ext _ (fun c v => rx_items f v2 pool r c (Some (node_id p node)) p v)); [reflexivity|].
    intros c v. now apply IH.
  - change (fix go (l visited : list N) {struct l} : outcome unit (list item * list N) :=
              match l with
              | [] => Ok ([], visited)
              | c :: rest => do a <- rx_items f v1 pool r c (Some (node_id p node)) p visited;
                             do b <- go rest (snd a); Ok ((fst a ++ fst b)%list, snd b)
              end)
      with (fold_children (fun c v => rx_items f v1 pool r c (Some (node_id p node)) p v)).
    change (fix go (l visited : list N) {struct l} : outcome unit (list item * list N) :=
              match l with
              | [] => Ok ([], visited)
              | c :: rest => do a <- rx_items f v2 pool r c (Some (node_id p node)) p visited;
                             do b <- go rest (snd a); Ok ((fst a ++ fst b)%list, snd b)
              end)
      with (fold_children (fun c v => rx_items f v2 pool r c (Some (node_id p node)) p v)).
    rewrite (fold_children_ext _ (fun c v => rx_items f v2 pool r c (Some (node_id p node)) p v)); [reflexivity|].
    intros c v. now apply IH.
Qed.

Lemma safe_agree inp : rinput_raw_unsafe inp = false -> rx_agree old patched inp.
Proof.
  destruct inp as [t [d|]|n|c|r]; cbn [rinput_raw_unsafe rx_agree v_rx_escape old patched]; intro H; try exact I.
  - apply orb_false_iff in H as [H1 H2]. now rewrite (escape_dot_safe _ H1), (escape_dot_safe _ H2).
  - now rewrite (escape_dot_safe _ H).
  - now rewrite (escape_dot_safe _ H).
Qed.

Lemma rx_items_variant pool :
  (forall rid sr, assocN rid pool = Some sr -> inputs_safe sr) ->
  forall f r node parent p vis, inputs_safe r ->
    rx_items f old pool r node parent p vis = rx_items f patched pool r node parent p vis.
Proof.
  intros Hpool f r node parent p vis Hs. apply rx_items_agree.
  - intros rid sr E inp Hin. apply safe_agree. exact (Hpool rid sr E inp Hin).
  - intros inp Hin. apply safe_agree. exact (Hs inp Hin).
Qed.

Lemma current_agree inp : rx_agree current patched inp.
Proof. destruct inp as [t [d|]|n|c|r]; cbn; auto. Qed.

(** the code as it is now writes the --regex file exactly as the fully patched one *)
Lemma of_regex_current pool r : of_regex pool r = of_regex_with patched pool r.
Proof.
  unfold of_regex, of_regex_with, regex_items. rewrite (rx_items_agree current patched pool); [reflexivity| |].
  - intros rid sr _ inp _. apply current_agree.
  - intros inp _. apply current_agree.
Qed.

Lemma assocN_In {V} k (v : V) l : assocN k l = Some v -> In (k, v) l.
Proof.
  induction l as [|[k' v'] r IH]; [discriminate|]. cbn. destruct (k =? k')%N eqn:E.
  - intro H. injection H as ->. apply N.eqb_eq in E. subst. now left.
  - intro H. right. now apply IH.
Qed.

Theorem regex_variants_agree pool r :
  known_rx_all pool r = false -> of_regex_with old pool r = of_regex_with patched pool r.
Proof.
  unfold known_rx_all. intro H. apply orb_false_iff in H as [H1 H2].
  assert (Hf : forall {A} (f : A -> bool) l x, existsb f l = false -> In x l -> f x = false).
  { intros A f l x He Hin. destruct (f x) eqn:E; [|reflexivity].
    assert (existsb f l = true) by (apply existsb_exists; now exists x). congruence. }
  unfold of_regex_with, regex_items. rewrite rx_items_variant; [reflexivity| |].
  - intros rid sr Ea inp Hin. apply assocN_In in Ea. pose proof (Hf _ _ _ (rid, sr) H2 Ea) as Hq. cbn [snd] in Hq.
    exact (Hf _ _ _ inp Hq Hin).
  - intros inp Hin. exact (Hf _ _ _ inp H1 Hin).
Qed.

(** ** The executable well-formedness check implies the hypotheses of the theorem *)
Lemma rx_reach_sound r : forall f n m, In m (rx_reach f r n) -> reach_from r n m.
Proof.
  induction f as [|f IH]; intros n m H; [destruct H|]. cbn [rx_reach] in H. destruct H as [<-|H]; [constructor|].
  destruct (nthN (r_nodes r) n) as [[| | | | | |l|l|]|] eqn:E; try destruct H.
  - apply in_flat_map in H as [c [Hc Hm]]. exact (rf_cat r n l c m E Hc (IH _ _ Hm)).
  - apply in_flat_map in H as [c [Hc Hm]]. exact (rf_or r n l c m E Hc (IH _ _ Hm)).
Qed.

Lemma rnode_leaf_eqb_eq n inp pos : rnode_leaf_eqb n (rx_leaf_for inp pos) = true -> n = leaf_for inp pos.
Proof.
  destruct inp, n; cbn; intro H; try discriminate; apply N.eqb_eq in H; now subst.
Qed.

Lemma rx_cover_from_sound r reach : forall inputs pos0,
  rx_cover_from r reach pos0 inputs = true ->
  forall k inp, nth_error inputs k = Some inp ->
    exists m, In m reach /\ nthN (r_nodes r) m = Some (leaf_for inp (pos0 + N.of_nat k)).
Proof.
  induction inputs as [|x rest IH]; intros pos0 H k inp E; [destruct k; discriminate|].
  cbn [rx_cover_from] in H. apply andb_true_iff in H as [H1 H2]. destruct k as [|k].
  - cbn in E. injection E as ->. apply existsb_exists in H1 as [m [Hm Hn]]. exists m. split; [exact Hm|].
    destruct (nthN (r_nodes r) m) as [n|]; [|discriminate]. rewrite N.add_0_r. f_equal. now apply rnode_leaf_eqb_eq.
  - cbn in E. destruct (IH _ H2 k inp E) as [m [Hm Hn]]. exists m. split; [exact Hm|]. rewrite Hn. do 2 f_equal. lia.
Qed.

Lemma rx_cover_b_sound r : rx_cover_b r = true -> rx_cover r.
Proof.
  unfold rx_cover_b, rx_cover. intros H pos inp E. unfold nthN in E.
  destruct (rx_cover_from_sound r _ _ _ H _ _ E) as [m [Hm Hn]]. exists m. split; [exact (rx_reach_sound r _ _ _ Hm)|].
  rewrite Hn. now rewrite N.add_0_l, N2Nat.id.
Qed.

Lemma rx_flat_b_sound r : rx_flat_b r = true -> flat r.
Proof.
  unfold rx_flat_b, flat. intros H m pos E. rewrite forallb_forall in H. unfold nthN in E.
  specialize (H _ (nth_error_In _ _ E)). discriminate H.
Qed.

Lemma rx_wf_b_sound pool r :
  rx_wf_b pool r = true ->
  pool_flat pool /\ rx_cover r /\ forall rid sr, assocN rid pool = Some sr -> rx_cover sr.
Proof.
  unfold rx_wf_b. intro H. apply andb_true_iff in H as [H1 H2]. rewrite forallb_forall in H2.
  split; [|split; [now apply rx_cover_b_sound|]].
  - intros rid sr E. apply assocN_In in E. specialize (H2 _ E). cbn [snd] in H2. apply andb_true_iff in H2 as [A _].
    now apply rx_flat_b_sound.
  - intros rid sr E. apply assocN_In in E. specialize (H2 _ E). cbn [snd] in H2. apply andb_true_iff in H2 as [_ B].
    now apply rx_cover_b_sound.
Qed.

Theorem regex_dot_patched_b pool r text :
  rx_wf_b pool r = true -> of_regex_with patched pool r = Ok text ->
  exists g, read text = Some g /\ regex_ok g (spec_pool pool) (spec_items r).
Proof.
  intros Hwf H. destruct (rx_wf_b_sound pool r Hwf) as [A [B C]].
  destruct (regex_dot_patched pool r text A H) as [g [Hr Hok]]. exists g. split; [exact Hr|now apply Hok].
Qed.

Theorem regex_dot_old_b pool r text :
  rx_wf_b pool r = true -> known_rx_all pool r = false -> of_regex_with old pool r = Ok text ->
  exists g, read text = Some g /\ regex_ok g (spec_pool pool) (spec_items r).
Proof. intros Hwf Hk H. rewrite (regex_variants_agree pool r Hk) in H. now apply regex_dot_patched_b. Qed.
