(** C16, the --regex file: whenever the (patched) model of [Regex::to_dot] returns, every line it
    wrote is well formed for the reader, a node name determines its label, every node reachable from
    the root without passing a [Star] has its line, and every within-word regex met has its cluster. *)
From CG Require Import Base.Prelude Model.Dfa Spec.DotRead Spec.DotSpec Model.Dot
     Proofs.DotLex Proofs.DotParse Proofs.DotNames.
Local Open Scope string_scope.

(** ** Label bodies *)
Definition leaf_body (pos : N) (inp : rinput) : string :=
  match inp with
  | RLit lit None => dec pos ++ ": " ++ bs ++ dq ++ escape_dot lit ++ bs ++ dq
  | RLit lit (Some d) =>
      dec pos ++ ": " ++ bs ++ dq ++ escape_dot lit ++ bs ++ dq ++ bs ++ "n" ++ bs ++ dq ++ escape_dot d ++ bs ++ dq
  | RNonterm name => dec pos ++ ": <" ++ escape_dot name ++ ">"
  | RCmd cmd => escape_dot (dec pos ++ ": " ++ cmd)
  | RSub rid => dec pos ++ ": Subword " ++ dec rid
  end.

Definition node_body (r : regex) (m : N) : string :=
  match nthN (r_nodes r) m with
  | Some REps => "Epsilon"
  | Some (RCat _) => "Cat"
  | Some (ROr _) => "Or"
  | Some (RStar _) => "Star"
  | Some (REnd pos) => dec pos ++ ": EndMarker"
  | Some (RTerm pos) | Some (RNt pos) | Some (RCommand pos) | Some (RSubword pos) =>
      match nthN (r_inputs r) pos with Some inp => leaf_body pos inp | None => "" end
  | None => ""
  end.

(** ** What every item the printer returns looks like *)
Definition block_head (rid : N) : list item :=
  [ILine (LAssignQ "label" ("SUBWORD " ++ dec rid)); ILine (LAssign "color" "grey91"); ILine (LAssign "style" "filled")].

Inductive rx_item (pool : rpool) : regex -> string -> item -> Prop :=
| rxi_node r p m : rx_item pool r p (ILine (LNode (node_id p m) (node_body r m)))
| rxi_edge r p a b : id_ok a -> id_ok b -> rx_item pool r p (ILine (LEdge a b))
| rxi_block r p rid sr inner :
    assocN rid pool = Some sr -> Forall (rx_item pool sr (sub_pre rid)) inner ->
    rx_item pool r p (IBlock ("cluster_" ++ dec rid) (block_head rid ++ inner)).

Lemma parent_edge_rx pool r p parent me :
  (forall pid, parent = Some pid -> id_ok pid) -> id_ok me ->
  Forall (rx_item pool r p) (parent_edge parent me).
Proof.
  intros Hp Hme. destruct parent as [pid|]; cbn; constructor; [|constructor].
  constructor; [now apply Hp|exact Hme].
Qed.

Lemma rx_items_inv pool : forall f r node parent p vis res,
  prefix_ok p -> (forall pid, parent = Some pid -> id_ok pid) ->
  rx_items f patched pool r node parent p vis = Ok res ->
  Forall (rx_item pool r p) (fst res).
Proof.
  induction f as [|f IH]; intros r node parent p vis res Hp Hpar H; [discriminate|].
  cbn [rx_items] in H.
  assert (Hme : id_ok (node_id p node)) by now apply node_id_ok.
  pose proof (parent_edge_rx pool r p parent (node_id p node) Hpar Hme) as Hpe.
  assert (Hnb : forall b, node_body r node = b ->
                          rx_item pool r p (ILine (LNode (node_id p node) b))).
  { intros b <-. constructor. }
  unfold node_body in Hnb.
  destruct (nthN (r_nodes r) node) as [n|] eqn:En; [|discriminate].
  destruct n as [|pos|pos|pos|pos|pos|children|children|c].
  - (* Epsilon *) injection H as <-. cbn [fst]. constructor; [now apply Hnb|exact Hpe].
  - (* Terminal *)
    unfold rx_input in H. destruct (nthN (r_inputs r) pos) as [inp|] eqn:Ei; [|discriminate]. cbn [obind] in H.
    destruct inp as [lit descr|?|?|?]; try discriminate. injection H as <-. cbn [fst].
    constructor; [|exact Hpe]. apply Hnb. destruct descr; reflexivity.
  - (* Nonterminal *)
    unfold rx_input in H. destruct (nthN (r_inputs r) pos) as [inp|] eqn:Ei; [|discriminate]. cbn [obind] in H.
    destruct inp as [?|name|?|?]; try discriminate. injection H as <-. cbn [fst].
    constructor; [|exact Hpe]. apply Hnb. reflexivity.
  - (* Command *)
    unfold rx_input in H. destruct (nthN (r_inputs r) pos) as [inp|] eqn:Ei; [|discriminate]. cbn [obind] in H.
    destruct inp as [?|?|cmd|?]; try discriminate. injection H as <-. cbn [fst].
    constructor; [|exact Hpe]. apply Hnb. reflexivity.
  - (* Subword *)
    unfold rx_input in H. destruct (nthN (r_inputs r) pos) as [inp|] eqn:Ei; [|discriminate]. cbn [obind] in H.
    destruct inp as [?|?|?|rid]; try discriminate.
    destruct (assocN rid pool) as [sr|] eqn:Ep; [|discriminate].
    assert (Hpre : Forall (rx_item pool r p)
                     (parent_edge parent (node_id p node)
                      ++ [ILine (LNode (node_id p node) (dec pos ++ ": Subword " ++ dec rid));
                          ILine (LEdge (node_id p node) (node_id (dec rid ++ "_") (r_root sr)))])%list).
    { apply Forall_app. split; [exact Hpe|]. constructor; [apply Hnb; reflexivity|].
      constructor; [|constructor]. constructor; [exact Hme|]. apply (node_id_ok (sub_pre rid)). constructor. }
    destruct (memN rid vis).
    + injection H as <-. exact Hpre.
    + destruct (rx_items f patched pool sr (r_root sr) None (dec rid ++ "_") (rid :: vis)) as [[inner vis']| | |] eqn:Er;
        try discriminate. cbn [obind] in H. injection H as <-. cbn [fst].
      apply Forall_app. split; [exact Hpre|]. constructor; [|constructor].
      apply (rxi_block pool r p rid sr inner Ep).
      apply (IH sr (r_root sr) None (sub_pre rid) (rid :: vis) (inner, vis')); [constructor|discriminate|exact Er].
  - (* EndMarker *) injection H as <-. cbn [fst]. constructor; [now apply Hnb|exact Hpe].
  - (* Cat *)
    match type of H with (do res0 <- ?go children vis; _) = _ => destruct (go children vis) as [[its vis']| | |] eqn:Eg end;
      try discriminate. cbn [obind] in H. injection H as <-. cbn [fst].
    constructor; [now apply Hnb|]. apply Forall_app. split; [|exact Hpe].
    clear Hnb Hpe En. revert vis its vis' Eg. induction children as [|c rest IHc]; intros vis its vis' Eg.
    + injection Eg as <- <-. constructor.
    + destruct (rx_items f patched pool r c (Some (node_id p node)) p vis) as [a| | |] eqn:Ea; try discriminate.
      cbn [obind] in Eg.
      match type of Eg with (do b <- ?go rest (snd a); _) = _ => destruct (go rest (snd a)) as [b| | |] eqn:Eb end;
        try discriminate. cbn [obind] in Eg. injection Eg as <- <-.
      apply Forall_app. split.
      * apply (IH r c (Some (node_id p node)) p vis a Hp); [|exact Ea]. intros pid E. injection E as <-. exact Hme.
      * destruct b as [bi bv]. exact (IHc (snd a) bi bv Eb).
  - (* Or *)
    match type of H with (do res0 <- ?go children vis; _) = _ => destruct (go children vis) as [[its vis']| | |] eqn:Eg end;
      try discriminate. cbn [obind] in H. injection H as <-. cbn [fst].
    constructor; [now apply Hnb|]. apply Forall_app. split; [|exact Hpe].
    clear Hnb Hpe En. revert vis its vis' Eg. induction children as [|c rest IHc]; intros vis its vis' Eg.
    + injection Eg as <- <-. constructor.
    + destruct (rx_items f patched pool r c (Some (node_id p node)) p vis) as [a| | |] eqn:Ea; try discriminate.
      cbn [obind] in Eg.
      match type of Eg with (do b <- ?go rest (snd a); _) = _ => destruct (go rest (snd a)) as [b| | |] eqn:Eb end;
        try discriminate. cbn [obind] in Eg. injection Eg as <- <-.
      apply Forall_app. split.
      * apply (IH r c (Some (node_id p node)) p vis a Hp); [|exact Ea]. intros pid E. injection E as <-. exact Hme.
      * destruct b as [bi bv]. exact (IHc (snd a) bi bv Eb).
  - (* Star *) injection H as <-. cbn [fst]. constructor; [now apply Hnb|exact Hpe].
Qed.

(** ** Label bodies decode and render to the prescribed labels *)
Lemma esc_all_app a b : esc_all (a ++ b) = esc_all a ++ esc_all b.
Proof. induction a as [|c a IH]; [reflexivity|]. cbn [append esc_all]. now rewrite IH, sapp_assoc. Qed.

Lemma esc_all_plain s : all_chars plain_char s = true -> esc_all s = s.
Proof.
  induction s as [|c s IH]; [reflexivity|]. cbn [all_chars esc_all]. intro H.
  apply andb_true_iff in H as [Hc Hs]. unfold plain_char in Hc. apply andb_true_iff in Hc as [H1 H2].
  apply negb_true_iff in H1, H2. unfold esc1. rewrite H1, H2, (IH Hs). reflexivity.
Qed.

Lemma esc_all_dq : esc_all dq = bs ++ dq.
Proof. reflexivity. Qed.

Lemma esc_all_quoted x : esc_all (dq ++ x ++ dq) = bs ++ dq ++ esc_all x ++ bs ++ dq.
Proof.
  change (dq ++ x ++ dq) with (String c_dq (x ++ dq)). cbn [esc_all]. rewrite esc_all_app, esc_all_dq.
  unfold esc1. change (Ascii.eqb c_dq c_bs) with false. change (Ascii.eqb c_dq c_dq) with true. cbn match.
  now rewrite !sapp_assoc.
Qed.

Lemma qdecode_esc_app a rest :
  qdecode false (esc_all a ++ rest) = option_map (append (double_bs a)) (qdecode false rest).
Proof.
  induction a as [|c a IH].
  - cbn. destruct (qdecode false rest); reflexivity.
  - cbn [esc_all double_bs]. unfold esc1. destruct (Ascii.eqb c c_bs) eqn:Eb.
    + change ((bs ++ bs) ++ esc_all a) with (String c_bs (String c_bs (esc_all a))).
      cbn [append qdecode]. change (Ascii.eqb c_bs c_dq) with false. change (Ascii.eqb c_bs c_bs) with true.
      cbn match. rewrite IH. destruct (qdecode false rest); reflexivity.
    + destruct (Ascii.eqb c c_dq) eqn:Eq.
      * change ((bs ++ dq) ++ esc_all a) with (String c_bs (String c_dq (esc_all a))).
        cbn [append qdecode]. change (Ascii.eqb c_bs c_dq) with false. change (Ascii.eqb c_bs c_bs) with true.
        change (Ascii.eqb c_dq c_dq) with true. cbn match. rewrite IH.
        apply Ascii.eqb_eq in Eq. subst c. destruct (qdecode false rest); reflexivity.
      * change (String c "" ++ esc_all a) with (String c (esc_all a)).
        cbn [append qdecode]. rewrite Eq, Eb, IH. destruct (qdecode false rest); reflexivity.
Qed.

Lemma render_double_bs_app a rest : render_label (double_bs a ++ rest) = a ++ render_label rest.
Proof.
  induction a as [|c a IH]; [reflexivity|]. cbn [double_bs].
  destruct (Ascii.eqb c c_bs) eqn:Eb.
  - apply Ascii.eqb_eq in Eb. subst c. cbn [append render_label].
    change (Ascii.eqb c_bs c_bs) with true. cbn match.
    change (Ascii.eqb c_bs "n"%char) with false. change (Ascii.eqb c_bs "l"%char) with false.
    change (Ascii.eqb c_bs "r"%char) with false. change (Ascii.eqb c_bs "N"%char) with false.
    change (Ascii.eqb c_bs "G"%char) with false. change (Ascii.eqb c_bs "E"%char) with false.
    change (Ascii.eqb c_bs "T"%char) with false. change (Ascii.eqb c_bs "H"%char) with false.
    change (Ascii.eqb c_bs "L"%char) with false. cbn. now rewrite IH.
  - cbn [append render_label]. rewrite Eb. now rewrite IH.
Qed.

Definition ritem_of (i : rinput) : ritem :=
  match i with
  | RLit t d => XLit t d
  | RNonterm n => XNonterm n
  | RCmd c => XCmd c
  | RSub r => XSub r
  end.

Lemma plain_dec_colon pos : all_chars plain_char (dec pos ++ ": ") = true.
Proof. rewrite all_chars_app, (all_chars_impl _ _ _ digit_plain (dec_digits pos)). reflexivity. Qed.

Lemma leaf_body_decodes pos inp :
  exists v, qdecode false (leaf_body pos inp) = Some v /\ render_label v = item_label pos (ritem_of inp).
Proof.
  destruct inp as [lit [d|]|name|cmd|rid]; cbn [leaf_body ritem_of item_label].
  - (* literal with description *)
    set (A := (dec pos ++ ": ") ++ dq ++ lit ++ dq). set (B := dq ++ d ++ dq).
    assert (E : dec pos ++ ": " ++ bs ++ dq ++ escape_dot lit ++ bs ++ dq ++ bs ++ "n" ++ bs ++ dq ++ escape_dot d ++ bs ++ dq
                = esc_all A ++ (bs ++ "n" ++ esc_all B)).
    { unfold A, B. rewrite !escape_dot_chars.
      rewrite (esc_all_app (dec pos ++ ": ")), (esc_all_plain _ (plain_dec_colon pos)), !esc_all_quoted.
      rewrite !sapp_assoc. reflexivity. }
    rewrite E, qdecode_esc_app.
    change (bs ++ "n" ++ esc_all B) with (String c_bs (String "n"%char (esc_all B))).
    cbn [qdecode]. change (Ascii.eqb c_bs c_dq) with false. change (Ascii.eqb c_bs c_bs) with true.
    change (Ascii.eqb "n"%char c_dq) with false. change (Ascii.eqb "n"%char c_bs) with false.
    change (Ascii.eqb "n"%char c_nl) with false. cbn match. rewrite qdecode_esc_all. cbn [option_map].
    eexists. split; [reflexivity|]. rewrite render_double_bs_app.
    cbn [render_label]. change (Ascii.eqb c_bs c_bs) with true. cbn match.
    change (Ascii.eqb "n"%char "n"%char) with true. cbn [orb]. rewrite render_double_bs.
    unfold A, B. change decimal with dec. change sdq with dq. change lf with (String c_nl "").
    rewrite !sapp_assoc. reflexivity.
  - (* literal *)
    assert (E : dec pos ++ ": " ++ bs ++ dq ++ escape_dot lit ++ bs ++ dq
                = escape_dot ((dec pos ++ ": ") ++ dq ++ lit ++ dq)).
    { rewrite !escape_dot_chars.
      rewrite (esc_all_app (dec pos ++ ": ")), (esc_all_plain _ (plain_dec_colon pos)), !esc_all_quoted.
      rewrite !sapp_assoc. reflexivity. }
    rewrite E, qdecode_escape_dot. eexists. split; [reflexivity|]. rewrite render_double_bs.
    change decimal with dec. change sdq with dq. rewrite !sapp_assoc. reflexivity.
  - (* nonterminal *)
    assert (Hpl : all_chars plain_char (dec pos ++ ": <") = true).
    { rewrite all_chars_app, (all_chars_impl _ _ _ digit_plain (dec_digits pos)). reflexivity. }
    assert (E : dec pos ++ ": <" ++ escape_dot name ++ ">" = escape_dot ((dec pos ++ ": <") ++ name ++ ">")).
    { rewrite !escape_dot_chars. rewrite (esc_all_app (dec pos ++ ": <")), (esc_all_plain _ Hpl), (esc_all_app name).
      rewrite !sapp_assoc. reflexivity. }
    rewrite E, qdecode_escape_dot. eexists. split; [reflexivity|]. rewrite render_double_bs.
    change decimal with dec. rewrite !sapp_assoc. reflexivity.
  - (* command *)
    rewrite qdecode_escape_dot. eexists. split; [reflexivity|]. rewrite render_double_bs. reflexivity.
  - (* within-word regex *)
    assert (Hpl : all_chars plain_char (dec pos ++ ": Subword " ++ dec rid) = true).
    { rewrite !all_chars_app, (all_chars_impl _ _ _ digit_plain (dec_digits pos)),
        (all_chars_impl _ _ _ digit_plain (dec_digits rid)). reflexivity. }
    rewrite (plain_qdecode _ Hpl). eexists. split; [reflexivity|].
    rewrite (render_plain _ (plain_no_bs _ Hpl)). reflexivity.
Qed.

Lemma node_body_ok r m : body_ok (node_body r m).
Proof.
  unfold body_ok, node_body.
  assert (Hleaf : forall pos, qdecode false match nthN (r_inputs r) pos with Some inp => leaf_body pos inp | None => "" end <> None).
  { intro pos. destruct (nthN (r_inputs r) pos) as [inp|]; [|discriminate].
    destruct (leaf_body_decodes pos inp) as [v [E _]]. now rewrite E. }
  destruct (nthN (r_nodes r) m) as [[|pos|pos|pos|pos|pos|l|l|c]|]; try discriminate; try apply Hleaf.
  rewrite plain_qdecode; [discriminate|].
  rewrite all_chars_app, (all_chars_impl _ _ _ digit_plain (dec_digits pos)). reflexivity.
Qed.

(** ** Every item is well formed for the reader *)
Lemma block_head_ok rid : Forall item_ok (block_head rid).
Proof.
  unfold block_head. repeat apply Forall_cons; try apply Forall_nil.
  - constructor. split; [split; reflexivity|]. apply plain_body.
    rewrite all_chars_app. exact (all_chars_impl _ _ _ digit_plain (dec_digits _)).
  - constructor. split; split; reflexivity.
  - constructor. split; split; reflexivity.
Qed.

Lemma rx_item_ok pool : forall it r p, rx_item pool r p it -> prefix_ok p -> item_ok it.
Proof.
  induction it as [l|name body IH] using item_ind2; intros r p H Hp.
  - inversion H; subst; constructor.
    + split; [now apply node_id_ok|apply node_body_ok].
    + now split.
  - inversion H as [| |r' p' rid sr inner Ea Hin]; subst. constructor; [apply cluster_name_ok|].
    apply (proj2 (Forall_app item_ok (block_head rid) inner)). split; [apply block_head_ok|].
    apply (proj1 (Forall_app _ (block_head rid) inner)) in IH. destruct IH as [_ IH].
    rewrite Forall_forall in *. intros x Hx.
    apply (IH x Hx sr (sub_pre rid)); [now apply Hin|constructor].
Qed.
