(** The emitted tables are maps: the rows of a match table have pairwise different states, a row
    has pairwise different keys, and every level of a completion table has pairwise different
    states (they model [BTreeMap]s: strictly increasing keys).  Hence the way the script reads
    them ([assocN]: first entry) sees every entry ([tbl_has] / [mem3] of Proofs/TablesSound.v). *)
From CG Require Import Base.Prelude Model.Dfa Model.Tables Proofs.TablesSound.

(** strictly increasing *)
Fixpoint ssorted (l : list N) : Prop :=
  match l with
  | [] => True
  | x :: r => (match r with [] => True | y :: _ => x < y end) /\ ssorted r
  end.

Lemma ssorted_lower x l : ssorted (x :: l) -> forall y, In y l -> x < y.
Proof.
  revert x. induction l as [| z l IH]; intros x H y Hy; [destruct Hy |].
  cbn in H. destruct H as [Hxz Hs]. destruct Hy as [<- | Hy]; [assumption |].
  specialize (IH z Hs y Hy). lia.
Qed.

Lemma ssorted_NoDup l : ssorted l -> NoDup l.
Proof.
  induction l as [| x l IH]; intro H; [constructor |].
  constructor; [| apply IH; destruct H; assumption].
  intro Hin. pose proof (ssorted_lower x l H x Hin). lia.
Qed.

Lemma ssorted_tail x l : ssorted (x :: l) -> ssorted l.
Proof. cbn. intros [_ H]. exact H. Qed.

Lemma ssorted_cons x l : ssorted l -> (forall y, In y l -> x < y) -> ssorted (x :: l).
Proof.
  intros Hs Hl. cbn. split; [| assumption]. destruct l as [| y r]; [exact I | apply Hl; left; reflexivity].
Qed.

Lemma insertN_sorted x l : ssorted l -> ssorted (insertN x l).
Proof.
  induction l as [| y r IH]; intro H; cbn [insertN]; [cbn; auto |].
  destruct (N.ltb x y) eqn:E1.
  - apply N.ltb_lt in E1. apply ssorted_cons; [assumption |]. intros z [<- | Hz]; [assumption |].
    pose proof (ssorted_lower y r H z Hz). lia.
  - destruct (N.eqb x y) eqn:E2; [assumption |].
    apply N.ltb_ge in E1. apply N.eqb_neq in E2.
    apply ssorted_cons; [apply IH; eapply ssorted_tail; eassumption |].
    intros z Hz. apply insertN_in in Hz. destruct Hz as [-> | Hz]; [lia | apply (ssorted_lower y r H z Hz)].
Qed.

Lemma setN_sorted l : ssorted (setN l).
Proof.
  unfold setN. assert (G : forall acc, ssorted acc -> ssorted (fold_left (fun acc x => insertN x acc) l acc)).
  { induction l as [| x l IH]; intros acc H; [exact H |]. cbn [fold_left]. apply IH. apply insertN_sorted. exact H. }
  apply G. exact I.
Qed.

Lemma get_all_states_NoDup d : NoDup (get_all_states d).
Proof. unfold get_all_states. apply ssorted_NoDup. apply insertN_sorted. apply setN_sorted. Qed.

Lemma bt_update_keys {V} k (f : option V -> V) m x : In x (map fst (bt_update k f m)) <-> x = k \/ In x (map fst m).
Proof.
  induction m as [| [k' v'] r IH]; cbn [bt_update map fst In].
  - split; [intros [H | []]; left; symmetry; exact H | intros [H | []]; left; symmetry; exact H].
  - destruct (N.ltb k k'); cbn [map fst In].
    + split; [intros [H | H]; [left; symmetry; exact H | right; exact H] | intros [H | H]; [left; symmetry; exact H | right; exact H]].
    + destruct (N.eqb k k') eqn:E; cbn [map fst In].
      * apply N.eqb_eq in E. subst k'. split; [intros [H | H]; [left; symmetry; exact H | right; right; exact H]
                                               | intros [H | [H | H]]; [left; symmetry; exact H | left; exact H | right; exact H]].
      * rewrite IH. split; [intros [H | [H | H]]; [right; left; exact H | left; exact H | right; right; exact H]
                          | intros [H | [H | H]]; [right; left; exact H | left; exact H | right; right; exact H]].
Qed.

Lemma bt_update_sorted {V} k (f : option V -> V) m : ssorted (map fst m) -> ssorted (map fst (bt_update k f m)).
Proof.
  induction m as [| [k' v'] r IH]; intro H; cbn [bt_update]; [cbn; auto |].
  destruct (N.ltb k k') eqn:E1.
  - apply N.ltb_lt in E1. cbn [map fst]. apply ssorted_cons; [exact H |].
    cbn [map fst] in H. intros z [<- | Hz]; [assumption |]. pose proof (ssorted_lower k' _ H z Hz). lia.
  - destruct (N.eqb k k') eqn:E2.
    + apply N.eqb_eq in E2. subst. exact H.
    + apply N.ltb_ge in E1. apply N.eqb_neq in E2. cbn [map fst] in *.
      apply ssorted_cons; [apply IH; eapply ssorted_tail; eassumption |].
      intros z Hz. apply bt_update_keys in Hz. destruct Hz as [-> | Hz]; [lia | apply (ssorted_lower k' _ H z Hz)].
Qed.

Lemma bt_of_list_sorted {V} (l : list (N * V)) : ssorted (map fst (bt_of_list l)).
Proof.
  unfold bt_of_list.
  assert (G : forall acc : list (N * V), ssorted (map fst acc) ->
                                         ssorted (map fst (fold_left (fun acc kv => bt_insert (fst kv) (snd kv) acc) l acc))).
  { induction l as [| kv l IH]; intros acc H; [exact H |]. cbn [fold_left]. apply IH. apply bt_update_sorted. exact H. }
  apply G. exact I.
Qed.

(** *** match tables *)
Lemma match_table_keys d states sel tbl :
  NoDup states -> match_table d states sel = Ok tbl ->
  NoDup (map fst tbl) /\ forall s row, In (s, row) tbl -> NoDup (map fst row).
Proof.
  intros Hnd H. split.
  - unfold match_table in H. apply obind_ok in H. destruct H as [rows [Hrows H]]. inversion H; subst.
    assert (E : map fst rows = states).
    { clear H. revert rows Hrows. induction states as [| s states IH]; intros rows Hrows; cbn [omap] in Hrows.
      - inversion Hrows; subst. reflexivity.
      - apply obind_ok in Hrows. destruct Hrows as [y [Hy Hrows]]. apply obind_ok in Hrows. destruct Hrows as [ys [Hys Hrows]].
        inversion Hrows; subst. cbn [map]. f_equal.
        + apply obind_ok in Hy. destruct Hy as [tr [_ Hy]]. apply obind_ok in Hy. destruct Hy as [kvs [_ Hy]]. inversion Hy; subst. reflexivity.
        + apply IH; [inversion Hnd; assumption | assumption]. }
    rewrite <- E in Hnd. clear -Hnd. induction rows as [| r rows IH]; [constructor |].
    cbn [map] in Hnd. inversion Hnd as [| x xs Hnot Hnd']; subst. cbn [filter].
    destruct (match snd r with [] => false | _ :: _ => true end).
    + cbn [map]. constructor; [| apply IH; assumption]. intro Hin. apply Hnot.
      apply in_map_iff in Hin. destruct Hin as [y [Ey Hy]]. apply filter_In in Hy. destruct Hy as [Hy _].
      apply in_map_iff. exists y. split; assumption.
    + apply IH; assumption.
  - intros s row Hin. apply (match_table_rows _ _ _ _ H) in Hin. destruct Hin as [_ [_ [tr [_ ->]]]].
    apply ssorted_NoDup. apply bt_of_list_sorted.
Qed.

Lemma tbl_has_assoc tbl s k to :
  NoDup (map fst tbl) -> (forall s row, In (s, row) tbl -> NoDup (map fst row)) ->
  (tbl_has tbl s k to <-> exists row, assocN s tbl = Some row /\ assocN k row = Some to).
Proof.
  intros H1 H2. split.
  - intros [row [Hrow Hk]]. exists row. split; [apply in_assocN; assumption | apply in_assocN; [eapply H2; eassumption | assumption]].
  - intros [row [Hrow Hk]]. exists row. split; apply assocN_in; assumption.
Qed.

(** *** completion tables *)
Lemma update_nth_forall {A} (P : A -> Prop) n (f : A -> A) : forall l l',
    (forall x, P x -> P (f x)) -> Forall P l -> update_nth n f l = Some l' -> Forall P l'.
Proof.
  induction n as [| n IH]; intros l l' Hf Hl H; destruct l as [| x r]; cbn [update_nth] in H; try discriminate.
  - inversion H; subst. inversion Hl; subst. constructor; [apply Hf; assumption | assumption].
  - destruct (update_nth n f r) as [r' |] eqn:E; [| discriminate]. inversion H; subst. inversion Hl; subst.
    constructor; [assumption | eapply IH; eassumption].
Qed.

Lemma completion_table_keys rt maxlevel sel add L :
  completion_table rt maxlevel sel add = Ok L -> Forall (fun lv => NoDup (map fst lv)) L.
Proof.
  intro H. change (fold_left (comp_step sel add) rt (Ok (repeat [] (N.to_nat maxlevel + 1))) = Ok L) in H.
  assert (G : forall rt0 L0 L1, Forall (fun lv : list (N * list N) => ssorted (map fst lv)) L0 ->
                                fold_left (comp_step sel add) rt0 (Ok L0) = Ok L1 ->
                                Forall (fun lv => ssorted (map fst lv)) L1).
  { induction rt0 as [| [[f x] t] rt0 IH]; intros L0 L1 H0 HF; cbn [fold_left] in HF.
    - inversion HF; subst. assumption.
    - destruct (comp_step sel add (Ok L0) (f, x, t)) as [L2 | | |] eqn:E;
        try (exfalso; revert HF; apply comp_fold_not_ok; intros L'; discriminate).
      apply (IH L2 L1); [| assumption]. cbn in E.
      destruct (sel x) as [[lvl rid] |]; [| inversion E; subst; assumption].
      destruct rid as [id0 | | |]; cbn in E; try discriminate.
      destruct (update_nth (N.to_nat lvl) _ L0) as [L2' |] eqn:Eu; [| discriminate]. inversion E; subst.
      eapply update_nth_forall; [| exact H0 | exact Eu]. intros lv Hlv. apply bt_update_sorted. assumption. }
  eapply Forall_impl; [| eapply G; [| exact H]].
  - intros lv Hlv. apply ssorted_NoDup. assumption.
  - apply Forall_forall. intros lv Hlv. apply repeat_spec in Hlv. subst. exact I.
Qed.

Lemma mem3_level_row L k s id :
  Forall (fun lv => NoDup (map fst lv)) L ->
  (mem3 L k s id <-> In id (match nth_error L (N.to_nat k) with
                            | Some rows => match assocN s rows with Some ids => ids | None => [] end
                            | None => []
                            end)).
Proof.
  intro HL. unfold mem3, mem2. split.
  - intros [row [Hr [ids [Hin Hid]]]]. rewrite Hr.
    assert (ND : NoDup (map fst row)). { rewrite Forall_forall in HL. apply HL. eapply nth_error_In. eassumption. }
    rewrite (in_assocN s row ids ND Hin). assumption.
  - intro H. destruct (nth_error L (N.to_nat k)) as [rows |] eqn:Er; [| destruct H].
    destruct (assocN s rows) as [ids |] eqn:Ea; [| destruct H].
    exists rows. split; [reflexivity |]. exists ids. split; [apply assocN_in; assumption | assumption].
Qed.
