(** Source-level corollary of the capstone, C01 + C04: from the grammar TEXT to what the emitted
    bash script computes.  [compile_bash o builtins text = Ok s] gives the validated tree [v], the
    automata [c] and the tables [a]; the script text [s] reads back to statements that carry exactly
    the tables [a] (C04b), and the interpreter of the script's functions on [a]
    ([BashSem.run_from Repaired]) answers exactly what the specification [Meaning.complete] of the
    tree prescribes (C01_bash_meaning_mixed).  Every hypothesis of those theorems that follows from
    the pipeline is discharged here. *)
From CG Require Import Base.Prelude Model.Ast Model.Parser Model.Check Model.Dfa Model.Driver Model.Tables
  Model.EmitBash Model.Compiler Model.BashSem Model.Glob.
From CG Require Import Spec.Lang Spec.ScriptRead Spec.Meaning Spec.Domain Spec.Invocations Spec.KnownC01.
From CG Require Import Proofs.TablesSound Proofs.BashCodec Proofs.BashScript Proofs.TreeFacts Proofs.EmbedEndToEnd.
From CG Require Import Proofs.CheckTree Proofs.SubChecks Proofs.BashMeaningSub Proofs.BashMeaningMix
  Proofs.StripFacts Proofs.GlobFacts Proofs.CompilerTotal Proofs.SubBridge Proofs.CapstoneShape
  Proofs.CapstoneDescr Proofs.CapstoneLits.
From CG Require Props.C05b Props.C04b Props.C01.
Open Scope N_scope.
Open Scope list_scope.

(** No literal is listed twice in a literal order [orders_ok] accepts, PROVIDED no description
    string of the grammar text is empty ([text_descr_ok], decidable on the text).  With an empty
    description Rust lists a literal twice when it also occurs without one
    ([cmd (x a | y a "");] -> [literals=("y" "x" "a" "a")]): harmless there (only the later entry has
    transitions; the script skips an entry without one), but the emitted tables are then not a
    function of the automata, so the model excludes it at the source. *)
Lemma text_orders_nodup o builtins text g v c :
  Parser.parse text = Ok g -> from_grammar builtins g Bash = Ok v ->
  compile_valid (pick_table (o_pops o)) (o_fuel o) v = Ok c ->
  orders_ok c (o_main_lits o) (o_sub_lits o) = true -> text_descr_ok text = true ->
  NoDup (o_main_lits o) /\ (forall pi ord, assocN pi (o_sub_lits o) = Some ord -> NoDup ord).
Proof.
  intros Hg Hv Hcv Ho Ht.
  exact (compiled_orders_nodup _ _ v c _ _ Hcv
           (from_grammar_tok builtins g Bash v (text_descr_ok_sound text g Hg Ht) Hv) Ho).
Qed.

Lemma sub_orders_ok_of c o :
  orders_ok c (o_main_lits o) (o_sub_lits o) = true ->
  (forall pi ord, assocN pi (o_sub_lits o) = Some ord -> NoDup ord) -> sub_orders_ok c (o_sub_lits o).
Proof.
  intros Ho Hn pi sd Hsd. split.
  - destruct (assocN pi (o_sub_lits o)) as [ord|] eqn:E; [eapply Hn; eauto|constructor].
  - exact (orders_ok_sub c _ _ pi sd Ho Hsd).
Qed.

(** inversion of a successful [compile_bash] *)
Lemma compile_bash_inv o builtins text s :
  compile_bash o builtins text = Ok s ->
  exists g v c nd a,
    Parser.parse text = Ok g /\ from_grammar builtins g Bash = Ok v
    /\ compile_valid (pick_table (o_pops o)) (o_fuel o) v = Ok c
    /\ compile (pick_table (o_pops o)) (o_fuel o) builtins text Bash = Ok (v, c)
    /\ alts_nonempty (v_expr v) = true
    /\ orders_ok c (o_main_lits o) (o_sub_lits o) = true
    /\ all_tables Bash c (o_main_lits o) (o_sub_lits o) = Ok (nd, a)
    /\ valid_grouping a (o_groups o) = true
    /\ script (v_command v) (o_sig o) (d_start (c_main c)) nd a (o_groups o) = Ok s.
Proof.
  intro H. unfold compile_bash in H.
  destruct (compile (pick_table (o_pops o)) (o_fuel o) builtins text Bash) as [[v c]|e'| |] eqn:Hc; try discriminate.
  unfold emit_bash in H.
  destruct (orders_ok c (o_main_lits o) (o_sub_lits o)) eqn:Ho; [|discriminate].
  destruct (all_tables Bash c (o_main_lits o) (o_sub_lits o)) as [[nd a]| | |] eqn:Ha; try discriminate.
  destruct (valid_grouping a (o_groups o)) eqn:Vg; [|discriminate].
  destruct (script (v_command v) (o_sig o) (d_start (c_main c)) nd a (o_groups o)) as [s'| | |] eqn:Hs; try discriminate.
  inversion H; subst s'.
  assert (H' := Hc). unfold compile in H'.
  destruct (Parser.parse text) as [g| | |] eqn:Hg; cbn in H'; try discriminate.
  destruct (from_grammar builtins g Bash) as [v'| | |] eqn:Hv; cbn in H'; try discriminate.
  destruct (compile_valid (pick_table (o_pops o)) (o_fuel o) v') as [c'| | |] eqn:Hcv; cbn in H'; try discriminate.
  inversion H'; subst v' c'.
  destruct (check_tree builtins g Bash v Hv) as [_ [_ [_ Halts]]].
  specialize (Halts (Props.C05b.parse_alts_nonempty text g Hg)).
  exists g, v, c, nd, a. repeat (split; [first [assumption|reflexivity]|]). assumption.
Qed.

Theorem compile_bash_meaning o builtins text s :
  compile_bash o builtins text = Ok s ->
  exists v c nd a,
    compile (pick_table (o_pops o)) (o_fuel o) builtins text Bash = Ok (v, c)
    /\ all_tables Bash c (o_main_lits o) (o_sub_lits o) = Ok (nd, a)
    (* what the script text carries *)
    /\ (name_ok (v_command v) -> no_nl (o_sig o) = true ->
        Forall (fun cmd => body_ok (cmd_body cmd)) (a_commands a) -> text_descr_ok text = true ->
        (exists sts,
            script_stmts (v_command v) (d_start (c_main c)) nd a (o_groups o) = Ok sts
            /\ read_stmts Bash (v_command v) s = sts
            /\ carries_main (v_command v) (d_start (c_main c)) a sts
            /\ carries_subs (v_command v) nd a (o_groups o) sts
            /\ (n_subwords nd = true -> carries_each_sub (v_command v) a sts))
        /\ tables_describe c (o_main_lits o) (o_sub_lits o) a
        /\ (forall w, accepts_items c w <-> denotes (v_expr v) w))
    (* what the functions of the script compute on those tables *)
    /\ (forall (benv : BashSem.env) (en : Meaning.env) ws p,
        text_descr_ok text = true -> subs_deterministic c ->
        C01_domain (v_expr v) = true -> C01_env_ok (v_expr v) en = true ->
        BashSem.e_ignore_case benv = false -> BashSem.e_wordbreaks benv = Meaning.e_wordbreaks en ->
        breaks_ok (BashSem.e_wordbreaks benv) = true -> plain p = true -> printable_str p = true ->
        (forall cm cid, Tables.index_of cm (a_commands a) = Some cid ->
                        spec_candidates (cmd_output benv cid) = candidates en cm) ->
        ambiguous_run en (start (v_expr v)) ws = false ->
        match complete (v_expr v) en ws p with
        | None => exists log, run_from Repaired (d_start (c_main c)) a benv ws p = Ok (mkresult 1 [] log)
        | Some (req, al) =>
            exists reply log, run_from Repaired (d_start (c_main c)) a benv ws p = Ok (mkresult 0 reply log)
                              /\ incl req reply /\ incl reply al
        end).
Proof.
  intro H. destruct (compile_bash_inv o builtins text s H) as [g [v [c [nd [a [Hg [Hv [Hcv [Hc [Halts [Ho [Ha [Vg Hs]]]]]]]]]]]]].
  exists v, c, nd, a. split; [exact Hc|]. split; [exact Ha|]. split.
  - intros Hn Hsig Hb Hnd.
    destruct (text_orders_nodup o builtins text g v c Hg Hv Hcv Ho Hnd) as [Nm Ns].
    destruct (Props.C04b.C04_end_to_end_bash _ _ _ _ _ _ _ _ _ _ _ _ _ Hc Hn Hsig Hb Nm Ns Ha Hs) as [[sts [S1 [S2 [S3 [S4 S5]]]]] [T D]].
    split; [|split; assumption].
    exists sts. split; [exact S1|]. split; [exact S2|]. split; [exact S3|]. split; [exact S4|].
    intro Hw. exact (S5 Vg Hw).
  - intros benv en ws p Hnd Hdet Hdom Henv Hic Hwb Hbr Hpl Hpr Hcm Hamb.
    destruct (text_orders_nodup o builtins text g v c Hg Hv Hcv Ho Hnd) as [Nm Ns].
    exact (Props.C01.C01_bash_meaning _ _ v c _ _ nd a benv en ws p
             (parsed_sub_tree builtins text g Bash v Hg eq_refl Hv) Halts Hcv Ha
             Nm (orders_ok_main c _ _ Ho) (sub_orders_ok_of c o Ho Ns) Hdet Hdom Henv
             Hic Hwb Hbr Hpl Hpr Hcm Hamb).
Qed.
