(** C16: the states the DFA printer enumerates (start, then the non-accepting states of the bitmap
    built by [get_all_states], then the accepting states) are, up to order, the states the
    specification enumerates; the numbering of within-word automata computed by [get_subwords] is the
    one the specification prescribes. *)
From Coq Require Import Permutation Sorted.
From CG Require Import Base.Prelude Model.Dfa Spec.DotRead Spec.DotSpec Model.Dot.

(** ** memN / assocN *)
Lemma memN_In x l : memN x l = true <-> In x l.
Proof.
  unfold memN. rewrite existsb_exists. split.
  - intros [y [Hy He]]. apply N.eqb_eq in He. now subst.
  - intro H. exists x. split; [exact H|apply N.eqb_refl].
Qed.

Lemma memN_false x l : memN x l = false <-> ~ In x l.
Proof.
  split.
  - intros E H. apply memN_In in H. now rewrite H in E.
  - intro H. destruct (memN x l) eqn:E; [|reflexivity]. apply memN_In in E. now elim H.
Qed.

(** ** insert_sorted *)
Lemma insert_sorted_in x l z : In z (insert_sorted x l) <-> z = x \/ In z l.
Proof.
  induction l as [|y r IH]; cbn.
  - intuition.
  - destruct (x <? y) eqn:E1; [cbn; intuition|].
    destruct (x =? y) eqn:E2.
    + apply N.eqb_eq in E2. subst. cbn. intuition.
    + cbn. rewrite IH. intuition.
Qed.

Lemma insert_sorted_sorted x l :
  StronglySorted N.lt l -> StronglySorted N.lt (insert_sorted x l).
Proof.
  induction 1 as [|y r Hr IH Hy]; cbn.
  - constructor; [constructor|constructor].
  - destruct (x <? y) eqn:E1.
    + apply N.ltb_lt in E1. constructor; [constructor; assumption|].
      constructor; [exact E1|]. rewrite Forall_forall in *. intros z Hz. specialize (Hy z Hz). lia.
    + destruct (x =? y) eqn:E2; [constructor; assumption|].
      apply N.ltb_ge in E1. apply N.eqb_neq in E2. constructor; [exact IH|].
      rewrite Forall_forall in *. intros z Hz. apply insert_sorted_in in Hz as [->|Hz]; [lia|now apply Hy].
Qed.

Lemma sorted_nodup l : StronglySorted N.lt l -> NoDup l.
Proof.
  induction 1 as [|y r Hr IH Hy]; constructor; [|exact IH].
  intro H. rewrite Forall_forall in Hy. specialize (Hy y H). lia.
Qed.

Definition bitmap (l : list N) : list N := fold_left (fun acc x => insert_sorted x acc) l [].

Lemma bitmap_gen l : forall acc, StronglySorted N.lt acc ->
  StronglySorted N.lt (fold_left (fun acc x => insert_sorted x acc) l acc)
  /\ forall z, In z (fold_left (fun acc x => insert_sorted x acc) l acc) <-> In z l \/ In z acc.
Proof.
  induction l as [|x r IH]; intros acc Hs; cbn.
  - split; [exact Hs|]. intuition.
  - destruct (IH (insert_sorted x acc) (insert_sorted_sorted x acc Hs)) as [H1 H2]. split; [exact H1|].
    intro z. rewrite H2, insert_sorted_in. intuition.
Qed.

Lemma bitmap_in l z : In z (bitmap l) <-> In z l.
Proof. unfold bitmap. destruct (bitmap_gen l [] (SSorted_nil _)) as [_ H]. rewrite H. cbn. intuition. Qed.

Lemma bitmap_nodup l : NoDup (bitmap l).
Proof. apply sorted_nodup. apply (bitmap_gen l [] (SSorted_nil _)). Qed.

Lemma bitmap_sorted l : StronglySorted N.lt (bitmap l).
Proof. apply (bitmap_gen l [] (SSorted_nil _)). Qed.

(** ** dedup *)
Lemma dedup_go_in l : forall seen z, In z (dedup_go seen l) <-> In z l /\ ~ In z seen.
Proof.
  induction l as [|x r IH]; intros seen z; cbn.
  - intuition.
  - destruct (memN x seen) eqn:E.
    + apply memN_In in E. rewrite IH. split; [intuition|]. intros [[->|H] Hn]; [contradiction|intuition].
    + apply memN_false in E. cbn. rewrite IH. cbn. split.
      * intros [->|[H Hn]]; [intuition|]. split; [now right|]. intro Hs. apply Hn. now right.
      * intros [[->|H] Hn]; [now left|]. destruct (N.eq_dec x z) as [->|Hne]; [now left|].
        right. split; [exact H|]. intros [Hx|Hs]; [contradiction|contradiction].
Qed.

Lemma dedup_go_nodup l : forall seen, NoDup (dedup_go seen l).
Proof.
  induction l as [|x r IH]; intro seen; cbn; [constructor|].
  destruct (memN x seen); [apply IH|]. constructor; [|apply IH].
  intro H. apply dedup_go_in in H as [_ H]. apply H. now left.
Qed.

Lemma dedup_in l z : In z (dedup l) <-> In z l.
Proof. unfold dedup. rewrite dedup_go_in. cbn. intuition. Qed.

Lemma dedup_nodup l : NoDup (dedup l).
Proof. apply dedup_go_nodup. Qed.

(** ** nodupb *)
Lemma nodupb_NoDup l : nodupb l = true -> NoDup l.
Proof.
  induction l as [|x r IH]; cbn; intro H; constructor.
  - apply andb_true_iff in H as [H _]. apply negb_true_iff in H. now apply memN_false.
  - apply andb_true_iff in H as [_ H]. now apply IH.
Qed.

(** ** The printer's enumeration of the states (patched variant: no unconditional state 0) *)
Definition regular (d : dfa) : list N :=
  filter (fun s => negb (memN s (d_accepting d)) && negb (s =? d_start d)) (get_all_states patched d).

Definition acc_rest (d : dfa) : list N :=
  filter (fun a => negb (a =? d_start d)) (d_accepting d).

Definition st_list (d : dfa) : list N := (d_start d :: regular d ++ acc_rest d)%list.

Lemma all_states_patched d : get_all_states patched d = bitmap (trans_states d).
Proof. reflexivity. Qed.

Lemma regular_in d s :
  In s (regular d) <-> In s (trans_states d) /\ ~ In s (d_accepting d) /\ s <> d_start d.
Proof.
  unfold regular. rewrite filter_In, all_states_patched, bitmap_in, andb_true_iff, !negb_true_iff.
  rewrite memN_false, N.eqb_neq. intuition.
Qed.

Lemma acc_rest_in d s : In s (acc_rest d) <-> In s (d_accepting d) /\ s <> d_start d.
Proof. unfold acc_rest. rewrite filter_In, negb_true_iff, N.eqb_neq. intuition. Qed.

Lemma st_list_in d s :
  In s (st_list d) <-> s = d_start d \/ In s (trans_states d) \/ In s (d_accepting d).
Proof.
  unfold st_list. cbn [In]. rewrite in_app_iff, regular_in, acc_rest_in.
  destruct (N.eq_dec s (d_start d)) as [->|Hne]; [intuition|].
  destruct (in_dec N.eq_dec s (d_accepting d)); intuition.
Qed.

Lemma NoDup_filter {A} (f : A -> bool) l : NoDup l -> NoDup (filter f l).
Proof.
  induction 1 as [|x r Hx Hr IH]; cbn; [constructor|].
  destruct (f x); [|exact IH]. constructor; [|exact IH]. intro H. apply filter_In in H. now apply Hx.
Qed.

Lemma NoDup_app_intro {A} (l1 l2 : list A) :
  NoDup l1 -> NoDup l2 -> (forall x, In x l1 -> In x l2 -> False) -> NoDup (l1 ++ l2).
Proof.
  induction 1 as [|x r Hx Hr IH]; intros H2 Hd; [exact H2|]. cbn. constructor.
  - intro H. apply in_app_or in H as [H|H]; [contradiction|]. apply (Hd x); [now left|exact H].
  - apply IH; [exact H2|]. intros y Hy. apply Hd. now right.
Qed.

Lemma NoDup_app_inv {A} (l1 l2 : list A) :
  NoDup (l1 ++ l2) -> NoDup l1 /\ NoDup l2 /\ (forall x, In x l1 -> In x l2 -> False).
Proof.
  induction l1 as [|x r IH]; cbn; intro H.
  - split; [constructor|]. split; [exact H|]. intros ? [].
  - inversion H as [|? ? Hx Hr]; subst. destruct (IH Hr) as [Ha [B C]]. split; [|split; [exact B|]].
    + constructor; [|exact Ha]. intro Hi. apply Hx. apply in_or_app. now left.
    + intros y [<-|Hy] Hy2; [apply Hx; apply in_or_app; now right|exact (C y Hy Hy2)].
Qed.

Lemma st_list_nodup d : NoDup (d_accepting d) -> NoDup (st_list d).
Proof.
  intro Ha. unfold st_list. constructor.
  - rewrite in_app_iff, regular_in, acc_rest_in. intuition.
  - apply NoDup_app_intro.
    + apply NoDup_filter. rewrite all_states_patched. apply bitmap_nodup.
    + now apply NoDup_filter.
    + intros s H1 H2. apply regular_in in H1. apply acc_rest_in in H2. intuition.
Qed.

Lemma st_list_perm d : NoDup (d_accepting d) -> Permutation (st_list d) (states d).
Proof.
  intro Ha. apply NoDup_Permutation.
  - now apply st_list_nodup.
  - apply dedup_nodup.
  - intro s. rewrite st_list_in. unfold states. rewrite dedup_in. cbn [In]. rewrite in_app_iff. intuition.
Qed.

(** accepting list = the start state inserted somewhere into [acc_rest], when it accepts *)
Lemma acc_split d :
  NoDup (d_accepting d) ->
  (~ In (d_start d) (d_accepting d) /\ acc_rest d = d_accepting d)
  \/ exists l1 l2, d_accepting d = (l1 ++ d_start d :: l2)%list /\ acc_rest d = (l1 ++ l2)%list
                   /\ ~ In (d_start d) l1 /\ ~ In (d_start d) l2.
Proof.
  intro Hnd. unfold acc_rest.
  assert (Hall : forall l, ~ In (d_start d) l -> filter (fun a => negb (a =? d_start d)) l = l).
  { induction l as [|x r IH]; intro H; [reflexivity|]. cbn.
    destruct (x =? d_start d) eqn:E.
    - apply N.eqb_eq in E. elim H. now left.
    - cbn. rewrite IH; [reflexivity|]. intro Hr. apply H. now right. }
  destruct (in_dec N.eq_dec (d_start d) (d_accepting d)) as [Hin|Hn].
  - right. apply in_split in Hin as [l1 [l2 E]]. exists l1, l2. rewrite E in Hnd |- *.
    pose proof (NoDup_remove_2 _ _ _ Hnd) as Hx.
    assert (H1 : ~ In (d_start d) l1) by (intro H; apply Hx; apply in_or_app; now left).
    assert (H2 : ~ In (d_start d) l2) by (intro H; apply Hx; apply in_or_app; now right).
    split; [reflexivity|]. split; [|split; assumption].
    rewrite filter_app. cbn. rewrite N.eqb_refl. cbn. now rewrite (Hall l1 H1), (Hall l2 H2).
  - left. split; [exact Hn|now apply Hall].
Qed.

(** ** get_subwords computes the prescribed numbering *)
Definition uses (d : dfa) (ts : list (N * N * N)) : list N :=
  flat_map (fun t : N * N * N =>
              match nthN (d_inputs d) (snd (fst t)) with
              | Some (ISub k _) => [k]
              | _ => []
              end) ts.

Definition in_range (d : dfa) (t : N * N * N) : bool :=
  match nthN (d_inputs d) (snd (fst t)) with Some _ => true | None => false end.

Lemma assocN_app {V} k (a b : list (N * V)) :
  assocN k (a ++ b) = match assocN k a with Some v => Some v | None => assocN k b end.
Proof.
  induction a as [|[k' v] a IH]; [reflexivity|]. cbn. destruct (k =? k'); [reflexivity|apply IH].
Qed.

Lemma get_subwords_go_spec d : forall ts next acc seen,
  forallb (in_range d) ts = true ->
  (forall x, memN x seen = match assocN x acc with Some _ => true | None => false end) ->
  get_subwords_go d ts next acc = Ok (acc ++ number_from next (dedup_go seen (uses d ts))).
Proof.
  induction ts as [|[[f i] to] r IH]; intros next acc seen Hr Hinv.
  - cbn. now rewrite app_nil_r.
  - cbn [forallb] in Hr. apply andb_true_iff in Hr as [Hi Hr]. unfold in_range in Hi. cbn [fst snd] in Hi.
    cbn [get_subwords_go uses flat_map fst snd]. unfold get_input.
    destruct (nthN (d_inputs d) i) as [x|] eqn:Ex; [|discriminate]. cbn [obind].
    destruct x as [t' dd l|sub l|cm l|cm l|]; cbn [app];
      try (exact (IH next acc seen Hr Hinv)).
    cbn [dedup_go]. rewrite (Hinv sub).
    destruct (assocN sub acc) as [v|] eqn:Ea.
    + exact (IH next acc seen Hr Hinv).
    + cbn [number_from]. rewrite (IH (next + 1) (acc ++ [(sub, next)]) (sub :: seen) Hr).
      * now rewrite <- app_assoc.
      * intro x. cbn [memN existsb]. rewrite assocN_app. cbn [assocN].
        fold (memN x seen). rewrite (Hinv x).
        destruct (assocN x acc); [now rewrite orb_true_r|]. rewrite orb_false_r. now destruct (x =? sub).
Qed.

Lemma get_subwords_spec d base :
  inputs_in_range d = true -> get_subwords d base = Ok (sub_ids base d).
Proof.
  intro H. unfold get_subwords.
  rewrite (get_subwords_go_spec d (iter_transitions d) base [] []); [reflexivity|exact H|reflexivity].
Qed.

Lemma number_from_in l : forall n k id, In (k, id) (number_from n l) -> In k l.
Proof.
  induction l as [|x r IH]; intros n k id H; [exact H|]. cbn in H. destruct H as [H|H].
  - injection H as -> _. now left.
  - right. exact (IH _ _ _ H).
Qed.

Lemma number_from_ids l : forall n, NoDup (map snd (number_from n l))
                                    /\ forall k id, In (k, id) (number_from n l) -> n <= id.
Proof.
  induction l as [|x r IH]; intro n; cbn.
  - split; [constructor|intros ? ? []].
  - destruct (IH (n + 1)) as [H1 H2]. split.
    + constructor; [|exact H1]. intro H. apply in_map_iff in H as [[k id] [E Hin]]. cbn in E. subst id.
      specialize (H2 _ _ Hin). lia.
    + intros k id [H|H]; [injection H as _ <-; lia|]. specialize (H2 _ _ H). lia.
Qed.

Lemma number_from_fst l : forall n, map fst (number_from n l) = l.
Proof. induction l as [|x r IH]; intro n; cbn; [reflexivity|]. now rewrite IH. Qed.

Lemma uses_in d ts k : In k (uses d ts) -> exists t l, In t ts /\ nthN (d_inputs d) (snd (fst t)) = Some (ISub k l).
Proof.
  unfold uses. rewrite in_flat_map. intros [t [Ht Hk]]. exists t.
  destruct (nthN (d_inputs d) (snd (fst t))) as [[| k' l | | |]|]; try destruct Hk.
  - subst. exists l. now split.
  - destruct H.
Qed.
