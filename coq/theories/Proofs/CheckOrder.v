(** C14 (definition order) and C15 (harmlessness of unused definitions): the validated
    expression depends on the definition statements only through the lookups
    [shell_definition g sh x] / [plain_definition g x] for the names [x] that can be reached from
    the call variants.  Two grammars with the same call variants whose lookups agree on a set of
    names closed under references are accepted alike and yield the same expression. *)
From CG Require Import Base.Prelude Model.Ast Model.Check Spec.Choice Spec.Mistakes Spec.Warnings.
From CG Require Import Proofs.CheckChoice Proofs.CheckMistakes Proofs.CheckLemmas Proofs.CheckWarnings.
From CG Require Import Proofs.CheckCycle Proofs.CheckTotal Proofs.CheckFront Proofs.CheckCycleSpec.
From CG Require Import Proofs.CheckSpans Proofs.CheckResolve.
From Coq Require Import Permutation.

(** *** What a reference becomes, from the lookups of the specification *)
Definition choose_ref (builtins : shell -> list (string * string)) (g : grammar) (sh : shell)
           (n : string) (l : N) (sp : span) : expr :=
  match shell_definition g sh n with
  | Some (Command c _ _ _) => Command c (is_zsh sh) l sp
  | Some _ => NontermRef n l sp
  | None =>
      match plain_definition g n with
      | Some _ => NontermRef n l sp
      | None => match assoc n (builtins sh) with
                | Some c => Command c (is_zsh sh) l sp
                | None => NontermRef n l sp
                end
      end
  end.

Section Choose.
  Variable builtins : shell -> list (string * string).
  Variable g : grammar.
  Variable sh : shell.
  Variable defs0 : list defn.
  Variable us : list (string * user_spec).
  Variable fs : list (string * (string * span)).
  Hypothesis Hcollect : collect_plain_defs (all_defs g) [] = Ok defs0.
  Hypothesis Hspecs : get_specializations g sh = Ok (us, fs).

  Lemma plain_mem n :
    mem_str n (map d_name (defs1_of defs0)) = match plain_definition g n with Some _ => true | None => false end.
  Proof.
    unfold defs1_of. rewrite map_map. cbn [d_name].
    change (map (fun x => d_name x) defs0) with (map d_name defs0).
    rewrite (collect_plain_defs_names _ _ _ n Hcollect), pd_all_defs. reflexivity.
  Qed.

  Lemma specialize_ref_choose n l sp :
    specialize_ref sh us (builtins sh) fs (map d_name (defs1_of defs0)) n l sp
    = choose_ref builtins g sh n l sp.
  Proof.
    unfold specialize_ref, choose_ref.
    destruct (assoc n us) as [s|] eqn:Eu.
    - pose proof Hspecs as Hs. unfold get_specializations in Hs.
      destruct (get_user_specs sh (all_defs g) []) as [us'| | |] eqn:Hus; cbn in Hs; try discriminate.
      destruct (get_fallback_specs (map fst us') (all_defs g) []) as [fs'| | |]; cbn in Hs; try discriminate.
      inversion Hs; subst us' fs'.
      destruct (get_user_specs_spec _ _ _ _ n Hus) as [H1 _]. cbn in H1. rewrite Eu in H1. cbn in H1.
      rewrite sd_all_defs.
      destruct (sd (all_defs g) sh n) as [[| |c z lv csp| | | | | | |]|]; cbn in H1; try discriminate.
      inversion H1. reflexivity.
    - rewrite (fs_none g sh us fs Hspecs n Eu).
      rewrite (proj1 (us_none_iff g sh us fs Hspecs n) Eu), plain_mem.
      destruct (plain_definition g n); reflexivity.
  Qed.
End Choose.

Lemma specialize_ext sh us bi fs plain us' fs' plain' e :
  (forall n l sp, In n (all_refs e) ->
                  specialize_ref sh us bi fs plain n l sp = specialize_ref sh us' bi fs' plain' n l sp) ->
  specialize sh us bi fs plain e = specialize sh us' bi fs' plain' e.
Proof.
  induction e using expr_ind'; intro Hr; cbn [specialize]; try reflexivity;
    try (f_equal; apply IHe; exact Hr).
  - apply Hr. left. reflexivity.
  - f_equal. apply map_ext_Forall. rewrite Forall_forall in *. intros c Hin. apply H; [exact Hin|].
    intros n l s Hn. apply Hr. cbn. apply in_flat_map. exists c. split; assumption.
  - f_equal. apply map_ext_Forall. rewrite Forall_forall in *. intros c Hin. apply H; [exact Hin|].
    intros n l s Hn. apply Hr. cbn. apply in_flat_map. exists c. split; assumption.
  - f_equal. apply map_ext_Forall. rewrite Forall_forall in *. intros c Hin. apply H; [exact Hin|].
    intros n l s Hn. apply Hr. cbn. apply in_flat_map. exists c. split; assumption.
Qed.

Lemma rank_bound (rank : string -> nat) (l : list string) :
  exists B, forall n, In n l -> (rank n < B)%nat.
Proof.
  induction l as [|x l [B HB]]; [exists O; intros n []|].
  exists (S (Nat.max B (rank x))). intros n [Hn|Hn]; [subst; lia|]. specialize (HB n Hn). lia.
Qed.

(** *** Two grammars whose lookups agree on a closed set of names *)
Section Agreement.
  Variable builtins : shell -> list (string * string).
  Variable sh : shell.
  Variable g g' : grammar.
  Variable defs0 defs0' : list defn.
  Variable us us' : list (string * user_spec).
  Variable fs fs' : list (string * (string * span)).
  Hypothesis Hcollect : collect_plain_defs (all_defs g) [] = Ok defs0.
  Hypothesis Hspecs : get_specializations g sh = Ok (us, fs).
  Hypothesis Hcollect' : collect_plain_defs (all_defs g') [] = Ok defs0'.
  Hypothesis Hspecs' : get_specializations g' sh = Ok (us', fs').

  Variable S : string -> Prop.
  Hypothesis Hcv : call_variants g = call_variants g'.
  Hypothesis Hsd : forall x, S x -> shell_definition g sh x = shell_definition g' sh x.
  Hypothesis Hpd : forall x, S x -> plain_definition g x = plain_definition g' x.
  Hypothesis Hclosed : forall x rhs, S x -> plain_definition g x = Some rhs ->
                                     forall c, In c (all_refs rhs) -> S c.
  Hypothesis Hroot : forall c, In c (all_refs (expr0_of g)) -> S c.
  (** the dependencies of [g'] stay inside the set *)
  Hypothesis Hdep' : forall x y, depends g' sh x y = true -> S x /\ S y.

  Let spec := spec_of builtins sh us fs (defs1_of defs0).
  Let spec' := spec_of builtins sh us' fs' (defs1_of defs0').
  Let defs2 := defs2_of spec (defs1_of defs0).
  Let defs2' := defs2_of spec' (defs1_of defs0').
  Let t0 := table0_of defs2.
  Let t0' := table0_of defs2'.

  Lemma expr0_same : expr0_of g' = expr0_of g.
  Proof. unfold expr0_of. rewrite Hcv. reflexivity. Qed.

  Lemma spec_same e : (forall c, In c (all_refs e) -> S c) -> spec e = spec' e.
  Proof.
    intro He. unfold spec, spec', spec_of. apply specialize_ext. intros n l sp Hn.
    rewrite (specialize_ref_choose builtins g sh defs0 us fs Hcollect Hspecs).
    rewrite (specialize_ref_choose builtins g' sh defs0' us' fs' Hcollect' Hspecs').
    unfold choose_ref. rewrite (Hsd n (He n Hn)), (Hpd n (He n Hn)). reflexivity.
  Qed.

  Lemma t0_agree x : S x -> assoc x t0 = assoc x t0'.
  Proof.
    intro Hx. unfold t0, t0', defs2, defs2'.
    rewrite (table0_assoc builtins g sh defs0 us fs Hcollect).
    rewrite (table0_assoc builtins g' sh defs0' us' fs' Hcollect').
    rewrite <- (Hpd x Hx). destruct (plain_definition g x) as [rhs|] eqn:E; [|reflexivity].
    cbn. f_equal. apply spec_same. intros c Hc. rewrite distribute_descriptions_all_refs in Hc.
    eapply Hclosed; eauto.
  Qed.

  Lemma t0_closed x rhs : S x -> assoc x t0 = Some rhs -> forall c, In c (all_refs rhs) -> S c.
  Proof.
    intros Hx Hr c Hc. unfold t0, defs2 in Hr.
    rewrite (table0_assoc builtins g sh defs0 us fs Hcollect) in Hr.
    destruct (plain_definition g x) as [rhs0|] eqn:E; [|discriminate]. cbn in Hr.
    inversion Hr; subst rhs. unfold spec_of in Hc. rewrite specialize_refs in Hc.
    apply filter_In in Hc. destruct Hc as [Hc _]. rewrite distribute_descriptions_all_refs in Hc.
    eapply Hclosed; eauto.
  Qed.

  Lemma depends_transfer x y : depends g' sh x y = true -> depends g sh x y = true.
  Proof.
    intro H. destruct (Hdep' x y H) as [Hx Hy]. unfold depends, plain_chosen in *.
    rewrite (Hpd x Hx), (Hsd y Hy), (Hpd y Hy). exact H.
  Qed.

  Lemma acyclic_transfer : acyclic (graph_of defs2) -> acyclic (graph_of defs2').
  Proof.
    intros [rank Hr]. exists rank. intros u c Hu. apply Hr.
    apply (model_graph_depends builtins g sh defs0 us fs Hcollect Hspecs).
    apply depends_transfer.
    apply (model_graph_depends builtins g' sh defs0' us' fs' Hcollect' Hspecs'). exact Hu.
  Qed.

  Lemma t0_dd_free : table_dd_free t0.
  Proof. apply table0_dd_free; [intro e; apply specialize_dd_free|apply defs1_dd_free]. Qed.
  Lemma t0'_dd_free : table_dd_free t0'.
  Proof. apply table0_dd_free; [intro e; apply specialize_dd_free|apply defs1_dd_free]. Qed.

  (** the resolved tables agree on the set *)
  Lemma final_tables ord ord' :
    resolution_order defs2 = Ok ord -> resolution_order defs2' = Ok ord' ->
    exists K,
      (forall x, assoc x (resolve_in_order ord t0) = assoc x (sol t0 K)) /\
      (forall x, assoc x (resolve_in_order ord' t0') = assoc x (sol t0' K)).
  Proof.
    intros Ho Ho'.
    apply resolution_order_ok in Ho. destruct Ho as ([rank Hr] & Hord & Hall).
    apply resolution_order_ok in Ho'. destruct Ho' as ([rank' Hr'] & Hord' & Hall').
    destruct (rank_bound rank (map fst t0)) as [B HB].
    destruct (rank_bound rank' (map fst t0')) as [B' HB'].
    exists (Nat.max B B'). split; intro x.
    - rewrite (resolve_in_order_sol t0 (graph_of defs2)
                 (fun n rhs c Hn Hc Hin => graph_of_edges defs2 n rhs c Hn (t0_dd_free n rhs Hn) Hc Hin)
                 rank Hr B HB ord Hord).
      + symmetry. apply (sol_stable_ge t0 (graph_of defs2)
                  (fun n rhs c Hn Hc Hin => graph_of_edges defs2 n rhs c Hn (t0_dd_free n rhs Hn) Hc Hin)
                  rank Hr B HB). lia.
      + intros n Hn Hc. apply Hall. split; [|exact Hc]. unfold t0, table0_of in Hn.
        rewrite map_map in Hn. exact Hn.
    - rewrite (resolve_in_order_sol t0' (graph_of defs2')
                 (fun n rhs c Hn Hc Hin => graph_of_edges defs2' n rhs c Hn (t0'_dd_free n rhs Hn) Hc Hin)
                 rank' Hr' B' HB' ord' Hord').
      + symmetry. apply (sol_stable_ge t0' (graph_of defs2')
                  (fun n rhs c Hn Hc Hin => graph_of_edges defs2' n rhs c Hn (t0'_dd_free n rhs Hn) Hc Hin)
                  rank' Hr' B' HB'). lia.
      + intros n Hn Hc. apply Hall'. split; [|exact Hc]. unfold t0', table0_of in Hn.
        rewrite map_map in Hn. exact Hn.
  Qed.

  Theorem back_end_agree command v :
    back_end builtins g sh command defs0 us fs = Ok v ->
    exists v', back_end builtins g' sh command defs0' us' fs' = Ok v'
               /\ v_command v' = v_command v /\ v_expr v' = v_expr v.
  Proof.
    unfold back_end. cbn zeta. rewrite expr0_same.
    fold spec spec' defs2 defs2' t0 t0'.
    set (e1 := distribute_descriptions (expr0_of g)).
    assert (He1 : forall c, In c (all_refs e1) -> S c).
    { intros c Hc. unfold e1 in Hc. rewrite distribute_descriptions_all_refs in Hc. auto. }
    rewrite <- (spec_same e1 He1).
    assert (He2 : forall c, In c (all_refs (spec e1)) -> S c).
    { intros c Hc. unfold spec, spec_of in Hc. rewrite specialize_refs in Hc. apply filter_In in Hc.
      apply He1. tauto. }
    destruct (resolution_order defs2) as [ord| | |] eqn:Ho; cbn [obind]; try discriminate.
    assert (Ho' : exists ord', resolution_order defs2' = Ok ord').
    { apply resolution_order_complete. apply acyclic_transfer.
      apply resolution_order_complete. eexists. exact Ho. }
    destruct Ho' as [ord' Ho']. rewrite Ho'. cbn [obind].
    destruct (final_tables ord ord' Ho Ho') as (K & HT & HT').
    set (T := resolve_in_order ord t0) in *. set (T' := resolve_in_order ord' t0') in *.
    assert (Hagree : forall x, S x -> assoc x T = assoc x T').
    { intros x Hx. rewrite HT, HT'. apply (sol_agree t0 t0' S t0_agree t0_closed). exact Hx. }
    assert (Hcl : forall x rhs, S x -> assoc x T = Some rhs -> forall c, In c (all_refs rhs) -> S c).
    { intros x rhs Hx Hr. rewrite HT in Hr. eapply (sol_refs_closed t0 S t0_closed); eauto. }
    pose proof (spaces_after_search_fine defs2 ord (spec e1) t0_dd_free
                  (specialize_dd_free _ _ _ _ _ _ (distribute_dd_free _ _)) Ho) as Hf.
    pose proof (spaces_after_search_fine defs2' ord' (spec e1) t0'_dd_free
                  (specialize_dd_free _ _ _ _ _ _ (distribute_dd_free _ _)) Ho') as Hf'.
    cbn zeta in Hf, Hf'. fold t0 T in Hf. fold t0' T' in Hf'.
    assert (Hsp : spaces T' (spaces_fuel T' (spec e1)) (spec e1) [] false
                  = spaces T (spaces_fuel T (spec e1)) (spec e1) [] false).
    { rewrite (spaces_ext T T' S Hagree Hcl _ (spec e1) [] false He2).
      apply spaces_fine_agree; [exact Hf'|].
      rewrite <- (spaces_ext T T' S Hagree Hcl _ (spec e1) [] false He2). exact Hf. }
    rewrite Hsp.
    destruct (spaces T _ (spec e1) [] false) as [[]| | |]; cbn [obind]; try discriminate.
    intro H. inversion H; subst v. clear H. eexists. split; [reflexivity|].
    cbn [v_command v_expr]. split; [reflexivity|].
    rewrite (resolve_ext T' T (spec e1)); [reflexivity|].
    intros c Hc. symmetry. apply Hagree. apply He2. exact Hc.
  Qed.
End Agreement.
