(** C14 (definition order) and C15 (harmlessness of unused definitions): the validated
    expression depends on the definition statements only through the lookups
    [shell_definition g sh x] / [plain_definition g x] for the names [x] that can be reached from
    the call variants.  Two grammars with the same call variants whose lookups agree on a set of
    names closed under references are accepted alike and yield the same expression. *)
From CG Require Import Base.Prelude Model.Ast Model.Check Spec.Choice Spec.Mistakes Spec.Warnings.
From CG Require Import Proofs.CheckChoice Proofs.CheckMistakes Proofs.CheckLemmas Proofs.CheckWarnings.
From CG Require Import Proofs.CheckCycle Proofs.CheckTotal Proofs.CheckFront Proofs.CheckCycleSpec.
From CG Require Import Proofs.CheckSpans Proofs.CheckResolve.
From Coq Require Import Permutation.

(** *** What a reference becomes, from the lookups of the specification *)
Definition choose_ref (builtins : shell -> list (string * string)) (g : grammar) (sh : shell)
           (n : string) (l : N) (sp : span) : expr :=
  match shell_definition g sh n with
  | Some (Command c _ _ _) => Command c (is_zsh sh) l sp
  | Some _ => NontermRef n l sp
  | None =>
      match plain_definition g n with
      | Some _ => NontermRef n l sp
      | None => match assoc n (builtins sh) with
                | Some c => Command c (is_zsh sh) l sp
                | None => NontermRef n l sp
                end
      end
  end.

Section Choose.
  Variable builtins : shell -> list (string * string).
  Variable g : grammar.
  Variable sh : shell.
  Variable defs0 : list defn.
  Variable us : list (string * user_spec).
  Variable fs : list (string * (string * span)).
  Hypothesis Hcollect : collect_plain_defs (all_defs g) [] = Ok defs0.
  Hypothesis Hspecs : get_specializations g sh = Ok (us, fs).

  Lemma plain_mem n :
    mem_str n (map d_name (defs1_of defs0)) = match plain_definition g n with Some _ => true | None => false end.
  Proof.
    unfold defs1_of. rewrite map_map. cbn [d_name].
    change (map (fun x => d_name x) defs0) with (map d_name defs0).
    rewrite (collect_plain_defs_names _ _ _ n Hcollect), pd_all_defs. reflexivity.
  Qed.

  Lemma specialize_ref_choose n l sp :
    specialize_ref sh us (builtins sh) fs (map d_name (defs1_of defs0)) n l sp
    = choose_ref builtins g sh n l sp.
  Proof.
    unfold specialize_ref, choose_ref.
    destruct (assoc n us) as [s|] eqn:Eu.
    - pose proof Hspecs as Hs. unfold get_specializations in Hs.
      destruct (get_user_specs sh (all_defs g) []) as [us'| | |] eqn:Hus; cbn in Hs; try discriminate.
      destruct (get_fallback_specs (map fst us') (all_defs g) []) as [fs'| | |]; cbn in Hs; try discriminate.
      inversion Hs; subst us' fs'.
      destruct (get_user_specs_spec _ _ _ _ n Hus) as [H1 _]. cbn in H1. rewrite Eu in H1. cbn in H1.
      rewrite sd_all_defs.
      destruct (sd (all_defs g) sh n) as [[| |c z lv csp| | | | | | |]|]; cbn in H1; try discriminate.
      inversion H1. reflexivity.
    - rewrite (fs_none g sh us fs Hspecs n Eu).
      rewrite (proj1 (us_none_iff g sh us fs Hspecs n) Eu), plain_mem.
      destruct (plain_definition g n); reflexivity.
  Qed.
End Choose.

Lemma specialize_ext sh us bi fs plain us' fs' plain' e :
  (forall n l sp, In n (all_refs e) ->
                  specialize_ref sh us bi fs plain n l sp = specialize_ref sh us' bi fs' plain' n l sp) ->
  specialize sh us bi fs plain e = specialize sh us' bi fs' plain' e.
Proof.
  induction e using expr_ind'; intro Hr; cbn [specialize]; try reflexivity;
    try (f_equal; apply IHe; exact Hr).
  - apply Hr. left. reflexivity.
  - f_equal. apply map_ext_Forall. rewrite Forall_forall in *. intros c Hin. apply H; [exact Hin|].
    intros n l s Hn. apply Hr. cbn. apply in_flat_map. exists c. split; assumption.
  - f_equal. apply map_ext_Forall. rewrite Forall_forall in *. intros c Hin. apply H; [exact Hin|].
    intros n l s Hn. apply Hr. cbn. apply in_flat_map. exists c. split; assumption.
  - f_equal. apply map_ext_Forall. rewrite Forall_forall in *. intros c Hin. apply H; [exact Hin|].
    intros n l s Hn. apply Hr. cbn. apply in_flat_map. exists c. split; assumption.
Qed.

Lemma rank_bound (rank : string -> nat) (l : list string) :
  exists B, forall n, In n l -> (rank n < B)%nat.
Proof.
  induction l as [|x l [B HB]]; [exists O; intros n []|].
  exists (S (Nat.max B (rank x))). intros n [Hn|Hn]; [subst; lia|]. specialize (HB n Hn). lia.
Qed.

(** *** Two grammars whose lookups agree on a closed set of names *)
Section Agreement.
  Variable builtins : shell -> list (string * string).
  Variable sh : shell.
  Variable g g' : grammar.
  Variable defs0 defs0' : list defn.
  Variable us us' : list (string * user_spec).
  Variable fs fs' : list (string * (string * span)).
  Hypothesis Hcollect : collect_plain_defs (all_defs g) [] = Ok defs0.
  Hypothesis Hspecs : get_specializations g sh = Ok (us, fs).
  Hypothesis Hcollect' : collect_plain_defs (all_defs g') [] = Ok defs0'.
  Hypothesis Hspecs' : get_specializations g' sh = Ok (us', fs').

  Variable S : string -> Prop.
  Hypothesis Hcv : call_variants g = call_variants g'.
  Hypothesis Hsd : forall x, S x -> shell_definition g sh x = shell_definition g' sh x.
  Hypothesis Hpd : forall x, S x -> plain_definition g x = plain_definition g' x.
  Hypothesis Hclosed : forall x rhs, S x -> plain_definition g x = Some rhs ->
                                     forall c, In c (all_refs rhs) -> S c.
  Hypothesis Hroot : forall c, In c (all_refs (expr0_of g)) -> S c.
  (** the dependencies of [g'] stay inside the set *)
  Hypothesis Hdep' : forall x y, depends g' sh x y = true -> S x /\ S y.

  Let spec := spec_of builtins sh us fs (defs1_of defs0).
  Let spec' := spec_of builtins sh us' fs' (defs1_of defs0').
  Let defs2 := defs2_of spec (defs1_of defs0).
  Let defs2' := defs2_of spec' (defs1_of defs0').
  Let t0 := table0_of defs2.
  Let t0' := table0_of defs2'.

  Lemma expr0_same : expr0_of g' = expr0_of g.
  Proof. unfold expr0_of. rewrite Hcv. reflexivity. Qed.

  Lemma spec_same e : (forall c, In c (all_refs e) -> S c) -> spec e = spec' e.
  Proof.
    intro He. unfold spec, spec', spec_of. apply specialize_ext. intros n l sp Hn.
    rewrite (specialize_ref_choose builtins g sh defs0 us fs Hcollect Hspecs).
    rewrite (specialize_ref_choose builtins g' sh defs0' us' fs' Hcollect' Hspecs').
    unfold choose_ref. rewrite (Hsd n (He n Hn)), (Hpd n (He n Hn)). reflexivity.
  Qed.

  Lemma t0_agree x : S x -> assoc x t0 = assoc x t0'.
  Proof.
    intro Hx. unfold t0, t0', defs2, defs2'.
    rewrite (table0_assoc builtins g sh defs0 us fs Hcollect).
    rewrite (table0_assoc builtins g' sh defs0' us' fs' Hcollect').
    rewrite <- (Hpd x Hx). destruct (plain_definition g x) as [rhs|] eqn:E; [|reflexivity].
    cbn. f_equal. apply spec_same. intros c Hc. rewrite distribute_descriptions_all_refs in Hc.
    eapply Hclosed; eauto.
  Qed.

  Lemma t0_closed x rhs : S x -> assoc x t0 = Some rhs -> forall c, In c (all_refs rhs) -> S c.
  Proof.
    intros Hx Hr c Hc. unfold t0, defs2 in Hr.
    rewrite (table0_assoc builtins g sh defs0 us fs Hcollect) in Hr.
    destruct (plain_definition g x) as [rhs0|] eqn:E; [|discriminate]. cbn in Hr.
    inversion Hr; subst rhs. unfold spec_of in Hc. rewrite specialize_refs in Hc.
    apply filter_In in Hc. destruct Hc as [Hc _]. rewrite distribute_descriptions_all_refs in Hc.
    eapply Hclosed; eauto.
  Qed.

  Lemma depends_transfer x y : depends g' sh x y = true -> depends g sh x y = true.
  Proof.
    intro H. destruct (Hdep' x y H) as [Hx Hy]. unfold depends, plain_chosen in *.
    rewrite (Hpd x Hx), (Hsd y Hy), (Hpd y Hy). exact H.
  Qed.

  Lemma acyclic_transfer : acyclic (graph_of defs2) -> acyclic (graph_of defs2').
  Proof.
    intros [rank Hr]. exists rank. intros u c Hu. apply Hr.
    apply (model_graph_depends builtins g sh defs0 us fs Hcollect Hspecs).
    apply depends_transfer.
    apply (model_graph_depends builtins g' sh defs0' us' fs' Hcollect' Hspecs'). exact Hu.
  Qed.

  Lemma t0_dd_free : table_dd_free t0.
  Proof. apply table0_dd_free; [intro e; apply specialize_dd_free|apply defs1_dd_free]. Qed.
  Lemma t0'_dd_free : table_dd_free t0'.
  Proof. apply table0_dd_free; [intro e; apply specialize_dd_free|apply defs1_dd_free]. Qed.

  (** the resolved tables agree on the set *)
  Lemma final_tables ord ord' :
    resolution_order defs2 = Ok ord -> resolution_order defs2' = Ok ord' ->
    exists K,
      (forall x, assoc x (resolve_in_order ord t0) = assoc x (sol t0 K)) /\
      (forall x, assoc x (resolve_in_order ord' t0') = assoc x (sol t0' K)).
  Proof.
    intros Ho Ho'.
    apply resolution_order_ok in Ho. destruct Ho as ([rank Hr] & Hord & Hall).
    apply resolution_order_ok in Ho'. destruct Ho' as ([rank' Hr'] & Hord' & Hall').
    destruct (rank_bound rank (map fst t0)) as [B HB].
    destruct (rank_bound rank' (map fst t0')) as [B' HB'].
    exists (Nat.max B B'). split; intro x.
    - rewrite (resolve_in_order_sol t0 (graph_of defs2)
                 (fun n rhs c Hn Hc Hin => graph_of_edges defs2 n rhs c Hn (t0_dd_free n rhs Hn) Hc Hin)
                 rank Hr B HB ord Hord).
      + symmetry. apply (sol_stable_ge t0 (graph_of defs2)
                  (fun n rhs c Hn Hc Hin => graph_of_edges defs2 n rhs c Hn (t0_dd_free n rhs Hn) Hc Hin)
                  rank Hr B HB). lia.
      + intros n Hn Hc. apply Hall. split; [|exact Hc]. unfold t0, table0_of in Hn.
        rewrite map_map in Hn. exact Hn.
    - rewrite (resolve_in_order_sol t0' (graph_of defs2')
                 (fun n rhs c Hn Hc Hin => graph_of_edges defs2' n rhs c Hn (t0'_dd_free n rhs Hn) Hc Hin)
                 rank' Hr' B' HB' ord' Hord').
      + symmetry. apply (sol_stable_ge t0' (graph_of defs2')
                  (fun n rhs c Hn Hc Hin => graph_of_edges defs2' n rhs c Hn (t0'_dd_free n rhs Hn) Hc Hin)
                  rank' Hr' B' HB'). lia.
      + intros n Hn Hc. apply Hall'. split; [|exact Hc]. unfold t0', table0_of in Hn.
        rewrite map_map in Hn. exact Hn.
  Qed.

  Theorem back_end_agree command v :
    back_end builtins g sh command defs0 us fs = Ok v ->
    exists v', back_end builtins g' sh command defs0' us' fs' = Ok v'
               /\ v_command v' = v_command v /\ v_expr v' = v_expr v.
  Proof.
    unfold back_end. cbn zeta. rewrite expr0_same.
    fold spec spec' defs2 defs2' t0 t0'.
    set (e1 := distribute_descriptions (expr0_of g)).
    assert (He1 : forall c, In c (all_refs e1) -> S c).
    { intros c Hc. unfold e1 in Hc. rewrite distribute_descriptions_all_refs in Hc. auto. }
    rewrite <- (spec_same e1 He1).
    assert (He2 : forall c, In c (all_refs (spec e1)) -> S c).
    { intros c Hc. unfold spec, spec_of in Hc. rewrite specialize_refs in Hc. apply filter_In in Hc.
      apply He1. tauto. }
    destruct (resolution_order defs2) as [ord| | |] eqn:Ho; cbn [obind]; try discriminate.
    assert (Ho' : exists ord', resolution_order defs2' = Ok ord').
    { apply resolution_order_complete. apply acyclic_transfer.
      apply resolution_order_complete. eexists. exact Ho. }
    destruct Ho' as [ord' Ho']. rewrite Ho'. cbn [obind].
    destruct (final_tables ord ord' Ho Ho') as (K & HT & HT').
    set (T := resolve_in_order ord t0) in *. set (T' := resolve_in_order ord' t0') in *.
    assert (Hagree : forall x, S x -> assoc x T = assoc x T').
    { intros x Hx. rewrite HT, HT'. apply (sol_agree t0 t0' S t0_agree t0_closed). exact Hx. }
    assert (Hcl : forall x rhs, S x -> assoc x T = Some rhs -> forall c, In c (all_refs rhs) -> S c).
    { intros x rhs Hx Hr. rewrite HT in Hr. eapply (sol_refs_closed t0 S t0_closed); eauto. }
    pose proof (spaces_after_search_fine defs2 ord (spec e1) t0_dd_free
                  (specialize_dd_free _ _ _ _ _ _ (distribute_dd_free _ _)) Ho) as Hf.
    pose proof (spaces_after_search_fine defs2' ord' (spec e1) t0'_dd_free
                  (specialize_dd_free _ _ _ _ _ _ (distribute_dd_free _ _)) Ho') as Hf'.
    cbn zeta in Hf, Hf'. fold t0 T in Hf. fold t0' T' in Hf'.
    assert (Hsp : spaces T' (spaces_fuel T' (spec e1)) (spec e1) [] false false
                  = spaces T (spaces_fuel T (spec e1)) (spec e1) [] false false).
    { rewrite (spaces_ext T T' S Hagree Hcl _ (spec e1) [] false false He2).
      apply spaces_fine_agree; [exact Hf'|].
      rewrite <- (spaces_ext T T' S Hagree Hcl _ (spec e1) [] false false He2). exact Hf. }
    rewrite Hsp.
    destruct (spaces T _ (spec e1) [] false false) as [[]| | |]; cbn [obind]; try discriminate.
    intro H. inversion H; subst v. clear H. eexists. split; [reflexivity|].
    cbn [v_command v_expr]. split; [reflexivity|].
    rewrite (resolve_ext T' T (spec e1)); [reflexivity|].
    intros c Hc. symmetry. apply Hagree. apply He2. exact Hc.
  Qed.
End Agreement.

(** *** When the passes in front of the search succeed *)
Lemma has_dup_NoDup l : has_dup l = false <-> NoDup l.
Proof.
  induction l as [|x l IH]; cbn; [split; [constructor|reflexivity]|].
  rewrite orb_false_iff, IH, mem_str_false_In. split.
  - intros [H1 H2]. constructor; assumption.
  - intro H. inversion H; subst. split; assumption.
Qed.

Definition front_ok (g : grammar) (sh : shell) : Prop :=
  NoDup (plain_names g) /\ unknown_shell g = false /\ non_command_for_shell g = false
  /\ NoDup (shell_names g sh)
  /\ forall n nsp rhs, In (NontermDef n nsp None rhs) g -> In n (shell_names g sh) ->
                       is_command rhs = true.

Lemma get_fallback_specs_commands sp ds : forall acc fs,
  get_fallback_specs sp ds acc = Ok fs ->
  forall n nsp rhs, In (n, nsp, None, rhs) ds -> mem_str n sp = true -> is_command rhs = true.
Proof.
  induction ds as [|[[[n nsp] sh] rhs] r IH]; intros acc fs H n' nsp' rhs' Hin Hm; [destruct Hin|].
  cbn [get_fallback_specs] in H. destruct sh as [s|].
  - destruct Hin as [Hin|Hin]; [discriminate|]. eapply IH; eauto.
  - destruct Hin as [Hin|Hin].
    + inversion Hin; subst. rewrite Hm in H. destruct rhs'; try discriminate. reflexivity.
    + destruct (mem_str n sp); [|eapply IH; eauto].
      destruct rhs; try discriminate. destruct (assoc n acc) as [[c p]|]; [discriminate|].
      eapply IH; eauto.
Qed.

Lemma front_ok_iff g sh :
  (exists defs0 us fs, collect_plain_defs (all_defs g) [] = Ok defs0
                       /\ get_specializations g sh = Ok (us, fs)) <-> front_ok g sh.
Proof.
  split.
  - intros (defs0 & us & fs & Hc & Hs). unfold get_specializations in Hs.
    destruct (get_user_specs sh (all_defs g) []) as [us'| | |] eqn:Hus; cbn in Hs; try discriminate.
    destruct (get_fallback_specs (map fst us') (all_defs g) []) as [fs'| | |] eqn:Hfs; cbn in Hs;
      try discriminate.
    inversion Hs; subst us' fs'.
    destruct (proj1 (get_user_specs_ok_iff g sh)) as (H1 & H2 & H3); [eexists; exact Hus|].
    unfold front_ok. repeat split; auto.
    + apply has_dup_NoDup. apply (collect_plain_defs_no_dup g defs0 Hc).
    + apply has_dup_NoDup. exact H3.
    + intros n nsp rhs Hin Hn. apply in_all_defs in Hin.
      eapply get_fallback_specs_commands; [exact Hfs|exact Hin|].
      apply mem_str_In. rewrite (us_keys_shell_names _ _ _ Hus). exact Hn.
  - intros (Hp & H1 & H2 & Hsn & Hcmd).
    destruct (duplicate_plain_collect g) as [defs0 Hc]; [apply has_dup_NoDup; exact Hp|].
    destruct (proj2 (get_user_specs_ok_iff g sh)) as [us Hus].
    { repeat split; auto. apply has_dup_NoDup. exact Hsn. }
    destruct (get_fallback_specs_ok (map fst us) (all_defs g) []) as [fs Hfs].
    + rewrite <- plain_names_all_defs. apply has_dup_NoDup. exact Hp.
    + intros x _ [].
    + intros n nsp rhs Hin Hm. apply in_all_defs in Hin. apply mem_str_In in Hm.
      rewrite (us_keys_shell_names _ _ _ Hus) in Hm. eapply Hcmd; eauto.
    + exists defs0, us, fs. split; [exact Hc|]. unfold get_specializations. rewrite Hus. cbn.
      rewrite Hfs. reflexivity.
Qed.

(** *** Lookups and membership *)
Lemma plain_definition_some_in g x rhs :
  plain_definition g x = Some rhs -> exists nsp, In (NontermDef x nsp None rhs) g.
Proof.
  induction g as [|s g IH]; cbn; [discriminate|].
  destruct s as [n sp e|n sp [[shn shsp]|] r].
  - intro H. destruct (IH H) as [nsp Hin]. eauto.
  - intro H. destruct (IH H) as [nsp Hin]. eauto.
  - destruct (String.eqb n x) eqn:E.
    + apply String.eqb_eq in E. subst. intro H. inversion H; subst. eauto.
    + intro H. destruct (IH H) as [nsp Hin]. eauto.
Qed.

Lemma shell_definition_some_in g sh x rhs :
  shell_definition g sh x = Some rhs ->
  exists nsp shn shsp, In (NontermDef x nsp (Some (shn, shsp)) rhs) g /\ is_shell shn sh = true.
Proof.
  induction g as [|s g IH]; cbn; [discriminate|].
  destruct s as [n sp e|n sp [[shn shsp]|] r].
  - intro H. destruct (IH H) as (nsp & a & b & Hin & Hs). eauto 10.
  - destruct (String.eqb n x && is_shell shn sh) eqn:E.
    + apply andb_true_iff in E. destruct E as [E1 E2]. apply String.eqb_eq in E1. subst.
      intro H. inversion H; subst. eauto 10.
    + intro H. destruct (IH H) as (nsp & a & b & Hin & Hs). eauto 10.
  - intro H. destruct (IH H) as (nsp & a & b & Hin & Hs). eauto 10.
Qed.

Lemma shell_definition_in g sh x nsp shn shsp rhs :
  NoDup (shell_names g sh) -> In (NontermDef x nsp (Some (shn, shsp)) rhs) g ->
  is_shell shn sh = true -> shell_definition g sh x = Some rhs.
Proof.
  induction g as [|s g IH]; intros Hnd Hin Hs; [destruct Hin|].
  destruct s as [n sp e|n sp [[shn' shsp']|] r].
  - destruct Hin as [Hin|Hin]; [discriminate|]. cbn in *. apply IH; assumption.
  - unfold shell_names in Hnd. cbn [flat_map] in Hnd. fold (shell_names g sh) in Hnd.
    cbn [shell_definition]. destruct Hin as [Hin|Hin].
    + inversion Hin; subst. rewrite String.eqb_refl, Hs. reflexivity.
    + destruct (String.eqb n x && is_shell shn' sh) eqn:E.
      * apply andb_true_iff in E. destruct E as [E1 E2]. apply String.eqb_eq in E1. subst n.
        rewrite E2 in Hnd. cbn in Hnd. inversion Hnd; subst. exfalso. apply H1.
        unfold shell_names. apply in_flat_map. eexists. split; [exact Hin|]. cbn. rewrite Hs. left. reflexivity.
      * apply IH; [|exact Hin|exact Hs]. destruct (is_shell shn' sh); [|exact Hnd].
        cbn in Hnd. inversion Hnd; assumption.
  - destruct Hin as [Hin|Hin]; [discriminate|]. cbn in *. apply IH; assumption.
Qed.

Lemma shell_names_in g sh x :
  In x (shell_names g sh) <-> shell_definition g sh x <> None.
Proof.
  unfold shell_names. induction g as [|s g IH]; cbn; [split; [tauto|congruence]|].
  destruct s as [n sp e|n sp [[shn shsp]|] r]; cbn; try exact IH.
  rewrite in_app_iff, IH. destruct (is_shell shn sh) eqn:Es; cbn.
  - destruct (String.eqb n x) eqn:E; cbn.
    + apply String.eqb_eq in E. subst. split; [discriminate|auto].
    + apply String.eqb_neq in E. split; [intros [[H|[]]|H]; [congruence|exact H]|auto].
  - rewrite andb_false_r. tauto.
Qed.

(** *** Definition order *)
Section Permuted.
  Variable builtins : shell -> list (string * string).
  Variable sh : shell.
  Variable g g' : grammar.
  Hypothesis Hperm : Permutation g g'.
  Hypothesis Hcv : call_variants g = call_variants g'.

  Lemma plain_names_perm : Permutation (plain_names g) (plain_names g').
  Proof. unfold plain_names. apply Permutation_flat_map. exact Hperm. Qed.

  Lemma shell_names_perm : Permutation (shell_names g sh) (shell_names g' sh).
  Proof. unfold shell_names. apply Permutation_flat_map. exact Hperm. Qed.

  Lemma existsb_perm (P : statement -> bool) : existsb P g = existsb P g'.
  Proof.
    destruct (existsb P g') eqn:E.
    - apply existsb_exists in E. destruct E as [x [Hx Hp]]. apply existsb_exists. exists x.
      split; [|exact Hp]. eapply Permutation_in; [apply Permutation_sym; exact Hperm|exact Hx].
    - destruct (existsb P g) eqn:E'; [|reflexivity]. apply existsb_exists in E'.
      destruct E' as [x [Hx Hp]]. rewrite <- E. symmetry. apply existsb_exists. exists x.
      split; [|exact Hp]. eapply Permutation_in; [exact Hperm|exact Hx].
  Qed.

  Lemma front_ok_perm : front_ok g sh -> front_ok g' sh.
  Proof.
    intros (Hp & H1 & H2 & Hsn & Hcmd). unfold front_ok. repeat split.
    - eapply Permutation_NoDup; [apply plain_names_perm|exact Hp].
    - unfold unknown_shell in *. rewrite <- existsb_perm. exact H1.
    - unfold non_command_for_shell in *. rewrite <- existsb_perm. exact H2.
    - eapply Permutation_NoDup; [apply shell_names_perm|exact Hsn].
    - intros n nsp rhs Hin Hn. apply (Hcmd n nsp rhs).
      + eapply Permutation_in; [apply Permutation_sym; exact Hperm|exact Hin].
      + eapply Permutation_in; [apply Permutation_sym; apply shell_names_perm|exact Hn].
  Qed.

  Lemma plain_definition_perm x : NoDup (plain_names g) -> plain_definition g x = plain_definition g' x.
  Proof.
    intro Hnd. assert (Hnd' : NoDup (plain_names g')) by (eapply Permutation_NoDup; [apply plain_names_perm|exact Hnd]).
    destruct (plain_definition g x) as [rhs|] eqn:E.
    - apply plain_definition_some_in in E. destruct E as [nsp Hin]. symmetry.
      apply (plain_definition_in g' x nsp rhs); [apply has_dup_NoDup; exact Hnd'|].
      eapply Permutation_in; [exact Hperm|exact Hin].
    - destruct (plain_definition g' x) as [rhs'|] eqn:E'; [|reflexivity]. exfalso.
      assert (Hin : In x (plain_names g')) by (apply plain_names_pd; congruence).
      eapply Permutation_in in Hin; [|apply Permutation_sym; apply plain_names_perm].
      apply plain_names_pd in Hin. congruence.
  Qed.

  Lemma shell_definition_perm x :
    NoDup (shell_names g sh) -> shell_definition g sh x = shell_definition g' sh x.
  Proof.
    intro Hnd. assert (Hnd' : NoDup (shell_names g' sh)) by (eapply Permutation_NoDup; [apply shell_names_perm|exact Hnd]).
    destruct (shell_definition g sh x) as [rhs|] eqn:E.
    - apply shell_definition_some_in in E. destruct E as (nsp & shn & shsp & Hin & Hs). symmetry.
      apply (shell_definition_in g' sh x nsp shn shsp rhs Hnd'); [|exact Hs].
      eapply Permutation_in; [exact Hperm|exact Hin].
    - destruct (shell_definition g' sh x) as [rhs'|] eqn:E'; [|reflexivity]. exfalso.
      assert (Hin : In x (shell_names g' sh)) by (apply shell_names_in; congruence).
      eapply Permutation_in in Hin; [|apply Permutation_sym; apply shell_names_perm].
      apply shell_names_in in Hin. congruence.
  Qed.

  Theorem definition_order v :
    from_grammar builtins g sh = Ok v ->
    exists v', from_grammar builtins g' sh = Ok v' /\ v_command v' = v_command v
               /\ v_expr v' = v_expr v.
  Proof.
    intro H. rewrite from_grammar_named_eq in *. unfold from_grammar_named in *.
    unfold cv_names in *. rewrite <- Hcv.
    destruct (dedup_names [] _) as [|[command cspan] more]; [discriminate|].
    destruct more; [|discriminate]. destruct (contains_char slash command); [discriminate|].
    destruct (collect_plain_defs (all_defs g) []) as [defs0| | |] eqn:Hc; cbn [obind] in H; try discriminate.
    destruct (get_specializations g sh) as [[us fs]| | |] eqn:Hs; cbn [obind fst snd] in H; try discriminate.
    assert (Hf : front_ok g sh) by (apply front_ok_iff; eauto).
    destruct (proj2 (front_ok_iff g' sh) (front_ok_perm Hf)) as (defs0' & us' & fs' & Hc' & Hs').
    rewrite Hc', Hs'. cbn [obind fst snd].
    destruct Hf as (Hp & _ & _ & Hsn & _).
    eapply (back_end_agree builtins sh g g' defs0 defs0' us us' fs fs' Hc Hs Hc' Hs' (fun _ => True));
      auto.
    - intros x _. apply shell_definition_perm. exact Hsn.
    - intros x _. apply plain_definition_perm. exact Hp.
  Qed.
End Permuted.

(** *** Removing the definitions nobody refers to *)
Definition remove_unused (g : grammar) : grammar :=
  filter (fun s => match s with
                   | NontermDef n _ _ _ => mem_str n (referred g)
                   | CallVariant _ _ _ => true
                   end) g.

Section Filtered.
  Variable P : statement -> bool.
  Variable g : grammar.
  Hypothesis Pcv : forall n sp e, P (CallVariant n sp e) = true.

  Lemma call_variants_filter : call_variants (filter P g) = call_variants g.
  Proof.
    unfold call_variants. induction g as [|s l IH]; cbn; [reflexivity|].
    destruct s as [n sp e|n sp sh rhs].
    - rewrite Pcv. cbn. rewrite IH. reflexivity.
    - destruct (P _); cbn; exact IH.
  Qed.

  Lemma NoDup_app_iff' {B} (a b : list B) :
    NoDup (a ++ b) <-> NoDup a /\ NoDup b /\ (forall x, In x a -> ~ In x b).
  Proof.
    induction a as [|y a IH]; cbn.
    - split; [intro H; repeat split; [constructor|exact H|intros x []]|tauto].
    - split.
      + intro H. inversion H; subst. apply IH in H3. destruct H3 as (Ha & Hb & Hd).
        rewrite in_app_iff in H2. repeat split.
        * constructor; tauto.
        * exact Hb.
        * intros x [Hx|Hx]; [subst; tauto|auto].
      + intros (Ha & Hb & Hd). inversion Ha; subst. constructor.
        * rewrite in_app_iff. intros [H|H]; [tauto|]. apply (Hd y); [left; reflexivity|exact H].
        * apply IH. repeat split; auto.
  Qed.

  Lemma NoDup_flat_map_filter {B} (h : statement -> list B) (l : list statement) :
    NoDup (flat_map h l) -> NoDup (flat_map h (filter P l)).
  Proof.
    induction l as [|s l IH]; cbn; [auto|]. intro H.
    apply NoDup_app_iff' in H. destruct H as (Ha & Hb & Hd).
    destruct (P s); [|auto]. cbn. apply NoDup_app_iff'. repeat split; auto.
    intros x Hx Hx'. apply (Hd x Hx). apply in_flat_map in Hx'. destruct Hx' as [y [Hy Hx']].
    apply filter_In in Hy. apply in_flat_map. exists y. tauto.
  Qed.

  Lemma existsb_filter_false (Q : statement -> bool) : existsb Q g = false -> existsb Q (filter P g) = false.
  Proof.
    intro H. destruct (existsb Q (filter P g)) eqn:E; [|reflexivity].
    apply existsb_exists in E. destruct E as [x [Hx Hq]]. apply filter_In in Hx.
    rewrite <- H. symmetry. apply existsb_exists. exists x. tauto.
  Qed.

  Lemma front_ok_filter sh : front_ok g sh -> front_ok (filter P g) sh.
  Proof.
    intros (Hp & H1 & H2 & Hsn & Hcmd). unfold front_ok. repeat split.
    - unfold plain_names. apply NoDup_flat_map_filter. exact Hp.
    - unfold unknown_shell. apply existsb_filter_false. exact H1.
    - unfold non_command_for_shell. apply existsb_filter_false. exact H2.
    - unfold shell_names. apply NoDup_flat_map_filter. exact Hsn.
    - intros n nsp rhs Hin Hn. apply filter_In in Hin. apply (Hcmd n nsp rhs); [tauto|].
      unfold shell_names in *. apply in_flat_map in Hn. destruct Hn as [y [Hy Hn]].
      apply filter_In in Hy. apply in_flat_map. exists y. tauto.
  Qed.

  (** lookups of a name whose definitions are all kept *)
  Lemma plain_definition_filter x :
    (forall nsp sh rhs, P (NontermDef x nsp sh rhs) = true) ->
    plain_definition (filter P g) x = plain_definition g x.
  Proof.
    intro Hk. induction g as [|s l IH]; cbn; [reflexivity|].
    destruct s as [n sp e|n sp [[shn shsp]|] r]; cbn [plain_definition].
    - rewrite Pcv. exact IH.
    - destruct (P _); exact IH.
    - destruct (String.eqb n x) eqn:E.
      + apply String.eqb_eq in E. subst. rewrite Hk. cbn. rewrite String.eqb_refl. reflexivity.
      + destruct (P _); cbn; rewrite ?E; exact IH.
  Qed.

  Lemma shell_definition_filter sh x :
    (forall nsp s rhs, P (NontermDef x nsp s rhs) = true) ->
    shell_definition (filter P g) sh x = shell_definition g sh x.
  Proof.
    intro Hk. induction g as [|s l IH]; cbn; [reflexivity|].
    destruct s as [n sp e|n sp [[shn shsp]|] r]; cbn [shell_definition].
    - rewrite Pcv. exact IH.
    - destruct (String.eqb n x) eqn:E.
      + apply String.eqb_eq in E. subst. rewrite Hk. cbn. rewrite String.eqb_refl. cbn.
        destruct (is_shell shn sh); [reflexivity|exact IH].
      + destruct (P _); cbn; rewrite ?E; exact IH.
    - destruct (P _); exact IH.
  Qed.
End Filtered.

Lemma referred_def g n nsp sh rhs c :
  In (NontermDef n nsp sh rhs) g -> In c (all_refs rhs) -> In c (referred g).
Proof.
  intros Hin Hc. unfold referred. apply in_flat_map. eexists. split; [exact Hin|exact Hc].
Qed.

Theorem remove_unused_harmless builtins g sh v :
  from_grammar builtins g sh = Ok v ->
  exists v', from_grammar builtins (remove_unused g) sh = Ok v'
             /\ v_command v' = v_command v /\ v_expr v' = v_expr v.
Proof.
  intro H. rewrite from_grammar_named_eq in *. unfold from_grammar_named in *.
  set (P := fun s => match s with
                     | NontermDef n _ _ _ => mem_str n (referred g)
                     | CallVariant _ _ _ => true
                     end).
  assert (Pcv : forall n sp e, P (CallVariant n sp e) = true) by reflexivity.
  assert (Hcv : call_variants (remove_unused g) = call_variants g).
  { apply (call_variants_filter P g Pcv). }
  unfold cv_names in *. rewrite Hcv.
  destruct (dedup_names [] _) as [|[command cspan] more]; [discriminate|].
  destruct more; [|discriminate]. destruct (contains_char slash command); [discriminate|].
  destruct (collect_plain_defs (all_defs g) []) as [defs0| | |] eqn:Hc; cbn [obind] in H; try discriminate.
  destruct (get_specializations g sh) as [[us fs]| | |] eqn:Hs; cbn [obind fst snd] in H; try discriminate.
  assert (Hf : front_ok g sh) by (apply front_ok_iff; eauto).
  destruct (proj2 (front_ok_iff (remove_unused g) sh) (front_ok_filter P g sh Hf))
    as (defs0' & us' & fs' & Hc' & Hs').
  rewrite Hc', Hs'. cbn [obind fst snd].
  assert (Hkeep : forall x, In x (referred g) -> forall nsp s rhs, P (NontermDef x nsp s rhs) = true).
  { intros x Hx nsp s rhs. cbn. apply mem_str_In. exact Hx. }
  eapply (back_end_agree builtins sh g (remove_unused g) defs0 defs0' us us' fs fs' Hc Hs Hc' Hs'
                         (fun x => In x (referred g))); auto.
  - intros x Hx. symmetry. apply (shell_definition_filter P g Pcv sh x (Hkeep x Hx)).
  - intros x Hx. symmetry. apply (plain_definition_filter P g Pcv x (Hkeep x Hx)).
  - intros x rhs _ Hx c Hc0. apply plain_definition_some_in in Hx. destruct Hx as [nsp Hin].
    eapply referred_def; eauto.
  - intros c Hc0. rewrite expr0_refs in Hc0. unfold referred. apply in_flat_map in Hc0.
    destruct Hc0 as [e [He Hc0]]. unfold call_exprs in He. apply in_flat_map in He.
    destruct He as [s [Hs0 He]]. destruct s; [|destruct He]. destruct He as [He|[]]. subst e.
    apply in_flat_map. eexists. split; [exact Hs0|exact Hc0].
  - intros x y Hd. unfold depends in Hd.
    destruct (plain_definition (remove_unused g) x) as [rhs|] eqn:Ex; [|discriminate].
    apply andb_true_iff in Hd. destruct Hd as [Hy _]. apply mem_str_In in Hy.
    apply plain_definition_some_in in Ex. destruct Ex as [nsp Hin]. apply filter_In in Hin.
    destruct Hin as [Hin Hp]. cbn in Hp. apply mem_str_In in Hp. split; [exact Hp|].
    eapply referred_def; eauto.
Qed.
