(** C04, fish: the WHOLE emitted script ([Model/EmitFish.script]) is read back by the specification-side
    reader.  Same construction as Proofs/ZshScript.v. *)
From Coq Require Import DecimalString.
From CG Require Import Base.Prelude Model.Ast Model.Dfa Model.Tpl Model.Quote Model.Tables Model.EmitBash Model.EmitData
     Model.EmitFish Spec.ShellDQ Spec.ScriptRead Proofs.QuoteRT Proofs.BashCodec Proofs.BashScript Proofs.ScriptGen
     Proofs.ZshCodec Proofs.PwshCodec Proofs.PwshScript Proofs.FishCodec.
From CGgen Require Import Consts TplFish.
Open Scope N_scope.
Open Scope list_scope.

Notation envF := EmitFish.env_cmd.
Notation line_semF := (line_semG Fish).
Notation scansF := (scansE Fish).
Notation unit_scansF := (unit_scans_envG Fish).

Definition fdp : string := "     ".
Lemma fdeep x : stmt_of Fish (append fdp x) = None.
Proof. reflexivity. Qed.
Lemma fblank rest : stmt_of Fish (append nl rest) = None.
Proof. reflexivity. Qed.

Ltac closed_lineF :=
  apply (closed_render_semG Fish); [reflexivity | vm_compute; reflexivity | intro; vm_compute; reflexivity | vm_compute; exact I].
Ltac deep_lineF Hnl :=
  apply (deep_render_semG Fish fdp fdeep);
  [ reflexivity
  | unfold seg_no_nl, EmitFish.env_cmd; cbn [forallb assoc String.eqb Ascii.eqb Bool.eqb]; rewrite ?Hnl, ?no_nl_sN; reflexivity ].

Ltac unit_openF :=
  unfold unit_scans_envG; intros k rest;
  rewrite render_region by (vm_compute; reflexivity);
  match goal with |- context [render_lines ?E ?R] =>
    replace (List.length (region_lines R)) with (List.length (render_lines E R)) by apply map_length
  end.
Ltac unit_linesF :=
  unfold render_lines;
  match goal with |- context [region_lines ?R] => region_list R end;
  cbn [map].
Ltac unit_closeF :=
  match goal with |- _ = _ ++ ?T => generalize T; intro end; vm_compute; reflexivity.
Ltac rest_linesF Hnl := repeat (eapply Forall2_cons; [first [closed_lineF | deep_lineF Hnl]|]).
Ltac unit_tacF Hnl first_lines :=
  unit_openF; erewrite (scan_lines_semG Fish);
  [ | unit_linesF; first_lines; rest_linesF Hnl; apply Forall2_nil ];
  unit_closeF.

(** the command name: name characters, and no closing parenthesis (the registration line writes
    [(_<cmd>)] between double quotes) *)
Definition no_rparen (s : string) : bool := forallb (fun c => negb (Ascii.eqb c ")")) (list_ascii_of_string s).
Definition fname_ok (command : string) : Prop := name_ok command /\ no_rparen command = true.

(** ** a function name that contains no [_cmd_] is no function of an external command *)
Fixpoint has_sub (p s : string) : bool :=
  is_prefix p s || match s with String _ t => has_sub p t | EmptyString => false end.

Lemma is_prefix_app p b : is_prefix p (append p b) = true.
Proof. induction p; cbn; [reflexivity | rewrite Ascii.eqb_refl; exact IHp]. Qed.

Lemma has_sub_unfold p s :
  has_sub p s = is_prefix p s || match s with String _ t => has_sub p t | EmptyString => false end.
Proof. destruct s; reflexivity. Qed.

Lemma has_sub_app a p b : has_sub p (append a (append p b)) = true.
Proof.
  induction a as [|c a IH]; cbn [append].
  - rewrite has_sub_unfold, is_prefix_app. reflexivity.
  - rewrite has_sub_unfold, IH. apply orb_true_r.
Qed.

Lemma strip_some_eq p s r : strip p s = Some r -> s = append p r.
Proof.
  revert s. induction p as [|c p IH]; intros s H; cbn in H; [inversion H; reflexivity|].
  destruct s as [|d s]; [discriminate|]. destruct (Ascii.eqb_spec c d); [|discriminate]. subst. rewrite (IH _ H). reflexivity.
Qed.

Lemma is_cmd_fn_has_sub cmd n : is_cmd_fn cmd n = true -> has_sub "_cmd_" n = true.
Proof.
  unfold is_cmd_fn. destruct (strip ("_" ++ cmd ++ "_cmd_") n) as [r|] eqn:E; [|discriminate]. intros _.
  apply strip_some_eq in E. rewrite E. rewrite <- (append_assoc "_" cmd "_cmd_").
  rewrite (append_assoc ("_" ++ cmd) "_cmd_" r). apply has_sub_app.
Qed.

Lemma match_fn_not_cmd cmd : is_cmd_fn cmd match_fn_name_fish = false.
Proof.
  destruct (is_cmd_fn cmd match_fn_name_fish) eqn:E; [|reflexivity].
  apply is_cmd_fn_has_sub in E. vm_compute in E. discriminate E.
Qed.

(** ** the lines that carry the command name at statement indentation *)
Lemma fheader_reads cmd suf :
  name_ok cmd -> forallb is_name_char (list_ascii_of_string suf) = true -> no_nl suf = true ->
  no_nl (append "function _" (append cmd suf)) = true
  /\ forall rest, fish_stmt (append (append "function _" (append cmd suf)) (append nl rest))
                  = Some (SFunc (append "_" (append cmd suf)), rest).
Proof.
  intros Hc Hsuf Hnl. split.
  - cbn [append no_nl]. rewrite !no_nl_app, (name_ok_no_nl _ Hc), Hnl. reflexivity.
  - intros rest. unfold fish_stmt. rewrite !append_assoc.
    do 2 (rewrite alt_skip by reflexivity).
    apply alt_take. erewrite pbind_lit' by reflexivity.
    assert (T : forallb is_name_char (list_ascii_of_string ("_" ++ cmd ++ suf)) = true).
    { destruct Hc as [_ Hc]. apply (name_chars_app "_"); [reflexivity | apply name_chars_app; assumption]. }
    rewrite <- (append_assoc cmd suf).
    erewrite pbind_some
      by (apply (name_read ("_" ++ (cmd ++ suf))%string nl_char rest ltac:(discriminate)); [exact T | reflexivity]).
    change (String nl_char rest) with (nl ++ rest)%string.
    rewrite (pbind_some _ _ _ _ _ (eol_nl rest)). reflexivity.
Qed.

Lemma fheader_sem cmd suf :
  name_ok cmd -> forallb is_name_char (list_ascii_of_string suf) = true -> no_nl suf = true ->
  strip "_cmd_" suf = None ->
  line_semF cmd (append "function _" (append cmd suf)) (Some (SFunc (append "_" (append cmd suf)))).
Proof.
  intros Hc Hsuf Hnl Hs. destruct (fheader_reads cmd suf Hc Hsuf Hnl) as [H1 H2].
  split; [exact H1|]. split; [exact H2|]. apply is_cmd_fn_suffix. exact Hs.
Qed.

Lemma fheader_main_sem cmd :
  name_ok cmd -> line_semF cmd (append "function _" (append cmd EmptyString)) (Some (SFunc (append "_" cmd))).
Proof.
  intros Hc. pose proof (fheader_sem cmd EmptyString Hc eq_refl eq_refl eq_refl) as H.
  rewrite QuoteRT.append_nil_r in H. rewrite QuoteRT.append_nil_r. exact H.
Qed.

Lemma fmatch_header_sem cmd :
  line_semF cmd (append "function " (append match_fn_name_fish EmptyString)) (Some (SFunc match_fn_name_fish)).
Proof.
  split; [reflexivity|]. split; [intros rest; reflexivity | apply match_fn_not_cmd].
Qed.

(** [    _<cmd><suffix> "$argv[1]" "$argv[2]"] *)
Lemma fcall_sem cmd suf :
  name_ok cmd -> forallb is_name_char (list_ascii_of_string suf) = true -> no_nl suf = true ->
  line_semF cmd (append "    _" (append cmd (append suf (append " ""$argv[1]"" ""$argv[2]""" EmptyString))))
            (Some (SCall (append "_" (append cmd suf)))).
Proof.
  intros [Hne Hc] Hsuf Hsnl. pose proof (name_ok_no_nl cmd (conj Hne Hc)) as Hnl. rewrite QuoteRT.append_nil_r.
  assert (Hv : forallb is_name_char (list_ascii_of_string (cmd ++ suf)%string) = true) by (apply name_chars_app; assumption).
  assert (Hvne : (cmd ++ suf)%string <> EmptyString) by (destruct cmd; [congruence | discriminate]).
  split; [|split; [|exact I]].
  - nonl Hnl Hsnl.
  - intros rest. change (stmt_of Fish) with fish_stmt. unfold fish_stmt. rewrite !append_assoc.
    rewrite alt_skip by reflexivity.
    apply alt_take.
    change (" ""$argv[1]"" ""$argv[2]""" ++ nl ++ rest)%string with (String " " ("""$argv[1]"" ""$argv[2]""" ++ nl ++ rest))%string.
    rewrite <- (append_assoc cmd suf).
    rewrite pbind_lit.
    rewrite (pbind_some _ _ _ _ _ (name_read (cmd ++ suf)%string " "%char _ Hvne Hv eq_refl)).
    erewrite pbind_lit' by reflexivity.
    match goal with |- context [line ?X] =>
      replace (line X) with ("[1]"" ""$argv[2]""", rest) by (symmetry; apply (line_app "[1]"" ""$argv[2]""" rest eq_refl))
    end.
    try rewrite append_assoc. reflexivity.
Qed.

(** complete --command <cmd> --no-files --arguments "(_<cmd>)" *)
Lemma fregister_sem cmd :
  fname_ok cmd ->
  line_semF cmd (append "complete --command " (append cmd (append " --no-files --arguments ""(_" (append cmd ")"""))))
            (Some (SRegister [append "_" cmd; cmd])).
Proof.
  intros [[Hne Hc] Hq]. pose proof (name_ok_no_nl cmd (conj Hne Hc)) as Hnl.
  split; [|split; [|exact I]].
  - nonl Hnl Hnl.
  - intros rest. change (stmt_of Fish) with fish_stmt. unfold fish_stmt. rewrite !append_assoc.
    do 4 (rewrite alt_skip by reflexivity).
    rewrite pbind_lit.
    change (" --no-files --arguments ""(_" ++ cmd ++ ")""" ++ nl ++ rest)%string
      with (String " " ("--no-files --arguments ""(_" ++ cmd ++ ")""" ++ nl ++ rest))%string.
    rewrite (pbind_some _ _ _ _ _ (name_read cmd " "%char _ Hne Hc eq_refl)).
    erewrite pbind_lit' by reflexivity.
    assert (Hq' : forallb (fun c => negb (Ascii.eqb c ")")) (list_ascii_of_string ("_" ++ cmd)%string) = true) by (cbn; exact Hq).
    erewrite pbind_some.
    2:{ cbv beta.
        match goal with |- context [take_while ?p ?X] =>
          assert (TW : take_while p X = (("_" ++ cmd)%string, String ")" ("""" ++ nl ++ rest)%string))
            by (apply (take_while_app p ("_" ++ cmd)%string ")"%char _ Hq' eq_refl))
        end.
        rewrite TW. reflexivity. }
    erewrite pbind_lit' by reflexivity.
    rewrite (pbind_some _ _ _ _ _ (eol_nl rest)). reflexivity.
Qed.

(** complete --erase <cmd> *)
Lemma ferase_sem cmd : name_ok cmd -> line_semF cmd (append "complete --erase " (append cmd EmptyString)) None.
Proof.
  intros Hc. pose proof (name_ok_no_nl cmd Hc) as Hnl. rewrite QuoteRT.append_nil_r.
  split; [|split; [|exact I]]; [nonl Hnl Hnl | intros rest; reflexivity].
Qed.

(** [    while test $fallback_level -le N] *)
Lemma fwhile_sem cmd n :
  line_semF cmd (append "    while test $fallback_level -le " (append (sN n) EmptyString)) None.
Proof.
  rewrite QuoteRT.append_nil_r. split; [|split; [|exact I]]; [nonl no_nl_sN no_nl_sN | intros rest; reflexivity].
Qed.

(** [    set state N] *)
Lemma fstate_sem cmd n :
  line_semF cmd (append "    set state " (append (sN n) EmptyString)) (Some (SSet "state" None [INum n])).
Proof.
  rewrite QuoteRT.append_nil_r. split; [|split; [|exact I]]; [nonl no_nl_sN no_nl_sN|].
  intros rest. pose proof (fish_set_stmt false "state" None [INum n] rest ltac:(fv)) as H.
  unfold set_line in H. Transparent join. cbn [map join enc_item idx_text append] in H. Opaque join.
  rewrite !append_assoc in H. rewrite !append_assoc. exact H.
Qed.

Lemma fhash_sem cmd x : no_nl x = true -> line_semF cmd (append "# " x) None.
Proof. intros H. split; [exact H|]. split; [|exact I]. intros rest. reflexivity. Qed.

Lemma fend_sem cmd : line_semF cmd "end" (Some SEnd).
Proof. split; [reflexivity|]. split; [intros rest; reflexivity | exact I]. Qed.

(** ** units *)
Ltac special_lineF L :=
  eapply Forall2_cons; [cbn [render assoc String.eqb Ascii.eqb Bool.eqb EmitFish.env_cmd]; apply L|].

Section Units.
Variable command : string.
Hypothesis Hp : fname_ok command.
Let Hc : name_ok command := proj1 Hp.
Let Hnl := name_ok_no_nl _ Hc.

Definition F_match := write_match_fn_0 ++ seg_nl.
Definition match_fn_stmts : list stmt :=
  [SFunc match_fn_name_fish; SSet "candidates" None []; SSet "descriptions" None []; SSet "matches_case_sensitive" None [];
   SSet "descriptions_case_sensitive" None []; SSet "i" None [INum 1]; SSet "matches_case_insensitive" None [];
   SSet "descriptions_case_insensitive" None []; SSet "i" None [INum 1]; SEnd].

Lemma F_match_scans : unit_scansF command (envF command) F_match match_fn_stmts.
Proof. unit_tacF Hnl ltac:(special_lineF (fmatch_header_sem command)). Qed.

Definition F_s0 := write_subword_fn_0 ++ seg_nl.
Lemma F_s0_scans : unit_scansF command (envF command) F_s0 [SFunc (append "_" (append command "_subword"))].
Proof. unit_tacF Hnl ltac:(eapply Forall2_cons; [apply (fheader_sem command "_subword" Hc); reflexivity|]). Qed.
Lemma F_s1_scans :
  unit_scansF command (envF command) (sh_nl write_subword_fn_1)
    [SSet "subword_state" None [INum 1]; SSet "char_index" None [INum 1]; SSet "matched" None [INum 0]].
Proof. unit_tacF Hnl idtac. Qed.
Lemma F_s2_scans : unit_scansF command (envF command) (sh_nl write_subword_fn_2) [].
Proof. unit_tacF Hnl idtac. Qed.
Lemma F_s3_scans : unit_scansF command (envF command) (sh_nl write_subword_fn_3) [].
Proof. unit_tacF Hnl idtac. Qed.
Lemma F_s4_scans : unit_scansF command (envF command) (sh_nl write_subword_fn_4) [].
Proof. unit_tacF Hnl idtac. Qed.
Lemma F_s5_scans :
  unit_scansF command (envF command) (sh_nl write_subword_fn_5) [SSet "matched_prefix" None []; SSet "fallback_level" None [INum 0]].
Proof. unit_tacF Hnl idtac. Qed.
Lemma F_s6_scans : unit_scansF command (envF command) (sh_nl write_subword_fn_6) [].
Proof. unit_tacF Hnl idtac. Qed.
Lemma F_s7_scans : unit_scansF command (envF command) (drop_nl write_subword_fn_7) [SEnd].
Proof. unit_tacF Hnl idtac. Qed.

Definition F_m12 := write_completion_script_1 ++ write_completion_script_2.
Definition F_m49 := (write_completion_script_4 ++ seg_nl) ++ (write_completion_script_5 ++ seg_nl).
Definition F_m69 := (write_completion_script_6 ++ seg_nl) ++ (write_completion_script_7 ++ seg_nl)
                    ++ (write_completion_script_8 ++ seg_nl) ++ (write_completion_script_9 ++ seg_nl).
Definition F_m23 := write_completion_script_23 ++ seg_nl.
Definition F_m24 := write_completion_script_24 ++ seg_nl.
Definition F_m25 := write_completion_script_25 ++ seg_nl.

Lemma F_m12_scans : unit_scansF command (envF command) F_m12 [SFunc (append "_" command)].
Proof. unit_tacF Hnl ltac:(special_lineF (fheader_main_sem command Hc)). Qed.
Lemma F_m3_scans : unit_scansF command (envF command) write_completion_script_3 [SSet "COMP_WORDS" None []].
Proof. unit_tacF Hnl idtac. Qed.
Lemma F_m49_scans : unit_scansF command [] F_m49 [SSet "descrs" None []; SSet "descr_literal_ids" None []].
Proof. unit_tacF Hnl idtac. Qed.
Lemma F_m69_scans :
  unit_scansF command [] F_m69
    [SSet "literal_transitions_inputs" None []; SSet "command_transitions" None [];
     SSet "star_transitions_from" None []; SSet "star_transitions_to" None []].
Proof. unit_tacF Hnl idtac. Qed.

Definition fenv_state (start : N) : list (string * string) := ("starting_state", sN start) :: envF command.
Definition fenv_max (m : N) : list (string * string) := ("max_fallback_level", sN m) :: envF command.

Lemma F_m12b_scans start :
  unit_scansF command (fenv_state start) write_completion_script_12 [SSet "state" None [INum start]; SSet "word_index" None [INum 2]].
Proof.
  unit_tacF Hnl ltac:(eapply Forall2_cons; [closed_lineF|];
                      eapply Forall2_cons;
                      [unfold fenv_state; cbn [render assoc String.eqb Ascii.eqb Bool.eqb EmitFish.env_cmd];
                       apply (fstate_sem command start)|]).
Qed.
Lemma F_m13_scans : unit_scansF command (envF command) write_completion_script_13 [].
Proof. unit_tacF Hnl idtac. Qed.
Lemma F_m14_scans : unit_scansF command (envF command) write_completion_script_14 [].
Proof. unit_tacF Hnl idtac. Qed.
Lemma F_m15_scans : unit_scansF command (envF command) write_completion_script_15 [].
Proof. unit_tacF Hnl idtac. Qed.
Lemma F_m16_scans : unit_scansF command (envF command) write_completion_script_16 [].
Proof. unit_tacF Hnl idtac. Qed.
Lemma F_m20_scans m : unit_scansF command (fenv_max m) write_completion_script_20 [SSet "fallback_level" None [INum 0]].
Proof.
  unit_tacF Hnl ltac:(eapply Forall2_cons; [closed_lineF|]; eapply Forall2_cons; [closed_lineF|];
                      eapply Forall2_cons;
                      [unfold fenv_max; cbn [render assoc String.eqb Ascii.eqb Bool.eqb EmitFish.env_cmd];
                       apply (fwhile_sem command m)|]).
Qed.
Lemma F_m21_scans : unit_scansF command (envF command) write_completion_script_21 [].
Proof. unit_tacF Hnl idtac. Qed.
Lemma F_m22_scans : unit_scansF command (envF command) write_completion_script_22 [].
Proof. unit_tacF Hnl idtac. Qed.
Lemma F_m23_scans : unit_scansF command (envF command) F_m23 [SEnd].
Proof. unit_tacF Hnl idtac. Qed.
Lemma F_m24_scans : unit_scansF command (envF command) F_m24 [].
Proof. unit_tacF Hnl ltac:(special_lineF (ferase_sem command Hc)). Qed.
Lemma F_m25_scans : unit_scansF command (envF command) F_m25 [SRegister [append "_" command; command]].
Proof. unit_tacF Hnl ltac:(special_lineF (fregister_sem command Hp)). Qed.
End Units.

(** ** data sections as scanned pieces *)
Lemma flits_scans cmd sub lits : scansF cmd (F.write_literals sub lits) (flits_stmts sub lits).
Proof. rewrite fwrite_literals_lines. apply reads_scansG, freads_lits. Qed.
Lemma fmatch_scans cmd sub t : scansF cmd (F.write_matching_tables sub t) (fmatch_stmts sub t).
Proof. rewrite fwrite_match_lines. apply reads_scansG, freads_match. Qed.
Lemma fcompletion_scans cmd sub t : scansF cmd (F.write_completion_tables sub t) (fcompletion_stmts sub t).
Proof. rewrite fwrite_completion_lines. apply reads_scansG, freads_completion. Qed.

(** ** wrapper and shape functions of within-word automata *)
Lemma ftpl_wrapper_header command id :
  fmtln write_subword_wrapper_fn_0 [("command", command); ("id", sN id)]
  = append (append "function _" (append command (append "_subword_" (sN id)))) nl.
Proof. tpl_norm. Qed.
Lemma ftpl_shape_wrapper_header command id :
  fmtln write_subword_shape_wrapper_fn_0 [("command", command); ("id", sN id)]
  = append (append "function _" (append command (append "_subword_" (sN id)))) nl.
Proof. tpl_norm. Qed.
Lemma ftpl_shape_header command sid :
  fmtln write_subword_shape_fn_0 [("command", command); ("shape_id", sN sid)]
  = append (append "function _" (append command (append "_subword_shape_" (sN sid)))) nl.
Proof. tpl_norm. Qed.
Lemma ftpl_wrapper_call command :
  fmtln write_subword_wrapper_fn_1 [("command", command)]
  = append (append "    _" (append command (append "_subword" (append " ""$argv[1]"" ""$argv[2]""" EmptyString)))) nl.
Proof. tpl_norm. Qed.
Lemma ftpl_shape_call command :
  fmtln write_subword_shape_fn_1 [("command", command)]
  = append (append "    _" (append command (append "_subword" (append " ""$argv[1]"" ""$argv[2]""" EmptyString)))) nl.
Proof. tpl_norm. Qed.
Lemma ftpl_shape_wrapper_call command sid :
  fmtln write_subword_shape_wrapper_fn_1 [("command", command); ("shape_id", sN sid)]
  = append (append "    _" (append command (append (append "_subword_shape_" (sN sid)) (append " ""$argv[1]"" ""$argv[2]""" EmptyString)))) nl.
Proof. tpl_norm. Qed.
Lemma ftpl_close_wrapper : fmtln write_subword_wrapper_fn_2 [] = append "end" nl.
Proof. tpl_norm. Qed.
Lemma ftpl_close_shape : fmtln write_subword_shape_fn_2 [] = append "end" nl.
Proof. tpl_norm. Qed.
Lemma ftpl_close_shape_wrapper : fmtln write_subword_shape_wrapper_fn_2 [] = append "end" nl.
Proof. tpl_norm. Qed.

Definition fwrapper_stmts (command : string) (id : N) (t : tables) : list stmt :=
  [SFunc (fn_name command (append "_subword_" (sN id)))]
  ++ flits_stmts true (t_literals t) ++ fmatch_stmts true t ++ fcompletion_stmts true t
  ++ [SCall (fn_name command "_subword")] ++ [SEnd].

Definition fshape_fn_stmts (command : string) (sid : N) (t : tables) : list stmt :=
  [SFunc (fn_name command (append "_subword_shape_" (sN sid)))]
  ++ fmatch_stmts true t ++ fcompletion_stmts true t ++ [SCall (fn_name command "_subword")] ++ [SEnd].

Definition fshape_wrapper_stmts (command : string) (id sid : N) (t : tables) : list stmt :=
  [SFunc (fn_name command (append "_subword_" (sN id)))] ++ flits_stmts true (t_literals t)
  ++ [SCall (fn_name command (append "_subword_shape_" (sN sid)))] ++ [SEnd].

Section Wrappers.
Variable command : string.
Hypothesis Hc : name_ok command.

Lemma fheader_scans suf :
  forallb is_name_char (list_ascii_of_string suf) = true -> no_nl suf = true -> strip "_cmd_" suf = None ->
  scansF command (append (append "function _" (append command suf)) nl) [SFunc (fn_name command suf)].
Proof. intros H1 H2 H3. apply (scansG_line Fish command _ _ (fheader_sem command suf Hc H1 H2 H3)). Qed.

Lemma fcall_scans suf :
  forallb is_name_char (list_ascii_of_string suf) = true -> no_nl suf = true ->
  scansF command (append (append "    _" (append command (append suf (append " ""$argv[1]"" ""$argv[2]""" EmptyString)))) nl)
         [SCall (fn_name command suf)].
Proof. intros H1 H2. apply (scansG_line Fish command _ _ (fcall_sem command suf Hc H1 H2)). Qed.

Lemma fend_scans : scansF command (append "end" nl) [SEnd].
Proof. apply (scansG_line Fish command _ _ (fend_sem command)). Qed.

Lemma fblank_scans : scansF command nl [].
Proof. apply (blank_scansG Fish fblank). Qed.

Lemma fwrapper_scans id t :
  scansF command (append (F.wrapper command id t) nl) (fwrapper_stmts command id t).
Proof.
  destruct (sub_suffix_ok "_subword_" id eq_refl eq_refl) as [S1 S2].
  unfold F.wrapper, fwrapper_stmts. cbn [sconcat].
  rewrite ftpl_wrapper_header, ftpl_wrapper_call, ftpl_close_wrapper.
  set (A := (("function _" ++ command ++ "_subword_" ++ sN id) ++ nl)%string).
  set (F := (("    _" ++ command ++ "_subword" ++ " ""$argv[1]"" ""$argv[2]""" ++ "") ++ nl)%string).
  set (G := ("end" ++ nl)%string).
  rewrite !append_assoc. cbn [append].
  apply scansE_app; [apply (fheader_scans _ S1 S2 eq_refl)|].
  apply scansE_app; [apply flits_scans|].
  apply scansE_app; [apply fmatch_scans|].
  apply scansE_app; [apply fcompletion_scans|].
  apply scansE_app; [apply (fcall_scans "_subword" eq_refl eq_refl)|].
  rewrite <- (app_nil_r [SEnd]).
  apply scansE_app; [apply fend_scans | apply fblank_scans].
Qed.

Lemma fshape_fn_scans sid t :
  scansF command (append (F.shape_fn command sid t) nl) (fshape_fn_stmts command sid t).
Proof.
  destruct (sub_suffix_ok "_subword_shape_" sid eq_refl eq_refl) as [S1 S2].
  unfold F.shape_fn, fshape_fn_stmts. cbn [sconcat].
  rewrite ftpl_shape_header, ftpl_shape_call, ftpl_close_shape.
  set (A := (("function _" ++ command ++ "_subword_shape_" ++ sN sid) ++ nl)%string).
  set (F := (("    _" ++ command ++ "_subword" ++ " ""$argv[1]"" ""$argv[2]""" ++ "") ++ nl)%string).
  set (G := ("end" ++ nl)%string).
  rewrite !append_assoc. cbn [append].
  apply scansE_app; [apply (fheader_scans _ S1 S2 eq_refl)|].
  apply scansE_app; [apply fmatch_scans|].
  apply scansE_app; [apply fcompletion_scans|].
  apply scansE_app; [apply (fcall_scans "_subword" eq_refl eq_refl)|].
  rewrite <- (app_nil_r [SEnd]).
  apply scansE_app; [apply fend_scans | apply fblank_scans].
Qed.

Lemma fshape_wrapper_scans id sid t :
  scansF command (append (F.shape_wrapper command id sid t) nl) (fshape_wrapper_stmts command id sid t).
Proof.
  destruct (sub_suffix_ok "_subword_" id eq_refl eq_refl) as [S1 S2].
  destruct (sub_suffix_ok "_subword_shape_" sid eq_refl eq_refl) as [T1 T2].
  unfold F.shape_wrapper, fshape_wrapper_stmts. cbn [sconcat].
  rewrite ftpl_shape_wrapper_header, ftpl_shape_wrapper_call, ftpl_close_shape_wrapper.
  set (A := (("function _" ++ command ++ "_subword_" ++ sN id) ++ nl)%string).
  set (F := (("    _" ++ command ++ ("_subword_shape_" ++ sN sid) ++ " ""$argv[1]"" ""$argv[2]""" ++ "") ++ nl)%string).
  set (G := ("end" ++ nl)%string).
  rewrite !append_assoc. cbn [append].
  apply scansE_app; [apply (fheader_scans _ S1 S2 eq_refl)|].
  apply scansE_app; [apply flits_scans|].
  apply scansE_app; [apply (fcall_scans _ T1 T2)|].
  rewrite <- (app_nil_r [SEnd]).
  apply scansE_app; [apply fend_scans | apply fblank_scans].
Qed.
End Wrappers.

(** ** the functions of external commands *)
Definition fcmd_fns_stmts (command : string) (ics : list (N * string)) : list stmt :=
  flat_map (fun ic => [SFunc (fn_name command (append "_cmd_" (sN (fst ic)))); SBody (snd ic); SEnd]) ics.

Lemma ftpl_cmd_fn command id body :
  fmt write_completion_script_0 (("id", sN id) :: ("cmd", body) :: envF command)
  = cmd_fn_textG Fish (append "function _" (append command (append "_cmd_" (sN id)))) body.
Proof. unfold cmd_fn_textG. tpl_norm. Qed.

Lemma fcmd_fns_scans command (Hc : name_ok command) ics :
  Forall (fun ic => body_okG Fish (snd ic)) ics ->
  scansF command
    (sconcat (map (fun ic : N * string => fmt write_completion_script_0 (("id", sN (fst ic)) :: ("cmd", snd ic) :: envF command)) ics))
    (fcmd_fns_stmts command ics).
Proof.
  induction 1 as [|ic ics Hb _ IH]; [apply scansE_nil|].
  cbn [map sconcat fcmd_fns_stmts flat_map]. rewrite ftpl_cmd_fn.
  apply scansE_app; [|exact IH].
  assert (Hsuf : forallb is_name_char (list_ascii_of_string ("_cmd_" ++ sN (fst ic))%string) = true)
    by (apply (name_chars_app "_cmd_"); [reflexivity | apply name_chars_sN]).
  assert (Hsnl : no_nl ("_cmd_" ++ sN (fst ic))%string = true) by (rewrite no_nl_app, no_nl_sN; reflexivity).
  destruct (fheader_reads command ("_cmd_" ++ sN (fst ic))%string Hc Hsuf Hsnl) as [_ Hrd].
  apply (cmd_fn_scansG Fish fdp fdeep fblank command); [discriminate | exact Hrd | apply is_cmd_fn_true | exact Hb].
Qed.

(** ** the within-word matcher *)
Definition fsub_fn_stmts (command : string) : list stmt :=
  [SFunc (fn_name command "_subword")]
  ++ [SSet "subword_state" None [INum 1]; SSet "char_index" None [INum 1]; SSet "matched" None [INum 0]]
  ++ [SSet "matched_prefix" None []; SSet "fallback_level" None [INum 0]] ++ [SEnd].

Lemma fsub_fn_text command nc ns :
  EmitFish.write_subword_fn command nc ns
  = (render (envF command) F_s0
     ++ render (envF command) (sh_nl write_subword_fn_1)
     ++ (if nc then render (envF command) (sh_nl write_subword_fn_2) else EmptyString)
     ++ (if ns then render (envF command) (sh_nl write_subword_fn_3) else EmptyString)
     ++ render (envF command) (sh_nl write_subword_fn_4)
     ++ render (envF command) (sh_nl write_subword_fn_5)
     ++ (if nc then render (envF command) (sh_nl write_subword_fn_6) else EmptyString)
     ++ render (envF command) (drop_nl write_subword_fn_7) ++ EmptyString)%string.
Proof.
  unfold EmitFish.write_subword_fn, fmt. cbn [sconcat].
  rewrite (render_starts_nl (envF command) write_subword_fn_7) by reflexivity.
  rewrite (append_assoc nl).
  rewrite (shift_if _ write_subword_fn_6) by reflexivity.
  rewrite (shift1 _ write_subword_fn_5) by reflexivity.
  rewrite (shift1 _ write_subword_fn_4) by reflexivity.
  rewrite (shift_if _ write_subword_fn_3) by reflexivity.
  rewrite (shift_if _ write_subword_fn_2) by reflexivity.
  rewrite (shift1 _ write_subword_fn_1) by reflexivity.
  rewrite render_snoc_nl. reflexivity.
Qed.

Ltac unitF1 L := refine (unit_scansG Fish _ _ _ _ _ L); vm_compute; reflexivity.
Ltac unitF L command Hp := first [unitF1 (L command Hp) | unitF1 (L command)].

Lemma fsub_fn_scans command (Hp : fname_ok command) nc ns :
  scansF command (EmitFish.write_subword_fn command nc ns) (fsub_fn_stmts command).
Proof.
  rewrite fsub_fn_text. unfold fsub_fn_stmts.
  apply scansE_app; [unitF F_s0_scans command Hp|].
  apply scansE_app; [unitF F_s1_scans command Hp|].
  apply scansE_app0; [apply scansE_if0; unitF F_s2_scans command Hp|].
  apply scansE_app0; [apply scansE_if0; unitF F_s3_scans command Hp|].
  apply scansE_app0; [unitF F_s4_scans command Hp|].
  apply scansE_app; [unitF F_s5_scans command Hp|].
  apply scansE_app0; [apply scansE_if0; unitF F_s6_scans command Hp|].
  rewrite <- (app_nil_r [SEnd]).
  apply scansE_app; [unitF F_s7_scans command Hp | apply scansE_nil].
Qed.

(** ** the whole script *)
Definition fgroup_stmts (command : string) : alltables -> N -> list N -> res (list stmt) :=
  group_stmtsG (fwrapper_stmts command) (fshape_fn_stmts command) (fshape_wrapper_stmts command).

Definition fsublevel_stmts (ls : list (list (N * list N))) : list stmt :=
  flevel_stmts false "subword_froms_level_" "subwords_level_" ls.

Definition fscript_stmts (command : string) (start : N) (nd : needs) (a : alltables) (groups : list (list N))
  : res (list stmt) :=
  let main := a_main a in
  do gs <- (if n_subwords nd then
              do l <- omap (fun ig : N * list N => fgroup_stmts command a (fst ig) (snd ig)) (number_from 0 groups);
              Ok (List.concat l)
            else Ok []);
  do rows <- (if n_subwords nd then resolve_rows a else Ok []);
  Ok (fcmd_fns_stmts command (number_from 0 (a_commands a)) ++ gs
      ++ match_fn_stmts
      ++ (if n_subwords nd then fsub_fn_stmts command else [])
      ++ [SFunc (append "_" command)] ++ [SSet "COMP_WORDS" None []]
      ++ [SSet "descrs" None []; SSet "descr_literal_ids" None []]
      ++ flits_stmts false (t_literals main)
      ++ [SSet "literal_transitions_inputs" None []; SSet "command_transitions" None [];
          SSet "star_transitions_from" None []; SSet "star_transitions_to" None []]
      ++ fmatch_stmts false main
      ++ (if n_subwords nd then fsubrow_stmts rows else [])
      ++ [SSet "state" None [INum (start + F.st)]; SSet "word_index" None [INum 2]]
      ++ fcompletion_stmts false main
      ++ (if n_subwords nd then fsublevel_stmts (a_csub a) else [])
      ++ [SSet "fallback_level" None [INum 0]] ++ [SEnd] ++ [SRegister [append "_" command; command]]).

Lemma ftpl_subids a b :
  fmtln write_completion_script_10 [("0", a); ("1", b)] = ("    set " ++ "" ++ "subword_transitions_ids" ++ ("[" ++ a ++ "]") ++ " " ++ b ++ nl)%string.
Proof. tpl_eq. Qed.
Lemma ftpl_subtos a b :
  fmtln write_completion_script_11 [("0", a); ("1", b)] = ("    set " ++ "" ++ "subword_transitions_tos" ++ ("[" ++ a ++ "]") ++ " " ++ b ++ nl)%string.
Proof. tpl_eq. Qed.
Lemma ftpl_subfroms a b :
  fmtln write_completion_script_17 [("level", a); ("froms_initializer", b)] = ("    set " ++ "" ++ "subword_froms_level_" ++ a ++ " " ++ b ++ nl)%string.
Proof. tpl_eq. Qed.
Lemma ftpl_subcell a : fmt write_completion_script_18 [("0", a)] = ("""" ++ a ++ """")%string.
Proof. tpl_eq. Qed.
Lemma ftpl_sublevel a b :
  fmtln write_completion_script_19 [("level", a); ("subwords_initializer", b)] = ("    set " ++ "" ++ "subwords_level_" ++ a ++ " " ++ b ++ nl)%string.
Proof. tpl_eq. Qed.

Lemma fsubrows_scans cmd rows :
  scansF cmd
    (sconcat (map (fun row : N * list (N * N) =>
                     append (fmtln write_completion_script_10
                               [("0", sN (fst row + F.st)); ("1", F.msc (join " " (map (fun p : N * N => sN (fst p)) (snd row))))])
                            (fmtln write_completion_script_11
                               [("0", sN (fst row + F.st)); ("1", F.msc (join " " (map (fun p : N * N => sN (snd p + F.st)) (snd row))))]))
                  rows))
    (fsubrow_stmts rows).
Proof.
  replace (sconcat _) with (sconcat (fsubrow_lines rows)); [apply reads_scansG, freads_subrows|].
  unfold fsubrow_lines. rewrite sconcat_flat_map. apply sconcat_map_fmtln. intros [s row]. cbn [fst snd].
  rewrite sconcat2. f_equal.
  - rewrite ftpl_subids. symmetry. apply (set_line_eq false "subword_transitions_ids" (Some (s + F.st)) [IStr _]).
  - rewrite ftpl_subtos. symmetry. apply (set_line_eq false "subword_transitions_tos" (Some (s + F.st)) [IStr _]).
Qed.

Lemma fsublevels_scans cmd (ls : list (list (N * list N))) :
  scansF cmd
    (sconcat (map (fun kl : N * list (N * list N) =>
                     append (fmtln write_completion_script_17
                               [("level", sN (fst kl)); ("froms_initializer", join " " (map (fun r : N * list N => sN (fst r + F.st)) (snd kl)))])
                            (fmtln write_completion_script_19
                               [("level", sN (fst kl));
                                ("subwords_initializer",
                                 join " " (map (fun r : N * list N => fmt write_completion_script_18 [("0", join " " (map sN (snd r)))]) (snd kl)))]))
                  (number_from 0 ls)))
    (fsublevel_stmts ls).
Proof.
  replace (sconcat _) with (sconcat (flevel_lines false "subword_froms_level_" "subwords_level_" ls));
    [apply reads_scansG, freads_levels; fv|].
  unfold flevel_lines. rewrite sconcat_flat_map. apply sconcat_map_fmtln. intros [k rows]. cbn [fst snd].
  rewrite sconcat2. f_equal.
  - rewrite ftpl_subfroms, ffroms_eq. symmetry. apply (set_line_level_eq false).
  - rewrite ftpl_sublevel, (fcells_plain_eq write_completion_script_18 rows ftpl_subcell). symmetry. apply (set_line_level_eq false).
Qed.

Lemma fsig_scans cmd sig : no_nl sig = true -> scansF cmd (append "# " (append sig EmitBash.nl)) [].
Proof.
  intros H. rewrite <- append_assoc. apply (scansG_line Fish cmd (append "# " sig) None). apply fhash_sem. exact H.
Qed.

Theorem fish_script_read command sig start nd a groups s :
  fname_ok command -> no_nl sig = true ->
  Forall (fun c => body_okG Fish c) (a_commands a) ->
  EmitFish.script command sig start nd a groups = Ok s ->
  exists sts, fscript_stmts command start nd a groups = Ok sts /\ read_stmts Fish command s = sts.
Proof.
  intros Hp Hsig Hbodies H. pose proof (proj1 Hp) as Hc. unfold EmitFish.script in H.
  apply obind_ok' in H. destruct H as [groups_part [Hgroups H]].
  apply obind_ok' in H. destruct H as [rows [Hrows H]].
  assert (G : exists gs, (if n_subwords nd then
                            do l <- omap (fun ig : N * list N => fgroup_stmts command a (fst ig) (snd ig)) (number_from 0 groups);
                            Ok (List.concat l)
                          else Ok []) = Ok gs /\ scansF command groups_part gs).
  { destruct (n_subwords nd).
    - apply obind_ok' in Hgroups. destruct Hgroups as [texts [Ht Hs]].
      destruct (groups_scansG Fish command _ _ _ _ _ _ (fun _ => True)
                  (fun id t _ => fwrapper_scans command Hc id t) (fshape_fn_scans command Hc)
                  (fun id sid t _ => fshape_wrapper_scans command Hc id sid t) a _ _ (fun _ _ _ => I) Ht)
        as [stss [Hss Hn]].
      unfold fgroup_stmts. rewrite Hss. cbn [obind]. eexists. split; [reflexivity|].
      assert (E : sconcat texts = groups_part) by congruence. rewrite <- E. exact Hn.
    - assert (E : EmptyString = groups_part) by congruence. rewrite <- E.
      exists []. split; [reflexivity | apply scansE_nil]. }
  destruct G as [gs [Hgs Hgn]].
  unfold fscript_stmts. rewrite Hgs. cbn [obind]. rewrite Hrows. cbn [obind]. eexists. split; [reflexivity|].
  match type of H with Ok ?X = Ok _ => assert (E : X = s) by congruence end.
  rewrite <- E. clear E H Hgroups Hgs.
  apply scansE_read.
  cbn [sconcat]. unfold fmt. rewrite !fmtln_unit'.
  change (("max_fallback_level", sN (t_maxlevel (a_main a))) :: envF command) with (fenv_max command (t_maxlevel (a_main a))).
  change (("starting_state", sN (start + F.st)) :: envF command) with (fenv_state command (start + F.st)).
  (* function _<cmd> and the template after it form one unit; so do the runs of fixed [set] lines *)
  rewrite <- (append_assoc (render (envF command) write_completion_script_1)), <- render_app. fold F_m12.
  rewrite <- (append_assoc (render [] (write_completion_script_4 ++ seg_nl))), <- render_app. fold F_m49.
  rewrite <- (append_assoc (render [] (write_completion_script_8 ++ seg_nl))), <- render_app.
  rewrite <- (append_assoc (render [] (write_completion_script_7 ++ seg_nl))), <- render_app.
  rewrite <- (append_assoc (render [] (write_completion_script_6 ++ seg_nl))), <- render_app. fold F_m69.
  rewrite (QuoteRT.append_nil_r (render (envF command) (write_completion_script_25 ++ seg_nl))).
  apply scansE_app0; [apply (fsig_scans command sig Hsig)|].
  apply scansE_app0; [apply (fblank_scans command)|].
  apply scansE_app.
  { apply (fcmd_fns_scans command Hc). clear -Hbodies. revert Hbodies. generalize 0. generalize (a_commands a).
    induction l as [|c l IH]; intros n0 Hb; cbn [number_from]; constructor; inversion Hb; subst; [assumption | apply IH; assumption]. }
  apply scansE_app; [exact Hgn|].
  apply scansE_app; [unitF F_match_scans command Hp|].
  apply scansE_app; [apply scansE_if; apply (fsub_fn_scans command Hp)|].
  apply scansE_app0; [apply (fblank_scans command)|].
  apply scansE_app; [unitF F_m12_scans command Hp|].
  apply scansE_app; [unitF F_m3_scans command Hp|].
  apply scansE_app; [unitF F_m49_scans command Hp|].
  apply scansE_app; [apply flits_scans|].
  apply scansE_app; [unitF F_m69_scans command Hp|].
  apply scansE_app; [apply fmatch_scans|].
  apply scansE_app; [apply scansE_if; apply fsubrows_scans|].
  apply scansE_app; [first [unitF1 (F_m12b_scans command Hp (start + F.st)) | unitF1 (F_m12b_scans command (start + F.st))]|].
  apply scansE_app0; [apply scansE_if0; unitF F_m13_scans command Hp|].
  apply scansE_app0; [apply scansE_if0; unitF F_m14_scans command Hp|].
  apply scansE_app0; [apply scansE_if0; unitF F_m15_scans command Hp|].
  apply scansE_app0; [unitF F_m16_scans command Hp|].
  apply scansE_app0; [apply (fblank_scans command)|].
  apply scansE_app; [apply fcompletion_scans|].
  apply scansE_app; [apply scansE_if; apply fsublevels_scans|].
  apply scansE_app; [first [unitF1 (F_m20_scans command Hp (t_maxlevel (a_main a))) | unitF1 (F_m20_scans command (t_maxlevel (a_main a)))]|].
  apply scansE_app0; [apply scansE_if0; unitF F_m21_scans command Hp|].
  apply scansE_app0; [apply scansE_if0; unitF F_m22_scans command Hp|].
  apply scansE_app; [unitF F_m23_scans command Hp|].
  apply scansE_app0; [unitF F_m24_scans command Hp|].
  unitF F_m25_scans command Hp.
Qed.

(** ** C07 on the whole script: the literal list and every description of the completion function read
    back to the texts of the tables *)
Lemma fish_script_constants command sig start nd a groups s :
  fname_ok command -> no_nl sig = true ->
  Forall (fun c => body_okG Fish c) (a_commands a) ->
  EmitFish.script command sig start nd a groups = Ok s ->
  In (SSet "literals" None (map (fun l : N * string * string => IStr (snd (fst l))) (t_literals (a_main a)))) (read_stmts Fish command s)
  /\ forall k d, In (k, d) (number_from 0 (descr_set (t_literals (a_main a)))) ->
                 In (SSet "descrs" (Some (k + 1)) [IStr d]) (read_stmts Fish command s).
Proof.
  intros Hc Hsig Hb H. destruct (fish_script_read _ _ _ _ _ _ _ Hc Hsig Hb H) as [sts [Hs ->]].
  unfold fscript_stmts in Hs.
  apply obind_ok' in Hs. destruct Hs as [gs [_ Hs]]. apply obind_ok' in Hs. destruct Hs as [rows [_ Hs]].
  assert (E : forall X Y, Ok X = Ok Y :> res (list stmt) -> X = Y) by (intros X Y HH; congruence).
  apply E in Hs. subst sts. clear E.
  assert (Hin : forall x, In x (flits_stmts false (t_literals (a_main a))) -> In x
            (fcmd_fns_stmts command (number_from 0 (a_commands a)) ++ gs ++ match_fn_stmts ++
             (if n_subwords nd then fsub_fn_stmts command else []) ++
             [SFunc ("_" ++ command)%string] ++ [SSet "COMP_WORDS" None []] ++
             [SSet "descrs" None []; SSet "descr_literal_ids" None []] ++
             flits_stmts false (t_literals (a_main a)) ++
             [SSet "literal_transitions_inputs" None []; SSet "command_transitions" None [];
              SSet "star_transitions_from" None []; SSet "star_transitions_to" None []] ++
             fmatch_stmts false (a_main a) ++ (if n_subwords nd then fsubrow_stmts rows else []) ++
             [SSet "state" None [INum (start + F.st)]; SSet "word_index" None [INum 2]] ++
             fcompletion_stmts false (a_main a) ++ (if n_subwords nd then fsublevel_stmts (a_csub a) else []) ++
             [SSet "fallback_level" None [INum 0]] ++ [SEnd] ++ [SRegister [("_" ++ command)%string; command]])).
  { intros x Hx. do 7 (apply in_or_app; right). apply in_or_app. left. exact Hx. }
  split.
  - apply Hin. left. reflexivity.
  - intros k d Hkd. apply Hin. right. apply in_or_app. left.
    apply (in_map (fun id : N * string => SSet "descrs" (Some (fst id + 1)) [IStr (snd id)]) _ (k, d) Hkd).
Qed.
