(** C07: what [make_string_constant] writes is read back verbatim by the target shell.

    1. a replace chain whose patterns are single characters acts characterwise, whatever the
       replacements are ([chain_charwise]) -- so the image of a string is determined by the
       images [img c] of the 256 bytes;
    2. generic induction ([body_rt]): if every byte followed by its successor (or by the end of
       the string) reads back -- [pair_ok], a decidable condition on (byte, next byte) -- then the
       whole constant reads back;
    3. per shell, one closed computation over 256 x 257 pairs ([table_ok sh = true]) shows that
       [pair_ok] holds outside the hazard class of ShellDQ.v. *)
From CG Require Import Base.Prelude Model.Ast Model.Quote Spec.ShellDQ.
From CGgen Require Import Consts.

(** ** strings *)
Lemma append_assoc (a b c : string) : append (append a b) c = append a (append b c).
Proof. induction a; cbn; congruence. Qed.

Lemma append_nil_r (a : string) : append a EmptyString = a.
Proof. induction a; cbn; congruence. Qed.

Fixpoint cmap (f : ascii -> string) (s : string) : string :=
  match s with
  | EmptyString => EmptyString
  | String c t => append (f c) (cmap f t)
  end.

Lemma cmap_app f a b : cmap f (append a b) = append (cmap f a) (cmap f b).
Proof. induction a; cbn; [reflexivity|]. rewrite IHa, append_assoc. reflexivity. Qed.

Lemma cmap_cmap f g s : cmap f (cmap g s) = cmap (fun c => cmap f (g c)) s.
Proof. induction s; cbn; [reflexivity|]. rewrite cmap_app, IHs. reflexivity. Qed.

Lemma cmap_ext f g s : (forall c, f c = g c) -> cmap f s = cmap g s.
Proof. intros H. induction s; cbn; [reflexivity|]. rewrite H, IHs. reflexivity. Qed.

Lemma cmap_id s : cmap (fun c => String c EmptyString) s = s.
Proof. induction s; cbn; congruence. Qed.

(** ** 1. single-character replace chains act characterwise *)
Definition rep1 (p : ascii) (r : string) (c : ascii) : string :=
  if Ascii.eqb p c then r else String c EmptyString.

Lemma replace_single p r s : replace_all (String p EmptyString) r s = cmap (rep1 p r) s.
Proof.
  unfold replace_all. induction s as [|c t IH]; [reflexivity|].
  cbn [replace_go is_prefix cmap String.length]. unfold rep1 at 1.
  destruct (Ascii.eqb p c).
  - rewrite IH. reflexivity.
  - rewrite IH. reflexivity.
Qed.

Definition single_patterns (chn : list (string * string)) : bool :=
  forallb (fun pr => match fst pr with String _ EmptyString => true | _ => false end) chn.

Definition img (chn : list (string * string)) (c : ascii) : string :=
  apply_chain chn (String c EmptyString).

Lemma apply_chain_cons p r chn s :
  apply_chain ((p, r) :: chn) s = apply_chain chn (replace_all p r s).
Proof. reflexivity. Qed.

Lemma chain_charwise chn :
  single_patterns chn = true -> forall s, apply_chain chn s = cmap (img chn) s.
Proof.
  induction chn as [|[p r] chn IH]; intros Hs s.
  - unfold img. cbn. symmetry. apply cmap_id.
  - cbn [single_patterns forallb fst] in Hs. apply andb_prop in Hs. destruct Hs as [Hp Hs].
    destruct p as [|a [|? ?]]; try discriminate.
    rewrite apply_chain_cons, replace_single, (IH Hs), cmap_cmap.
    apply cmap_ext. intros c. unfold img at 2.
    rewrite apply_chain_cons, replace_single, (IH Hs). cbn [cmap].
    rewrite append_nil_r. reflexivity.
Qed.

(** ** 2. the generic round trip *)
Definition imgc (sh : shell) (c : ascii) : string := img (chain sh) c.

Definition action_eqb (a b : action) : bool :=
  match a, b with
  | Emit1 x, Emit1 y | Emit2 x, Emit2 y => Ascii.eqb x y
  | Skip2, Skip2 | Close1, Close1 | Close3, Close3 | Expands, Expands | Unsupported, Unsupported => true
  | _, _ => false
  end.

Lemma action_eqb_eq a b : action_eqb a b = true -> a = b.
Proof.
  destruct a, b; cbn; intros H; try discriminate; try reflexivity;
    apply Ascii.eqb_eq in H; congruence.
Qed.

(** the first byte written after byte [c] when [o] follows it in the original string *)
Definition follower (sh : shell) (o : option ascii) : option ascii :=
  match o with Some c' => shd (imgc sh c') | None => Some c_dq end.

(** the only place where the reader looks two bytes ahead *)
Definition needs3 (sh : shell) (a : ascii) (n1 : option ascii) : bool :=
  match sh with
  | Pwsh => Ascii.eqb a (ch 226) && match n1 with Some d => Ascii.eqb d (ch 128) | None => false end
  | _ => false
  end.

Definition pair_ok (sh : shell) (c : ascii) (o : option ascii) : bool :=
  match follower sh o with
  | None => false
  | Some nx =>
      match imgc sh c with
      | String a EmptyString =>
          action_eqb (classify sh a (Some nx) None) (Emit1 c) && negb (needs3 sh a (Some nx))
      | String a (String b EmptyString) =>
          action_eqb (classify sh a (Some b) None) (Emit2 c) && negb (needs3 sh a (Some b))
      | _ => false
      end
  end.

Lemma classify_indep sh a n1 n2 n2' :
  needs3 sh a n1 = false -> classify sh a n1 n2 = classify sh a n1 n2'.
Proof.
  destruct sh; try reflexivity. cbn [needs3 classify]. unfold classify_pwsh. intros H.
  destruct (Ascii.eqb a (ch 226)); [|reflexivity]. cbn [andb] in H.
  unfold is_smart_quote_tail. destruct n1 as [d|]; [|reflexivity]. rewrite H.
  destruct n2, n2'; reflexivity.
Qed.

Lemma close_ok sh rest :
  safe sh rest = true -> classify sh c_dq (shd rest) (shd (stl rest)) = Close1.
Proof.
  destruct sh; try reflexivity. cbn [safe classify]. unfold classify_pwsh.
  change (Ascii.eqb c_dq (ch 226)) with false. change (Ascii.eqb c_dq c_dq) with true. cbn iota.
  destruct (shd rest) as [d|]; [|reflexivity]. intros H. apply negb_true_iff in H. rewrite H. reflexivity.
Qed.

Lemma shd_append_ne a b x : shd a = Some x -> shd (append a b) = Some x.
Proof. destruct a; cbn; congruence. Qed.

Lemma emit_some c s rest : emit c (Some (s, rest)) = Some (String c s, rest).
Proof. reflexivity. Qed.

Lemma body_rt sh :
  (forall c o, hazard sh c o = false -> pair_ok sh c o = true) ->
  forall s rest, admissibleb sh s = true -> safe sh rest = true ->
    read_body sh (append (cmap (imgc sh) s) (String c_dq rest)) = Some (s, rest).
Proof.
  intros Hpairs s rest. induction s as [|c t IH]; intros Hadm Hsafe.
  - cbn [cmap append read_body]. rewrite (close_ok sh rest Hsafe). reflexivity.
  - cbn [admissibleb] in Hadm. apply andb_prop in Hadm. destruct Hadm as [Hh Hadm].
    apply negb_true_iff in Hh. specialize (IH Hadm Hsafe).
    pose proof (Hpairs c (shd t) Hh) as Hp. unfold pair_ok in Hp.
    set (K := append (cmap (imgc sh) t) (String c_dq rest)) in *.
    destruct (follower sh (shd t)) as [nx|] eqn:Hf; [|discriminate].
    assert (HK : shd K = Some nx).
    { unfold K. destruct t as [|c' t'].
      - cbn in Hf |- *. exact Hf.
      - cbn [shd follower] in Hf. cbn [cmap]. rewrite append_assoc. apply shd_append_ne. exact Hf. }
    cbn [cmap]. rewrite append_assoc. fold K.
    destruct (imgc sh c) as [|a [|b [|? ?]]]; try discriminate.
    + apply andb_prop in Hp. destruct Hp as [Ha Hn]. apply negb_true_iff in Hn.
      apply action_eqb_eq in Ha.
      cbn [append read_body]. rewrite HK.
      rewrite (classify_indep sh a (Some nx) _ None Hn), Ha, IH. reflexivity.
    + apply andb_prop in Hp. destruct Hp as [Ha Hn]. apply negb_true_iff in Hn.
      apply action_eqb_eq in Ha.
      cbn [append read_body shd stl].
      rewrite (classify_indep sh a (Some b) _ None Hn), Ha, IH. reflexivity.
Qed.

(** ** 3. the closed side condition *)
Definition all_bytes : list ascii := map ascii_of_nat (seq 0 256).
Definition all_followers : list (option ascii) := None :: map Some all_bytes.

Lemma all_bytes_complete c : In c all_bytes.
Proof.
  unfold all_bytes. rewrite <- (ascii_nat_embedding c). apply in_map. apply in_seq.
  pose proof (nat_ascii_bounded c). lia.
Qed.

Lemma all_followers_complete o : In o all_followers.
Proof.
  destruct o as [c|]; [right; apply in_map; apply all_bytes_complete | left; reflexivity].
Qed.

Definition dq_string : string := String c_dq EmptyString.

Definition shape_ok (sh : shell) : bool :=
  single_patterns (chain sh) && String.eqb (quote_open sh) dq_string && String.eqb (quote_close sh) dq_string.

Definition pairs_table_ok (sh : shell) : bool :=
  forallb (fun c => forallb (fun o => implb (negb (hazard sh c o)) (pair_ok sh c o)) all_followers) all_bytes.

Definition table_ok (sh : shell) : bool := shape_ok sh && pairs_table_ok sh.

Lemma pairs_table_sound sh :
  pairs_table_ok sh = true -> forall c o, hazard sh c o = false -> pair_ok sh c o = true.
Proof.
  intros H c o Hh. unfold pairs_table_ok in H. rewrite forallb_forall in H.
  specialize (H c (all_bytes_complete c)). rewrite forallb_forall in H.
  specialize (H o (all_followers_complete o)). rewrite Hh in H. exact H.
Qed.

Theorem quote_roundtrip_generic sh :
  table_ok sh = true ->
  forall s rest, admissible sh s -> safe sh rest = true ->
    read sh (append (make_string_constant sh s) rest) = Some (s, rest).
Proof.
  intros Ht s rest Hadm Hsafe. unfold table_ok in Ht. apply andb_prop in Ht. destruct Ht as [Hshape Hpairs].
  unfold shape_ok in Hshape. apply andb_prop in Hshape. destruct Hshape as [Hshape Hc].
  apply andb_prop in Hshape. destruct Hshape as [Hsingle Ho].
  apply String.eqb_eq in Ho. apply String.eqb_eq in Hc.
  unfold make_string_constant. rewrite Ho, Hc, (chain_charwise _ Hsingle).
  unfold dq_string. cbn [append read]. change (Ascii.eqb c_dq c_dq) with true. cbn iota.
  rewrite append_assoc. cbn [append].
  apply (body_rt sh (pairs_table_sound sh Hpairs)); assumption.
Qed.

Lemma table_ok_bash : table_ok Bash = true. Proof. vm_compute. reflexivity. Qed.
Lemma table_ok_fish : table_ok Fish = true. Proof. vm_compute. reflexivity. Qed.
Lemma table_ok_zsh : table_ok Zsh = true. Proof. vm_compute. reflexivity. Qed.
Lemma table_ok_pwsh : table_ok Pwsh = true. Proof. vm_compute. reflexivity. Qed.

Lemma table_ok_all sh : table_ok sh = true.
Proof. destruct sh; [apply table_ok_bash | apply table_ok_fish | apply table_ok_zsh | apply table_ok_pwsh]. Qed.

Theorem quote_roundtrip :
  forall sh s rest, admissible sh s -> safe sh rest = true ->
    read sh (append (make_string_constant sh s) rest) = Some (s, rest).
Proof. intros sh. apply quote_roundtrip_generic, table_ok_all. Qed.

(** Every string is admissible for bash (since 90236c3), fish and zsh. *)
Lemma admissible_fish s : admissible Fish s.
Proof. unfold admissible. induction s; cbn; auto. Qed.
Lemma admissible_zsh s : admissible Zsh s.
Proof. unfold admissible. induction s; cbn; auto. Qed.

Lemma admissible_bash s : admissible Bash s.
Proof. unfold admissible. induction s; cbn; auto. Qed.
