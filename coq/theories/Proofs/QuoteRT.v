(** C07: what [make_string_constant] writes is read back verbatim by the target shell.

    1. a replace chain whose patterns are single characters acts characterwise, whatever the
       replacements are ([chain_charwise]) -- so the image of a string is determined by the
       images [img c] of the 256 bytes;
    2. generic induction ([body_rt]): if every byte followed by its successor (or by the end of
       the string) reads back -- [pair_ok], a decidable condition on (byte, next byte) -- then the
       whole constant reads back;
    3. per shell, one closed computation over 256 x 257 pairs ([table_ok sh = true]) shows that
       [pair_ok] holds outside the hazard class of ShellDQ.v. *)
From CG Require Import Base.Prelude Model.Ast Model.Quote Spec.ShellDQ.
From CGgen Require Import Consts.

(** ** strings *)
Lemma append_assoc (a b c : string) : append (append a b) c = append a (append b c).
Proof. induction a; cbn; congruence. Qed.

Lemma append_nil_r (a : string) : append a EmptyString = a.
Proof. induction a; cbn; congruence. Qed.

Fixpoint cmap (f : ascii -> string) (s : string) : string :=
  match s with
  | EmptyString => EmptyString
  | String c t => append (f c) (cmap f t)
  end.

Lemma cmap_app f a b : cmap f (append a b) = append (cmap f a) (cmap f b).
Proof. induction a; cbn; [reflexivity|]. rewrite IHa, append_assoc. reflexivity. Qed.

Lemma cmap_cmap f g s : cmap f (cmap g s) = cmap (fun c => cmap f (g c)) s.
Proof. induction s; cbn; [reflexivity|]. rewrite cmap_app, IHs. reflexivity. Qed.

Lemma cmap_ext f g s : (forall c, f c = g c) -> cmap f s = cmap g s.
Proof. intros H. induction s; cbn; [reflexivity|]. rewrite H, IHs. reflexivity. Qed.

Lemma cmap_id s : cmap (fun c => String c EmptyString) s = s.
Proof. induction s; cbn; congruence. Qed.

(** ** 1. single-character replace chains act characterwise *)
Definition rep1 (p : ascii) (r : string) (c : ascii) : string :=
  if Ascii.eqb p c then r else String c EmptyString.

Lemma replace_single p r s : replace_all (String p EmptyString) r s = cmap (rep1 p r) s.
Proof.
  unfold replace_all. induction s as [|c t IH]; [reflexivity|].
  cbn [replace_go is_prefix cmap String.length]. unfold rep1 at 1.
  destruct (Ascii.eqb p c).
  - rewrite IH. reflexivity.
  - rewrite IH. reflexivity.
Qed.

Definition single_patterns (chn : list (string * string)) : bool :=
  forallb (fun pr => match fst pr with String _ EmptyString => true | _ => false end) chn.

Definition img (chn : list (string * string)) (c : ascii) : string :=
  apply_chain chn (String c EmptyString).

Lemma apply_chain_cons p r chn s :
  apply_chain ((p, r) :: chn) s = apply_chain chn (replace_all p r s).
Proof. reflexivity. Qed.

Lemma chain_charwise chn :
  single_patterns chn = true -> forall s, apply_chain chn s = cmap (img chn) s.
Proof.
  induction chn as [|[p r] chn IH]; intros Hs s.
  - unfold img. cbn. symmetry. apply cmap_id.
  - cbn [single_patterns forallb fst] in Hs. apply andb_prop in Hs. destruct Hs as [Hp Hs].
    destruct p as [|a [|? ?]]; try discriminate.
    rewrite apply_chain_cons, replace_single, (IH Hs), cmap_cmap.
    apply cmap_ext. intros c. unfold img at 2.
    rewrite apply_chain_cons, replace_single, (IH Hs). cbn [cmap].
    rewrite append_nil_r. reflexivity.
Qed.

(** ** 2. the generic round trip *)
Definition imgc (sh : shell) (c : ascii) : string := img (chain sh) c.

Definition action_eqb (a b : action) : bool :=
  match a, b with
  | Emit1 x, Emit1 y | Emit2 x, Emit2 y => Ascii.eqb x y
  | Skip2, Skip2 | Close1, Close1 | Close3, Close3 | Expands, Expands | Unsupported, Unsupported => true
  | _, _ => false
  end.

Lemma action_eqb_eq a b : action_eqb a b = true -> a = b.
Proof.
  destruct a, b; cbn; intros H; try discriminate; try reflexivity;
    apply Ascii.eqb_eq in H; congruence.
Qed.

(** the first byte written after byte [c] when [o] follows it in the original string *)
Definition follower (sh : shell) (o : option ascii) : option ascii :=
  match o with Some c' => shd (imgc sh c') | None => Some c_dq end.

(** the only place where the reader looks two bytes ahead *)
Definition needs3 (sh : shell) (a : ascii) (n1 : option ascii) : bool :=
  match sh with
  | Pwsh => Ascii.eqb a (ch 226) && match n1 with Some d => Ascii.eqb d (ch 128) | None => false end
  | _ => false
  end.

Definition pair_ok (sh : shell) (c : ascii) (o : option ascii) : bool :=
  match follower sh o with
  | None => false
  | Some nx =>
      match imgc sh c with
      | String a EmptyString =>
          action_eqb (classify sh a (Some nx) None) (Emit1 c) && negb (needs3 sh a (Some nx))
      | String a (String b EmptyString) =>
          action_eqb (classify sh a (Some b) None) (Emit2 c) && negb (needs3 sh a (Some b))
      | _ => false
      end
  end.

Lemma classify_indep sh a n1 n2 n2' :
  needs3 sh a n1 = false -> classify sh a n1 n2 = classify sh a n1 n2'.
Proof.
  destruct sh; try reflexivity. cbn [needs3 classify]. unfold classify_pwsh. intros H.
  destruct (Ascii.eqb a (ch 226)); [|reflexivity]. cbn [andb] in H.
  unfold is_smart_quote_tail. destruct n1 as [d|]; [|reflexivity]. rewrite H.
  destruct n2, n2'; reflexivity.
Qed.

Lemma close_ok sh rest :
  safe sh rest = true -> classify sh c_dq (shd rest) (shd (stl rest)) = Close1.
Proof.
  destruct sh; try reflexivity. cbn [safe classify]. unfold classify_pwsh.
  change (Ascii.eqb c_dq (ch 226)) with false. change (Ascii.eqb c_dq c_dq) with true. cbn iota.
  destruct (shd rest) as [d|]; [|reflexivity]. intros H. apply negb_true_iff in H. rewrite H. reflexivity.
Qed.

Lemma shd_append_ne a b x : shd a = Some x -> shd (append a b) = Some x.
Proof. destruct a; cbn; congruence. Qed.

Lemma emit_some c s rest : emit c (Some (s, rest)) = Some (String c s, rest).
Proof. reflexivity. Qed.

(** one step of the round trip: a byte whose pair with its successor is fine *)
Lemma body_step sh c t rest :
  pair_ok sh c (shd t) = true ->
  read_body sh (append (cmap (imgc sh) t) (String c_dq rest)) = Some (t, rest) ->
  read_body sh (append (cmap (imgc sh) (String c t)) (String c_dq rest)) = Some (String c t, rest).
Proof.
  intros Hp IH. unfold pair_ok in Hp.
  set (K := append (cmap (imgc sh) t) (String c_dq rest)) in *.
  destruct (follower sh (shd t)) as [nx|] eqn:Hf; [|discriminate].
  assert (HK : shd K = Some nx).
  { unfold K. destruct t as [|c' t'].
    - cbn in Hf |- *. exact Hf.
    - cbn [shd follower] in Hf. cbn [cmap]. rewrite append_assoc. apply shd_append_ne. exact Hf. }
  cbn [cmap]. rewrite append_assoc. fold K.
  destruct (imgc sh c) as [|a [|b [|? ?]]]; try discriminate.
  + apply andb_prop in Hp. destruct Hp as [Ha Hn]. apply negb_true_iff in Hn.
    apply action_eqb_eq in Ha.
    cbn [append read_body]. rewrite HK.
    rewrite (classify_indep sh a (Some nx) _ None Hn), Ha, IH. reflexivity.
  + apply andb_prop in Hp. destruct Hp as [Ha Hn]. apply negb_true_iff in Hn.
    apply action_eqb_eq in Ha.
    cbn [append read_body shd stl].
    rewrite (classify_indep sh a (Some b) _ None Hn), Ha, IH. reflexivity.
Qed.

(** the same step in front of any text [K] whose first byte is the expected follower *)
Lemma body_step_gen sh c o K t rest :
  pair_ok sh c o = true -> shd K = follower sh o ->
  read_body sh K = Some (t, rest) ->
  read_body sh (append (imgc sh c) K) = Some (String c t, rest).
Proof.
  intros Hp HK IH. unfold pair_ok in Hp.
  destruct (follower sh o) as [nx|] eqn:Hf; [|discriminate].
  destruct (imgc sh c) as [|a [|b [|? ?]]]; try discriminate.
  + apply andb_prop in Hp. destruct Hp as [Ha Hn]. apply negb_true_iff in Hn.
    apply action_eqb_eq in Ha.
    cbn [append read_body]. rewrite HK.
    rewrite (classify_indep sh a (Some nx) _ None Hn), Ha, IH. reflexivity.
  + apply andb_prop in Hp. destruct Hp as [Ha Hn]. apply negb_true_iff in Hn.
    apply action_eqb_eq in Ha.
    cbn [append read_body shd stl].
    rewrite (classify_indep sh a (Some b) _ None Hn), Ha, IH. reflexivity.
Qed.

Lemma body_rt sh :
  (forall c o, hazard sh c o = false -> pair_ok sh c o = true) ->
  forall s rest, admissibleb sh s = true -> safe sh rest = true ->
    read_body sh (append (cmap (imgc sh) s) (String c_dq rest)) = Some (s, rest).
Proof.
  intros Hpairs s rest. induction s as [|c t IH]; intros Hadm Hsafe.
  - cbn [cmap append read_body]. rewrite (close_ok sh rest Hsafe). reflexivity.
  - cbn [admissibleb] in Hadm. apply andb_prop in Hadm. destruct Hadm as [Hh Hadm].
    apply negb_true_iff in Hh. apply body_step; [apply Hpairs; exact Hh | apply IH; assumption].
Qed.

(** ** 3. the closed side condition *)
Definition all_bytes : list ascii := map ascii_of_nat (seq 0 256).
Definition all_followers : list (option ascii) := None :: map Some all_bytes.

Lemma all_bytes_complete c : In c all_bytes.
Proof.
  unfold all_bytes. rewrite <- (ascii_nat_embedding c). apply in_map. apply in_seq.
  pose proof (nat_ascii_bounded c). lia.
Qed.

Lemma all_followers_complete o : In o all_followers.
Proof.
  destruct o as [c|]; [right; apply in_map; apply all_bytes_complete | left; reflexivity].
Qed.

Definition dq_string : string := String c_dq EmptyString.

Definition shape_ok (sh : shell) : bool :=
  single_patterns (chain sh) && String.eqb (quote_open sh) dq_string && String.eqb (quote_close sh) dq_string.

Definition pairs_table_ok (sh : shell) : bool :=
  forallb (fun c => forallb (fun o => implb (negb (hazard sh c o)) (pair_ok sh c o)) all_followers) all_bytes.

Definition table_ok (sh : shell) : bool := shape_ok sh && pairs_table_ok sh.

Lemma pairs_table_sound sh :
  pairs_table_ok sh = true -> forall c o, hazard sh c o = false -> pair_ok sh c o = true.
Proof.
  intros H c o Hh. unfold pairs_table_ok in H. rewrite forallb_forall in H.
  specialize (H c (all_bytes_complete c)). rewrite forallb_forall in H.
  specialize (H o (all_followers_complete o)). rewrite Hh in H. exact H.
Qed.

Theorem quote_roundtrip_generic sh :
  table_ok sh = true ->
  forall s rest, admissible sh s -> safe sh rest = true ->
    read sh (append (make_string_constant sh s) rest) = Some (s, rest).
Proof.
  intros Ht s rest Hadm Hsafe. unfold table_ok in Ht. apply andb_prop in Ht. destruct Ht as [Hshape Hpairs].
  unfold shape_ok in Hshape. apply andb_prop in Hshape. destruct Hshape as [Hshape Hc].
  apply andb_prop in Hshape. destruct Hshape as [Hsingle Ho].
  apply String.eqb_eq in Ho. apply String.eqb_eq in Hc.
  unfold make_string_constant. rewrite Ho, Hc, (chain_charwise _ Hsingle).
  unfold dq_string. cbn [append read]. change (Ascii.eqb c_dq c_dq) with true. cbn iota.
  rewrite append_assoc. cbn [append].
  apply (body_rt sh (pairs_table_sound sh Hpairs)); assumption.
Qed.

Lemma table_ok_bash : table_ok Bash = true. Proof. vm_compute. reflexivity. Qed.
Lemma table_ok_fish : table_ok Fish = true. Proof. vm_compute. reflexivity. Qed.
Lemma table_ok_zsh : table_ok Zsh = true. Proof. vm_compute. reflexivity. Qed.
Lemma table_ok_pwsh : table_ok Pwsh = true. Proof. vm_compute. reflexivity. Qed.

Lemma table_ok_all sh : table_ok sh = true.
Proof. destruct sh; [apply table_ok_bash | apply table_ok_fish | apply table_ok_zsh | apply table_ok_pwsh]. Qed.

Theorem quote_roundtrip :
  forall sh s rest, admissible sh s -> safe sh rest = true ->
    read sh (append (make_string_constant sh s) rest) = Some (s, rest).
Proof. intros sh. apply quote_roundtrip_generic, table_ok_all. Qed.

(** Every string is admissible for bash (since 90236c3), fish and zsh. *)
Lemma admissible_fish s : admissible Fish s.
Proof. unfold admissible. induction s; cbn; auto. Qed.
Lemma admissible_zsh s : admissible Zsh s.
Proof. unfold admissible. induction s; cbn; auto. Qed.

Lemma admissible_bash s : admissible Bash s.
Proof. unfold admissible. induction s; cbn; auto. Qed.

(** ** pwsh, exactly: every string without a smart double quote (U+201C, U+201D, U+201E) reads back.
    The pair table covers every byte pair except (E2, 80); that pair is harmless unless the third byte
    is 9C, 9D or 9E, and the first byte written for any byte is a smart-quote tail only if the byte
    itself is one. *)
Lemma read_body_unfold sh c t :
  read_body sh (String c t) =
  match classify sh c (shd t) (shd (stl t)) with
  | Emit1 x => emit x (read_body sh t)
  | Emit2 x => match t with String _ t' => emit x (read_body sh t') | EmptyString => None end
  | Skip2 => match t with String _ t' => read_body sh t' | EmptyString => None end
  | Close1 => Some (EmptyString, t)
  | Close3 => match t with String _ (String _ t'') => Some (EmptyString, t'') | _ => None end
  | Expands => None
  | Unsupported => None
  end.
Proof. reflexivity. Qed.

Definition smart_tail_bytes : list ascii := [ch 156; ch 157; ch 158].

Definition pwsh_heads_ok : bool :=
  forallb (fun c => match shd (imgc Pwsh c) with
                    | Some h => implb (is_one_of h smart_tail_bytes) (is_one_of c smart_tail_bytes)
                    | None => false
                    end) all_bytes
  && String.eqb (imgc Pwsh (ch 226)) (String (ch 226) EmptyString)
  && String.eqb (imgc Pwsh (ch 128)) (String (ch 128) EmptyString).

Lemma pwsh_heads_ok_true : pwsh_heads_ok = true.
Proof. vm_compute. reflexivity. Qed.

Lemma pwsh_exact_core (f : ascii -> string) :
  (forall c t rest, hazard Pwsh c (shd t) = false ->
     read_body Pwsh (append (cmap f t) (String c_dq rest)) = Some (t, rest) ->
     read_body Pwsh (append (cmap f (String c t)) (String c_dq rest)) = Some (String c t, rest)) ->
  f (ch 226) = String (ch 226) EmptyString -> f (ch 128) = String (ch 128) EmptyString ->
  (forall c, match shd (f c) with
             | Some h => implb (is_one_of h smart_tail_bytes) (is_one_of c smart_tail_bytes) = true
             | None => False
             end) ->
  forall s rest, smart_free s = true -> safe Pwsh rest = true ->
    read_body Pwsh (append (cmap f s) (String c_dq rest)) = Some (s, rest).
Proof.
  intros Hstep HE2 H80 Hheads s rest Hs Hsafe.
  induction s as [|c t IH].
  - cbn [cmap append]. rewrite read_body_unfold, (close_ok Pwsh rest Hsafe). reflexivity.
  - cbn [smart_free] in Hs. apply andb_prop in Hs. destruct Hs as [Hc0 Hs]. specialize (IH Hs).
    destruct (hazard Pwsh c (shd t)) eqn:Hz; [|apply Hstep; assumption].
    cbn [hazard] in Hz. apply andb_prop in Hz. destruct Hz as [Hc1 Hz].
    apply Ascii.eqb_eq in Hc1. subst c. destruct t as [|d t1]; [discriminate Hz|]. cbn [shd] in Hz.
    apply Ascii.eqb_eq in Hz. subst d.
    cbn [cmap] in IH |- *. rewrite HE2. rewrite H80 in IH |- *. cbn [append] in IH |- *.
    rewrite read_body_unfold. cbn [shd stl classify]. unfold classify_pwsh at 1. rewrite Ascii.eqb_refl. cbn iota.
    assert (Hn : is_smart_quote_tail (Some (ch 128)) (shd (append (cmap f t1) (String c_dq rest))) = false).
    { rewrite Ascii.eqb_refl in Hc0. cbn [andb shd stl] in Hc0. apply negb_true_iff in Hc0.
      unfold is_smart_quote_tail in *. rewrite Ascii.eqb_refl in *. cbn [andb] in *.
      destruct t1 as [|c1 t2]; [reflexivity|].
      cbn [shd] in Hc0. cbn [cmap]. rewrite append_assoc.
      specialize (Hheads c1). destruct (f c1) as [|h tl]; [destruct Hheads|]. cbn [shd append] in *.
      fold smart_tail_bytes in *. destruct (is_one_of h smart_tail_bytes); [|reflexivity].
      cbn [implb] in Hheads. congruence. }
    rewrite Hn, IH. reflexivity.
Qed.

(** from the body to the whole constant, for any shell whose chain and delimiters pass [shape_ok] *)
Lemma roundtrip_from_body sh (P : string -> Prop) :
  shape_ok sh = true ->
  (forall s rest, P s -> safe sh rest = true ->
     read_body sh (append (cmap (imgc sh) s) (String c_dq rest)) = Some (s, rest)) ->
  forall s rest, P s -> safe sh rest = true ->
    read sh (append (make_string_constant sh s) rest) = Some (s, rest).
Proof.
  intros Hshape Hbody s rest Hp Hsafe.
  unfold shape_ok in Hshape. apply andb_prop in Hshape. destruct Hshape as [Hshape Hc].
  apply andb_prop in Hshape. destruct Hshape as [Hsingle Ho].
  apply String.eqb_eq in Ho. apply String.eqb_eq in Hc.
  unfold make_string_constant. rewrite Ho, Hc, (chain_charwise _ Hsingle).
  unfold dq_string. cbn [append read]. change (Ascii.eqb c_dq c_dq) with true. cbn iota.
  rewrite append_assoc. cbn [append]. apply Hbody; assumption.
Qed.

Lemma pwsh_shape_ok : shape_ok Pwsh = true.
Proof. vm_compute. reflexivity. Qed.

Lemma pwsh_pairs_ok : pairs_table_ok Pwsh = true.
Proof. vm_compute. reflexivity. Qed.

Lemma pwsh_img_E2 : imgc Pwsh (ch 226) = String (ch 226) EmptyString.
Proof. vm_compute. reflexivity. Qed.
Lemma pwsh_img_80 : imgc Pwsh (ch 128) = String (ch 128) EmptyString.
Proof. vm_compute. reflexivity. Qed.

Lemma pwsh_heads c :
  match shd (imgc Pwsh c) with
  | Some h => implb (is_one_of h smart_tail_bytes) (is_one_of c smart_tail_bytes) = true
  | None => False
  end.
Proof.
  pose proof pwsh_heads_ok_true as Hh. unfold pwsh_heads_ok in Hh.
  apply andb_prop in Hh. destruct Hh as [Hh _]. apply andb_prop in Hh. destruct Hh as [Hheads _].
  rewrite forallb_forall in Hheads. specialize (Hheads c (all_bytes_complete c)).
  destruct (shd (imgc Pwsh c)); [exact Hheads | discriminate].
Qed.

Lemma pwsh_step c t rest :
  hazard Pwsh c (shd t) = false ->
  read_body Pwsh (append (cmap (imgc Pwsh) t) (String c_dq rest)) = Some (t, rest) ->
  read_body Pwsh (append (cmap (imgc Pwsh) (String c t)) (String c_dq rest)) = Some (String c t, rest).
Proof. intros Hz IH. apply body_step; [|exact IH]. apply (pairs_table_sound Pwsh pwsh_pairs_ok). exact Hz. Qed.

Theorem pwsh_roundtrip_exact s rest :
  smart_free s = true -> safe Pwsh rest = true ->
  read Pwsh (append (make_string_constant Pwsh s) rest) = Some (s, rest).
Proof.
  apply (roundtrip_from_body Pwsh (fun s => smart_free s = true) pwsh_shape_ok).
  exact (pwsh_exact_core (imgc Pwsh) pwsh_step pwsh_img_E2 pwsh_img_80 pwsh_heads).
Qed.
