(** Layer (c), part 3: the within-word function of the script, in matching mode, decides
    [Spec.Meaning.waccepts].

    Setting: a within-word automaton [sd] whose language (over inputs) is the language of a
    within-word expression [x] of the specification ([gsim ... (d_start sd) [x]]), whose pieces are
    non-empty literals, inside the decided domain ([word_in_domain x]); [Tw] are the tables
    computed from [sd].  Then every state of [sd] corresponds to a point reachable inside the word
    ([all_wrelated]); the literal entries of the tables at a state are the literals expected at the
    point, their texts are non-empty and prefix-free, the same text leads to the same state; and
    [BashSem.subword_matches Repaired] returns [Spec.Meaning.waccepts]
    ([subword_matches_meaning]). *)
From CG Require Import Base.Prelude Model.Ast Model.Dfa Model.Tables Model.Glob Model.BashSem.
From CG Require Import Spec.Lang Spec.Rx Spec.Meaning Spec.DfaEquiv Spec.Domain.
From CG Require Import Proofs.RxFacts Proofs.MeaningFacts Proofs.TablesSound Proofs.LangBridge Proofs.DfaMeaning
     Proofs.DomainFacts Proofs.SimGen Proofs.TablesKeys Proofs.TableLookup Proofs.WordTokens Proofs.SubwordMatch
     Proofs.BashMeaningLit Proofs.SubwordComplete Proofs.LevelsFacts Proofs.SubwordFacts Proofs.StripFacts.

Lemma append_cancel_r a : forall b c, append a c = append b c -> a = b.
Proof.
  induction a as [| x a IH]; intros [| y b] c H; cbn [append] in H.
  - reflexivity.
  - exfalso. apply (f_equal String.length) in H. cbn [String.length] in H. rewrite length_append' in H. lia.
  - exfalso. apply (f_equal String.length) in H. cbn [String.length] in H. rewrite length_append' in H. lia.
  - inversion H as [[H1 H2]]. f_equal. eapply IH. exact H2.
Qed.

Lemma append_cancel_l a b c : append a b = append a c -> b = c.
Proof. intro H. apply (f_equal (Meaning.sdrop (String.length a))) in H. rewrite !sdrop_app in H. exact H. Qed.

Lemma prefix_app_self a b : String.prefix (append a b) a = true -> b = EmptyString.
Proof.
  intro H. apply prefix_split in H. rewrite append_assoc in H.
  assert (E : append a EmptyString = append a (append b (Meaning.sdrop (String.length (append a b)) a))) by (rewrite append_nil_r; exact H).
  apply append_cancel_l in E. destruct b; [reflexivity | discriminate].
Qed.

Lemma rpath_lit_word x ls x' : lit_word x -> rpath x ls x' -> lit_word x'.
Proof.
  intros L H. induction H as [r | r a k ls r' Hlf _ IH]; [exact L |]. apply IH. apply (lit_word_lf r a k L Hlf).
Qed.

Definition inp_of_wleaf (a : wleaf) : inp :=
  match a with WLit t d l => ILit t d l | WCmd c l => ICmd c l | WAny => IStar end.

Definition wnext_lit (w : string) (mv : list (wleaf * rx wleaf)) : list (rx wleaf) :=
  flat_map (fun ak => match fst ak with WLit t _ _ => if String.eqb t w then [snd ak] else [] | _ => [] end) mv.

Lemma wnext_lit_In w mv k : In k (wnext_lit w mv) <-> exists d l, In (WLit w d l, k) mv.
Proof.
  unfold wnext_lit. rewrite in_flat_map. split.
  - intros [[a k'] [Hin H]]. cbn [fst snd] in H. destruct a as [t d l | |]; try (destruct H; fail).
    destruct (String.eqb t w) eqn:E; [| destruct H]. apply String.eqb_eq in E. destruct H as [<- | []]. subst t. eauto.
  - intros [d [l Hin]]. exists (WLit w d l, k). split; [exact Hin |]. cbn [fst snd]. rewrite String.eqb_refl. left; reflexivity.
Qed.

Section WordSim.
  Variables (sd : dfa) (cmds : list string) (nc ncp ns : bool) (ord : list (string * string)) (Tw : tables)
            (x : rx wleaf).
  Hypothesis Hwf : dfa_wf sd.
  Hypothesis Hinp : NoDup (d_inputs sd).
  Hypothesis Htrim : trim sd.
  Hypothesis Hglt : get_lookup_tables sd cmds 0 nc ncp ns ord = Ok Tw.
  Hypothesis Hord : NoDup ord.
  Hypothesis Hvalid : valid_literal_order sd ord = true.
  Hypothesis Hsim0 : gsim inp_of_wleaf sd (d_start sd) [x].
  Hypothesis Hlw : lit_word x.
  Hypothesis Hz : zero_free x = true.
  Hypothesis Hdom : word_in_domain x.

  Record wrel (s : N) (S : list (rx wleaf)) : Prop := {
    wr_sim : gsim inp_of_wleaf sd s S;
    wr_z : forall k, In k S -> zero_free k = true;
    wr_leaves : forall k, In k S -> forall a, In a (leaves k) -> In a (leaves x);
    wr_reach : reach wsame_item [x] S
  }.

  Lemma wrel_start : wrel (d_start sd) [x].
  Proof.
    constructor.
    - exact Hsim0.
    - intros k [<- | []]. exact Hz.
    - intros k [<- | []] a Ha. exact Ha.
    - apply reach_here. intro k. reflexivity.
  Qed.

  Lemma targets_co s i t : Dfa.step sd s i = Some t -> coreachable sd t.
  Proof. intro H. destruct Htrim as [_ Hco]. apply Hco. apply (step_in_states sd s i t H). Qed.

  Lemma wtrans_is_item s S y t :
    wrel s S -> trans_on sd s y t -> exists w dso l k, y = ILit w dso l /\ In (WLit w dso l, k) (mvs S).
  Proof.
    intros R Htr.
    assert (H : exists a k, In (a, k) (mvs S) /\ inp_of_wleaf a = y).
    { apply (gsim_trans_iff inp_of_wleaf sd Hwf s S y (wr_sim _ _ R) (wr_z _ _ R)); [intros i t'; apply targets_co | eauto]. }
    destruct H as [a1 [k [Hin Ha]]].
    pose proof Hin as Hin'. apply mvs_In in Hin'. destruct Hin' as [r [Hr Hlf]].
    destruct (lf_leaves r a1 k Hlf) as [Hl _].
    destruct (Hlw a1 (wr_leaves _ _ R r Hr a1 Hl)) as [t1 [d1 [l1 [-> _]]]].
    cbn in Ha. subst y. exists t1, d1, l1, k. split; [reflexivity | exact Hin].
  Qed.

  Lemma witem_is_trans s S w dso l k :
    wrel s S -> In (WLit w dso l, k) (mvs S) -> exists t, trans_on sd s (ILit w dso l) t.
  Proof.
    intros R Hin.
    apply (gsim_trans_iff inp_of_wleaf sd Hwf s S (ILit w dso l) (wr_sim _ _ R) (wr_z _ _ R)); [intros i t'; apply targets_co |].
    exists (WLit w dso l), k. split; [exact Hin | reflexivity].
  Qed.

  Lemma wsame_label s S w d1 l1 k1 d2 l2 k2 :
    wrel s S -> In (WLit w d1 l1, k1) (mvs S) -> In (WLit w d2 l2, k2) (mvs S) -> d1 = d2 /\ l1 = l2.
  Proof.
    intros R H1 H2. destruct Hdom as [_ [_ Hp]]. apply (proj1 (Hp S (wr_reach _ _ R)) w d1 l1 d2 l2 k1 k2); assumption.
  Qed.

  Lemma wrel_trans s S w dso lvl t :
    wrel s S -> trans_on sd s (ILit w dso lvl) t -> wrel t (wnext_lit w (mvs S)).
  Proof.
    intros R Htr. destruct (wtrans_is_item s S _ t R Htr) as [w' [dso' [l' [k0 [E Hin0]]]]]. inversion E; subst w' dso' l'.
    destruct Htr as [i [Hs Hn]]. constructor.
    - apply (gsim_step inp_of_wleaf sd Hinp s S i t (ILit w dso lvl) _ (wr_sim _ _ R) Hs Hn).
      intro k. rewrite wnext_lit_In. split.
      + intros [d' [l' Hin]]. exists (WLit w d' l'). split; [exact Hin |].
        destruct (wsame_label s S w d' l' k dso lvl k0 R Hin Hin0) as [-> ->]. reflexivity.
      + intros [a' [Hin Ha]]. destruct a'; cbn in Ha; try discriminate. inversion Ha; subst. eauto.
    - intros k Hk. apply wnext_lit_In in Hk. destruct Hk as [d' [l' Hin]]. apply mvs_In in Hin. destruct Hin as [r [Hr Hlf]].
      eapply zero_free_lf; [apply (wr_z _ _ R r Hr) | exact Hlf].
    - intros k Hk a Ha. apply wnext_lit_In in Hk. destruct Hk as [d' [l' Hin]]. apply mvs_In in Hin. destruct Hin as [r [Hr Hlf]].
      apply (wr_leaves _ _ R r Hr). apply (proj2 (lf_leaves r _ k Hlf)). exact Ha.
    - eapply reach_next; [apply (wr_reach _ _ R) | |].
      + apply in_map_iff. exists (WLit w dso lvl, k0). split; [reflexivity | exact Hin0].
      + intro k. rewrite wnext_lit_In. split.
        * intros [d' [l' Hin]]. exists (WLit w d' l'). split; [exact Hin | cbn; apply String.eqb_refl].
        * intros [a' [Hin Ha]]. destruct a'; cbn in Ha; try discriminate. apply String.eqb_eq in Ha. subst. eauto.
  Qed.

  (** the same text leads to the same state *)
  Lemma wtrans_det s S w d1 l1 t1 d2 l2 t2 :
    wrel s S -> trans_on sd s (ILit w d1 l1) t1 -> trans_on sd s (ILit w d2 l2) t2 -> t1 = t2.
  Proof.
    intros R H1 H2.
    destruct (wtrans_is_item s S _ t1 R H1) as [w1 [e1 [m1 [k1 [E1 Hin1]]]]]. inversion E1; subst w1 e1 m1.
    destruct (wtrans_is_item s S _ t2 R H2) as [w2 [e2 [m2 [k2 [E2 Hin2]]]]]. inversion E2; subst w2 e2 m2.
    destruct (wsame_label s S w d1 l1 k1 d2 l2 k2 R Hin1 Hin2) as [-> ->].
    destruct H1 as [i [Hs1 Hn1]]. destruct H2 as [j [Hs2 Hn2]].
    rewrite (nthN_inj sd Hinp i j _ Hn1 Hn2) in Hs1. rewrite Hs1 in Hs2. inversion Hs2. reflexivity.
  Qed.

  Lemma run_wrelated : forall ids s S t, wrel s S -> Dfa.run sd s ids = Some t -> exists S', wrel t S'.
  Proof.
    induction ids as [| i ids IH]; intros s S t R H; cbn [Dfa.run] in H.
    - inversion H; subst. eauto.
    - destruct (Dfa.step sd s i) as [t1 |] eqn:Es; [| discriminate].
      destruct (step_has_input sd Hwf s i t1 Es) as [y Hy].
      assert (Htr : trans_on sd s y t1) by (exists i; split; assumption).
      destruct (wtrans_is_item s S y t1 R Htr) as [w [dso [l [k [-> _]]]]].
      apply (IH t1 _ t (wrel_trans s S w dso l t1 R Htr) H).
  Qed.

  Lemma all_wrelated s : In s (states sd) -> exists S, wrel s S.
  Proof.
    intro Hs. destruct Htrim as [Hre _]. destruct (Hre s Hs) as [ids Hrun].
    apply (run_wrelated ids (d_start sd) [x] s wrel_start Hrun).
  Qed.

  Lemma trans_related s y t : trans_on sd s y t -> exists S, wrel s S.
  Proof. intros [i [Hs _]]. apply all_wrelated. apply (step_in_states sd s i t Hs). Qed.

  (** *** the literal entries of the tables *)
  Lemma enabled_sound s lit to : In (lit, to) (enabled Tw s) -> exists dso lvl, trans_on sd s (ILit lit dso lvl) to.
  Proof.
    intro H. destruct (assocN s (t_mlit Tw)) as [st |] eqn:Es; [| unfold enabled in H; rewrite Es in H; destruct H].
    apply (enabled_in Tw s st lit to Es) in H. destruct H as [lid [Hin Ha]].
    apply (indexed_lit sd cmds nc ncp ns ord Tw Hglt) in Hin. destruct Hin as [ds Hl].
    assert (Hh : tbl_has (t_mlit Tw) s lid to) by (exists st; split; apply assocN_in; assumption).
    destruct (mlit_sound sd cmds 0 nc ncp ns ord Tw Hwf Hord Hglt s lid to Hh) as [text [dso [lvl [Htr Hl']]]].
    destruct (lit_at_fun _ _ _ _ _ _ Hl Hl') as [-> _]. exists dso, lvl. exact Htr.
  Qed.

  Lemma enabled_complete s w dso lvl to : trans_on sd s (ILit w dso lvl) to -> In (w, to) (enabled Tw s).
  Proof.
    intro Htr. destruct (glt_inv _ _ _ _ _ _ _ _ Hglt) as [rt F].
    pose proof Htr as [i [Hs Hn]].
    destruct (valid_order_covers sd ord 0 i w dso lvl Hvalid Hn) as [lid Hl].
    apply (step_in _ _ _ _ Hwf) in Hs.
    assert (Hsel : lit_sel (all_literals ord 0) (ILit w dso lvl) = Some (Ok lid)).
    { cbn. f_equal. apply (lit_id_at _ _ _ _ _ Hord). exact Hl. }
    destruct (match_table_has _ _ _ _ _ _ _ _ (gf_mlit _ _ _ _ _ _ _ _ _ F) Hs Hn Hsel) as [to' Hh].
    destruct (mlit_sound sd cmds 0 nc ncp ns ord Tw Hwf Hord Hglt s lid to' Hh) as [text [dso' [lvl' [Htr' Hl']]]].
    destruct (lit_at_fun _ _ _ _ _ _ Hl Hl') as [<- _].
    destruct (trans_related s _ to Htr) as [S R].
    assert (to' = to) by (apply (wtrans_det s S w dso' lvl' to' dso lvl to R Htr' Htr)). subst to'.
    destruct (mlit_keys sd cmds nc ncp ns ord Tw Hglt) as [K1 K2].
    apply (tbl_has_assoc _ _ _ _ K1 K2) in Hh. destruct Hh as [row [Hr Hk]].
    apply (enabled_in Tw s row w to Hr). exists lid. split; [| exact Hk].
    apply (indexed_lit sd cmds nc ncp ns ord Tw Hglt). eauto.
  Qed.

  Lemma enabled_item s S lit to :
    wrel s S -> (In (lit, to) (enabled Tw s) -> exists d l k, In (WLit lit d l, k) (mvs S) /\ trans_on sd s (ILit lit d l) to).
  Proof.
    intros R H. destruct (enabled_sound s lit to H) as [dso [lvl Htr]].
    destruct (wtrans_is_item s S _ to R Htr) as [w' [d' [l' [k [E Hin]]]]]. inversion E; subst. eauto.
  Qed.

  Lemma Hne_tables s lit to : In (lit, to) (enabled Tw s) -> lit <> EmptyString.
  Proof.
    intro H. destruct (enabled_sound s lit to H) as [dso [lvl Htr]]. destruct (trans_related s _ to Htr) as [S R].
    destruct (enabled_item s S lit to R H) as [d [l [k [Hin _]]]].
    apply mvs_In in Hin. destruct Hin as [r [Hr Hlf]]. destruct (lf_leaves r _ k Hlf) as [Hl _].
    destruct (Hlw _ (wr_leaves _ _ R r Hr _ Hl)) as [t1 [d1 [l1 [E Hne]]]]. inversion E; subst. exact Hne.
  Qed.

  Lemma text_in_x s S lit d l k : wrel s S -> In (WLit lit d l, k) (mvs S) -> In lit (wlit_texts x).
  Proof.
    intros R Hin. apply mvs_In in Hin. destruct Hin as [r [Hr Hlf]]. destruct (lf_leaves r _ k Hlf) as [Hl _].
    unfold wlit_texts. apply in_flat_map. exists (WLit lit d l). split; [apply (wr_leaves _ _ R r Hr _ Hl) | left; reflexivity].
  Qed.

  Lemma Hpf_tables s l1 t1 l2 t2 :
    In (l1, t1) (enabled Tw s) -> In (l2, t2) (enabled Tw s) -> String.prefix l1 l2 = true -> l1 = l2 /\ t1 = t2.
  Proof.
    intros H1 H2 Hp. destruct (enabled_sound s l1 t1 H1) as [dso [lvl Htr]]. destruct (trans_related s _ t1 Htr) as [S R].
    destruct (enabled_item s S l1 t1 R H1) as [d1 [m1 [k1 [Hin1 Htr1]]]].
    destruct (enabled_item s S l2 t2 R H2) as [d2 [m2 [k2 [Hin2 Htr2]]]].
    destruct Hdom as [_ [Hpf _]].
    destruct (Hpf l1 l2 (text_in_x s S l1 d1 m1 k1 R Hin1) (text_in_x s S l2 d2 m2 k2 R Hin2)) as [E | [E _]]; [| congruence].
    subst l2. split; [reflexivity |]. apply (wtrans_det s S l1 d1 m1 t1 d2 m2 t2 R Htr1 Htr2).
  Qed.

  Lemma Hnocmd_tables ct s : t_mcmd Tw = Some ct -> assocN s ct = None.
  Proof.
    intro Hct. destruct (assocN s ct) as [row |] eqn:Ea; [exfalso | reflexivity].
    apply assocN_in in Ea. destruct (glt_inv _ _ _ _ _ _ _ _ Hglt) as [rt F].
    destruct (gf_mcmd _ _ _ _ _ _ _ _ _ F) as [[_ [m [Hm Em]]] | [_ Em]]; rewrite Em in Hct; [| discriminate]. inversion Hct; subst m.
    destruct (proj1 (match_table_rows _ _ _ _ Hm s row) Ea) as [_ [Hrow _]].
    destruct row as [| [cid to] row']; [apply Hrow; reflexivity |].
    assert (Hh : tbl_has ct s cid to) by (exists ((cid, to) :: row'); split; [exact Ea | left; reflexivity]).
    destruct (mcmd_sound sd cmds 0 nc ncp ns ord Tw Hwf Hglt ct s cid to Em Hh) as [cm [l [Htr _]]].
    destruct (trans_related s _ to Htr) as [S R].
    destruct (wtrans_is_item s S _ to R Htr) as [w' [d' [l' [k [E _]]]]]. discriminate.
  Qed.

  Lemma Hnostar_tables stars s : t_mstar Tw = Some stars -> has_key s stars = false.
  Proof.
    intro Hst. unfold has_key. destruct (assocN s stars) as [to |] eqn:Ea; [exfalso | reflexivity].
    apply assocN_in in Ea. apply (mstar_exact sd cmds 0 nc ncp ns ord Tw Hwf Hglt stars s to Hst) in Ea.
    destruct (trans_related s _ to Ea) as [S R].
    destruct (wtrans_is_item s S _ to R Ea) as [w' [d' [l' [k [E _]]]]]. discriminate.
  Qed.

  (** *** tokenisations along the tables = sequences of pieces the expression denotes *)
  Lemma tok_run_lang_fwd s w s' : tok_run Tw s w s' -> forall S, wrel s S -> is_accepting sd s' = true ->
    exists k ls, In k S /\ denotes k ls /\ w = wconcat ls.
  Proof.
    induction 1 as [s | s lit to rest s' Hin Hr IH]; intros S R Hacc.
    - apply (gsim_accepting inp_of_wleaf sd s S (wr_sim _ _ R)) in Hacc. destruct Hacc as [k [Hk Hn]].
      exists k, []. split; [exact Hk | split; [apply nullable_denotes; exact Hn | reflexivity]].
    - destruct (enabled_item s S lit to R Hin) as [d [l [k0 [Hmv Htr]]]].
      destruct (IH _ (wrel_trans s S lit d l to R Htr) Hacc) as [k' [ls [Hk' [Hden ->]]]].
      apply wnext_lit_In in Hk'. destruct Hk' as [d' [l' Hmv']]. apply mvs_In in Hmv'. destruct Hmv' as [r [Hr' Hlf]].
      exists r, (WLit lit d' l' :: ls). split; [exact Hr' | split; [eapply lf_sound; eassumption | reflexivity]].
  Qed.

  Lemma tok_run_lang_bwd : forall ls s S k, wrel s S -> In k S -> denotes k ls ->
    exists s', tok_run Tw s (wconcat ls) s' /\ is_accepting sd s' = true.
  Proof.
    induction ls as [| a ls IH]; intros s S k R Hk Hden.
    - exists s. split; [constructor |]. apply (gsim_accepting inp_of_wleaf sd s S (wr_sim _ _ R)).
      exists k. split; [exact Hk | apply nullable_denotes; exact Hden].
    - apply lf_correct in Hden. destruct Hden as [k' [Hlf Hden']].
      destruct (lf_leaves k a k' Hlf) as [Hl _].
      destruct (Hlw a (wr_leaves _ _ R k Hk a Hl)) as [t1 [d1 [l1 [-> _]]]].
      assert (Hmv : In (WLit t1 d1 l1, k') (mvs S)) by (apply mvs_In; exists k; split; assumption).
      destruct (witem_is_trans s S t1 d1 l1 k' R Hmv) as [to Htr].
      assert (Hk' : In k' (wnext_lit t1 (mvs S))) by (apply wnext_lit_In; eauto).
      destruct (IH to _ k' (wrel_trans s S t1 d1 l1 to R Htr) Hk' Hden') as [s' [Hrun Hacc]].
      exists s'. split; [| exact Hacc]. cbn [wconcat wtext]. econstructor; [apply (enabled_complete s t1 d1 l1 to Htr) | exact Hrun].
  Qed.

  (** *** the script's matching function = the specification's *)
  Theorem subword_matches_meaning (a : alltables) (benv : BashSem.env) (en : Meaning.env) (w : string) (log : list invocation) :
    d_start sd = 0 ->
    subword_matches Repaired a benv Tw (d_accepting sd) w log = Ok (waccepts en x w, log).
  Proof.
    intro H0. unfold subword_matches, subword_matches_from.
    destruct (sw_matches_tables a benv Tw (d_accepting sd) Hnocmd_tables Hnostar_tables Hne_tables Hpf_tables w log (sw_fuel Tw w) 0 0%nat)
      as [b [st' [ci' [E Hb]]]].
    { unfold sw_fuel. lia. }
    rewrite E. cbn [obind]. f_equal. f_equal.
    cbn [Glob.sdrop] in Hb.
    assert (Hw : waccepts en x w = true <-> b = true).
    { rewrite (waccepts_tokens en x w Hlw), Hb. rewrite <- H0. split.
      - intros [ls [Hden ->]]. destruct (tok_run_lang_bwd ls (d_start sd) [x] x wrel_start (or_introl eq_refl) Hden) as [s' [Hr Hacc]].
        exists s'. split; [exact Hr | apply memN_In'; exact Hacc].
      - intros [s' [Hr Hacc]]. apply memN_In' in Hacc.
        destruct (tok_run_lang_fwd _ _ _ Hr [x] wrel_start Hacc) as [k [ls [[<- | []] [Hden ->]]]]. eauto. }
    destruct b; destruct (waccepts en x w); try reflexivity; [symmetry; apply Hw; reflexivity | apply Hw; reflexivity].
  Qed.

  (** *** the completing half of the script's within-word function = [wproper] *)

  (** continuations of the text [w] from the set of residuals [S]: (level, what they make of [w]) *)
  Definition cand (S : list (rx wleaf)) (w : string) (l : N) (o : string) : Prop :=
    exists e ls e' rest t d k, In e S /\ rpath e ls e' /\ w = append (wconcat ls) rest
                               /\ In (WLit t d l, k) (lf e') /\ String.prefix rest t = true /\ o = append (wconcat ls) t.

  Lemma wcands_cand en p l o : In (l, o) (wcands en x p) <-> cand [x] p l o.
  Proof.
    unfold wcands, wsplits_of. rewrite in_flat_map. split.
    - intros [[[e' dn] rest] [Hs H]]. apply in_flat_map in H. destruct H as [[a0 k] [Hlf H]]. cbn [fst] in H.
      destruct (wsplits_sound en _ _ _ _ _ _ _ Hlw Hs) as [ls [Hp [Hd Hr]]]. cbn [append] in Hd. subst dn.
      pose proof (rpath_lit_word x ls e' Hlw Hp) as Le'.
      destruct (lit_word_lf e' a0 k Le' Hlf) as [[t [d [l0 [-> _]]]] _].
      destruct (String.prefix rest t) eqn:Ep; [| destruct H]. destruct H as [E | []]. inversion E; subst.
      exists x, ls, e', rest, t, d, k. repeat split; try assumption. left; reflexivity.
    - intros [e [ls [e' [rest [t [d [k [[<- | []] [Hp [-> [Hlf [Ep ->]]]]]]]]]]]].
      exists (e', wconcat ls, rest). split.
      + pose proof (wsplits_complete en ls x e' EmptyString rest (String.length (append (wconcat ls) rest)) Hlw Hp (le_n _)) as H.
        cbn [append] in H. exact H.
      + apply in_flat_map. exists (WLit t d l, k). split; [exact Hlf |]. cbn [fst]. rewrite Ep. left; reflexivity.
  Qed.

  Lemma S_lit_word s S e : wrel s S -> In e S -> lit_word e.
  Proof. intros R He b Hb. apply Hlw. apply (wr_leaves _ _ R e He b Hb). Qed.

  Lemma same_text s S t1 d1 l1 k1 t2 d2 l2 k2 :
    wrel s S -> In (WLit t1 d1 l1, k1) (mvs S) -> In (WLit t2 d2 l2, k2) (mvs S) -> String.prefix t1 t2 = true -> t1 = t2.
  Proof.
    intros R H1 H2 Hp. destruct Hdom as [_ [Hpf _]].
    destruct (Hpf t1 t2 (text_in_x s S t1 d1 l1 k1 R H1) (text_in_x s S t2 d2 l2 k2 R H2)) as [E | [E _]]; [exact E | congruence].
  Qed.

  Lemma cand_stop s S w l o :
    wrel s S -> (forall t d l k, In (WLit t d l, k) (mvs S) -> String.prefix t w = false) ->
    (cand S w l o <-> exists t d k, In (WLit t d l, k) (mvs S) /\ String.prefix w t = true /\ o = t).
  Proof.
    intros R Hstop. split.
    - intros [e [ls [e' [rest [t [d [k [He [Hp [Ew [Hlf [Ep Eo]]]]]]]]]]]].
      destruct Hp as [r | r a0 k1 ls r' Hlf1 Hp'].
      + cbn [wconcat append] in *. subst. exists t, d, k. split; [apply mvs_In; exists r; split; assumption | split; [exact Ep | reflexivity]].
      + exfalso. destruct (lit_word_lf r a0 k1 (S_lit_word s S r R He) Hlf1) as [[t1 [d1 [l1 [-> _]]]] _].
        assert (Hin : In (WLit t1 d1 l1, k1) (mvs S)) by (apply mvs_In; exists r; split; assumption).
        pose proof (Hstop t1 d1 l1 k1 Hin) as Hf. rewrite Ew in Hf. cbn [wconcat wtext] in Hf.
        rewrite append_assoc, prefix_app_l in Hf. discriminate.
    - intros [t [d [k [Hin [Ep ->]]]]]. apply mvs_In in Hin. destruct Hin as [r [Hr Hlf]].
      exists r, [], r, w, t, d, k. repeat split; try assumption. constructor.
  Qed.

  Lemma cand_cons_fwd s S lit d0 l0 k0 w' l o :
    wrel s S -> In (WLit lit d0 l0, k0) (mvs S) ->
    cand S (append lit w') l o -> o = append lit w' \/ exists o', o = append lit o' /\ cand (wnext_lit lit (mvs S)) w' l o'.
  Proof.
    intros R Hlit [e [ls [e' [rest [t [d [k [He [Hp [Ew [Hlf [Ep Eo]]]]]]]]]]]].
    destruct Hp as [r | r a0 k1 ls r' Hlf1 Hp'].
    - left. cbn [wconcat append] in *. subst rest o.
      assert (Hin : In (WLit t d l, k) (mvs S)) by (apply mvs_In; exists r; split; assumption).
      assert (Hpt : String.prefix lit t = true) by (eapply prefix_trans; [apply prefix_app_l | exact Ep]).
      pose proof (same_text s S lit d0 l0 k0 t d l k R Hlit Hin Hpt) as E. subst t.
      apply prefix_app_self in Ep. subst w'. rewrite append_nil_r. reflexivity.
    - right. destruct (lit_word_lf r a0 k1 (S_lit_word s S r R He) Hlf1) as [[t1 [d1 [l1 [-> _]]]] _].
      assert (Hin : In (WLit t1 d1 l1, k1) (mvs S)) by (apply mvs_In; exists r; split; assumption).
      cbn [wconcat wtext] in Ew, Eo. rewrite append_assoc in Ew.
      assert (P1 : String.prefix lit (append lit w') = true) by apply prefix_app_l.
      assert (P2 : String.prefix t1 (append lit w') = true) by (rewrite Ew; apply prefix_app_l).
      assert (E : lit = t1).
      { destruct (prefixes_comparable lit t1 _ P1 P2) as [Hc | Hc].
        - apply (same_text s S lit d0 l0 k0 t1 d1 l1 k1 R Hlit Hin Hc).
        - symmetry. apply (same_text s S t1 d1 l1 k1 lit d0 l0 k0 R Hin Hlit Hc). }
      subst t1. apply append_cancel_l in Ew.
      exists (append (wconcat ls) t). split; [rewrite Eo; apply append_assoc |].
      exists k1, ls, r', rest, t, d, k. repeat split; try assumption. apply wnext_lit_In. eauto.
  Qed.

  Lemma cand_cons_bwd S lit w' l o' :
    cand (wnext_lit lit (mvs S)) w' l o' -> cand S (append lit w') l (append lit o').
  Proof.
    intros [e1 [ls [e' [rest [t [d [k [He [Hp [Ew [Hlf [Ep Eo]]]]]]]]]]]].
    apply wnext_lit_In in He. destruct He as [d1 [l1 Hin]]. apply mvs_In in Hin. destruct Hin as [r [Hr Hlf1]].
    exists r, (WLit lit d1 l1 :: ls), e', rest, t, d, k. repeat split; try assumption.
    - econstructor; eassumption.
    - cbn [wconcat wtext]. rewrite append_assoc, Ew. reflexivity.
    - cbn [wconcat wtext]. rewrite append_assoc, Eo. reflexivity.
  Qed.

  Lemma cand_greedy s w s' cp : greedy Tw s w s' cp -> forall S, wrel s S ->
    exists mp S', w = append mp cp /\ wrel s' S'
                  /\ (forall t d l k, In (WLit t d l, k) (mvs S') -> String.prefix t cp = false)
                  /\ forall l o, (cand S w l o /\ o <> w) <-> exists o', o = append mp o' /\ cand S' cp l o'.
  Proof.
    induction 1 as [s w Hstop | s lit to rest s' cp Hen Hg IH]; intros S R.
    - assert (Hstop' : forall t d l k, In (WLit t d l, k) (mvs S) -> String.prefix t w = false).
      { intros t d l k Hin. destruct (witem_is_trans s S t d l k R Hin) as [to Htr].
        apply (Hstop t to). apply (enabled_complete s t d l to Htr). }
      exists EmptyString, S. split; [reflexivity | split; [exact R | split; [exact Hstop' |]]].
      intros l o. cbn [append]. split.
      + intros [Hc _]. exists o. split; [reflexivity | exact Hc].
      + intros [o' [-> Hc]]. split; [exact Hc |]. intro E. subst o'.
        apply (cand_stop s S w l w R Hstop') in Hc. destruct Hc as [t [d [k [Hin [Hp Et]]]]]. subst t.
        rewrite (Hstop' w d l k Hin) in Hp. discriminate.
    - destruct (enabled_item s S lit to R Hen) as [d0 [l0 [k0 [Hmv Htr]]]].
      pose proof (wrel_trans s S lit d0 l0 to R Htr) as R1.
      destruct (IH _ R1) as [mp1 [S' [Er [R' [Hstop' Hiff]]]]].
      exists (append lit mp1), S'. split; [rewrite Er; symmetry; apply append_assoc | split; [exact R' | split; [exact Hstop' |]]].
      intros l o. split.
      + intros [Hc Hne]. destruct (cand_cons_fwd s S lit d0 l0 k0 rest l o R Hmv Hc) as [E | [o1 [-> Hc1]]]; [contradiction |].
        assert (Hne1 : o1 <> rest) by (intro E; subst; apply Hne; reflexivity).
        destruct (proj1 (Hiff l o1) (conj Hc1 Hne1)) as [o' [-> Hc']].
        exists o'. split; [symmetry; apply append_assoc | exact Hc'].
      + intros [o' [-> Hc']]. destruct (proj2 (Hiff l (append mp1 o')) (ex_intro _ o' (conj eq_refl Hc'))) as [Hc1 Hne1].
        split.
        * rewrite append_assoc. apply cand_cons_bwd. exact Hc1.
        * intro E. rewrite append_assoc in E. apply append_cancel_l in E. contradiction.
  Qed.

  Lemma Hnoccmd_tables cc L s : t_ccmd Tw = Some cc -> level_row cc L s = [].
  Proof.
    intro Hcc. destruct (level_row cc L s) as [| id r] eqn:E; [reflexivity | exfalso].
    destruct (glt_inv _ _ _ _ _ _ _ _ Hglt) as [rt F].
    assert (K : Forall (fun lv : list (N * list N) => NoDup (map fst lv)) cc).
    { destruct (gf_ccmd _ _ _ _ _ _ _ _ _ F) as [[_ [m [Hm Em]]] | [_ Em]]; rewrite Em in Hcc; [| discriminate].
      inversion Hcc; subst m. eapply completion_table_keys. exact Hm. }
    assert (M : mem3 cc (N.of_nat L) s id).
    { apply (mem3_level_row cc (N.of_nat L) s id K). rewrite Nat2N.id. unfold level_row in E. rewrite E. left; reflexivity. }
    apply (ccmd_exact sd cmds 0 nc ncp ns ord Tw Hwf Hglt cc (N.of_nat L) s id Hcc) in M.
    destruct M as [cm [to [Htr _]]]. destruct (trans_related s _ to Htr) as [S R].
    destruct (wtrans_is_item s S _ to R Htr) as [w' [d' [l' [k [Eq _]]]]]. discriminate.
  Qed.

  Theorem subword_complete_meaning (a : alltables) (benv : BashSem.env) (en : Meaning.env) (p : string) :
    d_start sd = 0 -> e_ignore_case benv = false -> printable_str p = true ->
    exists reply, (forall log, subword_complete Repaired a benv Tw p log = Ok (reply, log))
                  /\ forall o, In o reply <-> In o (wproper en x p).
  Proof.
    intros H0 Hic Hpr.
    destruct (subword_complete_tables a benv Tw Hnocmd_tables Hnostar_tables Hne_tables Hpf_tables Hic Hnoccmd_tables p Hpr)
      as [st' [cp [mp [Er [Ep Hg]]]]].
    eexists. split; [exact Er |].
    assert (R0 : wrel 0 [x]) by (rewrite <- H0; apply wrel_start).
    destruct (cand_greedy 0 p st' cp Hg [x] R0) as [mp' [S' [Ep' [R' [Hstop Hiff]]]]].
    assert (mp' = mp) by (rewrite Ep in Ep'; symmetry; eapply append_cancel_r; exact Ep'). subst mp'.
    unfold wproper. apply first_nonempty_lowest.
    - intros L o. rewrite filter_In. cbn [snd]. rewrite wcands_cand.
      assert (Hsp : (cand [x] p (N.of_nat L) o /\ negb (String.eqb o p) = true)
                    <-> exists t d k, In (WLit t d (N.of_nat L), k) (mvs S') /\ String.prefix cp t = true /\ o = append mp t).
      { rewrite negb_true_iff, String.eqb_neq, (Hiff (N.of_nat L) o). split.
        - intros [o' [-> Hc]]. apply (cand_stop st' S' cp _ o' R' Hstop) in Hc. destruct Hc as [t [d [k [Hin [Hp ->]]]]]. exists t, d, k. repeat split; assumption.
        - intros [t [d [k [Hin [Hp ->]]]]]. exists t. split; [reflexivity |]. apply (cand_stop st' S' cp _ t R' Hstop). exists t, d, k. repeat split; assumption. }
      rewrite Hsp. unfold sw_offered. rewrite filter_In, in_map_iff. split.
      + intros [[id [<- Hid]] Hp]. rewrite <- (Nat2N.id L) in Hid.
        apply (level_row_lit sd cmds nc ncp ns ord Tw Hwf Hord Hglt) in Hid. destruct Hid as [text [dso [to [Htr Hl]]]].
        rewrite (literal_at_lit sd cmds nc ncp ns ord Tw Hglt id text _ Hl) in *.
        destruct (wtrans_is_item st' S' _ to R' Htr) as [w' [d' [l' [k [Eq Hin]]]]]. inversion Eq; subst w' d' l'.
        exists text, dso, k. split; [exact Hin | split; [| reflexivity]]. rewrite prefix_app in Hp. exact Hp.
      + intros [t [d [k [Hin [Hp ->]]]]]. destruct (witem_is_trans st' S' t d _ k R' Hin) as [to Htr].
        pose proof Htr as [i [_ Hn]]. destruct (valid_order_covers sd ord 0 i t d _ Hvalid Hn) as [id Hl].
        split; [| rewrite prefix_app; exact Hp].
        exists id. split; [rewrite (literal_at_lit sd cmds nc ncp ns ord Tw Hglt id t _ Hl); reflexivity |].
        rewrite <- (Nat2N.id L). apply (level_row_lit sd cmds nc ncp ns ord Tw Hwf Hord Hglt). eauto.
    - intros l o Hin. apply filter_In in Hin. destruct Hin as [Hin Hne']. cbn [snd] in Hne'. apply wcands_cand in Hin.
      apply negb_true_iff, String.eqb_neq in Hne'.
      destruct (proj1 (Hiff l o) (conj Hin Hne')) as [o' [-> Hc]].
      apply (cand_stop st' S' cp l o' R' Hstop) in Hc. destruct Hc as [t [d [k [Hmv _]]]].
      destruct (witem_is_trans st' S' t d l k R' Hmv) as [to Htr].
      apply (level_in_range sd cmds nc ncp ns ord Tw Hwf Hord Hglt l st' t d to Hvalid Htr).
  Qed.
End WordSim.
