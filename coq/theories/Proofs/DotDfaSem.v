(** C16: what the reader makes of the statements of the DFA printer's lines: the node statements
    of one automaton, its edges, a cluster. *)
From Coq Require Import Permutation.
From CG Require Import Base.Prelude Model.Dfa Spec.DotRead Spec.DotSpec Model.Dot
     Proofs.DotLex Proofs.DotParse Proofs.DotSem Proofs.DotNames Proofs.DotStates Proofs.DotDfaItems.
Local Open Scope string_scope.

(** ** Statements of the lines *)
Definition nmlb (base : N) (p : string) (s : N) : string * string :=
  (node_id p (s + base), p ++ dec (s + base)).

Lemma items_stmts_app a b : items_stmts (a ++ b)%list = (items_stmts a ++ items_stmts b)%list.
Proof. apply flat_map_app. Qed.

Lemma stmts_state_lines p base l :
  prefix_ok p ->
  items_stmts (map (state_line p base) l) = map label_stmt (map (nmlb base p) l).
Proof.
  intro Hp. induction l as [|s r IH]; [reflexivity|].
  cbn [map]. change (items_stmts (state_line p base s :: map (state_line p base) r))
    with (item_stmts (state_line p base s) ++ items_stmts (map (state_line p base) r))%list.
  rewrite IH. cbn [item_stmts state_line line_stmts app].
  destruct (plain_body _ (label_plain p (s + base) Hp)) as [_ ->]. reflexivity.
Qed.

Definition shape_stmt (sh : string) : stmt := SAttr KNode [("shape", sh)].

Lemma stmts_node_lines base d p :
  prefix_ok p ->
  items_stmts (node_lines patched base d p)
  = (shape_stmt (if memN (d_start d) (d_accepting d) then "doubleoctagon" else "octagon")
     :: map label_stmt [nmlb base p (d_start d)]
     ++ shape_stmt "circle" :: map label_stmt (map (nmlb base p) (regular d))
     ++ shape_stmt "doublecircle" :: map label_stmt (map (nmlb base p) (d_accepting d)))%list.
Proof.
  intro Hp. unfold node_lines. fold (regular d).
  rewrite !items_stmts_app, !(stmts_state_lines p base _ Hp).
  change (items_stmts [ILine LBlank]) with (@nil stmt).
  rewrite app_nil_r.
  change (state_line p base (d_start d)) with (hd (ILine LBlank) (map (state_line p base) [d_start d])).
  cbn [items_stmts flat_map item_stmts line_stmts app map hd state_line].
  destruct (plain_body _ (label_plain p (d_start d + base) Hp)) as [_ ->]. reflexivity.
Qed.

Definition conv (e : edge4) : string * string * attrs :=
  (fst (fst (fst e)), snd (fst (fst e)), [(snd (fst e), qdec (snd e))]).

Lemma stmts_edge_items l : items_stmts (map edge_item l) = map edge_stmt (map conv l).
Proof. induction l as [|e r IH]; [reflexivity|]. cbn [map]. rewrite <- IH. reflexivity. Qed.

(** ** Node statements of one automaton *)
Definition x_node (base : N) (p : string) (d : dfa) (s : N) : gnode :=
  mkgnode (node_id p (s + base)) [("shape", shape_of d s); ("label", p ++ dec (s + base))].

Definition one_shape (a : attrs) : Prop := a = [] \/ exists x, a = [("shape", x)].

Lemma run_shape sh o sc :
  one_shape (s_ndef sc) ->
  run_stmt (shape_stmt sh) (o, sc)
  = (o, mkscope [("shape", sh)] (s_edef sc) (s_gattrs sc) (s_members sc) (s_subs sc)).
Proof. intros [E|[x E]]; cbn [run_stmt shape_stmt]; rewrite E; reflexivity. Qed.

Lemma nm_inj base p s s' : prefix_ok p -> node_id p (s + base) = node_id p (s' + base) -> s = s'.
Proof. intros Hp E. destruct (node_id_inj _ _ _ _ Hp Hp E) as [_ H]. lia. Qed.

Lemma nmlb_nodup base p l : prefix_ok p -> NoDup l -> NoDup (map fst (map (nmlb base p) l)).
Proof.
  intros Hp. rewrite map_map. cbn [nmlb fst]. induction 1 as [|x r Hx Hr IH]; cbn; constructor; [|exact IH].
  intro H. apply in_map_iff in H as [y [E Hy]]. apply (nm_inj base p _ _ Hp) in E. now subst.
Qed.

Lemma nmlb_in base p l i :
  In i (map fst (map (nmlb base p) l)) <-> exists s, In s l /\ i = node_id p (s + base).
Proof.
  rewrite map_map. cbn [nmlb fst]. rewrite in_map_iff. split; intros [s [A B]]; exists s; intuition.
Qed.

(** a batch: one default shape, then new nodes *)
Lemma run_batch sh l o sc :
  one_shape (s_ndef sc) -> NoDup (map fst l) ->
  (forall i, In i (map fst l) -> ~ In i (ids (o_nodes o)) /\ ~ In i (s_members sc)) ->
  run_stmts (shape_stmt sh :: map label_stmt l) (o, sc)
  = (mkobjs (o_nodes o ++ map (shaped sh) l) (o_edges o),
     mkscope [("shape", sh)] (s_edef sc) (s_gattrs sc) (s_members sc ++ map fst l) (s_subs sc)).
Proof.
  intros H1 Hnd Hf. rewrite run_stmts_cons, (run_shape sh o sc H1).
  rewrite (run_nodes_fresh sh l); [reflexivity|reflexivity|exact Hnd|exact Hf].
Qed.

Lemma shaped_x_node base p d sh l :
  (forall s, In s l -> shape_of d s = sh) ->
  map (shaped sh) (map (nmlb base p) l) = map (x_node base p d) l.
Proof.
  intro H. rewrite map_map. apply map_ext_in. intros s Hs. unfold shaped, nmlb, x_node. cbn [fst snd].
  now rewrite (H s Hs).
Qed.

Lemma shape_start d :
  shape_of d (d_start d) = (if memN (d_start d) (d_accepting d) then "doubleoctagon" else "octagon").
Proof. unfold shape_of, is_accepting. now rewrite N.eqb_refl. Qed.

Lemma shape_regular d s : In s (regular d) -> shape_of d s = "circle".
Proof.
  intro H. apply regular_in in H as [_ [Ha Hs]]. unfold shape_of, is_accepting.
  apply N.eqb_neq in Hs. rewrite Hs. apply memN_false in Ha. now rewrite Ha.
Qed.

Lemma shape_acc_rest d s : In s (acc_rest d) -> shape_of d s = "doublecircle".
Proof.
  intro H. apply acc_rest_in in H as [Ha Hs]. unfold shape_of, is_accepting.
  apply N.eqb_neq in Hs. rewrite Hs. apply memN_In in Ha. now rewrite Ha.
Qed.

Lemma run_node_lines base d p o sc :
  prefix_ok p -> NoDup (d_accepting d) -> one_shape (s_ndef sc) -> NoDup (ids (o_nodes o)) ->
  (forall s, ~ In (node_id p (s + base)) (ids (o_nodes o)) /\ ~ In (node_id p (s + base)) (s_members sc)) ->
  run_stmts (items_stmts (node_lines patched base d p)) (o, sc)
  = (mkobjs (o_nodes o ++ map (x_node base p d) (st_list d)) (o_edges o),
     mkscope [("shape", "doublecircle")] (s_edef sc) (s_gattrs sc)
             (s_members sc ++ map (fun s => node_id p (s + base)) (st_list d)) (s_subs sc)).
Proof.
  intros Hp Hacc H1 Hnd Hf. rewrite (stmts_node_lines base d p Hp).
  set (S0 := if memN (d_start d) (d_accepting d) then "doubleoctagon" else "octagon").
  (* first batch: the start state *)
  change (shape_stmt S0 :: map label_stmt [nmlb base p (d_start d)] ++ ?r)%list
    with ((shape_stmt S0 :: map label_stmt [nmlb base p (d_start d)]) ++ r)%list.
  rewrite run_stmts_app.
  rewrite (run_batch S0 [nmlb base p (d_start d)] o sc H1).
  2:{ constructor; [intros []|constructor]. }
  2:{ intros i [<-|[]]. apply Hf. }
  (* second batch: the regular states *)
  change (shape_stmt "circle" :: map label_stmt (map (nmlb base p) (regular d)) ++ ?r)%list
    with ((shape_stmt "circle" :: map label_stmt (map (nmlb base p) (regular d))) ++ r)%list.
  rewrite run_stmts_app.
  pose proof (st_list_nodup d Hacc) as Hsl. unfold st_list in Hsl.
  inversion Hsl as [|? ? Hstart Hrest]; subst.
  assert (Hreg : NoDup (regular d)) by (apply NoDup_filter; rewrite all_states_patched; apply bitmap_nodup).
  rewrite run_batch.
  2:{ right. now exists S0. }
  2:{ apply nmlb_nodup; assumption. }
  2:{ intros i Hi. apply nmlb_in in Hi as [s [Hs ->]]. cbn [o_nodes s_members].
      destruct (Hf s) as [A B]. rewrite ids_app. cbn [ids map shaped gn_id nmlb fst].
      split; intro H; apply in_app_or in H as [H|[H|[]]]; try contradiction;
        apply (nm_inj base p _ _ Hp) in H; subst s; apply Hstart; apply in_or_app; now left. }
  cbn [o_nodes o_edges s_ndef s_edef s_gattrs s_members s_subs].
  rewrite (shaped_x_node base p d "circle" (regular d) (shape_regular d)).
  (* third batch: accepting states, among which the start state may occur again *)
  assert (Hx0 : map (shaped S0) [nmlb base p (d_start d)] = [x_node base p d (d_start d)]).
  { cbn. unfold shaped, x_node, nmlb. cbn [fst snd]. now rewrite shape_start. }
  rewrite Hx0.
  assert (Hfresh_rest : forall l, (forall s, In s l -> In s (acc_rest d)) -> forall extra_n extra_m,
             (forall s, In s l -> ~ In (node_id p (s + base)) extra_n /\ ~ In (node_id p (s + base)) extra_m) ->
             forall i, In i (map fst (map (nmlb base p) l)) ->
             ~ In i (ids ((o_nodes o ++ [x_node base p d (d_start d)]) ++ map (x_node base p d) (regular d)) ++ extra_n)%list
             /\ ~ In i (((s_members sc ++ map fst [nmlb base p (d_start d)]) ++ map fst (map (nmlb base p) (regular d))) ++ extra_m)%list).
  { intros l Hl en em Hex i Hi. apply nmlb_in in Hi as [s [Hs ->]].
    destruct (Hf s) as [A B]. destruct (Hex s Hs) as [C D]. specialize (Hl s Hs).
    assert (Hns : s <> d_start d) by (apply acc_rest_in in Hl; tauto).
    assert (Hnr : ~ In s (regular d)).
    { intro Hr. apply regular_in in Hr. apply acc_rest_in in Hl. tauto. }
    split; intro H.
    - apply in_app_or in H as [H|H]; [|contradiction]. rewrite !ids_app in H.
      apply in_app_or in H as [H|H]; [apply in_app_or in H as [H|[H|[]]]|]; try contradiction.
      + cbn in H. apply (nm_inj base p _ _ Hp) in H. now subst.
      + unfold ids in H. rewrite map_map in H. cbn [x_node gn_id] in H.
        apply in_map_iff in H as [s' [E Hs']]. apply (nm_inj base p _ _ Hp) in E. now subst.
    - apply in_app_or in H as [H|H]; [|contradiction].
      apply in_app_or in H as [H|H]; [apply in_app_or in H as [H|[H|[]]]|]; try contradiction.
      + cbn in H. apply (nm_inj base p _ _ Hp) in H. now subst.
      + apply nmlb_in in H as [s' [Hs' E]]. apply (nm_inj base p _ _ Hp) in E. now subst. }
  assert (Hmem : map fst [nmlb base p (d_start d)] = [node_id p (d_start d + base)]) by reflexivity.
  assert (Hmapnm : forall l, map fst (map (nmlb base p) l) = map (fun s => node_id p (s + base)) l).
  { intro l. rewrite map_map. reflexivity. }
  destruct (acc_split d Hacc) as [[Hn Hrest']|[l1 [l2 [Ea [Er [Hn1 Hn2]]]]]].
  - (* the start state does not accept: all accepting states are new *)
    rewrite run_batch.
    + cbn [o_nodes o_edges s_ndef s_edef s_gattrs s_members s_subs].
      rewrite <- Hrest' at 1 2. rewrite (shaped_x_node base p d "doublecircle" (acc_rest d) (shape_acc_rest d)).
      unfold st_list. cbn [map]. rewrite !map_app, !Hmapnm.
      change (map fst [nmlb base p (d_start d)]) with [node_id p (d_start d + base)].
      rewrite <- !app_assoc. reflexivity.
    + right. now exists "circle".
    + apply nmlb_nodup; assumption.
    + intros i Hi. cbn [o_nodes s_members].
      destruct (Hfresh_rest (d_accepting d) (fun s Hs => eq_ind_r (fun l => In s l) Hs Hrest') [] []
                             (fun s _ => conj (fun H => H) (fun H => H)) i Hi) as [A B].
      rewrite !app_nil_r in A, B. split; assumption.
  - (* the start state accepts: it is mentioned again, between l1 and l2 *)
    rewrite Ea. rewrite map_app. cbn [map]. rewrite map_app. cbn [map].
    change (shape_stmt "doublecircle" :: map label_stmt (map (nmlb base p) l1)
            ++ label_stmt (nmlb base p (d_start d)) :: map label_stmt (map (nmlb base p) l2))%list
      with ((shape_stmt "doublecircle" :: map label_stmt (map (nmlb base p) l1))
            ++ [label_stmt (nmlb base p (d_start d))] ++ map label_stmt (map (nmlb base p) l2))%list.
    assert (Hnd12 : NoDup (l1 ++ l2)) by (rewrite Ea in Hacc; exact (NoDup_remove_1 _ _ _ Hacc)).
    assert (Hin1 : forall s, In s l1 -> In s (acc_rest d)) by (intros s Hs; rewrite Er; apply in_or_app; now left).
    assert (Hin2 : forall s, In s l2 -> In s (acc_rest d)) by (intros s Hs; rewrite Er; apply in_or_app; now right).
    rewrite !run_stmts_app.
    rewrite run_batch.
    2:{ right. now exists "circle". }
    2:{ apply nmlb_nodup; [exact Hp|]. exact (proj1 (NoDup_app_inv _ _ Hnd12)). }
    2:{ intros i Hi. cbn [o_nodes s_members].
        destruct (Hfresh_rest l1 Hin1 [] [] (fun s _ => conj (fun H => H) (fun H => H)) i Hi) as [A B].
        rewrite !app_nil_r in A, B. split; assumption. }
    cbn [o_nodes o_edges s_ndef s_edef s_gattrs s_members s_subs].
    (* the repeated start state: nothing changes *)
    cbn [run_stmts fold_left].
    change (label_stmt (nmlb base p (d_start d)))
      with (SNode (node_id p (d_start d + base)) [("label", p ++ dec (d_start d + base))]).
    rewrite run_node_same.
    2:{ cbn [o_nodes]. rewrite !ids_app. apply in_or_app. left. apply in_or_app. left. apply in_or_app. right. now left. }
    2:{ cbn [s_members]. apply in_or_app. left. apply in_or_app. left. apply in_or_app. right. now left. }
    2:{ cbn [o_nodes]. apply (update_node_idem _ S0).
        - apply in_or_app. left. apply in_or_app. left. apply in_or_app. right. left.
          unfold shaped, x_node. cbn [fst snd]. now rewrite shape_start.
        - (* the node names so far are pairwise different *)
          rewrite !ids_app. apply NoDup_app_intro; [apply NoDup_app_intro; [apply NoDup_app_intro|..]|..].
          + exact Hnd.
          + constructor; [intros []|constructor].
          + intros x Hx [<-|[]]. now apply (proj1 (Hf (d_start d))).
          + unfold ids. rewrite map_map. cbn [x_node gn_id].
            apply (FinFun.Injective_map_NoDup (f := fun s => node_id p (s + base))); [|exact Hreg].
            intros a b E. exact (nm_inj base p _ _ Hp E).
          + intros x Hx Hx'. unfold ids in Hx'. rewrite map_map in Hx'. cbn [x_node gn_id] in Hx'.
            apply in_map_iff in Hx' as [s [<- Hs]]. apply in_app_or in Hx as [Hx|[Hx|[]]].
            * now apply (proj1 (Hf s)).
            * cbn in Hx. apply (nm_inj base p _ _ Hp) in Hx. subst s. apply Hstart. apply in_or_app. now left.
          + unfold ids. rewrite map_map. cbn [shaped gn_id].
            change (fun x => fst (nmlb base p x)) with (fun s => node_id p (s + base)).
            rewrite map_map. cbn [nmlb fst].
            apply (FinFun.Injective_map_NoDup (f := fun s => node_id p (s + base)));
              [|exact (proj1 (NoDup_app_inv _ _ Hnd12))].
            intros a b E. exact (nm_inj base p _ _ Hp E).
          + intros x Hx Hx'. unfold ids in Hx'. rewrite !map_map in Hx'. cbn [shaped gn_id nmlb fst] in Hx'.
            apply in_map_iff in Hx' as [s [<- Hs]].
            destruct (Hfresh_rest l1 Hin1 [] [] (fun s _ => conj (fun H => H) (fun H => H))
                                   (node_id p (s + base))) as [A _].
            { apply nmlb_in. now exists s. }
            rewrite app_nil_r in A. apply A. rewrite !ids_app. exact Hx. }
    (* the accepting states after it *)
    rewrite (run_nodes_fresh "doublecircle").
    2:{ reflexivity. }
    2:{ apply nmlb_nodup; [exact Hp|]. exact (proj1 (proj2 (NoDup_app_inv _ _ Hnd12))). }
    2:{ intros i Hi. cbn [o_nodes s_members]. rewrite ids_app.
        apply (Hfresh_rest l2 Hin2 (ids (map (shaped "doublecircle") (map (nmlb base p) l1)))
                           (map fst (map (nmlb base p) l1))).
        - intros s Hs. split; intro H.
          + unfold ids in H. rewrite !map_map in H. cbn [shaped gn_id nmlb fst] in H.
            apply in_map_iff in H as [s' [E Hs']]. apply (nm_inj base p _ _ Hp) in E. subst s'.
            exact (proj2 (proj2 (NoDup_app_inv _ _ Hnd12)) s Hs' Hs).
          + apply nmlb_in in H as [s' [Hs' E]]. apply (nm_inj base p _ _ Hp) in E. subst s'.
            exact (proj2 (proj2 (NoDup_app_inv _ _ Hnd12)) s Hs' Hs).
        - exact Hi. }
    cbn [o_nodes o_edges s_ndef s_edef s_gattrs s_members s_subs].
    rewrite <- !app_assoc, <- !map_app.
    rewrite (shaped_x_node base p d "doublecircle" (l1 ++ l2)).
    2:{ intros s Hs. apply shape_acc_rest. now rewrite Er. }
    unfold st_list. rewrite Er. cbn [map]. rewrite !Hmapnm, !map_app.
    change (fst (nmlb base p (d_start d))) with (node_id p (d_start d + base)). reflexivity.
Qed.
