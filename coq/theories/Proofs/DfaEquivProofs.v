(** C03, validator side: the executable deciders of [Spec.DfaEquiv] are sound (and complete)
    for the propositions they decide, and a trim automaton with pairwise distinguishable states
    has the minimal number of states among all automata of its language (Myhill-Nerode). *)
From CG Require Import Base.Prelude Model.Dfa Spec.DfaEquiv.

(** * General facts *)

Lemma memN_In x l : memN x l = true <-> In x l.
Proof.
  unfold memN. rewrite existsb_exists. split.
  - intros [y [Hy He]]. apply N.eqb_eq in He. subst. exact Hy.
  - intro H. exists x. split; [exact H|apply N.eqb_refl].
Qed.

Lemma memN_false x l : memN x l = false <-> ~ In x l.
Proof.
  rewrite <- memN_In. destruct (memN x l); split; intro H; congruence.
Qed.

Lemma assocN_In {V} k (l : list (N * V)) v : assocN k l = Some v -> In (k, v) l.
Proof.
  induction l as [|[k' v'] l IH]; cbn [assocN]; [discriminate|].
  destruct (N.eqb_spec k k') as [->|Hne]; intro H.
  - injection H as ->. left; reflexivity.
  - right; apply IH, H.
Qed.

Lemma step_inv d s i t : step d s i = Some t ->
  exists row, assocN s (d_trans d) = Some row /\ assocN i row = Some t.
Proof.
  unfold step. destruct (assocN s (d_trans d)) as [row|]; [|discriminate].
  intro H. exists row. split; [reflexivity|exact H].
Qed.

Lemma step_In_trans d s i t : step d s i = Some t -> In t (trans_states d).
Proof.
  intro H. apply step_inv in H. destruct H as [row [H1 H2]].
  apply assocN_In in H1. apply assocN_In in H2.
  unfold trans_states. apply in_flat_map. exists (s, row). split; [exact H1|].
  cbn [fst snd]. right. apply in_map_iff. exists (i, t). split; [reflexivity|exact H2].
Qed.

Lemma step_src_In_trans d s i t : step d s i = Some t -> In s (trans_states d).
Proof.
  intro H. apply step_inv in H. destruct H as [row [H1 H2]].
  apply assocN_In in H1.
  unfold trans_states. apply in_flat_map. exists (s, row). split; [exact H1|].
  cbn [fst snd]. left. reflexivity.
Qed.

Lemma step_In_alphabet d s i t : step d s i = Some t -> In i (alphabet d).
Proof.
  intro H. apply step_inv in H. destruct H as [row [H1 H2]].
  apply assocN_In in H1. apply assocN_In in H2.
  unfold alphabet. apply nodup_In. apply in_flat_map. exists (s, row). split; [exact H1|].
  cbn [fst snd]. apply in_map_iff. exists (i, t). split; [reflexivity|exact H2].
Qed.

Lemma In_states d s :
  In s (states d) <-> s = d_start d \/ In s (trans_states d) \/ In s (d_accepting d).
Proof.
  unfold states. rewrite nodup_In. cbn [In]. rewrite in_app_iff.
  split; intros [H|H]; auto.
Qed.

Lemma start_In_states d : In (d_start d) (states d).
Proof. apply In_states. left. reflexivity. Qed.

Lemma NoDup_states d : NoDup (states d).
Proof. apply NoDup_nodup. Qed.

Lemma step_In_states d s i t : step d s i = Some t -> In t (states d).
Proof. intro H. apply In_states. right. left. eapply step_In_trans, H. Qed.

Lemma step_src_In_states d s i t : step d s i = Some t -> In s (states d).
Proof. intro H. apply In_states. right. left. eapply step_src_In_trans, H. Qed.

Lemma is_accepting_In_states d s : is_accepting d s = true -> In s (states d).
Proof. intro H. apply In_states. right. right. apply memN_In, H. Qed.

(** ** [run] and [orun] *)

Lemma orun_None d w : orun d None w = None.
Proof. induction w as [|i r IH]; cbn [orun ostep]; [reflexivity|exact IH]. Qed.

Lemma run_orun d s w : run d s w = orun d (Some s) w.
Proof.
  revert s. induction w as [|i r IH]; intro s; cbn [run orun ostep]; [reflexivity|].
  destruct (step d s i); [apply IH|symmetry; apply orun_None].
Qed.

Lemma accepts_from_oaccepts_from d x w : accepts_from d x w = oaccepts_from d (Some x) w.
Proof.
  unfold accepts_from, oaccepts_from. rewrite run_orun.
  destruct (orun d (Some x) w); reflexivity.
Qed.

Lemma oaccepts_from_None d w : oaccepts_from d None w = false.
Proof. unfold oaccepts_from. rewrite orun_None. reflexivity. Qed.

Lemma oaccepts_from_cons d s i w : oaccepts_from d s (i :: w) = oaccepts_from d (ostep d s i) w.
Proof. reflexivity. Qed.

Lemma orun_app d s w1 w2 : orun d s (w1 ++ w2) = orun d (orun d s w1) w2.
Proof.
  revert s. induction w1 as [|i r IH]; intro s; cbn [app orun]; [reflexivity|apply IH].
Qed.

Lemma run_app d s w1 w2 :
  run d s (w1 ++ w2) = match run d s w1 with Some t => run d t w2 | None => None end.
Proof.
  rewrite (run_orun d s (w1 ++ w2)), (run_orun d s w1), orun_app.
  destruct (orun d (Some s) w1); [symmetry; apply run_orun|apply orun_None].
Qed.

Lemma accepts_app d w v s :
  run d (d_start d) w = Some s -> accepts d (w ++ v) = accepts_from d s v.
Proof. intro H. unfold accepts, accepts_from. rewrite run_app, H. reflexivity. Qed.

Lemma accepts_app_None d w v : run d (d_start d) w = None -> accepts d (w ++ v) = false.
Proof. intro H. unfold accepts, accepts_from. rewrite run_app, H. reflexivity. Qed.

Lemma run_In_states d : forall w s t, In s (states d) -> run d s w = Some t -> In t (states d).
Proof.
  induction w as [|i r IH]; intros s t Hs; cbn [run].
  - intro H. injection H as <-. exact Hs.
  - destruct (step d s i) as [u|] eqn:E; [|discriminate].
    apply IH. eapply step_In_states, E.
Qed.

(** ** the sink-completed state space *)

Lemma ostate_eqb_eq a b : ostate_eqb a b = true <-> a = b.
Proof.
  unfold ostate_eqb, option_eqb. destruct a as [a|], b as [b|]; split; intro H;
    try reflexivity; try discriminate.
  - apply N.eqb_eq in H. subst. reflexivity.
  - injection H as ->. apply N.eqb_refl.
Qed.

Lemma ostate_eqb_refl a : ostate_eqb a a = true.
Proof. apply ostate_eqb_eq. reflexivity. Qed.

Lemma pair_eqb_eq p q : pair_eqb p q = true <-> p = q.
Proof.
  destruct p as [a b], q as [a' b']. unfold pair_eqb. cbn [fst snd].
  rewrite andb_true_iff, !ostate_eqb_eq. split.
  - intros [-> ->]. reflexivity.
  - intro H. injection H as -> ->. split; reflexivity.
Qed.

Lemma pair_mem_In p l : pair_mem p l = true <-> In p l.
Proof.
  unfold pair_mem. rewrite existsb_exists. split.
  - intros [q [Hq He]]. apply pair_eqb_eq in He. subst. exact Hq.
  - intro H. exists p. split; [exact H|apply pair_eqb_eq; reflexivity].
Qed.

Lemma In_dom d s : In s (dom d) <-> s = None \/ exists x, s = Some x /\ In x (states d).
Proof.
  unfold dom. cbn [In]. rewrite in_map_iff. split.
  - intros [H|[x [H1 H2]]]; [left; symmetry; exact H|right; exists x; split; [symmetry; exact H1|exact H2]].
  - intros [H|[x [H1 H2]]]; [left; symmetry; exact H|right; exists x; split; [symmetry; exact H1|exact H2]].
Qed.

Lemma None_In_dom d : In None (dom d).
Proof. left. reflexivity. Qed.

Lemma Some_In_dom d x : In (Some x) (dom d) <-> In x (states d).
Proof.
  rewrite In_dom. split.
  - intros [H|[y [H1 H2]]]; [discriminate|]. injection H1 as ->. exact H2.
  - intro H. right. exists x. split; [reflexivity|exact H].
Qed.

Lemma ostep_dom d s i : In (ostep d s i) (dom d).
Proof.
  destruct s as [x|]; cbn [ostep]; [|apply None_In_dom].
  destruct (step d x i) as [t|] eqn:E; [|apply None_In_dom].
  apply Some_In_dom. eapply step_In_states, E.
Qed.

Lemma ostep_not_alphabet d s i : ~ In i (alphabet d) -> ostep d s i = None.
Proof.
  intro H. destruct s as [x|]; cbn [ostep]; [|reflexivity].
  destruct (step d x i) as [t|] eqn:E; [|reflexivity].
  exfalso. apply H. eapply step_In_alphabet, E.
Qed.

(** * 1, 2: language equality *)

Definition succ_pair (d1 d2 : dfa) (p : option N * option N) (i : N) : option N * option N :=
  (ostep d1 (fst p) i, ostep d2 (snd p) i).

Definition ex_inv (d1 d2 : dfa) (sigma : list N) (p0 : option N * option N)
           (V : list (option N * option N)) (T : list (list N * (option N * option N))) : Prop :=
  (forall p, In p V -> oacc d1 (fst p) = oacc d2 (snd p)) /\
  (forall p i, In p V -> In i sigma ->
     In (succ_pair d1 d2 p i) V \/ In (succ_pair d1 d2 p i) (map snd T)) /\
  (In p0 V \/ In p0 (map snd T)).

Lemma explore_yes d1 d2 sigma p0 : forall fuel V T,
  ex_inv d1 d2 sigma p0 V T -> explore fuel d1 d2 sigma V T = EqYes ->
  exists V', ex_inv d1 d2 sigma p0 V' [].
Proof.
  induction fuel as [|f IH]; intros V T Hinv; cbn [explore]; [discriminate|].
  destruct T as [|[w p] rest]; [intros _; exists V; exact Hinv|].
  destruct Hinv as [Hacc [Hsucc Hstart]].
  destruct (pair_mem p V) eqn:Hm.
  - apply pair_mem_In in Hm. apply IH. split; [exact Hacc|split].
    + intros q i Hq Hi. destruct (Hsucc q i Hq Hi) as [H|H]; [left; exact H|].
      cbn [map snd In] in H. destruct H as [<-|H]; [left; exact Hm|right; exact H].
    + destruct Hstart as [H|H]; [left; exact H|].
      cbn [map snd In] in H. destruct H as [<-|H]; [left; exact Hm|right; exact H].
  - destruct (Bool.eqb (oacc d1 (fst p)) (oacc d2 (snd p))) eqn:He; [|discriminate].
    apply Bool.eqb_prop in He. apply IH. split; [|split].
    + intros q [<-|Hq]; [exact He|apply Hacc, Hq].
    + intros q i [<-|Hq] Hi.
      * right. rewrite map_app, in_app_iff. left. rewrite map_map. cbn [snd].
        apply in_map_iff. exists i. split; [reflexivity|exact Hi].
      * destruct (Hsucc q i Hq Hi) as [H|H]; [left; right; exact H|].
        cbn [map snd In] in H. destruct H as [<-|H]; [left; left; reflexivity|].
        right. rewrite map_app, in_app_iff. right. exact H.
    + destruct Hstart as [H|H]; [left; right; exact H|].
      cbn [map snd In] in H. destruct H as [<-|H]; [left; left; reflexivity|].
      right. rewrite map_app, in_app_iff. right. exact H.
Qed.

Lemma closed_lang d1 d2 sigma p0 V :
  (forall i, In i (alphabet d1) -> In i sigma) ->
  (forall i, In i (alphabet d2) -> In i sigma) ->
  ex_inv d1 d2 sigma p0 V [] ->
  forall w p, In p V -> oaccepts_from d1 (fst p) w = oaccepts_from d2 (snd p) w.
Proof.
  intros Ha1 Ha2 [Hacc [Hsucc _]].
  induction w as [|i r IH]; intros p Hp.
  - unfold oaccepts_from. cbn [orun]. apply Hacc, Hp.
  - rewrite !oaccepts_from_cons. destruct (in_dec N.eq_dec i sigma) as [Hi|Hi].
    + destruct (Hsucc p i Hp Hi) as [H|[]]. apply (IH _ H).
    + rewrite (ostep_not_alphabet d1), (ostep_not_alphabet d2).
      * rewrite !oaccepts_from_None. reflexivity.
      * intro H. apply Hi, Ha2, H.
      * intro H. apply Hi, Ha1, H.
Qed.

Theorem equiv_dec_yes : forall d1 d2, equiv_dec d1 d2 = EqYes -> lang_eq d1 d2.
Proof.
  intros d1 d2 H. unfold equiv_dec in H.
  set (sigma := nodup N.eq_dec (alphabet d1 ++ alphabet d2)) in *.
  set (p0 := (Some (d_start d1), Some (d_start d2))) in *.
  apply (explore_yes d1 d2 sigma p0) in H.
  - destruct H as [V HV]. intro w. unfold accepts.
    rewrite !accepts_from_oaccepts_from.
    assert (Hp0 : In p0 V) by (destruct HV as [_ [_ [Hs|[]]]]; exact Hs).
    apply (closed_lang d1 d2 sigma p0 V) with (w := w) in Hp0; [exact Hp0| | |exact HV].
    + intros i Hi. apply nodup_In, in_app_iff. left. exact Hi.
    + intros i Hi. apply nodup_In, in_app_iff. right. exact Hi.
  - split; [intros p []|split; [intros p i []|]]. right. left. reflexivity.
Qed.

Definition todo_ok (d1 d2 : dfa) (T : list (list N * (option N * option N))) : Prop :=
  forall w p, In (w, p) T ->
    orun d1 (Some (d_start d1)) (rev w) = fst p /\ orun d2 (Some (d_start d2)) (rev w) = snd p.

Lemma explore_no d1 d2 sigma : forall fuel V T w,
  todo_ok d1 d2 T -> explore fuel d1 d2 sigma V T = EqNo w -> accepts d1 w <> accepts d2 w.
Proof.
  induction fuel as [|f IH]; intros V T w0 Hok; cbn [explore]; [discriminate|].
  destruct T as [|[w p] rest]; [discriminate|].
  assert (Hrest : todo_ok d1 d2 rest) by (intros w' p' H'; apply Hok; right; exact H').
  destruct (pair_mem p V); [apply IH, Hrest|].
  destruct (Hok w p (or_introl eq_refl)) as [H1 H2].
  destruct (Bool.eqb (oacc d1 (fst p)) (oacc d2 (snd p))) eqn:He.
  - apply IH. intros w' p' H'. apply in_app_or in H'. destruct H' as [H'|H']; [|apply Hrest, H'].
    apply in_map_iff in H'. destruct H' as [i [Hi _]]. injection Hi as <- <-.
    cbn [rev fst snd]. rewrite !orun_app, H1, H2. split; reflexivity.
  - intro H. injection H as <-. apply Bool.eqb_false_iff in He.
    unfold accepts. rewrite !accepts_from_oaccepts_from. unfold oaccepts_from.
    rewrite H1, H2. exact He.
Qed.

Theorem equiv_dec_no : forall d1 d2 w, equiv_dec d1 d2 = EqNo w -> accepts d1 w <> accepts d2 w.
Proof.
  intros d1 d2 w H. unfold equiv_dec in H. apply explore_no in H; [exact H|].
  intros w' p [H'|[]]. injection H' as <- <-. split; reflexivity.
Qed.

(** * 3: trim *)

Lemma succs_step d s t : In t (succs d s) <-> exists i, step d s i = Some t.
Proof.
  unfold succs, step. destruct (assocN s (d_trans d)) as [row|].
  - rewrite in_flat_map. split.
    + intros [[i t'] [Hin H]]. cbn [fst] in H. exists i.
      destruct (assocN i row) as [u|]; [|destruct H].
      destruct H as [->|[]]. reflexivity.
    + intros [i H]. exists (i, t). split; [apply assocN_In, H|].
      cbn [fst]. rewrite H. left. reflexivity.
  - split; [intros []|intros [i H]; discriminate].
Qed.

Lemma reachable_start d : reachable d (d_start d).
Proof. exists []. reflexivity. Qed.

Lemma reachable_step d s i t : reachable d s -> step d s i = Some t -> reachable d t.
Proof.
  intros [w Hw] H. exists (w ++ [i]). rewrite run_app, Hw. cbn [run]. rewrite H. reflexivity.
Qed.

Lemma reachable_In_states d s : reachable d s -> In s (states d).
Proof. intros [w Hw]. eapply run_In_states; [apply start_In_states|exact Hw]. Qed.

Lemma coreachable_accepting d s : is_accepting d s = true -> coreachable d s.
Proof. intro H. exists []. exact H. Qed.

Lemma coreachable_step d s i t : step d s i = Some t -> coreachable d t -> coreachable d s.
Proof.
  intros H [w Hw]. exists (i :: w). unfold accepts_from in *. cbn [run]. rewrite H. exact Hw.
Qed.

Lemma reach_sound d : forall fuel V T,
  (forall s, In s V -> reachable d s) -> (forall s, In s T -> reachable d s) ->
  forall s, In s (reach fuel d V T) -> reachable d s.
Proof.
  induction fuel as [|f IH]; intros V T HV HT; cbn [reach]; [exact HV|].
  destruct T as [|x r]; [exact HV|].
  destruct (memN x V).
  - apply IH; [exact HV|]. intros s Hs. apply HT. right. exact Hs.
  - apply IH.
    + intros s [<-|Hs]; [apply HT; left; reflexivity|apply HV, Hs].
    + intros s Hs. apply in_app_or in Hs. destruct Hs as [Hs|Hs].
      * apply succs_step in Hs. destruct Hs as [i Hi].
        eapply reachable_step; [|exact Hi]. apply HT. left. reflexivity.
      * apply HT. right. exact Hs.
Qed.

Lemma co_step_sound d sts C :
  (forall s, In s C -> coreachable d s) -> forall s, In s (co_step d sts C) -> coreachable d s.
Proof.
  intros HC s Hs. unfold co_step in Hs. apply filter_In in Hs. destruct Hs as [_ Hs].
  apply orb_true_iff in Hs. destruct Hs as [Hs|Hs].
  - apply HC, memN_In, Hs.
  - apply existsb_exists in Hs. destruct Hs as [t [Ht Hm]].
    apply succs_step in Ht. destruct Ht as [i Hi].
    eapply coreachable_step; [exact Hi|]. apply HC, memN_In, Hm.
Qed.

Lemma co_iter_sound d sts : forall fuel C,
  (forall s, In s C -> coreachable d s) -> forall s, In s (co_iter fuel d sts C) -> coreachable d s.
Proof.
  induction fuel as [|f IH]; intros C HC; cbn [co_iter]; [exact HC|].
  destruct (Nat.eqb _ _); [exact HC|]. apply IH. apply co_step_sound, HC.
Qed.

Theorem trim_dec_sound : forall d, trim_dec d = true -> trim d.
Proof.
  intros d H. unfold trim_dec in H. rewrite forallb_forall in H.
  split; intros s Hs; specialize (H s Hs); apply andb_true_iff in H; destruct H as [H1 H2].
  - apply memN_In in H1. unfold reachable_set in H1. revert H1. apply reach_sound.
    + intros x [].
    + intros x [<-|[]]. apply reachable_start.
  - apply memN_In in H2. unfold coreachable_set in H2. revert H2. apply co_iter_sound.
    intros x Hx. apply filter_In in Hx. apply coreachable_accepting, Hx.
Qed.

(** * 4: pairwise distinguishability *)

Definition tbl_inv (d : dfa) (tbl : list (option N * N)) : Prop :=
  forall s t, In s (dom d) -> In t (dom d) -> oassoc s tbl <> oassoc t tbl ->
    exists w, oaccepts_from d s w <> oaccepts_from d t w.

Lemma oassoc_map (f : option N -> N) l s :
  In s l -> oassoc s (map (fun s => (s, f s)) l) = f s.
Proof.
  induction l as [|k l IH]; [intros []|]. intro H. cbn [map oassoc].
  destruct (ostate_eqb s k) eqn:E.
  - apply ostate_eqb_eq in E. subst. reflexivity.
  - apply IH. destruct H as [->|H]; [|exact H]. rewrite ostate_eqb_refl in E. discriminate.
Qed.

Lemma table0_inv d : tbl_inv d (table0 d).
Proof.
  intros s t Hs Ht. unfold table0. rewrite !oassoc_map by assumption.
  intro H. exists []. unfold oaccepts_from. cbn [orun].
  destruct (oacc d s), (oacc d t); congruence.
Qed.

Lemma map_neq_ex (f g : N -> N) l : map f l <> map g l -> exists i, In i l /\ f i <> g i.
Proof.
  induction l as [|a l IH]; cbn [map]; intro H; [contradiction H; reflexivity|].
  destruct (N.eq_dec (f a) (g a)) as [E|E].
  - destruct IH as [i [Hi Hn]]; [intro E'; apply H; rewrite E, E'; reflexivity|].
    exists i. split; [right; exact Hi|exact Hn].
  - exists a. split; [left; reflexivity|exact E].
Qed.

Lemma refine_oassoc d sigma tbl s : In s (dom d) ->
  oassoc s (refine d sigma tbl) =
  index_of (sig d sigma tbl s) (map (sig d sigma tbl) (dom d)) 0.
Proof.
  intro H. unfold refine.
  apply (oassoc_map (fun s => index_of (sig d sigma tbl s) (map (sig d sigma tbl) (dom d)) 0)).
  exact H.
Qed.

Lemma refine_inv d sigma tbl : tbl_inv d tbl -> tbl_inv d (refine d sigma tbl).
Proof.
  intros Hinv s t Hs Ht Hne. rewrite !refine_oassoc in Hne by assumption.
  assert (Hsig : sig d sigma tbl s <> sig d sigma tbl t)
    by (intro E; apply Hne; rewrite E; reflexivity).
  unfold sig in Hsig.
  destruct (N.eq_dec (oassoc s tbl) (oassoc t tbl)) as [E|NE]; [|apply Hinv; assumption].
  rewrite E in Hsig.
  destruct (map_neq_ex (fun i => oassoc (ostep d s i) tbl) (fun i => oassoc (ostep d t i) tbl) sigma)
    as [i [Hi Hn]]; [intro E'; apply Hsig; rewrite E'; reflexivity|].
  destruct (Hinv (ostep d s i) (ostep d t i) (ostep_dom d s i) (ostep_dom d t i) Hn) as [w Hw].
  exists (i :: w). rewrite !oaccepts_from_cons. exact Hw.
Qed.

Lemma nodupb_NoDup l : nodupb l = true <-> NoDup l.
Proof.
  induction l as [|x r IH]; cbn [nodupb].
  - split; [constructor|reflexivity].
  - rewrite andb_true_iff, negb_true_iff, memN_false, IH. split.
    + intros [H1 H2]. constructor; assumption.
    + intro H. inversion H; subst. split; assumption.
Qed.

Lemma NoDup_map_inj {A B} (f : A -> B) l x y :
  NoDup (map f l) -> In x l -> In y l -> f x = f y -> x = y.
Proof.
  induction l as [|a l IH]; cbn [map]; [intros _ []|].
  intros Hnd Hx Hy E. inversion Hnd as [|? ? Hnotin Hnd']; subst.
  destruct Hx as [->|Hx], Hy as [->|Hy].
  - reflexivity.
  - exfalso. apply Hnotin. rewrite E. apply in_map, Hy.
  - exfalso. apply Hnotin. rewrite <- E. apply in_map, Hx.
  - apply IH; assumption.
Qed.

Lemma nodup_classes_distinct d tbl :
  tbl_inv d tbl -> nodupb (classes d tbl) = true -> pairwise_distinguishable d.
Proof.
  intros Hinv Hnd s t Hs Ht Hne. apply nodupb_NoDup in Hnd. unfold classes in Hnd.
  destruct (Hinv (Some s) (Some t)) as [w Hw].
  - apply Some_In_dom, Hs.
  - apply Some_In_dom, Ht.
  - intro E. apply Hne. eapply (NoDup_map_inj (fun s => oassoc (Some s) tbl)); eassumption.
  - exists w. rewrite !accepts_from_oaccepts_from. exact Hw.
Qed.

Lemma moore_sound d sigma : forall fuel tbl,
  tbl_inv d tbl -> moore fuel d sigma tbl = true -> pairwise_distinguishable d.
Proof.
  induction fuel as [|f IH]; intros tbl Hinv; cbn [moore];
    destruct (nodupb (classes d tbl)) eqn:Hnd;
    try (intros _; eapply nodup_classes_distinct; eassumption); [discriminate|].
  destruct (Nat.eqb _ _); [discriminate|]. apply IH. apply refine_inv, Hinv.
Qed.

Theorem distinct_dec_sound : forall d, distinct_dec d = true -> pairwise_distinguishable d.
Proof. intros d. unfold distinct_dec. apply moore_sound, table0_inv. Qed.

(** * 5: a trim automaton with pairwise distinguishable states has minimal size *)

Lemma Forall2_choice {A B} (P : A -> B -> Prop) l :
  (forall x, In x l -> exists y, P x y) -> exists ys, Forall2 P l ys.
Proof.
  induction l as [|a l IH]; intro H; [exists []; constructor|].
  destruct (H a (or_introl eq_refl)) as [y Hy].
  destruct IH as [ys Hys]; [intros x Hx; apply H; right; exact Hx|].
  exists (y :: ys). constructor; assumption.
Qed.

Lemma Forall2_In_r {A B} (P : A -> B -> Prop) l ys y :
  Forall2 P l ys -> In y ys -> exists x, In x l /\ P x y.
Proof.
  induction 1 as [|a b l ys Hab _ IH]; [intros []|].
  intros [<-|Hy].
  - exists a. split; [left; reflexivity|exact Hab].
  - destruct (IH Hy) as [x [Hx Hp]]. exists x. split; [right; exact Hx|exact Hp].
Qed.

Lemma Forall2_same_length {A B} (P : A -> B -> Prop) l ys :
  Forall2 P l ys -> List.length l = List.length ys.
Proof. induction 1 as [|a b l ys _ _ IH]; cbn [List.length]; [reflexivity|rewrite IH; reflexivity]. Qed.

Lemma Forall2_NoDup_inj {A B} (P : A -> B -> Prop) l ys :
  Forall2 P l ys -> NoDup l ->
  (forall x x' y, In x l -> In x' l -> P x y -> P x' y -> x = x') -> NoDup ys.
Proof.
  induction 1 as [|a b l ys Hab HF IH]; intros Hnd Hinj; [constructor|].
  inversion Hnd as [|? ? Hnotin Hnd']; subst. constructor.
  - intro Hb. destruct (Forall2_In_r P l ys b HF Hb) as [x [Hx Hp]].
    apply Hnotin. rewrite (Hinj a x b); [exact Hx|left; reflexivity|right; exact Hx|exact Hab|exact Hp].
  - apply IH; [exact Hnd'|]. intros x x' y Hx Hx'. apply Hinj; right; assumption.
Qed.

Theorem myhill_nerode_size : forall m, trim m -> pairwise_distinguishable m -> minimal_size m.
Proof.
  intros m [Hr Hc] Hd d' Hl.
  set (P := fun s t => exists w, run m (d_start m) w = Some s /\ run d' (d_start d') w = Some t).
  destruct (Forall2_choice P (states m)) as [ys Hys].
  { intros s Hs. destruct (Hr s Hs) as [w Hw]. destruct (Hc s Hs) as [v Hv].
    destruct (run d' (d_start d') w) as [t|] eqn:E.
    - exists t, w. split; [exact Hw|exact E].
    - exfalso. pose proof (Hl (w ++ v)) as H.
      rewrite (accepts_app m w v s Hw), Hv, (accepts_app_None d' w v E) in H. discriminate. }
  rewrite (Forall2_same_length P _ _ Hys). apply NoDup_incl_length.
  - apply (Forall2_NoDup_inj P (states m) ys Hys (NoDup_states m)).
    intros s s' t Hs Hs' [w [Hw1 Hw2]] [w' [Hw1' Hw2']].
    destruct (N.eq_dec s s') as [E|NE]; [exact E|exfalso].
    destruct (Hd s s' Hs Hs' NE) as [v Hv]. apply Hv.
    rewrite <- (accepts_app m w v s Hw1), <- (accepts_app m w' v s' Hw1'), <- !Hl.
    rewrite (accepts_app d' w v t Hw2), (accepts_app d' w' v t Hw2'). reflexivity.
  - intros t Ht. destruct (Forall2_In_r P _ _ t Hys Ht) as [s [_ [w [_ Hw]]]].
    eapply run_In_states; [apply start_In_states|exact Hw].
Qed.

(** * 6: the validator *)

Theorem validate_sound : forall d m, validate d m = true ->
  lang_eq m d /\ trim m /\ pairwise_distinguishable m /\ minimal_size m.
Proof.
  intros d m H. unfold validate in H.
  destruct (equiv_dec d m) eqn:E; try discriminate.
  apply andb_true_iff in H. destruct H as [Ht Hd].
  apply equiv_dec_yes in E. apply trim_dec_sound in Ht. apply distinct_dec_sound in Hd.
  split; [intro w; symmetry; apply E|]. split; [exact Ht|]. split; [exact Hd|].
  apply myhill_nerode_size; assumption.
Qed.

(** * 7: completeness of [trim_dec] *)

(** ** the forward exploration terminates within its fuel *)

Fixpoint pot (tr : list (N * list (N * N))) (V : list N) : nat :=
  match tr with
  | [] => 0%nat
  | (k, row) :: r => ((if memN k V then 0 else S (List.length row)) + pot r V)%nat
  end.

Lemma memN_cons k x V : memN k (x :: V) = N.eqb k x || memN k V.
Proof. reflexivity. Qed.

Lemma pot_mono tr V x : (pot tr (x :: V) <= pot tr V)%nat.
Proof.
  induction tr as [|[k row] r IH]; cbn [pot]; [lia|].
  rewrite memN_cons. destruct (N.eqb k x), (memN k V); cbn [orb]; lia.
Qed.

Lemma pot_dec tr V x row : memN x V = false -> assocN x tr = Some row ->
  (pot tr (x :: V) + S (List.length row) <= pot tr V)%nat.
Proof.
  intros Hm. induction tr as [|[k row'] r IH]; cbn [pot assocN]; [discriminate|].
  rewrite memN_cons. rewrite (N.eqb_sym k x). destruct (N.eqb_spec x k) as [->|Hne].
  - intro H. injection H as ->. rewrite Hm. cbn [orb]. pose proof (pot_mono r V k). lia.
  - intro H. specialize (IH H). cbn [orb]. destruct (memN k V); lia.
Qed.

Lemma pot_nil d : pot (d_trans d) [] = List.length (trans_states d).
Proof.
  unfold trans_states. induction (d_trans d) as [|[k row] r IH]; cbn [pot flat_map]; [reflexivity|].
  rewrite app_length. cbn [memN existsb fst snd List.length]. rewrite map_length, IH. reflexivity.
Qed.

Lemma flat_map_length_le1 {A B} (f : A -> list B) l :
  (forall x, (List.length (f x) <= 1)%nat) -> (List.length (flat_map f l) <= List.length l)%nat.
Proof.
  intro H. induction l as [|a l IH]; cbn [flat_map List.length]; [lia|].
  rewrite app_length. specialize (H a). lia.
Qed.

Lemma succs_pot d V x : memN x V = false ->
  (List.length (succs d x) + pot (d_trans d) (x :: V) <= pot (d_trans d) V)%nat.
Proof.
  intro Hm. unfold succs. destruct (assocN x (d_trans d)) as [row|] eqn:E.
  - pose proof (pot_dec _ _ _ _ Hm E) as H1.
    pose proof (flat_map_length_le1
      (fun it : N * N => match assocN (fst it) row with Some t => [t] | None => [] end) row) as H2.
    assert (H3 : forall it : N * N,
      (List.length (match assocN (fst it) row with Some t => [t] | None => [] end) <= 1)%nat)
      by (intro it; destruct (assocN (fst it) row); cbn [List.length]; lia).
    specialize (H2 H3). lia.
  - cbn [List.length]. apply pot_mono.
Qed.

Lemma reach_complete d : forall fuel V T,
  (List.length T + pot (d_trans d) V < fuel)%nat ->
  (forall s t, In s V -> In t (succs d s) -> In t V \/ In t T) ->
  incl V (reach fuel d V T) /\ incl T (reach fuel d V T) /\
  (forall s t, In s (reach fuel d V T) -> In t (succs d s) -> In t (reach fuel d V T)).
Proof.
  induction fuel as [|f IH]; intros V T Hlt Hcl; [lia|]. cbn [reach].
  destruct T as [|x r].
  { split; [apply incl_refl|]. split; [intros ? []|].
    intros s t Hs Ht. destruct (Hcl s t Hs Ht) as [H|[]]. exact H. }
  cbn [List.length] in Hlt. destruct (memN x V) eqn:Hm.
  - destruct (IH V r) as [H1 [H2 H3]].
    + lia.
    + intros s t Hs Ht. destruct (Hcl s t Hs Ht) as [H|[<-|H]];
        [left; exact H|left; apply memN_In, Hm|right; exact H].
    + split; [exact H1|]. split; [|exact H3].
      intros y [<-|Hy]; [apply H1, memN_In, Hm|apply H2, Hy].
  - destruct (IH (x :: V) (succs d x ++ r)) as [H1 [H2 H3]].
    + rewrite app_length. pose proof (succs_pot d V x Hm). lia.
    + intros s t [<-|Hs] Ht; [right; apply in_or_app; left; exact Ht|].
      destruct (Hcl s t Hs Ht) as [H|[<-|H]];
        [left; right; exact H|left; left; reflexivity|right; apply in_or_app; right; exact H].
    + split; [intros y Hy; apply H1; right; exact Hy|]. split; [|exact H3].
      intros y [<-|Hy]; [apply H1; left; reflexivity|apply H2, in_or_app; right; exact Hy].
Qed.

Lemma closed_reachable d R :
  In (d_start d) R -> (forall s t, In s R -> In t (succs d s) -> In t R) ->
  forall s, reachable d s -> In s R.
Proof.
  intros Hstart Hcl s [w Hw]. revert s Hw.
  induction w as [|i w IH] using rev_ind; intros s Hw.
  - cbn [run] in Hw. injection Hw as <-. exact Hstart.
  - rewrite run_app in Hw. destruct (run d (d_start d) w) as [u|]; [|discriminate].
    cbn [run] in Hw. destruct (step d u i) as [t|] eqn:E; [|discriminate].
    injection Hw as <-. apply (Hcl u t); [apply IH; reflexivity|].
    apply succs_step. exists i. exact E.
Qed.

Lemma reachable_set_complete d s : reachable d s -> In s (reachable_set d).
Proof.
  unfold reachable_set. destruct (reach_complete d (reach_fuel d) [] [d_start d]) as [_ [H2 H3]].
  - unfold reach_fuel. rewrite pot_nil. cbn [List.length]. lia.
  - intros ? ? [].
  - apply closed_reachable; [apply H2; left; reflexivity|exact H3].
Qed.

(** ** the backward saturation reaches its fixpoint within its fuel *)

Lemma co_step_incl_sts d sts C : incl (co_step d sts C) sts.
Proof. intros s Hs. apply filter_In in Hs. apply Hs. Qed.

Lemma co_step_extensive d sts C : incl C sts -> incl C (co_step d sts C).
Proof.
  intros H s Hs. apply filter_In. split; [apply H, Hs|].
  apply orb_true_iff. left. apply memN_In, Hs.
Qed.

Lemma co_iter_closed d sts : NoDup sts -> forall fuel C,
  NoDup C -> incl C sts -> (List.length sts < fuel + List.length C)%nat ->
  incl C (co_iter fuel d sts C) /\
  incl (co_step d sts (co_iter fuel d sts C)) (co_iter fuel d sts C).
Proof.
  intros Hsts. induction fuel as [|f IH]; intros C Hnd Hincl Hlt.
  - pose proof (NoDup_incl_length Hnd Hincl). lia.
  - cbn [co_iter].
    pose proof (co_step_extensive d sts C Hincl) as Hext.
    pose proof (NoDup_incl_length Hnd Hext) as Hle.
    destruct (Nat.eqb_spec (List.length (co_step d sts C)) (List.length C)) as [E|NE].
    + split; [apply incl_refl|]. apply NoDup_length_incl; [exact Hnd|lia|exact Hext].
    + destruct (IH (co_step d sts C)) as [H1 H2].
      * apply NoDup_filter, Hsts.
      * apply co_step_incl_sts.
      * lia.
      * split; [|exact H2]. intros s Hs. apply H1, Hext, Hs.
Qed.

Lemma coreachable_set_complete d s : In s (states d) -> coreachable d s -> In s (coreachable_set d).
Proof.
  intros Hs [w Hw]. unfold coreachable_set.
  destruct (co_iter_closed d (states d) (NoDup_states d) (S (List.length (states d)))
              (filter (is_accepting d) (states d))) as [H1 H2].
  - apply NoDup_filter, NoDup_states.
  - intros x Hx. apply filter_In in Hx. apply Hx.
  - lia.
  - set (R := co_iter _ _ _ _) in *. revert s Hs Hw.
    induction w as [|i r IH]; intros s Hs Hw.
    + apply H1, filter_In. split; [exact Hs|exact Hw].
    + unfold accepts_from in Hw. cbn [run] in Hw.
      destruct (step d s i) as [t|] eqn:E; [|discriminate].
      apply H2. apply filter_In. split; [exact Hs|]. apply orb_true_iff. right.
      apply existsb_exists. exists t. split; [apply succs_step; exists i; exact E|].
      apply memN_In, IH; [eapply step_In_states, E|exact Hw].
Qed.

Theorem trim_dec_complete : forall d, trim d -> trim_dec d = true.
Proof.
  intros d [Hr Hc]. unfold trim_dec. apply forallb_forall. intros s Hs.
  apply andb_true_iff. split; apply memN_In.
  - apply reachable_set_complete, Hr, Hs.
  - apply coreachable_set_complete; [exact Hs|apply Hc, Hs].
Qed.

(** * 8: completeness of [distinct_dec] *)

Lemma listN_eqb_eq a b : listN_eqb a b = true <-> a = b.
Proof.
  revert b. induction a as [|x r IH]; intros [|y r']; cbn [listN_eqb].
  - split; reflexivity.
  - split; discriminate.
  - split; discriminate.
  - rewrite andb_true_iff, N.eqb_eq, IH. split.
    + intros [-> ->]. reflexivity.
    + intro H. injection H as -> ->. split; reflexivity.
Qed.

Lemma index_of_ge x l : forall i, i <= index_of x l i.
Proof.
  induction l as [|y r IH]; intro i; cbn [index_of]; [lia|].
  destruct (listN_eqb x y); [lia|]. specialize (IH (i + 1)). lia.
Qed.

Lemma index_of_inj l : forall i x y,
  In x l -> In y l -> index_of x l i = index_of y l i -> x = y.
Proof.
  induction l as [|z r IH]; intros i x y Hx Hy; [destruct Hx|]. cbn [index_of].
  destruct (listN_eqb x z) eqn:Ex, (listN_eqb y z) eqn:Ey.
  - apply listN_eqb_eq in Ex, Ey. congruence.
  - intro H. pose proof (index_of_ge y r (i + 1)). lia.
  - intro H. pose proof (index_of_ge x r (i + 1)). lia.
  - apply IH.
    + destruct Hx as [<-|Hx]; [|exact Hx].
      rewrite (proj2 (listN_eqb_eq z z) eq_refl) in Ex. discriminate.
    + destruct Hy as [<-|Hy]; [|exact Hy].
      rewrite (proj2 (listN_eqb_eq z z) eq_refl) in Ey. discriminate.
Qed.

(** ** counting classes *)

Lemma nodup_length_le (l : list N) : (List.length (nodup N.eq_dec l) <= List.length l)%nat.
Proof.
  apply NoDup_incl_length; [apply NoDup_nodup|]. intros x Hx. apply nodup_In in Hx. exact Hx.
Qed.

Lemma NoDup_map_of_inj {A B} (f : A -> B) l :
  NoDup l -> (forall x y, In x l -> In y l -> f x = f y -> x = y) -> NoDup (map f l).
Proof.
  induction 1 as [|a l Hnin Hnd IH]; intro Hinj; cbn [map]; constructor.
  - intro Hin. apply in_map_iff in Hin. destruct Hin as [x [Hfx Hx]]. apply Hnin.
    rewrite <- (Hinj x a); [exact Hx|right; exact Hx|left; reflexivity|exact Hfx].
  - apply IH. intros x y Hx Hy. apply Hinj; right; assumption.
Qed.

(** representatives of the classes of [f] on [D] *)
Lemma reps_exist {A} (f : A -> N) (D : list A) :
  exists R, incl R D /\ NoDup (map f R) /\ (forall x, In x D -> In (f x) (map f R)).
Proof.
  induction D as [|a D [R [H1 [H2 H3]]]].
  - exists []. split; [apply incl_refl|]. split; [constructor|intros x []].
  - destruct (in_dec N.eq_dec (f a) (map f R)) as [Hin|Hnin].
    + exists R. split; [intros x Hx; right; apply H1, Hx|]. split; [exact H2|].
      intros x [<-|Hx]; [exact Hin|apply H3, Hx].
    + exists (a :: R). split; [intros x [<-|Hx]; [left; reflexivity|right; apply H1, Hx]|].
      split; [cbn [map]; constructor; assumption|].
      intros x [<-|Hx]; [left; reflexivity|right; apply H3, Hx].
Qed.

Lemma reps_length {A} (f : A -> N) D R :
  incl R D -> NoDup (map f R) -> (forall x, In x D -> In (f x) (map f R)) ->
  List.length (nodup N.eq_dec (map f D)) = List.length R.
Proof.
  intros H1 H2 H3. rewrite <- (map_length f R). apply Nat.le_antisymm; apply NoDup_incl_length.
  - apply NoDup_nodup.
  - intros y Hy. apply nodup_In in Hy. apply in_map_iff in Hy. destruct Hy as [x [<- Hx]].
    apply H3, Hx.
  - exact H2.
  - intros y Hy. apply nodup_In. apply in_map_iff in Hy. destruct Hy as [x [<- Hx]].
    apply in_map, H1, Hx.
Qed.

(** a refinement has at least as many classes, and exactly as many only if it is the same
    partition *)
Lemma refine_count {A} (f g : A -> N) D :
  (forall x y, In x D -> In y D -> g x = g y -> f x = f y) ->
  (List.length (nodup N.eq_dec (map f D)) <= List.length (nodup N.eq_dec (map g D)))%nat /\
  (List.length (nodup N.eq_dec (map f D)) = List.length (nodup N.eq_dec (map g D)) ->
   forall x y, In x D -> In y D -> f x = f y -> g x = g y).
Proof.
  intros Href. destruct (reps_exist f D) as [R [H1 [H2 H3]]].
  rewrite (reps_length f D R H1 H2 H3).
  assert (HgR : NoDup (map g R)).
  { apply NoDup_map_of_inj; [eapply NoDup_map_inv, H2|].
    intros x y Hx Hy E. apply (NoDup_map_inj f R); try assumption.
    apply Href; [apply H1, Hx|apply H1, Hy|exact E]. }
  assert (Hincl : forall z, In z D -> In (g z) (nodup N.eq_dec (map g D)))
    by (intros z Hz; apply nodup_In, in_map, Hz).
  split.
  - rewrite <- (map_length g R). apply NoDup_incl_length; [exact HgR|].
    intros y Hy. apply in_map_iff in Hy. destruct Hy as [x [<- Hx]]. apply Hincl, H1, Hx.
  - intros E x y Hx Hy Hf. destruct (N.eq_dec (g x) (g y)) as [Eg|NE]; [exact Eg|exfalso].
    pose proof (H3 x Hx) as Hr. apply in_map_iff in Hr. destruct Hr as [r [Hfr Hr]].
    assert (Hz : exists z, In z D /\ f z = f r /\ g z <> g r).
    { destruct (N.eq_dec (g x) (g r)) as [Exr|Nxr].
      - exists y. split; [exact Hy|]. split; congruence.
      - exists x. split; [exact Hx|]. split; congruence. }
    destruct Hz as [z [Hz [Hfz Hgz]]].
    assert (Hnd : NoDup (g z :: map g R)).
    { constructor; [|exact HgR]. intro Hin. apply in_map_iff in Hin.
      destruct Hin as [r' [Hg' Hr']].
      assert (Hf' : f r' = f z) by (apply Href; [apply H1, Hr'|exact Hz|exact Hg']).
      assert (r' = r) by (apply (NoDup_map_inj f R); try assumption; congruence).
      subst r'. apply Hgz. symmetry. exact Hg'. }
    assert (Hle : (List.length (g z :: map g R) <= List.length (nodup N.eq_dec (map g D)))%nat).
    { apply NoDup_incl_length; [exact Hnd|]. intros u [<-|Hu]; [apply Hincl, Hz|].
      apply in_map_iff in Hu. destruct Hu as [x' [<- Hx']]. apply Hincl, H1, Hx'. }
    cbn [List.length] in Hle. rewrite map_length in Hle. lia.
Qed.

(** ** Moore refinement *)

Lemma refine_refines d sigma tbl s t : In s (dom d) -> In t (dom d) ->
  oassoc s (refine d sigma tbl) = oassoc t (refine d sigma tbl) ->
  sig d sigma tbl s = sig d sigma tbl t.
Proof.
  intros Hs Ht. rewrite !refine_oassoc by assumption.
  apply index_of_inj; apply in_map; assumption.
Qed.

Lemma sig_eq_inv d sigma tbl s t : sig d sigma tbl s = sig d sigma tbl t ->
  oassoc s tbl = oassoc t tbl /\
  forall i, In i sigma -> oassoc (ostep d s i) tbl = oassoc (ostep d t i) tbl.
Proof.
  unfold sig. intro H. injection H as H1 H2. split; [exact H1|].
  apply map_ext_in_iff. exact H2.
Qed.

Definition acc_inv (d : dfa) (tbl : list (option N * N)) : Prop :=
  forall s t, In s (dom d) -> In t (dom d) -> oassoc s tbl = oassoc t tbl -> oacc d s = oacc d t.

Lemma table0_acc_inv d : acc_inv d (table0 d).
Proof.
  intros s t Hs Ht. unfold table0. rewrite !oassoc_map by assumption.
  destruct (oacc d s), (oacc d t); intro H; try reflexivity; discriminate.
Qed.

Lemma refine_acc_inv d sigma tbl : acc_inv d tbl -> acc_inv d (refine d sigma tbl).
Proof.
  intros HB s t Hs Ht E. apply HB; try assumption.
  apply (refine_refines d sigma tbl s t Hs Ht) in E. apply sig_eq_inv in E. apply E.
Qed.

Lemma stable_nerode d tbl : acc_inv d tbl ->
  (forall s t, In s (dom d) -> In t (dom d) -> oassoc s tbl = oassoc t tbl ->
     oassoc s (refine d (alphabet d) tbl) = oassoc t (refine d (alphabet d) tbl)) ->
  forall w s t, In s (dom d) -> In t (dom d) -> oassoc s tbl = oassoc t tbl ->
    oaccepts_from d s w = oaccepts_from d t w.
Proof.
  intros HB Hst. induction w as [|i r IH]; intros s t Hs Ht E.
  - unfold oaccepts_from. cbn [orun]. apply HB; assumption.
  - rewrite !oaccepts_from_cons. destruct (in_dec N.eq_dec i (alphabet d)) as [Hi|Hi].
    + apply IH; try apply ostep_dom.
      pose proof (Hst s t Hs Ht E) as E'. apply refine_refines in E'; try assumption.
      apply sig_eq_inv in E'. apply E', Hi.
    + rewrite !(ostep_not_alphabet d _ i Hi). reflexivity.
Qed.

Lemma nclasses_le d tbl : (nclasses d tbl <= List.length (dom d))%nat.
Proof.
  unfold nclasses. etransitivity; [apply nodup_length_le|]. rewrite map_length. lia.
Qed.

Lemma moore_complete d : pairwise_distinguishable d -> forall fuel tbl,
  acc_inv d tbl -> (List.length (dom d) < nclasses d tbl + fuel)%nat ->
  moore fuel d (alphabet d) tbl = true.
Proof.
  intros Hpd. induction fuel as [|f IH]; intros tbl HB Hlt; cbn [moore];
    destruct (nodupb (classes d tbl)) eqn:Hnd; try reflexivity.
  - pose proof (nclasses_le d tbl). lia.
  - set (tbl' := refine d (alphabet d) tbl).
    destruct (refine_count (fun s => oassoc s tbl) (fun s => oassoc s tbl') (dom d)) as [Hle Heq].
    { intros s t Hs Ht E. apply (refine_refines d (alphabet d) tbl s t Hs Ht) in E.
      apply sig_eq_inv in E. apply E. }
    fold (nclasses d tbl) in Hle, Heq. fold (nclasses d tbl') in Hle, Heq.
    destruct (Nat.eqb_spec (nclasses d tbl') (nclasses d tbl)) as [E|NE].
    + exfalso. specialize (Heq (eq_sym E)).
      assert (Hnd' : NoDup (classes d tbl)).
      { unfold classes. apply NoDup_map_of_inj; [apply NoDup_states|].
        intros x y Hx Hy Exy. destruct (N.eq_dec x y) as [|NExy]; [assumption|exfalso].
        destruct (Hpd x y Hx Hy NExy) as [w Hw]. apply Hw.
        rewrite !accepts_from_oaccepts_from.
        apply (stable_nerode d tbl HB Heq); [apply Some_In_dom, Hx|apply Some_In_dom, Hy|exact Exy]. }
      apply nodupb_NoDup in Hnd'. congruence.
    + apply IH; [apply refine_acc_inv, HB|]. fold tbl'. lia.
Qed.

Theorem distinct_dec_complete : forall d, pairwise_distinguishable d -> distinct_dec d = true.
Proof.
  intros d Hpd. unfold distinct_dec. apply moore_complete; [exact Hpd|apply table0_acc_inv|].
  assert (H : (1 <= nclasses d (table0 d))%nat).
  { unfold nclasses, dom. cbn [map].
    assert (Hin : In (oassoc None (table0 d))
                     (nodup N.eq_dec (oassoc None (table0 d) ::
                        map (fun s => oassoc s (table0 d)) (map Some (states d)))))
      by (apply nodup_In; left; reflexivity).
    destruct (nodup N.eq_dec _); [destruct Hin|cbn [List.length]; lia]. }
  unfold dom. cbn [List.length]. rewrite map_length. lia.
Qed.

(** * 9: the product exploration never runs out of fuel *)

Lemma succ_pair_In_prod d1 d2 p i : In (succ_pair d1 d2 p i) (list_prod (dom d1) (dom d2)).
Proof. unfold succ_pair. apply in_prod; apply ostep_dom. Qed.

Lemma explore_total d1 d2 sigma : forall fuel V T,
  NoDup V -> incl V (list_prod (dom d1) (dom d2)) ->
  (forall w p, In (w, p) T -> In p (list_prod (dom d1) (dom d2))) ->
  (List.length T +
   (List.length (list_prod (dom d1) (dom d2)) - List.length V) * S (List.length sigma) < fuel)%nat ->
  explore fuel d1 d2 sigma V T <> EqFuel.
Proof.
  induction fuel as [|f IH]; intros V T Hnd HV HT Hlt; [exfalso; exact (Nat.nlt_0_r _ Hlt)|]. cbn [explore].
  destruct T as [|[w p] rest]; [discriminate|]. cbn [List.length] in Hlt.
  assert (HT' : forall w' p', In (w', p') rest -> In p' (list_prod (dom d1) (dom d2)))
    by (intros w' p' H; apply (HT w'); right; exact H).
  destruct (pair_mem p V) eqn:Hm.
  - apply IH; try assumption. lia.
  - destruct (Bool.eqb _ _); [|discriminate].
    assert (Hp : In p (list_prod (dom d1) (dom d2))) by (apply (HT w); left; reflexivity).
    assert (Hnd' : NoDup (p :: V)).
    { constructor; [|exact Hnd]. intro H. apply pair_mem_In in H. congruence. }
    assert (HV' : incl (p :: V) (list_prod (dom d1) (dom d2)))
      by (intros q [<-|Hq]; [exact Hp|apply HV, Hq]).
    pose proof (NoDup_incl_length Hnd' HV') as Hle. cbn [List.length] in Hle.
    apply IH; try assumption.
    + intros w' p' H. apply in_app_or in H. destruct H as [H|H]; [|apply (HT' w'), H].
      apply in_map_iff in H. destruct H as [i [Hi _]]. injection Hi as _ <-.
      apply (succ_pair_In_prod d1 d2 p i).
    + rewrite app_length, map_length. cbn [List.length].
      set (u := List.length (list_prod (dom d1) (dom d2))) in *.
      set (v := List.length V) in *. set (k := List.length sigma) in *.
      assert (E : (u - v = S (u - S v))%nat) by lia. rewrite E in Hlt.
      set (a := (u - S v)%nat) in *. clearbody a. rewrite Nat.mul_succ_l in Hlt. lia.
Qed.

Theorem equiv_dec_total : forall d1 d2, equiv_dec d1 d2 <> EqFuel.
Proof.
  intros d1 d2. unfold equiv_dec. apply explore_total.
  - constructor.
  - intros ? [].
  - intros w p [H|[]]. injection H as _ <-. apply in_prod; apply Some_In_dom, start_In_states.
  - unfold equiv_fuel. rewrite prod_length. unfold dom. cbn [List.length]. rewrite !map_length.
    lia.
Qed.

(** * the validator is exact *)

Theorem equiv_dec_complete : forall d1 d2, lang_eq d1 d2 -> equiv_dec d1 d2 = EqYes.
Proof.
  intros d1 d2 H. destruct (equiv_dec d1 d2) as [|w|] eqn:E; [reflexivity| |].
  - exfalso. apply (equiv_dec_no d1 d2 w E). apply H.
  - exfalso. apply (equiv_dec_total d1 d2 E).
Qed.

Theorem validate_complete : forall d m,
  lang_eq m d -> trim m -> pairwise_distinguishable m -> validate d m = true.
Proof.
  intros d m Hl Ht Hd. unfold validate.
  rewrite (equiv_dec_complete d m) by (intro w; symmetry; apply Hl).
  rewrite (trim_dec_complete m Ht), (distinct_dec_complete m Hd). reflexivity.
Qed.
