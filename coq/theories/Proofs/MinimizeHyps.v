(** The executable hypothesis check [wfb] implies [wf]; together with [trim_dec] it lets the
    check validate, on every raw automaton Rust produces, the hypotheses under which the model
    is proved correct. *)
From CG Require Import Base.Prelude Model.Dfa Model.Minimize Spec.DfaEquiv Spec.MinimizeSpec
  Proofs.MinimizeBasics.
From CG Require Proofs.DfaEquivProofs.

Lemma wfb_sound d : wfb d = true -> wf d.
Proof.
  unfold wfb. rewrite !andb_true_iff. intros [[[[[H1 H2] H3] H4] H5] H6].
  constructor.
  - apply DfaEquivProofs.nodupb_NoDup. exact H1.
  - intros f row Hr. rewrite forallb_forall in H2. specialize (H2 _ Hr). cbn [snd] in H2.
    apply DfaEquivProofs.nodupb_NoDup. exact H2.
  - intros f row i t Hr Hi. rewrite forallb_forall in H3. specialize (H3 _ Hr). cbn [snd] in H3.
    rewrite forallb_forall in H3. specialize (H3 _ Hi). cbn [fst] in H3. apply N.ltb_lt. exact H3.
  - apply negb_true_iff in H4. apply memN_false. exact H4.
  - intros s Hs. rewrite forallb_forall in H5. apply memN_iff. apply H5. exact Hs.
  - apply sortedNb_iff. exact H6.
Qed.
