(** Correctness of the model of [do_minimize] on the automata [dfa_from_regex] produces
    (well-formed, trim): the result accepts the same words, is trim, has pairwise
    distinguishable states, hence has the size of the minimal automaton. *)
From CG Require Import Base.Prelude Model.Dfa Model.Minimize Spec.DfaEquiv Spec.MinimizeSpec
  Proofs.MinimizeBasics Proofs.MinimizeImage Proofs.HopcroftAbs Proofs.HopcroftSim Proofs.HopcroftLoop
  Proofs.MinimizePostGen.
From CG Require Proofs.DfaEquivProofs.

Section Correct.
  Variable d : dfa.
  Hypothesis W : wf d.
  Hypothesis TR : trim d.

  Let U := universe d.
  Let st (x : N) : Prop := In x (states d).

  (** *** states of a trim well-formed automaton *)
  Lemma st_coreach_cases x :
    st x -> is_accepting d x = true \/ exists j y, step d x j = Some y.
  Proof.
    intro H. destruct (proj2 TR x H) as [w Hw]. destruct w as [|j w].
    - left. exact Hw.
    - right. unfold accepts_from in Hw. cbn [run] in Hw.
      destruct (step d x j) as [y|] eqn:E; [eauto|discriminate].
  Qed.

  Lemma st_universe x : st x -> In x U /\ x <> 0.
  Proof.
    intro H. split.
    - apply universe_In. destruct (st_coreach_cases x H) as [A|[j [y E]]].
      + right. unfold is_accepting in A. apply memN_iff in A. exact A.
      + left. apply all_states_In. right. apply (step_iter d W) in E.
        exists (mktr x y j). split; [exact E|]. left. reflexivity.
    - intros ->. apply (wf_nozero _ W). exact H.
  Qed.

  Lemma universe_st x : In x U -> x <> 0 -> st x.
  Proof. apply universe_state. Qed.

  Lemma run_snoc s0 w j x :
    run d s0 (w ++ [j]) = Some x -> exists p, run d s0 w = Some p /\ step d p j = Some x.
  Proof.
    rewrite DfaEquivProofs.run_app. destruct (run d s0 w) as [p|]; [|discriminate].
    cbn [run]. destruct (step d p j) as [y|] eqn:E; [|discriminate]. intro H. inversion H; subst. eauto.
  Qed.

  Lemma st_reach_cases x :
    st x -> x = d_start d \/ exists p j, st p /\ step d p j = Some x.
  Proof.
    intro H. destruct (proj1 TR x H) as [w Hw].
    destruct (rev w) as [|j rw] eqn:E.
    - left. assert (w = []) by (apply (f_equal (@rev N)) in E; rewrite rev_involutive in E; exact E).
      subst. cbn in Hw. inversion Hw. reflexivity.
    - right. assert (Ew : w = rev rw ++ [j]).
      { apply (f_equal (@rev N)) in E. rewrite rev_involutive in E. exact E. }
      rewrite Ew in Hw. apply run_snoc in Hw. destruct Hw as [p [_ Hp]].
      exists p, j. split; [|exact Hp]. eapply DfaEquivProofs.step_src_In_states. exact Hp.
  Qed.

  Lemma step_st x i y : step d x i = Some y -> st y.
  Proof. apply DfaEquivProofs.step_In_states. Qed.

  (** *** inversion of [do_minimize] *)
  Definition quotient_list (repf : N -> N) : list transition :=
    map (fun t => mktr (tr_from t) (repf (tr_to t)) (tr_input t)) (iter_transitions d).

  Lemma quotient_transitions_ok reps Q :
    quotient_transitions d reps = Ok Q ->
    Q = quotient_list (getf reps)
    /\ forall t, In t (iter_transitions d) -> assocN (tr_to t) reps = Some (getf reps (tr_to t)).
  Proof.
    unfold quotient_transitions. intro H. apply omap_ok in H. split.
    - apply (Forall2_map_eq _ _ _ _ H). intros t y _ Hy. apply obind_ok in Hy.
      destruct Hy as [r [Hr Hy]]. inversion Hy; subst. apply rep_get_ok in Hr.
      unfold getf. rewrite Hr. reflexivity.
    - intros t Ht. destruct (Forall2_In_l _ _ _ t H Ht) as [y [_ Hy]]. apply obind_ok in Hy.
      destruct Hy as [r [Hr _]]. apply rep_get_ok in Hr. unfold getf. rewrite Hr. reflexivity.
  Qed.

  Lemma do_minimize_inv fuel m :
    do_minimize fuel d = Ok m ->
    exists h reps,
      hopcroft_loop fuel (make_transitions_image d) (initial_partition d) = Ok h
      /\ representatives (h_pool h) (h_parts h) = Ok reps
      /\ assocN (d_start d) reps <> None
      /\ (forall a, In a (d_accepting d) -> assocN a reps <> None)
      /\ let repf := getf reps in
         let start' := repf (d_start d) in
         let acc' := bm_from_iter (map repf (d_accepting d)) in
         let Q := quotient_list repf in
         let K := fst (keep_only_states_with_input_transitions start' Q acc') in
         let acc'' := snd (keep_only_states_with_input_transitions start' Q acc') in
         let E := eliminate_nonaccepting_states_without_output_transitions K acc'' in
         exists s' ts' accn,
           renumber_states start' E acc'' = Ok (s', ts', accn)
           /\ m = mkdfa s' (hashmap_transitions_from_vec ts') accn (d_inputs d).
  Proof.
    unfold do_minimize. intro H.
    apply obind_ok in H. destruct H as [h [Hh H]].
    apply obind_ok in H. destruct H as [reps [Hreps H]].
    apply obind_ok in H. destruct H as [start' [Hs H]]. apply rep_get_ok in Hs.
    apply obind_ok in H. destruct H as [accl [Hacc H]]. apply omap_rep_get in Hacc.
    destruct Hacc as [Hacc1 Hacc2].
    apply obind_ok in H. destruct H as [Q [HQ H]]. apply quotient_transitions_ok in HQ.
    destruct HQ as [HQ _].
    exists h, reps. split; [exact Hh|]. split; [exact Hreps|]. split; [congruence|].
    split; [intros a Ha; rewrite (Hacc2 a Ha); discriminate|].
    cbn zeta. assert (Es : start' = getf reps (d_start d)) by (unfold getf; rewrite Hs; reflexivity).
    subst start' accl Q.
    destruct (keep_only_states_with_input_transitions _ _ _) as [K acc''] eqn:EK. cbn [fst snd].
    apply obind_ok in H. destruct H as [[[s' ts'] accn] [Hr H]]. inversion H; subst.
    exists s', ts', accn. auto.
  Qed.
End Correct.

Section Quotient.
  Variable d : dfa.
  Hypothesis W : wf d.
  Hypothesis TR : trim d.
  Variable h : hop.
  Variable reps : list (N * N).

  Let U := universe d.
  Let st (x : N) : Prop := In x (states d).
  Let A := abs h.
  Let repf := getf reps.

  Hypothesis Gd : Good U h.
  Hypothesis N1 : forall x y, sameb A x y -> forall w, accepts_from d x w = accepts_from d y w.
  Hypothesis N2 : forall x y, In x U -> In y U -> ~ sameb A x y ->
                              exists w, accepts_from d x w <> accepts_from d y w.
  Hypothesis Hreps : representatives (h_pool h) (h_parts h) = Ok reps.

  Let P : APart U A := g_part _ _ Gd.

  (** *** the representative function *)
  Lemma block_of_id id b : In id (h_parts h) -> pool_lookup (h_pool h) id = Some b -> In b (blocks A).
  Proof.
    intros Hid L. unfold A. rewrite blocks_abs. apply in_map_iff. exists id. unfold content. rewrite L. auto.
  Qed.

  Lemma rep_block x :
    In x U -> exists b, In b (blocks A) /\ In x b /\ assocN x reps = Some (repf x) /\ bm_min b = Some (repf x).
  Proof.
    intro Hx. destruct (proj1 (ap_cover _ _ P x) Hx) as [b [Hb Hxb]].
    assert (Hb' := Hb). unfold A in Hb'. rewrite blocks_abs in Hb'. apply in_map_iff in Hb'.
    destruct Hb' as [id [Eb Hid]].
    destruct (good_lookup U h id Gd Hid) as [b0 [L0 _]].
    assert (b0 = b) by (unfold content in Eb; rewrite L0 in Eb; exact Eb). subst b0.
    unfold representatives in Hreps.
    destruct (representatives_spec _ _ _ _ Hreps) as [R1 [R2 _]].
    destruct (assocN x reps) as [r|] eqn:Er; [|exfalso; exact (R2 id b x Hid L0 Hxb Er)].
    destruct (R1 x r Er) as [F|[id' [b' [Hid' [L' [Hxb' Hmin]]]]]]; [discriminate|].
    assert (b' = b).
    { apply (ap_overlap _ _ P b' b x); auto. eapply block_of_id; eauto. }
    subst b'. exists b. unfold repf, getf. rewrite Er. auto.
  Qed.

  Lemma repf_same x : In x U -> sameb A x (repf x).
  Proof.
    intro Hx. destruct (rep_block x Hx) as [b [Hb [Hxb [_ Hmin]]]].
    exists b. split; [exact Hb|]. split; [exact Hxb|].
    apply (bm_min_spec b _ (ap_sorted _ _ P _ Hb) Hmin).
  Qed.

  Lemma repf_canon x y : sameb A x y -> repf x = repf y.
  Proof.
    intro S. destruct (sameb_in_U U A x y P S) as [Ux Uy].
    destruct (rep_block x Ux) as [b [Hb [Hxb [_ Hmin]]]].
    destruct (rep_block y Uy) as [b' [Hb' [Hyb' [_ Hmin']]]].
    assert (In y b) by (eapply sameb_block; eauto).
    assert (b = b') by (apply (ap_overlap _ _ P b b' y); auto). subst b'. congruence.
  Qed.

  Lemma repf_U x : In x U -> In (repf x) U.
  Proof. intro H. apply (sameb_in_U U A x (repf x) P (repf_same x H)). Qed.

  Lemma repf_inv x y : In x U -> In y U -> repf x = repf y -> sameb A x y.
  Proof.
    intros Ux Uy E. apply (sameb_trans U A x (repf x) y P (repf_same x Ux)).
    rewrite E. apply sameb_sym, repf_same. exact Uy.
  Qed.

  Lemma repf_idem x : In x U -> repf (repf x) = repf x.
  Proof. intro H. symmetry. apply repf_canon, repf_same, H. Qed.

  Lemma st_U x : st x -> In x U /\ x <> 0.
  Proof. apply st_universe; assumption. Qed.

  Lemma not_same_zero x : st x -> ~ sameb A x 0.
  Proof.
    intros Hx S. destruct (proj2 TR x Hx) as [w Hw].
    rewrite (N1 _ _ S w), (accepts_from_zero d W) in Hw. discriminate.
  Qed.

  Lemma repf_st x : st x -> st (repf x).
  Proof.
    intro Hx. destruct (st_U x Hx) as [Ux _]. apply universe_st; [apply repf_U; exact Ux|].
    intro F. apply (not_same_zero x Hx). rewrite <- F. apply repf_same. exact Ux.
  Qed.

  (** equivalent states have equivalent successors, and the partition separates inequivalent
      states: a transition of one state is matched by every state of its block *)
  Lemma step_cong x s i y :
    st x -> sameb A x s -> step d x i = Some y ->
    exists y', step d s i = Some y' /\ sameb A y y'.
  Proof.
    intros Hx S E. assert (Hy : st y) by (eapply step_st; eauto).
    assert (Eq : forall w, accepts_from d y w = accepts_from d (delta d s i) w).
    { intro w. rewrite <- (accepts_from_delta d W s i w), <- (N1 _ _ S (i :: w)), (accepts_from_delta d W x i w).
      unfold delta. rewrite E. reflexivity. }
    destruct (step d s i) as [y'|] eqn:E'.
    - exists y'. split; [reflexivity|].
      destruct (sameb_dec A y y') as [Sy|Ny]; [exact Sy|]. exfalso.
      destruct (N2 y y') as [w Hw]; auto.
      + apply (st_U y Hy).
      + apply (st_U y'). eapply step_st; eauto.
      + apply Hw. rewrite (Eq w). unfold delta. rewrite E'. reflexivity.
    - exfalso. destruct (proj2 TR y Hy) as [w Hw]. rewrite (Eq w) in Hw. unfold delta in Hw.
      rewrite E', (accepts_from_zero d W) in Hw. discriminate.
  Qed.

  (** *** the transition lists after the three post-passes *)
  Let start' := repf (d_start d).
  Let acc' := bm_from_iter (map repf (d_accepting d)).
  Let Q := quotient_list d repf.
  Let Tgt := bm_from_iter (map tr_to Q).
  Let K := fst (keep_only_states_with_input_transitions start' Q acc').
  Let acc'' := snd (keep_only_states_with_input_transitions start' Q acc').
  Let E := eliminate_nonaccepting_states_without_output_transitions K acc''.

  Lemma Q_In s t i : In (mktr s t i) Q <-> exists y, step d s i = Some y /\ t = repf y.
  Proof.
    unfold Q, quotient_list. rewrite in_map_iff. split.
    - intros [t0 [E0 H0]]. inversion E0; subst. exists (tr_to t0). split; [|reflexivity].
      apply (step_iter d W). destruct t0; exact H0.
    - intros [y [Hy ->]]. apply (step_iter d W) in Hy. exists (mktr s y i). auto.
  Qed.

  Lemma Tgt_In z : In z Tgt <-> exists s i, In (mktr s z i) Q.
  Proof.
    unfold Tgt. rewrite bm_from_iter_In, in_map_iff. split.
    - intros [t [Et Ht]]. exists (tr_from t), (tr_input t). subst z. destruct t; exact Ht.
    - intros [s [i H]]. exists (mktr s z i). auto.
  Qed.

  Lemma K_In t :
    In t K <-> In t Q /\ (tr_from t = start' \/ (In (tr_from t) Tgt /\ In (tr_to t) Tgt)).
  Proof.
    unfold K, keep_only_states_with_input_transitions. cbn [fst]. fold Tgt. rewrite filter_In.
    destruct (N.eqb_spec (tr_from t) start') as [Es|Es]; [tauto|].
    destruct (memN (tr_from t) Tgt) eqn:E1.
    - apply memN_iff in E1. destruct (memN (tr_to t) Tgt) eqn:E2; cbn [negb orb].
      + apply memN_iff in E2. tauto.
      + apply memN_false in E2. split; [intros [_ F]; discriminate|]. intros [_ [F|[_ F]]]; contradiction.
    - apply memN_false in E1. cbn [negb orb]. split; [intros [_ F]; discriminate|].
      intros [_ [F|[F _]]]; contradiction.
  Qed.

  Lemma acc''_In a : In a acc'' <-> In a acc' /\ (a = start' \/ In a Tgt).
  Proof.
    unfold acc'', keep_only_states_with_input_transitions. cbn [snd]. fold Tgt.
    rewrite filter_In, orb_true_iff, N.eqb_eq, memN_iff. tauto.
  Qed.

  Lemma acc'_In a : In a acc' <-> exists a0, In a0 (d_accepting d) /\ a = repf a0.
  Proof.
    unfold acc'. rewrite bm_from_iter_In, in_map_iff. split; intros [a0 [H1 H2]]; exists a0; auto.
  Qed.

  Lemma E_In t :
    In t E <-> In t K /\ (In (tr_to t) acc'' \/ exists t1, In t1 K /\ tr_from t1 = tr_to t).
  Proof.
    unfold E, eliminate_nonaccepting_states_without_output_transitions.
    rewrite filter_In, orb_true_iff, !memN_iff, bm_from_iter_In, in_map_iff.
    split; intros [H1 H2]; (split; [exact H1|]); destruct H2 as [H2|[t1 [H2 H3]]]; eauto.
  Qed.

  Lemma repf_start_or_target x : st x -> repf x = start' \/ In (repf x) Tgt.
  Proof.
    intro Hx. destruct (st_reach_cases d TR x Hx) as [->|[p [j [Hp Ep]]]]; [left; reflexivity|].
    right. apply Tgt_In. exists p, j. apply Q_In. eauto.
  Qed.

  Lemma InK x i y : st x -> step d x i = Some y -> In (mktr (repf x) (repf y) i) K.
  Proof.
    intros Hx Ex. destruct (st_U x Hx) as [Ux _].
    destruct (step_cong x (repf x) i y Hx (repf_same x Ux) Ex) as [y' [Ey' Sy]].
    apply K_In. cbn [tr_from tr_to]. split.
    - apply Q_In. exists y'. split; [exact Ey'|]. apply repf_canon. exact Sy.
    - assert (T : In (repf y) Tgt).
      { apply Tgt_In. exists x, i. apply Q_In. eauto. }
      destruct (repf_start_or_target x Hx) as [H|H]; auto.
  Qed.

  Lemma InE x i y : st x -> step d x i = Some y -> In (mktr (repf x) (repf y) i) E.
  Proof.
    intros Hx Ex. apply E_In. split; [apply InK; assumption|]. cbn [tr_to].
    assert (Hy : st y) by (eapply step_st; eauto).
    assert (Hry := repf_st y Hy). destruct (st_U y Hy) as [Uy _].
    destruct (st_coreach_cases d TR (repf y) Hry) as [Acc|[j [z Ez]]].
    - left. apply acc''_In. split.
      + apply acc'_In. exists (repf y). split; [|symmetry; apply repf_idem; exact Uy].
        unfold is_accepting in Acc. apply memN_iff in Acc. exact Acc.
      + right. apply Tgt_In. exists x, i. apply Q_In. eauto.
    - right. exists (mktr (repf (repf y)) (repf z) j). split; [apply InK; assumption|].
      cbn [tr_from]. apply repf_idem. exact Uy.
  Qed.

  Lemma E_inv s t i :
    In (mktr s t i) E -> exists y, step d s i = Some y /\ t = repf y /\ repf s = s /\ st s.
  Proof.
    intro H. apply E_In in H. destruct H as [H _]. apply K_In in H. destruct H as [HQ HK].
    cbn [tr_from tr_to] in HK. apply Q_In in HQ. destruct HQ as [y [Ey Et]].
    exists y. split; [exact Ey|]. split; [exact Et|].
    assert (Hs : st s) by (eapply DfaEquivProofs.step_src_In_states; eauto).
    split; [|exact Hs].
    destruct HK as [Es|[Ts _]].
    - rewrite Es. unfold start'. apply repf_idem. apply (st_U _ (DfaEquivProofs.start_In_states d)).
    - apply Tgt_In in Ts. destruct Ts as [p [j Hp]]. apply Q_In in Hp. destruct Hp as [z [Ez ->]].
      apply repf_idem. apply (st_U z). eapply step_st; eauto.
  Qed.

  (** *** renumbering and the resulting automaton *)
  Variables (s' : N) (ts' : list transition) (accn : list N).
  Hypothesis Hren : renumber_states start' E acc'' = Ok (s', ts', accn).

  Let m := mkdfa s' (hashmap_transitions_from_vec ts') accn (d_inputs d).
  Let nf := renumber_map start' E.
  Let rho := getf nf.
  Let phi (x : N) : N := rho (repf x).

  Lemma ren_facts :
    s' = rho start'
    /\ ts' = map (fun t => mktr (rho (tr_from t)) (rho (tr_to t)) (tr_input t)) E
    /\ accn = bm_from_iter (map rho acc'')
    /\ (forall a, In a acc'' -> assocN a nf = Some (rho a)).
  Proof. exact (renumber_states_ok _ _ _ _ _ _ Hren). Qed.

  Lemma rho_key k : In k (renumber_keys start' E) -> assocN k nf = Some (rho k).
  Proof.
    intro H. destruct (renumber_map_spec start' E) as [R1 _]. specialize (R1 k H). fold nf in R1.
    unfold rho, getf. destruct (assocN k nf); [reflexivity|congruence].
  Qed.

  Lemma rho_inj k k' :
    assocN k nf = Some (rho k) -> assocN k' nf = Some (rho k') -> rho k = rho k' -> k = k'.
  Proof.
    intros H H' Eq. destruct (renumber_map_spec start' E) as [_ R2]. fold nf in R2.
    apply (R2 k k' (rho k)); [exact H|]. rewrite Eq. exact H'.
  Qed.

  Lemma E_keys s t i : In (mktr s t i) E -> In s (renumber_keys start' E) /\ In t (renumber_keys start' E).
  Proof.
    intro H. unfold renumber_keys. split; right; apply in_flat_map; exists (mktr s t i); cbn; auto.
  Qed.

  Lemma repf_key x : st x -> In (repf x) (renumber_keys start' E).
  Proof.
    intro Hx. destruct (st_reach_cases d TR x Hx) as [->|[p [j [Hp Ep]]]].
    - left. reflexivity.
    - apply (E_keys (repf p) (repf x) j). apply InE; assumption.
  Qed.

  Lemma ts'_In q1 q2 i :
    In (mktr q1 q2 i) ts' <-> exists s t, In (mktr s t i) E /\ q1 = rho s /\ q2 = rho t.
  Proof.
    destruct ren_facts as [_ [-> _]]. rewrite in_map_iff. split.
    - intros [t [Et Ht]]. inversion Et; subst. exists (tr_from t), (tr_to t). destruct t; auto.
    - intros [s [t [H [-> ->]]]]. exists (mktr s t i). auto.
  Qed.

  Lemma ts'_functional t1 t2 :
    In t1 ts' -> In t2 ts' -> tr_from t1 = tr_from t2 -> tr_input t1 = tr_input t2 -> tr_to t1 = tr_to t2.
  Proof.
    destruct t1 as [f1 o1 i1], t2 as [f2 o2 i2]. cbn [tr_from tr_to tr_input]. intros H1 H2 Ef Ei. subst f2 i2.
    apply ts'_In in H1. apply ts'_In in H2.
    destruct H1 as [a1 [b1 [H1 [Ea1 Eb1]]]], H2 as [a2 [b2 [H2 [Ea2 Eb2]]]].
    assert (a1 = a2).
    { apply rho_inj; [apply rho_key, (E_keys _ _ _ H1)|apply rho_key, (E_keys _ _ _ H2)|congruence]. }
    subst a2. apply E_inv in H1. apply E_inv in H2.
    destruct H1 as [y1 [S1 [T1 _]]], H2 as [y2 [S2 [T2 _]]]. congruence.
  Qed.

  Lemma step_m q i q' : step m q i = Some q' <-> In (mktr q q' i) ts'.
  Proof. apply (hashmap_step ts' q i q' ts'_functional). Qed.

  Lemma F2 x i y : st x -> step d x i = Some y -> step m (phi x) i = Some (phi y).
  Proof.
    intros Hx Ex. apply step_m. apply ts'_In. exists (repf x), (repf y). split; [|auto].
    apply InE; assumption.
  Qed.

  Lemma F3 x i : st x -> step d x i = None -> step m (phi x) i = None.
  Proof.
    intros Hx Ex. destruct (step m (phi x) i) as [q|] eqn:Em; [|reflexivity]. exfalso.
    apply step_m, ts'_In in Em. destruct Em as [s [t [He [Es _]]]].
    assert (s = repf x).
    { apply rho_inj; [apply rho_key, (E_keys _ _ _ He)|apply rho_key, repf_key, Hx|]. symmetry. exact Es. }
    subst s. apply E_inv in He. destruct He as [y' [Ey' _]].
    destruct (st_U x Hx) as [Ux _].
    destruct (step_cong (repf x) x i y' (repf_st x Hx) (sameb_sym _ _ _ (repf_same x Ux)) Ey') as [y [Ey _]].
    congruence.
  Qed.

  Lemma F4 x : st x -> is_accepting m (phi x) = is_accepting d x.
  Proof.
    intro Hx. destruct (st_U x Hx) as [Ux _].
    unfold is_accepting at 1. cbn [d_accepting m]. destruct ren_facts as [_ [_ [-> Hacc]]].
    destruct (is_accepting d x) eqn:Ed.
    - apply memN_iff, bm_from_iter_In, in_map_iff. exists (repf x). split; [reflexivity|].
      apply acc''_In. split; [|apply repf_start_or_target; exact Hx].
      apply acc'_In. exists x. split; [|reflexivity]. unfold is_accepting in Ed. apply memN_iff. exact Ed.
    - apply memN_false. intro F. apply bm_from_iter_In, in_map_iff in F. destruct F as [a [Ea Ha]].
      assert (a = repf x).
      { apply rho_inj; [apply Hacc; exact Ha|apply rho_key, repf_key, Hx|exact Ea]. }
      subst a. apply acc''_In in Ha. destruct Ha as [Ha _]. apply acc'_In in Ha.
      destruct Ha as [a0 [Ha0 Er]].
      assert (Sa : st a0) by (apply in_states_cases; auto).
      assert (S : sameb A x a0) by (apply repf_inv; [exact Ux|apply (st_U a0 Sa)|exact Er]).
      assert (Eq := N1 _ _ S []). unfold accepts_from in Eq. cbn [run] in Eq.
      rewrite Ed in Eq. unfold is_accepting in Eq. symmetry in Eq. apply memN_false in Eq. contradiction.
  Qed.

  Lemma F1 : d_start m = phi (d_start d).
  Proof. cbn [d_start m]. destruct ren_facts as [-> _]. reflexivity. Qed.

  Lemma accepts_from_phi w : forall x, st x -> accepts_from m (phi x) w = accepts_from d x w.
  Proof.
    induction w as [|a w IH]; intros x Hx.
    - unfold accepts_from. cbn [run]. apply F4. exact Hx.
    - unfold accepts_from. cbn [run]. destruct (step d x a) as [y|] eqn:Ex.
      + rewrite (F2 x a y Hx Ex). apply IH. eapply step_st; eauto.
      + rewrite (F3 x a Hx Ex). reflexivity.
  Qed.

  Lemma run_phi w : forall x y, st x -> run d x w = Some y -> run m (phi x) w = Some (phi y).
  Proof.
    induction w as [|a w IH]; intros x y Hx H; cbn [run] in *.
    - inversion H; subst. reflexivity.
    - destruct (step d x a) as [z|] eqn:Ex; [|discriminate].
      rewrite (F2 x a z Hx Ex). apply IH; [eapply step_st; eauto|exact H].
  Qed.

  Lemma m_lang : lang_eq m d.
  Proof.
    intro w. unfold accepts. rewrite F1. apply accepts_from_phi. apply DfaEquivProofs.start_In_states.
  Qed.

  (** every state of the result is the image of a state of the raw automaton *)
  Lemma m_states q : In q (states m) -> exists x, st x /\ q = phi x.
  Proof.
    intro H. apply in_states_cases in H. destruct H as [H|[H|H]].
    - exists (d_start d). split; [apply DfaEquivProofs.start_In_states|]. rewrite H. apply F1.
    - apply trans_states_In in H.
      assert (Hfrom : forall t, In t ts' -> exists x, st x /\ tr_from t = phi x).
      { intros [q1 q2 i] Ht. apply ts'_In in Ht. destruct Ht as [s [t [He [-> _]]]].
        apply E_inv in He. destruct He as [y [_ [_ [Rs Ss]]]]. exists s. split; [exact Ss|].
        cbn [tr_from]. unfold phi. rewrite Rs. reflexivity. }
      assert (Hto : forall t, In t ts' -> exists x, st x /\ tr_to t = phi x).
      { intros [q1 q2 i] Ht. apply ts'_In in Ht. destruct Ht as [s [t [He [_ ->]]]].
        apply E_inv in He. destruct He as [y [Ey [-> _]]]. exists y. split; [eapply step_st; eauto|reflexivity]. }
      destruct H as [H|[t [Ht ->]]].
      + cbn [d_trans m] in H. apply hashmap_keys in H. destruct H as [t [Ht <-]]. apply Hfrom. exact Ht.
      + apply Hto. apply iter_transitions_In in Ht. destruct Ht as [row [R1 R2]]. cbn [d_trans m] in R1.
        assert (I := hashmap_entries _ _ _ _ _ R1 R2). destruct t; exact I.
    - cbn [d_accepting m] in H. destruct ren_facts as [_ [_ [Ea _]]]. rewrite Ea in H.
      apply bm_from_iter_In, in_map_iff in H. destruct H as [a [<- Ha]].
      apply acc''_In in Ha. destruct Ha as [Ha _]. apply acc'_In in Ha. destruct Ha as [a0 [Ha0 ->]].
      exists a0. split; [apply in_states_cases; auto|reflexivity].
  Qed.

  Lemma m_trim : trim m.
  Proof.
    split; intros q Hq; destruct (m_states q Hq) as [x [Hx ->]].
    - destruct (proj1 TR x Hx) as [w Hw]. exists w. rewrite F1.
      apply run_phi; [apply DfaEquivProofs.start_In_states|exact Hw].
    - destruct (proj2 TR x Hx) as [w Hw]. exists w. rewrite accepts_from_phi; assumption.
  Qed.

  Lemma m_distinct : pairwise_distinguishable m.
  Proof.
    intros q1 q2 H1 H2 Hne.
    destruct (m_states q1 H1) as [x1 [Hx1 ->]]. destruct (m_states q2 H2) as [x2 [Hx2 ->]].
    destruct (N2 x1 x2) as [w Hw].
    - apply (st_U x1 Hx1).
    - apply (st_U x2 Hx2).
    - intro S. apply Hne. unfold phi. rewrite (repf_canon _ _ S). reflexivity.
    - exists w. rewrite !accepts_from_phi; assumption.
  Qed.
End Quotient.

(** *** the theorem *)
Theorem minimize_correct d m :
  wf d -> trim d -> minimize d = Ok m ->
  lang_eq m d /\ trim m /\ pairwise_distinguishable m /\ minimal_size m.
Proof.
  intros W TR H. unfold minimize in H.
  destruct (do_minimize_inv d _ m H) as [h [reps [Hloop [Hreps [_ [_ Hrest]]]]]].
  cbn zeta in Hrest. destruct Hrest as [s' [ts' [accn [Hren ->]]]].
  destruct (hopcroft_loop_correct d W (proj2 TR) _ h Hloop) as [Gd [N1 N2]].
  assert (L := m_lang d W TR h reps Gd N1 N2 Hreps s' ts' accn Hren).
  assert (T := m_trim d W TR h reps Gd N1 N2 Hreps s' ts' accn Hren).
  assert (D := m_distinct d W TR h reps Gd N1 N2 Hreps s' ts' accn Hren).
  split; [exact L|]. split; [exact T|]. split; [exact D|].
  apply DfaEquivProofs.myhill_nerode_size; assumption.
Qed.
