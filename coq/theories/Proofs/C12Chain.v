(** C12 end to end on the tables of  cmd <pre>(<v1>|...|<vn>) <next>;  (Model/ChainTables.v):
    [run_from Fixed] recognises every fully typed value and offers exactly the extending values. *)
From CG Require Import Base.Prelude Model.Dfa Model.Glob Model.BashSem Model.ChainTables.
From CG Require Import Proofs.GlobFacts Proofs.SubwordFacts Proofs.C12Proofs.

(** *** indexed_from *)
Lemma in_indexed_from {A} (l : list A) : forall k i x,
    In (i, x) (indexed_from k l) -> exists n, i = k + N.of_nat n /\ nth_error l n = Some x.
Proof.
  induction l as [|a r IH]; intros k i x H; [contradiction|].
  cbn [indexed_from] in H. destruct H as [H|H].
  - injection H as <- <-. exists 0%nat. split; [cbn; lia|reflexivity].
  - destruct (IH _ _ _ H) as (n & -> & Hn). exists (S n). split; [lia|exact Hn].
Qed.

Lemma indexed_from_in {A} (l : list A) : forall k n x,
    nth_error l n = Some x -> In (k + N.of_nat n, x) (indexed_from k l).
Proof.
  induction l as [|a r IH]; intros k n x H; [destruct n; discriminate|].
  destruct n as [|n]; cbn [nth_error] in H.
  - injection H as <-. left. f_equal. cbn. lia.
  - right. replace (k + N.of_nat (S n)) with ((k + 1) + N.of_nat n) by lia. now apply IH.
Qed.

Lemma in_indexed_in {A} (l : list A) k i x : In (i, x) (indexed_from k l) -> In x l.
Proof. intros H. destruct (in_indexed_from l k i x H) as (n & _ & Hn). eapply nth_error_In; eauto. Qed.

Lemma indexed_from_fun {A} (l : list A) k i x y :
  In (i, x) (indexed_from k l) -> In (i, y) (indexed_from k l) -> x = y.
Proof.
  intros H1 H2.
  destruct (in_indexed_from l k i x H1) as (n & E1 & N1).
  destruct (in_indexed_from l k i y H2) as (m & E2 & N2).
  assert (n = m) by lia. subst m. congruence.
Qed.

Lemma indexed_from_nthN {A} (l : list A) i x : In (i, x) (indexed_from 0 l) -> nthN l i = Some x.
Proof.
  intros H. destruct (in_indexed_from l 0 i x H) as (n & -> & Hn).
  unfold nthN. replace (N.to_nat (0 + N.of_nat n)) with n by lia. exact Hn.
Qed.

Lemma nthN_indexed_from {A} (l : list A) i x : nthN l i = Some x -> In (i, x) (indexed_from 0 l).
Proof.
  unfold nthN. intros H. pose proof (indexed_from_in l 0 _ _ H) as K.
  replace (0 + N.of_nat (N.to_nat i)) with i in K by lia. exact K.
Qed.

Lemma map_snd_indexed {A} (l : list A) : forall k, map snd (indexed_from k l) = l.
Proof. induction l as [|a r IH]; intros k; cbn; [reflexivity|]. now rewrite IH. Qed.

(** *** decreasing length, on plain string lists *)
Fixpoint sorted_len (l : list string) : Prop :=
  match l with
  | [] => True
  | a :: r => (forall b, In b r -> (String.length b <= String.length a)%nat) /\ sorted_len r
  end.

Lemma sorted_len_desc l : forall k, sorted_len l -> sorted_desc (indexed_from k l).
Proof.
  induction l as [|a r IH]; intros k H; [exact I|].
  destruct H as [H1 H2]. cbn [indexed_from sorted_desc]. split.
  - intros id l' Hin. apply H1. eapply in_indexed_in; eauto.
  - now apply IH.
Qed.

(** *** the tables of the family *)
Section Chain.
  Variables (lits : list string) (ipre : N) (pre next : string).
  Hypothesis Hpre : nthN lits ipre = Some pre.
  Hypothesis Hnodup : NoDup lits.
  (** any variant with the repaired stop test; glob-free literals unless the operands are quoted ([Repaired]) *)
  Variable var : variant.
  Hypothesis Hvar : var <> Pinned.
  Hypothesis Hdom : var = Repaired \/ (forall l, In l lits -> plain l = true).
  Hypothesis Hprint : forall l, In l lits -> printable_str l = true.
  Hypothesis Hnonempty : forall l, In l lits -> l <> EmptyString.
  Hypothesis Hsorted : sorted_len lits.
  Let T := chain_sub_tables lits ipre.
  Let tabs := chain_alltables lits ipre next.
  Let st1 := map (fun x : N * string => (fst x, 2)) (chain_vals lits ipre).

  Lemma chain_literal_texts : literal_texts T = lits.
  Proof.
    unfold T, chain_sub_tables, literal_texts. cbn [t_literals]. rewrite map_map. cbn [fst snd].
    apply map_snd_indexed.
  Qed.

  Lemma chain_lits_of : lits_of T = indexed_from 0 lits.
  Proof. unfold lits_of. now rewrite chain_literal_texts. Qed.

  Lemma chain_all_plain : (forall l, In l lits -> plain l = true) -> all_plain (lits_of T).
  Proof. intros Hplain. rewrite chain_lits_of. intros id l H. apply Hplain. eapply in_indexed_in; eauto. Qed.

  Lemma chain_sorted : sorted_desc (lits_of T).
  Proof. rewrite chain_lits_of. now apply sorted_len_desc. Qed.

  Lemma chain_mlit0 : assocN 0 (t_mlit T) = Some [(ipre, 1)].
  Proof. reflexivity. Qed.

  Lemma chain_mlit1 : assocN 1 (t_mlit T) = Some st1.
  Proof. reflexivity. Qed.

  Lemma chain_pre_in : In (ipre, pre) (lits_of T).
  Proof. rewrite chain_lits_of. now apply nthN_indexed_from. Qed.

  Lemma assocN_single (id k v : N) t : assocN id [(k, v)] = Some t -> id = k /\ t = v.
  Proof.
    cbn [assocN]. destruct (N.eqb id k) eqn:E; [|discriminate].
    apply N.eqb_eq in E. intros H. injection H as <-. now split.
  Qed.

  Lemma assocN_single_same (k v : N) : assocN k [(k, v)] = Some v.
  Proof. cbn [assocN]. now rewrite N.eqb_refl. Qed.

  Lemma chain_state0_unique id l t :
    In (id, l) (lits_of T) -> assocN id [(ipre, 1)] = Some t -> id = ipre /\ l = pre.
  Proof.
    intros Hin Ha. destruct (assocN_single _ _ _ _ Ha) as [-> _]. split; [reflexivity|].
    rewrite chain_lits_of in Hin. pose proof chain_pre_in as Hp. rewrite chain_lits_of in Hp.
    eapply indexed_from_fun; eauto.
  Qed.

  (** a value: an element of the literal array other than the piece *)
  Definition is_value (v : string) : Prop := In v lits /\ v <> pre.

  Lemma value_index v : is_value v -> exists id, In (id, v) (chain_vals lits ipre).
  Proof.
    intros [Hin Hne]. destruct (In_nth_error _ _ Hin) as [n Hn].
    exists (0 + N.of_nat n). unfold chain_vals. apply filter_In. split.
    - now apply indexed_from_in.
    - cbn [fst]. apply negb_true_iff. apply N.eqb_neq. intros E.
      apply Hne. pose proof (indexed_from_in lits 0 n v Hn) as H1. rewrite E in H1.
      pose proof chain_pre_in as H2. rewrite chain_lits_of in H2.
      eapply indexed_from_fun; eauto.
  Qed.

  Lemma assocN_map_const {A} (c : N) (l : list (N * A)) id x :
    In (id, x) l -> assocN id (map (fun y => (fst y, c)) l) = Some c.
  Proof.
    induction l as [|[k y] r IH]; intros H; [contradiction|].
    cbn [map assocN fst]. destruct (N.eqb id k) eqn:E; [reflexivity|].
    destruct H as [H|H]; [injection H as -> ->; rewrite N.eqb_refl in E; discriminate|now apply IH].
  Qed.

  Lemma assocN_map_const_inv {A} (c : N) (l : list (N * A)) id t :
    assocN id (map (fun y => (fst y, c)) l) = Some t -> t = c.
  Proof.
    induction l as [|[k y] r IH]; intros H; [discriminate|].
    cbn [map assocN fst] in H. destruct (N.eqb id k); [now injection H|now apply IH].
  Qed.

  Lemma vals_in_lits id v : In (id, v) (chain_vals lits ipre) -> In (id, v) (lits_of T).
  Proof. rewrite chain_lits_of. unfold chain_vals. intros H. now apply filter_In in H. Qed.

  Lemma first_enabled_const lits0 st v to :
    (forall id t, assocN id st = Some t -> t = to) ->
    (exists id, In (id, v) lits0 /\ assocN id st <> None) ->
    first_enabled lits0 st v = Some to.
  Proof.
    intros Hc. induction lits0 as [|[i l] r IH]; intros (id & Hin & Ha); [contradiction|].
    cbn [first_enabled]. destruct (String.eqb l v) eqn:E.
    - apply String.eqb_eq in E. subst l.
      destruct (assocN i st) as [t|] eqn:Ei.
      + now rewrite (Hc i t Ei).
      + apply IH. destruct Hin as [Hin|Hin]; [injection Hin as -> ; congruence|]. now exists id.
    - apply IH. destruct Hin as [Hin|Hin].
      + injection Hin as _ ->. rewrite String.eqb_refl in E. discriminate.
      + now exists id.
  Qed.

  Lemma chain_first_enabled v : is_value v -> first_enabled (lits_of T) st1 v = Some 2.
  Proof.
    intros Hv. apply first_enabled_const.
    - intros id t H. eapply assocN_map_const_inv; eauto.
    - destruct (value_index v Hv) as [id Hid]. exists id. split; [now apply vals_in_lits|].
      unfold st1. now rewrite (assocN_map_const 2 _ id v Hid).
  Qed.

  (** *** the word [pre ++ v] through the within-word loop *)
  Lemma pre_nonempty : pre <> EmptyString.
  Proof. apply Hnonempty. unfold nthN in Hpre. eapply nth_error_In; eauto. Qed.

  Lemma pre_in : In pre lits.
  Proof. unfold nthN in Hpre. eapply nth_error_In; eauto. Qed.

  Lemma chain_strdom w : In w lits \/ (var = Repaired \/ plain w = true) -> strdom var (lits_of T) (pre ++ w).
  Proof.
    intros Hw. destruct Hdom as [Hr|Hplain]; [now left|].
    destruct Hw as [Hw|[Hw|Hw]]; [|now left|].
    - right. split; [now apply chain_all_plain|]. now rewrite plain_app, (Hplain pre pre_in), (Hplain w Hw).
    - right. split; [now apply chain_all_plain|]. now rewrite plain_app, (Hplain pre pre_in), Hw.
  Qed.

  Lemma length_pos s : s <> EmptyString -> (0 < String.length s)%nat.
  Proof. destruct s; [congruence|cbn; lia]. Qed.

  Lemma prefix_app a b : String.prefix a (a ++ b) = true.
  Proof. induction a as [|c a IH]; cbn; [destruct b; reflexivity|]. destruct (ascii_dec c c); [exact IH|congruence]. Qed.

  Lemma chain_star_first c s : star_first var c T s = false.
  Proof. unfold star_first, T, chain_sub_tables. cbn [t_mstar]. apply andb_false_r. Qed.

  Theorem chain_value_matched fuel e v log :
    is_value v ->
    sw_loop (S (S (S fuel))) var false tabs e T [2] (pre ++ v) 0 0 log
    = Ok (true, 2, String.length (pre ++ v), log).
  Proof.
    intros Hv. destruct Hv as [Hin Hne].
    pose proof (chain_strdom v (or_introl Hin)) as Hpw.
    pose proof (length_pos v (Hnonempty v Hin)) as Lv.
    rewrite (fixed_piece_consumed var _ false tabs e T [2] (pre ++ v) 0 [(ipre, 1)] 0 ipre pre 1 log
               Hvar Hpw chain_mlit0 chain_state0_unique chain_pre_in (assocN_single_same ipre 1)).
    - cbn [Nat.add].
      apply (fixed_value_recognised var fuel tabs e T [2] (pre ++ v) 1 st1 (String.length pre) v 2 log
               Hvar Hpw chain_sorted chain_mlit1).
      + apply sdrop_app.
      + rewrite length_append. lia.
      + apply chain_first_enabled. now split.
      + apply orb_true_r.
      + apply chain_star_first.
    - cbn [sdrop]. apply prefix_app.
    - rewrite length_append. lia.
    - apply chain_star_first.
  Qed.

  Lemma sw_fuel_ge3 word : (2 <= String.length word)%nat -> exists f, sw_fuel T word = S (S (S f)).
  Proof.
    intros H. unfold sw_fuel.
    set (k := (count_entries (t_mlit T) + match t_mcmd T with Some l => count_entries l | None => 0 end)%nat).
    destruct (S (String.length word) * S k)%nat as [|[|f]] eqn:E; try lia.
    now exists f.
  Qed.

  Theorem chain_subword_matches e v log :
    is_value v -> subword_matches var tabs e T [2] (pre ++ v) log = Ok (true, log).
  Proof.
    intros Hv. unfold subword_matches, subword_matches_from.
    destruct (sw_fuel_ge3 (pre ++ v)) as [f ->].
    { rewrite length_append. pose proof (length_pos pre pre_nonempty).
      pose proof (length_pos v (Hnonempty v (proj1 Hv))). lia. }
    rewrite (chain_value_matched f e v log Hv). reflexivity.
  Qed.

  (** *** the walk and the completion after the word *)
  Lemma chain_main_mlit0 : assocN 0 (t_mlit (a_main tabs)) = None.
  Proof. reflexivity. Qed.
  Lemma chain_subtrans0 : assocN 0 (a_subtrans tabs) = Some [(0, 1)].
  Proof. reflexivity. Qed.
  Lemma chain_sub_row : sub_row (a_subwords tabs) [(0, 1)] = Ok [(0, 1)].
  Proof. reflexivity. Qed.
  Lemma chain_assoc_of : assoc_of [(0, 1)] = [(0, 1)].
  Proof. reflexivity. Qed.
  Lemma chain_subword_tables : subword_tables (a_subwords tabs) 0 = Some T.
  Proof. reflexivity. Qed.
  Lemma chain_sub_accepting : sub_accepting tabs 0 = [2].
  Proof. reflexivity. Qed.

  Lemma chain_walk_value e v :
    is_value v -> walk var tabs e 0 [(pre ++ v)%string] [] = Ok (Some 1, []).
  Proof.
    intros Hv. cbn [walk].
    rewrite chain_main_mlit0, chain_subtrans0, chain_sub_row. cbn [obind].
    rewrite chain_assoc_of. cbn [top_sub_loop]. rewrite chain_subword_tables, chain_sub_accepting.
    rewrite (chain_subword_matches e v [] Hv). cbn [obind]. reflexivity.
  Qed.

  Definition default_wordbreaks : string :=
    String (ch 32) (String (ch 9) (String (ch 10) """'@><=;|&(:")).

  Lemma strip_empty_prefix e ms :
    e_wordbreaks e = EmptyString \/ e_wordbreaks e = default_wordbreaks ->
    strip_reply e EmptyString ms = Ok ms.
  Proof.
    intros [H|H]; unfold strip_reply; rewrite H.
    - cbn [shortest_suffix obind]. cbn [String.eqb obind].
      induction ms as [|m r IH]; [reflexivity|]. cbn [omap].
      replace (rm_shortest_prefix "" m) with (Some m).
      + cbn [obind]. cbn [omap] in IH. rewrite IH. reflexivity.
      + unfold rm_shortest_prefix, with_pat. cbn [String.length parse]. unfold upto.
        cbn [seq first_cut]. destruct m; reflexivity.
    - assert (shortest_suffix default_wordbreaks "" "" = Ok EmptyString) as -> by (vm_compute; reflexivity).
      cbn [obind]. cbn [String.eqb obind].
      induction ms as [|m r IH]; [reflexivity|]. cbn [omap].
      replace (rm_shortest_prefix "" m) with (Some m).
      + cbn [obind]. cbn [omap] in IH. rewrite IH. reflexivity.
      + unfold rm_shortest_prefix, with_pat. cbn [String.length parse]. unfold upto.
        cbn [seq first_cut]. destruct m; reflexivity.
  Qed.

  Lemma chain_main_maxlevel : N.to_nat (t_maxlevel (a_main tabs)) = 0%nat.
  Proof. reflexivity. Qed.
  Lemma chain_main_clit1 : level_row (t_clit (a_main tabs)) 0 1 = [0].
  Proof. reflexivity. Qed.
  Lemma chain_csub1 : level_row (a_csub tabs) 0 1 = [].
  Proof. reflexivity. Qed.
  Lemma chain_main_ccmd : t_ccmd (a_main tabs) = None.
  Proof. reflexivity. Qed.
  Lemma chain_main_lit0 : literal_at (a_main tabs) 0 = next.
  Proof. reflexivity. Qed.

  Theorem chain_value_recognised e v :
    e_wordbreaks e = EmptyString \/ e_wordbreaks e = default_wordbreaks ->
    is_value v ->
    run_from var 0 tabs e [(pre ++ v)%string] EmptyString = Ok (mkresult 0 [(next ++ " ")%string] []).
  Proof.
    intros Hw Hv. unfold run_from. rewrite (chain_walk_value e v Hv). cbn [obind].
    rewrite chain_main_maxlevel. cbn [top_levels].
    replace (if quirky var then @nil string else []) with (@nil string) by (destruct (quirky var); reflexivity).
    rewrite chain_main_clit1, chain_csub1, chain_main_ccmd.
    cbn [map List.app]. rewrite chain_main_lit0.
    cbn [match_fn obind top_subs_level List.app].
    rewrite (strip_empty_prefix e _ Hw). reflexivity.
  Qed.
  (** *** the word under the cursor: [pre ++ p] with [p] a proper prefix of a value *)
  Definition values : list string := map snd (chain_vals lits ipre).

  Lemma chain_clit1 : level_row (t_clit T) 0 1 = map fst (chain_vals lits ipre).
  Proof. reflexivity. Qed.
  Lemma chain_ccmd : t_ccmd T = None.
  Proof. reflexivity. Qed.
  Lemma chain_maxlevel : N.to_nat (t_maxlevel T) = 0%nat.
  Proof. reflexivity. Qed.

  Lemma chain_literal_at id v : In (id, v) (chain_vals lits ipre) -> literal_at T id = v.
  Proof.
    intros H. apply vals_in_lits in H. rewrite chain_lits_of in H.
    unfold literal_at. rewrite chain_literal_texts. now rewrite (indexed_from_nthN lits id v H).
  Qed.

  Lemma chain_offer_list :
    map (fun id => (pre ++ literal_at T id)%string) (map fst (chain_vals lits ipre)) = map (append pre) values.
  Proof.
    unfold values. rewrite !map_map. apply map_ext_in. intros [id v] Hin. cbn [fst snd].
    now rewrite (chain_literal_at id v Hin).
  Qed.

  Lemma value_in_values v : is_value v -> In v values.
  Proof.
    intros Hv. destruct (value_index v Hv) as [id Hid]. unfold values.
    change v with (snd (id, v)). now apply in_map.
  Qed.

  Lemma printable_app a b : printable_str (a ++ b) = printable_str a && printable_str b.
  Proof. induction a as [|c a IH]; cbn [append printable_str]; [reflexivity|]. rewrite IH. now rewrite andb_assoc. Qed.

  Theorem chain_subword_complete e p log :
    e_ignore_case e = false ->
    (var = Repaired \/ plain p = true) -> printable_str p = true ->
    (exists v, is_value v /\ String.prefix p v = true /\ p <> v) ->
    subword_complete var tabs e T (pre ++ p) log
    = Ok (map (append pre) (filter (String.prefix p) values), log).
  Proof.
    intros Hi Hpp Hpr (v & Hv & Hpv & Hne).
    pose proof (chain_strdom p (or_intror Hpp)) as Hpw.
    assert (Hprw : printable_str (pre ++ p) = true) by (rewrite printable_app, (Hprint pre pre_in), Hpr; reflexivity).
    unfold subword_complete, subword_complete_from.
    assert (exists f, sw_fuel T (pre ++ p) = S (S f)) as [f ->].
    { unfold sw_fuel.
      set (k := (count_entries (t_mlit T) + match t_mcmd T with Some l => count_entries l | None => 0 end)%nat).
      pose proof (length_pos pre pre_nonempty). rewrite length_append.
      destruct (S (String.length pre + String.length p) * S k)%nat as [|f] eqn:E; try lia. now exists f. }
    rewrite (fixed_piece_consumed var _ true tabs e T [] (pre ++ p) 0 [(ipre, 1)] 0 ipre pre 1 log
               Hvar Hpw chain_mlit0 chain_state0_unique chain_pre_in (assocN_single_same ipre 1)).
    2:{ cbn [sdrop]. apply prefix_app. }
    2:{ rewrite length_append. pose proof (length_pos pre pre_nonempty). lia. }
    2:{ apply chain_star_first. }
    cbn [Nat.add].
    destruct (fixed_partial_stops var f tabs e T [] (pre ++ p) 1 st1 (String.length pre) log
                Hvar Hpw chain_sorted chain_mlit1) as [m Hm].
    { rewrite sdrop_app. destruct (value_index v Hv) as [id Hid].
      exists id, v, 2. repeat split; try assumption.
      - now apply vals_in_lits.
      - unfold st1. now apply (assocN_map_const 2 _ id v). }
    rewrite Hm. cbn [obind]. rewrite chain_maxlevel.
    assert (Hlist : map (fun id => (stake (String.length pre) (pre ++ p) ++ literal_at T id)%string)
                        (level_row (t_clit T) 0 1) = map (append pre) values).
    { rewrite stake_app, chain_clit1. apply chain_offer_list. }
    rewrite (levels_offer_extensions var 0 tabs e T (pre ++ p) 1 (String.length pre) log Hi Hprw chain_ccmd).
    - rewrite Hlist, offers_as_values. reflexivity.
    - rewrite Hlist, offers_as_values. intros E.
      assert (In (pre ++ v)%string (map (append pre) (filter (String.prefix p) values))) as Hin.
      { apply in_map. apply filter_In. split; [now apply value_in_values|exact Hpv]. }
      rewrite E in Hin. contradiction.
  Qed.

  Lemma chain_main_clit0 : level_row (t_clit (a_main tabs)) 0 0 = [].
  Proof. reflexivity. Qed.
  Lemma chain_csub0 : level_row (a_csub tabs) 0 0 = [0].
  Proof. reflexivity. Qed.

  Lemma strip_no_wordbreaks e prefix ms :
    e_wordbreaks e = EmptyString -> strip_reply e prefix ms = Ok ms.
  Proof.
    intros H. unfold strip_reply. rewrite H. cbn [shortest_suffix obind].
    rewrite String.eqb_refl. cbn [obind].
    induction ms as [|m r IH]; [reflexivity|]. cbn [omap].
    replace (rm_shortest_prefix "" m) with (Some m).
    - cbn [obind]. rewrite IH. reflexivity.
    - unfold rm_shortest_prefix, with_pat. cbn [String.length parse]. unfold upto.
      cbn [seq first_cut]. destruct m; reflexivity.
  Qed.

  (** the reply before bash's own word-break stripping *)
  Theorem chain_partial_offers_gen e p :
    e_ignore_case e = false ->
    (var = Repaired \/ plain p = true) -> printable_str p = true ->
    (exists v, is_value v /\ String.prefix p v = true /\ p <> v) ->
    run_from var 0 tabs e [] (pre ++ p)
    = (do reply <- strip_reply e (pre ++ p) (map (append pre) (filter (String.prefix p) values));
       Ok (mkresult 0 reply [])).
  Proof.
    intros Hi Hpp Hpr Hex. unfold run_from. cbn [walk obind].
    rewrite chain_main_maxlevel. cbn [top_levels].
    replace (if quirky var then @nil string else []) with (@nil string) by (destruct (quirky var); reflexivity).
    rewrite chain_main_clit0, chain_csub0, chain_main_ccmd. cbn [map List.app obind].
    cbn [top_subs_level]. rewrite chain_subword_tables.
    rewrite (chain_subword_complete e p [] Hi Hpp Hpr Hex). cbn [obind List.app top_subs_level].
    destruct Hex as (v & Hv & Hpv & Hne).
    destruct (map (append pre) (filter (String.prefix p) values)) as [|x r] eqn:E.
    - exfalso.
      assert (In (pre ++ v)%string (map (append pre) (filter (String.prefix p) values))) as Hin.
      { apply in_map. apply filter_In. split; [now apply value_in_values|exact Hpv]. }
      rewrite E in Hin. contradiction.
    - destruct (strip_reply e (pre ++ p) (x :: r)); reflexivity.
  Qed.

  Theorem chain_partial_offers e p :
    e_ignore_case e = false -> e_wordbreaks e = EmptyString ->
    (var = Repaired \/ plain p = true) -> printable_str p = true ->
    (exists v, is_value v /\ String.prefix p v = true /\ p <> v) ->
    run_from var 0 tabs e [] (pre ++ p)
    = Ok (mkresult 0 (map (append pre) (filter (String.prefix p) values)) []).
  Proof.
    intros Hi Hw Hpp Hpr Hex. rewrite (chain_partial_offers_gen e p Hi Hpp Hpr Hex).
    now rewrite (strip_no_wordbreaks e _ _ Hw).
  Qed.
End Chain.
