(** [str::trim] (model) is idempotent and returns a substring; [take_until] returns a text without
    the delimiter.  Needed to show that every command the parser returns is printable. *)
From CG Require Import Base.Prelude Model.Ast Model.Lexer Model.Parser Spec.Printer
  Proofs.LexBase Proofs.LexBlanks Proofs.LexCommand Proofs.SpanSound.

Lemma trim_start_suffix : forall n s, (String.length s <= n)%nat -> exists u, s = append u (trim_start s).
Proof.
  induction n; intros s H.
  - destruct s; [exists EmptyString; reflexivity|cbn in H; lia].
  - rewrite trim_start_eq. destruct s as [|a [|b [|c r]]].
    + exists EmptyString; reflexivity.
    + destruct (ascii_ws (N_of_ascii a)); [exists (String a EmptyString)|exists EmptyString]; reflexivity.
    + destruct (ascii_ws (N_of_ascii a)).
      { destruct (IHn (String b EmptyString) ltac:(cbn in *; lia)) as [u E]. exists (String a u). cbn. f_equal. exact E. }
      destruct (ws2 (N_of_ascii a) (N_of_ascii b)); [exists (String a (String b EmptyString))|exists EmptyString]; reflexivity.
    + cbn [String.length] in H. destruct (ascii_ws (N_of_ascii a)).
      { destruct (IHn (String b (String c r)) ltac:(cbn [String.length]; lia)) as [u E]. exists (String a u). cbn. f_equal. exact E. }
      destruct (ws2 (N_of_ascii a) (N_of_ascii b)).
      { destruct (IHn (String c r) ltac:(cbn [String.length]; lia)) as [u E]. exists (String a (String b u)). cbn. do 2 f_equal. exact E. }
      destruct (ws3 (N_of_ascii a) (N_of_ascii b) (N_of_ascii c)).
      { destruct (IHn r ltac:(lia)) as [u E]. exists (String a (String b (String c u))). cbn. do 3 f_equal. exact E. }
      exists EmptyString; reflexivity.
Qed.

Lemma trim_start_idem : forall n s, (String.length s <= n)%nat -> trim_start (trim_start s) = trim_start s.
Proof.
  induction n; intros s H.
  - destruct s; [reflexivity|cbn in H; lia].
  - rewrite (trim_start_eq s). destruct s as [|a [|b [|c r]]]; [reflexivity| | |].
    + destruct (ascii_ws (N_of_ascii a)) eqn:A; [reflexivity|]. rewrite trim_start_eq, A. reflexivity.
    + destruct (ascii_ws (N_of_ascii a)) eqn:A; [apply IHn; cbn in *; lia|].
      destruct (ws2 (N_of_ascii a) (N_of_ascii b)) eqn:B; [reflexivity|]. rewrite trim_start_eq, A, B. reflexivity.
    + cbn [String.length] in H. destruct (ascii_ws (N_of_ascii a)) eqn:A; [apply IHn; cbn [String.length]; lia|].
      destruct (ws2 (N_of_ascii a) (N_of_ascii b)) eqn:B; [apply IHn; cbn [String.length]; lia|].
      destruct (ws3 (N_of_ascii a) (N_of_ascii b) (N_of_ascii c)) eqn:C; [apply IHn; lia|].
      rewrite trim_start_eq, A, B, C. reflexivity.
Qed.

(** the mirror image, for the reversed string *)
Lemma trim_rev_eq : forall s, trim_rev s =
  match s with
  | String a r1 =>
      if ascii_ws (N_of_ascii a) then trim_rev r1
      else match r1 with
           | String b r2 =>
               if ws2 (N_of_ascii b) (N_of_ascii a) then trim_rev r2
               else match r2 with
                    | String c r3 =>
                        if ws3 (N_of_ascii c) (N_of_ascii b) (N_of_ascii a) then trim_rev r3 else s
                    | EmptyString => s
                    end
           | EmptyString => s
           end
  | EmptyString => s
  end.
Proof. destruct s; reflexivity. Qed.

Lemma trim_rev_suffix : forall n s, (String.length s <= n)%nat -> exists u, s = append u (trim_rev s).
Proof.
  induction n; intros s H.
  - destruct s; [exists EmptyString; reflexivity|cbn in H; lia].
  - rewrite trim_rev_eq. destruct s as [|a [|b [|c r]]].
    + exists EmptyString; reflexivity.
    + destruct (ascii_ws (N_of_ascii a)); [exists (String a EmptyString)|exists EmptyString]; reflexivity.
    + destruct (ascii_ws (N_of_ascii a)).
      { destruct (IHn (String b EmptyString) ltac:(cbn in *; lia)) as [u E]. exists (String a u). cbn. f_equal. exact E. }
      destruct (ws2 (N_of_ascii b) (N_of_ascii a)); [exists (String a (String b EmptyString))|exists EmptyString]; reflexivity.
    + cbn [String.length] in H. destruct (ascii_ws (N_of_ascii a)).
      { destruct (IHn (String b (String c r)) ltac:(cbn [String.length]; lia)) as [u E]. exists (String a u). cbn. f_equal. exact E. }
      destruct (ws2 (N_of_ascii b) (N_of_ascii a)).
      { destruct (IHn (String c r) ltac:(cbn [String.length]; lia)) as [u E]. exists (String a (String b u)). cbn. do 2 f_equal. exact E. }
      destruct (ws3 (N_of_ascii c) (N_of_ascii b) (N_of_ascii a)).
      { destruct (IHn r ltac:(lia)) as [u E]. exists (String a (String b (String c u))). cbn. do 3 f_equal. exact E. }
      exists EmptyString; reflexivity.
Qed.

Lemma trim_rev_idem : forall n s, (String.length s <= n)%nat -> trim_rev (trim_rev s) = trim_rev s.
Proof.
  induction n; intros s H.
  - destruct s; [reflexivity|cbn in H; lia].
  - rewrite (trim_rev_eq s). destruct s as [|a [|b [|c r]]]; [reflexivity| | |].
    + destruct (ascii_ws (N_of_ascii a)) eqn:A; [reflexivity|]. rewrite trim_rev_eq, A. reflexivity.
    + destruct (ascii_ws (N_of_ascii a)) eqn:A; [apply IHn; cbn in *; lia|].
      destruct (ws2 (N_of_ascii b) (N_of_ascii a)) eqn:B; [reflexivity|]. rewrite trim_rev_eq, A, B. reflexivity.
    + cbn [String.length] in H. destruct (ascii_ws (N_of_ascii a)) eqn:A; [apply IHn; cbn [String.length]; lia|].
      destruct (ws2 (N_of_ascii b) (N_of_ascii a)) eqn:B; [apply IHn; cbn [String.length]; lia|].
      destruct (ws3 (N_of_ascii c) (N_of_ascii b) (N_of_ascii a)) eqn:C; [apply IHn; lia|].
      rewrite trim_rev_eq, A, B, C. reflexivity.
Qed.

Lemma trim_end_prefix : forall s, exists u, s = append (trim_end s) u.
Proof.
  intros s. unfold trim_end. destruct (trim_rev_suffix _ (srev s) (Nat.le_refl _)) as [u E].
  exists (srev u). rewrite <- srev_app, <- E. rewrite srev_involutive. reflexivity.
Qed.

Lemma trim_end_idem : forall s, trim_end (trim_end s) = trim_end s.
Proof. intros. unfold trim_end. rewrite srev_involutive. rewrite (trim_rev_idem _ _ (Nat.le_refl _)). reflexivity. Qed.

(** a prefix of a string that [trim_start] leaves alone is left alone *)
Lemma trim_start_prefix_fixed : forall y p q, trim_start y = y -> y = append p q -> trim_start p = p.
Proof.
  intros y p q F E. subst y. destruct p as [|a [|b [|c p']]]; [reflexivity| | |];
    rewrite trim_start_eq in F; cbn [append] in F.
  - destruct (ascii_ws (N_of_ascii a)) eqn:A.
    { exfalso. revert F. apply trim_start_shorter. cbn; lia. }
    rewrite trim_start_eq, A. reflexivity.
  - destruct (ascii_ws (N_of_ascii a)) eqn:A.
    { exfalso. revert F. apply trim_start_shorter. cbn; lia. }
    destruct (ws2 (N_of_ascii a) (N_of_ascii b)) eqn:B.
    { exfalso. revert F. apply trim_start_shorter. cbn; lia. }
    rewrite trim_start_eq, A, B. reflexivity.
  - destruct (ascii_ws (N_of_ascii a)) eqn:A.
    { exfalso. revert F. apply trim_start_shorter. cbn; lia. }
    destruct (ws2 (N_of_ascii a) (N_of_ascii b)) eqn:B.
    { exfalso. revert F. apply trim_start_shorter. cbn; lia. }
    destruct (ws3 (N_of_ascii a) (N_of_ascii b) (N_of_ascii c)) eqn:C.
    { exfalso. revert F. apply trim_start_shorter. cbn [String.length]. rewrite length_app_s. lia. }
    rewrite trim_start_eq, A, B, C. reflexivity.
Qed.

Theorem trim_fixed : forall s, trim_start (trim s) = trim s /\ trim_end (trim s) = trim s.
Proof.
  intros s. unfold trim. split; [|apply trim_end_idem].
  destruct (trim_end_prefix (trim_start s)) as [u E].
  eapply trim_start_prefix_fixed; [|exact E]. apply trim_start_idem with (n := String.length s). lia.
Qed.

(** *** substrings *)

Lemma starts_with_app : forall t a b, starts_with t a = true -> starts_with t (append a b) = true.
Proof.
  unfold starts_with. induction t; cbn [strip_prefix]; intros a0 b H; auto.
  destruct a0 as [|x a']; [discriminate|]. cbn [append]. destruct (Ascii.eqb a x); [|discriminate]. apply IHt; auto.
Qed.

Lemma has_sub_eq : forall t s, has_sub t s =
  if starts_with t s then true else match s with EmptyString => false | String _ r => has_sub t r end.
Proof. destruct s; reflexivity. Qed.

Lemma has_sub_app_r : forall t a b, has_sub t b = true -> has_sub t (append a b) = true.
Proof.
  induction a; cbn [append]; intros b H; auto. rewrite has_sub_eq. rewrite (IHa b H).
  destruct (starts_with t (String a (append a0 b))); reflexivity.
Qed.

Lemma has_sub_app_l : forall t a b, has_sub t a = true -> has_sub t (append a b) = true.
Proof.
  induction a; intros b H.
  - rewrite has_sub_eq in H. destruct (starts_with t EmptyString) eqn:S; [|discriminate].
    rewrite has_sub_eq. rewrite (starts_with_app t EmptyString b S). reflexivity.
  - rewrite has_sub_eq in H. cbn [append]. rewrite has_sub_eq.
    destruct (starts_with t (String a a0)) eqn:S.
    + change (String a (append a0 b)) with (append (String a a0) b). rewrite (starts_with_app _ _ b S). reflexivity.
    + rewrite (IHa b H). destruct (starts_with t (String a (append a0 b))); reflexivity.
Qed.

Lemma has_sub_trim : forall t s, has_sub t s = false -> has_sub t (trim s) = false.
Proof.
  intros t s H. destruct (has_sub t (trim s)) eqn:E; auto. exfalso.
  unfold trim in E. destruct (trim_end_prefix (trim_start s)) as [u Eu].
  destruct (trim_start_suffix _ s (Nat.le_refl _)) as [v Ev].
  assert (has_sub t s = true); [|congruence].
  rewrite Ev. apply has_sub_app_r. rewrite Eu. apply has_sub_app_l. exact E.
Qed.

Lemma split_until_nosub : forall t s a b, t <> EmptyString -> split_until t s = Some (a, b) -> has_sub t a = false.
Proof.
  intros t s a b Ht. revert a b. induction s as [|c r IH]; intros a b H.
  - cbn in H. destruct (starts_with t EmptyString); inversion H; subst.
    rewrite has_sub_eq. destruct t; [congruence|]. reflexivity.
  - cbn [split_until] in H. destruct (starts_with t (String c r)) eqn:S.
    + inversion H; subst. rewrite has_sub_eq. destruct t; [congruence|]. reflexivity.
    + destruct (split_until t r) as [[x y]|] eqn:E; [|discriminate]. inversion H; subst.
      rewrite has_sub_eq. rewrite (IH x b eq_refl).
      destruct (starts_with t (String c x)) eqn:S2; auto.
      pose proof (split_until_app t r x b E) as Er. subst r.
      change (String c (append x b)) with (append (String c x) b) in S.
      rewrite (starts_with_app _ _ b S2) in S. discriminate.
Qed.
