(** The switches of the within-word tables ([n_sub_cmd], [n_sub_star] of [Tables.get_needs]) are on
    whenever a within-word automaton met on a transition of the main automaton has a command or a
    catch-all transition. *)
From CG Require Import Base.Prelude Model.Ast Model.Dfa Model.Tables.
From CG Require Import Proofs.TablesSound.

Section SubNeeds.
  Variables (c : cdfa) (om : list (string * string)) (os : list (N * list (string * string)))
            (nd : needs) (a : alltables).
  Hypothesis Hwf : dfa_wf (c_main c).
  Hypothesis Hall : all_tables Bash c om os = Ok (nd, a).

  Lemma sub_in_needs s pi lvl to sd :
    trans_on (c_main c) s (ISub pi lvl) to -> nthN (c_subs c) pi = Some sd ->
    exists srts srt, In srt srts /\ rtrans sd = Ok srt
                     /\ n_sub_cmd nd = existsb has_cmd srts /\ n_sub_star nd = existsb has_star srts.
  Proof.
    intros Htr Hsd. destruct (all_tables_inv _ _ _ _ _ _ Hall) as [rt F].
    pose proof (af_needs _ _ _ _ _ _ _ F) as H. unfold get_needs in H.
    rewrite (af_rt _ _ _ _ _ _ _ F) in H. cbn [obind] in H.
    apply obind_ok in H. destruct H as [subs [Hsubs H]]. apply obind_ok in H. destruct H as [srts [Hsrts H]].
    inversion H; subst nd. cbn [n_sub_cmd n_sub_star].
    assert (Hin : In (s, ISub pi lvl, to) rt) by (apply (trans_on_rt _ _ _ _ _ Hwf (af_rt _ _ _ _ _ _ _ F)); exact Htr).
    unfold iter_subwords in Hsubs. apply obind_ok in Hsubs. destruct Hsubs as [l [Hl Hsubs]]. inversion Hsubs; subst subs.
    assert (Hsd' : In sd (List.concat l)).
    { apply in_concat. exists [sd]. split; [| left; reflexivity].
      apply (omap_ok_in _ _ _ Hl). exists (s, ISub pi lvl, to). split; [exact Hin |]. cbn [fst snd].
      unfold lookup_sub. rewrite Hsd. reflexivity. }
    destruct (omap_ok_total _ _ _ Hsrts sd Hsd') as [srt [Hsrt Hin']].
    exists srts, srt. split; [exact Hin' | split; [exact Hsrt | split; reflexivity]].
  Qed.

  Lemma sub_needs_cmd s pi lvl to sd s' cm l t' :
    dfa_wf sd -> trans_on (c_main c) s (ISub pi lvl) to -> nthN (c_subs c) pi = Some sd ->
    trans_on sd s' (ICmd cm l) t' -> n_sub_cmd nd = true.
  Proof.
    intros Hwfs Htr Hsd Htr'. destruct (sub_in_needs s pi lvl to sd Htr Hsd) as [srts [srt [Hin [Hsrt [E _]]]]].
    rewrite E. apply existsb_exists. exists srt. split; [exact Hin |]. unfold has_cmd. apply existsb_exists.
    exists (s', ICmd cm l, t'). split; [apply (trans_on_rt _ _ _ _ _ Hwfs Hsrt); exact Htr' | reflexivity].
  Qed.

  Lemma sub_needs_star s pi lvl to sd s' t' :
    dfa_wf sd -> trans_on (c_main c) s (ISub pi lvl) to -> nthN (c_subs c) pi = Some sd ->
    trans_on sd s' IStar t' -> n_sub_star nd = true.
  Proof.
    intros Hwfs Htr Hsd Htr'. destruct (sub_in_needs s pi lvl to sd Htr Hsd) as [srts [srt [Hin [Hsrt [_ E]]]]].
    rewrite E. apply existsb_exists. exists srt. split; [exact Hin |]. unfold has_star. apply existsb_exists.
    exists (s', IStar, t'). split; [apply (trans_on_rt _ _ _ _ _ Hwfs Hsrt); exact Htr' | reflexivity].
  Qed.
End SubNeeds.
