(** The placeholder class, on the tree: on a grammar the checker accepts, [from_valid_expr]
    rejects the validated tree with [UnboundedMatchable] iff [placeholder_not_last] holds of the
    source grammar (Spec/Mistakes.v); otherwise it succeeds. *)
From CG Require Import Base.Prelude Model.Ast Model.Check Model.Regex Spec.Choice Spec.Mistakes.
From CG Require Import Proofs.CheckLemmas Proofs.CheckWarnings Proofs.CheckOrder Proofs.CheckUndefined.
From CG Require Import Proofs.CheckSpacesSpec.
From CG Require Import Proofs.TreeFacts Proofs.CheckTree.
From CG Require Import Proofs.PhExpr Proofs.PhSkel Proofs.PhPool Proofs.PhSpec.

Local Open Scope list_scope.

Lemma ops_alts e : ops_nonempty e = true -> alts_nonempty e = true.
Proof.
  induction e using expr_ind'; cbn [ops_nonempty alts_nonempty]; intro Ho; try reflexivity;
    try (apply IHe; exact Ho).
  - destruct cs as [|c r]; [discriminate|]. rewrite forallb_forall in *. rewrite Forall_forall in H.
    intros x Hx. apply H; [exact Hx|apply Ho; exact Hx].
  - destruct cs as [|c r]; [discriminate|]. rewrite forallb_forall in *. rewrite Forall_forall in H.
    intros x Hx. apply H; [exact Hx|apply Ho; exact Hx].
  - destruct cs as [|c r]; [discriminate|]. rewrite forallb_forall in *. rewrite Forall_forall in H.
    intros x Hx. apply H; [exact Hx|apply Ho; exact Hx].
Qed.

Lemma grammar_ops_alts g : grammar_ops_nonempty g = true -> grammar_alts_nonempty g = true.
Proof.
  unfold grammar_ops_nonempty, grammar_alts_nonempty. rewrite !forallb_forall. intros H s Hs.
  specialize (H s Hs). destruct s; apply ops_alts; exact H.
Qed.

Theorem placeholder_decided builtins g sh v :
  from_grammar builtins g sh = Ok v -> grammar_ops_nonempty g = true ->
  (placeholder_not_last builtins g sh = true <->
   exists a b, from_valid_expr (v_expr v) = Err (UnboundedMatchable a b)) /\
  ((exists rp, from_valid_expr (v_expr v) = Ok rp) \/
   exists a b, from_valid_expr (v_expr v) = Err (UnboundedMatchable a b)).
Proof.
  intros Hv Hg.
  destruct (check_tree builtins g sh v Hv) as (Hdd & Hflat & _ & Halts).
  specialize (Halts (grammar_ops_alts g Hg)).
  pose proof (from_grammar_ok builtins g sh v Hv) as A.
  assert (Hexpr : v_expr v = propagate (collapse (resolve (a_table _ _ _ _ A)
                     (mt builtins sh (a_us _ _ _ _ A) (a_fs _ _ _ _ A)
                         (map d_name (defs1_of (a_defs0 _ _ _ _ A))) None (expr0_of g)))) 0).
  { pose proof (a_v _ _ _ _ A) as Hav. apply (f_equal v_expr) in Hav. exact Hav. }
  pose proof (words_agree builtins g sh _ _ _ (a_collect _ _ _ _ A) (a_specs _ _ _ _ A) _
                          (a_order _ _ _ _ A) (expr0_of g) None) as Hw.
  cbn zeta in Hw.
  assert (Hw' : wsk isref (v_expr v) = wsk (isP builtins g sh) (expand g sh (fuel_of g) (expr0_of g)))
    by (rewrite Hexpr; exact Hw).
  clear Hw. rename Hw' into Hw.
  pose proof (words_expr0 builtins g sh) as Hpl.
  (* operands in the grammar, hence in the words *)
  assert (Hops : forall n rhs, plain_chosen g sh n = Some rhs -> ops_nonempty rhs = true).
  { intros n rhs Hn. apply plain_chosen_plain in Hn. apply plain_definition_some_in in Hn.
    destruct Hn as [nsp Hin]. unfold grammar_ops_nonempty in Hg. rewrite forallb_forall in Hg.
    apply (Hg _ Hin). }
  assert (He0 : ops_nonempty (expr0_of g) = true).
  { assert (Hall : forallb ops_nonempty (map snd (call_variants g)) = true).
    { apply forallb_forall. intros e He. apply in_map_iff in He. destruct He as [[[n s] e'] [Heq Hin]].
      cbn in Heq. subst e'. unfold call_variants in Hin. apply in_flat_map in Hin.
      destruct Hin as [st [Hst Hin]]. destruct st; [|destruct Hin]. destruct Hin as [Hin|[]].
      inversion Hin; subst. unfold grammar_ops_nonempty in Hg. rewrite forallb_forall in Hg.
      apply (Hg _ Hst). }
    pose proof (a_dedup _ _ _ _ A) as Hd. unfold cv_names in Hd. unfold expr0_of.
    destruct (call_variants g) as [|x [|y r]] eqn:E; cbn [map] in *.
    - discriminate.
    - cbn in Hall. rewrite andb_true_r in Hall. exact Hall.
    - exact Hall. }
  assert (Hwops : forall c, In c (words_of (v_expr v)) -> ops_nonempty c = true).
  { intros c Hc. rewrite (ops_nonempty_sk isref c).
    assert (Hin : In (skw isref c) (wsk isref (v_expr v))) by (apply in_map; exact Hc).
    rewrite Hw in Hin. apply in_map_iff in Hin. destruct Hin as [w [Heq Hin]]. rewrite <- Heq.
    rewrite <- ops_nonempty_sk. eapply words_ops; [|exact Hin].
    apply (expand_ops g sh Hops). exact He0. }
  destruct (from_valid_expr_placeholder (v_expr v) Hdd Hflat Halts Hwops) as [Hiff Htot].
  split; [|exact Htot]. rewrite Hiff, <- Hpl, <- Hw. unfold wsk. rewrite existsb_map', existsb_exists. split.
  - intros (w & Hin & Hn). exists w. split; [exact Hin|]. rewrite ph_last_sk. apply negb_true_iff in Hn. exact Hn.
  - intros (w & Hin & Hn). exists w. split; [exact Hin|]. rewrite ph_last_sk in Hn. rewrite Hn. reflexivity.
Qed.
