(** The within-word function of the script against the specification, for within-word expressions
    with all kinds of pieces (literals, commands, undefined nonterminals).

    [subword_matches_gen]: in matching mode the function computes the greedy reading
    [KnownC01.gaccepts].  [subword_complete_gen]: in completing mode it consumes greedily
    ([WordGen.grun]) and offers, from the first fallback level that has any, what the point where it
    stops offers; as sets this is [Meaning.wproper]. *)
From CG Require Import Base.Prelude Model.Ast Model.Dfa Model.Tables Model.Glob Model.BashSem.
From CG Require Import Spec.Lang Spec.Rx Spec.Meaning Spec.DfaEquiv Spec.Domain Spec.KnownC01 Spec.Invocations.
From CG Require Import Proofs.RxFacts Proofs.MeaningFacts Proofs.TablesSound Proofs.LangBridge Proofs.DfaMeaning
     Proofs.DomainFacts Proofs.SimGen Proofs.TablesKeys Proofs.TableLookup Proofs.WordTokens Proofs.SubwordMatch
     Proofs.BashMeaningLit Proofs.BashMeaningTop Proofs.SubwordComplete Proofs.LevelsFacts Proofs.SubwordFacts
     Proofs.StripFacts Proofs.WordSim Proofs.WordGen Proofs.C17Proofs.

(** *** the loops of the function on plain strings *)
Lemma lls_cont b lits st sub to n :
  lit_loop_str b lits st sub = SCont to n ->
  exists lid lit, In (lid, lit) lits /\ assocN lid st = Some to /\ String.prefix lit sub = true /\ n = String.length lit.
Proof.
  induction lits as [| [lid lit] r IH]; cbn [lit_loop_str]; intro H; [discriminate |].
  destruct (assocN lid st) as [t0 |] eqn:Ea.
  - destruct (String.eqb lit sub) eqn:E1.
    + inversion H; subst. apply String.eqb_eq in E1. subst sub. exists lid, lit.
      split; [left; reflexivity | split; [exact Ea | split; [apply prefix_refl | reflexivity]]].
    + destruct (b && String.prefix sub lit); [discriminate |]. destruct (String.prefix lit sub) eqn:E2.
      * inversion H; subst. exists lid, lit. split; [left; reflexivity | split; [exact Ea | split; [exact E2 | reflexivity]]].
      * destruct (IH H) as [l' [t' [Hin Hr]]]. exists l', t'. split; [right; exact Hin | exact Hr].
  - destruct (IH H) as [l' [t' [Hin Hr]]]. exists l', t'. split; [right; exact Hin | exact Hr].
Qed.

Lemma lls_break b lits st sub :
  lit_loop_str b lits st sub = SBreak ->
  b = true /\ exists lid lit to, In (lid, lit) lits /\ assocN lid st = Some to /\ String.prefix sub lit = true /\ lit <> sub.
Proof.
  induction lits as [| [lid0 lit0] r IH]; cbn [lit_loop_str]; intro H; [discriminate |].
  destruct (assocN lid0 st) as [t0 |] eqn:Ea0.
  - destruct (String.eqb lit0 sub) eqn:E1; [discriminate |].
    destruct (b && String.prefix sub lit0) eqn:E3.
    + apply andb_true_iff in E3. destruct E3 as [Eb E3]. split; [exact Eb |].
      exists lid0, lit0, t0. split; [left; reflexivity | split; [exact Ea0 | split; [exact E3 |]]].
      intro E. subst. rewrite String.eqb_refl in E1. discriminate.
    + destruct (String.prefix lit0 sub); [discriminate |].
      destruct (IH H) as [Eb [l' [t' [to' [Hin Hr]]]]]. split; [exact Eb |]. exists l', t', to'. split; [right; exact Hin | exact Hr].
  - destruct (IH H) as [Eb [l' [t' [to' [Hin Hr]]]]]. split; [exact Eb |]. exists l', t', to'. split; [right; exact Hin | exact Hr].
Qed.

Lemma lls_none b lits st sub :
  lit_loop_str b lits st sub = SNone ->
  forall lid lit to, In (lid, lit) lits -> assocN lid st = Some to ->
    String.prefix lit sub = false /\ (b = true -> String.prefix sub lit = false).
Proof.
  induction lits as [| [lid0 lit0] r IH]; cbn [lit_loop_str]; intros H lid lit to Hin Ha; [destruct Hin |].
  destruct (assocN lid0 st) as [t0 |] eqn:Ea0.
  - destruct (String.eqb lit0 sub) eqn:E1; [discriminate |].
    destruct (b && String.prefix sub lit0) eqn:E3; [discriminate |].
    destruct (String.prefix lit0 sub) eqn:E2; [discriminate |].
    destruct Hin as [E | Hin]; [| eapply IH; eassumption]. inversion E; subst. split; [exact E2 |].
    intros ->. cbn in E3. exact E3.
  - destruct Hin as [E | Hin]; [inversion E; subst; congruence | eapply IH; eassumption].
Qed.

Lemma cls_cont b cands to sub to' n :
  cand_loop_str b cands to sub = SCont to' n ->
  to' = to /\ exists c, In c cands /\ String.prefix c sub = true /\ n = String.length c /\ (c <> EmptyString \/ sub = EmptyString).
Proof.
  induction cands as [| c r IH]; cbn [cand_loop_str]; intro H; [discriminate |].
  destruct (String.eqb sub c) eqn:E1.
  - inversion H; subst. apply String.eqb_eq in E1. subst c. split; [reflexivity |]. exists sub.
    split; [left; reflexivity | split; [apply prefix_refl | split; [reflexivity |]]]. destruct sub; [right; reflexivity | left; discriminate].
  - destruct (b && String.prefix sub c); [discriminate |].
    destruct ((match c with EmptyString => false | _ => true end) && String.prefix c sub) eqn:E2.
    + inversion H; subst. apply andb_true_iff in E2. destruct E2 as [E2 E3]. split; [reflexivity |]. exists c.
      split; [left; reflexivity | split; [exact E3 | split; [reflexivity | left; destruct c; [discriminate | discriminate]]]].
    + destruct (IH H) as [Et [c' [Hin Hr]]]. split; [exact Et |]. exists c'. split; [right; exact Hin | exact Hr].
Qed.

Lemma cls_break b cands to sub :
  cand_loop_str b cands to sub = SBreak -> b = true /\ exists c, In c cands /\ String.prefix sub c = true /\ c <> sub.
Proof.
  induction cands as [| c r IH]; cbn [cand_loop_str]; intro H; [discriminate |].
  destruct (String.eqb sub c) eqn:E1; [discriminate |].
  destruct (b && String.prefix sub c) eqn:E3.
  - apply andb_true_iff in E3. destruct E3 as [Eb E3]. split; [exact Eb |]. exists c. split; [left; reflexivity | split; [exact E3 |]].
    intro E. subst. rewrite String.eqb_refl in E1. discriminate.
  - destruct ((match c with EmptyString => false | _ => true end) && String.prefix c sub); [discriminate |].
    destruct (IH H) as [Eb [c' [Hin Hr]]]. split; [exact Eb |]. exists c'. split; [right; exact Hin | exact Hr].
Qed.

Lemma cls_none b cands to sub :
  cand_loop_str b cands to sub = SNone ->
  forall c, In c cands -> (c <> EmptyString -> String.prefix c sub = false) /\ (b = true -> String.prefix sub c = false).
Proof.
  induction cands as [| c0 r IH]; cbn [cand_loop_str]; intros H c Hin; [destruct Hin |].
  destruct (String.eqb sub c0) eqn:E1; [discriminate |].
  destruct (b && String.prefix sub c0) eqn:E3; [discriminate |].
  destruct ((match c0 with EmptyString => false | _ => true end) && String.prefix c0 sub) eqn:E2; [discriminate |].
  destruct Hin as [<- | Hin]; [| apply (IH H c Hin)]. split.
  - intro Hne. destruct c0; [contradiction |]. cbn in E2. exact E2.
  - intros ->. cbn in E3. exact E3.
Qed.

Lemma In_sort_desc c l : In c (sort_desc l) <-> In c l.
Proof.
  assert (G : forall l', In c l' <-> existsb (String.eqb c) l' = true).
  { intro l'. rewrite existsb_exists. split; [intro H; exists c; split; [exact H | apply String.eqb_refl] |].
    intros [y [Hy E]]. apply String.eqb_eq in E. subst. exact Hy. }
  rewrite (G (sort_desc l)), (G l), existsb_sort_desc. reflexivity.
Qed.

Section CmdLoop.
  Variables (a : alltables) (benv : BashSem.env).
  Definition ccands (cid : N) : list string := spec_candidates (cmd_output benv cid).

  Lemma cmd_loop_spec b sub mp : forall L,
    (forall cid to, In (cid, to) L -> nthN (a_commands a) cid <> None) ->
    exists r, (forall log, exists log', cmd_loop Repaired b a benv L sub mp log = Ok (r, log'))
      /\ match r with
         | SCont to n => exists cid c, In (cid, to) L /\ In c (ccands cid) /\ String.prefix c sub = true /\ n = String.length c
                                       /\ (c <> EmptyString \/ sub = EmptyString)
         | SBreak => b = true /\ exists cid to c, In (cid, to) L /\ In c (ccands cid) /\ String.prefix sub c = true /\ c <> sub
         | SNone => forall cid to c, In (cid, to) L -> In c (ccands cid) ->
                                     (c <> EmptyString -> String.prefix c sub = false) /\ (b = true -> String.prefix sub c = false)
         end.
  Proof.
    induction L as [| [cid to] L IH]; intros Hc.
    - exists SNone. split; [intro log; exists log; reflexivity | intros cid to c []].
    - assert (Hc' : forall cid' to', In (cid', to') L -> nthN (a_commands a) cid' <> None) by (intros c' t' H; apply (Hc c' t'); right; exact H).
      destruct (IH Hc') as [rt [Et Hspec]].
      destruct (nthN (a_commands a) cid) eqn:En; [| exfalso; apply (Hc cid to (or_introl eq_refl)); exact En].
      assert (Hstep : forall log, cmd_loop Repaired b a benv ((cid, to) :: L) sub mp log
                = match ccands cid with
                  | [] => cmd_loop Repaired b a benv L sub mp ((cid, sub, mp) :: log)
                  | _ => match cand_loop_str b (sort_desc (ccands cid)) to sub with
                         | SNone => cmd_loop Repaired b a benv L sub mp ((cid, sub, mp) :: log)
                         | r => Ok (r, (cid, sub, mp) :: log)
                         end
                  end).
      { intro log. cbn [cmd_loop]. unfold run_cmd. rewrite En. cbn [obind]. unfold command_lines. cbn [quirky].
        rewrite filter_lines_repaired_spec. fold (ccands cid). destruct (ccands cid) as [| c0 cs]; [reflexivity |].
        unfold cand_loop. cbn [quirky obind]. destruct (cand_loop_str b (sort_desc (c0 :: cs)) to sub); reflexivity. }
      destruct (ccands cid) as [| c0 cs] eqn:Ecs.
      + exists rt. split.
        * intro log. rewrite Hstep. apply Et.
        * destruct rt as [to' n | |].
          -- destruct Hspec as [cid' [c [Hin Hr]]]. exists cid', c. split; [right; exact Hin | exact Hr].
          -- destruct Hspec as [Eb [cid' [to' [c [Hin Hr]]]]]. split; [exact Eb |]. exists cid', to', c. split; [right; exact Hin | exact Hr].
          -- intros cid' to' c [Ein | Hin] Hcc; [inversion Ein; subst; rewrite Ecs in Hcc; destruct Hcc | apply (Hspec cid' to' c Hin Hcc)].
      + destruct (cand_loop_str b (sort_desc (c0 :: cs)) to sub) as [to' n | |] eqn:Ecl.
        * exists (SCont to' n). split; [intro log; rewrite Hstep; eexists; reflexivity |].
          destruct (cls_cont _ _ _ _ _ _ Ecl) as [-> [c [Hin Hr]]]. apply (proj1 (In_sort_desc _ _)) in Hin.
          exists cid, c. split; [left; reflexivity | split; [rewrite Ecs; exact Hin | exact Hr]].
        * exists SBreak. split; [intro log; rewrite Hstep; eexists; reflexivity |].
          destruct (cls_break _ _ _ _ Ecl) as [Eb [c [Hin Hr]]]. apply (proj1 (In_sort_desc _ _)) in Hin. split; [exact Eb |].
          exists cid, to, c. split; [left; reflexivity | split; [rewrite Ecs; exact Hin | exact Hr]].
        * exists rt. split; [intro log; rewrite Hstep; apply Et |].
          destruct rt as [to' n | |].
          -- destruct Hspec as [cid' [c [Hin Hr]]]. exists cid', c. split; [right; exact Hin | exact Hr].
          -- destruct Hspec as [Eb [cid' [to' [c [Hin Hr]]]]]. split; [exact Eb |]. exists cid', to', c. split; [right; exact Hin | exact Hr].
          -- intros cid' to' c [Ein | Hin] Hcc; [| apply (Hspec cid' to' c Hin Hcc)]. inversion Ein; subst.
             apply (cls_none _ _ _ _ Ecl c). apply (proj2 (In_sort_desc _ _)). rewrite <- Ecs. exact Hcc.
  Qed.
End CmdLoop.

Lemma inp_of_wleaf_inj a b : inp_of_wleaf a = inp_of_wleaf b -> a = b.
Proof. destruct a, b; cbn; intro H; try discriminate; inversion H; subst; reflexivity. Qed.

Lemma printable_gsdrop n : forall s, printable_str s = true -> printable_str (Glob.sdrop n s) = true.
Proof.
  induction n as [| n IH]; intros s H; destruct s as [| c s]; cbn [Glob.sdrop]; try assumption.
  cbn [printable_str] in H. apply andb_true_iff in H. destruct H as [_ H]. apply IH. exact H.
Qed.

Section CmdsLevel.
  Variables (a : alltables) (benv : BashSem.env).
  Hypothesis Hic : e_ignore_case benv = false.

  Definition cmds_off (cp mp : string) (cids : list N) : list string :=
    flat_map (fun cid => map (append mp) (filter (String.prefix cp) (ccands benv cid))) cids.

  Lemma sw_cmds_level_gen cp mp : printable_str cp = true -> forall cids sc sm,
    (forall cid, In cid cids -> nthN (a_commands a) cid <> None) ->
    exists sc', forall log, exists log', sw_cmds_level Repaired a benv cids cp mp sc sm log = Ok (sc', sm ++ cmds_off cp mp cids, log').
  Proof.
    intro Hp. induction cids as [| cid r IH]; intros sc sm Hc; cbn [sw_cmds_level cmds_off flat_map].
    - rewrite app_nil_r. exists sc. intro log. eauto.
    - destruct (nthN (a_commands a) cid) eqn:En; [| exfalso; apply (Hc cid (or_introl eq_refl)); exact En].
      destruct (IH (ccands benv cid) (sm ++ map (append mp) (filter (String.prefix cp) (ccands benv cid)))) as [sc' E].
      { intros c' H. apply Hc. right; exact H. }
      exists sc'. intro log. unfold run_cmd. rewrite En. cbn [obind]. unfold command_lines. cbn [quirky].
      rewrite filter_lines_repaired_spec. fold (ccands benv cid).
      rewrite (match_fn_prefix_filter benv cp _ Hic Hp). cbn [obind].
      destruct (E ((cid, cp, mp) :: log)) as [log' E']. exists log'. rewrite E'. rewrite <- app_assoc. reflexivity.
  Qed.
End CmdsLevel.

Section WordSimG.
  Variables (sd : dfa) (cmds : list string) (nc ncp ns : bool) (ord : list (string * string)) (Tw : tables)
            (x : rx wleaf).
  Variables (a : alltables) (benv : BashSem.env) (en : Meaning.env).
  Hypothesis Hwf : dfa_wf sd.
  Hypothesis Hinp : NoDup (d_inputs sd).
  Hypothesis Htrim : trim sd.
  Hypothesis Hglt : get_lookup_tables sd cmds 0 nc ncp ns ord = Ok Tw.
  Hypothesis Hord : NoDup ord.
  Hypothesis Hvalid : valid_literal_order sd ord = true.
  Hypothesis Hsim0 : gsim inp_of_wleaf sd (d_start sd) [x].
  Hypothesis Hz : zero_free x = true.
  Hypothesis Hdom : word_in_domain x.
  Hypothesis Henvw : env_word_ok en x.
  Hypothesis Hcmds : a_commands a = cmds.
  Hypothesis Hcenv : forall cm cid, Tables.index_of cm cmds = Some cid -> spec_candidates (cmd_output benv cid) = candidates en cm.
  Hypothesis Hnc : forall s cm l t, trans_on sd s (ICmd cm l) t -> nc = true.
  Hypothesis Hns : forall s t, trans_on sd s IStar t -> ns = true.
  Hypothesis Hic : e_ignore_case benv = false.

  Record wrel (s : N) (S : list (rx wleaf)) : Prop := {
    wr_sim : gsim inp_of_wleaf sd s S;
    wr_z : forall k, In k S -> zero_free k = true;
    wr_inv : winv x S
  }.

  Lemma wrel_start : wrel (d_start sd) [x].
  Proof. constructor; [exact Hsim0 | intros k [<- | []]; exact Hz | apply winv_start]. Qed.

  Lemma targets_co s i t : Dfa.step sd s i = Some t -> coreachable sd t.
  Proof. intro H. destruct Htrim as [_ Hco]. apply Hco. apply (step_in_states sd s i t H). Qed.

  Lemma wtrans_item s S y t : wrel s S -> trans_on sd s y t -> exists a0 k, In (a0, k) (mvs S) /\ inp_of_wleaf a0 = y.
  Proof.
    intros R Htr. apply (gsim_trans_iff inp_of_wleaf sd Hwf s S y (wr_sim _ _ R) (wr_z _ _ R)); [intros i t'; apply targets_co | eauto].
  Qed.

  Lemma witem_trans s S a0 k : wrel s S -> In (a0, k) (mvs S) -> exists t, trans_on sd s (inp_of_wleaf a0) t.
  Proof.
    intros R Hin. apply (gsim_trans_iff inp_of_wleaf sd Hwf s S _ (wr_sim _ _ R) (wr_z _ _ R)); [intros i t'; apply targets_co |].
    exists a0, k. split; [exact Hin | reflexivity].
  Qed.

  Lemma trans_fun s y t t' : trans_on sd s y t -> trans_on sd s y t' -> t = t'.
  Proof.
    intros [i [Hs Hn]] [j [Hs' Hn']]. rewrite (nthN_inj sd Hinp i j y Hn Hn') in Hs. rewrite Hs in Hs'. inversion Hs'. reflexivity.
  Qed.

  Lemma wrel_next s S a0 S' to :
    wrel s S -> trans_on sd s (inp_of_wleaf a0) to -> (forall k, In k S' <-> In (a0, k) (mvs S)) -> winv x S' -> wrel to S'.
  Proof.
    intros R [i [Hs Hn]] HS' I'. constructor.
    - apply (gsim_step inp_of_wleaf sd Hinp s S i to _ S' (wr_sim _ _ R) Hs Hn). intro k. rewrite HS'. split.
      + intro H. exists a0. split; [exact H | reflexivity].
      + intros [a' [H Ha]]. apply inp_of_wleaf_inj in Ha. subst a'. exact H.
    - intros k Hk. apply HS' in Hk. apply mvs_In in Hk. destruct Hk as [r [Hr Hlf]].
      eapply zero_free_lf; [apply (wr_z _ _ R r Hr) | exact Hlf].
    - exact I'.
  Qed.

  Lemma wpoint s S : wrel s S -> wpoint_decl (mvs S).
  Proof. intro R. apply (winv_point x Hdom S (wr_inv _ _ R)). Qed.

  Lemma wrel_lit s S t d l k0 to :
    wrel s S -> In (WLit t d l, k0) (mvs S) -> trans_on sd s (ILit t d l) to -> wrel to (after_lit t (mvs S)).
  Proof.
    intros R Hin Htr. apply (wrel_next s S (WLit t d l) _ to R Htr); [| apply (winv_lit x S t d l k0 (wr_inv _ _ R) Hin)].
    intro k. rewrite after_lit_In. split; [| intro H; eauto].
    intros [d' [l' H]]. destruct (proj1 (wpoint s S R) t d' l' d l k k0 H Hin) as [-> ->]. exact H.
  Qed.

  Lemma wrel_cmd s S c l k0 to :
    wrel s S -> In (WCmd c l, k0) (mvs S) -> trans_on sd s (ICmd c l) to -> wrel to (after_cmd c (mvs S)).
  Proof.
    intros R Hin Htr. apply (wrel_next s S (WCmd c l) _ to R Htr); [| apply (winv_cmd x Hdom S c l k0 (wr_inv _ _ R) Hin)].
    intro k. rewrite after_cmd_In. split; [| intro H; eauto].
    intros [l' H]. rewrite (proj1 (proj2 (wpoint s S R)) c l' l k k0 H Hin) in H. exact H.
  Qed.

  (** *** the tables at a related state *)
  Lemma enabled_sound s lit to : In (lit, to) (enabled Tw s) -> exists dso lvl, trans_on sd s (ILit lit dso lvl) to.
  Proof.
    intro H. destruct (assocN s (t_mlit Tw)) as [st |] eqn:Es; [| unfold enabled in H; rewrite Es in H; destruct H].
    apply (enabled_in Tw s st lit to Es) in H. destruct H as [lid [Hin Ha]].
    apply (indexed_lit sd cmds nc ncp ns ord Tw Hglt) in Hin. destruct Hin as [ds Hl].
    assert (Hh : tbl_has (t_mlit Tw) s lid to) by (exists st; split; apply assocN_in; assumption).
    destruct (mlit_sound sd cmds 0 nc ncp ns ord Tw Hwf Hord Hglt s lid to Hh) as [text [dso [lvl [Htr Hl']]]].
    destruct (lit_at_fun _ _ _ _ _ _ Hl Hl') as [-> _]. exists dso, lvl. exact Htr.
  Qed.

  Lemma lit_item s S t dso lvl to : wrel s S -> trans_on sd s (ILit t dso lvl) to -> exists k, In (WLit t dso lvl, k) (mvs S).
  Proof.
    intros R Htr. destruct (wtrans_item s S _ to R Htr) as [a0 [k [Hin Ha]]].
    destruct a0; cbn in Ha; try discriminate. inversion Ha; subst. exists k. exact Hin.
  Qed.

  Lemma enabled_complete s S w dso lvl to : wrel s S -> trans_on sd s (ILit w dso lvl) to -> In (w, to) (enabled Tw s).
  Proof.
    intros R Htr. destruct (glt_inv _ _ _ _ _ _ _ _ Hglt) as [rt F].
    pose proof Htr as [i [Hs Hn]].
    destruct (valid_order_covers sd ord 0 i w dso lvl Hvalid Hn) as [lid Hl].
    apply (step_in _ _ _ _ Hwf) in Hs.
    assert (Hsel : lit_sel (all_literals ord 0) (ILit w dso lvl) = Some (Ok lid)).
    { cbn. f_equal. apply (lit_id_at _ _ _ _ _ Hord). exact Hl. }
    destruct (match_table_has _ _ _ _ _ _ _ _ (gf_mlit _ _ _ _ _ _ _ _ _ F) Hs Hn Hsel) as [to' Hh].
    destruct (mlit_sound sd cmds 0 nc ncp ns ord Tw Hwf Hord Hglt s lid to' Hh) as [text [dso' [lvl' [Htr' Hl']]]].
    destruct (lit_at_fun _ _ _ _ _ _ Hl Hl') as [<- _].
    destruct (lit_item s S w dso lvl to R Htr) as [k1 H1]. destruct (lit_item s S w dso' lvl' to' R Htr') as [k2 H2].
    destruct (proj1 (wpoint s S R) w dso' lvl' dso lvl k2 k1 H2 H1) as [-> ->].
    assert (to' = to) by (apply (trans_fun s _ to' to Htr' Htr)). subst to'.
    destruct (mlit_keys sd cmds nc ncp ns ord Tw Hglt) as [K1 K2].
    apply (tbl_has_assoc _ _ _ _ K1 K2) in Hh. destruct Hh as [row [Hr Hk]].
    apply (enabled_in Tw s row w to Hr). exists lid. split; [| exact Hk].
    apply (indexed_lit sd cmds nc ncp ns ord Tw Hglt). eauto.
  Qed.

  Lemma cmd_row_sound ct s row cid to : t_mcmd Tw = Some ct -> assocN s ct = Some row -> In (cid, to) row ->
    exists cm l, Tables.index_of cm cmds = Some cid /\ trans_on sd s (ICmd cm l) to.
  Proof.
    intros Hct Hr Hin.
    assert (Hh : tbl_has ct s cid to) by (exists row; split; [apply assocN_in; exact Hr | exact Hin]).
    destruct (mcmd_sound sd cmds 0 nc ncp ns ord Tw Hwf Hglt ct s cid to Hct Hh) as [cm [l [Htr Hid]]]. eauto.
  Qed.

  Lemma cmd_row_keys ct s row : t_mcmd Tw = Some ct -> assocN s ct = Some row -> NoDup (map fst row).
  Proof.
    intros Hct Hr. destruct (glt_inv _ _ _ _ _ _ _ _ Hglt) as [rt F].
    destruct (gf_mcmd _ _ _ _ _ _ _ _ _ F) as [[_ [m [Hm Em]]] | [_ Em]]; rewrite Em in Hct; [| discriminate].
    inversion Hct; subst m.
    destruct (match_table_keys _ _ _ _ (get_all_states_NoDup sd) Hm) as [_ K2]. apply (K2 s row). apply assocN_in. exact Hr.
  Qed.

  Lemma cmd_item s S cm l to : wrel s S -> trans_on sd s (ICmd cm l) to -> exists k, In (WCmd cm l, k) (mvs S).
  Proof.
    intros R Htr. destruct (wtrans_item s S _ to R Htr) as [a0 [k [Hin Ha]]].
    destruct a0; cbn in Ha; try discriminate. inversion Ha; subst. exists k. exact Hin.
  Qed.

  Lemma cmd_row_complete s S cm l to : wrel s S -> trans_on sd s (ICmd cm l) to ->
    exists ct row cid, t_mcmd Tw = Some ct /\ assocN s ct = Some row /\ Tables.index_of cm cmds = Some cid /\ In (cid, to) row.
  Proof.
    intros R Htr. destruct (glt_inv _ _ _ _ _ _ _ _ Hglt) as [rt F].
    destruct (gf_mcmd _ _ _ _ _ _ _ _ _ F) as [[_ [ct [Hct Ect]]] | [Hf _]]; [| rewrite (Hnc s cm l to Htr) in Hf; discriminate].
    pose proof Htr as [i [Hs Hn]]. apply (step_in _ _ _ _ Hwf) in Hs.
    assert (Hid : exists cid, cmd_sel cmds (ICmd cm l) = Some (Ok cid)).
    { assert (Hs0 : In s (get_all_states sd)) by (eapply has_transition_state; eassumption).
      unfold match_table in Hct. apply obind_ok in Hct. destruct Hct as [rows [Hrows _]].
      destruct (omap_ok_total _ _ _ Hrows s Hs0) as [y [Hy _]].
      apply obind_ok in Hy. destruct Hy as [tr [Htr' Hy]]. apply obind_ok in Hy. destruct Hy as [kvs [Hkvs _]].
      assert (Hx : In (ICmd cm l, to) tr) by (apply (rtrans_from_in _ _ _ _ _ Htr'); eauto).
      destruct (omap_ok_total _ _ _ Hkvs _ Hx) as [y' [Hy' _]]. cbn [fst cmd_sel] in Hy'.
      cbn [cmd_sel]. unfold cmd_id_or_panic in *. destruct (Tables.index_of cm cmds) as [cid |].
      - exists cid. reflexivity.
      - cbn in Hy'. discriminate. }
    destruct Hid as [cid Hsel].
    destruct (match_table_has _ _ _ _ _ _ _ _ Hct Hs Hn Hsel) as [to' Hh].
    destruct (match_table_keys _ _ _ _ (get_all_states_NoDup sd) Hct) as [K1 K2].
    apply (tbl_has_assoc _ _ _ _ K1 K2) in Hh. destruct Hh as [row [Hr Hk]].
    assert (Hidx : Tables.index_of cm cmds = Some cid).
    { cbn [cmd_sel] in Hsel. inversion Hsel as [Hc']. apply cmd_id_at in Hc'. exact Hc'. }
    exists ct, row, cid. split; [exact Ect | split; [exact Hr | split; [exact Hidx |]]].
    apply assocN_in in Hk.
    destruct (cmd_row_sound ct s row cid to' Ect Hr Hk) as [cm' [l' [Hidx' Htr']]].
    pose proof (index_of_inj _ _ _ _ Hidx' Hidx) as E. subst cm'.
    destruct (cmd_item s S cm l to R Htr) as [k1 H1]. destruct (cmd_item s S cm l' to' R Htr') as [k2 H2].
    rewrite (proj1 (proj2 (wpoint s S R)) cm l' l k2 k1 H2 H1) in Htr'.
    rewrite <- (trans_fun s _ to' to Htr' Htr). exact Hk.
  Qed.

  Lemma star_row s S : wrel s S ->
    (match t_mstar Tw with Some stars => has_key s stars | None => false end) = has_any (mvs S).
  Proof.
    intro R. destruct (glt_inv _ _ _ _ _ _ _ _ Hglt) as [rt F].
    destruct (has_any (mvs S)) eqn:Ha.
    - unfold has_any in Ha. apply existsb_exists in Ha. destruct Ha as [[a0 k] [Hin Hk]]. cbn [fst] in Hk. destruct a0; try discriminate.
      destruct (witem_trans s S _ k R Hin) as [t Htr]. cbn [inp_of_wleaf] in Htr.
      pose proof (gf_mstar _ _ _ _ _ _ _ _ _ F) as Est. rewrite (Hns s t Htr) in Est. rewrite Est.
      apply (mstar_exact sd cmds 0 nc ncp ns ord Tw Hwf Hglt _ s t Est) in Htr.
      unfold has_key. destruct (assocN s (star_transitions rt)) eqn:Ea; [reflexivity | exfalso].
      apply assocN_none_keys in Ea. apply Ea. apply in_map_iff. exists (s, t). split; [reflexivity | exact Htr].
    - destruct (t_mstar Tw) as [stars |] eqn:Est; [| reflexivity].
      unfold has_key. destruct (assocN s stars) as [to |] eqn:Ea; [exfalso | reflexivity].
      apply assocN_in in Ea. apply (mstar_exact sd cmds 0 nc ncp ns ord Tw Hwf Hglt stars s to Est) in Ea.
      destruct (wtrans_item s S _ to R Ea) as [a0 [k [Hin Hi]]]. destruct a0; cbn in Hi; try discriminate.
      assert (Ht : has_any (mvs S) = true) by (unfold has_any; apply existsb_exists; exists (WAny, k); split; [exact Hin | reflexivity]).
      congruence.
  Qed.

  (** *** one round of the loop at a related state *)
  Lemma tok_comparable s S a1 k1 o1 a2 k2 o2 sub : wrel s S -> etok en S a1 k1 o1 -> etok en S a2 k2 o2 ->
    String.prefix o1 sub = true -> String.prefix o2 sub = true -> o1 = o2 /\ src_of a1 = src_of a2.
  Proof.
    intros R E1 E2 P1 P2. destruct (prefixes_comparable o1 o2 _ P1 P2) as [Hc | Hc].
    - apply (etok_prefix en x Henvw S a1 k1 o1 a2 k2 o2 (wr_inv _ _ R) E1 E2 Hc).
    - destruct (etok_prefix en x Henvw S a2 k2 o2 a1 k1 o1 (wr_inv _ _ R) E2 E1 Hc) as [A B]. split; symmetry; assumption.
  Qed.

  (** a piece that properly extends what is left excludes every piece that begins it *)
  Lemma extends_stops s S a0 k0 o0 sub : wrel s S -> etok en S a0 k0 o0 -> String.prefix sub o0 = true -> o0 <> sub ->
    forall a1 k1 o1, etok en S a1 k1 o1 -> String.prefix o1 sub = false.
  Proof.
    intros R E0 Hp Hne a1 k1 o1 E1. destruct (String.prefix o1 sub) eqn:Ep; [exfalso | reflexivity].
    destruct (etok_prefix en x Henvw S a1 k1 o1 a0 k0 o0 (wr_inv _ _ R) E1 E0 (prefix_trans _ _ _ Ep Hp)) as [-> _].
    apply Hne. apply prefix_antisym; assumption.
  Qed.

  Definition lit_stage_res (b : bool) (s : N) (sub : string) : BashSem.step :=
    match assocN s (t_mlit Tw) with
    | Some st => lit_loop_str b (indexed_from 0 (literal_texts Tw)) st sub
    | None => SNone
    end.

  Lemma enabled_of_loop s st lid lit to : assocN s (t_mlit Tw) = Some st ->
    In (lid, lit) (indexed_from 0 (literal_texts Tw)) -> assocN lid st = Some to -> In (lit, to) (enabled Tw s).
  Proof. intros Es Hin Ha. apply (enabled_in Tw s st lit to Es). eauto. Qed.

  Lemma lit_stage b s S sub : wrel s S ->
    match lit_stage_res b s sub with
    | SCont to n => exists t d l k, In (WLit t d l, k) (mvs S) /\ String.prefix t sub = true /\ n = String.length t
                                    /\ trans_on sd s (ILit t d l) to /\ first_lit (mvs S) sub = Some t
    | SBreak => b = true /\ forall a0 k o, etok en S a0 k o -> String.prefix o sub = false
    | SNone => first_lit (mvs S) sub = None
               /\ (forall t d l k, In (WLit t d l, k) (mvs S) -> String.prefix t sub = false)
               /\ (b = true -> forall t d l k, In (WLit t d l, k) (mvs S) -> String.prefix sub t = false)
    end.
  Proof.
    intro R. unfold lit_stage_res.
    assert (Hnone : (forall t to, In (t, to) (enabled Tw s) -> String.prefix t sub = false /\ (b = true -> String.prefix sub t = false)) ->
                    first_lit (mvs S) sub = None
                    /\ (forall t d l k, In (WLit t d l, k) (mvs S) -> String.prefix t sub = false)
                    /\ (b = true -> forall t d l k, In (WLit t d l, k) (mvs S) -> String.prefix sub t = false)).
    { intro Hen.
      assert (Hitem : forall t d l k, In (WLit t d l, k) (mvs S) -> String.prefix t sub = false /\ (b = true -> String.prefix sub t = false)).
      { intros t d l k Hin. destruct (witem_trans s S _ k R Hin) as [to Htr]. cbn [inp_of_wleaf] in Htr.
        apply (Hen t to). apply (enabled_complete s S t d l to R Htr). }
      split; [| split; [intros t d l k Hin; apply (Hitem t d l k Hin) | intros Hb t d l k Hin; apply (proj2 (Hitem t d l k Hin) Hb)]].
      destruct (first_lit (mvs S) sub) as [t' |] eqn:El; [exfalso | reflexivity].
      destruct (first_lit_some _ _ _ El) as [d [l [k [Hin [_ Hp]]]]]. rewrite (proj1 (Hitem t' d l k Hin)) in Hp. discriminate. }
    destruct (assocN s (t_mlit Tw)) as [st |] eqn:Es.
    - destruct (lit_loop_str b (indexed_from 0 (literal_texts Tw)) st sub) as [to n | |] eqn:Ell.
      + destruct (lls_cont _ _ _ _ _ _ Ell) as [lid [lit [Hin [Ha [Hp ->]]]]].
        pose proof (enabled_of_loop s st lid lit to Es Hin Ha) as Hen.
        destruct (enabled_sound s lit to Hen) as [dso [lvl Htr]]. destruct (lit_item s S lit dso lvl to R Htr) as [k Hmv].
        exists lit, dso, lvl, k. split; [exact Hmv | split; [exact Hp | split; [reflexivity | split; [exact Htr |]]]].
        assert (E0 : etok en S (WLit lit dso lvl) k lit) by (split; [exact Hmv | reflexivity]).
        destruct (etok_src en x Henvw S _ _ _ (wr_inv _ _ R) E0) as [Hne _].
        destruct (first_lit (mvs S) sub) as [t' |] eqn:El.
        * destruct (first_lit_some _ _ _ El) as [d' [l' [k' [Hin' [_ Hp']]]]].
          assert (E1 : etok en S (WLit t' d' l') k' t') by (split; [exact Hin' | reflexivity]).
          destruct (tok_comparable s S _ _ _ _ _ _ sub R E1 E0 Hp' Hp) as [-> _]. reflexivity.
        * rewrite (first_lit_none _ _ El lit dso lvl k Hmv Hne) in Hp. discriminate.
      + destruct (lls_break _ _ _ _ Ell) as [Eb [lid [lit [to [Hin [Ha [Hp Hne]]]]]]]. split; [exact Eb |].
        pose proof (enabled_of_loop s st lid lit to Es Hin Ha) as Hen.
        destruct (enabled_sound s lit to Hen) as [dso [lvl Htr]]. destruct (lit_item s S lit dso lvl to R Htr) as [k Hmv].
        apply (extends_stops s S (WLit lit dso lvl) k lit sub R (conj Hmv eq_refl) Hp Hne).
      + apply Hnone. intros t to Hen. apply (enabled_in Tw s st t to Es) in Hen. destruct Hen as [lid [Hin Ha]].
        apply (lls_none _ _ _ _ Ell lid t to Hin Ha).
    - apply Hnone. intros t to Hen. unfold enabled in Hen. rewrite Es in Hen. destruct Hen.
  Qed.

  Lemma cmd_stage b s S sub mp : wrel s S -> sub <> EmptyString ->
    exists r,
      (forall log, exists log',
        (match t_mcmd Tw with
         | Some ct => match assocN s ct with
                      | Some row => cmd_loop Repaired b a benv (assoc_of row) sub mp log
                      | None => Ok (SNone, log)
                      end
         | None => Ok (SNone, log)
         end) = Ok (r, log'))
      /\ match r with
         | SCont to n => exists c l k o, In (WCmd c l, k) (mvs S) /\ In o (candidates en c) /\ String.prefix o sub = true
                                         /\ n = String.length o /\ trans_on sd s (ICmd c l) to /\ first_cmd en (mvs S) sub = Some (c, o)
         | SBreak => b = true /\ forall a0 k o, etok en S a0 k o -> String.prefix o sub = false
         | SNone => first_cmd en (mvs S) sub = None
                    /\ (forall c l k o, In (WCmd c l, k) (mvs S) -> In o (candidates en c) ->
                                        String.prefix o sub = false /\ (b = true -> String.prefix sub o = false))
         end.
  Proof.
    intros R Hsub.
    assert (Hnone : (forall c l k o, In (WCmd c l, k) (mvs S) -> In o (candidates en c) ->
                                     String.prefix o sub = false /\ (b = true -> String.prefix sub o = false)) ->
                    first_cmd en (mvs S) sub = None
                    /\ (forall c l k o, In (WCmd c l, k) (mvs S) -> In o (candidates en c) ->
                                        String.prefix o sub = false /\ (b = true -> String.prefix sub o = false))).
    { intro H. split; [| exact H]. destruct (first_cmd en (mvs S) sub) as [[c o] |] eqn:Ec; [exfalso | reflexivity].
      destruct (first_cmd_some _ _ _ _ _ Ec) as [l [k [Hin [Hc [_ Hp]]]]]. rewrite (proj1 (H c l k o Hin Hc)) in Hp. discriminate. }
    assert (Hnorow : (forall ct row, t_mcmd Tw = Some ct -> assocN s ct = Some row -> False) ->
                     forall c l k o, In (WCmd c l, k) (mvs S) -> In o (candidates en c) ->
                                     String.prefix o sub = false /\ (b = true -> String.prefix sub o = false)).
    { intros Hno c l k o Hin _. exfalso. destruct (witem_trans s S _ k R Hin) as [to Htr]. cbn [inp_of_wleaf] in Htr.
      destruct (cmd_row_complete s S c l to R Htr) as [ct [row [cid [Ect [Er _]]]]]. apply (Hno ct row Ect Er). }
    destruct (t_mcmd Tw) as [ct |] eqn:Ect.
    - destruct (assocN s ct) as [row |] eqn:Er.
      + pose proof (cmd_row_keys ct s row Ect Er) as Krow.
        assert (Hentry : forall cid to, In (cid, to) (assoc_of row) ->
                   exists cm l k, Tables.index_of cm cmds = Some cid /\ trans_on sd s (ICmd cm l) to /\ In (WCmd cm l, k) (mvs S)
                                  /\ ccands benv cid = candidates en cm).
        { intros cid to Hin. apply (assoc_of_in row Krow) in Hin.
          destruct (cmd_row_sound ct s row cid to Ect Er Hin) as [cm [l [Hidx Htr]]]. destruct (cmd_item s S cm l to R Htr) as [k Hmv].
          exists cm, l, k. split; [exact Hidx | split; [exact Htr | split; [exact Hmv | apply (Hcenv cm cid Hidx)]]]. }
        destruct (cmd_loop_spec a benv b sub mp (assoc_of row)) as [r [E Hspec]].
        { intros cid to Hin. destruct (Hentry cid to Hin) as [cm [l [k [Hidx _]]]]. rewrite Hcmds, (index_of_nth _ _ _ Hidx). discriminate. }
        exists r. split; [exact E |]. destruct r as [to n | |].
        * destruct Hspec as [cid [c0 [Hin [Hc0 [Hp [-> Hne0]]]]]]. destruct (Hentry cid to Hin) as [cm [l [k [Hidx [Htr [Hmv Hcc]]]]]].
          rewrite Hcc in Hc0. exists cm, l, k, c0. split; [exact Hmv | split; [exact Hc0 | split; [exact Hp | split; [reflexivity | split; [exact Htr |]]]]].
          assert (E0 : etok en S (WCmd cm l) k c0) by (split; [exact Hmv | exact Hc0]).
          destruct (etok_src en x Henvw S _ _ _ (wr_inv _ _ R) E0) as [Hne _].
          destruct (first_cmd en (mvs S) sub) as [[c' o'] |] eqn:Ec.
          -- destruct (first_cmd_some _ _ _ _ _ Ec) as [l' [k' [Hin' [Hc' [_ Hp']]]]].
             destruct (tok_comparable s S (WCmd c' l') k' o' (WCmd cm l) k c0 sub R (conj Hin' Hc') E0 Hp' Hp) as [-> Hs].
             cbn in Hs. inversion Hs; subst. reflexivity.
          -- rewrite (first_cmd_none _ _ _ Ec cm l k c0 Hmv Hc0 Hne) in Hp. discriminate.
        * destruct Hspec as [Eb [cid [to [c0 [Hin [Hc0 [Hp Hne]]]]]]]. split; [exact Eb |].
          destruct (Hentry cid to Hin) as [cm [l [k [Hidx [Htr [Hmv Hcc]]]]]]. rewrite Hcc in Hc0.
          apply (extends_stops s S (WCmd cm l) k c0 sub R (conj Hmv Hc0) Hp Hne).
        * apply Hnone. intros c l k o Hmv Hc. destruct (witem_trans s S _ k R Hmv) as [to Htr]. cbn [inp_of_wleaf] in Htr.
          destruct (cmd_row_complete s S c l to R Htr) as [ct' [row' [cid [Ect' [Er' [Hidx Hin]]]]]].
          rewrite Ect in Ect'. inversion Ect'; subst ct'. rewrite Er in Er'. inversion Er'; subst row'.
          apply (assoc_of_in row Krow) in Hin.
          assert (Hcc : In o (ccands benv cid)) by (unfold ccands; rewrite (Hcenv c cid Hidx); exact Hc).
          destruct (etok_src en x Henvw S _ _ _ (wr_inv _ _ R) (conj Hmv Hc : etok en S (WCmd c l) k o)) as [Hne _].
          destruct (Hspec cid to o Hin Hcc) as [H1 H2]. split; [apply H1; exact Hne | exact H2].
      + exists SNone. split; [intro log; exists log; reflexivity |]. apply Hnone. apply Hnorow. intros ct' row' E1 E2. inversion E1; subst. congruence.
    - exists SNone. split; [intro log; exists log; reflexivity |]. apply Hnone. apply Hnorow. intros ct' row' E1 E2. discriminate.
  Qed.

  (** *** matching mode: the greedy reading *)
  Lemma accept_eq s S : wrel s S -> memN s (d_accepting sd) = existsb nullable S.
  Proof.
    intro R. pose proof (gsim_accepting inp_of_wleaf sd s S (wr_sim _ _ R)) as H. unfold is_accepting in H.
    destruct (existsb nullable S) eqn:E.
    - apply H. apply existsb_exists in E. destruct E as [k [Hk Hn]]. eauto.
    - destruct (memN s (d_accepting sd)) eqn:Em; [| reflexivity]. destruct (proj1 H eq_refl) as [k [Hk Hn]].
      assert (existsb nullable S = true) by (apply existsb_exists; eauto). congruence.
  Qed.

  Lemma lit_call b s sub :
    (match assocN s (t_mlit Tw) with
     | Some st => lit_loop Repaired b (indexed_from 0 (literal_texts Tw)) st sub
     | None => Ok SNone
     end) = Ok (lit_stage_res b s sub).
  Proof. unfold lit_stage_res. destruct (assocN s (t_mlit Tw)); reflexivity. Qed.

  Lemma star_first_any s S : wrel s S -> star_first Repaired false Tw s = has_any (mvs S).
  Proof. intro R. unfold star_first. cbn [quirky negb andb]. apply (star_row s S R). Qed.

  Theorem sw_match_sacc word : forall g f s S ci log, wrel s S ->
    (String.length (Glob.sdrop ci word) <= g)%nat -> (g < f)%nat ->
    exists st' ci' log',
      sw_loop f Repaired false a benv Tw (d_accepting sd) word s ci log = Ok (sacc en g S (Glob.sdrop ci word), st', ci', log').
  Proof.
    induction g as [| g IH]; intros f s S ci log R Hg Hf; (destruct f as [| f]; [lia |]); cbn [sw_loop quirky orb];
      rewrite length_sdrop in Hg; destruct (Nat.leb (String.length word) ci) eqn:El.
    - apply Nat.leb_le in El. rewrite (gsdrop_nil_iff ci word El). cbn [sacc]. rewrite (accept_eq s S R). eauto.
    - apply Nat.leb_gt in El. lia.
    - apply Nat.leb_le in El. rewrite (gsdrop_nil_iff ci word El). cbn [sacc]. rewrite (accept_eq s S R). eauto.
    - apply Nat.leb_gt in El.
      assert (Hlen : String.length (Glob.sdrop ci word) = (String.length word - ci)%nat) by apply length_sdrop.
      destruct (Glob.sdrop ci word) as [| ch r] eqn:Esub; [cbn in Hlen; lia |].
      set (sub := String ch r) in *. cbn [sacc]. fold sub. fold (mvs S).
      rewrite (star_first_any s S R). destruct (has_any (mvs S)) eqn:Hany; [eauto |].
      match goal with |- context [obind ?X _] =>
        assert (EL : X = Ok (lit_stage_res false s sub)) by apply lit_call; rewrite EL end.
      cbn [obind]. pose proof (lit_stage false s S sub R) as Hl.
      destruct (lit_stage_res false s sub) as [to n | |].
      + destruct Hl as [t [d [l [k [Hmv [Hp [-> [Htr Efl]]]]]]]]. rewrite Efl.
        destruct (etok_src en x Henvw S _ _ _ (wr_inv _ _ R) (conj Hmv eq_refl : etok en S (WLit t d l) k t)) as [Hne _].
        pose proof (sdrop_prefix_shorter t sub Hp Hne) as Hsh.
        destruct (IH f to _ (ci + String.length t)%nat log (wrel_lit s S t d l k to R Hmv Htr)) as [st' [ci' [log' E]]].
        * rewrite gsdrop_add, Esub. fold sub. rewrite gsdrop_eq. lia.
        * lia.
        * rewrite gsdrop_add, Esub in E. fold sub in E. rewrite gsdrop_eq in E. eauto.
      + destruct Hl as [Hb _]. discriminate.
      + destruct Hl as [Efl _]. rewrite Efl.
        destruct (cmd_stage false s S sub (stake ci word) R) as [r0 [Ec0 Hc]]; [discriminate |]. destruct (Ec0 log) as [log1 Ec].
        match goal with |- context [obind ?X _] => assert (EE : X = Ok (r0, log1)) by exact Ec; rewrite EE end. cbn [obind].
        destruct r0 as [to n | |].
        * destruct Hc as [c [l [k [o [Hmv [Hco [Hp [-> [Htr Efc]]]]]]]]]. rewrite Efc.
          destruct (etok_src en x Henvw S _ _ _ (wr_inv _ _ R) (conj Hmv Hco : etok en S (WCmd c l) k o)) as [Hne _].
          pose proof (sdrop_prefix_shorter o sub Hp Hne) as Hsh.
          destruct (IH f to _ (ci + String.length o)%nat log1 (wrel_cmd s S c l k to R Hmv Htr)) as [st' [ci' [log' E]]].
          -- rewrite gsdrop_add, Esub. fold sub. rewrite gsdrop_eq. lia.
          -- lia.
          -- rewrite gsdrop_add, Esub in E. fold sub in E. rewrite gsdrop_eq in E. eauto.
        * destruct Hc as [Hb _]. discriminate.
        * destruct Hc as [Efc _]. rewrite Efc. pose proof (star_row s S R) as Hst. rewrite Hany in Hst.
          destruct (t_mstar Tw) as [stars |]; [rewrite Hst |]; eauto.
  Qed.

  Theorem subword_matches_gen w : d_start sd = 0 ->
    forall log, exists log', subword_matches Repaired a benv Tw (d_accepting sd) w log = Ok (waccepts en x w, log').
  Proof.
    intros H0 log. unfold subword_matches, subword_matches_from.
    rewrite <- (saccepts_waccepts en x Hdom Henvw w). unfold saccepts.
    destruct (sw_match_sacc w (String.length w) (sw_fuel Tw w) 0 [x] 0%nat log) as [st' [ci' [log' E]]].
    - rewrite <- H0. apply wrel_start.
    - cbn [Glob.sdrop]. lia.
    - unfold sw_fuel. lia.
    - cbn [Glob.sdrop] in E. rewrite E. cbn [obind]. eauto.
  Qed.

  (** *** completing mode: the greedy run, then the levels *)
  Theorem sw_complete_grun word acc : forall f s S ci, wrel s S -> (String.length word - ci < f)%nat ->
    exists b st' ci' S' mp,
      (forall log, exists log', sw_loop f Repaired true a benv Tw acc word s ci log = Ok (b, st', ci', log'))
      /\ grun en S (Glob.sdrop ci word) S' mp (Glob.sdrop ci' word) /\ wrel st' S'.
  Proof.
    induction f as [| f IH]; intros s S ci R Hf; [lia |].
    destruct (Nat.leb (String.length word) ci) eqn:El.
    - apply Nat.leb_le in El. exists true, s, ci, S, EmptyString. split; [| split; [| exact R]].
      + intro log. exists log. cbn [sw_loop quirky orb]. apply Nat.leb_le in El. rewrite El. reflexivity.
      + rewrite (gsdrop_nil_iff ci word El). apply gr_stop. intros a0 k o E.
        destruct (etok_src en x Henvw S _ _ _ (wr_inv _ _ R) E) as [Hne _]. destruct o; [contradiction | reflexivity].
    - pose proof El as El'. apply Nat.leb_gt in El. set (sub := Glob.sdrop ci word).
      assert (Hlen : String.length sub = (String.length word - ci)%nat) by (unfold sub; apply length_sdrop).
      assert (Hsubne : sub <> EmptyString) by (intro E; rewrite E in Hlen; cbn in Hlen; lia).
      pose proof (lit_stage true s S sub R) as Hl.
      destruct (cmd_stage true s S sub (stake ci word) R Hsubne) as [r0 [Ec0 Hc]].
      (* what one round computes *)
      assert (Hround : forall log, sw_loop (Datatypes.S f) Repaired true a benv Tw acc word s ci log
                = match lit_stage_res true s sub with
                  | SCont st adv => sw_loop f Repaired true a benv Tw acc word st (ci + adv) log
                  | SBreak => Ok (false, s, ci, log)
                  | SNone =>
                      do (s2, log2) <- (match t_mcmd Tw with
                                        | Some ct => match assocN s ct with
                                                     | Some row => cmd_loop Repaired true a benv (assoc_of row) sub (stake ci word) log
                                                     | None => Ok (SNone, log)
                                                     end
                                        | None => Ok (SNone, log)
                                        end);
                      match s2 with
                      | SCont st adv => sw_loop f Repaired true a benv Tw acc word st (ci + adv) log2
                      | SBreak => Ok (false, s, ci, log2)
                      | SNone => match t_mstar Tw with
                                 | Some stars => if has_key s stars then Ok (true, s, ci, log2) else Ok (false, s, ci, log2)
                                 | None => Ok (false, s, ci, log2)
                                 end
                      end
                  end).
      { intro log. cbn [sw_loop quirky orb]. rewrite El'. unfold star_first. cbn [quirky negb andb]. fold sub.
        match goal with |- context [obind ?X _] =>
          assert (EL : X = Ok (lit_stage_res true s sub)) by apply lit_call; rewrite EL end.
        cbn [obind]. reflexivity. }
      assert (Hstop : (forall a0 k o, etok en S a0 k o -> String.prefix o sub = false) ->
                 exists S' mp, grun en S sub S' mp (Glob.sdrop ci word) /\ wrel s S').
      { intros Hs. exists S, EmptyString. split; [apply gr_stop; exact Hs | exact R]. }
      assert (Hcons : forall a0 k o to, etok en S a0 k o -> String.prefix o sub = true -> wrel to (nextS S a0) ->
                 exists b st' ci' S' mp,
                   (forall log, exists log', sw_loop f Repaired true a benv Tw acc word to (ci + String.length o) log = Ok (b, st', ci', log'))
                   /\ grun en S sub S' mp (Glob.sdrop ci' word) /\ wrel st' S').
      { intros a0 k o to E Hp R1. destruct (etok_src en x Henvw S _ _ _ (wr_inv _ _ R) E) as [Hne _].
        pose proof (sdrop_prefix_shorter o sub Hp Hne) as Hsh. rewrite <- gsdrop_eq, length_sdrop in Hsh.
        destruct (IH to _ (ci + String.length o)%nat R1) as [b [st' [ci' [S' [mp [E1 [Hg R']]]]]]]; [lia |].
        exists b, st', ci', S', (append o mp). split; [exact E1 | split; [| exact R']].
        rewrite gsdrop_add in Hg. fold sub in Hg. rewrite (prefix_split o sub Hp), <- gsdrop_eq. eapply gr_step; [exact E | exact Hg]. }
      destruct (lit_stage_res true s sub) as [to n | |] eqn:Els.
      + destruct Hl as [t [d [l [k [Hmv [Hp [-> [Htr _]]]]]]]].
        destruct (Hcons (WLit t d l) k t to (conj Hmv eq_refl) Hp (wrel_lit s S t d l k to R Hmv Htr)) as [b [st' [ci' [S' [mp [E1 Hr]]]]]].
        exists b, st', ci', S', mp. split; [intro log; rewrite Hround; apply E1 | exact Hr].
      + destruct Hl as [_ Hs]. destruct (Hstop Hs) as [S' [mp Hr]].
        exists false, s, ci, S', mp. split; [intro log; rewrite Hround; eexists; reflexivity | exact Hr].
      + destruct Hl as [_ [Hl1 Hl2]]. destruct r0 as [to n | |].
        * destruct Hc as [c [l [k [o [Hmv [Hco [Hp [-> [Htr _]]]]]]]]].
          destruct (Hcons (WCmd c l) k o to (conj Hmv Hco) Hp (wrel_cmd s S c l k to R Hmv Htr)) as [b [st' [ci' [S' [mp [E1 Hr]]]]]].
          exists b, st', ci', S', mp. split; [| exact Hr].
          intro log. rewrite Hround. destruct (Ec0 log) as [log1 Ec].
          match goal with |- context [obind ?X _] => assert (EE : X = Ok (_, log1)) by exact Ec; rewrite EE end. cbn [obind]. apply E1.
        * destruct Hc as [_ Hs]. destruct (Hstop Hs) as [S' [mp Hr]].
          exists false, s, ci, S', mp. split; [| exact Hr].
          intro log. rewrite Hround. destruct (Ec0 log) as [log1 Ec].
          match goal with |- context [obind ?X _] => assert (EE : X = Ok (_, log1)) by exact Ec; rewrite EE end. cbn [obind]. eexists; reflexivity.
        * destruct Hc as [_ Hc2].
          assert (Hs : forall a0 k o, etok en S a0 k o -> String.prefix o sub = false).
          { intros a0 k o [Hmv Ht]. destruct a0 as [t d l | c l |]; cbn in Ht.
            - subst o. apply (Hl1 t d l k Hmv).
            - apply (proj1 (Hc2 c l k o Hmv Ht)).
            - destruct Ht. }
          destruct (Hstop Hs) as [S' [mp Hr]].
          exists (match t_mstar Tw with Some stars => has_key s stars | None => false end), s, ci, S', mp. split; [| exact Hr].
          intro log. rewrite Hround. destruct (Ec0 log) as [log1 Ec].
          match goal with |- context [obind ?X _] => assert (EE : X = Ok (_, log1)) by exact Ec; rewrite EE end. cbn [obind].
          destruct (t_mstar Tw) as [stars |]; [destruct (has_key s stars) |]; eexists; reflexivity.
  Qed.

  Definition woffered (st : N) (mp cp : string) (L : nat) : list string :=
    filter (String.prefix (append mp cp)) (map (fun id => append mp (literal_at Tw id)) (level_row (t_clit Tw) L st))
    ++ match t_ccmd Tw with Some cc => cmds_off benv cp mp (level_row cc L st) | None => [] end.

  Lemma ccmd_keys cc : t_ccmd Tw = Some cc ->
    Forall (fun lv : list (N * list N) => NoDup (map fst lv)) cc /\ List.length cc = (N.to_nat (t_maxlevel Tw) + 1)%nat.
  Proof.
    intro Hcc. destruct (glt_inv _ _ _ _ _ _ _ _ Hglt) as [rt F].
    destruct (gf_ccmd _ _ _ _ _ _ _ _ _ F) as [[_ [m [Hm Em]]] | [_ Em]]; rewrite Em in Hcc; [| discriminate].
    inversion Hcc; subst m. split; [eapply completion_table_keys; exact Hm |].
    apply (completion_table_spec _ _ _ _ _ insertN_in Hm).
  Qed.

  Lemma ccmd_row cc L st cid : t_ccmd Tw = Some cc ->
    (In cid (level_row cc L st) <-> exists cm to, trans_on sd st (ICmd cm (N.of_nat L)) to /\ Tables.index_of cm cmds = Some cid).
  Proof.
    intro Hcc. rewrite <- (ccmd_exact sd cmds 0 nc ncp ns ord Tw Hwf Hglt cc (N.of_nat L) st cid Hcc).
    rewrite (mem3_level_row cc (N.of_nat L) st cid (proj1 (ccmd_keys cc Hcc))). rewrite Nat2N.id. unfold level_row. reflexivity.
  Qed.

  Lemma sw_levels_gen st mp cp : printable_str (append mp cp) = true -> printable_str cp = true ->
    forall n L sc log, exists log', sw_levels n L Repaired a benv Tw st mp cp sc [] log = Ok (first_nonempty (woffered st mp cp) n L, log').
  Proof.
    intros Hp Hpc. induction n as [| n IH]; intros L sc log; cbn [sw_levels first_nonempty quirky]; [eauto |].
    cbn [List.app]. rewrite (match_fn_prefix_filter benv _ _ Hic Hp). cbn [obind List.app]. unfold woffered at 1.
    set (lits := filter (String.prefix (append mp cp)) (map (fun id => append mp (literal_at Tw id)) (level_row (t_clit Tw) L st))).
    destruct (t_ccmd Tw) as [cc |] eqn:Ecc.
    - destruct (sw_cmds_level_gen a benv Hic cp mp Hpc (level_row cc L st)
                  (map (fun id => append mp (literal_at Tw id)) (level_row (t_clit Tw) L st)) lits) as [sc' E0].
      { intros cid Hcid. apply (ccmd_row cc L st cid Ecc) in Hcid. destruct Hcid as [cm [to [_ Hidx]]].
        rewrite Hcmds, (index_of_nth _ _ _ Hidx). discriminate. }
      destruct (E0 log) as [log1 E]. rewrite E. cbn [obind]. destruct (lits ++ cmds_off benv cp mp (level_row cc L st)) as [| m ms]; [apply IH | eauto].
    - cbn [obind]. rewrite app_nil_r. destruct lits as [| m ms]; [apply IH | eauto].
  Qed.

  Lemma woffered_spec st S' mp cp L o : wrel st S' ->
    (In o (woffered st mp cp L) <-> exists o', o = append mp o' /\ offers en S' cp (N.of_nat L) o').
  Proof.
    intro R. unfold woffered. rewrite in_app_iff. split.
    - intros [H | H].
      + apply filter_In in H. destruct H as [H Hp]. apply in_map_iff in H. destruct H as [id [<- Hid]].
        rewrite <- (Nat2N.id L) in Hid.
        apply (level_row_lit sd cmds nc ncp ns ord Tw Hwf Hord Hglt) in Hid. destruct Hid as [text [dso [to [Htr Hl]]]].
        rewrite (literal_at_lit sd cmds nc ncp ns ord Tw Hglt id text _ Hl) in *.
        destruct (lit_item st S' text dso _ to R Htr) as [k Hmv].
        exists text. split; [reflexivity |]. exists (WLit text dso (N.of_nat L)), k. split; [exact Hmv |]. cbn.
        rewrite prefix_app in Hp. auto.
      + destruct (t_ccmd Tw) as [cc |] eqn:Ecc; [| destruct H].
        unfold cmds_off in H. apply in_flat_map in H. destruct H as [cid [Hcid H]].
        apply in_map_iff in H. destruct H as [o' [<- Ho]]. apply filter_In in Ho. destruct Ho as [Ho Hp].
        apply (ccmd_row cc L st cid Ecc) in Hcid. destruct Hcid as [cm [to [Htr Hidx]]].
        destruct (cmd_item st S' cm _ to R Htr) as [k Hmv].
        exists o'. split; [reflexivity |]. exists (WCmd cm (N.of_nat L)), k. split; [exact Hmv |]. cbn.
        unfold ccands in Ho. rewrite (Hcenv cm cid Hidx) in Ho. auto.
    - intros [o' [-> [a0 [k [Hmv Hoff]]]]]. destruct a0 as [t d l | c l |]; cbn [item_offer] in Hoff.
      + destruct Hoff as [-> [-> Hp]]. left.
        destruct (witem_trans st S' _ k R Hmv) as [to Htr]. cbn [inp_of_wleaf] in Htr.
        pose proof Htr as [i [_ Hn]]. destruct (valid_order_covers sd ord 0 i t d _ Hvalid Hn) as [id Hl].
        apply filter_In. split; [| rewrite prefix_app; exact Hp]. apply in_map_iff.
        exists id. split; [rewrite (literal_at_lit sd cmds nc ncp ns ord Tw Hglt id t _ Hl); reflexivity |].
        rewrite <- (Nat2N.id L). apply (level_row_lit sd cmds nc ncp ns ord Tw Hwf Hord Hglt). eauto.
      + destruct Hoff as [-> [Hc Hp]]. right.
        destruct (witem_trans st S' _ k R Hmv) as [to Htr]. cbn [inp_of_wleaf] in Htr.
        destruct (cmd_row_complete st S' c _ to R Htr) as [ct [row [cid [_ [_ [Hidx _]]]]]].
        destruct (glt_inv _ _ _ _ _ _ _ _ Hglt) as [rt F].
        destruct (gf_ccmd _ _ _ _ _ _ _ _ _ F) as [[_ [cc [Hm Ecc]]] | [Hf _]]; [| rewrite (Hnc st c _ to Htr) in Hf; discriminate].
        rewrite Ecc. unfold cmds_off. apply in_flat_map. exists cid. split.
        * apply (ccmd_row cc L st cid Ecc). eauto.
        * apply in_map_iff. exists o'. split; [reflexivity |]. apply filter_In. split; [| exact Hp].
          unfold ccands. rewrite (Hcenv c cid Hidx). exact Hc.
      + destruct Hoff.
  Qed.

  Lemma offers_range st S' cp l o' : wrel st S' -> offers en S' cp l o' -> (N.to_nat l < Datatypes.S (N.to_nat (t_maxlevel Tw)))%nat.
  Proof.
    intros R [a0 [k [Hmv Hoff]]]. destruct a0 as [t d l0 | c l0 |]; cbn [item_offer] in Hoff.
    - destruct Hoff as [-> _]. destruct (witem_trans st S' _ k R Hmv) as [to Htr]. cbn [inp_of_wleaf] in Htr.
      apply (level_in_range sd cmds nc ncp ns ord Tw Hwf Hord Hglt l st t d to Hvalid Htr).
    - destruct Hoff as [-> _]. destruct (witem_trans st S' _ k R Hmv) as [to Htr]. cbn [inp_of_wleaf] in Htr.
      destruct (cmd_row_complete st S' c l to R Htr) as [ct [row [cid [_ [_ [Hidx _]]]]]].
      destruct (glt_inv _ _ _ _ _ _ _ _ Hglt) as [rt F].
      destruct (gf_ccmd _ _ _ _ _ _ _ _ _ F) as [[_ [cc [Hm Ecc]]] | [Hf _]]; [| rewrite (Hnc st c l to Htr) in Hf; discriminate].
      assert (M : mem3 cc l st cid) by (apply (ccmd_exact sd cmds 0 nc ncp ns ord Tw Hwf Hglt cc l st cid Ecc); eauto).
      destruct M as [row' [Hrow _]]. destruct (ccmd_keys cc Ecc) as [_ Hlen].
      assert (N.to_nat l < List.length cc)%nat by (apply nth_error_Some; rewrite Hrow; discriminate). lia.
    - destruct Hoff.
  Qed.

  Theorem subword_complete_gen p : d_start sd = 0 -> printable_str p = true ->
    exists reply, (forall log, exists log', subword_complete Repaired a benv Tw p log = Ok (reply, log'))
                  /\ forall o, In o reply <-> In o (wproper en x p).
  Proof.
    intros H0 Hpr.
    assert (R0 : wrel 0 [x]) by (rewrite <- H0; apply wrel_start).
    destruct (sw_complete_grun p [] (sw_fuel Tw p) 0 [x] 0%nat R0) as [b [st' [ci' [S' [mp [E [Hg R']]]]]]]; [unfold sw_fuel; lia |].
    cbn [Glob.sdrop] in Hg.
    destruct (cand_grun en x Hdom Henvw [x] p S' mp _ Hg (wr_inv _ _ R0)) as [Ep [_ [_ Hiff]]].
    assert (Emp : mp = stake ci' p).
    { pose proof (stake_sdrop ci' p) as Es. rewrite <- Es in Ep at 1. eapply append_cancel_r. symmetry. exact Ep. }
    subst mp.
    exists (first_nonempty (woffered st' (stake ci' p) (Glob.sdrop ci' p)) (Datatypes.S (N.to_nat (t_maxlevel Tw))) 0). split.
    - intro log. unfold subword_complete, subword_complete_from. destruct (E log) as [log1 E1]. rewrite E1. cbn [obind].
      apply sw_levels_gen; [rewrite stake_sdrop; exact Hpr | apply printable_gsdrop; exact Hpr].
    - unfold wproper. apply first_nonempty_lowest.
      + intros L o. rewrite filter_In. cbn [snd]. rewrite wcands_cand, negb_true_iff, String.eqb_neq, (Hiff (N.of_nat L) o).
        apply (woffered_spec st' S' _ _ L o R').
      + intros l o Hin. apply filter_In in Hin. destruct Hin as [Hin Hne']. cbn [snd] in Hne'. apply wcands_cand in Hin.
        apply negb_true_iff, String.eqb_neq in Hne'.
        destruct (proj1 (Hiff l o) (conj Hin Hne')) as [o' [_ Hoff]]. apply (offers_range st' S' _ l o' R' Hoff).
  Qed.
End WordSimG.
