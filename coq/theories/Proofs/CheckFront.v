(** C08, specialisation errors and the passes in front of the cycle search:
    spec-level absence of the early mistake classes makes every early pass of the model succeed,
    and the specialisation mistakes are reported with an error of a class that is present. *)
From CG Require Import Base.Prelude Model.Ast Model.Check Spec.Choice Spec.Mistakes.
From CG Require Import Proofs.CheckChoice Proofs.CheckMistakes Proofs.CheckLemmas Proofs.CheckWarnings.
From CG Require Import Proofs.CheckCycle Proofs.CheckTotal.

Lemma in_all_defs g n nsp sh rhs :
  In (n, nsp, sh, rhs) (all_defs g) <-> In (NontermDef n nsp sh rhs) g.
Proof.
  unfold all_defs. rewrite in_flat_map. split.
  - intros [s [Hs Hin]]. destruct s; [destruct Hin|]. destruct Hin as [Hin|[]]. inversion Hin; subst.
    exact Hs.
  - intro H. eexists. split; [exact H|]. left. reflexivity.
Qed.

(** *** Call variants *)
Lemma dedup_single g :
  no_call_variant g = false -> varying_names g = false ->
  exists command cspan, dedup_names [] (cv_names g) = [(command, cspan)]
                        /\ In command (call_names g).
Proof.
  unfold no_call_variant, varying_names, cv_names. rewrite call_names_variants.
  destruct (call_variants g) as [|[[n sp] e] r]; cbn; [discriminate|].
  intros _ Hv. exists n, sp. split; [|left; reflexivity].
  assert (Hd : dedup_names [n] (map (fun x => (fst (fst x), snd (fst x))) r) = []).
  { apply dedup_names_nil. apply forallb_forall. intros [m sp'] Hin. cbn [fst].
    rewrite mem_str_single. apply in_map_iff in Hin. destruct Hin as [[[m' sp''] e'] [Heq Hin]].
    cbn in Heq. inversion Heq; subst.
    rewrite (not_varying_all_equal _ _ Hv m); [apply String.eqb_refl|].
    apply in_map_iff. exists (m, sp', e'). split; [reflexivity|exact Hin]. }
  rewrite Hd. reflexivity.
Qed.

Lemma no_slash g command :
  slash_in_name g = false -> In command (call_names g) -> contains_char slash command = false.
Proof.
  unfold slash_in_name. intros H Hin. destruct (contains_char slash command) eqn:E; [|reflexivity].
  assert (existsb (contains_char "/"%char) (call_names g) = true).
  { apply existsb_exists. exists command. split; [exact Hin|exact E]. }
  congruence.
Qed.

(** *** Plain definitions *)
Lemma collect_plain_defs_ok ds : forall acc,
  has_dup (plain_names_of ds) = false ->
  (forall x, In x (plain_names_of ds) -> ~ In x (map d_name acc)) ->
  exists defs, collect_plain_defs ds acc = Ok defs.
Proof.
  induction ds as [|[[[n nsp] sh] rhs] r IH]; intros acc Hd Hacc; cbn [collect_plain_defs].
  - eexists; reflexivity.
  - destruct sh as [s|]; [apply IH; assumption|].
    cbn [plain_names_of has_dup] in Hd, Hacc. apply orb_false_iff in Hd. destruct Hd as [Hn Hd].
    destruct (find (fun d => String.eqb (d_name d) n) acc) eqn:F.
    + exfalso. assert (F' : mem_str n (map d_name acc) = true).
      { destruct (mem_str n (map d_name acc)) eqn:E; [reflexivity|].
        apply find_name_none in E. congruence. }
      apply mem_str_In in F'. apply (Hacc n); [left; reflexivity|exact F'].
    + apply IH; [exact Hd|]. intros x Hx. rewrite map_app, in_app_iff. cbn.
      intros [H|[H|[]]].
      * apply (Hacc x); [right; exact Hx|exact H].
      * subst x. apply mem_str_false_In in Hn. contradiction.
Qed.

Lemma duplicate_plain_collect g :
  duplicate_plain g = false -> exists defs, collect_plain_defs (all_defs g) [] = Ok defs.
Proof.
  unfold duplicate_plain. rewrite plain_names_all_defs. intro H.
  apply collect_plain_defs_ok; [exact H|]. intros x _ [].
Qed.

Lemma collect_plain_defs_no_dup g defs :
  collect_plain_defs (all_defs g) [] = Ok defs -> duplicate_plain g = false.
Proof.
  intro H. unfold duplicate_plain. destruct (has_dup (plain_names g)) eqn:E; [|reflexivity].
  rewrite plain_names_all_defs in E.
  destruct (collect_plain_defs_dup (all_defs g) []) as [a [b Hc]]; [left; exact E|]. congruence.
Qed.

(** *** Definitions for a shell *)
Definition shell_names_of (target : shell) (ds : defs_t) : list string :=
  map fst (shell_defs_of target ds).

(** what [get_user_specs] does, class by class *)
Definition user_error_present (unknown noncmd dup : bool) (e : cerror) : Prop :=
  match e with
  | UnknownShell _ => unknown = true
  | NonCommandSpecialization _ => noncmd = true
  | DuplicateNonterminalDefinition _ _ => dup = true
  | _ => False
  end.

Definition ds_unknown_shell (ds : defs_t) : bool :=
  existsb (fun x => match x with
                    | (_, _, Some (shn, _), _) =>
                        match shell_of_string shn with None => true | Some _ => false end
                    | _ => false
                    end) ds.

Definition ds_non_command (ds : defs_t) : bool :=
  existsb (fun x => match x with
                    | (_, _, Some _, rhs) => negb (is_command rhs)
                    | _ => false
                    end) ds.

Lemma unknown_shell_defs g : unknown_shell g = ds_unknown_shell (all_defs g).
Proof.
  unfold unknown_shell, ds_unknown_shell, all_defs. induction g as [|s g IH]; cbn; [reflexivity|].
  destruct s as [n sp e|n sp [[shn shsp]|] rhs]; cbn; rewrite IH; reflexivity.
Qed.

Lemma non_command_defs g : non_command_for_shell g = ds_non_command (all_defs g).
Proof.
  unfold non_command_for_shell, ds_non_command, all_defs. induction g as [|s g IH]; cbn; [reflexivity|].
  destruct s as [n sp e|n sp [[shn shsp]|] rhs]; cbn; rewrite IH; reflexivity.
Qed.

Lemma shell_names_defs g sh : shell_names g sh = shell_names_of sh (all_defs g).
Proof. unfold shell_names_of. symmetry. apply shell_defs_of_names. Qed.

Lemma has_dup_true_cons x l : has_dup (x :: l) = true <-> In x l \/ has_dup l = true.
Proof. cbn. rewrite orb_true_iff, mem_str_In. tauto. Qed.

Lemma existsb_mem_snoc (acc : list string) n names :
  existsb (fun m => mem_str m (acc ++ [n])) names
  = mem_str n names || existsb (fun m => mem_str m acc) names.
Proof.
  induction names as [|m l IH]; [reflexivity|].
  cbn [existsb]. rewrite IH, mem_str_app, mem_str_single.
  change (mem_str n (m :: l)) with (String.eqb n m || mem_str n l).
  rewrite (String.eqb_sym m n).
  destruct (String.eqb n m), (mem_str m acc), (mem_str n l),
    (existsb (fun m0 => mem_str m0 acc) l); reflexivity.
Qed.

(** [get_user_specs] fails exactly when one of the three classes is present (relative to the
    names already collected), and then with an error of a present class. *)
Lemma get_user_specs_verdict target ds : forall acc,
  let bad := ds_unknown_shell ds || ds_non_command ds
             || has_dup (shell_names_of target ds)
             || existsb (fun n => mem_str n (map fst acc)) (shell_names_of target ds) in
  match get_user_specs target ds acc with
  | Ok _ => bad = false
  | Err e => user_error_present (ds_unknown_shell ds) (ds_non_command ds)
                                (has_dup (shell_names_of target ds)
                                 || existsb (fun n => mem_str n (map fst acc))
                                            (shell_names_of target ds)) e
  | _ => False
  end.
Proof.
  induction ds as [|[[[n nsp] sh] rhs] r IH]; intro acc; cbn zeta; [reflexivity|].
  cbn [get_user_specs]. destruct sh as [[shn shsp]|].
  2:{ specialize (IH acc). cbn zeta in IH. exact IH. }
  unfold shell_names_of, shell_defs_of in *. cbn [flat_map ds_unknown_shell ds_non_command existsb].
  fold (ds_unknown_shell r). fold (ds_non_command r).
  destruct rhs as [| |cmd z lv csp| | | | | | |];
    try (cbn [is_command negb user_error_present orb]; rewrite ?orb_true_r; reflexivity).
  cbn [is_command negb orb].
  destruct (shell_of_string shn) as [s|] eqn:Hs.
  2:{ cbn. reflexivity. }
  unfold is_shell. rewrite Hs. cbn [orb].
  destruct (shell_eqb s target) eqn:Est.
  - cbn [app map fst has_dup existsb].
    destruct (assoc n acc) as [prev|] eqn:Ea.
    + cbn [user_error_present]. rewrite (mem_str_assoc n acc), Ea. cbn. rewrite !orb_true_r. reflexivity.
    + specialize (IH (acc ++ [(n, mkspec cmd nsp)])). cbn zeta in IH.
      rewrite (mem_str_assoc n acc), Ea. cbn [orb].
      set (names := map fst (flat_map _ r)) in *.
      assert (Hex : existsb (fun n0 => mem_str n0 (map fst (acc ++ [(n, mkspec cmd nsp)]))) names
                    = mem_str n names || existsb (fun n0 => mem_str n0 (map fst acc)) names).
      { rewrite map_app. cbn [map fst]. apply existsb_mem_snoc. }
      rewrite Hex in IH.
      destruct (get_user_specs target r (acc ++ [(n, mkspec cmd nsp)])) as [us|e| |].
      * rewrite <- IH.
        destruct (ds_unknown_shell r), (ds_non_command r), (has_dup names), (mem_str n names),
          (existsb (fun n0 => mem_str n0 (map fst acc)) names); reflexivity.
      * destruct e; cbn [user_error_present] in *; try exact IH.
        rewrite <- IH.
        destruct (has_dup names), (mem_str n names),
          (existsb (fun n0 => mem_str n0 (map fst acc)) names); reflexivity.
      * exact IH.
      * exact IH.
  - cbn [app]. specialize (IH acc). cbn zeta in IH. exact IH.
Qed.

Lemma existsb_mem_nil {V} (l : list string) :
  existsb (fun n => mem_str n (map fst (@nil (string * V)))) l = false.
Proof. induction l as [|a l IH]; cbn; [reflexivity|exact IH]. Qed.

Lemma get_user_specs_ok_iff g sh :
  (exists us, get_user_specs sh (all_defs g) [] = Ok us) <->
  unknown_shell g = false /\ non_command_for_shell g = false /\ duplicate_for_shell g sh = false.
Proof.
  pose proof (get_user_specs_verdict sh (all_defs g) []) as H. cbn zeta in H.
  unfold duplicate_for_shell. rewrite unknown_shell_defs, non_command_defs, shell_names_defs.
  rewrite existsb_mem_nil, orb_false_r in H.
  destruct (get_user_specs sh (all_defs g) []) as [us|e|s|].
  - apply orb_false_iff in H. destruct H as [H H3]. apply orb_false_iff in H. destruct H as [H1 H2].
    split; [intros _; auto|intros _; eexists; reflexivity].
  - split; [intros [us Hu]; discriminate|]. intros (H1 & H2 & H3). rewrite H1, H2, H3 in H.
    destruct e; cbn in H; try discriminate; destruct H.
  - destruct H.
  - destruct H.
Qed.

Lemma get_user_specs_err_present g sh e :
  get_user_specs sh (all_defs g) [] = Err e ->
  user_error_present (unknown_shell g) (non_command_for_shell g) (duplicate_for_shell g sh) e.
Proof.
  intro He. pose proof (get_user_specs_verdict sh (all_defs g) []) as H. cbn zeta in H.
  rewrite He in H. unfold duplicate_for_shell.
  rewrite unknown_shell_defs, non_command_defs, shell_names_defs.
  rewrite existsb_mem_nil, orb_false_r in H. exact H.
Qed.

(** *** Fallbacks: plain definitions of names specialised for the target *)
Lemma get_fallback_specs_ok specialized ds : forall acc,
  has_dup (plain_names_of ds) = false ->
  (forall x, In x (plain_names_of ds) -> ~ In x (map fst acc)) ->
  (forall n nsp rhs, In (n, nsp, None, rhs) ds -> mem_str n specialized = true ->
                     is_command rhs = true) ->
  exists fs, get_fallback_specs specialized ds acc = Ok fs.
Proof.
  induction ds as [|[[[n nsp] sh] rhs] r IH]; intros acc Hd Hacc Hcmd; cbn [get_fallback_specs].
  - eexists; reflexivity.
  - assert (Hcmd' : forall n nsp rhs, In (n, nsp, None, rhs) r -> mem_str n specialized = true ->
                                      is_command rhs = true).
    { intros. eapply Hcmd; [right; eassumption|assumption]. }
    destruct sh as [s|]; [apply IH; assumption|].
    cbn [plain_names_of has_dup] in Hd, Hacc. apply orb_false_iff in Hd. destruct Hd as [Hn Hd].
    assert (Hacc' : forall x, In x (plain_names_of r) -> ~ In x (map fst acc)).
    { intros x Hx. apply Hacc. right. exact Hx. }
    destruct (mem_str n specialized) eqn:Hm; [|apply IH; assumption].
    pose proof (Hcmd n nsp rhs (or_introl eq_refl) Hm) as Hc.
    destruct rhs; try discriminate.
    destruct (assoc n acc) as [[c p]|] eqn:Ea.
    + exfalso. apply (Hacc n); [left; reflexivity|]. eapply assoc_Some_in; eauto.
    + apply IH; [exact Hd| |exact Hcmd'].
      intros x Hx. rewrite map_app, in_app_iff. cbn. intros [H|[H|[]]].
      * apply (Hacc' x Hx H).
      * subst x. apply mem_str_false_In in Hn. contradiction.
Qed.

Lemma plain_definition_in g n nsp rhs :
  has_dup (plain_names g) = false -> In (NontermDef n nsp None rhs) g ->
  plain_definition g n = Some rhs.
Proof.
  induction g as [|s g IH]; intros Hd Hin; [destruct Hin|].
  destruct s as [m sp e|m sp [[shn shsp]|] rhs'].
  - destruct Hin as [Hin|Hin]; [discriminate|]. cbn in *. apply IH; assumption.
  - destruct Hin as [Hin|Hin]; [discriminate|]. cbn in *. apply IH; assumption.
  - unfold plain_names in Hd. cbn [flat_map app] in Hd. fold (plain_names g) in Hd.
    cbn [has_dup] in Hd. apply orb_false_iff in Hd. destruct Hd as [Hm Hd].
    cbn [plain_definition]. destruct Hin as [Hin|Hin].
    + inversion Hin; subst. rewrite String.eqb_refl. reflexivity.
    + destruct (String.eqb m n) eqn:E; [|apply IH; assumption].
      apply String.eqb_eq in E. subst m. exfalso. apply mem_str_false_In in Hm. apply Hm.
      unfold plain_names. apply in_flat_map. eexists. split; [exact Hin|]. left. reflexivity.
Qed.

Lemma us_keys_shell_names g sh us :
  get_user_specs sh (all_defs g) [] = Ok us -> map fst us = shell_names g sh.
Proof.
  intro H. apply get_user_specs_spans in H. cbn in H.
  rewrite <- shell_defs_of_names, <- H. unfold us_spans. rewrite map_map. reflexivity.
Qed.

Lemma in_shell_names g sh n :
  In n (shell_names g sh) ->
  exists nsp shn shsp rhs, In (NontermDef n nsp (Some (shn, shsp)) rhs) g /\ is_shell shn sh = true.
Proof.
  unfold shell_names. rewrite in_flat_map. intros [s [Hs Hin]].
  destruct s as [m sp e|m sp [[shn shsp]|] rhs]; try destruct Hin.
  destruct (is_shell shn sh) eqn:E; [|destruct Hin]. destruct Hin as [Hin|[]]. subst m.
  exists sp, shn, shsp, rhs. split; assumption.
Qed.

Theorem get_specializations_ok g sh :
  duplicate_plain g = false ->
  unknown_shell g = false -> non_command_for_shell g = false -> duplicate_for_shell g sh = false ->
  specs_have_command_plain g = true ->
  exists us fs, get_specializations g sh = Ok (us, fs).
Proof.
  intros Hdp H1 H2 H3 Hs. unfold get_specializations.
  destruct (proj2 (get_user_specs_ok_iff g sh) (conj H1 (conj H2 H3))) as [us Hus].
  rewrite Hus. cbn [obind].
  destruct (get_fallback_specs_ok (map fst us) (all_defs g) []) as [fs Hfs].
  - rewrite <- plain_names_all_defs. exact Hdp.
  - intros x _ [].
  - intros n nsp rhs Hin Hm. apply in_all_defs in Hin. apply mem_str_In in Hm.
    rewrite (us_keys_shell_names _ _ _ Hus) in Hm. apply in_shell_names in Hm.
    destruct Hm as (nsp' & shn & shsp & rhs' & Hin' & _).
    unfold specs_have_command_plain in Hs. rewrite forallb_forall in Hs.
    specialize (Hs _ Hin'). cbn in Hs.
    rewrite (plain_definition_in g n nsp rhs Hdp Hin) in Hs. exact Hs.
  - rewrite Hfs. cbn. eexists; eexists; reflexivity.
Qed.

(** *** From the spec-level classes to the point where [from_grammar] calls the later passes *)
Lemma from_grammar_front builtins g sh command cspan defs0 :
  dedup_names [] (cv_names g) = [(command, cspan)] ->
  contains_char slash command = false ->
  collect_plain_defs (all_defs g) [] = Ok defs0 ->
  from_grammar builtins g sh =
  do specs <- get_specializations g sh;
  let defs1 := defs1_of defs0 in
  let expr1 := distribute_descriptions (expr0_of g) in
  let spec := spec_of builtins sh (fst specs) (snd specs) defs1 in
  let defs2 := defs2_of spec defs1 in
  let expr2 := spec expr1 in
  do ord <- resolution_order defs2;
  let table := resolve_in_order ord (table0_of defs2) in
  do _ <- spaces table (spaces_fuel table expr2) expr2 [] false false;
  let expr5 := propagate (collapse (resolve table expr2)) 0 in
  let referenced := referenced_of defs1 expr1 in
  Ok (mkvalid command expr5 (get_nonterm_refs expr5) (unused_of referenced defs1)
              (unused_specs_of referenced (fst specs))).
Proof.
  intros Hd Hs Hc. unfold from_grammar. fold (cv_names g). rewrite Hd, Hs, Hc. cbn [obind].
  destruct (get_specializations g sh) as [[us fs]| | |]; reflexivity.
Qed.

Theorem specialization_errors builtins g sh :
  no_call_variant g = false -> varying_names g = false -> slash_in_name g = false ->
  duplicate_plain g = false ->
  unknown_shell g || non_command_for_shell g || duplicate_for_shell g sh = true ->
  exists e, from_grammar builtins g sh = Err e /\
            user_error_present (unknown_shell g) (non_command_for_shell g)
                               (duplicate_for_shell g sh) e.
Proof.
  intros Hn Hv Hsl Hdp Hbad.
  destruct (dedup_single g Hn Hv) as (command & cspan & Hd & Hin).
  pose proof (no_slash g command Hsl Hin) as Hs.
  destruct (duplicate_plain_collect g Hdp) as [defs0 Hc].
  rewrite (from_grammar_front builtins g sh _ _ _ Hd Hs Hc).
  unfold get_specializations.
  pose proof (get_user_specs_fine sh (all_defs g) []) as Hf.
  destruct (get_user_specs sh (all_defs g) []) as [us|e| |] eqn:Hus.
  - exfalso. destruct (proj1 (get_user_specs_ok_iff g sh)) as (H1 & H2 & H3); [eexists; exact Hus|].
    rewrite H1, H2, H3 in Hbad. discriminate.
  - exists e. split; [reflexivity|]. apply get_user_specs_err_present. exact Hus.
  - destruct Hf.
  - destruct Hf.
Qed.
