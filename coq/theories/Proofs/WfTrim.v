(** What [dfa_from_regex] hands to [minimize]: the raw automaton of a regex built by [from_expr]
    satisfies [MinimizeSpec.wf] and [DfaEquiv.trim] (the hypotheses of the C03 theorems), for
    every pop order. *)
From CG Require Import Base.Prelude Model.Ast Model.Dfa Model.Regex Model.Subset Spec.Lang.
From CG Require Import Spec.DfaEquiv Spec.MinimizeSpec.
From CG Require Import Proofs.RxLang Proofs.Glushkov Proofs.SubsetStmt Proofs.SubsetConstr.
From CG Require Import Proofs.LangDen Proofs.LangJudge Proofs.FromExpr Proofs.C02Lang Proofs.TreeFacts.

(** *** State ids are handed out in increasing order, from 1 *)
Definition ids_sorted (st : sst) : Prop :=
  sortedN (map snd (s_ids st)) /\
  forall s, In s (map snd (s_ids st)) -> 1 <= s < s_next st.

Lemma sortedN_snoc : forall l x, sortedN l -> (forall y, In y l -> y < x) -> sortedN (l ++ [x]).
Proof.
  induction l as [|a l IH]; intros x Hs Hlt; simpl.
  - split; [intros y []|exact I].
  - destruct Hs as [H1 H2]. split.
    + intros y Hy. apply in_app_iff in Hy. destruct Hy as [Hy|[<-|[]]]; [auto|].
      apply Hlt. left. reflexivity.
    + apply IH; auto. intros y Hy. apply Hlt. right. exact Hy.
Qed.

Lemma ids_sorted_alloc : forall st t,
  ids_sorted st -> 1 <= s_next st ->
  ids_sorted (mksst (s_ids st ++ [(t, s_next st)]) (N.succ (s_next st)) (s_trans st) (s_todo st ++ [t])).
Proof.
  intros st t [H1 H2] Hn. unfold ids_sorted. simpl. rewrite map_app. simpl. split.
  - apply sortedN_snoc; auto. intros y Hy. apply H2 in Hy. lia.
  - intros s Hs. apply in_app_iff in Hs. destruct Hs as [Hs|[<-|[]]]; [apply H2 in Hs; lia|lia].
Qed.

Lemma process_ids_sorted : forall labels fw S xs id st row st1 row1,
  ids_sorted st -> 1 <= s_next st ->
  process labels fw S xs id st row = (st1, row1) ->
  ids_sorted st1 /\ 1 <= s_next st1.
Proof.
  intros labels fw S. induction xs as [|x xs IH]; intros id st row st1 row1 Hs Hn H; simpl in H.
  - inversion H; subst. auto.
  - destruct (target labels fw S x) as [|a t] eqn:Et.
    + eapply IH; eauto.
    + destruct (find_set (a :: t) (s_ids st)) as [to|].
      * eapply IH; eauto.
      * eapply IH in H; eauto.
        -- apply ids_sorted_alloc; auto.
        -- simpl. lia.
Qed.

Lemma loop_ids_sorted : forall labels fw inputs pick fuel step st st',
  ids_sorted st -> 1 <= s_next st ->
  loop labels fw inputs pick fuel step st = Ok st' -> ids_sorted st'.
Proof.
  intros labels fw inputs pick. induction fuel as [|fuel IH]; intros step st st' Hs Hn H; simpl in H;
    [discriminate|].
  destruct (pop (pick step (s_todo st)) (s_todo st)) as [[S rest]|]; [|inversion H; subst; exact Hs].
  destruct (find_set S (s_ids st)) as [from|]; [|discriminate].
  destruct (process labels fw S inputs 0 _ []) as [st1 row] eqn:Ep.
  apply process_ids_sorted in Ep; [|exact Hs|exact Hn]. destruct Ep as [Hs1 Hn1].
  eapply IH in H; eauto.
Qed.

Lemma sortedN_filter_map : forall {A} (f : A -> bool) (g : A -> N) l,
  sortedN (map g l) -> sortedN (flat_map (fun x => if f x then [g x] else []) l).
Proof.
  intros A f g. induction l as [|a l IH]; simpl; intros H; [exact I|].
  destruct H as [H1 H2]. destruct (f a); simpl; [|auto].
  split; [|auto]. intros y Hy. apply in_flat_map in Hy. destruct Hy as [b [Hb Hy]].
  destruct (f b); [|destruct Hy]. destruct Hy as [<-|[]]. apply H1. apply in_map. exact Hb.
Qed.

(** *** The automaton at exit, once more, with the sortedness of ids *)
Lemma dfa_from_regex_sorted : forall pick fuel submap r d states,
  dfa_from_regex pick fuel submap r = Ok (d, states) ->
  sortedN (map snd states) /\ (forall s, In s (map snd states) -> 1 <= s).
Proof.
  intros pick fuel submap r d states H. unfold dfa_from_regex in H.
  destruct (omap (from_input submap) (r_inputs r)) as [labels| | |]; simpl in H; try discriminate.
  destruct (loop labels (regex_follow r) (intern_all labels) pick fuel 0 _) as [st| | |] eqn:El;
    simpl in H; try discriminate.
  destruct (find_set (regex_first r) (s_ids st)); [|discriminate]. inversion H; subst.
  apply loop_ids_sorted in El.
  - destruct El as [H1 H2]. split; auto. intros s Hs. apply H2 in Hs. lia.
  - unfold ids_sorted, first_state_id. simpl. split; [split; [intros y []|exact I]|].
    intros s [<-|[]]. lia.
  - unfold first_state_id. simpl. lia.
Qed.

(** every state the automaton mentions is the number of a stored position set *)
Lemma states_are_ids : forall pick fuel submap r d states labels,
  dfa_from_regex pick fuel submap r = Ok (d, states) ->
  omap (from_input submap) (r_inputs r) = Ok labels ->
  forall s, In s (DfaEquiv.states d) -> In s (map snd states).
Proof.
  intros pick fuel submap r d states labels H Hl s Hs.
  destruct (dfa_from_regex_inv _ _ _ _ _ _ _ H Hl) as [st [s0 [HI [Ht [-> [Hs0 Ed]]]]]].
  unfold DfaEquiv.states in Hs. apply nodup_In in Hs. destruct Hs as [<-|Hs].
  - subst d. simpl. change s0 with (snd (regex_first r, s0)). apply in_map. exact Hs0.
  - apply in_app_iff in Hs. destruct Hs as [Hs|Hs].
    + unfold trans_states in Hs. apply in_flat_map in Hs. destruct Hs as [[f row] [Hrow Hs]].
      subst d. simpl in Hrow, Hs.
      destruct (inv_rows _ _ _ _ _ _ HI _ _ Hrow) as [S [HS [Hok Hnd]]].
      destruct Hs as [<-|Hs].
      * change f with (snd (S, f)). apply in_map. exact HS.
      * apply in_map_iff in Hs. destruct Hs as [[i to] [<- Hin]]. simpl.
        specialize (Hok i). rewrite (assocN_In _ _ _ Hnd Hin) in Hok. destruct Hok as [_ Hto].
        change to with (snd (sstep labels (regex_follow r) (intern_all labels) S i, to)).
        apply in_map. exact Hto.
    + subst d. simpl in Hs. apply in_flat_map in Hs. destruct Hs as [[S t] [Hin Hs]].
      simpl in Hs. destruct (memN (r_end r) S); [|destruct Hs]. destruct Hs as [<-|[]].
      change t with (snd (S, t)). apply in_map. exact Hin.
Qed.

Theorem dfa_from_regex_wf : forall pick fuel submap r d states,
  dfa_from_regex pick fuel submap r = Ok (d, states) -> wf d.
Proof.
  intros pick fuel submap r d states H.
  destruct (dfa_from_regex_labels _ _ _ _ _ _ H) as [labels Hl].
  pose proof (subset_run pick fuel submap r d states labels H Hl) as R. simpl in R.
  destruct R as [Hin [Hk [Hr [_ [_ [_ [_ [_ Hrows]]]]]]]].
  destruct (dfa_from_regex_sorted _ _ _ _ _ _ H) as [Hsorted Hge].
  pose proof (states_are_ids _ _ _ _ _ _ _ H Hl) as Hst.
  destruct (dfa_from_regex_inv _ _ _ _ _ _ _ H Hl) as [st [s0 [HI [Ht [Est [Hs0 Ed]]]]]].
  constructor.
  - exact Hk.
  - intros f row Hrow. rewrite Forall_forall in Hr. apply (Hr (f, row) Hrow).
  - intros f row i t Hrow Hit.
    assert (Hrow' : In (f, row) (s_trans st)) by (subst d; exact Hrow).
    destruct (inv_rows _ _ _ _ _ _ HI _ _ Hrow') as [S [HS [Hok Hnd]]].
    specialize (Hok i). rewrite (assocN_In _ _ _ Hnd Hit) in Hok. destruct Hok as [Hne _].
    unfold sstep in Hne. rewrite Hin.
    destruct (nthN (intern_all labels) i) as [x|] eqn:Ex; [|congruence].
    unfold nthN in Ex. unfold lenN.
    assert (Hlt : (N.to_nat i < List.length (intern_all labels))%nat)
      by (apply nth_error_Some; congruence).
    lia.
  - intros H0. apply Hst in H0. apply Hge in H0. lia.
  - intros s Hs. apply Hrows. apply Hst. exact Hs.
  - subst d states. simpl. apply (sortedN_filter_map (fun si => memN (r_end r) (fst si)) snd).
    exact Hsorted.
Qed.

(** *** Regexes built by [from_expr] *)
Definition regex_good (r : regex) : Prop :=
  exists t, r_tree r = with_end t (r_end r) /\ shape t /\ ors_nonempty t = true /\
            in_range 0 (r_end r) (positions t) /\ r_end r = lenN (r_inputs r).

(** [alts_nonempty] expressions give [ors_nonempty] trees, and only good regexes enter the pool *)
Lemma do_from_expr_ors : forall e s pl id t s' pl',
  alts_nonempty e = true -> do_from_expr e s pl = Ok (id, t, s', pl') ->
  Forall regex_good pl -> ors_nonempty t = true /\ Forall regex_good pl'.
Proof.
  assert (Hch : forall cs, Forall (fun e => forall s pl id t s' pl',
                   alts_nonempty e = true -> do_from_expr e s pl = Ok (id, t, s', pl') ->
                   Forall regex_good pl -> ors_nonempty t = true /\ Forall regex_good pl') cs ->
                forall s pl ids ts s' pl',
                  forallb alts_nonempty cs = true ->
                  do_children do_from_expr cs s pl = Ok (ids, ts, s', pl') ->
                  Forall regex_good pl ->
                  forallb ors_nonempty ts = true /\ Forall regex_good pl' /\
                  List.length ts = List.length cs).
  { intros cs HF. induction HF as [|c cs Hc HF IH]; intros s pl ids ts s' pl' Ha E Hp; simpl in E.
    - inversion E; subst. auto.
    - simpl in Ha. apply andb_true_iff in Ha. destruct Ha as [Ha1 Ha2].
      destruct (do_from_expr c s pl) as [[[[id t] s1] pl1]| | |] eqn:E1; simpl in E; try discriminate.
      destruct (do_children do_from_expr cs s1 pl1) as [[[[ids2 ts2] s2] pl2]| | |] eqn:E2;
        simpl in E; try discriminate.
      inversion E; subst.
      destruct (Hc _ _ _ _ _ _ Ha1 E1 Hp) as [H1 Hp1].
      destruct (IH _ _ _ _ _ _ Ha2 E2 Hp1) as [H2 [Hp2 Hlen]].
      simpl. rewrite H1, H2, Hlen. auto. }
  induction e using expr_ind'; intros s pl id tt s' pl' Ha E Hp; simpl in E.
  - inversion E; subst. auto.
  - inversion E; subst. auto.
  - inversion E; subst. auto.
  - destruct (do_children do_from_expr cs s pl) as [[[[ids ts] s1] pl1]| | |] eqn:E1;
      simpl in E; try discriminate. inversion E; subst.
    destruct (Hch cs H _ _ _ _ _ _ Ha E1 Hp) as [H1 [H2 _]]. simpl. auto.
  - destruct (do_children do_from_expr cs s pl) as [[[[ids ts] s1] pl1]| | |] eqn:E1;
      simpl in E; try discriminate. inversion E; subst.
    simpl in Ha. destruct cs as [|c cs]; [discriminate|].
    destruct (Hch (c :: cs) H _ _ _ _ _ _ Ha E1 Hp) as [H1 [H2 Hlen]]. split; auto.
    simpl. destruct ts as [|t0 ts]; [discriminate|]. exact H1.
  - destruct (do_from_expr e s pl) as [[[[cid ct] s1] pl1]| | |] eqn:E1; simpl in E; try discriminate.
    inversion E; subst. destruct (IHe _ _ _ _ _ _ Ha E1 Hp) as [H1 H2]. simpl. rewrite H1. auto.
  - destruct (do_from_expr e s pl) as [[[[cid ct] s1] pl1]| | |] eqn:E1; simpl in E; try discriminate.
    inversion E; subst. destruct (IHe _ _ _ _ _ _ Ha E1 Hp) as [H1 H2]. simpl. rewrite H1. auto.
  - discriminate.
  - destruct (do_children do_from_expr cs s pl) as [[[[ids ts] s1] pl1]| | |] eqn:E1;
      simpl in E; try discriminate. inversion E; subst.
    simpl in Ha. destruct cs as [|c cs]; [discriminate|].
    destruct (Hch (c :: cs) H _ _ _ _ _ _ Ha E1 Hp) as [H1 [H2 Hlen]]. split; auto.
    simpl. destruct ts as [|t0 ts]; [discriminate|]. exact H1.
  - destruct (do_from_expr e empty_bst pl) as [[[[cid ct] cs] pl1]| | |] eqn:E1;
      simpl in E; try discriminate.
    destruct (pool_intern (finish_regex cid ct cs) pl1) as [rid pl2] eqn:Ei.
    inversion E; subst. simpl in Ha. destruct (IHe _ _ _ _ _ _ Ha E1 Hp) as [H1 H2].
    split; [reflexivity|].
    unfold pool_intern in Ei. destruct (pool_find (finish_regex cid ct cs) pl1 0).
    + inversion Ei; subst. exact H2.
    + inversion Ei; subst. apply Forall_app. split; [exact H2|]. constructor; [|constructor].
      destruct (do_from_expr_good witem wleaf wR pl1 (wleaf_case pl1) e _ _ _ _ _ _ E1 (prefix_refl _))
        as [_ [_ [Sh [Rg _]]]].
      destruct (finish_regex_fields cid ct cs) as [Hi [He Ht]].
      exists ct. rewrite Ht, He, Hi. split; [reflexivity|]. split; [exact Sh|]. split; [exact H1|].
      split; [exact Rg|reflexivity].
Qed.

Lemma from_expr_good : forall e pl r pl',
  alts_nonempty e = true -> from_expr e pl = Ok (r, pl') -> Forall regex_good pl ->
  regex_good r /\ Forall regex_good pl'.
Proof.
  intros e pl r pl' Ha E Hp. unfold from_expr in E.
  destruct (do_from_expr e empty_bst pl) as [[[[id t] s] pl1]| | |] eqn:E1; simpl in E; try discriminate.
  inversion E; subst. destruct (do_from_expr_ors _ _ _ _ _ _ _ Ha E1 Hp) as [H1 H2]. split; auto.
  destruct (do_from_expr_good witem wleaf wR pl' (wleaf_case pl') e _ _ _ _ _ _ E1 (prefix_refl _))
    as [_ [_ [Sh [Rg _]]]].
  destruct (finish_regex_fields id t s) as [Hi [He Ht]].
  exists t. rewrite Ht, He, Hi. split; [reflexivity|]. split; [exact Sh|]. split; [exact H1|].
  split; [exact Rg|reflexivity].
Qed.

(** *** Every state can reach acceptance *)
Lemma run_app : forall d u v s, run d s (u ++ v) =
  match run d s u with Some t => run d t v | None => None end.
Proof.
  intros d. induction u as [|i u IH]; intros v s; simpl; [reflexivity|].
  destruct (step d s i); [apply IH|reflexivity].
Qed.

Lemma chain_sources : forall F p c e, chain F p c -> In (last c p, e) F ->
  forall q, In q (p :: c) -> exists y, In (q, y) F.
Proof.
  intros F p c e. revert p. induction c as [|b c IH]; intros p Hc Hl q Hq.
  - destruct Hq as [<-|[]]. simpl in Hl. eauto.
  - simpl in Hc. destruct Hc as [Hpb Hc]. rewrite Glushkov.last_cons in Hl.
    destruct Hq as [<-|Hq]; [eauto|]. apply (IH b Hc Hl q Hq).
Qed.

Section Trim.
  Hypothesis useful : useful_statement.

  Theorem dfa_from_regex_trim : forall pick fuel submap r d states,
    regex_good r ->
    dfa_from_regex pick fuel submap r = Ok (d, states) -> trim d.
  Proof.
    intros pick fuel submap r d states [t [Hroot [Hsh [Hors [Hrg Hend]]]]] H.
    destruct (dfa_from_regex_labels _ _ _ _ _ _ H) as [labels Hl].
    pose proof (subset_run pick fuel submap r d states labels H Hl) as R. simpl in R.
    destruct R as [Hin [_ [_ [_ [Hnds [Hrun [Hacc [Hreach _]]]]]]]].
    pose proof (states_are_ids _ _ _ _ _ _ _ H Hl) as Hst.
    assert (Hne : ~ In (r_end r) (positions t)) by (eapply not_in_range; eauto).
    destruct (useful t (r_end r) Hsh Hors Hne) as [Hfirst Huse].
    set (F := followpos (with_end t (r_end r))) in *.
    split.
    - intros s Hs. apply Hst in Hs. apply in_map_iff in Hs. destruct Hs as [[S s'] [<- Hs]].
      apply (Hreach S s' Hs).
    - intros s Hs. apply Hst in Hs. apply in_map_iff in Hs. destruct Hs as [[S s'] [<- Hs]].
      simpl. destruct (Hreach S s' Hs) as [ids0 Hr0].
      pose proof (Hrun ids0) as HR. rewrite Hr0 in HR.
      set (reach := reach_from labels (regex_follow r) (intern_all labels) (regex_first r)) in *.
      (* the set of the state is not empty *)
      assert (HSne : reach ids0 <> []).
      { destruct ids0 as [|i ids0]; [unfold reach; simpl; unfold regex_first; rewrite Hroot; exact Hfirst|].
        intros E. pose proof (Hacc (i :: ids0)) as HA.
        destruct (dfa_from_regex_inv _ _ _ _ _ _ _ H Hl) as [st [s0 [HI [Ht [Est [Hs0 Ed]]]]]].
        subst states. destruct (inv_reach _ _ _ _ _ _ HI _ _ HR) as [w [Hw Hnil]].
        (* a non-empty word cannot lead to the empty set: the row has no entry then *)
        assert (Hd : run d (d_start d) (i :: ids0) = None).
        { clear - Hrun E Hr0 HI HR H Hl Ed Hs0 reach.
          (* split the word at its last letter *)
          destruct (exists_last (l := i :: ids0)) as [u [a Eu]]; [discriminate|].
          rewrite Eu in *. rewrite run_app.
          destruct (run d (d_start d) u) as [tu|] eqn:Eru; [|reflexivity].
          simpl. pose proof (Hrun u) as HRu. rewrite Eru in HRu.
          destruct (step d tu a) as [ta|] eqn:Est; [|reflexivity]. exfalso.
          unfold step in Est. destruct (assocN tu (d_trans d)) as [row|] eqn:Erow; [|discriminate].
          apply assocN_Some_In in Erow. subst d. simpl in Erow.
          destruct (inv_rows _ _ _ _ _ _ HI _ _ Erow) as [Su [HSu [Hok _]]].
          assert (Su = reach u)
            by (eapply NoDup_snd_fun; [apply (inv_nd_snd _ _ _ _ _ _ HI)| |]; eauto).
          subst Su. specialize (Hok a). rewrite Est in Hok. destruct Hok as [Hne' _].
          apply Hne'. unfold reach in E. rewrite reach_app in E. rewrite reach_cons in E.
          simpl in E. exact E. }
        rewrite Hd in Hr0. discriminate. }
      destruct (reach ids0) as [|p S'] eqn:ES; [congruence|].
      assert (Hp : In p (reach ids0)) by (rewrite ES; left; reflexivity).
      destruct (N.eq_dec p (r_end r)) as [->|Hpe].
      + (* the end marker is in the set: the state accepts *)
        exists []. unfold accepts_from. simpl.
        pose proof (proj2 (Hacc ids0) Hp) as HA. unfold accepts, accepts_from in HA.
        rewrite Hr0 in HA. exact HA.
      + (* otherwise follow a chain to the end marker *)
        unfold reach in Hp.
        rewrite (reach_from_In labels F (regex_follow r) (intern_all labels)) in Hp
          by (unfold regex_follow, F; rewrite Hroot; apply follow_table_tin).
        assert (Hpos : In p (positions t)).
        { destruct Hp as [ps [_ Hpath]]. destruct ps as [|a ps'].
          - simpl in Hpath. unfold regex_first in Hpath. rewrite Hroot in Hpath.
            apply first_pos in Hpath. unfold with_end in Hpath. simpl in Hpath.
            try rewrite app_nil_r in Hpath. apply in_app_iff in Hpath.
            destruct Hpath as [Hpath|[Hpath|[]]]; [exact Hpath|congruence].
          - simpl in Hpath. destruct Hpath as [_ [_ Hlast]]. apply follow_pos in Hlast.
            destruct Hlast as [_ Hq]. unfold with_end in Hq. simpl in Hq. try rewrite app_nil_r in Hq.
            apply in_app_iff in Hq. destruct Hq as [Hq|[Hq|[]]]; [exact Hq|congruence]. }
        destruct (Huse p Hpos) as [c [Hchain Hlast]].
        (* every position of the chain has a label and an input id *)
        assert (Hsrc : forall x y, In (x, y) F -> In x (positions t)).
        { intros x y Hxy. unfold F in Hxy. apply followpos_with_end in Hxy.
          destruct Hxy as [Hxy|[Hxy _]]; [apply follow_pos in Hxy; tauto|apply last_pos; exact Hxy]. }
        assert (Hlab : forall q, In q (positions t) -> exists i, lab_ok labels (intern_all labels) q i).
        { intros q Hq. specialize (Hrg q Hq). rewrite Hend in Hrg.
          assert (Hx : exists x, nthN (r_inputs r) q = Some x).
          { unfold nthN. destruct (nth_error (r_inputs r) (N.to_nat q)) eqn:En; eauto.
            apply nth_error_None in En. unfold lenN in Hrg. lia. }
          destruct Hx as [x Hx].
          assert (Hy : exists y, nthN labels q = Some y).
          { clear - Hl Hx. revert q labels Hl Hx. induction (r_inputs r) as [|a l IH]; intros q labels Hl Hx.
            - unfold nthN in Hx. destruct (N.to_nat q); discriminate.
            - simpl in Hl. destruct (from_input submap a) as [b| | |]; simpl in Hl; try discriminate.
              destruct (omap (from_input submap) l) as [bs| | |] eqn:El; simpl in Hl; try discriminate.
              inversion Hl; subst. unfold nthN in *. destruct (N.to_nat q) as [|n] eqn:En; simpl; eauto.
              specialize (IH (N.of_nat n) bs eq_refl). rewrite Nnat.Nat2N.id in IH. apply IH. exact Hx. }
          destruct Hy as [y Hy].
          assert (HyIn : In y labels) by (unfold nthN in Hy; eapply nth_error_In; eauto).
          apply intern_all_complete in HyIn. apply In_nthN in HyIn. destruct HyIn as [i Hi].
          exists i. exists y. auto. }
        assert (Hids : exists ids1, Forall2 (lab_ok labels (intern_all labels)) (p :: c) ids1).
        { assert (Hall : Forall (fun q => In q (positions t)) (p :: c)).
          { apply Forall_forall. intros q Hq.
            destruct (chain_sources F p c (r_end r) Hchain Hlast q Hq) as [y Hy]. eapply Hsrc; eauto. }
          clear - Hall Hlab. induction Hall as [|q l Hq Hall [ids IH]].
          - exists []. constructor.
          - destruct (Hlab q Hq) as [i Hi]. exists (i :: ids). constructor; auto. }
        destruct Hids as [ids1 Hids].
        assert (He : In (r_end r) (reach (ids0 ++ ids1))).
        { unfold reach. rewrite reach_app. fold reach. rewrite ES.
          rewrite (reach_from_In labels F (regex_follow r) (intern_all labels))
            by (unfold regex_follow, F; rewrite Hroot; apply follow_table_tin).
          exists (p :: c). split; [exact Hids|]. simpl. split; [left; reflexivity|]. split; assumption. }
        apply Hacc in He. exists ids1. unfold accepts, accepts_from in *.
        rewrite run_app, Hr0 in He. exact He.
  Qed.
End Trim.
