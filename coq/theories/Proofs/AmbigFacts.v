(** [Ambig.find] is a sound decision of [Ambig.unambiguous]: when it finds nothing, no state has
    two outgoing items that read a common word and differ in target; when it exhibits a word,
    the two transitions exist, differ in target and both items read that word. *)
From CG Require Import Base.Prelude Model.Dfa Spec.TokAut Spec.Ambig Proofs.TokAutFacts.

Lemma first_some_none {A B} (f : A -> option B) l :
  first_some f l = None -> forall x, In x l -> f x = None.
Proof.
  induction l as [| y l IH]; intros H x Hin; [destruct Hin |].
  cbn [first_some] in H. destruct (f y) eqn:E; [discriminate |].
  destruct Hin as [<- | Hin]; [assumption | apply IH; assumption].
Qed.

Lemma first_some_some {A B} (f : A -> option B) l b :
  first_some f l = Some b -> exists x, In x l /\ f x = Some b.
Proof.
  induction l as [| y l IH]; intro H; [discriminate |].
  cbn [first_some] in H. destruct (f y) eqn:E.
  - inversion H; subst. exists y. split; [left; reflexivity | assumption].
  - destruct (IH H) as [x [Hin Hx]]. exists x. split; [right; assumption | assumption].
Qed.

Lemma assocN_In {V} k (l : list (N * V)) v : assocN k l = Some v -> In (k, v) l.
Proof.
  induction l as [| [k' v'] l IH]; cbn [assocN]; [discriminate |].
  destruct (N.eqb k k') eqn:E.
  - intro H. inversion H; subst. apply N.eqb_eq in E. subst. left; reflexivity.
  - intro H. right. apply IH. assumption.
Qed.

Lemma step_row d s i t :
  step d s i = Some t -> exists tos, assocN s (d_trans d) = Some tos /\ In (i, t) tos.
Proof.
  unfold step. destruct (assocN s (d_trans d)) as [tos |] eqn:E; [| discriminate].
  intro H. exists tos. split; [reflexivity | apply assocN_In; assumption].
Qed.

Lemma Neqb_sound a b : N.eqb a b = true -> a = b.
Proof. apply N.eqb_eq. Qed.

Lemma sub_accepts_spec d w :
  sub_accepts d w = true <-> tacc N (dnext d) (dfinal d) (d_start d) w.
Proof. apply taccepts_spec. Qed.

(** If two transitions of a state read a common word and differ in target, [check_pair] says so. *)
Lemma check_pair_complete c s i t j u ii ij w :
  nthN (d_inputs (c_main c)) i = Some ii -> nthN (d_inputs (c_main c)) j = Some ij ->
  matches_item c ii w -> matches_item c ij w -> t <> u ->
  check_pair c s (i, t) (j, u) <> None.
Proof.
  intros Hi Hj Mi Mj Htu. unfold check_pair. cbn [fst snd].
  destruct (N.eqb t u) eqn:E; [apply N.eqb_eq in E; contradiction |].
  rewrite Hi, Hj.
  destruct ii as [a da la | k lk | | |]; cbn [matches_item] in Mi; try contradiction;
    destruct ij as [b db lb | k' lk' | | |]; cbn [matches_item] in Mj; try contradiction.
  - subst. rewrite String.eqb_refl. discriminate.
  - destruct Mj as [d [Hd Hacc]]. subst a. rewrite Hd.
    apply sub_accepts_spec in Hacc. rewrite Hacc. discriminate.
  - destruct Mi as [d [Hd Hacc]]. subst b. rewrite Hd.
    apply sub_accepts_spec in Hacc. rewrite Hacc. discriminate.
  - destruct Mi as [d [Hd Hacc]]. destruct Mj as [d' [Hd' Hacc']]. rewrite Hd, Hd'.
    destruct (subs_disjoint d d') eqn:Ed; [| discriminate].
    exfalso. unfold subs_disjoint in Ed.
    apply (disjoint_sound N N (dnext d) (dnext d') (dfinal d) (dfinal d') N.eqb N.eqb
                          Neqb_sound Neqb_sound _ _ Ed w).
    split; assumption.
Qed.

(** Soundness of the answer "none". *)
Theorem find_none_unambiguous c : find c = None -> unambiguous c.
Proof.
  intros H s i j ii ij w t u Hs1 Hs2 Hi Hj Mi Mj.
  destruct (N.eq_dec t u) as [E | Ne]; [assumption | exfalso].
  apply step_row in Hs1. destruct Hs1 as [tos [Hrow Hit]].
  apply step_row in Hs2. destruct Hs2 as [tos' [Hrow' Hju]].
  rewrite Hrow in Hrow'. inversion Hrow'; subst tos'.
  apply assocN_In in Hrow.
  unfold find in H.
  pose proof (first_some_none _ _ H _ Hrow) as H1. unfold find_at in H1. cbn [fst snd] in H1.
  pose proof (first_some_none _ _ H1 _ Hit) as H2. cbn beta in H2.
  pose proof (first_some_none _ _ H2 _ Hju) as H3.
  revert H3. eapply check_pair_complete; eassumption.
Qed.

(** What a reported witness means. *)
Theorem find_some_genuine c s i j w :
  find c = Some (mkwit s i j (Some w)) ->
  exists tos t u ii ij,
    In (s, tos) (d_trans (c_main c)) /\ In (i, t) tos /\ In (j, u) tos /\ t <> u
    /\ nthN (d_inputs (c_main c)) i = Some ii /\ nthN (d_inputs (c_main c)) j = Some ij
    /\ matches_item c ii w /\ matches_item c ij w.
Proof.
  unfold find. intro H. apply first_some_some in H. destruct H as [[s0 tos] [Hrow H]].
  unfold find_at in H. cbn [fst snd] in H.
  apply first_some_some in H. destruct H as [[i0 t] [Hit H]].
  apply first_some_some in H. destruct H as [[j0 u] [Hju H]].
  unfold check_pair in H. cbn [fst snd] in H.
  destruct (N.eqb t u) eqn:E; [discriminate |].
  assert (Htu : t <> u) by (intro X; subst; rewrite N.eqb_refl in E; discriminate).
  destruct (nthN (d_inputs (c_main c)) i0) as [ii |] eqn:Hi; [| discriminate].
  destruct (nthN (d_inputs (c_main c)) j0) as [ij |] eqn:Hj;
    [| destruct ii; discriminate].
  destruct ii as [a da la | k lk | | |]; try discriminate;
    destruct ij as [b db lb | k' lk' | | |]; try discriminate.
  - destruct (String.eqb a b) eqn:Eab; [| discriminate]. apply String.eqb_eq in Eab.
    inversion H; subst. exists tos, t, u, (ILit w da la), (ILit w db lb).
    repeat split; try assumption.
  - destruct (nthN (c_subs c) k') as [d |] eqn:Hd; [| discriminate].
    destruct (sub_accepts d a) eqn:Ea; [| discriminate].
    inversion H; subst. exists tos, t, u, (ILit w da la), (ISub k' lk').
    repeat split; try assumption. cbn [matches_item]. exists d. split; [assumption |].
    apply sub_accepts_spec. assumption.
  - destruct (nthN (c_subs c) k) as [d |] eqn:Hd; [| discriminate].
    destruct (sub_accepts d b) eqn:Ea; [| discriminate].
    inversion H; subst. exists tos, t, u, (ISub k lk), (ILit w db lb).
    repeat split; try assumption. cbn [matches_item]. exists d. split; [assumption |].
    apply sub_accepts_spec. assumption.
  - destruct (nthN (c_subs c) k) as [d |] eqn:Hd; [| discriminate].
    destruct (nthN (c_subs c) k') as [d' |] eqn:Hd'; [| discriminate].
    destruct (subs_disjoint d d'); [discriminate |].
    inversion H as [[Es Ei Ej Ew]]. subst.
    unfold subs_common in Ew.
    apply (common_word_sound N N (dnext d) (dnext d') (dfinal d) (dfinal d') N.eqb N.eqb) in Ew.
    destruct Ew as [W1 W2].
    exists tos, t, u, (ISub k lk), (ISub k' lk').
    repeat split; try assumption; cbn [matches_item]; eexists; split; eassumption.
Qed.
