(** C16, meaning level, for the --regex file: in a file made only of labelled node statements,
    edges, attribute assignments and subgraphs (no default-attribute statements), when a node name
    determines its label, every node statement [ID[label=L]] -- at any depth -- yields a node ID with
    label L in the graph, and the nodes stated inside a top-level subgraph are members of it. *)
From CG Require Import Base.Prelude Model.Dfa Spec.DotRead Spec.DotSpec Proofs.DotSem Proofs.DotStates.
Local Open Scope string_scope.

(** ** Induction on nested statements *)
Section StmtInd.
  Variable P : stmt -> Prop.
  Hypothesis Hattr : forall k a, P (SAttr k a).
  Hypothesis Hnode : forall i a, P (SNode i a).
  Hypothesis Hedge : forall l a, P (SEdge l a).
  Hypothesis Hassign : forall k v, P (SAssign k v).
  Hypothesis Hsub : forall name body, Forall P body -> P (SSub name body).
  Fixpoint stmt_ind2 (s : stmt) : P s :=
    match s with
    | SAttr k a => Hattr k a
    | SNode i a => Hnode i a
    | SEdge l a => Hedge l a
    | SAssign k v => Hassign k v
    | SSub name body =>
        Hsub name body
          ((fix go (l : list stmt) : Forall P l :=
              match l with
              | [] => Forall_nil _
              | x :: r => Forall_cons _ (stmt_ind2 x) (go r)
              end) body)
    end.
End StmtInd.

(** the statements allowed, and the (name, label) pairs they state *)
Inductive simple : stmt -> Prop :=
| simple_node i L : simple (SNode i [("label", L)])
| simple_edge l a : simple (SEdge l a)
| simple_assign k v : simple (SAssign k v)
| simple_sub name body : Forall simple body -> simple (SSub name body).

Fixpoint stated (s : stmt) : list (string * string) :=
  match s with
  | SNode i [(_, L)] => [(i, L)]
  | SSub _ body => flat_map stated body
  | _ => []
  end.
Definition stated_all (l : list stmt) : list (string * string) := flat_map stated l.

Lemma add_members_in new : forall l j, In j new \/ In j l -> In j (add_members new l).
Proof.
  unfold add_members. induction new as [|x r IH]; intros l j H; cbn [fold_left].
  - destruct H as [[]|H]; exact H.
  - apply IH. destruct H as [[<-|H]|H].
    + right. unfold add_member. destruct (mem_str x l) eqn:E; [now apply mem_str_In|apply in_or_app; right; now left].
    + now left.
    + right. unfold add_member. destruct (mem_str x l); [exact H|apply in_or_app; now left].
Qed.

Section Labels.
  Variable ALL : list (string * string).
  Hypothesis ALL_fun : forall i L L', In (i, L) ALL -> In (i, L') ALL -> L = L'.

  Definition lab (n : gnode) : option string := assoc "label" (gn_attrs n).

  Definition good (o : objs) : Prop :=
    NoDup (ids (o_nodes o))
    /\ forall n L, In n (o_nodes o) -> lab n = Some L -> In (gn_id n, L) ALL.

  Definition has (o : objs) (i L : string) : Prop :=
    exists n, In n (o_nodes o) /\ gn_id n = i /\ lab n = Some L.

  (** what one statement (or a list) keeps true *)
  Definition keeps (st st' : objs * scope) : Prop :=
    good (fst st') /\ s_ndef (snd st') = []
    /\ (forall j L, has (fst st) j L -> has (fst st') j L)
    /\ (forall j, In j (s_members (snd st)) -> In j (s_members (snd st')))
    /\ (exists extra, s_subs (snd st') = s_subs (snd st) ++ extra)%list.

  Lemma keeps_refl st : good (fst st) -> s_ndef (snd st) = [] -> keeps st st.
  Proof. intros Hg Hd. repeat split; auto; try apply Hg. exists []. now rewrite app_nil_r. Qed.

  Lemma keeps_trans a b c : keeps a b -> keeps b c -> keeps a c.
  Proof.
    intros [_ [_ [H1 [M1 [e1 S1]]]]] [Hg [Hd [H2 [M2 [e2 S2]]]]]. repeat split; auto; try apply Hg.
    exists (e1 ++ e2)%list. now rewrite S2, S1, app_assoc.
  Qed.

  Lemma touch_keeps i st :
    s_ndef (snd st) = [] -> good (fst st) ->
    keeps st (touch i st) /\ In i (ids (o_nodes (fst (touch i st)))) /\ In i (s_members (snd (touch i st))).
  Proof.
    destruct st as [o sc]. cbn [fst snd]. intros Hd [Hnd Hg]. unfold touch, keeps. rewrite has_node_ids.
    cbn [fst snd s_ndef s_edef s_members s_subs].
    assert (Hm : In i (add_member i (s_members sc))
                 /\ forall j, In j (s_members sc) -> In j (add_member i (s_members sc))).
    { unfold add_member. destruct (mem_str i (s_members sc)) eqn:E.
      - split; [now apply mem_str_In|auto].
      - split; [apply in_or_app; right; now left|intros; apply in_or_app; now left]. }
    assert (Hx : exists extra, s_subs sc = (s_subs sc ++ extra)%list) by (exists []; now rewrite app_nil_r).
    destruct (mem_str i (ids (o_nodes o))) eqn:E.
    - refine (conj (conj (conj Hnd Hg) (conj Hd (conj _ (conj _ Hx)))) (conj _ _)).
      + auto.
      + exact (proj2 Hm).
      + now apply mem_str_In.
      + exact (proj1 Hm).
    - cbn [o_nodes]. assert (Hni : ~ In i (ids (o_nodes o))).
      { intro H. apply mem_str_In in H. congruence. }
      refine (conj (conj (conj _ _) (conj Hd (conj _ (conj _ Hx)))) (conj _ _)).
      + cbn [o_nodes]. rewrite ids_app. apply NoDup_app_intro; [exact Hnd|constructor; [intros []|constructor]|].
        intros x Hx' [<-|[]]. contradiction.
      + cbn [o_nodes]. intros n L Hn Hl. apply in_app_or in Hn as [Hn|[<-|[]]]; [now apply Hg|].
        unfold lab in Hl. cbn in Hl. rewrite Hd in Hl. discriminate.
      + unfold has. cbn [o_nodes]. intros j L [n [Hn [Hi Hl]]]. exists n. split; [apply in_or_app; now left|now split].
      + exact (proj2 Hm).
      + rewrite ids_app. apply in_or_app. right. now left.
      + exact (proj1 Hm).
  Qed.

  (** setting the label of an existing node *)
  Lemma assoc_set_attr_same k v a : assoc k (set_attr k v a) = Some v.
  Proof.
    induction a as [|[k' v'] r IH]; cbn; [now rewrite String.eqb_refl|].
    destruct (String.eqb k k') eqn:E; cbn; [now rewrite String.eqb_refl|]. now rewrite E.
  Qed.

  Lemma update_label i L ns :
    NoDup (ids ns) -> In i (ids ns) ->
    ids (update_node i [("label", L)] ns) = ids ns
    /\ (exists n, In n (update_node i [("label", L)] ns) /\ gn_id n = i /\ lab n = Some L)
    /\ (forall n, In n (update_node i [("label", L)] ns) -> gn_id n <> i -> In n ns)
    /\ (forall n, In n ns -> gn_id n <> i -> In n (update_node i [("label", L)] ns))
    /\ (forall n, In n (update_node i [("label", L)] ns) -> gn_id n = i -> lab n = Some L).
  Proof.
    induction ns as [|m r IH]; intros Hnd Hin; [destruct Hin|]. cbn [update_node].
    inversion Hnd as [|? ? Hm Hr]; subst.
    destruct (String.eqb i (gn_id m)) eqn:E.
    - apply String.eqb_eq in E. subst i. cbn [ids map gn_id]. split; [reflexivity|].
      assert (Hl : lab (mkgnode (gn_id m) (set_attrs [("label", L)] (gn_attrs m))) = Some L).
      { unfold lab. cbn. apply assoc_set_attr_same. }
      split; [eexists; split; [now left|split; [reflexivity|exact Hl]]|].
      split; [intros n [<-|Hn] Hne; [now elim Hne|now right]|].
      split; [intros n [->|Hn] Hne; [now elim Hne|now right]|].
      intros n [<-|Hn] Hi; [exact Hl|]. elim Hm. rewrite <- Hi. now apply in_map.
    - assert (Hin' : In i (ids r)).
      { destruct Hin as [Hin|Hin]; [|exact Hin]. cbn in Hin. subst i. now rewrite String.eqb_refl in E. }
      destruct (IH Hr Hin') as [A [[n [Bn [Bi Bl]]] [C [D F]]]]. cbn [ids map]. fold (ids (update_node i [("label", L)] r)).
      rewrite A. split; [reflexivity|]. split; [exists n; split; [now right|now split]|].
      split; [intros x [<-|Hx] Hne; [now left|right; now apply C]|].
      split; [intros x [<-|Hx] Hne; [now left|right; now apply D]|].
      intros x [<-|Hx] Hi; [|now apply F]. symmetry in Hi. apply String.eqb_eq in Hi. congruence.
  Qed.

  Lemma node_keeps i L st :
    s_ndef (snd st) = [] -> good (fst st) -> In (i, L) ALL ->
    let st' := run_stmt (SNode i [("label", L)]) st in
    keeps st st' /\ has (fst st') i L /\ In i (s_members (snd st')).
  Proof.
    intros Hd Hg Hall. cbn zeta. cbn [run_stmt].
    destruct (touch_keeps i st Hd Hg) as [[Hg1 [Hd1 [Hh1 [Hm1 Hs1]]]] [Hin Hmem]].
    destruct (touch i st) as [o1 sc1] eqn:Et. cbn [fst snd] in *.
    destruct Hg1 as [Hnd1 Hall1].
    destruct (update_label i L (o_nodes o1) Hnd1 Hin) as [A [[n [Bn [Bi Bl]]] [C [D F]]]].
    split; [|split; [exists n; now repeat split|exact Hmem]].
    unfold keeps. cbn [fst snd o_nodes].
    refine (conj (conj _ _) (conj Hd1 (conj _ (conj Hm1 Hs1)))).
    - cbn [o_nodes]. now rewrite A.
    - cbn [o_nodes]. intros x Lx Hx Hl. destruct (String.eqb (gn_id x) i) eqn:E.
      + apply String.eqb_eq in E. rewrite (F x Hx E) in Hl. injection Hl as <-. now rewrite E.
      + apply String.eqb_neq in E. apply Hall1; [now apply C|exact Hl].
    - unfold has. cbn [o_nodes]. intros j Lj Hj. destruct (Hh1 j Lj Hj) as [x [Hx [Hi Hl]]].
      destruct (String.eqb j i) eqn:E.
      + apply String.eqb_eq in E. exists n. split; [exact Bn|]. split; [now rewrite E|].
        rewrite Bl. f_equal. apply (ALL_fun i); [exact Hall|]. rewrite <- E, <- Hi. now apply Hall1.
      + apply String.eqb_neq in E. exists x. split; [apply D; [exact Hx|congruence]|now split].
  Qed.

  Lemma edge_keeps l a st : s_ndef (snd st) = [] -> good (fst st) -> keeps st (run_stmt (SEdge l a) st).
  Proof.
    intros Hd Hg. cbn [run_stmt].
    assert (H : keeps st (fold_left (fun acc i => touch i acc) l st)).
    { revert st Hd Hg. induction l as [|i r IH]; intros st Hd Hg; [now apply keeps_refl|]. cbn [fold_left].
      destruct (touch_keeps i st Hd Hg) as [Hk _]. eapply keeps_trans; [exact Hk|].
      apply IH; [apply Hk|apply Hk]. }
    destruct (fold_left (fun acc i => touch i acc) l st) as [o1 sc1]. destruct H as [Hg1 [Hd1 [Hh1 [Hm1 Hs1]]]].
    unfold keeps. cbn [fst snd] in *. repeat split; auto; apply Hg1.
  Qed.

  Lemma assign_keeps k v st : s_ndef (snd st) = [] -> good (fst st) -> keeps st (run_stmt (SAssign k v) st).
  Proof.
    destruct st as [o sc]. cbn [fst snd run_stmt]. intros Hd Hg. unfold keeps. cbn [fst snd s_ndef s_members s_subs].
    repeat split; auto; try apply Hg. exists []. now rewrite app_nil_r.
  Qed.

  (** the statement-level invariant, with what each statement adds *)
  Definition step_ok (s : stmt) : Prop :=
    forall st, s_ndef (snd st) = [] -> good (fst st) ->
      let st' := run_stmt s st in
      keeps st st'
      /\ (forall i L, In (i, L) (stated s) -> has (fst st') i L /\ In i (s_members (snd st')))
      /\ (forall name body, s = SSub (Some name) body ->
                            forall i L, In (i, L) (stated s) -> in_cluster name i (s_subs (snd st')) = true).

  Lemma list_ok l : Forall step_ok l -> forall st, s_ndef (snd st) = [] -> good (fst st) ->
    let st' := run_stmts l st in
    keeps st st'
    /\ (forall i L, In (i, L) (stated_all l) -> has (fst st') i L /\ In i (s_members (snd st')))
    /\ (forall name body, In (SSub (Some name) body) l ->
                          forall i L, In (i, L) (stated_all body) -> in_cluster name i (s_subs (snd st')) = true).
  Proof.
    induction 1 as [|s r Hs Hr IH]; intros st Hd Hg; cbn zeta.
    - split; [now apply keeps_refl|]. split; [intros ? ? []|intros ? ? []].
    - rewrite run_stmts_cons. destruct (Hs st Hd Hg) as [Hk [Hst Hcl]]. cbn zeta in *.
      destruct (IH (run_stmt s st)) as [Hk2 [Hst2 Hcl2]]; [apply Hk|apply Hk|]. cbn zeta in *.
      split; [eapply keeps_trans; eassumption|]. split.
      + intros i L Hin. cbn [stated_all flat_map] in Hin. apply in_app_or in Hin as [Hin|Hin]; [|now apply Hst2].
        destruct (Hst i L Hin) as [A B]. destruct Hk2 as [_ [_ [Hh [Hm _]]]]. split; [now apply Hh|now apply Hm].
      + intros name body [->|Hin] i L Hi; [|exact (Hcl2 name body Hin i L Hi)].
        specialize (Hcl name body eq_refl i L Hi). destruct Hk2 as [_ [_ [_ [_ [extra He]]]]]. rewrite He.
        unfold in_cluster in *. rewrite existsb_app, Hcl. reflexivity.
  Qed.

  Lemma simple_step_ok s : simple s -> (forall p, In p (stated s) -> In p ALL) -> step_ok s.
  Proof.
    induction s as [k a|i a|l a|k v|name body IH] using stmt_ind2; intros Hs Hall st Hd Hg; cbn zeta.
    - inversion Hs.
    - inversion Hs as [i' L| | |]; subst.
      destruct (node_keeps i L st Hd Hg (Hall _ (or_introl eq_refl))) as [Hk [Hh Hm]]. cbn zeta in *.
      split; [exact Hk|]. split; [|intros ? ? E; discriminate E].
      intros j Lj [E|[]]. injection E as <- <-. now split.
    - split; [now apply edge_keeps|]. split; [intros ? ? []|intros ? ? E; discriminate E].
    - split; [now apply assign_keeps|]. split; [intros ? ? []|intros ? ? E; discriminate E].
    - inversion Hs as [| | |n b Hb]; subst. destruct st as [o sc]. cbn [fst snd] in Hd, Hg. rewrite run_sub.
      assert (Hbody : Forall step_ok body).
      { apply Forall_forall. intros x Hx. rewrite Forall_forall in IH, Hb. apply IH; [exact Hx|now apply Hb|].
        intros p Hp. apply Hall. cbn [stated]. apply in_flat_map. now exists x. }
      destruct (list_ok body Hbody (o, mkscope (s_ndef sc) (s_edef sc) [] [] [])) as [Hk [Hst _]];
        [exact Hd|exact Hg|]. cbn zeta in *.
      destruct (run_stmts body (o, mkscope (s_ndef sc) (s_edef sc) [] [] [])) as [o' inner] eqn:Er.
      cbn [fst snd] in *. destruct Hk as [Hg' [Hd' [Hh' [Hm' Hs']]]]. cbn [s_ndef s_members s_subs] in *.
      pose proof (add_members_in (s_members inner) (s_members sc)) as Hadd.
      split; [|split].
      + unfold keeps. cbn [fst snd s_ndef s_members s_subs]. repeat split; auto; try apply Hg'.
        eexists. reflexivity.
      + intros i L Hin. destruct (Hst i L Hin) as [A B]. split; [exact A|]. apply Hadd. now left.
      + intros nm bd E i L Hin. injection E as -> <-. cbn [s_subs]. unfold in_cluster. rewrite existsb_app. cbn [existsb].
        rewrite String.eqb_refl. destruct (Hst i L Hin) as [_ B]. rewrite (mem_str_in _ _ B). cbn. apply orb_true_r.
  Qed.
End Labels.

(** ** The whole file *)
Theorem labels_kept (ss : list stmt) strict name :
  Forall simple ss ->
  (forall i L L', In (i, L) (stated_all ss) -> In (i, L') (stated_all ss) -> L = L') ->
  let g := graph_of_ast (mkast strict true name ss) in
  (forall i L, In (i, L) (stated_all ss) ->
               exists n, In n (g_nodes g) /\ gn_id n = i /\ assoc "label" (gn_attrs n) = Some L)
  /\ (forall cname body i L, In (SSub (Some cname) body) ss -> In (i, L) (stated_all body) ->
                             in_cluster cname i (g_subs g) = true).
Proof.
  intros Hs Hfun. cbn zeta. unfold graph_of_ast. cbn [a_body a_strict a_directed a_name].
  assert (Hok : Forall (step_ok (stated_all ss)) ss).
  { apply Forall_forall. intros s Hin. apply simple_step_ok; [exact Hfun|rewrite Forall_forall in Hs; now apply Hs|].
    intros p Hp. unfold stated_all. apply in_flat_map. now exists s. }
  destruct (list_ok (stated_all ss) ss Hok (mkobjs [] [], mkscope [] [] [] [] [])) as [Hk [Hst Hcl]].
  - reflexivity.
  - split; [constructor|intros ? ? []].
  - cbn zeta in *. destruct (run_stmts ss (mkobjs [] [], mkscope [] [] [] [] [])) as [o sc]. cbn [fst snd] in *.
    cbn [g_nodes g_subs]. split.
    + intros i L Hin. exact (proj1 (Hst i L Hin)).
    + intros cname body i L Hin Hi. exact (Hcl cname body Hin i L Hi).
Qed.
