(** Shared definitions for the C02 proofs: the language of a regex tree over positions, the shape
    of the trees [do_from_expr] builds, and the "local" (Glushkov) description of a position word
    by the tables [firstpos] / [followpos]. *)
From CG Require Import Base.Prelude Model.Ast Model.Regex.

(** The language of a tree, over positions.  The end marker is an ordinary symbol here. *)
Inductive Lrx : rx -> list N -> Prop :=
| LX_eps : Lrx XEps []
| LX_pos k p : Lrx (XPos k p) [p]
| LX_cat_nil : Lrx (XCat []) []
| LX_cat_cons c cs u v : Lrx c u -> Lrx (XCat cs) v -> Lrx (XCat (c :: cs)) (u ++ v)
| LX_or c cs u : In c cs -> Lrx c u -> Lrx (XOr cs) u
| LX_star_nil c : Lrx (XStar c) []
| LX_star_cons c u v : Lrx c u -> Lrx (XStar c) v -> Lrx (XStar c) (u ++ v).

Fixpoint positions (r : rx) : list N :=
  match r with
  | XEps => []
  | XPos _ p => [p]
  | XCat cs | XOr cs => flat_map positions cs
  | XStar c => positions c
  end.

Definition disjoint (xs ys : list N) : Prop := forall x, In x xs -> In x ys -> False.

(** Children occupy pairwise disjoint position sets. *)
Fixpoint pairwise_disjoint (l : list (list N)) : Prop :=
  match l with
  | [] => True
  | x :: r => Forall (disjoint x) r /\ pairwise_disjoint r
  end.

(** The trees [do_from_expr] builds (below the root): no end marker, every leaf occurrence has its
    own position, except that [Many1 x] is [Cat [x; Star x]] with the *same* [x] twice. *)
Inductive shape : rx -> Prop :=
| Sh_eps : shape XEps
| Sh_pos k p : k <> KEnd -> shape (XPos k p)
| Sh_cat cs : Forall shape cs -> pairwise_disjoint (map positions cs) -> shape (XCat cs)
| Sh_or cs : Forall shape cs -> pairwise_disjoint (map positions cs) -> shape (XOr cs)
| Sh_many c : shape c -> shape (XCat [c; XStar c]).

(** [a :: w] is a chain of [F]-edges. *)
Fixpoint chain (F : list (N * N)) (a : N) (w : list N) : Prop :=
  match w with
  | [] => True
  | b :: r => In (a, b) F /\ chain F b r
  end.

(** Local description of a position word by the tables of [root] (whose end marker is [e]): the
    head is in [firstpos], consecutive positions are [followpos] edges, and the end marker follows
    the last position.  The empty word: the end marker is in [firstpos]. *)
Definition glushkov_word (root : rx) (e : N) (w : list N) : Prop :=
  match w with
  | [] => In e (firstpos root)
  | a :: r => In a (firstpos root) /\ chain (followpos root) a r /\
              In (last r a, e) (followpos root)
  end.

(** The root [Regex::from_expr] builds around a tree. *)
Definition with_end (t : rx) (e : N) : rx := XCat [t; XPos KEnd e].

(** Statement of L-glushkov (proved in Proofs/Glushkov.v). *)
Definition glushkov_statement : Prop :=
  forall t e, shape t -> ~ In e (positions t) ->
  forall w, Lrx t w <-> glushkov_word (with_end t e) e w.

(** Every [Or] below has at least one alternative (what the parser guarantees: [|] and [||] are
    binary operators).  Then every sub-tree has a non-empty language and every position is useful. *)
Fixpoint ors_nonempty (t : rx) : bool :=
  match t with
  | XEps | XPos _ _ => true
  | XCat cs => forallb ors_nonempty cs
  | XOr cs => match cs with [] => false | _ => forallb ors_nonempty cs end
  | XStar c => ors_nonempty c
  end.

(** Statement of "every position is useful" (proved in Proofs/Useful.v): in the tables of the root
    [with_end t e], [firstpos] is not empty, and from every position of [t] a chain of [followpos]
    edges leads to a position that the end marker follows. *)
Definition useful_statement : Prop :=
  forall t e, shape t -> ors_nonempty t = true -> ~ In e (positions t) ->
    firstpos (with_end t e) <> [] /\
    forall p, In p (positions t) ->
      exists r, chain (followpos (with_end t e)) p r /\
                In (last r p, e) (followpos (with_end t e)).
