(** C04, PowerShell: every printer of a data statement in [Model/EmitData.P] is read back by the
    statement reader of [Spec/ScriptRead.v] (hashtable literals [@{k=v;...}], array literals [@(a, b)],
    zero-based ids, string constants by C07's PowerShell reader -- for the texts without a smart double
    quote, the class of the known finding of C07). *)
From Coq Require Import DecimalString DecimalN DecimalPos DecimalFacts.
From CG Require Import Base.Prelude Model.Ast Model.Dfa Model.Tpl Model.Quote Model.Tables Model.EmitBash Model.EmitData
     Spec.ShellDQ Spec.ScriptRead Proofs.QuoteRT Proofs.BashCodec Proofs.BashScript Proofs.ScriptGen Proofs.ZshCodec.
From CGgen Require Import Consts TplPwsh.
Open Scope N_scope.
Open Scope list_scope.

Definition vname (v : string) : Prop := v <> EmptyString /\ forallb is_name_char (list_ascii_of_string v) = true.

Lemma vname_app_sN v k : vname v -> vname (append v (sN k)).
Proof.
  intros [Hne Hv]. split; [destruct v; [congruence | discriminate]|]. apply name_chars_app; [exact Hv | apply name_chars_sN].
Qed.

(** the common head of the statements about a variable: [    $VAR] followed by a non-name character *)
Lemma pw_head {A} var c r (f : string -> parser A) :
  vname var -> is_name_char c = false ->
  (let* _ := lit "    $" in let* v := name in f v) (append "    $" (append var (String c r))) = f var (String c r).
Proof.
  intros [Hne Hv] Hc. rewrite pbind_lit. rewrite (pbind_some _ _ _ _ _ (name_read var c r Hne Hv Hc)). reflexivity.
Qed.

(** ** leaves *)
Lemma lit_digit_none a p c s : is_digit a = false -> is_digit c = true -> lit (String a p) (String c s) = None.
Proof.
  intros Ha Hc. unfold lit. cbn [strip]. destruct (Ascii.eqb_spec a c) as [->|]; [congruence | reflexivity].
Qed.

Lemma lit_pre_digit_none pre a p c s :
  is_digit a = false -> is_digit c = true -> lit (append pre (String a p)) (append pre (String c s)) = None.
Proof.
  intros Ha Hc. unfold lit. rewrite strip_app_both. cbn [strip]. destruct (Ascii.eqb_spec a c) as [->|]; [congruence | reflexivity].
Qed.

Lemma sN_digit n : exists c s, sN n = String c s /\ is_digit c = true.
Proof.
  destruct (sN_nonempty n) as [c [s' E]]. exists c, s'. split; [exact E|].
  Transparent sN. unfold sN in E. destruct (N.to_uint n); cbn in E; inversion E; reflexivity. Opaque sN.
Qed.

Lemma eq_pair_pkv p r : no_digit_head r -> eq_pair (append (P.pkv p) r) = Some (p, r).
Proof.
  intros Hr. destruct p as [k v]. unfold eq_pair, P.pkv, pbind, pret. cbn [fst snd]. rewrite !append_assoc.
  rewrite nat10_sN by reflexivity. rewrite lit_app. rewrite nat10_sN by exact Hr. reflexivity.
Qed.

Lemma pkv_list l r :
  starts_with "}"%char r -> sep_by eq_pair ";" (append (join ";" (map P.pkv l)) r) = Some (l, r).
Proof.
  intros Hr. apply (sep_by_join eq_pair P.pkv ";" (starts_with "}"%char)).
  - intros a r0 [H|[a' [r' ->]]]; apply eq_pair_pkv.
    + destruct H as [r' ->]. reflexivity.
    + reflexivity.
  - intros r0 [r' ->]. reflexivity.
  - intros r0 [r' ->]. reflexivity.
  - discriminate.
  - exact Hr.
Qed.

Lemma comma_list l r :
  starts_with ")"%char r -> sep_by nat10 "," (append (join "," (map sN l)) r) = Some (l, r).
Proof.
  intros Hr. apply (sep_by_join nat10 sN "," (starts_with ")"%char)).
  - intros a r0 [H|[a' [r' ->]]]; apply nat10_sN.
    + destruct H as [r' ->]. reflexivity.
    + reflexivity.
  - intros r0 [r' ->]. reflexivity.
  - intros r0 [r' ->]. apply nat10_not_digit. reflexivity.
  - discriminate.
  - exact Hr.
Qed.

Lemma eq_cell_cell c r : eq_cell (append (P.cell c) r) = Some (c, r).
Proof.
  destruct c as [k ids]. unfold eq_cell, P.cell, pbind, pret. cbn [fst snd]. rewrite !append_assoc.
  rewrite nat10_sN by reflexivity. rewrite lit_app. rewrite comma_list by (eexists; reflexivity).
  rewrite lit_app. reflexivity.
Qed.

Lemma cell_list l r :
  starts_with "}"%char r -> sep_by eq_cell "; " (append (join "; " (map P.cell l)) r) = Some (l, r).
Proof.
  intros Hr. apply (sep_by_join eq_cell P.cell "; " (starts_with "}"%char)).
  - intros a r0 _. apply eq_cell_cell.
  - intros r0 [r' ->]. reflexivity.
  - intros r0 [r' ->]. reflexivity.
  - discriminate.
  - exact Hr.
Qed.

(** a pair list is no cell list *)
Lemma eq_cell_on_pkv p r : eq_cell (append (P.pkv p) r) = None.
Proof.
  destruct p as [k v]. unfold eq_cell, P.pkv, pbind. cbn [fst snd]. rewrite !append_assoc.
  rewrite nat10_sN by reflexivity.
  destruct (sN_nonempty v) as [c [s' E]].
  assert (Hd : is_digit c = true).
  { Transparent sN. unfold sN in E. destruct (N.to_uint v); cbn in E; inversion E; reflexivity. Opaque sN. }
  rewrite E. unfold lit. cbn [append strip]. rewrite Ascii.eqb_refl. cbn [strip].
  destruct (Ascii.eqb_spec "@"%char c) as [<-|Hne]; [discriminate Hd | reflexivity].
Qed.

(** string constants *)
Lemma pwsh_rt s rest :
  smart_free s = true -> safe Pwsh rest = true -> read Pwsh (append (make_string_constant Pwsh s) rest) = Some (s, rest).
Proof. apply pwsh_roundtrip_exact. Qed.

Lemma pwsh_dq_list texts r :
  Forall (fun s => smart_free s = true) texts -> starts_with ")"%char r ->
  sep_by (dq Pwsh) ", " (append (join ", " (map (make_string_constant Pwsh) texts)) r) = Some (texts, r).
Proof.
  intros Ht [r' ->]. apply (dq_listG Pwsh (fun s => smart_free s = true) pwsh_rt ", "); try reflexivity; [discriminate | exact Ht].
Qed.

(** ** statements *)
Definition plits_line (texts : list string) : string :=
  append "    $literals = @(" (append (join ", " (map (make_string_constant Pwsh) texts)) (append ")" nl)).

Lemma pwsh_literals_stmt texts rest :
  Forall (fun s => smart_free s = true) texts ->
  pwsh_stmt (append (plits_line texts) rest) = Some (SLits "literals" texts, rest).
Proof.
  intros Ht. unfold plits_line. rewrite !append_assoc. unfold pwsh_stmt.
  apply alt_take.
  erewrite pbind_lit' by reflexivity. erewrite pbind_some by name_concrete.
  erewrite pbind_lit' by reflexivity.
  erewrite pbind_some by (apply pwsh_dq_list; [exact Ht | eexists; reflexivity]).
  erewrite pbind_lit' by reflexivity. rewrite (pbind_some _ _ _ _ _ (eol_nl rest)). reflexivity.
Qed.

Definition prow_line (var : string) (s : N) (row : list (N * N)) : string :=
  append "    $" (append var (append "[" (append (sN s) (append "] = @{" (append (join ";" (map P.pkv row)) (append "}" nl)))))).

Lemma pwsh_row_stmt var s row rest :
  vname var -> pwsh_stmt (append (prow_line var s row) rest) = Some (SRow var s row, rest).
Proof.
  intros Hv. unfold prow_line. rewrite !append_assoc. unfold pwsh_stmt.
  change ("[" ++ sN s ++ "] = @{" ++ join ";" (map P.pkv row) ++ "}" ++ nl ++ rest)%string
    with (String "[" (sN s ++ "] = @{" ++ join ";" (map P.pkv row) ++ "}" ++ nl ++ rest))%string.
  rewrite alt_skip by (rewrite (pw_head var "["%char _ _ Hv eq_refl); reflexivity).
  apply alt_take. rewrite (pw_head var "["%char _ _ Hv eq_refl).
  erewrite pbind_lit' by reflexivity.
  erewrite pbind_some by (apply nat10_sN; reflexivity).
  erewrite pbind_lit' by reflexivity.
  erewrite pbind_some by (apply pkv_list; eexists; reflexivity).
  erewrite pbind_lit' by reflexivity. rewrite (pbind_some _ _ _ _ _ (eol_nl rest)). reflexivity.
Qed.

(** $X = @{k=v;k=v}  (also the empty table @{}) *)
Definition ppairs_line (var : string) (l : list (N * N)) : string :=
  append "    $" (append var (append " = @{" (append (join ";" (map P.pkv l)) (append "}" nl)))).

Lemma pwsh_pairs_stmt var l rest :
  vname var ->
  pwsh_stmt (append (ppairs_line var l) rest) = Some (SAssoc var (map (fun p => (fst p, [snd p])) l), rest).
Proof.
  intros Hv. unfold ppairs_line. rewrite !append_assoc. unfold pwsh_stmt.
  change (" = @{" ++ join ";" (map P.pkv l) ++ "}" ++ nl ++ rest)%string
    with (String " " ("= @{" ++ join ";" (map P.pkv l) ++ "}" ++ nl ++ rest))%string.
  rewrite alt_skip by (rewrite (pw_head var " "%char _ _ Hv eq_refl); reflexivity).
  rewrite alt_skip by (rewrite (pw_head var " "%char _ _ Hv eq_refl); reflexivity).
  apply alt_take. rewrite (pw_head var " "%char _ _ Hv eq_refl).
  erewrite pbind_lit' by reflexivity.
  destruct l as [|p l].
  - Transparent join. reflexivity. Opaque join.
  - assert (Hd : exists c s', (join ";" (map P.pkv (p :: l)) ++ "}" ++ nl ++ rest)%string = String c s' /\ is_digit c = true).
    { destruct p as [k v]. destruct (sN_nonempty k) as [c [s' E]].
      assert (Hc : is_digit c = true).
      { Transparent sN. unfold sN in E. destruct (N.to_uint k); cbn in E; inversion E; reflexivity. Opaque sN. }
      Transparent join. destruct l; cbn [map join]; unfold P.pkv at 1; cbn [fst snd]; rewrite E; cbn [append]; eauto. Opaque join. }
    destruct Hd as [c [s' [E Hc]]].
    rewrite alt_skip.
    2:{ rewrite E. unfold eol, pbind. unfold nl. (erewrite lit_digit_none; [|reflexivity|exact Hc]). reflexivity. }
    rewrite alt_skip.
    2:{ rewrite E. unfold pbind. (erewrite lit_digit_none; [|reflexivity|exact Hc]). reflexivity. }
    rewrite alt_skip.
    2:{ unfold pbind, sep_by.
        assert (Ec : eq_cell (join ";" (map P.pkv (p :: l)) ++ "}" ++ nl ++ rest)%string = None).
        { Transparent join. destruct l as [|q l]; cbn [map join]; [|rewrite append_assoc]; apply eq_cell_on_pkv. }
        Opaque join. rewrite Ec. rewrite E. (erewrite lit_digit_none; [|reflexivity|exact Hc]). reflexivity. }
    erewrite pbind_some by (apply pkv_list; eexists; reflexivity).
    erewrite pbind_lit' by reflexivity. rewrite (pbind_some _ _ _ _ _ (eol_nl rest)). reflexivity.
Qed.

(** $X_level_K = @{s=@(l,l); s=@(l)} *)
Definition plevel_line (var : string) (k : N) (rows : list (N * list N)) : string :=
  append "    $" (append var (append (sN k) (append " = @{" (append (join "; " (map P.cell rows)) (append "}" nl))))).

Lemma pwsh_level_stmt var k rows rest :
  vname var -> pwsh_stmt (append (plevel_line var k rows) rest) = Some (SAssoc (append var (sN k)) rows, rest).
Proof.
  intros Hv0. pose proof (vname_app_sN var k Hv0) as Hv. unfold plevel_line.
  rewrite !append_assoc. rewrite <- (append_assoc var (sN k)). unfold pwsh_stmt.
  change (" = @{" ++ join "; " (map P.cell rows) ++ "}" ++ nl ++ rest)%string
    with (String " " ("= @{" ++ join "; " (map P.cell rows) ++ "}" ++ nl ++ rest))%string.
  rewrite alt_skip by (rewrite (pw_head _ " "%char _ _ Hv eq_refl); reflexivity).
  rewrite alt_skip by (rewrite (pw_head _ " "%char _ _ Hv eq_refl); reflexivity).
  apply alt_take. rewrite (pw_head _ " "%char _ _ Hv eq_refl).
  erewrite pbind_lit' by reflexivity.
  destruct rows as [|p rows].
  - Transparent join. reflexivity. Opaque join.
  - assert (Hd : exists c s', (join "; " (map P.cell (p :: rows)) ++ "}" ++ nl ++ rest)%string = String c s' /\ is_digit c = true).
    { destruct p as [s ids]. destruct (sN_nonempty s) as [c [s' E]].
      assert (Hc : is_digit c = true).
      { Transparent sN. unfold sN in E. destruct (N.to_uint s); cbn in E; inversion E; reflexivity. Opaque sN. }
      Transparent join. destruct rows; cbn [map join]; unfold P.cell at 1; cbn [fst snd]; rewrite E; cbn [append]; eauto. Opaque join. }
    destruct Hd as [c [s' [E Hc]]].
    rewrite alt_skip.
    2:{ rewrite E. unfold eol, pbind. unfold nl. (erewrite lit_digit_none; [|reflexivity|exact Hc]). reflexivity. }
    rewrite alt_skip.
    2:{ rewrite E. unfold pbind. (erewrite lit_digit_none; [|reflexivity|exact Hc]). reflexivity. }
    apply alt_take.
    erewrite pbind_some by (apply cell_list; eexists; reflexivity).
    erewrite pbind_lit' by reflexivity. rewrite (pbind_some _ _ _ _ _ (eol_nl rest)). reflexivity.
Qed.

(** $X = N *)
Definition pscalar_line (var : string) (n : N) : string :=
  append "    $" (append var (append " = " (append (sN n) nl))).

Lemma pwsh_scalar_stmt var n rest :
  vname var -> pwsh_stmt (append (pscalar_line var n) rest) = Some (SScalar var n, rest).
Proof.
  intros Hv. unfold pscalar_line. rewrite !append_assoc. unfold pwsh_stmt.
  destruct (sN_digit n) as [c [s' [E Hc]]].
  assert (L1 : forall X, lit " = @(" (String " " ("= " ++ sN n ++ X)) = None).
  { intros X. rewrite E. apply (lit_pre_digit_none " = " "@"%char "(" c _ eq_refl Hc). }
  assert (L2 : forall X, lit " = @{" (String " " ("= " ++ sN n ++ X)) = None).
  { intros X. rewrite E. apply (lit_pre_digit_none " = " "@"%char "{" c _ eq_refl Hc). }
  change (" = " ++ sN n ++ nl ++ rest)%string with (String " " ("= " ++ sN n ++ nl ++ rest))%string.
  rewrite alt_skip by (rewrite (pw_head var " "%char _ _ Hv eq_refl); unfold pbind; rewrite L1; reflexivity).
  rewrite alt_skip by (rewrite (pw_head var " "%char _ _ Hv eq_refl); reflexivity).
  rewrite alt_skip by (rewrite (pw_head var " "%char _ _ Hv eq_refl); unfold pbind; rewrite L2; reflexivity).
  rewrite alt_skip by reflexivity.
  apply alt_take. rewrite (pw_head var " "%char _ _ Hv eq_refl).
  erewrite pbind_lit' by reflexivity.
  erewrite pbind_some by (apply nat10_sN; reflexivity).
  rewrite (pbind_some _ _ _ _ _ (eol_nl rest)). reflexivity.
Qed.

(** the table of descriptions: opening line, one line per described literal, closing line *)
Definition pdescr_open : string := append "    $descriptions = @{" nl.

Lemma pwsh_descr_open_stmt rest : pwsh_stmt (append pdescr_open rest) = Some (SDecl "descriptions", rest).
Proof. reflexivity. Qed.

Definition pdescr_line (k : N) (d : string) : string :=
  append "        " (append (sN k) (append " = " (append (make_string_constant Pwsh d) (append ";" nl)))).

Lemma pwsh_descr_stmt k d rest :
  smart_free d = true -> pwsh_stmt (append (pdescr_line k d) rest) = Some (SStr "descriptions" k d, rest).
Proof.
  intros Hd. unfold pdescr_line. rewrite !append_assoc. unfold pwsh_stmt.
  do 3 (rewrite alt_skip by reflexivity).
  apply alt_take. erewrite pbind_lit' by reflexivity.
  erewrite pbind_some by (apply nat10_sN; reflexivity).
  erewrite pbind_lit' by reflexivity.
  unfold dq. erewrite pbind_some by (apply pwsh_rt; [exact Hd | reflexivity]).
  erewrite pbind_lit' by reflexivity. rewrite (pbind_some _ _ _ _ _ (eol_nl rest)). reflexivity.
Qed.

(** ** from the printers of [EmitData.P] to lines, from lines to statements *)
Notation readsP := (reads_asG Pwsh).

Ltac vn := split; [discriminate | reflexivity].

Definition prow_lines var m := map (fun row : N * list (N * N) => prow_line var (fst row) (snd row)) m.

Lemma preads_rows var m : vname var -> Forall2 readsP (prow_lines var m) (row_stmts var m).
Proof.
  intros Hv. apply Forall2_map_. intros [s row]. split; [discriminate|]. split; [exact I|].
  intros rest. apply pwsh_row_stmt. exact Hv.
Qed.

Lemma preads_pairs var l : vname var -> readsP (ppairs_line var l) (SAssoc var (map (fun p => (fst p, [snd p])) l)).
Proof. intros Hv. split; [discriminate|]. split; [exact I|]. intros rest. apply pwsh_pairs_stmt. exact Hv. Qed.

Lemma preads_scalar var n : vname var -> readsP (pscalar_line var n) (SScalar var n).
Proof. intros Hv. split; [discriminate|]. split; [exact I|]. intros rest. apply pwsh_scalar_stmt. exact Hv. Qed.

Definition plevel_lines var (levels : list (list (N * list N))) :=
  map (fun kl : N * list (N * list N) => plevel_line var (fst kl) (snd kl)) (number_from 0 levels).

Lemma preads_levels var levels : vname var -> Forall2 readsP (plevel_lines var levels) (level_stmts var levels).
Proof.
  intros Hv. apply Forall2_map_. intros [k rows]. split; [discriminate|]. split; [exact I|].
  intros rest. apply pwsh_level_stmt. exact Hv.
Qed.

(** *** match tables *)
Definition pmatch_lines (t : tables) : list string :=
  ppairs_line "literal_transitions" [] :: prow_lines "literal_transitions" (t_mlit t)
  ++ (match t_mcmd t with
      | Some m => ppairs_line "command_transitions" [] :: prow_lines "command_transitions" m
      | None => []
      end)
  ++ (match t_mstar t with Some l => [ppairs_line "star_transitions" l] | None => [] end).

Definition pmatch_stmts (t : tables) : list stmt :=
  SAssoc "literal_transitions" [] :: row_stmts "literal_transitions" (t_mlit t)
  ++ (match t_mcmd t with
      | Some m => SAssoc "command_transitions" [] :: row_stmts "command_transitions" m
      | None => []
      end)
  ++ (match t_mstar t with Some l => [SAssoc "star_transitions" (map (fun p => (fst p, [snd p])) l)] | None => [] end).

Lemma preads_match t : Forall2 readsP (pmatch_lines t) (pmatch_stmts t).
Proof.
  unfold pmatch_lines, pmatch_stmts. constructor; [apply (preads_pairs "literal_transitions" []); vn|].
  apply Forall2_app_; [apply preads_rows; vn|]. apply Forall2_app_.
  - destruct (t_mcmd t) as [m|]; [|constructor].
    constructor; [apply (preads_pairs "command_transitions" []); vn | apply preads_rows; vn].
  - destruct (t_mstar t) as [l|]; [|constructor]. constructor; [|constructor]. apply preads_pairs. vn.
Qed.

Lemma ptpl_decl_lit : fmtln write_matching_tables_0 [] = ppairs_line "literal_transitions" [].
Proof. reflexivity. Qed.
Lemma ptpl_decl_cmd : fmtln write_matching_tables_2 [] = ppairs_line "command_transitions" [].
Proof. reflexivity. Qed.
Lemma ptpl_row_lit a b :
  fmtln write_matching_tables_1 [("state", a); ("transitions", b)]
  = ("    $" ++ "literal_transitions" ++ "[" ++ a ++ "] = @{" ++ b ++ "}" ++ nl)%string.
Proof. tpl_eq. Qed.
Lemma ptpl_row_cmd a b :
  fmtln write_matching_tables_3 [("state", a); ("transitions", b)]
  = ("    $" ++ "command_transitions" ++ "[" ++ a ++ "] = @{" ++ b ++ "}" ++ nl)%string.
Proof. tpl_eq. Qed.
Lemma ptpl_star b :
  fmtln write_matching_tables_4 [("star_transitions", b)] = ("    $" ++ "star_transitions" ++ " = @{" ++ b ++ "}" ++ nl)%string.
Proof. tpl_eq. Qed.

Lemma prows_lines tpl var m :
  (forall a b, fmtln tpl [("state", a); ("transitions", b)]
               = ("    $" ++ var ++ "[" ++ a ++ "] = @{" ++ b ++ "}" ++ nl)%string) ->
  P.rows tpl m = sconcat (prow_lines var m).
Proof. intros H. unfold P.rows, prow_lines. apply sconcat_map_fmtln. intros [s row]. rewrite H. reflexivity. Qed.

Lemma pwrite_match_lines t : P.write_matching_tables t = sconcat (pmatch_lines t).
Proof.
  unfold P.write_matching_tables, pmatch_lines. cbn [sconcat]. rewrite ptpl_decl_lit. f_equal.
  rewrite sconcat_app. f_equal; [apply prows_lines; intros; apply ptpl_row_lit|].
  rewrite sconcat_app. f_equal.
  - destruct (t_mcmd t) as [m|]; [|reflexivity]. cbn [sconcat]. rewrite ptpl_decl_cmd. f_equal.
    apply prows_lines. intros. apply ptpl_row_cmd.
  - destruct (t_mstar t) as [l|]; [|reflexivity]. cbn [sconcat]. f_equal. apply ptpl_star.
Qed.

(** *** completion tables *)
Definition pcompletion_lines (t : tables) : list string :=
  plevel_lines "literal_transitions_level_" (t_clit t)
  ++ (match t_ccmd t with Some m => plevel_lines "commands_level_" m | None => [] end)
  ++ [pscalar_line "max_fallback_level" (t_maxlevel t)].

Lemma preads_completion t : Forall2 readsP (pcompletion_lines t) (completion_stmts t).
Proof.
  unfold pcompletion_lines, completion_stmts. apply Forall2_app_; [apply preads_levels; vn|]. apply Forall2_app_.
  - destruct (t_ccmd t); [apply preads_levels; vn | constructor].
  - constructor; [|constructor]. apply preads_scalar. vn.
Qed.

Lemma ptpl_level0 a b :
  fmtln write_completion_tables_0 [("level", a); ("initializer", b)]
  = ("    $" ++ "literal_transitions_level_" ++ a ++ " = @{" ++ b ++ "}" ++ nl)%string.
Proof. tpl_eq. Qed.
Lemma ptpl_level1 a b :
  fmtln write_completion_tables_1 [("level", a); ("initializer", b)]
  = ("    $" ++ "commands_level_" ++ a ++ " = @{" ++ b ++ "}" ++ nl)%string.
Proof. tpl_eq. Qed.
Lemma ptpl_max a :
  fmtln write_completion_tables_2 [("max_fallback_level", a)] = ("    $" ++ "max_fallback_level" ++ " = " ++ a ++ nl)%string.
Proof. tpl_eq. Qed.

Lemma plevels_lines line var ls :
  (forall a b, fmtln line [("level", a); ("initializer", b)] = ("    $" ++ var ++ a ++ " = @{" ++ b ++ "}" ++ nl)%string) ->
  P.levels line ls = sconcat (plevel_lines var ls).
Proof. intros H. unfold P.levels, plevel_lines. apply sconcat_map_fmtln. intros [k rows]. rewrite H. reflexivity. Qed.

Lemma pwrite_completion_lines t : P.write_completion_tables t = sconcat (pcompletion_lines t).
Proof.
  unfold P.write_completion_tables, pcompletion_lines. cbn [sconcat]. rewrite !sconcat_app.
  f_equal; [apply plevels_lines; intros; apply ptpl_level0|].
  f_equal; [destruct (t_ccmd t); [apply plevels_lines; intros; apply ptpl_level1 | reflexivity]|].
  cbn [sconcat]. f_equal. apply ptpl_max.
Qed.

(** *** the literal list and the descriptions *)
Definition pdescrs (lits : list (N * string * string)) : list (N * string) :=
  flat_map (fun l => match snd l with EmptyString => [] | d => [(fst (fst l), d)] end) lits.

Definition plits_stmts (lits : list (N * string * string)) : list stmt :=
  SLits "literals" (map (fun l => snd (fst l)) lits)
  :: match pdescrs lits with
     | [] => [SAssoc "descriptions" []]
     | ds => SDecl "descriptions" :: map (fun kd : N * string => SStr "descriptions" (fst kd) (snd kd)) ds
     end.

Definition lits_smart_free (lits : list (N * string * string)) : Prop :=
  Forall (fun l => smart_free (snd (fst l)) = true /\ smart_free (snd l) = true) lits.

Lemma ptpl_literals a : fmtln write_literals_0 [("literals", a)] = ("    $literals = @(" ++ a ++ ")" ++ nl)%string.
Proof. tpl_eq. Qed.
Lemma ptpl_descr_empty : fmtln write_literals_1 [] = ppairs_line "descriptions" [].
Proof. reflexivity. Qed.
Lemma ptpl_descr_block a :
  fmtln write_literals_2 [("descriptions", a)] = (pdescr_open ++ a ++ nl ++ "    }" ++ nl)%string.
Proof. tpl_eq. Qed.
