(** C01_bash_meaning, layer by layer: the interpreter of the /repo HEAD script ([BashSem.run_from
    Repaired]) on the tables of the model pipeline ([Tables.all_tables Bash] of what
    [Driver.compile_valid] returns) against [Spec.Meaning.complete] on the validated tree. *)
From CG Require Import Base.Prelude Model.Ast Model.Check Model.Dfa Model.Tables Model.Glob Model.BashSem Model.Driver.
From CG Require Import Spec.Lang Spec.Rx Spec.Meaning Spec.Domain Spec.DfaEquiv Spec.Invocations.
From CG Require Import Proofs.TreeFacts Proofs.TablesSound Proofs.GlobFacts Proofs.C17Proofs.
From CG Require Import Proofs.CompiledFacts Proofs.StripFacts Proofs.BashMeaningLit.

(** Layer (a): every leaf of the grammar is a literal. *)
Theorem bash_meaning_literal :
  forall pick fuel v c om os nd a (benv : BashSem.env) (en : Meaning.env) ws p,
    lit_tree (v_expr v) = true -> alts_nonempty (v_expr v) = true ->
    compile_valid pick fuel v = Ok c ->
    all_tables Bash c om os = Ok (nd, a) -> NoDup om -> valid_literal_order (c_main c) om = true ->
    C01_domain (v_expr v) = true ->
    BashSem.e_ignore_case benv = false -> BashSem.e_wordbreaks benv = Meaning.e_wordbreaks en ->
    breaks_ok (BashSem.e_wordbreaks benv) = true -> plain p = true -> printable_str p = true ->
    match complete (v_expr v) en ws p with
    | None => run_from Repaired (d_start (c_main c)) a benv ws p = Ok (mkresult 1 [] [])
    | Some (req, al) =>
        exists reply, run_from Repaired (d_start (c_main c)) a benv ws p = Ok (mkresult 0 reply [])
                      /\ (forall x, In x reply <-> In x req) /\ (forall x, In x al <-> In x req)
    end.
Proof.
  intros pick fuel v c om os nd a benv en ws p Hlit Hne Hc Hall Hord Hvalid Hdom Hic Hwb Hbok Hplain Hprint.
  destruct (compiled_facts pick fuel v c Hne Hc) as [HL [Hwf [Hinp Htrim]]].
  assert (Hstrip : forall ms, (forall m, In m ms -> String.prefix p m = true) ->
                              strip_reply benv p ms = Ok (map (Meaning.strip (Meaning.e_wordbreaks en) p) ms)).
  { intros ms Hms. rewrite <- Hwb. apply strip_reply_plain; assumption. }
  pose proof (spec_run_meaning_lit c (v_expr v) om os nd a benv en p Hlit Hne HL Hwf Hinp Htrim Hall Hord Hvalid Hdom Hstrip ws) as H.
  pose proof (tables_subword_free c (v_expr v) om os nd a en Hlit Hne HL Hwf Hinp Htrim Hall Hdom) as Hfree.
  destruct (complete (v_expr v) en ws p) as [[req al] |].
  - destruct H as [reply [Hr Hsets]]. exists reply. split; [| exact Hsets].
    eapply run_from_spec_repaired; eassumption.
  - eapply run_from_spec_repaired; eassumption.
Qed.

From CG Require Import Proofs.LangBridge Proofs.BashMeaningTop.

(** Layer (b): the leaves are literals, external commands and undefined nonterminals (no
    within-word expressions).  [Henv]: the two environments describe the same commands. *)
Theorem bash_meaning_toplevel :
  forall pick fuel v c om os nd a (benv : BashSem.env) (en : Meaning.env) ws p,
    toplevel_tree (v_expr v) = true -> alts_nonempty (v_expr v) = true ->
    compile_valid pick fuel v = Ok c ->
    all_tables Bash c om os = Ok (nd, a) -> NoDup om -> valid_literal_order (c_main c) om = true ->
    C01_domain (v_expr v) = true ->
    BashSem.e_ignore_case benv = false -> BashSem.e_wordbreaks benv = Meaning.e_wordbreaks en ->
    breaks_ok (BashSem.e_wordbreaks benv) = true -> plain p = true -> printable_str p = true ->
    (forall cm cid, Tables.index_of cm (a_commands a) = Some cid ->
                    spec_candidates (cmd_output benv cid) = candidates en cm) ->
    ambiguous_run en (start (v_expr v)) ws = false ->
    match complete (v_expr v) en ws p with
    | None => exists log, run_from Repaired (d_start (c_main c)) a benv ws p = Ok (mkresult 1 [] log)
    | Some (req, al) =>
        exists reply log, run_from Repaired (d_start (c_main c)) a benv ws p = Ok (mkresult 0 reply log)
                          /\ (forall x, In x reply <-> In x req) /\ (forall x, In x al <-> In x req)
    end.
Proof.
  intros pick fuel v c om os nd a benv en ws p Htop Hne Hc Hall Hord Hvalid Hdom Hic Hwb Hbok Hplain Hprint Henv Hamb.
  destruct (compiled_facts pick fuel v c Hne Hc) as [HL [Hwf [Hinp Htrim]]].
  assert (Hstrip : forall ms, (forall m, In m ms -> String.prefix p m = true) ->
                              strip_reply benv p ms = Ok (map (Meaning.strip (Meaning.e_wordbreaks en) p) ms)).
  { intros ms Hms. rewrite <- Hwb. apply strip_reply_plain; assumption. }
  pose proof (spec_run_meaning_top c (v_expr v) om os nd a benv en p Htop Hne HL Hwf Hinp Htrim Hall Hord Hvalid Hdom Hstrip Henv ws Hamb) as H.
  pose proof (tables_subword_free_top c (v_expr v) om os nd a Htop Hne HL Hwf Hinp Htrim Hall) as Hfree.
  destruct (complete (v_expr v) en ws p) as [[req al] |].
  - destruct H as [reply [log [esc [Hr Hsets]]]]. exists reply, log. split; [| exact Hsets].
    eapply run_from_spec_repaired; eassumption.
  - destruct H as [log [esc Hr]]. exists log. eapply run_from_spec_repaired; eassumption.
Qed.

From CG Require Import Proofs.SubCompiled Proofs.SubTreeFacts Proofs.BashMeaningSub.

(** Layer (c): the leaves are literals and within-word expressions made of literals.  The
    interpreter is run directly (the within-word functions of the script included), not through
    [Invocations.spec_run].  [sub_orders_ok]: the literal orders of the within-word tables are
    valid, as [NoDup om] and [valid_literal_order] say of the main table; [subs_deterministic]:
    at no state of the compiled automaton are two within-word automata with the same language
    (under the same level) alternatives with different targets. *)
Theorem bash_meaning_subword :
  forall pick fuel v c om os nd a (benv : BashSem.env) (en : Meaning.env) ws p,
    subw_tree (v_expr v) = true -> alts_nonempty (v_expr v) = true ->
    compile_valid pick fuel v = Ok c ->
    all_tables Bash c om os = Ok (nd, a) -> NoDup om -> valid_literal_order (c_main c) om = true ->
    sub_orders_ok c os -> subs_deterministic c ->
    C01_domain (v_expr v) = true ->
    BashSem.e_ignore_case benv = false -> BashSem.e_wordbreaks benv = Meaning.e_wordbreaks en ->
    breaks_ok (BashSem.e_wordbreaks benv) = true -> plain p = true -> printable_str p = true ->
    ambiguous_run en (start (v_expr v)) ws = false ->
    match complete (v_expr v) en ws p with
    | None => run_from Repaired (d_start (c_main c)) a benv ws p = Ok (mkresult 1 [] [])
    | Some (req, al) =>
        exists reply, run_from Repaired (d_start (c_main c)) a benv ws p = Ok (mkresult 0 reply [])
                      /\ (forall x, In x reply <-> In x req) /\ incl req al
    end.
Proof.
  intros pick fuel v c om os nd a benv en ws p Hsub Hne Hc Hall Hord Hvalid Hsords Hdet Hdom Hic Hwb Hbok Hplain Hprint Hamb.
  destruct (compiled_facts pick fuel v c Hne Hc) as [HL [Hwf [Hinp Htrim]]].
  assert (Hstrip : forall ms, (forall m, In m ms -> String.prefix p m = true) ->
                              strip_reply benv p ms = Ok (map (Meaning.strip (Meaning.e_wordbreaks en) p) ms)).
  { intros ms Hms. rewrite <- Hwb. apply strip_reply_plain; assumption. }
  apply (run_meaning_sub c (v_expr v) om os nd a benv en p Hsub Hne HL Hwf Hinp Htrim Hall Hord Hvalid Hdom
           (fun k l => sub_facts pick fuel v c k l Hne Hc) Hdet Hsords Hic Hprint Hstrip ws Hamb).
Qed.

From CG Require Import Proofs.BashMeaningMix.

(** Layers (b) and (c) together: the leaves are literals, external commands, undefined nonterminals
    and within-word expressions made of literals. *)
Theorem bash_meaning_mixed :
  forall pick fuel v c om os nd a (benv : BashSem.env) (en : Meaning.env) ws p,
    mix_tree (v_expr v) = true -> alts_nonempty (v_expr v) = true ->
    compile_valid pick fuel v = Ok c ->
    all_tables Bash c om os = Ok (nd, a) -> NoDup om -> valid_literal_order (c_main c) om = true ->
    sub_orders_ok c os -> subs_deterministic c ->
    C01_domain (v_expr v) = true ->
    BashSem.e_ignore_case benv = false -> BashSem.e_wordbreaks benv = Meaning.e_wordbreaks en ->
    breaks_ok (BashSem.e_wordbreaks benv) = true -> plain p = true -> printable_str p = true ->
    (forall cm cid, Tables.index_of cm (a_commands a) = Some cid ->
                    spec_candidates (cmd_output benv cid) = candidates en cm) ->
    ambiguous_run en (start (v_expr v)) ws = false ->
    match complete (v_expr v) en ws p with
    | None => exists log, run_from Repaired (d_start (c_main c)) a benv ws p = Ok (mkresult 1 [] log)
    | Some (req, al) =>
        exists reply log, run_from Repaired (d_start (c_main c)) a benv ws p = Ok (mkresult 0 reply log)
                          /\ (forall x, In x reply <-> In x req) /\ incl req al
    end.
Proof.
  intros pick fuel v c om os nd a benv en ws p Hmix Hne Hc Hall Hord Hvalid Hsords Hdet Hdom Hic Hwb Hbok Hplain Hprint Henv Hamb.
  destruct (compiled_facts pick fuel v c Hne Hc) as [HL [Hwf [Hinp Htrim]]].
  assert (Hstrip : forall ms, (forall m, In m ms -> String.prefix p m = true) ->
                              strip_reply benv p ms = Ok (map (Meaning.strip (Meaning.e_wordbreaks en) p) ms)).
  { intros ms Hms. rewrite <- Hwb. apply strip_reply_plain; assumption. }
  apply (run_meaning_mix c (v_expr v) om os nd a benv en p Hmix Hne HL Hwf Hinp Htrim Hall Hord Hvalid Hdom
           (fun k l => sub_facts pick fuel v c k l Hne Hc) Hdet Hsords Hic Hprint Hstrip Henv ws Hamb).
Qed.

From CG Require Import Spec.KnownC01 Proofs.SubBridge Proofs.BashMeaningAll.

(** The whole decided domain: literals, commands, undefined nonterminals, and within-word
    expressions over the same kinds of pieces. *)
Theorem bash_meaning_all :
  forall pick fuel v c om os nd a (benv : BashSem.env) (en : Meaning.env) ws p,
    sub_tree (v_expr v) = true -> alts_nonempty (v_expr v) = true ->
    compile_valid pick fuel v = Ok c ->
    all_tables Bash c om os = Ok (nd, a) -> NoDup om -> valid_literal_order (c_main c) om = true ->
    sub_orders_ok c os -> subs_deterministic c ->
    C01_domain (v_expr v) = true -> C01_env_ok (v_expr v) en = true ->
    BashSem.e_ignore_case benv = false -> BashSem.e_wordbreaks benv = Meaning.e_wordbreaks en ->
    breaks_ok (BashSem.e_wordbreaks benv) = true -> plain p = true -> printable_str p = true ->
    (forall cm cid, Tables.index_of cm (a_commands a) = Some cid ->
                    spec_candidates (cmd_output benv cid) = candidates en cm) ->
    ambiguous_run en (start (v_expr v)) ws = false ->
    match complete (v_expr v) en ws p with
    | None => exists log, run_from Repaired (d_start (c_main c)) a benv ws p = Ok (mkresult 1 [] log)
    | Some (req, al) =>
        exists reply log, run_from Repaired (d_start (c_main c)) a benv ws p = Ok (mkresult 0 reply log)
                          /\ (forall x, In x reply <-> In x req) /\ incl req al
    end.
Proof.
  intros pick fuel v c om os nd a benv en ws p Htree Hne Hc Hall Hord Hvalid Hsords Hdet Hdom Henvok Hic Hwb Hbok Hplain Hprint Henv Hamb.
  destruct (compiled_facts pick fuel v c Hne Hc) as [HL [Hwf [Hinp Htrim]]].
  assert (Hstrip : forall ms, (forall m, In m ms -> String.prefix p m = true) ->
                              strip_reply benv p ms = Ok (map (Meaning.strip (Meaning.e_wordbreaks en) p) ms)).
  { intros ms Hms. rewrite <- Hwb. apply strip_reply_plain; assumption. }
  apply (run_meaning_all c (v_expr v) om os nd a benv en p Htree Hne HL Hwf Hinp Htrim Hall Hord Hvalid Hdom Henvok
           (fun k l => sub_facts pick fuel v c k l Hne Hc) Hdet Hsords Hic Hprint Hstrip Henv ws Hamb).
Qed.
