(** What [resolve_in_order] computes, independently of the order: the table obtained by
    iterating "replace every reference by the current entry" on the original table until it is
    stable ([sol]).  Used for C14 (definition order) and C15 (removing unused definitions).
    Also: [spaces] depends on the table only through lookups and, once it has enough fuel, not
    on the fuel. *)
From CG Require Import Base.Prelude Model.Ast Model.Check Spec.Choice Spec.Mistakes.
From CG Require Import Proofs.CheckChoice Proofs.CheckMistakes Proofs.CheckLemmas Proofs.CheckWarnings.
From CG Require Import Proofs.CheckCycle Proofs.CheckTotal Proofs.CheckSpans.

Lemma resolve_ext t t' e :
  (forall c, In c (all_refs e) -> assoc c t = assoc c t') -> resolve t e = resolve t' e.
Proof.
  induction e using expr_ind'; intro Hc; cbn [resolve]; try reflexivity;
    try (f_equal; apply IHe; exact Hc).
  - rewrite (Hc n); [reflexivity|left; reflexivity].
  - f_equal. apply map_ext_Forall. rewrite Forall_forall in *. intros c Hin. apply H; [exact Hin|].
    intros x Hx. apply Hc. cbn. apply in_flat_map. exists c. split; assumption.
  - f_equal. apply map_ext_Forall. rewrite Forall_forall in *. intros c Hin. apply H; [exact Hin|].
    intros x Hx. apply Hc. cbn. apply in_flat_map. exists c. split; assumption.
  - f_equal. apply map_ext_Forall. rewrite Forall_forall in *. intros c Hin. apply H; [exact Hin|].
    intros x Hx. apply Hc. cbn. apply in_flat_map. exists c. split; assumption.
Qed.

Lemma resolve_closed_id t e : closed (map fst t) e -> resolve t e = e.
Proof.
  intro Hc.
  assert (H : resolve t e = resolve [] e).
  { apply resolve_ext. intros c Hin. cbn. apply assoc_None_notin. apply Hc. exact Hin. }
  rewrite H. clear. induction e using expr_ind'; cbn [resolve]; try reflexivity;
    try (f_equal; exact IHe); f_equal; rewrite <- (map_id cs) at 2; apply map_ext_Forall; exact H.
Qed.

Section Sol.
  Variable t0 : list (string * expr).
  Let names := map fst t0.

  Fixpoint sol (k : nat) : list (string * expr) :=
    match k with
    | O => t0
    | S k' => map (fun p => (fst p, resolve (sol k') (snd p))) t0
    end.

  Lemma assoc_sol_S k n : assoc n (sol (S k)) = option_map (resolve (sol k)) (assoc n t0).
  Proof. cbn [sol]. apply (assoc_map_snd (resolve (sol k))). Qed.

  Lemma sol_keys k : map fst (sol k) = names.
  Proof. destruct k; cbn [sol]; [reflexivity|]. rewrite map_map. reflexivity. Qed.

  Lemma assoc_sol_undefined k n : ~ In n names -> assoc n (sol k) = None.
  Proof. intro H. apply assoc_None_notin. rewrite sol_keys. exact H. Qed.

  Variable graph : list (string * list (string * span)).
  Hypothesis edges : forall n rhs c,
      assoc n t0 = Some rhs -> In c (all_refs rhs) -> In c names -> edge graph n c.
  Variable rank : string -> nat.
  Hypothesis Hrank : forall u c, edge graph u c -> (rank c < rank u)%nat.

  Lemma sol_stable k : forall n, (rank n < k)%nat -> assoc n (sol k) = assoc n (sol (S k)).
  Proof.
    induction k as [|k IH]; intros n Hn; [lia|].
    rewrite !assoc_sol_S. destruct (assoc n t0) as [rhs|] eqn:En; [|reflexivity].
    cbn [option_map]. f_equal. apply resolve_ext. intros c Hc.
    destruct (In_dec_str c names) as [Hin|Hnin].
    - apply IH. pose proof (Hrank _ _ (edges _ _ _ En Hc Hin)). lia.
    - rewrite !assoc_sol_undefined by exact Hnin. reflexivity.
  Qed.

  Variable B : nat.
  Hypothesis HB : forall n, In n names -> (rank n < B)%nat.

  Lemma sol_stable_ge k : (B <= k)%nat -> forall n, assoc n (sol k) = assoc n (sol B).
  Proof.
    induction 1 as [|k Hle IH]; intro n; [reflexivity|].
    destruct (In_dec_str n names) as [Hin|Hnin].
    - rewrite <- IH. symmetry. apply sol_stable. pose proof (HB n Hin). lia.
    - rewrite !assoc_sol_undefined by exact Hnin. reflexivity.
  Qed.

  (** *** [resolve_in_order] reaches [sol B] *)
  Definition inv3 (done : list string) (t : list (string * expr)) : Prop :=
    map fst t = names /\
    forall n rhs, assoc n t = Some rhs ->
                  (closed names rhs /\ assoc n (sol B) = Some rhs)
                  \/ (assoc n t0 = Some rhs /\ ~ In n done /\ ~ childless graph n).

  Lemma closed_final n rhs : assoc n t0 = Some rhs -> closed names rhs -> forall k, assoc n (sol k) = Some rhs.
  Proof.
    intros Hn Hc k. destruct k; [exact Hn|]. rewrite assoc_sol_S, Hn. cbn. f_equal.
    apply resolve_closed_id. rewrite sol_keys. exact Hc.
  Qed.

  Lemma inv3_init : inv3 [] t0.
  Proof.
    split; [reflexivity|]. intros n rhs Hn.
    destruct (children graph n) eqn:E.
    - left. assert (Hc : closed names rhs) by (eapply childless_closed; eauto).
      split; [exact Hc|apply closed_final; assumption].
    - right. split; [exact Hn|]. split; [intros []|]. unfold childless. rewrite E. discriminate.
  Qed.

  Lemma inv3_step done t n :
    inv3 done t -> (forall c, edge graph n c -> In c done \/ childless graph c) ->
    inv3 (n :: done) (match assoc n t with
                      | Some rhs => update_def n (resolve t rhs) t
                      | None => t
                      end).
  Proof.
    intros [Hk Hi] Hn.
    assert (Hweak : forall m rhs, assoc m t = Some rhs -> m <> n ->
                (closed names rhs /\ assoc m (sol B) = Some rhs)
                \/ (assoc m t0 = Some rhs /\ ~ In m (n :: done) /\ ~ childless graph m)).
    { intros m rhs Hm Hne. destruct (Hi _ _ Hm) as [H|(H1 & H2 & H3)]; [left; exact H|].
      right. split; [exact H1|]. split; [|exact H3]. intros [H|H]; [congruence|contradiction]. }
    destruct (assoc n t) as [rhs|] eqn:En.
    - split; [rewrite update_def_keys; exact Hk|].
      intros m rhs' Hm. rewrite assoc_update_def in Hm.
      destruct (String.eqb m n) eqn:Emn.
      + apply String.eqb_eq in Emn. subst m. rewrite En in Hm. inversion Hm; subst rhs'. clear Hm.
        left. destruct (Hi _ _ En) as [[Hcl Hfin]|(G1 & G2 & G3)].
        * (* already final: unchanged *)
          rewrite resolve_closed_id by (rewrite Hk; exact Hcl). split; assumption.
        * (* original entry: every reference to a definition meets a final entry *)
          assert (Hch : forall c, In c (all_refs rhs) -> In c names ->
                                  exists rc, assoc c t = Some rc /\ closed names rc
                                             /\ assoc c (sol B) = Some rc).
          { intros c Hc Hcn. assert (He : edge graph n c) by (eapply edges; eauto).
            rewrite <- Hk in Hcn. apply In_assoc_some in Hcn. destruct Hcn as [rc Hrc].
            exists rc. split; [exact Hrc|].
            destruct (Hi _ _ Hrc) as [H|(H1 & H2 & H3)]; [exact H|].
            exfalso. destruct (Hn _ He); contradiction. }
          split.
          -- intros c Hc Hcn. rewrite resolve_refs in Hc. apply in_flat_map in Hc.
             destruct Hc as [c0 [Hc0 Hc]].
             destruct (assoc c0 t) as [rhs0|] eqn:Ec0.
             ++ assert (Hc0n : In c0 names) by (rewrite <- Hk; eapply assoc_Some_in; eauto).
                destruct (Hch c0 Hc0 Hc0n) as (rc & Hrc & Hcl & _). rewrite Ec0 in Hrc.
                inversion Hrc; subst. apply (Hcl c Hc Hcn).
             ++ destruct Hc as [Hc|[]]. subst c0. apply assoc_None_notin in Ec0. rewrite Hk in Ec0.
                contradiction.
          -- assert (Heq : resolve t rhs = resolve (sol B) rhs).
             { apply resolve_ext. intros c Hc. destruct (In_dec_str c names) as [Hin|Hnin].
               - destruct (Hch c Hc Hin) as (rc & Hrc & _ & Hfin). rewrite Hrc, Hfin. reflexivity.
               - rewrite (assoc_sol_undefined B c Hnin). apply assoc_None_notin. rewrite Hk. exact Hnin. }
             rewrite Heq.
             assert (Hin : In n names) by (eapply assoc_Some_in; exact G1).
             rewrite (sol_stable B n (HB n Hin)), assoc_sol_S, G1. reflexivity.
      + apply Hweak; [exact Hm|]. intro Heq. subst m. rewrite String.eqb_refl in Emn. discriminate.
    - split; [exact Hk|]. intros m rhs Hm. apply Hweak; [exact Hm|]. intro Heq. subst m. congruence.
  Qed.

  Lemma resolve_in_order_inv3 ord : forall done t,
    inv3 done t -> ordered graph done ord -> inv3 (rev ord ++ done) (resolve_in_order ord t).
  Proof.
    induction ord as [|n r IH]; intros done t Hi Ho; cbn [resolve_in_order rev app]; [exact Hi|].
    cbn [ordered] in Ho. destruct Ho as [Hn Ho].
    pose proof (inv3_step _ _ _ Hi Hn) as Hi'.
    rewrite <- app_assoc. cbn [app].
    destruct (assoc n t); apply IH; assumption.
  Qed.

  Theorem resolve_in_order_sol ord :
    ordered graph [] ord ->
    (forall n, In n names -> has_children graph n = true -> In n ord) ->
    forall n, assoc n (resolve_in_order ord t0) = assoc n (sol B).
  Proof.
    intros Ho Hall n.
    destruct (resolve_in_order_inv3 ord [] t0 inv3_init Ho) as [Hk Hi].
    destruct (assoc n (resolve_in_order ord t0)) as [rhs|] eqn:En.
    - destruct (Hi _ _ En) as [[_ H]|(H1 & H2 & H3)]; [symmetry; exact H|]. exfalso.
      apply H2. rewrite app_nil_r. apply in_rev. rewrite rev_involutive. apply Hall.
      + eapply assoc_Some_in; eauto.
      + unfold has_children, childless in *. destruct (children graph n); [congruence|reflexivity].
    - symmetry. apply assoc_sol_undefined. rewrite <- Hk. apply assoc_None_notin. exact En.
  Qed.
End Sol.

(** *** Two tables that agree on a set of names closed under references *)
Section Agree.
  Variable t t' : list (string * expr).
  Variable S : string -> Prop.
  Hypothesis HS : forall x, S x -> assoc x t = assoc x t'.
  Hypothesis Hcl : forall x rhs, S x -> assoc x t = Some rhs -> forall c, In c (all_refs rhs) -> S c.

  Lemma sol_agree k : forall x, S x -> assoc x (sol t k) = assoc x (sol t' k).
  Proof.
    induction k as [|k IH]; intros x Hx; [apply HS; exact Hx|].
    rewrite !assoc_sol_S, <- (HS x Hx). destruct (assoc x t) as [rhs|] eqn:E; [|reflexivity].
    cbn. f_equal. apply resolve_ext. intros c Hc. apply IH. eapply Hcl; eauto.
  Qed.

  Lemma sol_refs_closed k : forall x rhs, S x -> assoc x (sol t k) = Some rhs ->
                                          forall c, In c (all_refs rhs) -> S c.
  Proof.
    induction k as [|k IH]; intros x rhs Hx Hr c Hc; [eapply Hcl; eauto|].
    rewrite assoc_sol_S in Hr. destruct (assoc x t) as [rhs0|] eqn:E; [|discriminate].
    cbn in Hr. inversion Hr; subst rhs. rewrite resolve_refs in Hc. apply in_flat_map in Hc.
    destruct Hc as [c0 [Hc0 Hc]]. assert (Hs0 : S c0) by (eapply Hcl; eauto).
    destruct (assoc c0 (sol t k)) as [r0|] eqn:E0.
    - eapply IH; eauto.
    - destruct Hc as [Hc|[]]. subst. exact Hs0.
  Qed.
End Agree.

(** *** [spaces]: only lookups matter *)
Lemma sp_all_ext (rec rec' : expr -> res unit) cs :
  Forall (fun c => rec c = rec' c) cs -> sp_all rec cs = sp_all rec' cs.
Proof. induction 1; cbn; [reflexivity|]. rewrite H, IHForall. reflexivity. Qed.

Section SpacesExt.
  Variable t t' : list (string * expr).
  Variable S : string -> Prop.
  Hypothesis HS : forall x, S x -> assoc x t = assoc x t'.
  Hypothesis Hcl : forall x rhs, S x -> assoc x t = Some rhs -> forall c, In c (all_refs rhs) -> S c.

  Lemma expr_head_ext f : forall e,
    (forall c, In c (all_refs e) -> S c) ->
    expr_head (Some t) f e = expr_head (Some t') f e.
  Proof.
    induction f as [|f IH]; intros e He; [reflexivity|]. rewrite !expr_head_S.
    destruct e; try reflexivity; try (apply IH; exact He).
    - cbn [followed]. assert (Hn : S name) by (apply He; left; reflexivity).
      rewrite <- (HS name Hn). destruct (assoc name t) as [rhs|] eqn:E; [|reflexivity].
      apply IH. eapply Hcl; eauto.
    - destruct children as [|c r]; [reflexivity|]. apply IH. intros x Hx. apply He. cbn.
      apply in_or_app. left. exact Hx.
  Qed.

  Lemma expr_tail_ext f : forall e,
    (forall c, In c (all_refs e) -> S c) ->
    expr_tail (Some t) f e = expr_tail (Some t') f e.
  Proof.
    induction f as [|f IH]; intros e He; [reflexivity|]. rewrite !expr_tail_S.
    destruct e; try reflexivity; try (apply IH; exact He).
    - cbn [followed]. assert (Hn : S name) by (apply He; left; reflexivity).
      rewrite <- (HS name Hn). destruct (assoc name t) as [rhs|] eqn:E; [|reflexivity].
      apply IH. eapply Hcl; eauto.
    - destruct (last_opt children) as [c|] eqn:El; [|reflexivity]. apply last_opt_In in El.
      apply IH. intros x Hx. apply He. cbn. apply in_flat_map. exists c. split; assumption.
  Qed.

  Lemma adjacent_terminals_ext f cs :
    (forall c, In c (flat_map all_refs cs) -> S c) ->
    adjacent_terminals (Some t) f cs = adjacent_terminals (Some t') f cs.
  Proof.
    induction cs as [|a r IH]; intro Hc; [reflexivity|]. destruct r as [|b r']; [reflexivity|].
    cbn [adjacent_terminals].
    assert (Hr : adjacent_terminals (Some t) f (b :: r') = adjacent_terminals (Some t') f (b :: r')).
    { apply IH. intros x Hx. apply Hc. cbn [flat_map]. apply in_or_app. right. exact Hx. }
    rewrite (expr_tail_ext f a), (expr_head_ext f b).
    - destruct (expr_tail (Some t') f a) as [ta| | |]; cbn [obind]; try reflexivity.
      destruct (expr_head (Some t') f b) as [hb| | |]; cbn [obind]; try reflexivity.
      destruct ta; try exact Hr. destruct hb; try exact Hr. reflexivity.
    - intros x Hx. apply Hc. cbn [flat_map]. apply in_or_app. right. apply in_or_app. left. exact Hx.
    - intros x Hx. apply Hc. cbn [flat_map]. apply in_or_app. left. exact Hx.
  Qed.

  Lemma spaces_ext f : forall e tr w j,
    (forall c, In c (all_refs e) -> S c) ->
    spaces t f e tr w j = spaces t' f e tr w j.
  Proof.
    induction f as [|f IH]; intros e tr w j He; [reflexivity|].
    rewrite !spaces_S.
    assert (Hall : forall cs, (forall c, In c (flat_map all_refs cs) -> S c) ->
                              sp_all (fun c => spaces t f c tr w false) cs
                              = sp_all (fun c => spaces t' f c tr w false) cs).
    { intros cs Hcs. apply sp_all_ext. apply Forall_forall. intros c Hc. apply IH.
      intros x Hx. apply Hcs. apply in_flat_map. exists c. split; assumption. }
    destruct e; try reflexivity; try (apply IH; exact He); try (apply Hall; exact He).
    - assert (Hn : S name) by (apply He; left; reflexivity).
      rewrite <- (HS name Hn). destruct (assoc name t) as [rhs|] eqn:E; [|reflexivity].
      apply IH. eapply Hcl; eauto.
    - rewrite (Hall children He). destruct j; cbn [follow_of]; [reflexivity|].
      rewrite (adjacent_terminals_ext f children He). reflexivity.
  Qed.
End SpacesExt.

(** *** [spaces]: more fuel does not change a result *)
Lemma sp_all_mono (rec rec' : expr -> res unit) cs r :
  Forall (fun c => rec c <> OutOfFuel -> rec' c = rec c) cs ->
  sp_all rec cs = r -> r <> OutOfFuel -> sp_all rec' cs = r.
Proof.
  induction 1 as [|x l Hx Hl IH]; cbn; [auto|].
  intros Hr Hne. destruct (rec x) as [[]|e|s|] eqn:E; cbn [obind] in Hr.
  - rewrite Hx by discriminate. cbn. apply IH; assumption.
  - rewrite Hx by discriminate. cbn. exact Hr.
  - rewrite Hx by discriminate. cbn. exact Hr.
  - congruence.
Qed.

Lemma expr_head_mono follow f : forall e r f',
  expr_head follow f e = r -> r <> OutOfFuel -> (f <= f')%nat -> expr_head follow f' e = r.
Proof.
  induction f as [|f IH]; intros e r f' Hr Hne Hle; [cbn in Hr; congruence|].
  destruct f' as [|f']; [lia|]. assert (Hle' : (f <= f')%nat) by lia.
  rewrite expr_head_S in *.
  destruct e; try exact Hr; try (eapply IH; eauto; fail).
  - destruct (followed follow name); [eapply IH; eauto|exact Hr].
  - destruct children; [exact Hr|eapply IH; eauto].
Qed.

Lemma expr_tail_mono follow f : forall e r f',
  expr_tail follow f e = r -> r <> OutOfFuel -> (f <= f')%nat -> expr_tail follow f' e = r.
Proof.
  induction f as [|f IH]; intros e r f' Hr Hne Hle; [cbn in Hr; congruence|].
  destruct f' as [|f']; [lia|]. assert (Hle' : (f <= f')%nat) by lia.
  rewrite expr_tail_S in *.
  destruct e; try exact Hr; try (eapply IH; eauto; fail).
  - destruct (followed follow name); [eapply IH; eauto|exact Hr].
  - destruct (last_opt children); [eapply IH; eauto|exact Hr].
Qed.

Lemma adjacent_terminals_mono follow f f' cs : forall r,
  adjacent_terminals follow f cs = r -> r <> OutOfFuel -> (f <= f')%nat ->
  adjacent_terminals follow f' cs = r.
Proof.
  induction cs as [|a rest IH]; intros r Hr Hne Hle; [exact Hr|].
  destruct rest as [|b rest']; [exact Hr|]. cbn [adjacent_terminals] in *.
  destruct (expr_tail follow f a) as [ta|e1|s1|] eqn:Ea; cbn [obind] in Hr; [| | |congruence].
  2:{ rewrite (expr_tail_mono _ _ _ _ _ Ea) by (try discriminate; exact Hle). exact Hr. }
  2:{ rewrite (expr_tail_mono _ _ _ _ _ Ea) by (try discriminate; exact Hle). exact Hr. }
  rewrite (expr_tail_mono _ _ _ _ _ Ea) by (try discriminate; exact Hle). cbn [obind].
  destruct (expr_head follow f b) as [hb|e2|s2|] eqn:Eb; cbn [obind] in Hr; [| | |congruence].
  2:{ rewrite (expr_head_mono _ _ _ _ _ Eb) by (try discriminate; exact Hle). exact Hr. }
  2:{ rewrite (expr_head_mono _ _ _ _ _ Eb) by (try discriminate; exact Hle). exact Hr. }
  rewrite (expr_head_mono _ _ _ _ _ Eb) by (try discriminate; exact Hle). cbn [obind].
  destruct ta; try (apply IH; assumption). destruct hb; try (apply IH; assumption). exact Hr.
Qed.

Lemma spaces_mono t f : forall e tr w j r f',
  spaces t f e tr w j = r -> r <> OutOfFuel -> (f <= f')%nat -> spaces t f' e tr w j = r.
Proof.
  induction f as [|f IH]; intros e tr w j r f' Hr Hne Hle; [cbn in Hr; congruence|].
  destruct f' as [|f']; [lia|]. assert (Hle' : (f <= f')%nat) by lia.
  rewrite spaces_S in *.
  assert (Hall : forall cs r, sp_all (fun c => spaces t f c tr w false) cs = r -> r <> OutOfFuel ->
                              sp_all (fun c => spaces t f' c tr w false) cs = r).
  { intros cs r0 H0 Hne0. eapply sp_all_mono; [|exact H0|exact Hne0].
    apply Forall_forall. intros c _ Hc. eapply IH; eauto. }
  destruct e; try exact Hr; try (eapply IH; eauto; fail); try (eapply Hall; eauto; fail).
  - destruct (assoc name t); [eapply IH; eauto|exact Hr].
  - destruct (sp_all (fun c => spaces t f c tr w false) children) as [[]|e|s|] eqn:E; cbn [obind] in Hr.
    + rewrite (Hall _ _ E) by discriminate. cbn [obind]. destruct w; [|exact Hr].
      destruct (adjacent_terminals (follow_of t j) f children) as [adj|e|s|] eqn:Ea; cbn [obind] in Hr.
      * rewrite (adjacent_terminals_mono _ _ f' _ _ Ea) by (try discriminate; exact Hle'). exact Hr.
      * rewrite (adjacent_terminals_mono _ _ f' _ _ Ea) by (try discriminate; exact Hle'). exact Hr.
      * rewrite (adjacent_terminals_mono _ _ f' _ _ Ea) by (try discriminate; exact Hle'). exact Hr.
      * congruence.
    + rewrite (Hall _ _ E) by discriminate. exact Hr.
    + rewrite (Hall _ _ E) by discriminate. exact Hr.
    + congruence.
Qed.

Lemma spaces_fine_agree t f1 f2 e tr w j :
  fine (spaces t f1 e tr w j) -> fine (spaces t f2 e tr w j) ->
  spaces t f1 e tr w j = spaces t f2 e tr w j.
Proof.
  intros H1 H2. destruct (Nat.le_ge_cases f1 f2) as [Hle|Hle].
  - symmetry. eapply spaces_mono; [reflexivity| |exact Hle].
    intro H. rewrite H in H1. exact H1.
  - eapply spaces_mono; [reflexivity| |exact Hle].
    intro H. rewrite H in H2. exact H2.
Qed.
