(** C09 on the compiled automaton ([Driver.compile_valid]):
    - [||] is transparent: the automaton of a grammar and the automaton of its [|] variant accept
      the same item words once levels and descriptions are erased; read as typed words, they
      match the same command lines and expect the same items (up to erasure) after them;
    - outside the known mechanisms ([Ambig.find] finds nothing) a command line has one walk
      through the automaton, and on the grammar side two readings of the same typed words have the
      same continuations. *)
From CG Require Import Base.Prelude Model.Ast Model.Dfa Model.Check Model.Driver Spec.Lang Spec.TokAut Spec.Ambig.
From CG Require Import Spec.DfaEquiv.
From CG Require Import Proofs.LangJudge Proofs.TreeFacts Proofs.CheckTree Proofs.DriverCorrect Proofs.CompiledFacts.
From CG Require Import Proofs.SubCompiled Proofs.TablesSound Proofs.DfaEquivProofs Proofs.WfTrim.
From CG Require Import Proofs.MeaningLevels Proofs.CheckBar Proofs.EraseLang Proofs.ReadWords Proofs.TaccWords.
From CG Require Import Proofs.AmbigFacts.

(** *** [||] -> [|] keeps the side condition on the source *)
Lemma forallb_map_same : forall (f : expr -> bool) (g : expr -> expr) cs,
  Forall (fun e => f (g e) = f e) cs -> forallb f (map g cs) = forallb f cs.
Proof. intros f g cs H. induction H as [|c cs Hc H IH]; simpl; [reflexivity|]. rewrite Hc, IH. reflexivity. Qed.

Lemma alts_nonempty_bar : forall e, alts_nonempty (bar_of_barbar e) = alts_nonempty e.
Proof.
  induction e using expr_ind'; cbn [bar_of_barbar alts_nonempty]; try reflexivity; try assumption.
  - apply forallb_map_same. exact H.
  - destruct cs as [|c cs]; [reflexivity|]. rewrite <- (forallb_map_same _ _ _ H). reflexivity.
  - destruct cs as [|c cs]; [reflexivity|]. rewrite <- (forallb_map_same _ _ _ H). reflexivity.
Qed.

Lemma grammar_alts_nonempty_bar : forall g, grammar_alts_nonempty (bar_grammar g) = grammar_alts_nonempty g.
Proof.
  intros g. unfold grammar_alts_nonempty, bar_grammar.
  induction g as [|s g IH]; [reflexivity|]. cbn [map forallb]. rewrite IH. f_equal.
  destruct s; cbn [bar_stmt]; apply alts_nonempty_bar.
Qed.

(** *** Item words: the two automata accept the same erased language *)
Theorem fallback_transparent_items : forall builtins g sh v v' pick fuel pick' fuel' c c',
  from_grammar builtins g sh = Ok v ->
  from_grammar builtins (bar_grammar g) sh = Ok v' ->
  grammar_alts_nonempty g = true ->
  compile_valid pick fuel v = Ok c -> compile_valid pick' fuel' v' = Ok c' ->
  forall u, erased_lang (accepts_items c) u <-> erased_lang (accepts_items c') u.
Proof.
  intros builtins g sh v v' pick fuel pick' fuel' c c' Hv Hv' Hga Hc Hc' u.
  pose proof (driver_correct_from_grammar builtins g sh v pick fuel c Hv Hga Hc) as L.
  assert (Hga' : grammar_alts_nonempty (bar_grammar g) = true) by (rewrite grammar_alts_nonempty_bar; exact Hga).
  pose proof (driver_correct_from_grammar builtins (bar_grammar g) sh v' pick' fuel' c' Hv' Hga' Hc') as L'.
  pose proof (from_grammar_bar_norm builtins g sh v v' Hv Hv') as Hn.
  pose proof (erased_denotes_of_norm_eq (v_expr v') (v_expr v) Hn u) as E.
  unfold erased_lang in *. split; intros [w [Hw F]].
  - destruct (proj2 E (ex_intro _ w (conj (proj1 (L w) Hw) F))) as [w' [Hw' F']].
    exists w'. split; [apply L'; exact Hw'|exact F'].
  - destruct (proj1 E (ex_intro _ w (conj (proj1 (L' w) Hw) F))) as [w' [Hw' F']].
    exists w'. split; [apply L; exact Hw'|exact F'].
Qed.

(** *** Reading typed words *)
Section Words.
  Variable wild : witem -> string -> Prop.
  (** what a command reads does not depend on its level *)
  Hypothesis wild_erase : forall a w, wild (erase_witem a) w <-> wild a w.

  Notation reads := (item_reads wild).

  Lemma tok_reads_erase : forall a u, tok_reads (erase_witem a) u <-> tok_reads a u.
  Proof. intros [t d l|c l|c l|] u; simpl; tauto. Qed.

  Lemma wreads_erase : forall v w, wreads (map erase_witem v) w <-> wreads v w.
  Proof.
    intros v w. split.
    - revert w. induction v as [|a v IH]; intros w H; simpl in H; inversion H; subst; constructor;
        [apply tok_reads_erase; assumption|apply IH; assumption].
    - intros H. induction H; simpl; constructor; [apply tok_reads_erase; assumption|assumption].
  Qed.

  Lemma reads_leaf_erase : forall a w, reads (ILeaf (erase_witem a)) w <-> reads (ILeaf a) w.
  Proof.
    intros [t d l|c l|c l|] w; simpl;
      [tauto|apply (wild_erase (WCmd c l))|apply (wild_erase (WCompadd c l))|apply (wild_erase WStar)].
  Qed.

  Lemma reads_erases : forall x y w, erases x y -> (reads x w <-> reads y w).
  Proof.
    intros [a|L l] y w H; unfold erases in H.
    - split; intros R.
      + apply (item_reads_equiv wild _ _ _ H). apply reads_leaf_erase. exact R.
      + apply (item_reads_equiv wild _ _ _ (item_equiv_sym _ _ H)) in R. apply reads_leaf_erase. exact R.
    - split; intros R.
      + apply (item_reads_equiv wild _ _ _ H). simpl in *. destruct R as [v [Hv Hr]].
        exists (map erase_witem v). split; [exists v; auto|apply wreads_erase; exact Hr].
      + apply (item_reads_equiv wild _ _ _ (item_equiv_sym _ _ H)) in R. simpl in *.
        destruct R as [u [[v [Hv <-]] Hr]]. exists v. split; auto. apply wreads_erase. exact Hr.
  Qed.

  Lemma Forall2_reads_erases : forall w u ws, Forall2 erases w u ->
    (Forall2 reads w ws <-> Forall2 reads u ws).
  Proof.
    intros w u ws F. revert ws. induction F as [|x y w u Hxy F IH]; intros ws.
    - tauto.
    - split; intros R; inversion R as [|? w0 ? ws0 R1 R2]; subst; constructor.
      + apply (proj1 (reads_erases x y w0 Hxy)). exact R1.
      + apply IH. exact R2.
      + apply (proj2 (reads_erases x y w0 Hxy)). exact R1.
      + apply IH. exact R2.
  Qed.

  (** a walk of the automaton over typed words: each word is read by the item of the transition *)
  Inductive wpath (c : cdfa) : N -> list string -> N -> Prop :=
  | wp_nil s : wpath c s [] s
  | wp_cons s i x t w ws s' :
      step (c_main c) s i = Some t -> nthN (d_inputs (c_main c)) i = Some x ->
      reads (item_of_inp c x) w -> wpath c t ws s' -> wpath c s (w :: ws) s'.

  Definition matched_words (c : cdfa) (ws : list string) : Prop :=
    exists s', wpath c (d_start (c_main c)) ws s' /\ is_accepting (c_main c) s' = true.

  (** the items on the transitions that leave a state reached on [ws] *)
  Definition expected (c : cdfa) (ws : list string) (x : inp) : Prop :=
    exists s' i t, wpath c (d_start (c_main c)) ws s' /\ step (c_main c) s' i = Some t /\
                   nthN (d_inputs (c_main c)) i = Some x.

  (** a walk is a run over input ids whose items read the words *)
  Definition ids_read (c : cdfa) (ids : list N) (ws : list string) : Prop :=
    Forall2 (fun i w => exists x, nthN (d_inputs (c_main c)) i = Some x /\ reads (item_of_inp c x) w) ids ws.

  Lemma wpath_ids : forall c s ws s', wpath c s ws s' <->
    exists ids, run (c_main c) s ids = Some s' /\ ids_read c ids ws.
  Proof.
    intros c s ws s'. split.
    - intros P. induction P as [s|s i x t w ws s' Hs Hx Hr P [ids [Hrun F]]].
      + exists []. split; [reflexivity|constructor].
      + exists (i :: ids). split; [simpl; rewrite Hs; exact Hrun|]. constructor; eauto.
    - intros [ids [Hrun F]]. revert s Hrun. induction F as [|i w ids ws [x [Hx Hr]] F IH]; intros s Hrun.
      + simpl in Hrun. inversion Hrun. constructor.
      + simpl in Hrun. destruct (step (c_main c) s i) as [t|] eqn:Es; [|discriminate].
        econstructor; eauto.
  Qed.

  Lemma items_of_ids : forall c ids ws, ids_read c ids ws ->
    exists its, Forall2 (fun i it => exists x, nthN (d_inputs (c_main c)) i = Some x /\
                                       item_equiv (item_of_inp c x) it) ids its /\
                Forall2 reads its ws.
  Proof.
    intros c ids ws F. induction F as [|i w ids ws [x [Hx Hr]] F [its [F1 F2]]].
    - exists []. split; constructor.
    - exists (item_of_inp c x :: its). split; constructor; auto.
      exists x. split; [exact Hx|apply item_equiv_refl].
  Qed.

  Lemma ids_of_items : forall c ids its ws,
    Forall2 (fun i it => exists x, nthN (d_inputs (c_main c)) i = Some x /\
                                   item_equiv (item_of_inp c x) it) ids its ->
    Forall2 reads its ws -> ids_read c ids ws.
  Proof.
    intros c ids its ws F. revert ws. induction F as [|i it ids its [x [Hx He]] F IH]; intros ws R.
    - inversion R. constructor.
    - inversion R; subst. constructor; [|apply IH; assumption].
      exists x. split; [exact Hx|]. eapply item_reads_equiv; [apply item_equiv_sym; exact He|assumption].
  Qed.

  (** matched = some accepted item word reads the command line *)
  Lemma matched_words_items : forall c ws,
    matched_words c ws <-> exists its, accepts_items c its /\ Forall2 reads its ws.
  Proof.
    intros c ws. unfold matched_words. split.
    - intros [s' [P Ha]]. apply wpath_ids in P. destruct P as [ids [Hrun F]].
      destruct (items_of_ids _ _ _ F) as [its [F1 F2]]. exists its. split; [|exact F2].
      exists ids. split; [|exact F1]. unfold accepts, Dfa.accepts_from. rewrite Hrun. exact Ha.
    - intros [its [[ids [Ha F1]] F2]]. unfold accepts, Dfa.accepts_from in Ha.
      destruct (run (c_main c) (d_start (c_main c)) ids) as [s'|] eqn:Hrun; [|discriminate].
      exists s'. split; [|exact Ha]. apply wpath_ids. exists ids. split; [exact Hrun|].
      eapply ids_of_items; eauto.
  Qed.

  (** the canonical erasure of an item *)
  Definition erase_item (x : item) : item :=
    match x with
    | ILeaf a => ILeaf (erase_witem a)
    | IWord L _ => IWord (erase_lang L) 0
    end.

  Lemma erases_erase_item : forall x, erases x (erase_item x).
  Proof. intros [a|L l]; unfold erases, erase_item; apply item_equiv_refl. Qed.

  Lemma Forall2_erase_items : forall its, Forall2 erases its (map erase_item its).
  Proof. induction its; simpl; constructor; auto. apply erases_erase_item. Qed.

  Lemma matched_words_erased : forall c ws,
    matched_words c ws <-> exists u, erased_lang (accepts_items c) u /\ Forall2 reads u ws.
  Proof.
    intros c ws. rewrite matched_words_items. split.
    - intros [its [Ha R]]. exists (map erase_item its).
      split; [exists its; split; [exact Ha|apply Forall2_erase_items]|].
      apply (Forall2_reads_erases _ _ _ (Forall2_erase_items its)). exact R.
    - intros [u [[its [Ha F]] R]]. exists its. split; auto. apply (Forall2_reads_erases _ _ _ F). exact R.
  Qed.

  (** [||] is transparent to matching: same command lines matched ... *)
  Theorem transparent_matched : forall c c',
    (forall u, erased_lang (accepts_items c) u <-> erased_lang (accepts_items c') u) ->
    forall ws, matched_words c ws <-> matched_words c' ws.
  Proof.
    intros c c' H ws. rewrite !matched_words_erased.
    split; intros [u [Hu R]]; exists u; split; auto; apply H; auto.
  Qed.

  Lemma run_ids_inputs : forall d, dfa_wf d -> forall ids s s', run d s ids = Some s' ->
    Forall (fun j => exists x, nthN (d_inputs d) j = Some x) ids.
  Proof.
    intros d W. induction ids as [|j ids IH]; intros s s' H; [constructor|].
    simpl in H. destruct (step d s j) as [t|] eqn:Es; [|discriminate]. constructor; [|eapply IH; eauto].
    apply (step_in d s j t W) in Es. unfold Tables.transitions_from in Es.
    destruct (assocN s (d_trans d)) as [tos|] eqn:Er; [|destruct Es].
    apply assocN_in in Er. destruct W as [_ W]. destruct (W s tos Er) as [_ Hin]. eapply Hin; eauto.
  Qed.

  Lemma items_of_inputs : forall c ids, Forall (fun j => exists x, nthN (d_inputs (c_main c)) j = Some x) ids ->
    exists its, Forall2 (fun i it => exists x, nthN (d_inputs (c_main c)) i = Some x /\
                                       item_equiv (item_of_inp c x) it) ids its.
  Proof.
    intros c ids F. induction F as [|j ids [x Hx] F [its G]]; [exists []; constructor|].
    exists (item_of_inp c x :: its). constructor; auto. exists x. split; auto. apply item_equiv_refl.
  Qed.

  (** ... and the same items expected after them, up to erasure *)
  Theorem transparent_expected : forall c c',
    dfa_wf (c_main c) -> trim (c_main c) ->
    (forall u, erased_lang (accepts_items c) u -> erased_lang (accepts_items c') u) ->
    forall ws x, expected c ws x ->
      exists x' y, expected c' ws x' /\ erases (item_of_inp c x) y /\ erases (item_of_inp c' x') y.
  Proof.
    intros c c' W [_ Hco] H ws x [s' [i [t [P [Hs Hx]]]]].
    apply wpath_ids in P. destruct P as [ids0 [Hrun0 F0]].
    destruct (Hco t (step_In_states _ _ _ _ Hs)) as [rest Hrest].
    assert (Hrunr : exists sr, run (c_main c) t rest = Some sr).
    { unfold Dfa.accepts_from in Hrest. destruct (run (c_main c) t rest) as [sr|]; [eauto|discriminate]. }
    destruct Hrunr as [sr Hrunr].
    assert (Hacc : accepts (c_main c) (ids0 ++ i :: rest) = true).
    { unfold accepts, Dfa.accepts_from. rewrite run_app, Hrun0. simpl. rewrite Hs. exact Hrest. }
    destruct (items_of_ids _ _ _ F0) as [its0 [G0 R0]].
    destruct (items_of_inputs c rest (run_ids_inputs _ W _ _ _ Hrunr)) as [itsr Gr].
    set (xi := item_of_inp c x).
    assert (Hai : accepts_items c (its0 ++ xi :: itsr)).
    { exists (ids0 ++ i :: rest). split; [exact Hacc|]. apply Forall2_app; [exact G0|].
      constructor; [|exact Gr]. exists x. split; [exact Hx|apply item_equiv_refl]. }
    destruct (H (map erase_item (its0 ++ xi :: itsr)))
      as [w' [[ids' [Hacc' G']] F']]; [exists (its0 ++ xi :: itsr); split; [exact Hai|apply Forall2_erase_items]|].
    rewrite map_app in F'. simpl in F'.
    apply Forall2_app_inv_r in F'. destruct F' as [w0' [wr' [F0' [Fr' ->]]]].
    inversion Fr' as [|xit ux wr'' ur Hxit Fr'' E1 E2]; subst. clear Fr'.
    apply Forall2_app_inv_r in G'. destruct G' as [ids0' [idsr' [G0' [Gr' ->]]]].
    inversion Gr' as [|i' xit' rest' wr3 [x' [Hx' Hex']] Gr'' E1 E2]; subst. clear Gr'.
    unfold accepts, Dfa.accepts_from in Hacc'. rewrite run_app in Hacc'.
    destruct (run (c_main c') (d_start (c_main c')) ids0') as [s''|] eqn:Hrun0'; [|discriminate].
    simpl in Hacc'. destruct (step (c_main c') s'' i') as [t'|] eqn:Hs'; [|discriminate].
    exists x', (erase_item xi). split; [|split].
    - exists s'', i', t'. split; [|split; [exact Hs'|exact Hx']].
      apply wpath_ids. exists ids0'. split; [exact Hrun0'|].
      eapply ids_of_items; [exact G0'|].
      apply (Forall2_reads_erases _ _ _ F0'). apply (Forall2_reads_erases _ _ _ (Forall2_erase_items its0)). exact R0.
    - apply erases_erase_item.
    - eapply erases_equiv_l; [apply item_equiv_sym; exact Hex'|exact Hxit].
  Qed.
End Words.
