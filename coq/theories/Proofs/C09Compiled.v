(** C09 on the compiled automaton ([Driver.compile_valid]):
    - [||] is transparent: the automaton of a grammar and the automaton of its [|] variant accept
      the same item words once levels and descriptions are erased; read as typed words, they
      match the same command lines and expect the same items (up to erasure) after them;
    - outside the known mechanisms ([Ambig.find] finds nothing) a command line has one walk
      through the automaton, and on the grammar side two readings of the same typed words have the
      same continuations. *)
From CG Require Import Base.Prelude Model.Ast Model.Dfa Model.Check Model.Driver Spec.Lang Spec.TokAut Spec.Ambig.
From CG Require Import Spec.DfaEquiv.
From CG Require Import Proofs.LangJudge Proofs.TreeFacts Proofs.CheckTree Proofs.DriverCorrect Proofs.CompiledFacts.
From CG Require Import Proofs.SubCompiled Proofs.TablesSound Proofs.DfaEquivProofs Proofs.WfTrim.
From CG Require Import Proofs.MeaningLevels Proofs.CheckBar Proofs.EraseLang Proofs.ReadWords Proofs.TaccWords.
From CG Require Import Proofs.AmbigFacts.

(** *** [||] -> [|] keeps the side condition on the source *)
Lemma forallb_map_same : forall (f : expr -> bool) (g : expr -> expr) cs,
  Forall (fun e => f (g e) = f e) cs -> forallb f (map g cs) = forallb f cs.
Proof. intros f g cs H. induction H as [|c cs Hc H IH]; simpl; [reflexivity|]. rewrite Hc, IH. reflexivity. Qed.

Lemma alts_nonempty_bar : forall e, alts_nonempty (bar_of_barbar e) = alts_nonempty e.
Proof.
  induction e using expr_ind'; cbn [bar_of_barbar alts_nonempty]; try reflexivity; try assumption.
  - apply forallb_map_same. exact H.
  - destruct cs as [|c cs]; [reflexivity|]. rewrite <- (forallb_map_same _ _ _ H). reflexivity.
  - destruct cs as [|c cs]; [reflexivity|]. rewrite <- (forallb_map_same _ _ _ H). reflexivity.
Qed.

Lemma grammar_alts_nonempty_bar : forall g, grammar_alts_nonempty (bar_grammar g) = grammar_alts_nonempty g.
Proof.
  intros g. unfold grammar_alts_nonempty, bar_grammar.
  induction g as [|s g IH]; [reflexivity|]. cbn [map forallb]. rewrite IH. f_equal.
  destruct s; cbn [bar_stmt]; apply alts_nonempty_bar.
Qed.

(** *** Item words: the two automata accept the same erased language *)
Theorem fallback_transparent_items : forall builtins g sh v v' pick fuel pick' fuel' c c',
  from_grammar builtins g sh = Ok v ->
  from_grammar builtins (bar_grammar g) sh = Ok v' ->
  grammar_alts_nonempty g = true ->
  compile_valid pick fuel v = Ok c -> compile_valid pick' fuel' v' = Ok c' ->
  forall u, erased_lang (accepts_items c) u <-> erased_lang (accepts_items c') u.
Proof.
  intros builtins g sh v v' pick fuel pick' fuel' c c' Hv Hv' Hga Hc Hc' u.
  pose proof (driver_correct_from_grammar builtins g sh v pick fuel c Hv Hga Hc) as L.
  assert (Hga' : grammar_alts_nonempty (bar_grammar g) = true) by (rewrite grammar_alts_nonempty_bar; exact Hga).
  pose proof (driver_correct_from_grammar builtins (bar_grammar g) sh v' pick' fuel' c' Hv' Hga' Hc') as L'.
  pose proof (from_grammar_bar_norm builtins g sh v v' Hv Hv') as Hn.
  pose proof (erased_denotes_of_norm_eq (v_expr v') (v_expr v) Hn u) as E.
  unfold erased_lang in *. split; intros [w [Hw F]].
  - destruct (proj2 E (ex_intro _ w (conj (proj1 (L w) Hw) F))) as [w' [Hw' F']].
    exists w'. split; [apply L'; exact Hw'|exact F'].
  - destruct (proj1 E (ex_intro _ w (conj (proj1 (L' w) Hw) F))) as [w' [Hw' F']].
    exists w'. split; [apply L; exact Hw'|exact F'].
Qed.

(** *** Reading typed words *)
Section Words.
  Variable wild : witem -> string -> Prop.
  (** what a command reads does not depend on its level *)
  Hypothesis wild_erase : forall a w, wild (erase_witem a) w <-> wild a w.

  Notation reads := (item_reads wild).

  Lemma tok_reads_erase : forall a u, tok_reads (erase_witem a) u <-> tok_reads a u.
  Proof. intros [t d l|c l|c l|] u; simpl; tauto. Qed.

  Lemma wreads_erase : forall v w, wreads (map erase_witem v) w <-> wreads v w.
  Proof.
    intros v w. split.
    - revert w. induction v as [|a v IH]; intros w H; simpl in H; inversion H; subst; constructor;
        [apply tok_reads_erase; assumption|apply IH; assumption].
    - intros H. induction H; simpl; constructor; [apply tok_reads_erase; assumption|assumption].
  Qed.

  Lemma reads_leaf_erase : forall a w, reads (ILeaf (erase_witem a)) w <-> reads (ILeaf a) w.
  Proof.
    intros [t d l|c l|c l|] w; simpl;
      [tauto|apply (wild_erase (WCmd c l))|apply (wild_erase (WCompadd c l))|apply (wild_erase WStar)].
  Qed.

  Lemma reads_erases : forall x y w, erases x y -> (reads x w <-> reads y w).
  Proof.
    intros [a|L l] y w H; unfold erases in H.
    - split; intros R.
      + apply (item_reads_equiv wild _ _ _ H). apply reads_leaf_erase. exact R.
      + apply (item_reads_equiv wild _ _ _ (item_equiv_sym _ _ H)) in R. apply reads_leaf_erase. exact R.
    - split; intros R.
      + apply (item_reads_equiv wild _ _ _ H). simpl in *. destruct R as [v [Hv Hr]].
        exists (map erase_witem v). split; [exists v; auto|apply wreads_erase; exact Hr].
      + apply (item_reads_equiv wild _ _ _ (item_equiv_sym _ _ H)) in R. simpl in *.
        destruct R as [u [[v [Hv <-]] Hr]]. exists v. split; auto. apply wreads_erase. exact Hr.
  Qed.

  Lemma Forall2_reads_erases : forall w u ws, Forall2 erases w u ->
    (Forall2 reads w ws <-> Forall2 reads u ws).
  Proof.
    intros w u ws F. revert ws. induction F as [|x y w u Hxy F IH]; intros ws.
    - tauto.
    - split; intros R; inversion R as [|? w0 ? ws0 R1 R2]; subst; constructor.
      + apply (proj1 (reads_erases x y w0 Hxy)). exact R1.
      + apply IH. exact R2.
      + apply (proj2 (reads_erases x y w0 Hxy)). exact R1.
      + apply IH. exact R2.
  Qed.

  (** a walk of the automaton over typed words: each word is read by the item of the transition *)
  Inductive wpath (c : cdfa) : N -> list string -> N -> Prop :=
  | wp_nil s : wpath c s [] s
  | wp_cons s i x t w ws s' :
      step (c_main c) s i = Some t -> nthN (d_inputs (c_main c)) i = Some x ->
      reads (item_of_inp c x) w -> wpath c t ws s' -> wpath c s (w :: ws) s'.

  Definition matched_words (c : cdfa) (ws : list string) : Prop :=
    exists s', wpath c (d_start (c_main c)) ws s' /\ is_accepting (c_main c) s' = true.

  (** the items on the transitions that leave a state reached on [ws] *)
  Definition expected (c : cdfa) (ws : list string) (x : inp) : Prop :=
    exists s' i t, wpath c (d_start (c_main c)) ws s' /\ step (c_main c) s' i = Some t /\
                   nthN (d_inputs (c_main c)) i = Some x.

  (** a walk is a run over input ids whose items read the words *)
  Definition ids_read (c : cdfa) (ids : list N) (ws : list string) : Prop :=
    Forall2 (fun i w => exists x, nthN (d_inputs (c_main c)) i = Some x /\ reads (item_of_inp c x) w) ids ws.

  Lemma wpath_ids : forall c s ws s', wpath c s ws s' <->
    exists ids, run (c_main c) s ids = Some s' /\ ids_read c ids ws.
  Proof.
    intros c s ws s'. split.
    - intros P. induction P as [s|s i x t w ws s' Hs Hx Hr P [ids [Hrun F]]].
      + exists []. split; [reflexivity|constructor].
      + exists (i :: ids). split; [simpl; rewrite Hs; exact Hrun|]. constructor; eauto.
    - intros [ids [Hrun F]]. revert s Hrun. induction F as [|i w ids ws [x [Hx Hr]] F IH]; intros s Hrun.
      + simpl in Hrun. inversion Hrun. constructor.
      + simpl in Hrun. destruct (step (c_main c) s i) as [t|] eqn:Es; [|discriminate].
        econstructor; eauto.
  Qed.

  Lemma items_of_ids : forall c ids ws, ids_read c ids ws ->
    exists its, Forall2 (fun i it => exists x, nthN (d_inputs (c_main c)) i = Some x /\
                                       item_equiv (item_of_inp c x) it) ids its /\
                Forall2 reads its ws.
  Proof.
    intros c ids ws F. induction F as [|i w ids ws [x [Hx Hr]] F [its [F1 F2]]].
    - exists []. split; constructor.
    - exists (item_of_inp c x :: its). split; constructor; auto.
      exists x. split; [exact Hx|apply item_equiv_refl].
  Qed.

  Lemma ids_of_items : forall c ids its ws,
    Forall2 (fun i it => exists x, nthN (d_inputs (c_main c)) i = Some x /\
                                   item_equiv (item_of_inp c x) it) ids its ->
    Forall2 reads its ws -> ids_read c ids ws.
  Proof.
    intros c ids its ws F. revert ws. induction F as [|i it ids its [x [Hx He]] F IH]; intros ws R.
    - inversion R. constructor.
    - inversion R; subst. constructor; [|apply IH; assumption].
      exists x. split; [exact Hx|]. eapply item_reads_equiv; [apply item_equiv_sym; exact He|assumption].
  Qed.

  (** matched = some accepted item word reads the command line *)
  Lemma matched_words_items : forall c ws,
    matched_words c ws <-> exists its, accepts_items c its /\ Forall2 reads its ws.
  Proof.
    intros c ws. unfold matched_words. split.
    - intros [s' [P Ha]]. apply wpath_ids in P. destruct P as [ids [Hrun F]].
      destruct (items_of_ids _ _ _ F) as [its [F1 F2]]. exists its. split; [|exact F2].
      exists ids. split; [|exact F1]. unfold accepts, Dfa.accepts_from. rewrite Hrun. exact Ha.
    - intros [its [[ids [Ha F1]] F2]]. unfold accepts, Dfa.accepts_from in Ha.
      destruct (run (c_main c) (d_start (c_main c)) ids) as [s'|] eqn:Hrun; [|discriminate].
      exists s'. split; [|exact Ha]. apply wpath_ids. exists ids. split; [exact Hrun|].
      eapply ids_of_items; eauto.
  Qed.

  (** the canonical erasure of an item *)
  Definition erase_item (x : item) : item :=
    match x with
    | ILeaf a => ILeaf (erase_witem a)
    | IWord L _ => IWord (erase_lang L) 0
    end.

  Lemma erases_erase_item : forall x, erases x (erase_item x).
  Proof. intros [a|L l]; unfold erases, erase_item; apply item_equiv_refl. Qed.

  Lemma Forall2_erase_items : forall its, Forall2 erases its (map erase_item its).
  Proof. induction its; simpl; constructor; auto. apply erases_erase_item. Qed.

  Lemma matched_words_erased : forall c ws,
    matched_words c ws <-> exists u, erased_lang (accepts_items c) u /\ Forall2 reads u ws.
  Proof.
    intros c ws. rewrite matched_words_items. split.
    - intros [its [Ha R]]. exists (map erase_item its).
      split; [exists its; split; [exact Ha|apply Forall2_erase_items]|].
      apply (Forall2_reads_erases _ _ _ (Forall2_erase_items its)). exact R.
    - intros [u [[its [Ha F]] R]]. exists its. split; auto. apply (Forall2_reads_erases _ _ _ F). exact R.
  Qed.

  (** [||] is transparent to matching: same command lines matched ... *)
  Theorem transparent_matched : forall c c',
    (forall u, erased_lang (accepts_items c) u <-> erased_lang (accepts_items c') u) ->
    forall ws, matched_words c ws <-> matched_words c' ws.
  Proof.
    intros c c' H ws. rewrite !matched_words_erased.
    split; intros [u [Hu R]]; exists u; split; auto; apply H; auto.
  Qed.

  Lemma run_ids_inputs : forall d, dfa_wf d -> forall ids s s', run d s ids = Some s' ->
    Forall (fun j => exists x, nthN (d_inputs d) j = Some x) ids.
  Proof.
    intros d W. induction ids as [|j ids IH]; intros s s' H; [constructor|].
    simpl in H. destruct (step d s j) as [t|] eqn:Es; [|discriminate]. constructor; [|eapply IH; eauto].
    apply (step_in d s j t W) in Es. unfold Tables.transitions_from in Es.
    destruct (assocN s (d_trans d)) as [tos|] eqn:Er; [|destruct Es].
    apply assocN_in in Er. destruct W as [_ W]. destruct (W s tos Er) as [_ Hin]. eapply Hin; eauto.
  Qed.

  Lemma items_of_inputs : forall c ids, Forall (fun j => exists x, nthN (d_inputs (c_main c)) j = Some x) ids ->
    exists its, Forall2 (fun i it => exists x, nthN (d_inputs (c_main c)) i = Some x /\
                                       item_equiv (item_of_inp c x) it) ids its.
  Proof.
    intros c ids F. induction F as [|j ids [x Hx] F [its G]]; [exists []; constructor|].
    exists (item_of_inp c x :: its). constructor; auto. exists x. split; auto. apply item_equiv_refl.
  Qed.

  (** ... and the same items expected after them, up to erasure *)
  Theorem transparent_expected : forall c c',
    dfa_wf (c_main c) -> trim (c_main c) ->
    (forall u, erased_lang (accepts_items c) u -> erased_lang (accepts_items c') u) ->
    forall ws x, expected c ws x ->
      exists x' y, expected c' ws x' /\ erases (item_of_inp c x) y /\ erases (item_of_inp c' x') y.
  Proof.
    intros c c' W [_ Hco] H ws x [s' [i [t [P [Hs Hx]]]]].
    apply wpath_ids in P. destruct P as [ids0 [Hrun0 F0]].
    destruct (Hco t (step_In_states _ _ _ _ Hs)) as [rest Hrest].
    assert (Hrunr : exists sr, run (c_main c) t rest = Some sr).
    { unfold Dfa.accepts_from in Hrest. destruct (run (c_main c) t rest) as [sr|]; [eauto|discriminate]. }
    destruct Hrunr as [sr Hrunr].
    assert (Hacc : accepts (c_main c) (ids0 ++ i :: rest) = true).
    { unfold accepts, Dfa.accepts_from. rewrite run_app, Hrun0. simpl. rewrite Hs. exact Hrest. }
    destruct (items_of_ids _ _ _ F0) as [its0 [G0 R0]].
    destruct (items_of_inputs c rest (run_ids_inputs _ W _ _ _ Hrunr)) as [itsr Gr].
    set (xi := item_of_inp c x).
    assert (Hai : accepts_items c (its0 ++ xi :: itsr)).
    { exists (ids0 ++ i :: rest). split; [exact Hacc|]. apply Forall2_app; [exact G0|].
      constructor; [|exact Gr]. exists x. split; [exact Hx|apply item_equiv_refl]. }
    destruct (H (map erase_item (its0 ++ xi :: itsr)))
      as [w' [[ids' [Hacc' G']] F']]; [exists (its0 ++ xi :: itsr); split; [exact Hai|apply Forall2_erase_items]|].
    rewrite map_app in F'. simpl in F'.
    apply Forall2_app_inv_r in F'. destruct F' as [w0' [wr' [F0' [Fr' ->]]]].
    inversion Fr' as [|xit ux wr'' ur Hxit Fr'' E1 E2]; subst. clear Fr'.
    apply Forall2_app_inv_r in G'. destruct G' as [ids0' [idsr' [G0' [Gr' ->]]]].
    inversion Gr' as [|i' xit' rest' wr3 [x' [Hx' Hex']] Gr'' E1 E2]; subst. clear Gr'.
    unfold accepts, Dfa.accepts_from in Hacc'. rewrite run_app in Hacc'.
    destruct (run (c_main c') (d_start (c_main c')) ids0') as [s''|] eqn:Hrun0'; [|discriminate].
    simpl in Hacc'. destruct (step (c_main c') s'' i') as [t'|] eqn:Hs'; [|discriminate].
    exists x', (erase_item xi). split; [|split].
    - exists s'', i', t'. split; [|split; [exact Hs'|exact Hx']].
      apply wpath_ids. exists ids0'. split; [exact Hrun0'|].
      eapply ids_of_items; [exact G0'|].
      apply (Forall2_reads_erases _ _ _ F0'). apply (Forall2_reads_erases _ _ _ (Forall2_erase_items its0)). exact R0.
    - apply erases_erase_item.
    - eapply erases_equiv_l; [apply item_equiv_sym; exact Hex'|exact Hxit].
  Qed.
End Words.

(** *** One walk per command line, outside the known mechanisms *)
Definition known_C09_none (c : cdfa) : Prop := Ambig.find c = None.

Definition none_wild : witem -> string -> Prop := fun _ _ => False.

Lemma none_wild_erase : forall a w, none_wild (erase_witem a) w <-> none_wild a w.
Proof. intros a w. unfold none_wild. tauto. Qed.

Section Unambiguous.
  Variables (pick : nat -> list (list N) -> nat) (fuel : nat) (v : valid_grammar) (c : cdfa).
  Hypothesis Halts : alts_nonempty (v_expr v) = true.
  Hypothesis Hc : compile_valid pick fuel v = Ok c.

  (** reading in the sense of this file is reading in the sense of [Spec.Ambig] *)
  Lemma reads_matches : forall i x w,
    nthN (d_inputs (c_main c)) i = Some x ->
    item_reads none_wild (item_of_inp c x) w -> matches_item c x w.
  Proof.
    intros i x w Hx R. destruct x as [t d l|k l|cm l|cm l|]; simpl in R; try (destruct R; fail).
    - simpl. symmetry. exact R.
    - destruct R as [vv [Hv Hr]].
      assert (Hin : In (ISub k l) (d_inputs (c_main c))) by (unfold nthN in Hx; eapply nth_error_In; eauto).
      destruct (sub_facts pick fuel v c k l Halts Hc Hin) as [sd [Hsd Hok]].
      assert (E : sub_dfa c k = sd) by (unfold sub_dfa; apply nth_error_nth; exact Hsd).
      rewrite E in Hv. simpl. exists sd. split; [exact Hsd|].
      apply (tacc_waccepts sd (so_wf _ Hok)). eauto.
  Qed.

  Hypothesis Hknown : Ambig.find c = None.

  Lemma wpath_det : forall s ws s1, wpath none_wild c s ws s1 ->
    forall s2, wpath none_wild c s ws s2 -> s1 = s2.
  Proof.
    pose proof (find_none_unambiguous c Hknown) as U.
    intros s ws s1 P. induction P as [s|s i x t w ws s1 Hs Hx Hr P IH]; intros s2 P2.
    - inversion P2; subst. reflexivity.
    - inversion P2 as [|? i' x' t' ? ? ? Hs' Hx' Hr' P2']; subst.
      assert (t = t').
      { eapply (U s i i' x x' w t t'); eauto; eapply reads_matches; eauto. }
      subst t'. apply IH. exact P2'.
  Qed.

  (** item words accepted from a state *)
  Definition accepts_items_from (s : N) (r : list item) : Prop :=
    exists ids, Dfa.accepts_from (c_main c) s ids = true /\
      Forall2 (fun i it => exists x, nthN (d_inputs (c_main c)) i = Some x /\
                                     item_equiv (item_of_inp c x) it) ids r.

  Lemma accepts_split : forall p r, accepts_items c (p ++ r) ->
    exists ids0 s, run (c_main c) (d_start (c_main c)) ids0 = Some s /\
      Forall2 (fun i it => exists x, nthN (d_inputs (c_main c)) i = Some x /\
                                     item_equiv (item_of_inp c x) it) ids0 p /\
      accepts_items_from s r.
  Proof.
    intros p r [ids [Ha F]]. apply Forall2_app_inv_r in F. destruct F as [ids0 [idsr [F0 [Fr ->]]]].
    unfold accepts, Dfa.accepts_from in Ha. rewrite run_app in Ha.
    destruct (run (c_main c) (d_start (c_main c)) ids0) as [s|] eqn:Hrun; [|discriminate].
    exists ids0, s. split; [exact Hrun|]. split; [exact F0|]. exists idsr. split; [exact Ha|exact Fr].
  Qed.

  Lemma accepts_join : forall ids0 s p r,
    run (c_main c) (d_start (c_main c)) ids0 = Some s ->
    Forall2 (fun i it => exists x, nthN (d_inputs (c_main c)) i = Some x /\
                                   item_equiv (item_of_inp c x) it) ids0 p ->
    accepts_items_from s r -> accepts_items c (p ++ r).
  Proof.
    intros ids0 s p r Hrun F0 [idsr [Ha Fr]]. exists (ids0 ++ idsr). split; [|apply Forall2_app; assumption].
    unfold accepts, Dfa.accepts_from. rewrite run_app, Hrun. exact Ha.
  Qed.

  (** Grammar side: two readings of the same typed words have the same continuations. *)
  Theorem readings_same_continuations : forall ws p q,
    Forall2 (item_reads none_wild) p ws -> Forall2 (item_reads none_wild) q ws ->
    (exists r, denotes (v_expr v) (p ++ r)) -> (exists r, denotes (v_expr v) (q ++ r)) ->
    forall r, denotes (v_expr v) (p ++ r) <-> denotes (v_expr v) (q ++ r).
  Proof.
    pose proof (driver_correct pick fuel v c Halts Hc) as L.
    assert (G : forall p q ws, Forall2 (item_reads none_wild) p ws -> Forall2 (item_reads none_wild) q ws ->
                (exists r, denotes (v_expr v) (q ++ r)) ->
                forall r, denotes (v_expr v) (p ++ r) -> denotes (v_expr v) (q ++ r)).
    { intros p q ws Rp Rq [r0 Hq] r Hp.
      apply L in Hq. apply accepts_split in Hq. destruct Hq as [ids2 [s2 [Hrun2 [F2 _]]]].
      apply L in Hp. apply accepts_split in Hp. destruct Hp as [ids1 [s1 [Hrun1 [F1 Hr]]]].
      assert (P1 : wpath none_wild c (d_start (c_main c)) ws s1).
      { apply wpath_ids. exists ids1. split; [exact Hrun1|]. eapply ids_of_items; eauto. }
      assert (P2 : wpath none_wild c (d_start (c_main c)) ws s2).
      { apply wpath_ids. exists ids2. split; [exact Hrun2|]. eapply ids_of_items; eauto. }
      rewrite (wpath_det _ _ _ P1 _ P2) in Hr.
      apply L. exact (accepts_join ids2 s2 q r Hrun2 F2 Hr). }
    intros ws p q Rp Rq Hp Hq r. split; [apply (G p q ws); assumption|apply (G q p ws); assumption].
  Qed.
End Unambiguous.

(** Two *distinct expected items* at the same point that read the same word: the special case
    the property names. *)
Corollary same_word_same_continuations : forall pick fuel v c,
  alts_nonempty (v_expr v) = true -> compile_valid pick fuel v = Ok c -> Ambig.find c = None ->
  forall ws p q x y w,
    Forall2 (item_reads none_wild) p ws -> Forall2 (item_reads none_wild) q ws ->
    item_reads none_wild x w -> item_reads none_wild y w ->
    (exists r, denotes (v_expr v) (p ++ x :: r)) -> (exists r, denotes (v_expr v) (q ++ y :: r)) ->
    forall r, denotes (v_expr v) (p ++ x :: r) <-> denotes (v_expr v) (q ++ y :: r).
Proof.
  intros pick fuel v c Ha Hc Hk ws p q x y w Rp Rq Rx Ry [r1 H1] [r2 H2] r.
  assert (E : forall (a : list item) b t, a ++ b :: t = (a ++ [b]) ++ t) by (intros; rewrite <- app_assoc; reflexivity).
  rewrite (E p x r), (E q y r). rewrite (E p x r1) in H1. rewrite (E q y r2) in H2.
  apply (readings_same_continuations pick fuel v c Ha Hc Hk (ws ++ [w])).
  - apply Forall2_app; [exact Rp|repeat constructor; exact Rx].
  - apply Forall2_app; [exact Rq|repeat constructor; exact Ry].
  - exists r1. exact H1.
  - exists r2. exact H2.
Qed.

(** *** [C09_fallback_transparent], on the compiled automata *)
Theorem fallback_transparent_compiled : forall builtins g sh v v' pick fuel pick' fuel' c c',
  from_grammar builtins g sh = Ok v ->
  from_grammar builtins (bar_grammar g) sh = Ok v' ->
  grammar_alts_nonempty g = true ->
  compile_valid pick fuel v = Ok c -> compile_valid pick' fuel' v' = Ok c' ->
  (* the same item words, up to levels and descriptions *)
  (forall u, erased_lang (accepts_items c) u <-> erased_lang (accepts_items c') u) /\
  (* the same command lines matched and the same items expected after them, whatever commands
     and undefined nonterminals read (as long as that does not depend on their level) *)
  (forall wild, (forall a w, wild (erase_witem a) w <-> wild a w) ->
     forall ws,
       (matched_words wild c ws <-> matched_words wild c' ws) /\
       (forall x, expected wild c ws x ->
          exists x' y, expected wild c' ws x' /\ erases (item_of_inp c x) y /\ erases (item_of_inp c' x') y) /\
       (forall x', expected wild c' ws x' ->
          exists x y, expected wild c ws x /\ erases (item_of_inp c' x') y /\ erases (item_of_inp c x) y)) /\
  (* outside the known mechanisms the walk over the words the grammar fixes is unique, in both *)
  (known_C09_none c -> forall ws s1 s2,
     wpath none_wild c (d_start (c_main c)) ws s1 -> wpath none_wild c (d_start (c_main c)) ws s2 -> s1 = s2) /\
  (known_C09_none c' -> forall ws s1 s2,
     wpath none_wild c' (d_start (c_main c')) ws s1 -> wpath none_wild c' (d_start (c_main c')) ws s2 -> s1 = s2).
Proof.
  intros builtins g sh v v' pick fuel pick' fuel' c c' Hv Hv' Hga Hc Hc'.
  pose proof (fallback_transparent_items _ _ _ _ _ _ _ _ _ _ _ Hv Hv' Hga Hc Hc') as HE.
  assert (Hga' : grammar_alts_nonempty (bar_grammar g) = true) by (rewrite grammar_alts_nonempty_bar; exact Hga).
  destruct (check_tree builtins g sh v Hv) as [_ [_ [_ Ha]]]. specialize (Ha Hga).
  destruct (check_tree builtins (bar_grammar g) sh v' Hv') as [_ [_ [_ Ha']]]. specialize (Ha' Hga').
  destruct (compiled_facts pick fuel v c Ha Hc) as [_ [W [_ T]]].
  destruct (compiled_facts pick' fuel' v' c' Ha' Hc') as [_ [W' [_ T']]].
  split; [exact HE|]. split; [|split].
  - intros wild Hw ws. split; [apply (transparent_matched wild Hw c c' HE)|]. split.
    + intros x Hx. apply (transparent_expected wild Hw c c' W T (fun u => proj1 (HE u)) ws x Hx).
    + intros x' Hx'. apply (transparent_expected wild Hw c' c W' T' (fun u => proj2 (HE u)) ws x' Hx').
  - intros Hk ws s1 s2 P1 P2. eapply (wpath_det pick fuel v c Ha Hc Hk); eauto.
  - intros Hk ws s1 s2 P1 P2. eapply (wpath_det pick' fuel' v' c' Ha' Hc' Hk); eauto.
Qed.

(** the same with the side condition in the boolean form of [Props/C09.v] ([known_C09]) *)
Definition known_b (c : cdfa) : bool := match Ambig.find c with Some _ => true | None => false end.

Lemma known_b_none : forall c, known_b c = false -> Ambig.find c = None.
Proof. intros c H. unfold known_b in H. destruct (Ambig.find c); [discriminate|reflexivity]. Qed.

Theorem fallback_transparent_compiled_b : forall builtins g sh v v' pick fuel pick' fuel' c c',
  from_grammar builtins g sh = Ok v ->
  from_grammar builtins (bar_grammar g) sh = Ok v' ->
  grammar_alts_nonempty g = true ->
  compile_valid pick fuel v = Ok c -> compile_valid pick' fuel' v' = Ok c' ->
  (forall u, erased_lang (accepts_items c) u <-> erased_lang (accepts_items c') u) /\
  (forall wild, (forall a w, wild (erase_witem a) w <-> wild a w) ->
     forall ws,
       (matched_words wild c ws <-> matched_words wild c' ws) /\
       (forall x, expected wild c ws x ->
          exists x' y, expected wild c' ws x' /\ erases (item_of_inp c x) y /\ erases (item_of_inp c' x') y) /\
       (forall x', expected wild c' ws x' ->
          exists x y, expected wild c ws x /\ erases (item_of_inp c' x') y /\ erases (item_of_inp c x) y)) /\
  (known_b c = false -> forall ws s1 s2,
     wpath none_wild c (d_start (c_main c)) ws s1 -> wpath none_wild c (d_start (c_main c)) ws s2 -> s1 = s2) /\
  (known_b c' = false -> forall ws s1 s2,
     wpath none_wild c' (d_start (c_main c')) ws s1 -> wpath none_wild c' (d_start (c_main c')) ws s2 -> s1 = s2).
Proof.
  intros builtins g sh v v' pick fuel pick' fuel' c c' Hv Hv' Hga Hc Hc'.
  destruct (fallback_transparent_compiled _ _ _ _ _ _ _ _ _ _ _ Hv Hv' Hga Hc Hc') as [A [B [C D]]].
  split; [exact A|]. split; [exact B|]. split.
  - intros Hk. apply C. apply known_b_none. exact Hk.
  - intros Hk. apply D. apply known_b_none. exact Hk.
Qed.

Theorem unambiguous_compiled_b : forall pick fuel v c,
  alts_nonempty (v_expr v) = true -> compile_valid pick fuel v = Ok c -> known_b c = false ->
  (forall ws p q,
     Forall2 (item_reads none_wild) p ws -> Forall2 (item_reads none_wild) q ws ->
     (exists r, denotes (v_expr v) (p ++ r)) -> (exists r, denotes (v_expr v) (q ++ r)) ->
     forall r, denotes (v_expr v) (p ++ r) <-> denotes (v_expr v) (q ++ r)) /\
  (forall ws p q x y w,
     Forall2 (item_reads none_wild) p ws -> Forall2 (item_reads none_wild) q ws ->
     item_reads none_wild x w -> item_reads none_wild y w ->
     (exists r, denotes (v_expr v) (p ++ x :: r)) -> (exists r, denotes (v_expr v) (q ++ y :: r)) ->
     forall r, denotes (v_expr v) (p ++ x :: r) <-> denotes (v_expr v) (q ++ y :: r)).
Proof.
  intros pick fuel v c Ha Hc Hk. apply known_b_none in Hk. split.
  - apply (readings_same_continuations pick fuel v c Ha Hc Hk).
  - apply (same_word_same_continuations pick fuel v c Ha Hc Hk).
Qed.

(** the [|] variant through the pipeline, from a text *)
Definition compile_bar (pick : nat -> list (list N) -> nat) (fuel : nat)
           (builtins : shell -> list (string * string)) (text : string) (sh : shell) : dres cdfa :=
  match Parser.parse text with
  | Ok g => do v <- lift DCheck (from_grammar builtins (bar_grammar g) sh); compile_valid pick fuel v
  | Err sp => Err (DParse sp)
  | Panic s => Panic s
  | OutOfFuel => OutOfFuel
  end.
