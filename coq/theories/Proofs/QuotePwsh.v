(** C07, pwsh: what it takes to close the smart-quote finding.  If pwsh.rs appended, AFTER its five
    replacements, one [.replace(q, "`q")] for each of U+201C, U+201D, U+201E (three-byte UTF-8
    patterns E2 80 9C/9D/9E), every string would read back.  The replace chain is then no longer
    characterwise on bytes; the argument is: (1) a pass with a three-byte pattern whose replacement
    is backtick + pattern inserts a backtick before every occurrence ([replace_ins]); (2) on top of
    the bytewise image of the first five replacements, the three passes insert a backtick exactly
    before the smart quotes of the ORIGINAL string ([passes_enc]); (3) PowerShell reads backtick + E2
    as E2 ([enc_reads]).  All facts about the existing chain are closed computations over the 256
    bytes of the regenerated chain. *)
From CG Require Import Base.Prelude Model.Ast Model.Quote Spec.ShellDQ Proofs.QuoteRT.
From CGgen Require Import Consts.
Open Scope N_scope.
Open Scope list_scope.

Definition bE2 : ascii := ch 226.
Definition b80 : ascii := ch 128.
Definition is_tail (x : ascii) : bool := is_one_of x [ch 156; ch 157; ch 158].

Definition smart (x : ascii) : string := String bE2 (String b80 (String x EmptyString)).
Definition smart_chain : list (string * string) :=
  map (fun x => (smart x, String c_bt (smart x))) [ch 156; ch 157; ch 158].

(** ** (1) one pass *)
Fixpoint drop (n : nat) (s : string) : string :=
  match n, s with
  | O, _ => s
  | S k, String _ t => drop k t
  | S _, EmptyString => EmptyString
  end.

Lemma replace_go_skip p r k s :
  (k <= String.length s)%nat -> replace_go p r k s = replace_go p r O (drop k s).
Proof.
  revert s. induction k as [|k IH]; intros s H; [reflexivity|].
  destruct s as [|c t]; [cbn in H; lia|]. cbn [replace_go drop]. apply IH. cbn in H. lia.
Qed.

Lemma is_prefix_length p s : is_prefix p s = true -> (String.length p <= String.length s)%nat.
Proof.
  revert s. induction p as [|a p IH]; intros s H; [cbn; lia|].
  destruct s as [|b s]; [discriminate|]. cbn in H. destruct (Ascii.eqb a b); [|discriminate].
  cbn. specialize (IH _ H). lia.
Qed.

Lemma replace_cons a p' r c t :
  replace_all (String a p') r (String c t) =
  if is_prefix (String a p') (String c t) then append r (replace_all (String a p') r (drop (String.length p') t))
  else String c (replace_all (String a p') r t).
Proof.
  unfold replace_all. cbn [replace_go]. destruct (is_prefix (String a p') (String c t)) eqn:E; [|reflexivity].
  rewrite replace_go_skip; [reflexivity|]. apply is_prefix_length in E. cbn in E. lia.
Qed.

(** a backtick before every occurrence of E2 80 x *)
Definition starts3 (x : ascii) (u : string) : bool :=
  match u with
  | String c (String d (String e _)) => Ascii.eqb c bE2 && Ascii.eqb d b80 && Ascii.eqb e x
  | _ => false
  end.

Fixpoint ins (x : ascii) (u : string) : string :=
  match u with
  | EmptyString => EmptyString
  | String c t => if starts3 x u then String c_bt (String c (ins x t)) else String c (ins x t)
  end.

Lemma starts3_prefix x u : starts3 x u = is_prefix (smart x) u.
Proof.
  unfold starts3, smart. destruct u as [|c [|d [|e u]]]; cbn [is_prefix].
  - reflexivity.
  - destruct (Ascii.eqb bE2 c); reflexivity.
  - destruct (Ascii.eqb bE2 c); [|reflexivity]. destruct (Ascii.eqb b80 d); reflexivity.
  - rewrite (Ascii.eqb_sym c bE2), (Ascii.eqb_sym d b80), (Ascii.eqb_sym e x).
    destruct (Ascii.eqb bE2 c); [|reflexivity]. destruct (Ascii.eqb b80 d); [|reflexivity]. destruct (Ascii.eqb x e); reflexivity.
Qed.

Lemma replace_ins x :
  Ascii.eqb x bE2 = false ->
  forall n u, (String.length u <= n)%nat ->
    replace_all (smart x) (String c_bt (smart x)) u = ins x u.
Proof.
  intros Hx. induction n as [|n IH]; intros u Hn.
  - destruct u; [reflexivity | cbn in Hn; lia].
  - destruct u as [|c t]; [reflexivity|].
    unfold smart at 1. rewrite replace_cons. fold (smart x). rewrite <- starts3_prefix. cbn [ins].
    destruct (starts3 x (String c t)) eqn:E.
    + (* c = E2, t = 80 :: x :: t3 *)
      destruct t as [|d [|e t3]]; try discriminate E. cbn [starts3] in E.
      apply andb_prop in E. destruct E as [E E3]. apply andb_prop in E. destruct E as [E1 E2].
      apply Ascii.eqb_eq in E1, E2, E3. subst c d e.
      cbn [String.length drop]. rewrite (IH t3) by (cbn in Hn; lia).
      unfold smart. cbn [append]. do 2 f_equal.
      (* 80 and x do not start an occurrence *)
      cbn [ins starts3]. change (Ascii.eqb b80 bE2) with false. cbn [andb]. rewrite Hx. cbn [andb].
      destruct t3 as [|? [|? ?]]; reflexivity.
    + f_equal. apply IH. cbn in Hn. lia.
Qed.

(** ** (2) the passes on top of a bytewise image *)
Definition hi (c : ascii) : bool := Nat.leb 128 (nat_of_ascii c).

Fixpoint lo_string (s : string) : bool :=
  match s with EmptyString => true | String b t => negb (hi b) && lo_string t end.

Definition smart_start (qs : list ascii) (s : string) : bool :=
  match s with
  | String c (String d (String e _)) => Ascii.eqb c bE2 && Ascii.eqb d b80 && is_one_of e qs
  | _ => false
  end.

Section Enc.
Variable f : ascii -> string.
Hypothesis f_hi : forall c, hi c = true -> f c = String c EmptyString.
Hypothesis f_lo : forall c, hi c = false -> lo_string (f c) = true /\ f c <> EmptyString.

Definition tick (b : bool) : string := if b then String c_bt EmptyString else EmptyString.

Fixpoint encQ (qs : list ascii) (s : string) : string :=
  match s with
  | EmptyString => EmptyString
  | String c t => append (tick (smart_start qs s)) (append (f c) (encQ qs t))
  end.

Lemma encQ_nil s : encQ [] s = cmap f s.
Proof.
  induction s as [|c t IH]; [reflexivity|]. cbn [encQ cmap]. rewrite IH.
  assert (E : smart_start [] (String c t) = false).
  { destruct t as [|d [|e t']]; try reflexivity. cbn. rewrite andb_false_r. reflexivity. }
  rewrite E. reflexivity.
Qed.

Lemma hi_E2 : hi bE2 = true. Proof. reflexivity. Qed.
Lemma hi_80 : hi b80 = true. Proof. reflexivity. Qed.
Lemma lo_bt : hi c_bt = false. Proof. reflexivity. Qed.

Lemma lo_not x c : hi x = true -> hi c = false -> Ascii.eqb c x = false.
Proof. intros Hx Hc. destruct (Ascii.eqb_spec c x); [subst; congruence | reflexivity]. Qed.

Lemma ins_lo x a u : hi x = true -> lo_string a = true -> ins x (append a u) = append a (ins x u).
Proof.
  intros Hx. induction a as [|b a IH]; intros Ha; [reflexivity|]. cbn [lo_string] in Ha. apply andb_prop in Ha.
  destruct Ha as [Hb Ha]. apply negb_true_iff in Hb. cbn [append ins].
  assert (E : starts3 x (String b (a ++ u)) = false).
  { unfold starts3. destruct (a ++ u)%string as [|d [|e ?]]; try reflexivity.
    rewrite (lo_not bE2 b hi_E2 Hb). reflexivity. }
  rewrite E, (IH Ha). reflexivity.
Qed.

(** the first byte of an encoding *)
Lemma encQ_head qs c t :
  shd (encQ qs (String c t)) =
  if smart_start qs (String c t) then Some c_bt else shd (f c).
Proof.
  cbn [encQ]. destruct (smart_start qs (String c t)); cbn [tick append shd]; [reflexivity|].
  destruct (hi c) eqn:Hc.
  - rewrite (f_hi c Hc). reflexivity.
  - destruct (f_lo c Hc) as [_ Hne]. destruct (f c); [congruence | reflexivity].
Qed.

Lemma head_hi_eq c h : shd (f c) = Some h -> hi h = true -> c = h.
Proof.
  intros Hh Hhi. destruct (hi c) eqn:Hc.
  - rewrite (f_hi c Hc) in Hh. cbn in Hh. congruence.
  - destruct (f_lo c Hc) as [Hlo _]. destruct (f c) as [|b r]; [discriminate|]. cbn in Hh. inversion Hh; subst b.
    cbn [lo_string] in Hlo. apply andb_prop in Hlo. destruct Hlo as [Hb _]. apply negb_true_iff in Hb. congruence.
Qed.

(** does E2 followed by the encoding of [t] start an occurrence?  exactly when E2 followed by [t] does *)
Lemma starts3_enc x qs t :
  hi x = true -> Ascii.eqb x bE2 = false ->
  starts3 x (String bE2 (encQ qs t)) = starts3 x (String bE2 t).
Proof.
  intros Hx HxE. destruct t as [|d t1]; [reflexivity|].
  (* first byte *)
  pose proof (encQ_head qs d t1) as H1.
  destruct (smart_start qs (String d t1)) eqn:S1.
  - (* d = E2: the encoding starts with a backtick; the source with E2, not 80 *)
    destruct t1 as [|e [|g t3]]; try discriminate S1. cbn [smart_start] in S1.
    apply andb_prop in S1. destruct S1 as [S1 _]. apply andb_prop in S1. destruct S1 as [S1 _].
    apply Ascii.eqb_eq in S1. subst d.
    destruct (encQ qs (String bE2 (String e (String g t3)))) as [|h1 r1] eqn:E; [discriminate H1|].
    cbn in H1. inversion H1; subst h1. cbn [starts3].
    change (Ascii.eqb bE2 b80) with false. rewrite andb_false_r.
    destruct r1 as [|? ?]; [reflexivity|]. change (Ascii.eqb c_bt b80) with false. rewrite andb_false_r. reflexivity.
  - destruct (Ascii.eqb_spec d b80) as [->|Hd].
    + (* d = 80: f 80 = [80]; look at the second byte *)
      cbn [encQ]. rewrite S1. cbn [tick append]. rewrite (f_hi b80 hi_80). cbn [append].
      destruct t1 as [|e t2]; [reflexivity|].
      pose proof (encQ_head qs e t2) as H2.
      destruct (encQ qs (String e t2)) as [|h2 r2] eqn:E2.
      * (* impossible: encodings of non-empty strings are non-empty *)
        exfalso. destruct (smart_start qs (String e t2)); [discriminate H2|].
        destruct (hi e) eqn:He; [rewrite (f_hi e He) in H2; discriminate H2|].
        destruct (f_lo e He) as [_ Hne]. destruct (f e); [congruence | discriminate H2].
      * cbn [starts3]. rewrite !Ascii.eqb_refl. cbn [andb].
        cbn [shd] in H2. destruct (smart_start qs (String e t2)) eqn:S2.
        -- inversion H2; subst h2.
           destruct t2 as [|? [|? ?]]; try discriminate S2. cbn [smart_start] in S2.
           apply andb_prop in S2. destruct S2 as [S2 _]. apply andb_prop in S2. destruct S2 as [S2 _].
           apply Ascii.eqb_eq in S2. subst e.
           rewrite (lo_not x c_bt Hx lo_bt). rewrite (Ascii.eqb_sym bE2 x), HxE. reflexivity.
        -- destruct (Ascii.eqb_spec h2 x) as [->|Hne].
           ++ rewrite (head_hi_eq e x (eq_sym H2) Hx). rewrite Ascii.eqb_refl. reflexivity.
           ++ destruct (Ascii.eqb_spec e x) as [->|Hne2]; [|reflexivity].
              exfalso. rewrite (f_hi x Hx) in H2. cbn in H2. congruence.
    + (* d <> 80: neither side starts an occurrence *)
      assert (Hs : starts3 x (String bE2 (String d t1)) = false).
      { unfold starts3. destruct t1; [reflexivity|]. apply Ascii.eqb_neq in Hd. rewrite Hd. rewrite andb_false_r. reflexivity. }
      rewrite Hs. destruct (encQ qs (String d t1)) as [|h1 r1] eqn:E; [reflexivity|].
      cbn in H1. assert (Hh : Ascii.eqb h1 b80 = false).
      { destruct (Ascii.eqb_spec h1 b80) as [->|]; [|reflexivity]. exfalso. apply Hd. apply (head_hi_eq d b80 (eq_sym H1) hi_80). }
      unfold starts3. destruct r1; [reflexivity|]. rewrite Hh, andb_false_r. reflexivity.
Qed.

Lemma smart_start_E2 qs c t : smart_start qs (String c t) = true -> c = bE2.
Proof.
  destruct t as [|d [|e t3]]; try discriminate. cbn [smart_start]. intros H.
  apply andb_prop in H. destruct H as [H _]. apply andb_prop in H. destruct H as [H _]. apply Ascii.eqb_eq in H. exact H.
Qed.

Lemma ins_enc x qs s :
  hi x = true -> Ascii.eqb x bE2 = false -> is_one_of x qs = false ->
  ins x (encQ qs s) = encQ (x :: qs) s.
Proof.
  intros Hx HxE Hxq. induction s as [|c t IH]; [reflexivity|].
  cbn [encQ]. destruct (smart_start qs (String c t)) eqn:S.
  - (* a smart quote already escaped: c = E2, t = 80 y ..., y in qs *)
    pose proof (smart_start_E2 _ _ _ S) as ->. rewrite (f_hi bE2 hi_E2). cbn [tick append].
    assert (S' : smart_start (x :: qs) (String bE2 t) = true).
    { destruct t as [|d [|e t3]]; try discriminate S. cbn [smart_start] in *.
      change (is_one_of e (x :: qs)) with (Ascii.eqb e x || is_one_of e qs).
      apply andb_prop in S. destruct S as [S1 S2]. rewrite S1, S2, orb_true_r. reflexivity. }
    rewrite S'. cbn [tick append ins]. 
    assert (E1 : starts3 x (String c_bt (String bE2 (encQ qs t))) = false).
    { unfold starts3. destruct (encQ qs t); reflexivity. }
    rewrite E1.
    assert (E2 : starts3 x (String bE2 (encQ qs t)) = false).
    { rewrite (starts3_enc x qs t Hx HxE). destruct t as [|d [|e t3]]; try discriminate S. cbn [smart_start starts3] in *.
      apply andb_prop in S. destruct S as [S1 S2].
      destruct (Ascii.eqb_spec e x) as [->|Hne]; [congruence | rewrite andb_false_r; reflexivity]. }
    destruct (encQ qs t) as [|k1 r1] eqn:EK.
    + cbn [ins starts3]. rewrite <- IH. reflexivity.
    + cbn [ins]. rewrite E2. rewrite <- IH. reflexivity.
  - cbn [tick append]. destruct (hi c) eqn:Hc.
    + rewrite (f_hi c Hc). cbn [append ins].
      destruct (Ascii.eqb_spec c bE2) as [->|Hne].
      * rewrite (starts3_enc x qs t Hx HxE).
        assert (B : smart_start (x :: qs) (String bE2 t) = starts3 x (String bE2 t)).
        { destruct t as [|d [|e t3]]; try reflexivity. cbn [smart_start starts3] in *.
          change (is_one_of e (x :: qs)) with (Ascii.eqb e x || is_one_of e qs).
          rewrite Ascii.eqb_refl in *. cbn [andb] in *.
          destruct (Ascii.eqb d b80); [|reflexivity]. cbn [andb] in *. rewrite S, orb_false_r. reflexivity. }
        rewrite B. destruct (starts3 x (String bE2 t)); cbn [tick append]; rewrite IH; reflexivity.
      * assert (E : starts3 x (String c (encQ qs t)) = false).
        { unfold starts3. destruct (encQ qs t) as [|? [|? ?]]; try reflexivity. apply Ascii.eqb_neq in Hne. rewrite Hne. reflexivity. }
        assert (E' : smart_start (x :: qs) (String c t) = false).
        { destruct t as [|d [|e t3]]; try reflexivity. cbn [smart_start]. apply Ascii.eqb_neq in Hne. rewrite Hne. reflexivity. }
        rewrite E, E', IH. reflexivity.
    + destruct (f_lo c Hc) as [Hlo _]. rewrite (ins_lo x (f c) _ Hx Hlo), IH.
      assert (E' : smart_start (x :: qs) (String c t) = false).
      { destruct t as [|d [|e t3]]; try reflexivity. cbn [smart_start]. rewrite (lo_not bE2 c hi_E2 Hc). reflexivity. }
      rewrite E'. reflexivity.
Qed.
End Enc.

(** ** (3) PowerShell reads the encoding back *)
Definition all3 : list ascii := [ch 158; ch 157; ch 156].

Section Reads.
Variable f : ascii -> string.
Hypothesis f_hi : forall c, hi c = true -> f c = String c EmptyString.
Hypothesis f_lo : forall c, hi c = false -> lo_string (f c) = true /\ f c <> EmptyString.
Hypothesis f_bt : shd (f c_bt) = Some c_bt.
Definition follower_f (o : option ascii) : option ascii :=
  match o with Some c' => shd (f c') | None => Some c_dq end.
Hypothesis Hstep : forall c o K t rest,
  hazard Pwsh c o = false -> shd K = follower_f o ->
  read_body Pwsh K = Some (t, rest) ->
  read_body Pwsh (append (f c) K) = Some (String c t, rest).

Lemma tail_hi e : is_one_of e all3 = true -> hi e = true.
Proof.
  unfold is_one_of, all3. cbn [existsb]. intros H.
  repeat (apply orb_prop in H; destruct H as [H|H]); try discriminate;
    apply Ascii.eqb_eq in H; subst; reflexivity.
Qed.

Lemma enc_reads s rest :
  safe Pwsh rest = true ->
  read_body Pwsh (append (encQ f all3 s) (String c_dq rest)) = Some (s, rest).
Proof.
  intros Hsafe. induction s as [|c t IH].
  - cbn [encQ append]. rewrite read_body_unfold, (close_ok Pwsh rest Hsafe). reflexivity.
  - cbn [encQ]. rewrite !append_assoc.
    set (K := append (encQ f all3 t) (String c_dq rest)) in *.
    destruct (smart_start all3 (String c t)) eqn:S.
    + (* an escaped smart quote: backtick, E2, then the rest *)
      pose proof (smart_start_E2 _ _ _ S) as ->. rewrite (f_hi bE2 (hi_E2)). cbn [tick append].
      rewrite read_body_unfold. cbn [shd stl classify]. rewrite IH. reflexivity.
    + cbn [tick append].
      set (o := if smart_start all3 t then Some c_bt else shd t).
      assert (HK : shd K = follower_f o).
      { unfold K, o. destruct t as [|d t1]; [reflexivity|].
        pose proof (encQ_head f f_hi f_lo all3 d t1) as H.
        destruct (encQ f all3 (String d t1)) as [|h r] eqn:E.
        - exfalso. destruct (smart_start all3 (String d t1)); [discriminate H|].
          destruct (hi d) eqn:Hd; [rewrite (f_hi d Hd) in H; discriminate H|].
          destruct (f_lo d Hd) as [_ Hne]. destruct (f d); [congruence | discriminate H].
        - cbn [append shd] in *. rewrite H. destruct (smart_start all3 (String d t1)); [symmetry; exact f_bt | reflexivity]. }
      destruct (hazard Pwsh c o) eqn:Hz; [|apply (Hstep c o K t rest Hz HK IH)].
      (* E2 followed by 80, but not by a smart-quote tail *)
      cbn [hazard] in Hz. apply andb_prop in Hz. destruct Hz as [Hc Ho]. apply Ascii.eqb_eq in Hc. subst c.
      change (ch 226) with bE2 in *. unfold o in Ho. destruct (smart_start all3 t) eqn:St; [discriminate Ho|].
      destruct t as [|d t1]; [discriminate Ho|]. cbn [shd] in Ho. apply Ascii.eqb_eq in Ho. subst d.
      change (ch 128) with b80 in *.
      rewrite (f_hi bE2 hi_E2). cbn [append].
      unfold K in *. cbn [encQ] in IH |- *. rewrite St in IH |- *. cbn [tick append] in IH |- *.
      rewrite (f_hi b80 hi_80) in IH |- *. cbn [append] in IH |- *. rewrite ?append_assoc in IH |- *.
      set (K1 := append (encQ f all3 t1) (String c_dq rest)) in *.
      rewrite read_body_unfold. cbn [shd stl classify]. unfold classify_pwsh at 1.
      change (Ascii.eqb bE2 (ch 226)) with true. cbn iota.
      assert (Hn : is_smart_quote_tail (Some b80) (shd K1) = false).
      { unfold is_smart_quote_tail. change (Ascii.eqb b80 (ch 128)) with true. cbn [andb].
        unfold K1. destruct t1 as [|e t2]; [reflexivity|].
        pose proof (encQ_head f f_hi f_lo all3 e t2) as H.
        destruct (encQ f all3 (String e t2)) as [|h r] eqn:E; [reflexivity|]. cbn [append shd] in *.
        destruct (smart_start all3 (String e t2)); [inversion H; reflexivity|].
        destruct (is_one_of h [ch 156; ch 157; ch 158]) eqn:Eh; [|reflexivity]. exfalso.
        assert (Hh : is_one_of h all3 = true).
        { unfold is_one_of, all3 in *. cbn [existsb] in *. rewrite !orb_false_r in *.
          destruct (Ascii.eqb h (ch 156)), (Ascii.eqb h (ch 157)), (Ascii.eqb h (ch 158)); try discriminate; reflexivity. }
        pose proof (head_hi_eq f f_hi f_lo e h (eq_sym H) (tail_hi h Hh)) as ->.
        cbn [smart_start] in S. rewrite !Ascii.eqb_refl, Hh in S. discriminate S. }
      rewrite Hn, IH. reflexivity.
Qed.
End Reads.

(** ** the facts about the present chain (closed computations over the 256 bytes) *)
Definition f_hi_ok : bool :=
  forallb (fun c => implb (hi c) (String.eqb (imgc Pwsh c) (String c EmptyString))) all_bytes.
Definition f_lo_ok : bool :=
  forallb (fun c => implb (negb (hi c)) (lo_string (imgc Pwsh c) && negb (String.eqb (imgc Pwsh c) EmptyString))) all_bytes.

Lemma f_hi_ok_true : f_hi_ok = true. Proof. vm_compute. reflexivity. Qed.
Lemma f_lo_ok_true : f_lo_ok = true. Proof. vm_compute. reflexivity. Qed.

Lemma f_hi_pwsh c : hi c = true -> imgc Pwsh c = String c EmptyString.
Proof.
  intros H. pose proof f_hi_ok_true as T. unfold f_hi_ok in T. rewrite forallb_forall in T.
  specialize (T c (all_bytes_complete c)). rewrite H in T. apply String.eqb_eq. exact T.
Qed.

Lemma f_lo_pwsh c : hi c = false -> lo_string (imgc Pwsh c) = true /\ imgc Pwsh c <> EmptyString.
Proof.
  intros H. pose proof f_lo_ok_true as T. unfold f_lo_ok in T. rewrite forallb_forall in T.
  specialize (T c (all_bytes_complete c)). rewrite H in T. cbn [negb implb] in T.
  apply andb_prop in T. destruct T as [T1 T2]. split; [exact T1|]. apply negb_true_iff in T2.
  intros E. rewrite E in T2. discriminate T2.
Qed.

Lemma f_bt_pwsh : shd (imgc Pwsh c_bt) = Some c_bt.
Proof. vm_compute. reflexivity. Qed.

Lemma single_pwsh : single_patterns (chain Pwsh) = true.
Proof. vm_compute. reflexivity. Qed.

Lemma step_pwsh c o K t rest :
  hazard Pwsh c o = false -> shd K = follower_f (imgc Pwsh) o ->
  read_body Pwsh K = Some (t, rest) ->
  read_body Pwsh (append (imgc Pwsh c) K) = Some (String c t, rest).
Proof.
  intros Hz HK IH. apply (body_step_gen Pwsh c o K t rest); [|exact HK | exact IH].
  apply (pairs_table_sound Pwsh pwsh_pairs_ok). exact Hz.
Qed.

Lemma apply_chain_app a b s : apply_chain (a ++ b) s = apply_chain b (apply_chain a s).
Proof. unfold apply_chain. apply fold_left_app. Qed.

(** the chain pwsh.rs would have after the repair *)
Definition patched_chain : list (string * string) := chain Pwsh ++ smart_chain.

Lemma patched_encoding s : apply_chain patched_chain s = encQ (imgc Pwsh) all3 s.
Proof.
  unfold patched_chain. rewrite apply_chain_app, (chain_charwise _ single_pwsh).
  change (img (chain Pwsh)) with (imgc Pwsh).
  unfold smart_chain, apply_chain. cbn [map fold_left fst snd].
  rewrite (replace_ins (ch 156) eq_refl _ _ (Nat.le_refl _)).
  rewrite (replace_ins (ch 157) eq_refl _ _ (Nat.le_refl _)).
  rewrite (replace_ins (ch 158) eq_refl _ _ (Nat.le_refl _)).
  rewrite <- (encQ_nil (imgc Pwsh) s).
  rewrite (ins_enc (imgc Pwsh) f_hi_pwsh f_lo_pwsh (ch 156) [] s eq_refl eq_refl eq_refl).
  rewrite (ins_enc (imgc Pwsh) f_hi_pwsh f_lo_pwsh (ch 157) [ch 156] s eq_refl eq_refl eq_refl).
  rewrite (ins_enc (imgc Pwsh) f_hi_pwsh f_lo_pwsh (ch 158) [ch 157; ch 156] s eq_refl eq_refl eq_refl).
  reflexivity.
Qed.

(** with the three extra replacements every string reads back: no hazard class is left *)
Theorem pwsh_patched_total s rest :
  safe Pwsh rest = true ->
  read Pwsh (append (append dq_string (append (apply_chain patched_chain s) dq_string)) rest) = Some (s, rest).
Proof.
  intros Hsafe. rewrite patched_encoding. unfold dq_string. cbn [append read].
  change (Ascii.eqb c_dq c_dq) with true. cbn iota. rewrite append_assoc. cbn [append].
  apply (enc_reads (imgc Pwsh) f_hi_pwsh f_lo_pwsh f_bt_pwsh step_pwsh). exact Hsafe.
Qed.
