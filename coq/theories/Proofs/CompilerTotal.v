(** Totality of the capstone [Compiler.compile_bash]: after [Driver.compile] succeeded, the tables of
    tables.rs and the bash emitter never reach a panic site -- every [unwrap] / intern-pool lookup /
    level index of the modelled code is covered by what the pipeline guarantees about its automata
    (well-formed tables, every within-word automaton referenced is in the pool) and by the validation
    of the oracles -- so [compile_bash] returns a script, a rejection of the grammar, or
    [CBadOracle]; never [Panic], never [OutOfFuel] (under [fuel_covers]). *)
From CG Require Import Base.Prelude Model.Ast Model.Check Model.Regex Model.Dfa Model.Subset Model.Driver.
From CG Require Import Model.Tables Model.EmitBash Model.Compiler.
From CG Require Import Proofs.TablesSound.
From CG Require Proofs.MinimizeBasics.
From CG Require Import Model.Tpl Model.EmitData.
From CGgen Require Import Consts TplBash.
Open Scope N_scope.
Open Scope list_scope.

(** *** generic *)
Lemma omap_tot {E A B} (f : A -> outcome E B) l :
  (forall x, In x l -> exists y, f x = Ok y) -> exists ys, omap f l = Ok ys.
Proof.
  induction l as [|x r IH]; intro H; cbn [omap]; [eauto|].
  destruct (H x (or_introl eq_refl)) as [y Hy]. rewrite Hy. cbn [obind].
  destruct IH as [ys Hys]; [intros z Hz; apply H; right; exact Hz|]. rewrite Hys. cbn [obind]. eauto.
Qed.

Lemma update_nth_total {A} n (f : A -> A) l :
  (n < List.length l)%nat -> exists l', update_nth n f l = Some l' /\ List.length l' = List.length l.
Proof.
  revert n. induction l as [|x r IH]; intros n H; cbn [List.length] in H; [lia|].
  destruct n as [|n]; cbn [update_nth].
  - eexists. split; [reflexivity|reflexivity].
  - destruct (IH n) as [l' [E L]]; [lia|]. rewrite E. cbn [option_map]. eexists. split; [reflexivity|].
    cbn [List.length]. lia.
Qed.

Lemma index_of_some c l : In c l -> exists k, index_of c l = Some k.
Proof.
  induction l as [|x r IH]; intros H; [contradiction|]. cbn [index_of].
  destruct (String.eqb c x) eqn:E; [eauto|].
  destruct H as [H|H]; [subst; rewrite String.eqb_refl in E; discriminate|].
  destruct (IH H) as [k Hk]. rewrite Hk. cbn. eauto.
Qed.

Lemma push_new_in c l x : In x (push_new c l) <-> x = c \/ In x l.
Proof.
  unfold push_new. destruct (mem_str c l) eqn:E.
  - split; [auto|]. intros [->|H]; [|exact H]. unfold mem_str in E. apply existsb_exists in E.
    destruct E as [y [Hy Ey]]. apply String.eqb_eq in Ey. subst. exact Hy.
  - rewrite in_app_iff. cbn. intuition.
Qed.

(** *** reading the transitions *)
Lemma rtrans_total d : dfa_wf d -> exists rt, rtrans d = Ok rt.
Proof.
  intros [_ Hrows]. unfold rtrans. apply omap_tot. intros [[f i] t] Hin.
  apply iter_transitions_in in Hin. destruct Hin as [tos [H1 H2]].
  destruct (Hrows _ _ H1) as [_ Hx]. destruct (Hx _ _ H2) as [x Ex].
  unfold get_input. rewrite Ex. cbn. eauto.
Qed.

Lemma rtrans_from_total d s : dfa_wf d -> exists tr, rtrans_from d s = Ok tr.
Proof.
  intros [_ Hrows]. unfold rtrans_from, transitions_from. apply omap_tot. intros [i t] Hin.
  destruct (assocN s (d_trans d)) as [tos|] eqn:E; [|contradiction].
  apply assocN_in in E. destruct (Hrows _ _ E) as [_ Hx]. destruct (Hx _ _ Hin) as [x Ex].
  cbn [fst snd]. unfold get_input. rewrite Ex. cbn. eauto.
Qed.

Lemma rtrans_from_rt d s tr rt x to :
  dfa_wf d -> rtrans d = Ok rt -> rtrans_from d s = Ok tr -> In (x, to) tr -> In (s, x, to) rt.
Proof.
  intros W Hrt Htr Hin. apply (rtrans_from_in _ _ _ _ _ Htr) in Hin. destruct Hin as [i [H1 H2]].
  apply (rtrans_in _ _ _ _ _ Hrt). exists i. split; [|exact H2]. apply (transitions_from_iter _ _ _ _ W). exact H1.
Qed.

Lemma rt_input d rt s x to : rtrans d = Ok rt -> In (s, x, to) rt -> In x (d_inputs d).
Proof.
  intros Hrt Hin. apply (rtrans_in _ _ _ _ _ Hrt) in Hin. destruct Hin as [i [_ Hn]].
  unfold nthN in Hn. eapply nth_error_In. exact Hn.
Qed.

(** *** the match tables *)
Lemma match_table_total d states sel rt :
  dfa_wf d -> rtrans d = Ok rt ->
  (forall s x to r, In (s, x, to) rt -> sel x = Some r -> exists k, r = Ok k) ->
  exists tbl, match_table d states sel = Ok tbl.
Proof.
  intros W Hrt Hsel.
  change (exists tbl, (do rows <- omap (row_of d sel) states;
                       Ok (filter (fun row : N * list (N * N) => match snd row with [] => false | _ => true end) rows)) = Ok tbl).
  destruct (omap_tot (row_of d sel) states) as [rows Hrows].
  - intros s _. unfold row_of. destruct (rtrans_from_total d s W) as [tr Htr]. rewrite Htr. cbn [obind].
    match goal with |- exists y, obind (omap ?f tr) _ = _ => destruct (omap_tot f tr) as [kvs Hk] end.
    + intros [x to] Hin. cbn [fst snd]. destruct (sel x) as [r|] eqn:E; [|eauto].
      destruct (Hsel s x to r (rtrans_from_rt d s tr rt x to W Hrt Htr Hin) E) as [k ->]. cbn. eauto.
    + rewrite Hk. cbn [obind]. eauto.
  - rewrite Hrows. cbn [obind]. eauto.
Qed.

(** *** the completion tables *)
Lemma completion_table_total rt maxlevel sel add :
  (forall f x to lvl r, In (f, x, to) rt -> sel x = Some (lvl, r) ->
                        (N.to_nat lvl < N.to_nat maxlevel + 1)%nat /\ exists id, r = Ok id) ->
  exists L, completion_table rt maxlevel sel add = Ok L.
Proof.
  intro H. unfold completion_table.
  assert (G : forall rt0 levels,
             (forall f x to, In (f, x, to) rt0 -> In (f, x, to) rt) ->
             List.length levels = (N.to_nat maxlevel + 1)%nat ->
             exists L, fold_left (comp_step sel add) rt0 (Ok levels) = Ok L).
  { induction rt0 as [|[[f x] to] r IH]; intros levels Hsub Hlen; cbn [fold_left]; [eauto|].
    unfold comp_step at 2. cbn [obind].
    destruct (sel x) as [[lvl rid]|] eqn:E.
    - destruct (H f x to lvl rid (Hsub _ _ _ (or_introl eq_refl)) E) as [Hl [id ->]]. cbn [obind].
      destruct (update_nth_total (N.to_nat lvl)
                  (bt_update f (fun old => add id (match old with Some l => l | None => [] end))) levels)
        as [l' [E' L']]; [lia|].
      rewrite E'. apply IH; [intros; apply Hsub; right; assumption|lia].
    - apply IH; [intros; apply Hsub; right; assumption|exact Hlen]. }
  apply (G rt (repeat [] (N.to_nat maxlevel + 1))); [auto|apply repeat_length].
Qed.

Lemma max_level_ge rt f x to l :
  In (f, x, to) rt -> inp_level x = Some l ->
  exists m, get_max_fallback_level rt = Some m /\ l <= m.
Proof.
  unfold get_max_fallback_level.
  set (F := fun (acc : option N) (fxt : N * inp * N) =>
              match fxt with (_, x, _) =>
                match inp_level x with
                | Some l => match acc with Some m => Some (N.max m l) | None => Some l end
                | None => acc
                end end).
  assert (Keep : forall rt0 a, exists m, fold_left F rt0 (Some a) = Some m /\ a <= m).
  { induction rt0 as [|[[f0 x0] t0] r IH]; intro a; cbn [fold_left]; [exists a; split; [reflexivity|lia]|].
    unfold F at 2. destruct (inp_level x0) as [l0|].
    - destruct (IH (N.max a l0)) as [m [E L]]. exists m. split; [exact E|lia].
    - apply IH. }
  intros Hin Hl. revert Hin. generalize (@None N).
  induction rt as [|[[f0 x0] t0] r IH]; intros acc Hin; [contradiction|]. cbn [fold_left].
  destruct Hin as [Hin|Hin].
  - inversion Hin; subst. unfold F at 2. rewrite Hl. destruct acc as [a|].
    + destruct (Keep r (N.max a l)) as [m [E L]]. exists m. split; [exact E|lia].
    + destruct (Keep r l) as [m [E L]]. exists m. auto.
  - apply IH. exact Hin.
Qed.

(** *** [get_lookup_tables] (the bash emitter passes [false] for the compadd switches) *)
Lemma lit_id_total ord start t ds :
  In (t, unwrap_descr ds) ord -> exists i, lit_id_or_panic (all_literals ord start) t ds = Ok i.
Proof.
  intro H. apply In_nth_error in H. destruct H as [n Hn].
  assert (Hin : In (start + N.of_nat n, t, unwrap_descr ds) (all_literals ord start)).
  { apply all_literals_in. unfold lit_at. split; [lia|].
    replace (N.to_nat (start + N.of_nat n - start)) with n by lia. exact Hn. }
  unfold lit_id_or_panic. change (lit_id (all_literals ord start) t (unwrap_descr ds))
    with (fold_left (lit_step t (unwrap_descr ds)) (all_literals ord start) None).
  destruct (lit_fold_found t (unwrap_descr ds) _ None _ Hin) as [j Hj]. rewrite Hj. eauto.
Qed.

Lemma valid_order_in d ord t ds l :
  valid_literal_order d ord = true -> In (ILit t ds l) (d_inputs d) -> In (t, unwrap_descr ds) ord.
Proof.
  intros V Hin. apply In_nth_error in Hin. destruct Hin as [n Hn].
  destruct (valid_order_covers d ord 0 (N.of_nat n) t ds l V) as [i [_ Hi]].
  - unfold nthN. rewrite Nat2N.id. exact Hn.
  - eapply nth_error_In. exact Hi.
Qed.

Lemma glt_total d cmds start nc ncp ns ord rt :
  dfa_wf d -> rtrans d = Ok rt ->
  valid_literal_order d ord = true ->
  (forall f c l to, In (f, ICmd c l, to) rt -> In c cmds) ->
  (forall f c l to, In (f, ICompadd c l, to) rt -> In c cmds) ->
  exists t, get_lookup_tables d cmds start nc ncp ns ord = Ok t
            /\ t_maxlevel t = match get_max_fallback_level rt with Some m => m | None => start end.
Proof.
  intros W Hrt V Hc Hcp. unfold get_lookup_tables. rewrite Hrt.
  assert (Hlit : forall s x to r, In (s, x, to) rt -> lit_sel (all_literals ord start) x = Some r -> exists k, r = Ok k).
  { intros s x to r Hin E. destruct x; cbn in E; try discriminate. inversion E; subst r.
    apply lit_id_total. eapply valid_order_in; [exact V|]. eapply rt_input; eauto. }
  assert (Hcmd : forall s x to r, In (s, x, to) rt -> cmd_sel cmds x = Some r -> exists k, r = Ok k).
  { intros s x to r Hin E. destruct x; cbn in E; try discriminate. inversion E; subst r.
    unfold cmd_id_or_panic. destruct (index_of_some cmd cmds (Hc _ _ _ _ Hin)) as [k ->]. eauto. }
  assert (Hcpd : forall s x to r, In (s, x, to) rt -> compadd_sel cmds x = Some r -> exists k, r = Ok k).
  { intros s x to r Hin E. destruct x; cbn in E; try discriminate. inversion E; subst r.
    unfold cmd_id_or_panic. destruct (index_of_some cmd cmds (Hcp _ _ _ _ Hin)) as [k ->]. eauto. }
  destruct (match_table_total d (get_all_states d) _ rt W Hrt Hlit) as [mlit Hmlit].
  unfold get_literal_transitions. fold (lit_sel (all_literals ord start)). rewrite Hmlit. cbn [obind].
  assert (Hmc : exists mcmd, opt_when nc (get_command_transitions d (get_all_states d) cmds) = Ok mcmd).
  { unfold opt_when. destruct nc; [|eauto]. unfold get_command_transitions. fold (cmd_sel cmds).
    destruct (match_table_total d (get_all_states d) _ rt W Hrt Hcmd) as [m ->]. cbn. eauto. }
  destruct Hmc as [mcmd ->]. cbn [obind].
  assert (Hmp : exists mcp, opt_when ncp (get_compadd_transitions d (get_all_states d) cmds) = Ok mcp).
  { unfold opt_when. destruct ncp; [|eauto]. unfold get_compadd_transitions. fold (compadd_sel cmds).
    destruct (match_table_total d (get_all_states d) _ rt W Hrt Hcpd) as [m ->]. cbn. eauto. }
  destruct Hmp as [mcp ->]. cbn [obind].
  set (maxlevel := match get_max_fallback_level rt with Some m => m | None => start end).
  assert (Hlvl : forall f x to l, In (f, x, to) rt -> inp_level x = Some l -> (N.to_nat l < N.to_nat maxlevel + 1)%nat).
  { intros f x to l Hin El. destruct (max_level_ge rt f x to l Hin El) as [m [Em Lm]]. unfold maxlevel. rewrite Em. lia. }
  destruct (completion_table_total rt maxlevel (lit_csel (all_literals ord start)) insertN) as [clit Hclit].
  { intros f x to lvl r Hin E. destruct x; cbn in E; try discriminate. inversion E; subst lvl r. split.
    - eapply Hlvl; [exact Hin|reflexivity].
    - apply lit_id_total. eapply valid_order_in; [exact V|]. eapply rt_input; eauto. }
  unfold get_literal_completions. fold (lit_csel (all_literals ord start)). rewrite Hclit. cbn [obind].
  assert (Hcc : exists ccmd, opt_when nc (get_command_completions rt cmds maxlevel) = Ok ccmd).
  { unfold opt_when. destruct nc; [|eauto]. unfold get_command_completions. fold (cmd_csel cmds).
    destruct (completion_table_total rt maxlevel (cmd_csel cmds) insertN) as [m ->]; [|cbn; eauto].
    intros f x to lvl r Hin E. destruct x; cbn in E; try discriminate. inversion E; subst lvl r. split.
    - eapply Hlvl; [exact Hin|reflexivity].
    - unfold cmd_id_or_panic. destruct (index_of_some cmd cmds (Hc _ _ _ _ Hin)) as [k ->]. eauto. }
  destruct Hcc as [ccmd ->]. cbn [obind].
  assert (Hcq : exists ccp, opt_when ncp (get_completion_compadds rt cmds maxlevel) = Ok ccp).
  { unfold opt_when. destruct ncp; [|eauto]. unfold get_completion_compadds. fold (compadd_csel cmds).
    destruct (completion_table_total rt maxlevel (compadd_csel cmds) push) as [m ->]; [|cbn; eauto].
    intros f x to lvl r Hin E. destruct x; cbn in E; try discriminate. inversion E; subst lvl r. split.
    - eapply Hlvl; [exact Hin|reflexivity].
    - unfold cmd_id_or_panic. destruct (index_of_some cmd cmds (Hcp _ _ _ _ Hin)) as [k ->]. eauto. }
  destruct Hcq as [ccp ->]. cbn [obind]. eexists. split; [reflexivity|reflexivity].
Qed.

(** *** script ids of the within-word automata *)
Lemma assocN_app_l {V} s (acc l : list (N * V)) id : assocN s acc = Some id -> assocN s (acc ++ l) = Some id.
Proof.
  induction acc as [|[k v] r IH]; cbn [assocN app]; [discriminate|].
  destruct (N.eqb s k); [auto|exact IH].
Qed.

Lemma assocN_app_new {V} s (acc : list (N * V)) v :
  existsb (fun p => N.eqb (fst p) s) acc = false -> assocN s (acc ++ [(s, v)]) = Some v.
Proof.
  induction acc as [|[k w] r IH]; cbn [assocN app existsb fst]; intro E.
  - rewrite N.eqb_refl. reflexivity.
  - apply orb_false_iff in E. destruct E as [E1 E2]. rewrite (N.eqb_sym s k), E1. apply IH. exact E2.
Qed.

Lemma existsb_assocN {V} s (acc : list (N * V)) :
  existsb (fun p => N.eqb (fst p) s) acc = true -> exists id, assocN s acc = Some id.
Proof.
  induction acc as [|[k v] r IH]; cbn [existsb assocN fst]; [discriminate|].
  rewrite (N.eqb_sym k s). destruct (N.eqb s k); [eauto|]. cbn [orb]. exact IH.
Qed.

Definition sw_step (first : N) (acc : list (N * N)) (fxt : N * inp * N) : list (N * N) :=
  match fxt with
  | (_, ISub s _, _) => if existsb (fun p => N.eqb (fst p) s) acc then acc else acc ++ [(s, first + lenN acc)]
  | _ => acc
  end.

Lemma sw_step_keep first acc fxt s id : assocN s acc = Some id -> assocN s (sw_step first acc fxt) = Some id.
Proof.
  intro H. unfold sw_step. destruct fxt as [[f x] t]. destruct x; auto.
  destruct (existsb _ acc); [exact H|]. apply assocN_app_l. exact H.
Qed.

Lemma sw_fold_keep first rt0 : forall acc s id,
  assocN s acc = Some id -> assocN s (fold_left (sw_step first) rt0 acc) = Some id.
Proof.
  induction rt0 as [|fxt r IH]; intros acc s id H; cbn [fold_left]; [exact H|].
  apply IH. apply sw_step_keep. exact H.
Qed.

Lemma get_subwords_covers rt first f s l to :
  In (f, ISub s l, to) rt -> exists id, assocN s (get_subwords rt first) = Some id.
Proof.
  change (get_subwords rt first) with (fold_left (sw_step first) rt []).
  generalize (@nil (N * N)). induction rt as [|fxt r IH]; intros acc Hin; [contradiction|]. cbn [fold_left].
  destruct Hin as [Hin|Hin]; [|apply IH; exact Hin]. subst fxt.
  assert (exists id, assocN s (sw_step first acc (f, ISub s l, to)) = Some id) as [id Hid].
  { unfold sw_step. destruct (existsb (fun p : N * N => N.eqb (fst p) s) acc) eqn:E.
    - apply existsb_assocN. exact E.
    - eexists. apply assocN_app_new. exact E. }
  exists id. apply sw_fold_keep. exact Hid.
Qed.

(** every script id comes from a within-word input met on a transition *)
Lemma get_subwords_origin rt first pi id :
  In (pi, id) (get_subwords rt first) -> exists f l to, In (f, ISub pi l, to) rt.
Proof.
  change (get_subwords rt first) with (fold_left (sw_step first) rt []).
  assert (G : forall rt0 acc,
             In (pi, id) (fold_left (sw_step first) rt0 acc) ->
             In (pi, id) acc \/ exists f l to, In (f, ISub pi l, to) rt0).
  { induction rt0 as [|fxt r IH]; intros acc H; cbn [fold_left] in H; [auto|].
    destruct (IH _ H) as [H1|[f [l [to H1]]]]; [|right; exists f, l, to; right; exact H1].
    unfold sw_step in H1. destruct fxt as [[f x] t]. destruct x; auto.
    destruct (existsb _ acc); [auto|]. apply in_app_iff in H1. destruct H1 as [H1|[H1|[]]]; [auto|].
    inversion H1; subst. right. exists f, level, t. left. reflexivity. }
  intro H. destruct (G rt [] H) as [[]|H1]. exact H1.
Qed.

(** *** commands *)
Definition names_cmd (x : inp) (cm : string) : Prop := exists lv, x = ICmd cm lv \/ x = ICompadd cm lv.

Lemma cmds_of_inputs_incl xs : forall acc c, In c acc -> In c (cmds_of_inputs acc xs).
Proof.
  unfold cmds_of_inputs. induction xs as [|x r IH]; intros acc c H; cbn [fold_left]; [exact H|].
  apply IH. destruct x; try exact H; apply push_new_in; auto.
Qed.

Lemma cmds_of_inputs_cmd xs : forall acc x c, In x xs -> names_cmd x c -> In c (cmds_of_inputs acc xs).
Proof.
  unfold cmds_of_inputs. induction xs as [|y r IH]; intros acc x c H Hn; [contradiction|]. cbn [fold_left].
  destruct H as [->|H]; [|eapply IH; eauto].
  apply (cmds_of_inputs_incl r). destruct Hn as [lv [-> | ->]]; apply push_new_in; auto.
Qed.

Definition pool_closed (c : cdfa) (rt : list (N * inp * N)) : Prop :=
  forall f s l to, In (f, ISub s l, to) rt -> exists sd, nthN (c_subs c) s = Some sd /\ dfa_wf sd.

Definition gc_step (c : cdfa) (acc : res (list string)) (fxt : N * inp * N) : res (list string) :=
  do l <- acc;
  match fxt with (_, x, _) =>
    match x with
    | ICmd cm _ | ICompadd cm _ => Ok (push_new cm l)
    | ISub s _ =>
        do sd <- lookup_sub c s;
        do srt <- rtrans sd;
        Ok (cmds_of_inputs l (map (fun fxt => snd (fst fxt)) srt))
    | _ => Ok l
    end
  end.

Lemma get_commands_fold c : forall rt0 l,
  pool_closed c rt0 ->
  exists l', fold_left (gc_step c) rt0 (Ok l) = Ok l'
    /\ (forall cm, In cm l -> In cm l')
    /\ (forall f x to cm, In (f, x, to) rt0 -> names_cmd x cm -> In cm l')
    /\ (forall f s lv to sd srt f' x' to' cm,
           In (f, ISub s lv, to) rt0 -> nthN (c_subs c) s = Some sd -> rtrans sd = Ok srt ->
           In (f', x', to') srt -> names_cmd x' cm -> In cm l').
Proof.
  induction rt0 as [|[[f0 x0] t0] r IH]; intros l Hp; cbn [fold_left].
  - exists l. split; [reflexivity|]. split; [auto|]. split; [intros ? ? ? ? []|intros ? ? ? ? ? ? ? ? ? ? []].
  - assert (Hp' : pool_closed c r) by (intros f s lv to H; apply (Hp f s lv to); right; exact H).
    assert (Step : exists l1, gc_step c (Ok l) (f0, x0, t0) = Ok l1
                     /\ (forall cm, In cm l -> In cm l1)
                     /\ (forall cm, names_cmd x0 cm -> In cm l1)
                     /\ (forall s lv sd srt f' x' to' cm, x0 = ISub s lv -> nthN (c_subs c) s = Some sd ->
                           rtrans sd = Ok srt -> In (f', x', to') srt -> names_cmd x' cm -> In cm l1)).
    { unfold gc_step. cbn [obind]. destruct x0 as [t d lv|s lv|cm lv|cm lv|].
      - exists l. split; [reflexivity|]. split; [auto|]. split; [intros cm [lv0 [E|E]]; discriminate|intros; discriminate].
      - destruct (Hp f0 s lv t0 (or_introl eq_refl)) as [sd [Hsd Wsd]].
        unfold lookup_sub. rewrite Hsd. cbn [obind]. destruct (rtrans_total sd Wsd) as [srt Hsrt]. rewrite Hsrt. cbn [obind].
        eexists. split; [reflexivity|]. split; [intros cm H; apply cmds_of_inputs_incl; exact H|].
        split; [intros cm [lv0 [E|E]]; discriminate|].
        intros s' lv0 sd' srt' f' x' to' cm E Hsd' Hsrt' Hin Hn. inversion E; subst s' lv0.
        rewrite Hsd in Hsd'. inversion Hsd'; subst sd'. rewrite Hsrt in Hsrt'. inversion Hsrt'; subst srt'.
        eapply cmds_of_inputs_cmd; [|exact Hn]. apply in_map_iff. exists (f', x', to'). split; [reflexivity|exact Hin].
      - exists (push_new cm l). split; [reflexivity|]. split; [intros c0 H; apply push_new_in; auto|].
        split; [intros c0 [lv0 [E|E]]; inversion E; subst; apply push_new_in; auto|intros; discriminate].
      - exists (push_new cm l). split; [reflexivity|]. split; [intros c0 H; apply push_new_in; auto|].
        split; [intros c0 [lv0 [E|E]]; inversion E; subst; apply push_new_in; auto|intros; discriminate].
      - exists l. split; [reflexivity|]. split; [auto|]. split; [intros cm [lv0 [E|E]]; discriminate|intros; discriminate]. }
    destruct Step as [l1 [E1 [I1 [C1 S1]]]]. rewrite E1.
    destruct (IH l1 Hp') as [l' [E' [I' [C' S']]]]. exists l'. split; [exact E'|]. split; [auto|]. split.
    + intros f x to cm [H|H] Hn; [inversion H; subst; apply I'; apply C1; exact Hn|eapply C'; eauto].
    + intros f s lv to sd srt f' x' to' cm [H|H] Hsd Hsrt Hin Hn.
      * inversion H; subst. apply I'. eapply S1; eauto.
      * eapply S'; eauto.
Qed.

Lemma get_commands_total c rt :
  rtrans (c_main c) = Ok rt -> pool_closed c rt ->
  exists cmds, get_commands c = Ok cmds
    /\ (forall f x to cm, In (f, x, to) rt -> names_cmd x cm -> In cm cmds)
    /\ (forall f s lv to sd srt f' x' to' cm,
           In (f, ISub s lv, to) rt -> nthN (c_subs c) s = Some sd -> rtrans sd = Ok srt ->
           In (f', x', to') srt -> names_cmd x' cm -> In cm cmds).
Proof.
  intros Hrt Hp. unfold get_commands. rewrite Hrt. cbn [obind].
  destruct (get_commands_fold c rt [] Hp) as [l' [E [_ [C S]]]]. exists l'.
  split; [exact E|]. split; [exact C|exact S].
Qed.

Lemma get_needs_total c rt :
  rtrans (c_main c) = Ok rt -> pool_closed c rt -> exists nd, get_needs c = Ok nd.
Proof.
  intros Hrt Hp. unfold get_needs. rewrite Hrt. cbn [obind]. unfold iter_subwords.
  match goal with |- exists nd, obind (obind (omap ?f rt) _) _ = _ => destruct (omap_tot f rt) as [ls Hls] end.
  { intros [[f x] t] Hin. cbn [fst snd]. destruct x; eauto.
    destruct (Hp f sub level t Hin) as [sd [Hsd _]]. unfold lookup_sub. rewrite Hsd. cbn. eauto. }
  rewrite Hls. cbn [obind].
  assert (Hall : forall sd, In sd (List.concat ls) -> dfa_wf sd).
  { intros sd Hin. apply in_concat in Hin. destruct Hin as [l [Hl Hsd]].
    apply (omap_ok_in _ _ _ Hls) in Hl. destruct Hl as [[[f x] t] [Hin Hf]]. cbn [fst snd] in Hf.
    destruct x; inversion Hf; subst; try contradiction.
    destruct (Hp f sub level t Hin) as [sd' [Hsd' W]]. unfold lookup_sub in H0. rewrite Hsd' in H0. cbn in H0.
    inversion H0; subst. destruct Hsd as [<-|[]]. exact W. }
  destruct (omap_tot rtrans (List.concat ls)) as [srts Hs].
  { intros sd Hin. apply rtrans_total. apply Hall. exact Hin. }
  rewrite Hs. cbn [obind]. eauto.
Qed.

(** *** all the tables of the bash emitter *)
Lemma orders_ok_main c om os : orders_ok c om os = true -> valid_literal_order (c_main c) om = true.
Proof.
  unfold orders_ok, valid_orders. intro H. apply andb_prop in H. destruct H as [H _].
  apply andb_prop in H. tauto.
Qed.

Lemma orders_ok_sub c om os pi sd :
  orders_ok c om os = true -> nthN (c_subs c) pi = Some sd -> valid_literal_order sd (ord_for os pi) = true.
Proof.
  unfold orders_ok. intros H Hn. apply andb_prop in H. destruct H as [_ H]. rewrite forallb_forall in H.
  apply (H (pi, sd)). apply number_from_in. split; [lia|]. rewrite N.sub_0_r. exact Hn.
Qed.

Lemma all_tables_total sh c om os rt :
  dfa_wf (c_main c) -> rtrans (c_main c) = Ok rt -> pool_closed c rt -> orders_ok c om os = true ->
  exists nd a, all_tables sh c om os = Ok (nd, a).
Proof.
  intros W Hrt Hp Ho. unfold all_tables.
  destruct (get_needs_total c rt Hrt Hp) as [nd ->]. cbn [obind].
  destruct (get_commands_total c rt Hrt Hp) as [cmds [-> [Cm Cs]]]. cbn [obind]. rewrite Hrt. cbn [obind].
  destruct (glt_total (c_main c) cmds (array_start sh) (n_top_cmd nd) (compadd_switch sh (n_top_compadd nd))
              (n_top_star nd) om rt W Hrt (orders_ok_main c om os Ho)) as [main [-> Hmax]].
  { intros f cm l to Hin. eapply Cm; [exact Hin|]. exists l. auto. }
  { intros f cm l to Hin. eapply Cm; [exact Hin|]. exists l. auto. }
  cbn [obind].
  (* within-word transitions *)
  assert (Hst : exists st, subword_transitions (c_main c) (get_all_states (c_main c)) = Ok st).
  { unfold subword_transitions.
    match goal with |- exists st, obind (omap ?f ?l) _ = _ => destruct (omap_tot f l) as [rows Hrows] end.
    - intros s _. destruct (rtrans_from_total (c_main c) s W) as [tr ->]. cbn. eauto.
    - rewrite Hrows. cbn. eauto. }
  destruct Hst as [st ->]. cbn [obind].
  (* within-word candidates *)
  assert (Hcs : exists cs, get_completion_subwords rt (get_subwords rt (array_start sh)) (t_maxlevel main) = Ok cs).
  { unfold get_completion_subwords. apply completion_table_total.
    intros f x to lvl r Hin E. destruct x; try discriminate. inversion E; subst lvl r. split.
    - rewrite Hmax. destruct (max_level_ge rt f (ISub sub level) to level Hin eq_refl) as [m [-> L]]. lia.
    - unfold sub_id_or_panic. destruct (get_subwords_covers rt (array_start sh) f sub level to Hin) as [id ->]. eauto. }
  destruct Hcs as [cs ->]. cbn [obind].
  (* the tables of the within-word automata *)
  assert (Hsub : forall pi, In pi (get_subwords rt (array_start sh)) ->
                            exists sd, nthN (c_subs c) (fst pi) = Some sd /\ dfa_wf sd).
  { intros [pi id] Hin. destruct (get_subwords_origin rt _ pi id Hin) as [f [l [to H]]]. cbn [fst]. eapply Hp. exact H. }
  match goal with |- exists nd0 a, obind (omap ?f ?l) _ = _ => destruct (omap_tot f l) as [subs Hsubs] end.
  { intros [pi id] Hin. cbn [fst snd]. destruct (Hsub _ Hin) as [sd [Hsd Wsd]]. cbn [fst] in Hsd.
    unfold lookup_sub. rewrite Hsd. cbn [obind]. destruct (rtrans_total sd Wsd) as [srt Hsrt].
    destruct (get_subwords_origin rt _ pi id Hin) as [f [l [to Hf]]].
    destruct (glt_total sd cmds (array_start sh) (n_sub_cmd nd) (compadd_switch sh (n_sub_compadd nd)) (n_sub_star nd)
                (match assocN pi os with Some o => o | None => [] end) srt Wsd Hsrt) as [t [Ht _]].
    - exact (orders_ok_sub c om os pi sd Ho Hsd).
    - intros f' cm lv' to' Hin'. eapply (Cs f pi l to sd srt f' _ to' cm); eauto. exists lv'. auto.
    - intros f' cm lv' to' Hin'. eapply (Cs f pi l to sd srt f' _ to' cm); eauto. exists lv'. auto.
    - rewrite Ht. cbn. eauto. }
  rewrite Hsubs. cbn [obind].
  match goal with |- exists nd0 a, obind (omap ?f ?l) _ = _ => destruct (omap_tot f l) as [sacc Hsacc] end.
  { intros [pi id] Hin. cbn [fst snd]. destruct (Hsub _ Hin) as [sd [Hsd _]]. cbn [fst] in Hsd.
    unfold lookup_sub. rewrite Hsd. cbn. eauto. }
  rewrite Hsacc. cbn [obind]. eauto.
Qed.

(** *** the bash emitter *)
Lemma find_total {A} (p : A -> bool) l x : In x l -> p x = true -> exists y, find p l = Some y.
Proof.
  induction l as [|z r IH]; intros Hin Hp; [contradiction|]. cbn [find].
  destruct (p z) eqn:E; [eauto|]. destruct Hin as [->|Hin]; [congruence|]. apply IH; assumption.
Qed.

Lemma assocN_total {V} k (l : list (N * V)) v : In (k, v) l -> exists v', assocN k l = Some v'.
Proof.
  induction l as [|[k' w] r IH]; intros H; [contradiction|]. cbn [assocN].
  destruct (N.eqb k k') eqn:E; [eauto|]. destruct H as [H|H]; [|apply IH; exact H].
  inversion H; subst. rewrite N.eqb_refl in E. discriminate.
Qed.

Section Script.
  Variables (sh : shell) (c : cdfa) (om : list (string * string)) (os : list (N * list (string * string)))
            (nd : needs) (a : alltables).
  Hypothesis Hwf : dfa_wf (c_main c).
  Hypothesis Hall : all_tables sh c om os = Ok (nd, a).

  Lemma pool_index_has_tables rt pi id :
    rtrans (c_main c) = Ok rt -> In (pi, id) (get_subwords rt (array_start sh)) ->
    (exists t, In (pi, id, t) (a_subwords a)) /\ (exists accs, In (id, accs) (a_subaccepting a)).
  Proof.
    intros Hrt Hin. destruct (all_tables_inv _ _ _ _ _ _ Hall) as [rt' F].
    rewrite (af_rt _ _ _ _ _ _ _ F) in Hrt. inversion Hrt; subst rt'. split.
    - destruct (omap_ok_total _ _ _ (af_subs _ _ _ _ _ _ _ F) _ Hin) as [y [Hy Hy']].
      cbn [fst snd] in Hy. apply obind_ok in Hy. destruct Hy as [sd [_ Hy]].
      apply obind_ok in Hy. destruct Hy as [t [_ Hy]]. inversion Hy; subst. eauto.
    - destruct (omap_ok_total _ _ _ (af_subacc _ _ _ _ _ _ _ F) _ Hin) as [y [Hy Hy']].
      cbn [fst snd] in Hy. apply obind_ok in Hy. destruct Hy as [sd [_ Hy]]. inversion Hy; subst. eauto.
  Qed.

  Lemma script_id_has id :
    In id (map (fun e : N * N * tables => snd (fst e)) (a_subwords a)) ->
    (exists t, tables_of_id a id = Ok t) /\ (exists accs, accepting_of_id a id = Ok accs).
  Proof.
    intro Hin. apply in_map_iff in Hin. destruct Hin as [[[pi id'] t] [E Hin]]. cbn [fst snd] in E. subst id'.
    split.
    - unfold tables_of_id.
      destruct (find_total (fun e : N * N * tables => N.eqb (snd (fst e)) id) _ _ Hin) as [y ->]; [cbn; apply N.eqb_refl|eauto].
    - destruct (all_tables_inv _ _ _ _ _ _ Hall) as [rt F].
      apply (proj1 (subwords_exact sh c om os nd a Hall pi id t)) in Hin.
      destruct Hin as [rt' [sd [Hrt' [Hin _]]]].
      destruct (pool_index_has_tables rt' pi id Hrt' Hin) as [_ [accs Hacc]].
      unfold accepting_of_id. destruct (assocN_total _ _ _ Hacc) as [v' ->]. eauto.
  Qed.

  Lemma write_group_total command shape_id g :
    g <> [] -> (forall id, In id g -> In id (map (fun e : N * N * tables => snd (fst e)) (a_subwords a))) ->
    exists s, write_group command a shape_id g = Ok s.
  Proof.
    intros Hne Hids. unfold write_group. destruct g as [|id r]; [congruence|].
    destruct r as [|id2 r2].
    - destruct (script_id_has id (Hids id (or_introl eq_refl))) as [[t ->] [accs ->]]. cbn. eauto.
    - destruct (script_id_has id (Hids id (or_introl eq_refl))) as [[t ->] _]. cbn [obind].
      match goal with |- exists s, obind (omap ?f ?l) _ = _ => destruct (omap_tot f l) as [ws Hws] end.
      + intros j Hj. destruct (script_id_has j (Hids j Hj)) as [[tj ->] [accj ->]]. cbn. eauto.
      + rewrite Hws. cbn. eauto.
  Qed.

  Lemma script_total command sg groups :
    valid_grouping a groups = true ->
    exists s, script command sg (d_start (c_main c)) nd a groups = Ok s.
  Proof.
    intro V. unfold valid_grouping in V.
    apply andb_prop in V. destruct V as [V Vg]. apply andb_prop in V. destruct V as [V Vin]. clear V.
    rewrite forallb_forall in Vin, Vg.
    unfold script.
    assert (H1 : exists sp, (if n_subwords nd
                             then do gs <- omap (fun ig : N * list N => write_group command a (fst ig) (snd ig)) (number_from 0 groups);
                                  Ok (append (sconcat gs) (write_subword_fn command (n_sub_cmd nd) (n_sub_star nd)))
                             else Ok EmptyString) = Ok sp).
    { destruct (n_subwords nd); [|eauto].
      match goal with |- exists sp, obind (omap ?f ?l) _ = _ => destruct (omap_tot f l) as [gs Hgs] end.
      - intros [i g] Hin. cbn [fst snd]. apply number_from_in in Hin. destruct Hin as [_ Hn].
        apply nth_error_In in Hn. apply write_group_total.
        + specialize (Vg g Hn). destruct g; [discriminate|congruence].
        + intros id Hid. apply MinimizeBasics.memN_iff. apply Vin. apply in_concat. exists g. auto.
      - rewrite Hgs. cbn. eauto. }
    destruct H1 as [sp ->]. cbn [obind].
    assert (H2 : exists st, (if n_subwords nd
                             then do rows <- omap (fun row : N * list (N * N) =>
                                      do kvs <- omap (fun pt : N * N => do id <- script_id a (fst pt); Ok (kv (id, snd pt))) (snd row);
                                      Ok (fmtln write_completion_script_5 [("state", sN (fst row)); ("state_transitions", join " " kvs)]))
                                    (a_subtrans a);
                                  Ok (append (fmtln write_completion_script_4 []) (sconcat rows))
                             else Ok EmptyString) = Ok st).
    { destruct (n_subwords nd); [|eauto].
      match goal with |- exists st, obind (omap ?f ?l) _ = _ => destruct (omap_tot f l) as [rows Hrows] end.
      - intros [s row] Hrow. cbn [fst snd].
        match goal with |- exists y, obind (omap ?f ?l) _ = _ => destruct (omap_tot f l) as [kvs Hk] end.
        + intros [pi to] Hpt. cbn [fst snd].
          destruct (proj1 (subtrans_exact sh c om os nd a Hwf Hall s pi to)) as [lvl Htr]; [eauto|].
          destruct (all_tables_inv _ _ _ _ _ _ Hall) as [rt F].
          apply (trans_on_rt _ _ _ _ _ Hwf (af_rt _ _ _ _ _ _ _ F)) in Htr.
          destruct (get_subwords_covers rt (array_start sh) s pi lvl to Htr) as [id Hid].
          apply assocN_in in Hid.
          destruct (pool_index_has_tables rt pi id (af_rt _ _ _ _ _ _ _ F) Hid) as [[t Ht] _].
          unfold script_id.
          destruct (find_total (fun e : N * N * tables => N.eqb (fst (fst e)) pi) _ _ Ht) as [y ->]; [cbn; apply N.eqb_refl|].
          cbn. eauto.
        + rewrite Hk. cbn. eauto.
      - rewrite Hrows. cbn. eauto. }
    destruct H2 as [st ->]. cbn [obind]. eauto.
  Qed.

  (** the data sections of the other three emitters *)
  Lemma subtrans_script_id s row pi to :
    In (s, row) (a_subtrans a) -> In (pi, to) row -> exists id, script_id a pi = Ok id.
  Proof.
    intros Hrow Hpt.
    destruct (proj1 (subtrans_exact sh c om os nd a Hwf Hall s pi to)) as [lvl Htr]; [eauto|].
    destruct (all_tables_inv _ _ _ _ _ _ Hall) as [rt F].
    apply (trans_on_rt _ _ _ _ _ Hwf (af_rt _ _ _ _ _ _ _ F)) in Htr.
    destruct (get_subwords_covers rt (array_start sh) s pi lvl to Htr) as [id Hid].
    apply assocN_in in Hid.
    destruct (pool_index_has_tables rt pi id (af_rt _ _ _ _ _ _ _ F) Hid) as [[t Ht] _].
    unfold script_id.
    destruct (find_total (fun e : N * N * tables => N.eqb (fst (fst e)) pi) _ _ Ht) as [y ->]; [cbn; apply N.eqb_refl|].
    eauto.
  Qed.

  Lemma resolve_rows_total : exists rows, EmitData.resolve_rows a = Ok rows.
  Proof.
    unfold EmitData.resolve_rows. apply omap_tot. intros [s row] Hrow. cbn [fst snd].
    match goal with |- exists y, obind (omap ?f ?l) _ = _ => destruct (omap_tot f l) as [kvs Hk] end.
    - intros [pi to] Hpt. cbn [fst snd]. destruct (subtrans_script_id s row pi to Hrow Hpt) as [id ->]. cbn. eauto.
    - rewrite Hk. cbn. eauto.
  Qed.

  Lemma group_blocks_total wrapper shape_fn shape_wrapper groups :
    valid_grouping a groups = true ->
    exists gs, EmitData.group_blocks wrapper shape_fn shape_wrapper a groups = Ok gs.
  Proof.
    intro V. unfold valid_grouping in V.
    apply andb_prop in V. destruct V as [V Vg]. apply andb_prop in V. destruct V as [V Vin]. clear V.
    rewrite forallb_forall in Vin, Vg.
    unfold EmitData.group_blocks. apply omap_tot. intros [i g] Hin. cbn [fst snd].
    apply number_from_in in Hin. destruct Hin as [_ Hn]. apply nth_error_In in Hn.
    assert (Hids : forall id, In id g -> exists t, tables_of_id a id = Ok t).
    { intros id Hid. apply script_id_has. apply MinimizeBasics.memN_iff. apply Vin. apply in_concat. exists g. auto. }
    specialize (Vg g Hn). unfold EmitData.group_block, EmitData.tables_of.
    destruct g as [|id r]; [discriminate|]. destruct r as [|id2 r2].
    - destruct (Hids id (or_introl eq_refl)) as [t ->]. cbn. eauto.
    - destruct (Hids id (or_introl eq_refl)) as [t ->]. cbn [obind].
      match goal with |- exists y, obind (obind (omap ?f ?l) _) _ = _ => destruct (omap_tot f l) as [ws Hws] end.
      + intros j Hj. destruct (Hids j Hj) as [tj ->]. cbn. eauto.
      + rewrite Hws. cbn. eauto.
  Qed.

End Script.

Lemma data_blocks_total sh c om os nd a command groups :
  dfa_wf (c_main c) -> all_tables sh c om os = Ok (nd, a) ->
  valid_grouping a groups = true -> exists bs, data_blocks sh command nd a groups = Ok bs.
Proof.
  intros Hwf Hall V. destruct (resolve_rows_total sh c om os nd a Hwf Hall) as [rows Hrows].
  assert (G := fun w s sw => group_blocks_total sh c om os nd a Hall w s sw groups V).
  unfold data_blocks. destruct sh.
  - eauto.
  - unfold EmitData.F.data.
    destruct (G (EmitData.F.wrapper command) (EmitData.F.shape_fn command) (EmitData.F.shape_wrapper command)) as [gs Hgs].
    rewrite Hgs, Hrows. destruct (n_subwords nd); cbn [obind]; eauto.
  - unfold EmitData.Z.data.
    destruct (G (EmitData.Z.wrapper command) (EmitData.Z.shape_fn command) (EmitData.Z.shape_wrapper command)) as [gs Hgs].
    rewrite Hgs, Hrows. destruct (n_subwords nd); cbn [obind]; eauto.
  - unfold EmitData.P.data.
    destruct (G (EmitData.P.wrapper command) (EmitData.P.shape_fn command) (EmitData.P.shape_wrapper command)) as [gs Hgs].
    rewrite Hgs, Hrows. destruct (n_subwords nd); cbn [obind]; eauto.
Qed.

(** *** the capstone *)
From CG Require Import Model.Parser Proofs.TreeFacts Proofs.CheckTree Proofs.DriverCorrect Proofs.CompiledFacts Proofs.SubCompiled
  Proofs.PipelineTotal.
From CG Require Props.C05b.

Lemma compiled_pool_closed pick fuel v c rt :
  alts_nonempty (v_expr v) = true -> compile_valid pick fuel v = Ok c ->
  rtrans (c_main c) = Ok rt -> pool_closed c rt.
Proof.
  intros Ha Hc Hrt f s l to Hin.
  destruct (sub_facts pick fuel v c s l Ha Hc (rt_input _ _ _ _ _ Hrt Hin)) as [sd [Hsd Hok]].
  exists sd. split; [exact Hsd|apply (so_wf _ Hok)].
Qed.

Theorem emit_bash_total o pick fuel v c :
  alts_nonempty (v_expr v) = true -> compile_valid pick fuel v = Ok c ->
  (exists s, emit_bash o v c = Ok s) \/ emit_bash o v c = Err CBadOracle.
Proof.
  intros Ha Hc. unfold emit_bash.
  destruct (orders_ok c (o_main_lits o) (o_sub_lits o)) eqn:Ho; [|auto].
  destruct (compiled_facts pick fuel v c Ha Hc) as [_ [W _]].
  destruct (rtrans_total (c_main c) W) as [rt Hrt].
  destruct (all_tables_total Bash c _ _ rt W Hrt (compiled_pool_closed pick fuel v c rt Ha Hc Hrt) Ho) as [nd [a Hall]].
  rewrite Hall. destruct (valid_grouping a (o_groups o)) eqn:Vg; [|auto].
  destruct (script_total Bash c _ _ nd a W Hall (v_command v) (o_sig o) (o_groups o) Vg) as [s ->]. eauto.
Qed.

Theorem compile_bash_total o builtins text :
  fuel_covers (o_fuel o) builtins text Bash ->
  (exists s, compile_bash o builtins text = Ok s) \/ (exists e, compile_bash o builtins text = Err e).
Proof.
  intro Hf. unfold compile_bash.
  destruct (compile_total (pick_table (o_pops o)) (o_fuel o) builtins text Bash Hf) as [[[v c] Hvc]|[e He]].
  - rewrite Hvc.
    (* recover the stages to use the facts about the compiled automata *)
    assert (H := Hvc). unfold compile in H.
    destruct (parse text) as [g| | |] eqn:Hg; cbn in H; try discriminate.
    destruct (from_grammar builtins g Bash) as [v'| | |] eqn:Hv; cbn in H; try discriminate.
    destruct (compile_valid (pick_table (o_pops o)) (o_fuel o) v') as [c'| | |] eqn:Hc; cbn in H; try discriminate.
    inversion H; subst v' c'.
    destruct (check_tree builtins g Bash v Hv) as [_ [_ [_ Halts]]].
    specialize (Halts (Props.C05b.parse_alts_nonempty text g Hg)).
    destruct (emit_bash_total o _ _ v c Halts Hc) as [[s Hs]|Hb]; [left|right]; eauto.
  - rewrite He. right. eauto.
Qed.

(** *** fish, zsh, pwsh: the data sections *)
Theorem emit_data_total sh o pick fuel v c :
  alts_nonempty (v_expr v) = true -> compile_valid pick fuel v = Ok c ->
  (exists bs, emit_data sh o v c = Ok bs) \/ emit_data sh o v c = Err CBadOracle.
Proof.
  intros Ha Hc. unfold emit_data.
  destruct (orders_ok c (o_main_lits o) (o_sub_lits o)) eqn:Ho; [|auto].
  destruct (compiled_facts pick fuel v c Ha Hc) as [_ [W _]].
  destruct (rtrans_total (c_main c) W) as [rt Hrt].
  destruct (all_tables_total sh c _ _ rt W Hrt (compiled_pool_closed pick fuel v c rt Ha Hc Hrt) Ho) as [nd [a Hall]].
  rewrite Hall. destruct (valid_grouping a (o_groups o)) eqn:Vg; [|auto].
  destruct (data_blocks_total sh c _ _ nd a (v_command v) (o_groups o) W Hall Vg) as [bs ->]. eauto.
Qed.

Theorem compile_data_total sh o builtins text :
  fuel_covers (o_fuel o) builtins text sh ->
  (exists bs, compile_data sh o builtins text = Ok bs) \/ (exists e, compile_data sh o builtins text = Err e).
Proof.
  intro Hf. unfold compile_data.
  destruct (compile_total (pick_table (o_pops o)) (o_fuel o) builtins text sh Hf) as [[[v c] Hvc]|[e He]].
  - rewrite Hvc.
    assert (H := Hvc). unfold compile in H.
    destruct (parse text) as [g| | |] eqn:Hg; cbn in H; try discriminate.
    destruct (from_grammar builtins g sh) as [v'| | |] eqn:Hv; cbn in H; try discriminate.
    destruct (compile_valid (pick_table (o_pops o)) (o_fuel o) v') as [c'| | |] eqn:Hc; cbn in H; try discriminate.
    inversion H; subst v' c'.
    destruct (check_tree builtins g sh v Hv) as [_ [_ [_ Halts]]].
    specialize (Halts (Props.C05b.parse_alts_nonempty text g Hg)).
    destruct (emit_data_total sh o _ _ v c Halts Hc) as [[s Hs]|Hb]; [left|right]; eauto.
  - rewrite He. right. eauto.
Qed.
