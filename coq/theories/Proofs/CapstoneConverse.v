(** C11, converse direction, automaton half: every command written in the validated tree is in the
    command table of the compiled automata.  Route: every leaf of a tree without empty alternatives
    occurs in a denoted word ([den_leaf]); the automaton accepts that word (C02, [driver_correct]);
    an accepting run uses a transition for each of its inputs; [get_commands] lists the command of
    every transition of the main automaton and of every within-word automaton met on one. *)
From CG Require Import Base.Prelude Model.Ast Model.Check Model.Dfa Model.Driver Model.Tables Spec.Lang.
From CG Require Import Proofs.TablesSound Proofs.TreeFacts Proofs.LangBridge Proofs.SubBridge Proofs.DriverCorrect
  Proofs.CompiledFacts Proofs.CompilerTotal Proofs.CapstoneCommands.
Open Scope list_scope.

(** *** the leaves of a tree (a word made of pieces is one leaf) *)
Fixpoint leaves (e : expr) : list expr :=
  match e with
  | Terminal _ _ _ _ | NontermRef _ _ _ | Command _ _ _ _ | Subword _ _ _ => [e]
  | Sequence cs _ | Alternative cs _ | Fallback cs _ => flat_map leaves cs
  | Optional c _ | Many1 c _ | DistDescr c _ _ => leaves c
  end.

Fixpoint no_dd (e : expr) : bool :=
  match e with
  | Terminal _ _ _ _ | NontermRef _ _ _ | Command _ _ _ _ | Subword _ _ _ => true
  | Sequence cs _ | Alternative cs _ | Fallback cs _ => forallb no_dd cs
  | Optional c _ | Many1 c _ => no_dd c
  | DistDescr _ _ _ => false
  end.

Section DenLeaf.
  Variable A : Type.
  Variable leaf : expr -> list A -> Prop.
  Let den := den A leaf.

  Definition inh_leaves (e : expr) : Prop := forall x, In x (leaves e) -> exists w, leaf x w.

  Lemma leaves_is_leaf e : forall x, In x (leaves e) -> is_leaf x = true.
  Proof.
    induction e using expr_ind'; intros x Hx; cbn [leaves] in Hx;
      try (destruct Hx as [<-|[]]; reflexivity); try (apply IHe; exact Hx);
      try (apply in_flat_map in Hx; destruct Hx as [c [Hc Hx]]; rewrite Forall_forall in H; exact (H c Hc x Hx)).
  Qed.

  Lemma den_inh e : alts_nonempty e = true -> no_dd e = true -> inh_leaves e -> exists w, den e w.
  Proof.
    induction e using expr_ind'; intros Ha Hd Hi.
    - destruct (Hi _ (or_introl eq_refl)) as [w Hw]. exists w. apply D_leaf; [reflexivity|exact Hw].
    - destruct (Hi _ (or_introl eq_refl)) as [w Hw]. exists w. apply D_leaf; [reflexivity|exact Hw].
    - destruct (Hi _ (or_introl eq_refl)) as [w Hw]. exists w. apply D_leaf; [reflexivity|exact Hw].
    - cbn [alts_nonempty no_dd] in Ha, Hd. unfold inh_leaves in Hi. cbn [leaves] in Hi.
      induction H as [|c cs Hc _ IH]; [exists []; apply D_seq_nil|].
      cbn [forallb] in Ha, Hd. apply andb_prop in Ha. apply andb_prop in Hd. destruct Ha as [A1 A2]. destruct Hd as [D1 D2].
      destruct (Hc A1 D1) as [u Hu]. { intros x Hx. apply Hi. cbn [flat_map]. apply in_or_app. left. exact Hx. }
      destruct (IH A2 D2) as [v Hv]. { intros x Hx. apply Hi. cbn [flat_map]. apply in_or_app. right. exact Hx. }
      exists (u ++ v). apply D_seq_cons; assumption.
    - cbn [alts_nonempty no_dd] in Ha, Hd. destruct cs as [|c cs]; [discriminate|].
      cbn [forallb] in Ha, Hd. apply andb_prop in Ha. apply andb_prop in Hd. destruct Ha as [A1 _]. destruct Hd as [D1 _].
      inversion H as [|? ? Hc _]; subst. destruct (Hc A1 D1) as [u Hu].
      { intros x Hx. apply Hi. cbn [leaves flat_map]. apply in_or_app. left. exact Hx. }
      exists u. eapply D_alt; [left; reflexivity|exact Hu].
    - exists []. apply D_opt_none.
    - cbn [alts_nonempty no_dd] in Ha, Hd. destruct (IHe Ha Hd Hi) as [u Hu]. exists u. apply D_many_one. exact Hu.
    - discriminate.
    - cbn [alts_nonempty no_dd] in Ha, Hd. destruct cs as [|c cs]; [discriminate|].
      cbn [forallb] in Ha, Hd. apply andb_prop in Ha. apply andb_prop in Hd. destruct Ha as [A1 _]. destruct Hd as [D1 _].
      inversion H as [|? ? Hc _]; subst. destruct (Hc A1 D1) as [u Hu].
      { intros x Hx. apply Hi. cbn [leaves flat_map]. apply in_or_app. left. exact Hx. }
      exists u. eapply D_fb; [left; reflexivity|exact Hu].
    - destruct (Hi _ (or_introl eq_refl)) as [w Hw]. exists w. apply D_leaf; [reflexivity|exact Hw].
  Qed.

  Lemma alts_forall cs : match cs with [] => false | _ => forallb alts_nonempty cs end = true -> forallb alts_nonempty cs = true.
  Proof. destruct cs; [discriminate|auto]. Qed.

  (** every leaf occurs in a denoted word *)
  Lemma den_leaf e : alts_nonempty e = true -> no_dd e = true -> inh_leaves e ->
    forall x, In x (leaves e) -> exists u w v, den e (u ++ w ++ v) /\ leaf x w.
  Proof.
    induction e using expr_ind'; intros Ha Hd Hi x Hx.
    - destruct Hx as [<-|[]]. destruct (Hi _ (or_introl eq_refl)) as [w Hw]. exists [], w, []. rewrite app_nil_r.
      split; [apply D_leaf; [reflexivity|exact Hw]|exact Hw].
    - destruct Hx as [<-|[]]. destruct (Hi _ (or_introl eq_refl)) as [w Hw]. exists [], w, []. rewrite app_nil_r.
      split; [apply D_leaf; [reflexivity|exact Hw]|exact Hw].
    - destruct Hx as [<-|[]]. destruct (Hi _ (or_introl eq_refl)) as [w Hw]. exists [], w, []. rewrite app_nil_r.
      split; [apply D_leaf; [reflexivity|exact Hw]|exact Hw].
    - cbn [alts_nonempty no_dd] in Ha, Hd. unfold inh_leaves in Hi. cbn [leaves] in Hi, Hx.
      induction H as [|c cs Hc Hcs IH]; [destruct Hx|].
      cbn [forallb] in Ha, Hd. apply andb_prop in Ha. apply andb_prop in Hd. destruct Ha as [A1 A2]. destruct Hd as [D1 D2].
      assert (I1 : inh_leaves c) by (intros y Hy; apply Hi; cbn [flat_map]; apply in_or_app; left; exact Hy).
      assert (I2 : inh_leaves (Sequence cs sp)) by (intros y Hy; apply Hi; cbn [flat_map]; apply in_or_app; right; exact Hy).
      cbn [flat_map] in Hx. apply in_app_or in Hx. destruct Hx as [Hx|Hx].
      + destruct (Hc A1 D1 I1 x Hx) as [u [w [v [Hden Hl]]]].
        assert (Hs : exists r, den (Sequence cs sp) r).
        { clear -Hcs A2 D2 I2. unfold inh_leaves in I2. cbn [leaves] in I2.
          induction Hcs as [|c' cs' Hc' _ IH']; [exists []; apply D_seq_nil|].
          cbn [forallb] in A2, D2. apply andb_prop in A2. apply andb_prop in D2. destruct A2 as [A1 A2]. destruct D2 as [D1 D2].
          destruct (den_inh c' A1 D1) as [u Hu]. { intros y Hy. apply I2. cbn [flat_map]. apply in_or_app. left. exact Hy. }
          destruct (IH' A2 D2) as [v Hv]. { intros y Hy. apply I2. cbn [flat_map]. apply in_or_app. right. exact Hy. }
          exists (u ++ v). apply D_seq_cons; assumption. }
        destruct Hs as [r Hr]. exists u, w, (v ++ r). split; [|exact Hl].
        replace (u ++ w ++ v ++ r) with ((u ++ w ++ v) ++ r) by (rewrite <- !app_assoc; reflexivity).
        apply D_seq_cons; assumption.
      + destruct (den_inh c A1 D1 I1) as [r Hr].
        destruct (IH A2 D2 I2 Hx) as [u [w [v [Hden Hl]]]].
        exists (r ++ u), w, v. split; [|exact Hl]. rewrite <- app_assoc. apply D_seq_cons; assumption.
    - cbn [alts_nonempty no_dd] in Ha, Hd. apply alts_forall in Ha. cbn [leaves] in Hx. apply in_flat_map in Hx.
      destruct Hx as [c [Hc Hx]]. rewrite Forall_forall in H. rewrite forallb_forall in Ha, Hd.
      destruct (H c Hc (Ha c Hc) (Hd c Hc)) with (x := x) as [u [w [v [Hden Hl]]]]; [|exact Hx|].
      { intros y Hy. apply Hi. cbn [leaves]. apply in_flat_map. exists c. auto. }
      exists u, w, v. split; [eapply D_alt; eauto|exact Hl].
    - cbn [alts_nonempty no_dd leaves] in *. destruct (IHe Ha Hd Hi x Hx) as [u [w [v [Hden Hl]]]].
      exists u, w, v. split; [apply D_opt_some; exact Hden|exact Hl].
    - cbn [alts_nonempty no_dd leaves] in *. destruct (IHe Ha Hd Hi x Hx) as [u [w [v [Hden Hl]]]].
      exists u, w, v. split; [apply D_many_one; exact Hden|exact Hl].
    - discriminate.
    - cbn [alts_nonempty no_dd] in Ha, Hd. apply alts_forall in Ha. cbn [leaves] in Hx. apply in_flat_map in Hx.
      destruct Hx as [c [Hc Hx]]. rewrite Forall_forall in H. rewrite forallb_forall in Ha, Hd.
      destruct (H c Hc (Ha c Hc) (Hd c Hc)) with (x := x) as [u [w [v [Hden Hl]]]]; [|exact Hx|].
      { intros y Hy. apply Hi. cbn [leaves]. apply in_flat_map. exists c. auto. }
      exists u, w, v. split; [eapply D_fb; eauto|exact Hl].
    - destruct Hx as [<-|[]]. destruct (Hi _ (or_introl eq_refl)) as [w Hw]. exists [], w, []. rewrite app_nil_r.
      split; [apply D_leaf; [reflexivity|exact Hw]|exact Hw].
  Qed.
End DenLeaf.

(** *** an accepting run uses a transition for each of its inputs *)
Lemma run_uses d : forall w s t i u v,
  run d s w = Some t -> w = u ++ i :: v -> exists s' t', step d s' i = Some t'.
Proof.
  induction w as [|j w IH]; intros s t i u v Hr Hw.
  - destruct u; discriminate.
  - cbn [run] in Hr. destruct (step d s j) as [t1|] eqn:Es; [|discriminate].
    destruct u as [|j' u]; cbn in Hw; inversion Hw; subst.
    + eauto.
    + eapply IH; [exact Hr|reflexivity].
Qed.

Lemma accepts_uses d ids i u v :
  dfa_wf d -> accepts d ids = true -> ids = u ++ i :: v -> exists s t, In (s, i, t) (iter_transitions d).
Proof.
  intros W Ha Hw. unfold accepts, accepts_from in Ha.
  destruct (run d (d_start d) ids) as [t|] eqn:Hr; [|discriminate].
  destruct (run_uses d ids _ _ i u v Hr Hw) as [s' [t' Hs]]. exists s', t'.
  apply (transitions_from_iter d s' i t' W). unfold step in Hs. unfold transitions_from.
  destruct (assocN s' (d_trans d)) as [tos|]; [|discriminate]. apply TablesSound.assocN_in in Hs. exact Hs.
Qed.

Lemma Forall2_mid {X Y} (R : X -> Y -> Prop) l u y v :
  Forall2 R l (u ++ y :: v) -> exists lu x lv, l = lu ++ x :: lv /\ R x y.
Proof.
  intro H. apply Forall2_app_inv_r in H. destruct H as [lu [l2 [_ [H2 ->]]]].
  inversion H2 as [|x y' lv v' Hxy _]; subst. exists lu, x, lv. auto.
Qed.

Lemma names_cmd_witem x cm z l : wlab x = Some (cmd_witem cm z l) -> names_cmd x cm.
Proof.
  destruct x; cbn [wlab]; intro H; try discriminate; destruct z; cbn [cmd_witem] in H; inversion H; subst;
    exists l; auto.
Qed.

Lemma cmd_texts_leaves e : sub_tree e = true -> forall cm, In cm (cmd_texts e) ->
  (exists z l sp, In (Command cm z l sp) (leaves e))
  \/ (exists c l sp z l' sp', In (Subword c l sp) (leaves e) /\ In (Command cm z l' sp') (leaves c)).
Proof.
  assert (Htop : forall e0, toplevel_tree e0 = true -> forall cm, In cm (cmd_texts e0) ->
                            exists z l sp, In (Command cm z l sp) (leaves e0)).
  { intro e0. induction e0 using expr_ind'; intros Ht cm Hc; cbn [toplevel_tree cmd_texts leaves] in *; try discriminate;
      try (destruct Hc; fail); try (apply IHe0; assumption).
    - destruct Hc as [<-|[]]. do 3 eexists. apply in_eq.
    - apply in_flat_map in Hc. destruct Hc as [c [Hc Hcm]]. rewrite Forall_forall in H. rewrite forallb_forall in Ht.
      destruct (H c Hc (Ht c Hc) cm Hcm) as [z [l [sp' Hl]]]. exists z, l, sp'. apply in_flat_map. eauto.
    - apply in_flat_map in Hc. destruct Hc as [c [Hc Hcm]]. rewrite Forall_forall in H. rewrite forallb_forall in Ht.
      destruct (H c Hc (Ht c Hc) cm Hcm) as [z [l [sp' Hl]]]. exists z, l, sp'. apply in_flat_map. eauto.
    - apply in_flat_map in Hc. destruct Hc as [c [Hc Hcm]]. rewrite Forall_forall in H. rewrite forallb_forall in Ht.
      destruct (H c Hc (Ht c Hc) cm Hcm) as [z [l [sp' Hl]]]. exists z, l, sp'. apply in_flat_map. eauto. }
  assert (Hlist : forall cs, Forall (fun e => sub_tree e = true -> forall cm, In cm (cmd_texts e) ->
       (exists z l sp, In (Command cm z l sp) (leaves e))
       \/ (exists c l sp z l' sp', In (Subword c l sp) (leaves e) /\ In (Command cm z l' sp') (leaves c))) cs ->
     forallb sub_tree cs = true -> forall cm, In cm (flat_map cmd_texts cs) ->
       (exists z l sp, In (Command cm z l sp) (flat_map leaves cs))
       \/ (exists c l sp z l' sp', In (Subword c l sp) (flat_map leaves cs) /\ In (Command cm z l' sp') (leaves c))).
  { intros cs H Ht cm Hc. apply in_flat_map in Hc. destruct Hc as [c [Hc Hcm]]. rewrite Forall_forall in H.
    rewrite forallb_forall in Ht. destruct (H c Hc (Ht c Hc) cm Hcm) as [[z [l [sp' Hl]]]|[c' [l [sp' [z [l' [sp'' [H1 H2]]]]]]]].
    - left. exists z, l, sp'. apply in_flat_map. eauto.
    - right. exists c', l, sp', z, l', sp''. split; [apply in_flat_map; eauto|exact H2]. }
  induction e using expr_ind'; intros Ht cm Hc; cbn [sub_tree cmd_texts leaves] in *; try discriminate;
    try (destruct Hc; fail); try (apply IHe; assumption); try (apply Hlist; assumption).
  - destruct Hc as [<-|[]]. left. do 3 eexists. apply in_eq.
  - destruct (Htop e Ht cm Hc) as [z [l' [sp' Hl]]]. right. do 6 eexists. split; [left; reflexivity|exact Hl].
Qed.

Lemma sub_tree_no_dd e : sub_tree e = true -> no_dd e = true.
Proof.
  induction e using expr_ind'; intro Ht; cbn [sub_tree no_dd] in *; try reflexivity; try discriminate; try (apply IHe; exact Ht);
    apply forallb_forall; intros c Hc; rewrite Forall_forall in H; rewrite forallb_forall in Ht; apply (H c Hc); apply Ht; exact Hc.
Qed.

Lemma toplevel_no_dd e : toplevel_tree e = true -> no_dd e = true.
Proof.
  induction e using expr_ind'; intro Ht; cbn [toplevel_tree no_dd] in *; try reflexivity; try discriminate; try (apply IHe; exact Ht);
    apply forallb_forall; intros c Hc; rewrite Forall_forall in H; rewrite forallb_forall in Ht; apply (H c Hc); apply Ht; exact Hc.
Qed.

Lemma tleaf_inh e : inh_leaves item tleaf e.
Proof.
  intros x Hx. apply leaves_is_leaf in Hx. destruct x; try discriminate.
  - exists [ILeaf (WLit term descr level)]. eexists. split; [reflexivity|]. cbn. reflexivity.
  - exists [ILeaf WStar]. eexists. split; [reflexivity|]. cbn. reflexivity.
  - exists [ILeaf (cmd_witem cmd compadd level)]. eexists. split; [reflexivity|]. cbn. reflexivity.
  - exists [IWord (wdenotes x) level]. eexists. split; [reflexivity|]. cbn. split; [reflexivity|tauto].
Qed.

Lemma wleaf_inh e : toplevel_tree e = true -> inh_leaves witem wleaf e.
Proof.
  induction e using expr_ind'; intros Ht x Hx; cbn [toplevel_tree leaves] in *; try discriminate;
    try (destruct Hx as [<-|[]]; eexists; cbn; reflexivity); try (apply IHe; assumption);
    apply in_flat_map in Hx; destruct Hx as [c [Hc Hx]]; rewrite Forall_forall in H; rewrite forallb_forall in Ht;
    exact (H c Hc (Ht c Hc) x Hx).
Qed.

(** alts_nonempty of a word inside the tree *)
Lemma leaves_alts e : alts_nonempty e = true -> forall x, In x (leaves e) -> alts_nonempty x = true.
Proof.
  induction e using expr_ind'; intros Ha x Hx; cbn [leaves alts_nonempty] in *;
    try (destruct Hx as [<-|[]]; exact Ha); try (apply IHe; assumption);
    try (apply alts_forall in Ha); apply in_flat_map in Hx; destruct Hx as [c [Hc Hx]]; rewrite Forall_forall in H;
    rewrite forallb_forall in Ha; exact (H c Hc (Ha c Hc) x Hx).
Qed.

Lemma leaves_sub_tree e : sub_tree e = true -> forall c l sp, In (Subword c l sp) (leaves e) -> toplevel_tree c = true.
Proof.
  induction e using expr_ind'; intros Ht c0 l0 sp0 Hx; cbn [leaves sub_tree] in *; try discriminate;
    try (destruct Hx as [Hx|[]]; inversion Hx; subst; exact Ht); try (eapply IHe; eassumption);
    apply in_flat_map in Hx; destruct Hx as [c [Hc Hx]]; rewrite Forall_forall in H;
    rewrite forallb_forall in Ht; exact (H c Hc (Ht c Hc) _ _ _ Hx).
Qed.

(** *** the theorem of this file *)
Theorem compiled_commands_complete pick fuel v c cmds :
  alts_nonempty (v_expr v) = true -> sub_tree (v_expr v) = true ->
  compile_valid pick fuel v = Ok c -> get_commands c = Ok cmds ->
  forall cm, In cm (cmd_texts (v_expr v)) -> In cm cmds.
Proof.
  intros Ha Ht Hc Hg cm Hcm.
  destruct (compiled_facts pick fuel v c Ha Hc) as [HL [W _]].
  destruct (rtrans_total _ W) as [rt Hrt].
  assert (Hp := compiled_pool_closed pick fuel v c rt Ha Hc Hrt).
  destruct (get_commands_total c rt Hrt Hp) as [cmds' [Hg' [C1 C2]]].
  rewrite Hg in Hg'. inversion Hg'; subst cmds'. clear Hg'.
  destruct (cmd_texts_leaves _ Ht cm Hcm) as [[z [l [sp Hl]]]|[e [l [sp [z [l' [sp' [Hl Hl']]]]]]]].
  - destruct (den_leaf item tleaf _ Ha (sub_tree_no_dd _ Ht) (tleaf_inh _) _ Hl) as [u [w [r [Hden [it [-> Hit]]]]]].
    apply HL in Hden. destruct Hden as [ids [Hacc HF]]. cbn [app] in HF.
    destruct (Forall2_mid _ _ _ _ _ HF) as [lu [i [lv [-> [x [Hx Hxe]]]]]].
    destruct (accepts_uses _ _ i lu lv W Hacc eq_refl) as [s [t Hin]].
    apply (C1 s x t cm); [apply (rtrans_in _ _ _ _ _ Hrt); eauto|].
    apply (names_cmd_witem x cm z l).
    destruct it as [a|L lw]; cbn [item_equiv] in Hit; [subst a|destruct Hit].
    destruct x; cbn [item_of_inp item_equiv wlab] in *; try (rewrite Hxe; reflexivity); destruct Hxe.
  - assert (Hte := leaves_sub_tree _ Ht _ _ _ Hl).
    assert (Hae : alts_nonempty e = true) by (apply (leaves_alts _ Ha _ Hl)).
    destruct (den_leaf item tleaf _ Ha (sub_tree_no_dd _ Ht) (tleaf_inh _) _ Hl) as [u [w [r [Hden [it [-> Hit]]]]]].
    apply HL in Hden. destruct Hden as [ids [Hacc HF]]. cbn [app] in HF.
    destruct (Forall2_mid _ _ _ _ _ HF) as [lu [i [lv [-> [x [Hx Hxe]]]]]].
    destruct (accepts_uses _ _ i lu lv W Hacc eq_refl) as [s [t Hin]].
    destruct it as [a|L lw]; cbn [item_equiv] in Hit; [destruct Hit|]. destruct Hit as [-> HLw].
    destruct x as [t0 d0 l0|k lk|c0 l0|c0 l0|]; cbn [item_of_inp item_equiv] in Hxe; try (destruct Hxe; fail).
    destruct Hxe as [-> Hsub].
    assert (Hrtin : In (s, ISub k l, t) rt) by (apply (rtrans_in _ _ _ _ _ Hrt); eauto).
    destruct (Hp _ _ _ _ Hrtin) as [sd [Hsd Wsd]].
    destruct (rtrans_total _ Wsd) as [srt Hsrt].
    destruct (den_leaf witem wleaf _ Hae (toplevel_no_dd _ Hte) (wleaf_inh _ Hte) _ Hl') as [u' [w' [r' [Hden' Hw']]]].
    cbn [wleaf] in Hw'. subst w'.
    apply HLw in Hden'. apply Hsub in Hden'. destruct Hden' as [ids' [Hacc' HF']].
    unfold sub_dfa in *. unfold nthN in Hsd. rewrite (nth_error_nth _ _ dead_dfa Hsd) in *.
    cbn [app] in HF'. destruct (Forall2_mid _ _ _ _ _ HF') as [lu' [i' [lv' [-> [x' [Hx' Hxl]]]]]].
    destruct (accepts_uses _ _ i' lu' lv' Wsd Hacc' eq_refl) as [s' [t' Hin']].
    apply (C2 s k l t sd srt s' x' t' cm Hrtin); [exact Hsd|exact Hsrt|apply (rtrans_in _ _ _ _ _ Hsrt); eauto|].
    exact (names_cmd_witem x' cm z l' Hxl).
Qed.
