(** Layer (c), specification side, part 1: for a within-word expression whose pieces are literals,
    [Spec.Meaning.waccepts] (defined by splitting the typed characters) is membership in the
    token-level language: the word is the concatenation of the piece texts of a sequence the
    expression denotes.  (No environment is involved: there is no command inside the word.) *)
From CG Require Import Base.Prelude Spec.Rx Spec.Meaning Proofs.RxFacts Proofs.MeaningFacts.

Definition wtext (a : wleaf) : string := match a with WLit t _ _ => t | _ => EmptyString end.

Fixpoint wconcat (ls : list wleaf) : string :=
  match ls with [] => EmptyString | a :: r => append (wtext a) (wconcat r) end.

Definition lit_piece (a : wleaf) : Prop := exists t d l, a = WLit t d l /\ t <> EmptyString.

(** every piece of the expression is a non-empty literal *)
Definition lit_word (x : rx wleaf) : Prop := forall a, In a (leaves x) -> lit_piece a.

(** residual after reading a sequence of leaves *)
Inductive rpath {A} : rx A -> list A -> rx A -> Prop :=
| rpath_nil r : rpath r [] r
| rpath_cons r a k ls r' : In (a, k) (lf r) -> rpath k ls r' -> rpath r (a :: ls) r'.

Lemma rpath_denotes {A} (r : rx A) ls r' tail : rpath r ls r' -> denotes r' tail -> denotes r (ls ++ tail).
Proof.
  induction 1 as [r | r a k ls r' Hlf _ IH]; intro Hd; [exact Hd |].
  cbn [app]. eapply lf_sound; [exact Hlf | apply IH; exact Hd].
Qed.

Lemma denotes_rpath {A} (r : rx A) : forall ls tail, denotes r (ls ++ tail) -> exists r', rpath r ls r' /\ denotes r' tail.
Proof.
  intros ls. revert r. induction ls as [| a ls IH]; intros r tail Hd.
  - exists r. split; [constructor | exact Hd].
  - cbn [app] in Hd. apply lf_complete in Hd. destruct Hd as [k [Hlf Hk]].
    destruct (IH k tail Hk) as [r' [Hp Hr']]. exists r'. split; [econstructor; eassumption | exact Hr'].
Qed.

Lemma lf_leaves' {A} (r : rx A) : forall a k, In (a, k) (lf r) -> In a (leaves r) /\ forall b, In b (leaves k) -> In b (leaves r).
Proof.
  induction r; cbn [lf leaves]; intros a0 k Hin.
  - destruct Hin.
  - destruct Hin.
  - destruct Hin as [E | []]. inversion E; subst. split; [left; reflexivity | intros b []].
  - apply in_app_or in Hin. destruct Hin as [Hin | Hin].
    + apply in_map_iff in Hin. destruct Hin as [[a1 k1] [E Hin]]. cbn in E. inversion E; subst.
      destruct (IHr1 _ _ Hin) as [Ha Hk]. split; [apply in_or_app; left; assumption |].
      intros b Hb. apply in_or_app.
      assert (Hc : In b (leaves k1) \/ In b (leaves r2)).
      { clear -Hb. destruct k1; destruct r2; cbn [cat leaves] in Hb; try (destruct Hb; fail); auto;
          try (apply in_app_or in Hb; assumption); try (left; assumption); try (right; assumption). }
      destruct Hc as [Hc | Hc]; [left; apply Hk; assumption | right; assumption].
    + destruct (nullable r1); [| destruct Hin]. destruct (IHr2 _ _ Hin) as [Ha Hk].
      split; [apply in_or_app; right; assumption | intros b Hb; apply in_or_app; right; apply Hk; assumption].
  - apply in_app_or in Hin. destruct Hin as [Hin | Hin].
    + destruct (IHr1 _ _ Hin) as [Ha Hk]. split; [apply in_or_app; left; assumption | intros b Hb; apply in_or_app; left; apply Hk; assumption].
    + destruct (IHr2 _ _ Hin) as [Ha Hk]. split; [apply in_or_app; right; assumption | intros b Hb; apply in_or_app; right; apply Hk; assumption].
  - apply in_map_iff in Hin. destruct Hin as [[a1 k1] [E Hin]]. cbn in E. inversion E; subst.
    destruct (IHr _ _ Hin) as [Ha Hk]. split; [assumption |].
    intros b Hb.
    assert (Hc : In b (leaves k1) \/ In b (leaves (star r))).
    { clear -Hb. destruct k1; cbn [cat star leaves] in Hb |- *; try (destruct Hb; fail); auto;
        try (apply in_app_or in Hb; assumption). }
    destruct Hc as [Hc | Hc]; [apply Hk; assumption |]. cbn [star leaves] in Hc. rewrite app_nil_r in Hc. assumption.
Qed.

Lemma lit_word_lf x a k : lit_word x -> In (a, k) (lf x) -> lit_piece a /\ lit_word k.
Proof.
  intros L Hin. destruct (lf_leaves' x a k Hin) as [Ha Hk]. split; [apply L; exact Ha | intros b Hb; apply L; apply Hk; exact Hb].
Qed.

Lemma prefix_app_l t : forall r, String.prefix t (append t r) = true.
Proof.
  induction t as [| c t IH]; intro r; [destruct r; reflexivity |].
  cbn [append String.prefix]. destruct (Ascii.ascii_dec c c); [apply IH | contradiction].
Qed.

Lemma length_append' a : forall b, String.length (append a b) = (String.length a + String.length b)%nat.
Proof. induction a as [| c a IH]; intro b; cbn; [reflexivity | rewrite IH; reflexivity]. Qed.

(** *** soundness: every split is a path of pieces *)
Lemma wsplits_sound en : forall fuel e dn rest e' dn' rest',
    lit_word e -> In (e', dn', rest') (wsplits en fuel e dn rest) ->
    exists ls, rpath e ls e' /\ dn' = append dn (wconcat ls) /\ rest = append (wconcat ls) rest'.
Proof.
  induction fuel as [| f IH]; intros e dn rest e' dn' rest' L H; cbn [wsplits] in H.
  - destruct H as [H | []]. inversion H; subst. exists []. split; [constructor | split; [symmetry; apply append_nil_r | reflexivity]].
  - destruct H as [H | H].
    + inversion H; subst. exists []. split; [constructor | split; [symmetry; apply append_nil_r | reflexivity]].
    + apply in_flat_map in H. destruct H as [[a k] [Hlf H]]. cbn [fst snd] in H.
      apply in_flat_map in H. destruct H as [[tok r1] [Hc H]]. cbn [fst snd] in H.
      destruct (lit_word_lf e a k L Hlf) as [[t [d [l [-> Ht]]]] Lk].
      cbn [wconsume] in Hc. destruct (nonempty t && String.prefix t rest) eqn:E; [| destruct Hc].
      destruct Hc as [Hc | []]. inversion Hc; subst tok r1.
      apply andb_true_iff in E. destruct E as [_ Ep]. apply prefix_split in Ep.
      destruct (IH k _ _ e' dn' rest' Lk H) as [ls [Hp [Hd Hr]]].
      exists (WLit t d l :: ls). split; [econstructor; eassumption | split].
      * cbn [wconcat wtext]. rewrite Hd. apply append_assoc.
      * cbn [wconcat wtext]. rewrite Ep, Hr. symmetry. apply append_assoc.
Qed.

(** *** completeness: every path of pieces is a split *)
Lemma wsplits_complete en : forall ls e e' dn rest' fuel,
    lit_word e -> rpath e ls e' -> (String.length (append (wconcat ls) rest') <= fuel)%nat ->
    In (e', append dn (wconcat ls), rest') (wsplits en fuel e dn (append (wconcat ls) rest')).
Proof.
  induction ls as [| a ls IH]; intros e e' dn rest' fuel L Hp Hf.
  - inversion Hp; subst. cbn [wconcat]. rewrite append_nil_r. destruct fuel; cbn [wsplits]; left; reflexivity.
  - inversion Hp as [| r a0 k ls0 r' Hlf Hp']; subst.
    destruct (lit_word_lf e a k L Hlf) as [[t [d [l [-> Ht]]]] Lk].
    cbn [wconcat wtext] in *. rewrite append_assoc in Hf |- *.
    destruct fuel as [| f].
    { rewrite length_append' in Hf. destruct t; [contradiction | cbn in Hf; lia]. }
    cbn [wsplits]. right. apply in_flat_map. exists (WLit t d l, k). split; [exact Hlf |]. cbn [fst snd].
    apply in_flat_map. exists (t, append (wconcat ls) rest'). split.
    + cbn [wconsume]. rewrite prefix_app_l. assert (En : nonempty t = true) by (destruct t; [contradiction | reflexivity]).
      rewrite En. cbn [andb]. rewrite sdrop_app. left; reflexivity.
    + cbn [fst snd]. rewrite <- append_assoc. apply IH; [exact Lk | exact Hp' |].
      rewrite length_append' in Hf. destruct t; [contradiction |]. cbn [String.length] in Hf. lia.
Qed.

Theorem waccepts_tokens en x w :
  lit_word x -> (waccepts en x w = true <-> exists ls, denotes x ls /\ w = wconcat ls).
Proof.
  intro L. unfold waccepts, wsplits_of. rewrite existsb_exists. split.
  - intros [[[e' dn'] rest'] [Hin H]]. apply andb_true_iff in H. destruct H as [Hr Hn].
    destruct rest'; [| discriminate].
    destruct (wsplits_sound en _ _ _ _ _ _ _ L Hin) as [ls [Hp [_ Hw]]].
    exists ls. split.
    + rewrite <- (app_nil_r ls). eapply rpath_denotes; [exact Hp | apply nullable_denotes; exact Hn].
    + rewrite Hw. apply append_nil_r.
  - intros [ls [Hd ->]]. rewrite <- (app_nil_r ls) in Hd. apply denotes_rpath in Hd. destruct Hd as [e' [Hp Hn]].
    exists (e', wconcat ls, EmptyString). split.
    + pose proof (wsplits_complete en ls x e' EmptyString EmptyString (String.length (wconcat ls)) L Hp) as H.
      rewrite append_nil_r in H. cbn [append] in H. apply H. lia.
    + cbn. apply nullable_denotes. exact Hn.
Qed.
