(** C17 with within-word expressions: [run_from Repaired] (/repo HEAD) does what Spec/InvocationsSub.v prescribes. *)
From CG Require Import Base.Prelude Model.Dfa Model.Glob Model.BashSem Spec.Invocations Spec.InvocationsSub.
From CG Require Import Proofs.GlobFacts Proofs.SubwordFacts Proofs.C12Proofs Proofs.C17Proofs Proofs.C17Total Proofs.C17Pick.

(** well-formed within-word tables: literal array non-empty texts, in decreasing length (dfa.rs) *)
Definition wf_sub (T : tables) : Prop := nonempty_lits (lits_of T) /\ sorted_desc (lits_of T).
Definition wf_subwords (tabs : alltables) : Prop :=
  forall pool sid T, In (pool, sid, T) (a_subwords tabs) -> wf_sub T.

Lemma run_cmd_repaired tabs e cid a1 a2 log : run_cmd Repaired tabs e cid a1 a2 log = spec_call tabs e cid a1 a2 log.
Proof.
  unfold run_cmd, spec_call. destruct (nthN (a_commands tabs) cid); [|reflexivity].
  unfold command_lines. cbn [quirky]. now rewrite filter_lines_repaired_spec.
Qed.

(** *** inside a word *)
Lemma cmd_loop_spec c tabs e sub mp : sub <> EmptyString -> forall cmds log,
    cmd_loop Repaired c tabs e cmds sub mp log = spec_sw_cmds c tabs e cmds sub mp log.
Proof.
  intros Hs. induction cmds as [|[cid to] r IH]; intros log; [reflexivity|].
  cbn [cmd_loop spec_sw_cmds]. rewrite run_cmd_repaired.
  destruct (spec_call tabs e cid sub mp log) as [[cands log1]| | |]; cbn [obind]; try reflexivity.
  destruct cands as [|x xs].
  - rewrite IH. rewrite spec_pick_cands_unfold. cbn. now rewrite andb_false_r.
  - cbn [cand_loop quirky obind]. rewrite (cand_loop_sorted_spec c to sub (x :: xs) Hs).
    destruct (spec_pick_cands c (x :: xs) to sub); [reflexivity|reflexivity|apply IH].
Qed.

Lemma lit_step_spec c T st sub : wf_sub T -> sub <> EmptyString ->
  lit_loop_str c (lits_of T) st sub = spec_pick c (expected_literals T st) sub.
Proof.
  intros [Hn Hs] Hr. rewrite lit_loop_str_pick. unfold expected_literals. fold (lits_of T).
  apply pick_first_spec; [exact Hr|now apply expected_sorted|].
  apply expected_nonempty. exact Hn.
Qed.

Theorem sw_loop_spec c tabs e T acc word : wf_sub T -> forall fuel state ci log,
    sw_loop fuel Repaired c tabs e T acc word state ci log = spec_sw_loop fuel c tabs e T acc word state ci log.
Proof.
  intros Hwf. induction fuel as [|fuel IH]; intros state ci log; [reflexivity|].
  rewrite sw_loop_S. cbn [spec_sw_loop quirky orb]. unfold star_first. cbn [quirky negb andb].
  destruct (Nat.leb (String.length word) ci) eqn:El; [reflexivity|].
  destruct (negb c && match t_mstar T with Some stars => has_key state stars | None => false end); [reflexivity|].
  apply Nat.leb_gt in El. cbv zeta.
  pose proof (sdrop_nonempty ci word El) as Hs.
  assert (Tail : forall log0,
             (do (s2, log2) <- match t_mcmd T with
                               | Some ct =>
                                 match assocN state ct with
                                 | Some row => cmd_loop Repaired c tabs e (assoc_of row) (sdrop ci word) (stake ci word) log0
                                 | None => Ok (SNone, log0)
                                 end
                               | None => Ok (SNone, log0)
                               end;
              match s2 with
              | SCont st adv => sw_loop fuel Repaired c tabs e T acc word st (ci + adv) log2
              | SBreak => Ok (false, state, ci, log2)
              | SNone =>
                match t_mstar T with
                | Some stars => if has_key state stars then Ok (true, state, ci, log2) else Ok (false, state, ci, log2)
                | None => Ok (false, state, ci, log2)
                end
              end)
             = (do (s2, log2) <- match t_mcmd T with
                                 | Some ct =>
                                   match assocN state ct with
                                   | Some row => spec_sw_cmds c tabs e (assoc_of row) (sdrop ci word) (stake ci word) log0
                                   | None => Ok (SNone, log0)
                                   end
                                 | None => Ok (SNone, log0)
                                 end;
                match s2 with
                | SCont st adv => spec_sw_loop fuel c tabs e T acc word st (ci + adv) log2
                | SBreak => Ok (false, state, ci, log2)
                | SNone =>
                  match t_mstar T with
                  | Some stars => if has_key state stars then Ok (true, state, ci, log2) else Ok (false, state, ci, log2)
                  | None => Ok (false, state, ci, log2)
                  end
                end)).
  { intros log0. destruct (t_mcmd T) as [ct|]; [|reflexivity].
    destruct (assocN state ct) as [row|]; [|reflexivity].
    rewrite (cmd_loop_spec c tabs e _ _ Hs).
    destruct (spec_sw_cmds c tabs e (assoc_of row) (sdrop ci word) (stake ci word) log0) as [[s2 log2]| | |]; cbn [obind]; try reflexivity.
    destruct s2; [apply IH|reflexivity|reflexivity]. }
  destruct (assocN state (t_mlit T)) as [st|].
  - cbn [lit_loop obind]. fold (lits_of T). rewrite (lit_step_spec c T st _ Hwf Hs).
    destruct (spec_pick c (expected_literals T st) (sdrop ci word)); [apply IH|reflexivity|apply Tail].
  - cbn [obind]. apply Tail.
Qed.

Section Levels.
  Variables (tabs : alltables) (e : env).
  Hypothesis Hcase : e_ignore_case e = false.

  Lemma printable_sdrop n : forall s, printable_str s = true -> printable_str (sdrop n s) = true.
  Proof.
    induction n as [|n IH]; intros s H; destruct s as [|a s]; cbn [sdrop]; try assumption.
    cbn [printable_str] in H. apply andb_true_iff in H as [_ H]. now apply IH.
  Qed.

  (** the commands of one level inside a word: same offers, same log (the array left behind is reset anyway) *)
  Lemma sw_cmds_level_spec cp mp : printable_str cp = true -> forall cids sc sm log,
      (do (x, log') <- sw_cmds_level Repaired tabs e cids cp mp sc sm log; Ok (snd x, log'))
      = spec_sw_cmds_level tabs e cids cp mp sm log.
  Proof.
    intros Hp. induction cids as [|cid r IH]; intros sc sm log; [reflexivity|].
    cbn [sw_cmds_level spec_sw_cmds_level]. rewrite run_cmd_repaired.
    destruct (spec_call tabs e cid cp mp log) as [[cands log1]| | |]; cbn [obind]; try reflexivity.
    rewrite (match_fn_prefix_filter e cp cands Hcase Hp). cbn [obind]. apply IH.
  Qed.

  Lemma sw_levels_reset T state mp cp : forall n level sc sm log,
      sw_levels n level Repaired tabs e T state mp cp sc sm log
      = sw_levels n level Repaired tabs e T state mp cp [] sm log.
  Proof. intros n. destruct n; reflexivity. Qed.

  Lemma sw_levels_spec T state mp cp :
    printable_str (mp ++ cp) = true -> printable_str cp = true -> forall n level sc log,
        sw_levels n level Repaired tabs e T state mp cp sc [] log = spec_sw_levels n level tabs e T state mp cp log.
  Proof.
    intros Hw Hp. induction n as [|n IH]; intros level sc log; [reflexivity|].
    cbn [sw_levels spec_sw_levels quirky List.app].
    rewrite (match_fn_prefix_filter e _ _ Hcase Hw). cbn [obind List.app].
    destruct (t_ccmd T) as [cc|].
    - pose proof (sw_cmds_level_spec cp mp Hp (level_row cc level state)
                    (map (fun id => (mp ++ literal_at T id)%string) (level_row (t_clit T) level state))
                    (filter (String.prefix (mp ++ cp)) (map (fun id => (mp ++ literal_at T id)%string) (level_row (t_clit T) level state)))
                    log) as D.
      destruct (sw_cmds_level Repaired tabs e (level_row cc level state) cp mp _ _ log) as [[[sc2 sm2] log2]| | |];
        cbn [obind snd] in D; rewrite <- D; cbn [obind]; try reflexivity.
      destruct sm2; [|reflexivity]. rewrite sw_levels_reset. apply IH.
    - cbn [obind]. destruct (filter _ _); [|reflexivity]. rewrite sw_levels_reset. apply IH.
  Qed.

  Lemma subword_matches_spec T acc word log : wf_sub T ->
    subword_matches Repaired tabs e T acc word log = spec_subword_matches tabs e T acc word log.
  Proof.
    intros Hwf. unfold subword_matches, subword_matches_from, spec_subword_matches.
    now rewrite (sw_loop_spec false tabs e T acc word Hwf).
  Qed.

  Lemma subword_complete_spec T word log : wf_sub T -> printable_str word = true ->
    subword_complete Repaired tabs e T word log = spec_subword_complete tabs e T word log.
  Proof.
    intros Hwf Hp. unfold subword_complete, subword_complete_from, spec_subword_complete.
    rewrite (sw_loop_spec true tabs e T [] word Hwf).
    destruct (spec_sw_loop (sw_fuel T word) true tabs e T [] word 0 0 log) as [[[[m st] ci] log1]| | |]; cbn [obind]; try reflexivity.
    apply sw_levels_spec; [now rewrite stake_sdrop|now apply printable_sdrop].
  Qed.

  (** *** top level *)
  Hypothesis Hwf : wf_subwords tabs.

  Lemma top_sub_loop_spec word : forall row log,
      top_sub_loop Repaired tabs e row word log = spec_sub_loop tabs e row word log.
  Proof.
    induction row as [|[sid to] r IH]; intros log; [reflexivity|]. cbn [top_sub_loop spec_sub_loop].
    destruct (subword_tables (a_subwords tabs) sid) as [T|] eqn:E; [|reflexivity].
    destruct (subword_tables_in _ _ _ E) as [pool Hin].
    rewrite (subword_matches_spec T _ word log (Hwf pool sid T Hin)).
    destruct (spec_subword_matches tabs e T (sub_accepting tabs sid) word log) as [[m log1]| | |]; cbn [obind]; try reflexivity.
    destruct m; [reflexivity|apply IH].
  Qed.

  Lemma top_cmd_loop_spec_sw word last : forall cmds log,
      top_cmd_loop Repaired tabs e cmds word last log
      = (do (r, l) <- spec_cmd_loop_sw tabs e cmds word log;
         Ok (match r with Some to => WNext to | None => WNone end, l)).
  Proof.
    induction cmds as [|[cid to] r IH]; intros log; [reflexivity|].
    cbn [top_cmd_loop spec_cmd_loop_sw quirky]. rewrite run_cmd_repaired.
    destruct (spec_call tabs e cid "" "" log) as [[cands log1]| | |]; cbn [obind]; try reflexivity.
    destruct cands as [|x xs]; [cbn [existsb]; apply IH|]. cbn [obind].
    rewrite existsb_sort_desc. destruct (existsb (String.eqb word) (x :: xs)); [reflexivity|].
    rewrite andb_false_r. apply IH.
  Qed.

  Lemma walk_spec_sw : forall ws state log,
      walk Repaired tabs e state ws log = spec_walk_sw tabs e state ws log.
  Proof.
    induction ws as [|w rest IH]; intros state log; [reflexivity|]. cbn [walk spec_walk_sw].
    destruct (match assocN state (t_mlit (a_main tabs)) with
              | Some st => top_lit_loop (indexed_from 0 (literal_texts (a_main tabs))) st w
              | None => None
              end) as [to|]; [apply IH|].
    assert (E1 : match assocN state (a_subtrans tabs) with
                 | Some row => do srow <- sub_row (a_subwords tabs) row; top_sub_loop Repaired tabs e (assoc_of srow) w log
                 | None => Ok (None, log)
                 end
                 = match assocN state (a_subtrans tabs) with
                   | Some row => do srow <- sub_row (a_subwords tabs) row; spec_sub_loop tabs e (assoc_of srow) w log
                   | None => Ok (None, log)
                   end).
    { destruct (assocN state (a_subtrans tabs)) as [row|]; [|reflexivity].
      destruct (sub_row (a_subwords tabs) row); cbn [obind]; try reflexivity. apply top_sub_loop_spec. }
    rewrite E1. clear E1.
    destruct (match assocN state (a_subtrans tabs) with
              | Some row => do srow <- sub_row (a_subwords tabs) row; spec_sub_loop tabs e (assoc_of srow) w log
              | None => Ok (None, log)
              end) as [[s1 log1]| | |]; cbn [obind]; try reflexivity.
    destruct s1 as [to|]; [apply IH|].
    set (last := match rest with [] => true | _ => false end).
    destruct (t_mcmd (a_main tabs)) as [ct|].
    - destruct (assocN state ct) as [row|].
      + rewrite top_cmd_loop_spec_sw.
        destruct (spec_cmd_loop_sw tabs e (assoc_of row) w log1) as [[r2 log2]| | |]; cbn [obind]; try reflexivity.
        destruct r2 as [to|]; [apply IH|].
        destruct (match t_mstar (a_main tabs) with Some stars => assocN state stars | None => None end); [apply IH|reflexivity].
      + cbn [obind].
        destruct (match t_mstar (a_main tabs) with Some stars => assocN state stars | None => None end); [apply IH|reflexivity].
    - cbn [obind].
      destruct (match t_mstar (a_main tabs) with Some stars => assocN state stars | None => None end); [apply IH|reflexivity].
  Qed.

  Variable p : string.
  Hypothesis Hprint : printable_str p = true.

  Lemma top_subs_level_spec : forall sids matches log,
      top_subs_level Repaired tabs e sids p matches log = spec_subs_level tabs e sids p matches log.
  Proof.
    induction sids as [|sid r IH]; intros matches log; [reflexivity|]. cbn [top_subs_level spec_subs_level].
    destruct (subword_tables (a_subwords tabs) sid) as [T|] eqn:E; [|reflexivity].
    destruct (subword_tables_in _ _ _ E) as [pool Hin].
    rewrite (subword_complete_spec T p log (Hwf pool sid T Hin) Hprint).
    destruct (spec_subword_complete tabs e T p log) as [[add log1]| | |]; cbn [obind]; try reflexivity. apply IH.
  Qed.

  Lemma top_levels_spec_sw : forall n level state cands log res,
      spec_levels_sw n level tabs e state p log = Ok res ->
      top_levels n level Repaired tabs e state p cands [] log = Ok res.
  Proof.
    induction n as [|n IH]; intros level state cands log res H; [exact H|].
    cbn [spec_levels_sw top_levels quirky List.app] in *.
    set (lits := map (fun id => (literal_at (a_main tabs) id ++ " ")%string)
                     (level_row (t_clit (a_main tabs)) level state)) in *.
    assert (Hm : (match lits with [] => Ok [] | _ => match_fn e p lits end)
                 = (Ok (filter (String.prefix p) lits) : M (list string))).
    { destruct lits; [reflexivity|]. now apply match_fn_prefix_filter. }
    rewrite Hm. cbn [obind List.app]. rewrite top_subs_level_spec.
    destruct (spec_subs_level tabs e (level_row (a_csub tabs) level state) p (filter (String.prefix p) lits) log)
      as [[offered1 log1]| | |]; cbn [obind] in *; try discriminate.
    destruct (t_ccmd (a_main tabs)) as [cc|].
    - destruct (spec_cmds_level tabs e (level_row cc level state) p offered1 log1) as [[m' l']| | |] eqn:E;
        cbn [obind] in H; try discriminate.
      destruct (top_cmds_level_spec Repaired tabs e
                  (fun cid => filter_lines_repaired_spec (cmd_output e cid)) Hcase p Hprint _ lits _ _ _ _ E)
        as (cands' & -> & _). cbn [obind].
      destruct m'; [now apply IH|exact H].
    - cbn [obind] in *. destruct offered1; [now apply IH|exact H].
  Qed.
End Levels.

Theorem run_from_repaired_spec_sw :
  forall start tabs e ws p r,
    wf_subwords tabs -> e_ignore_case e = false -> printable_str p = true ->
    spec_run_sw start tabs e ws p = Ok r ->
    run_from Repaired start tabs e ws p = Ok r.
Proof.
  intros start tabs e ws p r Hwf Hcase Hp H. unfold spec_run_sw in H. unfold run_from.
  rewrite (walk_spec_sw tabs e Hwf).
  destruct (spec_walk_sw tabs e start ws []) as [[st log]| | |]; cbn [obind] in *; try discriminate.
  destruct st as [state|]; [|exact H].
  destruct (spec_levels_sw _ 0 tabs e state p log) as [[reply log1]| | |] eqn:E; cbn [obind] in H; try discriminate.
  rewrite (top_levels_spec_sw tabs e Hcase Hwf p Hp _ 0 state [] log _ E). exact H.
Qed.
