(** Fuel adequacy of the two follow-table walks of [check_ambiguities] (Model/Regex.v):
    [tail_only] and [check_subwords] never return [OutOfFuel] when started with [regex_fuel r].

    Measure: the number of entries of the follow table whose key has not been visited yet.  Every
    nested call marks a key [p] with [memN p visited = false] and [assocN p fw = Some _], so it
    strictly decreases; the visited list returned by a call extends the one given, so the measure
    never increases along the inner loop. *)
From CG Require Import Base.Prelude Model.Ast Model.Regex.

(** *** [OutOfFuel]-freedom composes *)

Lemma obind_not_fuel {E A B} (x : outcome E A) (f : A -> outcome E B) :
  x <> OutOfFuel -> (forall a, x = Ok a -> f a <> OutOfFuel) -> obind x f <> OutOfFuel.
Proof.
  intros Hx Hf. destruct x; cbn; try discriminate.
  - apply Hf; reflexivity.
  - contradiction.
Qed.

Lemma omap_not_fuel {E A B} (f : A -> outcome E B) (l : list A) :
  (forall a, f a <> OutOfFuel) -> omap f l <> OutOfFuel.
Proof.
  intros Hf. induction l as [|a l IH]; cbn [omap]; [discriminate|].
  apply obind_not_fuel; [apply Hf|]. intros y _.
  apply obind_not_fuel; [exact IH|]. intros ys _. discriminate.
Qed.

Lemma input_at_not_fuel r p : input_at r p <> OutOfFuel.
Proof. unfold input_at. destruct (nthN (r_inputs r) p); discriminate. Qed.

Lemma inputs_of_not_fuel r l : inputs_of r l <> OutOfFuel.
Proof. unfold inputs_of. apply omap_not_fuel. apply input_at_not_fuel. Qed.

Lemma is_star_subword_not_fuel i : is_star_subword i <> OutOfFuel.
Proof. destruct i; discriminate. Qed.



(** *** The measure *)

Definition unvisited (fw : list (N * list N)) (visited : list N) : nat :=
  List.length (filter (fun e => negb (memN (fst e) visited)) fw).

Lemma memN_In k l : memN k l = true <-> In k l.
Proof.
  unfold memN. rewrite existsb_exists. split.
  - intros [x [Hin Heq]]. apply N.eqb_eq in Heq. subst; assumption.
  - intros Hin. exists k. split; [assumption|apply N.eqb_refl].
Qed.

Lemma memN_mono k (v v' : list N) :
  (forall x, In x v -> In x v') -> memN k v = true -> memN k v' = true.
Proof. intros Hi Hm. apply memN_In. apply Hi. apply memN_In. exact Hm. Qed.

Lemma unvisited_le_length fw v : (unvisited fw v <= List.length fw)%nat.
Proof.
  unfold unvisited. induction fw as [|e fw IH]; cbn [filter List.length]; [lia|].
  destruct (negb (memN (fst e) v)); cbn [List.length]; lia.
Qed.

Lemma unvisited_antitone fw v v' :
  (forall x, In x v -> In x v') -> (unvisited fw v' <= unvisited fw v)%nat.
Proof.
  intros Hi. unfold unvisited. induction fw as [|e fw IH]; cbn [filter List.length]; [lia|].
  destruct (memN (fst e) v) eqn:Hm.
  - rewrite (memN_mono _ _ _ Hi Hm). cbn [negb]. exact IH.
  - cbn [negb]. destruct (negb (memN (fst e) v')); cbn [List.length]; lia.
Qed.

Lemma memN_cons_same p v : memN p (p :: v) = true.
Proof. apply memN_In. left; reflexivity. Qed.

Lemma unvisited_mark (fw : list (N * list N)) p v (follow : list N) :
  memN p v = false -> assocN p fw = Some follow ->
  (unvisited fw (p :: v) < unvisited fw v)%nat.
Proof.
  intros Hm. unfold unvisited. induction fw as [|[k x] fw IH]; cbn [assocN]; [discriminate|].
  intros Ha. cbn [filter fst].
  destruct (N.eqb p k) eqn:Hpk.
  - apply N.eqb_eq in Hpk. subst k. rewrite Hm, memN_cons_same. cbn [negb List.length].
    pose proof (unvisited_antitone fw v (p :: v) (fun x H => or_intror H)) as Hle.
    unfold unvisited in Hle. lia.
  - specialize (IH Ha).
    destruct (memN k v) eqn:Hkv.
    + rewrite (memN_mono k v (p :: v) (fun x H => or_intror H) Hkv). cbn [negb]. exact IH.
    + cbn [negb]. destruct (negb (memN k (p :: v))); cbn [List.length]; lia.
Qed.

(** *** [tail_only] *)

Section TailOnlyFuel.
  Variable r : regex.
  Variable fw : list (N * list N).

  Lemma tail_only_fuel_gen : forall fuel firstpos pp visited,
    (unvisited fw visited < fuel)%nat ->
    tail_only r fw fuel firstpos pp visited <> OutOfFuel /\
    (forall v', tail_only r fw fuel firstpos pp visited = Ok v' ->
                forall x, In x visited -> In x v').
  Proof.
    induction fuel as [|f IHf]; intros firstpos pp visited Hlt; [lia|].
    cbn [tail_only].
    destruct (inputs_of r firstpos) as [inputs| | |] eqn:Hin; cbn [obind];
      [|split; [discriminate|intros; discriminate]
       |split; [discriminate|intros; discriminate]
       |exfalso; exact (inputs_of_not_fuel _ _ Hin)].
    destruct (first_clash pp inputs) as [e|]; [split; [discriminate|intros; discriminate]|].
    clear Hin.
    assert (Hle : (unvisited fw visited <= f)%nat) by lia. clear Hlt.
    generalize firstpos. intros ps.
    revert visited Hle. induction ps as [|p rest IHps]; intros visited Hle.
    - cbn. split; [discriminate|]. intros v' Hv. injection Hv as <-. auto.
    - cbn -[memN assocN unvisited tail_only In].
      destruct (memN p visited) eqn:Hm; [apply IHps; exact Hle|].
      destruct (assocN p fw) as [follow|] eqn:Ha; [|apply IHps; exact Hle].
      assert (Hlt : (unvisited fw (p :: visited) < f)%nat).
      { pose proof (unvisited_mark fw p visited follow Hm Ha). lia. }
      destruct (input_at r p) as [inp| | |] eqn:Hia; cbn [obind];
        [|split; [discriminate|intros; discriminate]
         |split; [discriminate|intros; discriminate]
         |exfalso; exact (input_at_not_fuel _ _ Hia)].
      destruct (is_star_subword inp) as [st| | |] eqn:Hst; cbn [obind];
        [|split; [discriminate|intros; discriminate]
         |split; [discriminate|intros; discriminate]
         |exfalso; exact (is_star_subword_not_fuel _ Hst)].
      destruct (IHf follow (opt_or pp (if st then Some inp else None)) (p :: visited) Hlt) as [Hnf Hext].
      destruct (tail_only r fw f follow (opt_or pp (if st then Some inp else None)) (p :: visited)) as [v1| | |] eqn:Hrec;
        cbn [obind];
        [|split; [discriminate|intros; discriminate]
         |split; [discriminate|intros; discriminate]
         |contradiction].
      assert (Hinc : forall x, In x visited -> In x v1).
      { intros x Hx. apply (Hext v1 eq_refl). right; exact Hx. }
      assert (Hle1 : (unvisited fw v1 <= f)%nat).
      { pose proof (unvisited_antitone fw visited v1 Hinc). lia. }
      destruct (IHps v1 Hle1) as [Hnf1 Hext1].
      split; [exact Hnf1|]. intros v' Hv x Hx. apply (Hext1 v' Hv). apply Hinc. exact Hx.
  Qed.
End TailOnlyFuel.

Theorem check_tail_only_fuel : forall r, check_tail_only r <> OutOfFuel.
Proof.
  intros r. unfold check_tail_only.
  apply obind_not_fuel; [|intros; discriminate].
  apply tail_only_fuel_gen. unfold regex_fuel.
  pose proof (unvisited_le_length (regex_follow r) [r_end r]). lia.
Qed.

(** *** [check_subwords] *)

Section CheckSubwordsFuel.
  Variable r : regex.
  Variable fw : list (N * list N).
  Variable pl : pool.

  Lemma check_each_sub_not_fuel : forall ids checked,
    check_each_sub pl ids checked <> OutOfFuel.
  Proof.
    induction ids as [|rid rest IH]; intros checked; cbn [check_each_sub]; [discriminate|].
    destruct (nthN pl rid) as [sub|]; [|discriminate].
    apply obind_not_fuel; [apply check_tail_only_fuel|]. intros _ _. apply IH.
  Qed.

  Lemma check_subwords_fuel_gen : forall fuel firstpos visited checked,
    (unvisited fw visited < fuel)%nat ->
    check_subwords r fw pl fuel firstpos visited checked <> OutOfFuel /\
    (forall vc, check_subwords r fw pl fuel firstpos visited checked = Ok vc ->
                forall x, In x visited -> In x (fst vc)).
  Proof.
    induction fuel as [|f IHf]; intros firstpos visited checked Hlt; [lia|].
    cbn [check_subwords].
    destruct (inputs_of r firstpos) as [inputs| | |] eqn:Hin; cbn [obind];
      [|split; [discriminate|intros; discriminate]
       |split; [discriminate|intros; discriminate]
       |exfalso; exact (inputs_of_not_fuel _ _ Hin)].
    cbv zeta.
    destruct (check_each_sub pl (filter (fun rid => negb (memN rid checked)) (sub_ids_of inputs))
                             checked) as [checked1| | |] eqn:Hce; cbn [obind];
      [|split; [discriminate|intros; discriminate]
       |split; [discriminate|intros; discriminate]
       |exfalso; exact (check_each_sub_not_fuel _ _ Hce)].
    clear Hin Hce.
    assert (Hle : (unvisited fw visited <= f)%nat) by lia. clear Hlt.
    generalize firstpos. intros ps.
    generalize checked1 as ck.
    revert visited Hle. induction ps as [|p rest IHps]; intros visited Hle ck.
    - cbn. split; [discriminate|]. intros vc Hv. injection Hv as <-. cbn [fst]. auto.
    - cbn -[memN assocN unvisited check_subwords In fst snd].
      destruct (memN p visited) eqn:Hm; [apply IHps; exact Hle|].
      destruct (assocN p fw) as [follow|] eqn:Ha; [|apply IHps; exact Hle].
      assert (Hlt : (unvisited fw (p :: visited) < f)%nat).
      { pose proof (unvisited_mark fw p visited follow Hm Ha). lia. }
      destruct (IHf follow (p :: visited) ck Hlt) as [Hnf Hext].
      destruct (check_subwords r fw pl f follow (p :: visited) ck) as [vc1| | |] eqn:Hrec;
        cbn [obind];
        [|split; [discriminate|intros; discriminate]
         |split; [discriminate|intros; discriminate]
         |contradiction].
      assert (Hinc : forall x, In x visited -> In x (fst vc1)).
      { intros x Hx. apply (Hext vc1 eq_refl). right; exact Hx. }
      assert (Hle1 : (unvisited fw (fst vc1) <= f)%nat).
      { pose proof (unvisited_antitone fw visited (fst vc1) Hinc). lia. }
      destruct (IHps (fst vc1) Hle1 (snd vc1)) as [Hnf1 Hext1].
      split; [exact Hnf1|]. intros vc Hv x Hx. apply (Hext1 vc Hv). apply Hinc. exact Hx.
  Qed.
End CheckSubwordsFuel.

Theorem check_ambiguities_fuel : forall r pl, check_ambiguities r pl <> OutOfFuel.
Proof.
  intros r pl. unfold check_ambiguities.
  apply obind_not_fuel; [|intros; discriminate].
  apply check_subwords_fuel_gen. unfold regex_fuel.
  pose proof (unvisited_le_length (regex_follow r) [r_end r]). lia.
Qed.

Print Assumptions check_tail_only_fuel.
Print Assumptions check_ambiguities_fuel.
