(** Expression round trip, part 1: the parser by precedence level, what may follow a printed
    expression at each level ([st]), one-step unfoldings of the printer, and the lifting lemmas
    (a parse at a tighter level is a parse at a looser level when the loops in between stop). *)
From CG Require Import Base.Prelude Model.Ast Model.Lexer Model.Parser Spec.Printer
  Proofs.LexBase Proofs.LexBlanks Proofs.LexTerminal Proofs.LexTokens Proofs.LexCommand.
From CGgen Require Import Consts.

(** *** The parser, level by level *)

Definition Atom (c : cfg) (n : nat) (i : input) : pres expr :=
  nonterm_expr i
  <|> optional_expr (expr_p c n) i
  <|> parenthesized_expr (expr_p c n) i
  <|> command_expr i
  <|> terminal_opt_description_expr c i.

Definition U (c : cfg) (n : nat) := unary_expr c (expr_p c n).
Definition SW (c : cfg) (n : nat) := subword_sequence_expr n (U c n).
Definition I (c : cfg) (n : nat) := subword_sequence_expr_opt_description n (U c n).
Definition Sq (c : cfg) (n : nat) := sequence_expr n (I c n).
Definition A (c : cfg) (n : nat) := alternative_expr n (Sq c n).
Definition F (c : cfg) (n : nat) := fallback_expr n (A c n).

Lemma expr_p_S : forall c n i, expr_p c (S n) i = F c n i.
Proof. reflexivity. Qed.

Definition P (c : cfg) (n lvl : nat) : input -> pres expr :=
  match lvl with
  | 0 => F c n | 1 => A c n | 2 => Sq c n | 3 => I c n | 4 => SW c n | 5 => U c n | _ => Atom c n
  end%nat.

Lemma U_Atom : forall c n i, U c n i =
  do (e, after) <- Atom c n i;
  match many1_tag after with
  | Ok (_, after') => Ok (Many1 e (from_range i after'), after')
  | Err _ => Ok (e, after)
  | Panic s => Panic s
  | OutOfFuel => OutOfFuel
  end.
Proof. reflexivity. Qed.

(** the level at which a child printed in context [ctx] is parsed (7 = forced parentheses under
    a description, parsed by the sub-word parser; 8 = forced parentheses around a factor of a
    word, parsed by the unary parser) *)
Definition lvl (ctx : nat) : nat :=
  if Nat.eqb ctx 7 then 4%nat else if Nat.eqb ctx 8 then 5%nat else ctx.

(** *** What may follow *)

Definition noq (s : string) : bool := hd_in (fun c => negb (Ascii.eqb c DQUOTE)) s.
Definition nobar (s : string) : bool := hd_in (fun c => negb (Ascii.eqb c BAR)) s.

Definition c5 (r : string) : Prop := starts_with "..." (skips r) = false.
Definition c4 (r : string) : Prop := hd_in no_unary r = true.
Definition c3 (r : string) : Prop := noq (skips r) = true.
Definition c2 (r : string) : Prop := hd_in no_unary (skips r) = true.
Definition c1 (r : string) : Prop := nobar (skips r) = true \/ starts_with "||" (skips r) = true.
Definition c0 (r : string) : Prop := nobar (skips r) = true.

(** [st k r]: the text [r] stops every loop of the levels [k .. 5] *)
Definition st (k : nat) (r : string) : Prop :=
  ((k <= 5)%nat -> c5 r) /\ ((k <= 4)%nat -> c4 r) /\ ((k <= 3)%nat -> c3 r)
  /\ ((k <= 2)%nat -> c2 r) /\ ((k <= 1)%nat -> c1 r) /\ ((k <= 0)%nat -> c0 r).

Lemma st_mono : forall k k' r, (k <= k')%nat -> st k r -> st k' r.
Proof. unfold st. intros k k' r H (H5 & H4 & H3 & H2 & H1 & H0). repeat split; intros; auto with arith; [apply H5|apply H4|apply H3|apply H2|apply H1|apply H0]; lia. Qed.

(** extra conditions for an expression printed without parentheses that ends in a literal *)
Definition extra (ctx : nat) (e : expr) (r : string) : Prop :=
  (open_end e = true -> noq (skips r) = true)
  /\ (is_plain_lit e = true -> lit_rest (Nat.leb 6 ctx) r).

Definition bare (lay : layout) (ctx : nat) (e : expr) : bool :=
  negb (Nat.ltb (prec e) ctx) && Nat.eqb (wraps (lay []) ctx) 0.

Definition mstop (lay : layout) (ctx : nat) (e : expr) (r : string) : Prop :=
  st (lvl ctx) r /\ (bare lay ctx e = true -> extra ctx e r).

Definition cstop (ctx : nat) (e : expr) (r : string) : Prop :=
  st (prec e) r /\ extra ctx e r.

(** *** One-step unfoldings of the printer *)

Definition body_txt (lay : layout) (ctx : nat) (e : expr) : string :=
  let L := lay [] in
  match e with
  | Terminal t d _ _ =>
      append (pieces_text (spell (nl_esc L) (Nat.leb 6 ctx) t))
             (match d with
              | Some d => append (gap_text (post_gap (nl_gap L 0))) (descr_text d)
              | None => EmptyString
              end)
  | NontermRef n _ _ => String LT (append n (String GT EmptyString))
  | Command c _ _ _ =>
      append LBRACE3 (append (tws_text (nl_ws L 0)) (append c (append (tws_text (cmd_ws1 c (nl_ws L 1))) RBRACE3)))
  | Optional c _ =>
      String LBRACK (append (gap_text (nl_gap L 0))
                       (append (txt (sub lay 0) 0 c)
                          (append (gap_text (post_gap (nl_gap L 1))) (String RBRACK EmptyString))))
  | Many1 c _ =>
      append (txt (sub lay 0) 6 c) (append (gap_text (post_gap (nl_gap L 0))) DOTS3)
  | DistDescr c d _ =>
      append (txt (sub lay 0) (if open_end c then 7 else 4) c)
             (append (gap_text (post_gap (nl_gap L 0))) (descr_text d))
  | Subword r _ _ =>
      match r with
      | Sequence fs _ => txt_sub (fun k cx f => txt (sub (sub lay 0) k) cx f) 0 false fs
      | _ => txt (sub lay 0) 5 r
      end
  | Sequence cs _ => txt_list (fun k x => txt (sub lay k) 3 x) (seq_sep L) 0 cs
  | Alternative cs _ => txt_list (fun k x => txt (sub lay k) 2 x) (alt_sep L) 0 cs
  | Fallback cs _ => txt_list (fun k x => txt (sub lay k) 1 x) (fb_sep L) 0 cs
  end.

Lemma txt_eq : forall lay ctx e,
    txt lay ctx e =
    wrap_text (lay []) (wraps (lay []) ctx)
      (if Nat.ltb (prec e) ctx
       then paren_text (nl_gap (lay []) 2) (nl_gap (lay []) 3) (body_txt lay ctx e)
       else body_txt lay ctx e).
Proof. intros. destruct e; reflexivity. Qed.

Definition body_loc (c : cfg) (lay : layout) (ctx : nat) (e : expr) (pb : pos) : expr * pos :=
  let L := lay [] in
  match e with
  | Terminal t d l _ =>
      let p1 := pieces_adv c (spell (nl_esc L) (Nat.leb 6 ctx) t) pb in
      match d with
      | Some dd =>
          let p2 := adv_str (descr_text dd) (adv_str (gap_text (post_gap (nl_gap L 0))) p1) in
          (Terminal t d l (pspan pb p2), p2)
      | None => (Terminal t d l (pspan pb p1), p1)
      end
  | NontermRef n l _ =>
      let p1 := adv_char GT (adv_str n (adv_char LT pb)) in
      (NontermRef n l (pspan pb p1), p1)
  | Command cm z l _ =>
      let p1 := adv_str RBRACE3 (adv_str (tws_text (cmd_ws1 cm (nl_ws L 1)))
                  (adv_str cm (adv_str (tws_text (nl_ws L 0)) (adv_str LBRACE3 pb)))) in
      (Command cm z l (pspan pb p1), p1)
  | Optional ch _ =>
      let p1 := adv_str (gap_text (nl_gap L 0)) (adv_char LBRACK pb) in
      let '(ch', p2) := loc c (sub lay 0) 0 ch p1 in
      let p3 := adv_char RBRACK (adv_str (gap_text (post_gap (nl_gap L 1))) p2) in
      (Optional ch' (pspan pb p3), p3)
  | Many1 ch _ =>
      let '(ch', p1) := loc c (sub lay 0) 6 ch pb in
      let p2 := adv_str DOTS3 (adv_str (gap_text (post_gap (nl_gap L 0))) p1) in
      (Many1 ch' (pspan pb p2), p2)
  | DistDescr ch d _ =>
      let '(ch', p1) := loc c (sub lay 0) (if open_end ch then 7 else 4) ch pb in
      let p2 := adv_str (descr_text d) (adv_str (gap_text (post_gap (nl_gap L 0))) p1) in
      (DistDescr ch' d (pspan pb p2), p2)
  | Subword r l _ =>
      match r with
      | Sequence fs _ =>
          let '(fs', p1) :=
            loc_sub (fun k cx f q => loc c (sub (sub lay 0) k) cx f q) 0 false fs pb in
          (Subword (Sequence fs' (pspan pb p1)) l (pspan pb p1), p1)
      | _ =>
          let '(r', p1) := loc c (sub lay 0) 5 r pb in
          (Subword r' l (pspan pb p1), p1)
      end
  | Sequence cs _ =>
      let '(cs', p1) :=
        loc_list (fun k x q => loc c (sub lay k) 3 x q) (fun k q => adv_str (seq_sep L k) q) 0 cs pb in
      (Sequence cs' (pspan pb p1), p1)
  | Alternative cs _ =>
      let '(cs', p1) :=
        loc_list (fun k x q => loc c (sub lay k) 2 x q) (fun k q => adv_str (alt_sep L k) q) 0 cs pb in
      (Alternative cs' (pspan pb p1), p1)
  | Fallback cs _ =>
      let '(cs', p1) :=
        loc_list (fun k x q => loc c (sub lay k) 1 x q) (fun k q => adv_str (fb_sep L k) q) 0 cs pb in
      (Fallback cs' (pspan pb p1), p1)
  end.

Lemma loc_eq : forall c lay ctx e p,
    loc c lay ctx e p =
    let L := lay [] in
    let p0 := wrap_open L (wraps L ctx) p in
    let par := Nat.ltb (prec e) ctx in
    let pb := if par then paren_open (nl_gap L 2) p0 else p0 in
    let '(e', pe) := body_loc c lay ctx e pb in
    let pc := if par then paren_close (nl_gap L 3) pe else pe in
    (e', wrap_close L (wraps L ctx) pc).
Proof. intros. destruct e; reflexivity. Qed.
