(** How the script's lookups in the emitted tables ([BashSem.top_lit_loop], [assocN] on the
    command / star tables, [BashSem.level_row]) relate to the transitions of the automaton the
    tables were computed from.  Built on Proofs/TablesSound.v (C04) and Proofs/TablesKeys.v. *)
From CG Require Import Base.Prelude Model.Dfa Model.Tables Model.Glob Model.BashSem.
From CG Require Import Proofs.TablesSound Proofs.TablesKeys.

(** *** weak completeness of a match table: a selected transition leaves *some* entry for its key *)
Lemma bt_insert_key {V} k (v : V) m k0 : (exists v0, In (k0, v0) (bt_insert k v m)) <-> k0 = k \/ exists v0, In (k0, v0) m.
Proof.
  split.
  - intros [v0 H]. apply bt_insert_in in H. destruct H as [E | H]; [inversion E; left; reflexivity | right; eauto].
  - intros [-> | [v0 H]].
    + exists v. apply bt_insert_same.
    + destruct (N.eq_dec k0 k) as [-> | Hne]; [exists v; apply bt_insert_same |].
      exists v0. apply bt_insert_other; [exact Hne | exact H].
Qed.

Lemma bt_of_list_key {V} (l : list (N * V)) k v : In (k, v) l -> exists v', In (k, v') (bt_of_list l).
Proof.
  unfold bt_of_list.
  assert (G : forall acc : list (N * V),
             (In (k, v) l \/ exists v0, In (k, v0) acc) ->
             exists v', In (k, v') (fold_left (fun acc kv => bt_insert (fst kv) (snd kv) acc) l acc)).
  { induction l as [| [k1 v1] l IH]; intros acc H; cbn [fold_left].
    - destruct H as [[] | H]. exact H.
    - apply IH. destruct H as [[E | H] | H].
      + inversion E; subst. right. apply bt_insert_key. left; reflexivity.
      + left; exact H.
      + right. apply bt_insert_key. right; exact H. }
  intro H. apply G. left; exact H.
Qed.

Lemma match_table_has d sel tbl s i x k to :
  match_table d (get_all_states d) sel = Ok tbl ->
  In (i, to) (transitions_from d s) -> nthN (d_inputs d) i = Some x -> sel x = Some (Ok k) ->
  exists to', tbl_has tbl s k to'.
Proof.
  intros H Hi Hn Hsel.
  assert (Hs : In s (get_all_states d)) by (eapply has_transition_state; eassumption).
  assert (Hrow : exists tr, rtrans_from d s = Ok tr).
  { unfold match_table in H. apply obind_ok in H. destruct H as [rows [Hrows _]].
    destruct (omap_ok_total _ _ _ Hrows s Hs) as [y [Hy _]].
    apply obind_ok in Hy. destruct Hy as [tr [Htr _]]. exists tr. exact Htr. }
  destruct Hrow as [tr Htr].
  assert (Hx : In (x, to) tr) by (apply (rtrans_from_in _ _ _ _ _ Htr); eauto).
  assert (Hk : In (k, to) (keys_of sel tr)) by (apply keys_of_in; eauto).
  destruct (bt_of_list_key _ _ _ Hk) as [to' Hto'].
  exists to', (bt_of_list (keys_of sel tr)). split; [| exact Hto'].
  apply (match_table_rows _ _ _ _ H). split; [exact Hs | split; [| eauto]].
  intro E. rewrite E in Hto'. destruct Hto'.
Qed.

(** *** the literal loop *)
Lemma top_lit_loop_sound lits st w to :
  top_lit_loop lits st w = Some to -> exists lid, In (lid, w) lits /\ assocN lid st = Some to.
Proof.
  induction lits as [| [lid lit] r IH]; cbn [top_lit_loop]; intro H; [discriminate |].
  destruct (String.eqb lit w) eqn:E.
  - apply String.eqb_eq in E. subst lit. destruct (assocN lid st) as [t0 |] eqn:Ea.
    + inversion H; subst. exists lid. split; [left; reflexivity | exact Ea].
    + destruct (IH H) as [l' [Hin Ha]]. exists l'. split; [right; exact Hin | exact Ha].
  - destruct (IH H) as [l' [Hin Ha]]. exists l'. split; [right; exact Hin | exact Ha].
Qed.

Lemma top_lit_loop_some lits st w lid to :
  In (lid, w) lits -> assocN lid st = Some to -> exists to', top_lit_loop lits st w = Some to'.
Proof.
  induction lits as [| [l0 lit] r IH]; intros Hin Ha; [destruct Hin |].
  cbn [top_lit_loop]. destruct Hin as [E | Hin].
  - inversion E; subst. rewrite String.eqb_refl, Ha. eauto.
  - destruct (String.eqb lit w); [| apply IH; assumption].
    destruct (assocN l0 st); [eauto | apply IH; assumption].
Qed.

Lemma indexed_from_in {A} (l : list A) : forall i k x, In (k, x) (indexed_from i l) <-> i <= k /\ nth_error l (N.to_nat (k - i)) = Some x.
Proof.
  induction l as [| y r IH]; intros i k x; cbn [indexed_from].
  - split; [intros [] | intros [_ H]]. destruct (N.to_nat (k - i)); discriminate.
  - cbn [In]. rewrite IH. split.
    + intros [H | [H1 H2]].
      * inversion H; subst. split; [lia |]. replace (k - k) with 0 by lia. reflexivity.
      * split; [lia |]. replace (N.to_nat (k - i)) with (S (N.to_nat (k - (i + 1)))) by lia. exact H2.
    + intros [H1 H2]. destruct (N.eq_dec k i) as [-> | Hne].
      * left. replace (i - i) with 0 in H2 by lia. cbn in H2. congruence.
      * right. split; [lia |]. replace (N.to_nat (k - i)) with (S (N.to_nat (k - (i + 1)))) in H2 by lia. exact H2.
Qed.

Lemma number_from_map {A B} (f : A -> B) (l : list A) : forall n, map (fun ip => f (snd ip)) (number_from n l) = map f l.
Proof. induction l as [| x r IH]; intro n; cbn; [reflexivity | rewrite IH; reflexivity]. Qed.

Section Lookup.
  Variables (d : dfa) (cmds : list string) (nc ncp ns : bool) (ord : list (string * string)) (T : tables).
  Hypothesis Hwf : dfa_wf d.
  Hypothesis Hord : NoDup ord.
  Hypothesis Hglt : get_lookup_tables d cmds 0 nc ncp ns ord = Ok T.

  Lemma literal_texts_ord : literal_texts T = map fst ord.
  Proof.
    destruct (glt_inv _ _ _ _ _ _ _ _ Hglt) as [rt F]. unfold literal_texts. rewrite (gf_lits _ _ _ _ _ _ _ _ _ F).
    unfold all_literals. rewrite map_map. cbn [fst snd]. apply (number_from_map fst).
  Qed.

  Lemma literal_at_lit l t ds : lit_at ord 0 l t ds -> literal_at T l = t.
  Proof.
    intros [_ H]. unfold literal_at, nthN. rewrite literal_texts_ord. replace (l - 0) with l in H by lia.
    rewrite (map_nth_error fst _ _ H). reflexivity.
  Qed.

  Lemma indexed_lit lid w : In (lid, w) (indexed_from 0 (literal_texts T)) <-> exists ds, lit_at ord 0 lid w ds.
  Proof.
    rewrite indexed_from_in, literal_texts_ord. unfold lit_at. split.
    - intros [_ H]. rewrite nth_error_map in H. destruct (nth_error ord (N.to_nat (lid - 0))) as [[t ds] |] eqn:E; [| discriminate].
      cbn in H. inversion H; subst. exists ds. split; [lia | reflexivity].
    - intros [ds [_ H]]. split; [lia |]. rewrite (map_nth_error fst _ _ H). reflexivity.
  Qed.

  Lemma lit_at_fun l t ds t' ds' : lit_at ord 0 l t ds -> lit_at ord 0 l t' ds' -> t = t' /\ ds = ds'.
  Proof. intros [_ H1] [_ H2]. rewrite H1 in H2. inversion H2; subst. split; reflexivity. Qed.

  Definition lit_lookup (s : N) (w : string) : option N :=
    match assocN s (t_mlit T) with
    | Some st => top_lit_loop (indexed_from 0 (literal_texts T)) st w
    | None => None
    end.

  (** what the literal loop finds is a transition on a literal whose text is the word *)
  Theorem lit_lookup_sound s w to :
    lit_lookup s w = Some to -> exists dso lvl, trans_on d s (ILit w dso lvl) to.
  Proof.
    unfold lit_lookup. destruct (assocN s (t_mlit T)) as [st |] eqn:Es; [| discriminate]. intro H.
    apply top_lit_loop_sound in H. destruct H as [lid [Hin Ha]].
    apply indexed_lit in Hin. destruct Hin as [ds Hl].
    assert (Hh : tbl_has (t_mlit T) s lid to) by (exists st; split; apply assocN_in; assumption).
    destruct (mlit_sound d cmds 0 nc ncp ns ord T Hwf Hord Hglt s lid to Hh) as [text [dso [lvl [Htr Hl']]]].
    destruct (lit_at_fun _ _ _ _ _ Hl Hl') as [-> _]. exists dso, lvl. exact Htr.
  Qed.

  Lemma mlit_keys : NoDup (map fst (t_mlit T)) /\ forall s row, In (s, row) (t_mlit T) -> NoDup (map fst row).
  Proof.
    destruct (glt_inv _ _ _ _ _ _ _ _ Hglt) as [rt F].
    apply (match_table_keys _ _ _ _ (get_all_states_NoDup d) (gf_mlit _ _ _ _ _ _ _ _ _ F)).
  Qed.

  (** and it finds something whenever such a transition exists *)
  Theorem lit_lookup_complete s w dso lvl to :
    valid_literal_order d ord = true -> trans_on d s (ILit w dso lvl) to -> exists to', lit_lookup s w = Some to'.
  Proof.
    intros Hv Htr. destruct (glt_inv _ _ _ _ _ _ _ _ Hglt) as [rt F].
    pose proof Htr as Htr0. destruct Htr as [i [Hs Hn]].
    destruct (valid_order_covers d ord 0 i w dso lvl Hv Hn) as [lid Hl].
    apply (step_in _ _ _ _ Hwf) in Hs.
    assert (Hsel : lit_sel (all_literals ord 0) (ILit w dso lvl) = Some (Ok lid)).
    { cbn. f_equal. apply (lit_id_at _ _ _ _ _ Hord). exact Hl. }
    destruct (match_table_has _ _ _ _ _ _ _ _ (gf_mlit _ _ _ _ _ _ _ _ _ F) Hs Hn Hsel) as [to' Hh].
    destruct mlit_keys as [K1 K2]. apply (tbl_has_assoc _ _ _ _ K1 K2) in Hh. destruct Hh as [row [Hr Hk]].
    unfold lit_lookup. rewrite Hr. eapply top_lit_loop_some; [| exact Hk]. apply indexed_lit. eauto.
  Qed.

  (** *** candidates per level *)
  Lemma clit_keys : Forall (fun lv => NoDup (map fst lv)) (t_clit T).
  Proof.
    destruct (glt_inv _ _ _ _ _ _ _ _ Hglt) as [rt F]. eapply completion_table_keys. apply (gf_clit _ _ _ _ _ _ _ _ _ F).
  Qed.

  Theorem level_row_lit k s l :
    In l (level_row (t_clit T) (N.to_nat k) s) <->
    exists text dso to, trans_on d s (ILit text dso k) to /\ lit_at ord 0 l text (unwrap_descr dso).
  Proof.
    unfold level_row. rewrite <- (mem3_level_row _ _ _ _ clit_keys).
    apply (clit_exact d cmds 0 nc ncp ns ord T Hwf Hord Hglt).
  Qed.

  Lemma level_in_range k s text dso to :
    valid_literal_order d ord = true -> trans_on d s (ILit text dso k) to -> (N.to_nat k < S (N.to_nat (t_maxlevel T)))%nat.
  Proof.
    intros Hv Htr. pose proof Htr as Htr0. destruct Htr as [i [_ Hn]].
    destruct (valid_order_covers d ord 0 i text dso k Hv Hn) as [l Hl].
    assert (M : mem3 (t_clit T) k s l).
    { apply (clit_exact d cmds 0 nc ncp ns ord T Hwf Hord Hglt). eauto. }
    destruct M as [row [Hr _]]. pose proof (clit_levels d cmds 0 nc ncp ns ord T Hglt) as Hlen.
    assert (N.to_nat k < List.length (t_clit T))%nat by (apply nth_error_Some; rewrite Hr; discriminate). lia.
  Qed.
End Lookup.
