(** C14, end to end: two layouts of one grammar, and two orders of its definitions, compile to the
    same automata.  Composition of the parser's layout theorem (Props/C05.v), the checker's
    naturality in spans (Proofs/CheckSpans.v), [compile_valid_spans] (Proofs/PipelineSpans.v) and
    [definition_order] (Proofs/CheckOrder.v). *)
From CG Require Import Base.Prelude Model.Ast Model.Lexer Model.Parser Model.Check Model.Regex.
From CG Require Import Model.Dfa Model.Driver Spec.Printer.
From CG Require Import Proofs.GrammarRound Proofs.TreeFacts Proofs.CheckTree.
From CG Require Import Proofs.CheckSpans Proofs.CheckOrder Proofs.PipelineSpans.
From Coq Require Import Permutation.

Lemma erase_ms e : Printer.erase e = ms CheckSpans.erase e.
Proof.
  induction e using expr_ind'; cbn [Printer.erase ms]; try reflexivity; try (rewrite IHe; reflexivity);
    f_equal; apply map_ext_Forall; exact H.
Qed.

Lemma erase_grammar_ms g : erase_grammar g = ms_grammar CheckSpans.erase g.
Proof.
  unfold erase_grammar, ms_grammar. apply map_ext. intros [n sp e|n sp [[s ssp]|] rhs]; cbn;
    rewrite erase_ms; reflexivity.
Qed.

(** results equal up to spans: same command, trees equal up to spans, same automata; errors equal
    after erasing spans *)
Definition layout_rel (x y : dres (valid_grammar * cdfa)) : Prop :=
  match x, y with
  | Ok (v1, c1), Ok (v2, c2) =>
      v_command v1 = v_command v2 /\ ms CheckSpans.erase (v_expr v1) = ms CheckSpans.erase (v_expr v2)
      /\ c1 = c2
  | Err e1, Err e2 => ms_derr CheckSpans.erase e1 = ms_derr CheckSpans.erase e2
  | Panic a, Panic b => a = b
  | OutOfFuel, OutOfFuel => True
  | _, _ => False
  end.

Section Pipeline.
  Variable pick : nat -> list (list N) -> nat.
  Variable fuel : nat.
  Variable builtins : shell -> list (string * string).

  Definition after_parse (g : grammar) (sh : shell) : dres (valid_grammar * cdfa) :=
    do v <- lift DCheck (from_grammar builtins g sh);
    do c <- compile_valid pick fuel v;
    Ok (v, c).

  Lemma compile_after_parse text g sh :
    parse text = Ok g -> compile pick fuel builtins text sh = after_parse g sh.
  Proof. intro H. unfold compile, after_parse. rewrite H. reflexivity. Qed.

  Theorem same_shape_pipeline g1 g2 sh :
    same_shape g1 g2 -> layout_rel (after_parse g1 sh) (after_parse g2 sh).
  Proof.
    intro Hs. unfold after_parse.
    pose proof (from_grammar_ms CheckSpans.erase builtins g1 sh) as H1.
    pose proof (from_grammar_ms CheckSpans.erase builtins g2 sh) as H2.
    unfold same_shape in Hs. rewrite Hs, H2 in H1. clear H2.
    destruct (from_grammar builtins g1 sh) as [v1|e1|m1|] eqn:E1;
      destruct (from_grammar builtins g2 sh) as [v2|e2|m2|] eqn:E2; cbn [ms_res] in H1; try discriminate;
      cbn [lift obind layout_rel].
    - assert (Hv : ms_valid CheckSpans.erase v1 = ms_valid CheckSpans.erase v2) by congruence. clear H1.
      pose proof (check_tree builtins g1 sh v1 E1) as (_ & F1 & _).
      pose proof (check_tree builtins g2 sh v2 E2) as (_ & F2 & _).
      pose proof (compile_valid_spans CheckSpans.erase pick fuel v1 F1) as C1.
      pose proof (compile_valid_spans CheckSpans.erase pick fuel v2 F2) as C2.
      rewrite <- Hv in C2. rewrite C1 in C2.
      assert (Hc : v_command v1 = v_command v2).
      { change (v_command (ms_valid CheckSpans.erase v1) = v_command (ms_valid CheckSpans.erase v2)).
        rewrite Hv. reflexivity. }
      assert (He : ms CheckSpans.erase (v_expr v1) = ms CheckSpans.erase (v_expr v2)).
      { change (v_expr (ms_valid CheckSpans.erase v1) = v_expr (ms_valid CheckSpans.erase v2)).
        rewrite Hv. reflexivity. }
      destruct (compile_valid pick fuel v1) as [c1|x1|p1|]; destruct (compile_valid pick fuel v2) as [c2|x2|p2|];
        cbn [dmap obind layout_rel] in C2 |- *; try discriminate; auto.
      + inversion C2. auto.
      + inversion C2. reflexivity.
      + inversion C2. reflexivity.
    - inversion H1. cbn [ms_derr]. congruence.
    - inversion H1. reflexivity.
    - exact I.
  Qed.

  (** two layouts of a printable grammar *)
  Theorem layout_pipeline g l1 l2 sh :
    wf g ->
    layout_rel (compile pick fuel builtins (text g l1) sh) (compile pick fuel builtins (text g l2) sh).
  Proof.
    intro W.
    pose proof (roundtrip_cfg pinned g l1 W) as P1. pose proof (roundtrip_cfg pinned g l2 W) as P2.
    rewrite (compile_after_parse _ _ sh P1), (compile_after_parse _ _ sh P2).
    apply same_shape_pipeline. unfold same_shape. rewrite <- !erase_grammar_ms, !erase_located. reflexivity.
  Qed.

  (** [compile_valid] only reads the validated expression *)
  Lemma compile_valid_expr v v' : v_expr v = v_expr v' -> compile_valid pick fuel v = compile_valid pick fuel v'.
  Proof. intro H. unfold compile_valid. rewrite H. reflexivity. Qed.

  Theorem definition_order_pipeline sh g g' :
    Permutation g g' -> call_variants g = call_variants g' ->
    forall v, from_grammar builtins g sh = Ok v ->
      exists v', from_grammar builtins g' sh = Ok v' /\ v_command v' = v_command v
                 /\ compile_valid pick fuel v' = compile_valid pick fuel v.
  Proof.
    intros Hp Hcv v Hv. destruct (definition_order builtins sh g g' Hp Hcv v Hv) as (v' & Hv' & Hc & He).
    exists v'. repeat split; auto. apply compile_valid_expr. exact He.
  Qed.
End Pipeline.
