(** The terminal lexer: the Rust loop (regular run, escape run, fewer-than-three dots run,
    [consumed == 0] exit) equals the character-at-a-time function [lex1]; a spelled literal
    followed by a token stopper lexes back to the literal. *)
From CG Require Import Base.Prelude Model.Ast Model.Lexer Model.Parser Spec.Printer Proofs.LexBase Proofs.LexBlanks.
From CGgen Require Import Consts.

Definition lres := option (string * (string * pos)).

Definition lcons (a : string) (o : lres) : lres :=
  match o with
  | Some (t, x) => Some (append a t, x)
  | None => None
  end.

Definition esc_pos (rb re : bool) (d : ascii) (p : pos) : pos :=
  let p1 := adv_char BACKSLASH p in
  let p1 := if rb then pos0 else p1 in
  let p2 := adv_char d p1 in
  if re then pos0 else p2.

Fixpoint lex1 (rb re : bool) (s : string) (p : pos) : lres :=
  match s with
  | EmptyString => Some (EmptyString, (EmptyString, p))
  | String c r =>
      if is_regular c then lcons (String c EmptyString) (lex1 rb re r (adv_char c p))
      else if Ascii.eqb c BACKSLASH then
        match r with
        | String d r2 =>
            if is_escapable d then lcons (String d EmptyString) (lex1 rb re r2 (esc_pos rb re d p))
            else None
        | EmptyString => None
        end
      else if Ascii.eqb c DOT then
        if starts_with "..." s then Some (EmptyString, (s, p))
        else lcons (String c EmptyString) (lex1 rb re r (adv_char c p))
      else Some (EmptyString, (s, p))
  end.

Lemma lcons_nil : forall o, lcons EmptyString o = o.
Proof. intros [[t x]|]; reflexivity. Qed.

Lemma lcons_app : forall a b o, lcons (append a b) o = lcons a (lcons b o).
Proof. intros a b [[t x]|]; cbn; auto. rewrite app_assoc_s. reflexivity. Qed.

(** the regular run *)
Lemma lex1_regular_run : forall rb re s p a b, span_while is_regular s = (a, b) ->
    lex1 rb re s p = lcons a (lex1 rb re b (adv_str a p)).
Proof.
  induction s; cbn [span_while]; intros p a0 b H.
  - inversion H; subst. cbn. reflexivity.
  - destruct (is_regular a) eqn:R.
    + destruct (span_while is_regular s) as [x y] eqn:E. inversion H; subst.
      cbn [lex1 adv_str]. rewrite R. rewrite (IHs _ x b eq_refl).
      change (String a x) with (append (String a EmptyString) x). rewrite lcons_app. reflexivity.
    + inversion H; subst. cbn [adv_str]. rewrite lcons_nil. reflexivity.
Qed.

(** the escape run *)
Lemma escape_run_spec : forall rb re fuel s p, (String.length s < fuel)%nat ->
    match escape_run rb re fuel (mkin s p) with
    | Ok (esc, i2) =>
        lex1 rb re s p = lcons esc (lex1 rb re (rest i2) (at_ i2))
        /\ hd_in (fun c => negb (Ascii.eqb c BACKSLASH)) (rest i2) = true
        /\ (String.length (rest i2) + String.length esc <= String.length s)%nat
        /\ (esc = EmptyString -> i2 = mkin s p)
    | Err _ => lex1 rb re s p = None
    | _ => False
    end.
Proof.
  induction fuel; intros s p H; [lia|]. cbn [escape_run rest at_].
  destruct s as [|b after].
  - cbn. auto.
  - destruct (Ascii.eqb b BACKSLASH) eqn:B.
    + apply eqb_eq_a in B; subst b.
      assert (L1 : forall r, lex1 rb re (String BACKSLASH r) p =
                match r with
                | String d r2 => if is_escapable d then lcons (String d EmptyString) (lex1 rb re r2 (esc_pos rb re d p)) else None
                | EmptyString => None end).
      { intros. cbn [lex1]. rewrite regular_not_backslash.
        replace (Ascii.eqb BACKSLASH BACKSLASH) with true by (symmetry; apply eqb_eq_a; reflexivity). reflexivity. }
      rewrite L1.
      assert (R1 : rest (if rb then respan (mkin after (adv_char BACKSLASH p)) else mkin after (adv_char BACKSLASH p)) = after)
        by (destruct rb; reflexivity).
      rewrite R1.
      destruct after as [|c after2]; [reflexivity|].
      destruct (is_escapable c) eqn:Ec; [|reflexivity].
      set (i2 := (if re then respan _ else _)).
      assert (Hi2 : i2 = mkin after2 (esc_pos rb re c p)).
      { subst i2. unfold esc_pos, respan. destruct rb, re; reflexivity. }
      rewrite Hi2.
      specialize (IHfuel after2 (esc_pos rb re c p)).
      assert (Hl : (String.length after2 < fuel)%nat) by (cbn in H; lia).
      specialize (IHfuel Hl).
      destruct (escape_run rb re fuel (mkin after2 (esc_pos rb re c p))) as [[more i3]| | |]; cbn [obind]; auto.
      * destruct IHfuel as (E1 & E2 & E3 & E4). repeat split; auto.
        -- rewrite E1. change (String c more) with (append (String c EmptyString) more).
           rewrite lcons_app. reflexivity.
        -- cbn [String.length] in *. lia.
        -- discriminate.
      * rewrite IHfuel. reflexivity.
    + repeat split; auto.
      * rewrite lcons_nil. reflexivity.
      * cbn. rewrite B. reflexivity.
      * cbn. lia.
Qed.

(** the dots run, when the text does not start with three dots *)
Lemma lex1_dots_run : forall rb re s p a b,
    starts_with "..." s = false ->
    span_while is_dot s = (a, b) ->
    lex1 rb re s p = lcons a (lex1 rb re b (adv_str a p)).
Proof.
  intros rb re s p a b H3 H.
  assert (Dot : forall c, is_dot c = true -> c = DOT) by (intros c Hc; apply eqb_eq_a; exact Hc).
  assert (LD : forall r q, starts_with "..." (String DOT r) = false ->
               lex1 rb re (String DOT r) q = lcons (String DOT EmptyString) (lex1 rb re r (adv_char DOT q))).
  { intros r q Hs. cbn [lex1]. rewrite regular_not_dot.
    replace (Ascii.eqb DOT BACKSLASH) with false by (vm_compute; reflexivity).
    replace (Ascii.eqb DOT DOT) with true by (vm_compute; reflexivity). rewrite Hs. reflexivity. }
  destruct s as [|c1 s1]; cbn [span_while] in H.
  { inversion H; subst. rewrite lcons_nil. reflexivity. }
  destruct (is_dot c1) eqn:D1.
  2:{ inversion H; subst. rewrite lcons_nil. reflexivity. }
  apply Dot in D1; subst c1.
  destruct s1 as [|c2 s2]; cbn [span_while] in H.
  { inversion H; subst. rewrite LD by assumption. reflexivity. }
  destruct (is_dot c2) eqn:D2.
  2:{ inversion H; subst. rewrite LD by assumption. cbn [adv_str]. reflexivity. }
  apply Dot in D2; subst c2.
  destruct s2 as [|c3 s3]; cbn [span_while] in H.
  { inversion H; subst. rewrite LD by assumption. rewrite LD by reflexivity. cbn [adv_str].
    change (String DOT (String DOT EmptyString)) with (append (String DOT EmptyString) (String DOT EmptyString)).
    rewrite lcons_app. reflexivity. }
  destruct (is_dot c3) eqn:D3.
  { apply Dot in D3; subst c3. exfalso. revert H3. vm_compute. discriminate. }
  inversion H; subst. rewrite LD by assumption.
  assert (S2 : starts_with "..." (String DOT (String c3 s3)) = false).
  { unfold starts_with. cbn [strip_prefix]. change "."%char with DOT.
    rewrite (proj2 (eqb_eq_a DOT DOT) eq_refl). unfold is_dot in D3.
    rewrite (Ascii.eqb_sym DOT c3), D3. reflexivity. }
  rewrite LD by assumption. cbn [adv_str].
  change (String DOT (String DOT EmptyString)) with (append (String DOT EmptyString) (String DOT EmptyString)).
  rewrite lcons_app. reflexivity.
Qed.

Lemma lex1_stop3 : forall rb re s p, starts_with "..." s = true -> lex1 rb re s p = Some (EmptyString, (s, p)).
Proof.
  intros rb re [|c r] p H; [reflexivity|].
  assert (c = DOT).
  { unfold starts_with in H. cbn [strip_prefix] in H. change "."%char with DOT in H.
    destruct (Ascii.eqb DOT c) eqn:E; [|discriminate]. apply eqb_eq_a in E; auto. }
  subst c. cbn [lex1]. rewrite regular_not_dot.
  replace (Ascii.eqb DOT BACKSLASH) with false by (vm_compute; reflexivity).
  replace (Ascii.eqb DOT DOT) with true by (vm_compute; reflexivity). rewrite H. reflexivity.
Qed.

Lemma lex1_stop : forall rb re s p,
    hd_in (fun c => negb (is_regular c)) s = true ->
    hd_in (fun c => negb (Ascii.eqb c BACKSLASH)) s = true ->
    hd_in (fun c => negb (is_dot c)) s = true ->
    lex1 rb re s p = Some (EmptyString, (s, p)).
Proof.
  intros rb re [|c r] p H1 H2 H3; [reflexivity|]. cbn [hd_in] in *. unfold is_dot in H3. cbn [lex1].
  destruct (is_regular c); [discriminate|]. destruct (Ascii.eqb c BACKSLASH); [discriminate|].
  destruct (Ascii.eqb c DOT); [discriminate|]. reflexivity.
Qed.

Lemma slen_zero : forall s, slen s = 0 -> s = EmptyString.
Proof. intros [|c r] H; auto. unfold slen in H. cbn in H. lia. Qed.

Definition lex_result (o : lres) : pres string :=
  match o with
  | Some (t, (r, q)) => Ok (t, mkin r q)
  | None => Err tt
  end.

Theorem terminal_loop_spec : forall rb re fuel s p, (String.length s < fuel)%nat ->
    terminal_loop rb re fuel (mkin s p) = lex_result (lex1 rb re s p).
Proof.
  induction fuel; intros s p H; [lia|]. cbn [terminal_loop]. unfold take_while. cbn [rest at_].
  destruct (span_while is_regular s) as [reg s1] eqn:E1.
  rewrite (lex1_regular_run rb re s p reg s1 E1).
  pose proof (span_while_len _ _ _ _ E1) as L1.
  pose proof (span_while_stop _ _ _ _ E1) as St1.
  cbn [rest].
  pose proof (escape_run_spec rb re (S (String.length s1)) s1 (adv_str reg p) (Nat.lt_succ_diag_r _)) as ES.
  destruct (escape_run rb re (S (String.length s1)) (mkin s1 (adv_str reg p))) as [[esc [s2 p2]]|[]| |];
    cbn [obind]; try contradiction.
  2:{ rewrite ES. reflexivity. }
  cbn [rest at_] in ES. destruct ES as (X1 & X2 & X3 & X4). rewrite X1. cbn [rest at_].
  destruct (starts_with "..." s2) eqn:T3.
  { rewrite (lex1_stop3 _ _ _ _ T3). cbn [lcons lex_result]. rewrite app_nil_r_s. reflexivity. }
  destruct (span_while is_dot s2) as [dots s3] eqn:E3.
  rewrite (lex1_dots_run rb re s2 p2 dots s3 T3 E3).
  pose proof (span_while_len _ _ _ _ E3) as L3.
  pose proof (span_while_stop _ _ _ _ E3) as St3.
  destruct (N.eqb (slen reg + slen esc + slen dots) 0) eqn:Z.
  - apply N.eqb_eq in Z.
    assert (slen reg = 0 /\ slen esc = 0 /\ slen dots = 0) as (Z1 & Z2 & Z3) by lia.
    apply slen_zero in Z1, Z2, Z3. subst reg esc dots.
    specialize (X4 eq_refl). inversion X4; subst s2 p2.
    apply span_while_app in E1, E3. cbn [append] in E1, E3. subst s1 s3.
    cbn [adv_str append lcons].
    rewrite lex1_stop; auto. 
  - apply N.eqb_neq in Z.
    assert (Hlen : (String.length s3 < fuel)%nat).
    { unfold slen in Z. lia. }
    rewrite (IHfuel s3 _ Hlen).
    destruct (lex1 rb re s3 (adv_str dots p2)) as [[t [r q]]|]; reflexivity.
Qed.

Theorem terminal_spec : forall rb re s p,
    terminal_with rb re (mkin s p) =
    match lex1 rb re s p with
    | Some (EmptyString, _) => Err tt
    | Some (t, (r, q)) => Ok (t, mkin r q)
    | None => Err tt
    end.
Proof.
  intros. unfold terminal_with. cbn [rest]. rewrite terminal_loop_spec by lia.
  destruct (lex1 rb re s p) as [[[|c t] [r q]]|]; reflexivity.
Qed.

(** *** Spelled literals *)

Fixpoint ndots (s : string) : nat :=
  match s with
  | String c r => if is_dot c then S (ndots r) else O
  | EmptyString => O
  end.

Lemma is_dot_DOT : is_dot DOT = true. Proof. vm_compute; reflexivity. Qed.

Lemma starts3_ndots : forall s, starts_with "..." s = true -> (3 <= ndots s)%nat.
Proof.
  intros s H. unfold starts_with in H. cbn [strip_prefix] in H. change "."%char with DOT in H.
  destruct s as [|a [|b [|c r]]]; try discriminate.
  - destruct (Ascii.eqb DOT a); discriminate.
  - destruct (Ascii.eqb DOT a); try discriminate. destruct (Ascii.eqb DOT b); discriminate.
  - destruct (Ascii.eqb DOT a) eqn:A; try discriminate. destruct (Ascii.eqb DOT b) eqn:B; try discriminate.
    destruct (Ascii.eqb DOT c) eqn:C; try discriminate.
    apply eqb_eq_a in A, B, C. subst. cbn. rewrite is_dot_DOT. lia.
Qed.

Lemma ndots_starts3 : forall s, (3 <= ndots s)%nat -> starts_with "..." s = true.
Proof.
  intros s H. destruct s as [|a [|b [|c r]]]; cbn in H; try lia.
  - destruct (is_dot a); cbn in H; lia.
  - destruct (is_dot a); try lia. destruct (is_dot b); lia.
  - destruct (is_dot a) eqn:A; try lia. destruct (is_dot b) eqn:B; try lia. destruct (is_dot c) eqn:C; try lia.
    apply eqb_eq_a in A, B, C. subst. reflexivity.
Qed.

Fixpoint adm (ps : list piece) (rest : string) : Prop :=
  match ps with
  | [] => True
  | PReg c :: r => is_regular c = true /\ adm r rest
  | PEsc c :: r => is_escapable c = true /\ adm r rest
  | PDot :: r => (ndots (append (pieces_text r) rest) <= 1)%nat /\ adm r rest
  end.

Fixpoint pieces_chars (ps : list piece) : string :=
  match ps with
  | [] => EmptyString
  | x :: r => String (piece_char x) (pieces_chars r)
  end.

(** what may follow a literal token *)
Definition lit_stop (rest : string) : Prop :=
  hd_in (fun c => negb (is_regular c)) rest = true
  /\ hd_in (fun c => negb (Ascii.eqb c BACKSLASH)) rest = true
  /\ (hd_in (fun c => negb (is_dot c)) rest = true \/ starts_with "..." rest = true).

Lemma lex1_pieces : forall rb re ps rest p,
    adm ps rest -> lit_stop rest ->
    lex1 rb re (append (pieces_text ps) rest) p
    = Some (pieces_chars ps, (rest, pieces_adv (mkcfg rb re) ps p)).
Proof.
  induction ps as [|x ps IH]; intros rest p A (S1 & S2 & S3).
  - cbn [pieces_text append pieces_chars pieces_adv].
    destruct S3 as [S3|S3]; [apply lex1_stop; auto | apply lex1_stop3; auto].
  - destruct x as [c|c|]; cbn [adm] in A; destruct A as [A1 A2];
      cbn [pieces_text piece_text pieces_chars piece_char pieces_adv piece_adv]; rewrite app_assoc_s; cbn [append].
    + cbn [lex1]. rewrite A1. rewrite IH by (auto; repeat split; auto). reflexivity.
    + cbn [lex1]. rewrite regular_not_backslash.
      rewrite (proj2 (eqb_eq_a BACKSLASH BACKSLASH) eq_refl). rewrite A1.
      rewrite IH by (auto; repeat split; auto). reflexivity.
    + cbn [lex1]. rewrite regular_not_dot.
      replace (Ascii.eqb DOT BACKSLASH) with false by (vm_compute; reflexivity).
      rewrite (proj2 (eqb_eq_a DOT DOT) eq_refl).
      destruct (starts_with "..." (String DOT (append (pieces_text ps) rest))) eqn:T.
      { apply starts3_ndots in T. cbn [ndots] in T. rewrite is_dot_DOT in T. lia. }
      rewrite IH by (auto; repeat split; auto). reflexivity.
Qed.

(** what may follow the spelling produced by [spell .. guard ..] *)
Definition lit_rest (guard : bool) (rest : string) : Prop :=
  hd_in (fun c => negb (is_regular c)) rest = true
  /\ hd_in (fun c => negb (Ascii.eqb c BACKSLASH)) rest = true
  /\ (ndots rest = 0%nat \/ (guard = true /\ (3 <= ndots rest)%nat)).

Lemma lit_rest_stop : forall g rest, lit_rest g rest -> lit_stop rest.
Proof.
  intros g rest (A & B & C). repeat split; auto. destruct C as [C|[_ C]].
  - left. destruct rest as [|c r]; cbn in *; auto. destruct (is_dot c); [discriminate|reflexivity].
  - right. apply ndots_starts3; auto.
Qed.

Lemma ndots_esc : forall c s, ndots (String BACKSLASH (String c s)) = 0%nat.
Proof. intros. cbn [ndots]. replace (is_dot BACKSLASH) with false by (vm_compute; reflexivity). reflexivity. Qed.

Lemma regular_not_is_dot : forall c, is_regular c = true -> is_dot c = false.
Proof.
  intros c H. destruct (is_dot c) eqn:D; auto. apply eqb_eq_a in D. subst.
  rewrite regular_not_dot in H. discriminate.
Qed.

Section Spell.
  Variable pref : nat -> bool.
  Variable guard : bool.
  Variable rest : string.
  Hypothesis Hrest : lit_rest guard rest.

  Lemma dots_after : forall t k run, (1 <= run <= 2)%nat -> (t = EmptyString -> guard = false) ->
      (ndots (append (pieces_text (spell_from pref guard k run t)) rest) <= 2 - run)%nat.
  Proof.
    induction t as [|ch r IH]; intros k run Hrun Hg.
    - cbn [spell_from pieces_text append]. destruct Hrest as (_ & _ & [Z|[G _]]); [lia|].
      rewrite Hg in G by reflexivity. discriminate.
    - cbn [spell_from]. destruct (is_dot ch) eqn:D.
      + destruct (pref k || Nat.leb 2 run || (guard && is_empty r)) eqn:C.
        * cbn [pieces_text piece_text]. rewrite app_assoc_s. cbn [append]. rewrite ndots_esc. lia.
        * apply orb_false_iff in C as [C1 C3]. apply orb_false_iff in C1 as [C1 C2].
          apply Nat.leb_gt in C2. assert (run = 1)%nat by lia. subst run.
          cbn [pieces_text piece_text]. rewrite app_assoc_s. cbn [append ndots]. rewrite is_dot_DOT.
          assert (Hx : (ndots (append (pieces_text (spell_from pref guard (S k) 2 r)) rest) <= 2 - 2)%nat).
          { apply IH; [lia|]. intros ->. cbn in C3. destruct guard; [discriminate|reflexivity]. }
          lia.
      + destruct (is_regular ch) eqn:R.
        * cbn [pieces_text piece_text]. rewrite app_assoc_s. cbn [append ndots]. rewrite D. lia.
        * cbn [pieces_text piece_text]. rewrite app_assoc_s. cbn [append]. rewrite ndots_esc. lia.
  Qed.

  Lemma spell_adm : forall t k run, (run <= 2)%nat -> all_chars lit_char_ok t = true ->
      adm (spell_from pref guard k run t) rest.
  Proof.
    induction t as [|ch r IH]; intros k run Hrun Hc; [exact I|].
    cbn [all_chars] in Hc. apply andb_true_iff in Hc as [Hc1 Hc2]. unfold lit_char_ok in Hc1.
    cbn [spell_from]. destruct (is_dot ch) eqn:D.
    - destruct (pref k || Nat.leb 2 run || (guard && is_empty r)) eqn:C.
      + cbn [adm]. split; [|apply IH; auto; lia].
        apply eqb_eq_a in D. subst. exact escapable_dot.
      + apply orb_false_iff in C as [C1 C3]. apply orb_false_iff in C1 as [C1 C2].
        apply Nat.leb_gt in C2. cbn [adm]. split; [|apply IH; auto; lia].
        pose proof (dots_after r (S k) (S run)) as DA.
        assert (ndots (append (pieces_text (spell_from pref guard (S k) (S run) r)) rest) <= 2 - S run)%nat.
        { apply DA; [lia|]. intros ->. cbn in C3. destruct guard; [discriminate|reflexivity]. }
        lia.
    - destruct (is_regular ch) eqn:R.
      + cbn [adm]. split; [assumption | apply IH; [lia|assumption]].
      + cbn [adm]. cbn [orb] in Hc1. split; [assumption | apply IH; [lia|assumption]].
  Qed.

  Lemma spell_chars : forall t k run, pieces_chars (spell_from pref guard k run t) = t.
  Proof.
    induction t as [|ch r IH]; intros; [reflexivity|]. cbn [spell_from].
    destruct (is_dot ch) eqn:D.
    - destruct (pref k || Nat.leb 2 run || (guard && is_empty r)); cbn [pieces_chars piece_char]; rewrite IH; auto.
      apply eqb_eq_a in D. subst. reflexivity.
    - destruct (is_regular ch); cbn [pieces_chars piece_char]; rewrite IH; reflexivity.
  Qed.
End Spell.

Theorem terminal_spelled : forall c pref guard t rest p,
    wf_lit t = true -> lit_rest guard rest ->
    terminal c (mkin (append (pieces_text (spell pref guard t)) rest) p)
    = Ok (t, mkin rest (pieces_adv c (spell pref guard t) p)).
Proof.
  intros [rb re] pref guard t rest p W R. unfold terminal. cbn [reset_after_backslash reset_after_escaped].
  rewrite terminal_spec. unfold spell.
  assert (Hc : all_chars lit_char_ok t = true).
  { destruct t; [discriminate|]. unfold wf_lit in W. apply andb_true_iff in W as [_ W]. exact W. }
  rewrite lex1_pieces; [| apply spell_adm; auto | eapply lit_rest_stop; eauto].
  rewrite spell_chars. destruct t; [discriminate|]. reflexivity.
Qed.

(** The first character of a spelled literal; it never starts with three plain dots. *)
Lemma spelled_first : forall pref guard t rest,
    wf_lit t = true -> lit_rest guard rest ->
    hd_is ustart (append (pieces_text (spell pref guard t)) rest) = true
    /\ hd_is tok_stop (append (pieces_text (spell pref guard t)) rest) = false
    /\ starts_with "..." (append (pieces_text (spell pref guard t)) rest) = false.
Proof.
  intros pref guard t rest W R. destruct t as [|ch r]; [discriminate|].
  unfold wf_lit in W. apply andb_true_iff in W as [W1 W2].
  pose proof (spell_adm pref guard rest R (String ch r) 0 0 (Nat.le_0_l _) W2) as A.
  unfold spell. cbn [spell_from] in *.
  cbn [all_chars] in W2. apply andb_true_iff in W2 as [W2 _]. unfold lit_char_ok in W2.
  destruct (is_dot ch) eqn:D.
  - assert (ch = DOT) by (apply eqb_eq_a; exact D). subst ch.
    destruct (pref 0%nat || Nat.leb 2 0 || (guard && is_empty r)).
    + cbn [pieces_text piece_text]. rewrite app_assoc_s. cbn [append hd_is]. repeat split; vm_compute; reflexivity.
    + cbn [pieces_text piece_text]. rewrite app_assoc_s. cbn [append hd_is]. repeat split; try (vm_compute; reflexivity).
      cbn [adm] in A. destruct A as [A _].
      destruct (starts_with "..." (String DOT (append (pieces_text (spell_from pref guard 1 1 r)) rest))) eqn:T; auto.
      apply starts3_ndots in T. cbn [ndots] in T. rewrite is_dot_DOT in T. lia.
  - destruct (is_regular ch) eqn:Rg.
    + cbn [pieces_text piece_text]. rewrite app_assoc_s. cbn [append hd_is]. repeat split.
      * unfold ustart. rewrite Rg, W1. reflexivity.
      * unfold tok_stop. rewrite Rg. reflexivity.
      * unfold starts_with. cbn [strip_prefix]. change "."%char with DOT.
        unfold is_dot in D. rewrite Ascii.eqb_sym, D. reflexivity.
    + cbn [pieces_text piece_text]. rewrite app_assoc_s. cbn [append hd_is]. repeat split; vm_compute; reflexivity.
Qed.

(** the lexer consumes at least as many bytes as it returns characters *)
Lemma lex1_len : forall rb re n s p t r q, (String.length s <= n)%nat ->
    lex1 rb re s p = Some (t, (r, q)) -> (String.length r + String.length t <= String.length s)%nat.
Proof.
  induction n; intros s p t r q Hn H.
  - destruct s; [|cbn in Hn; lia]. cbn in H. inversion H; subst. cbn. lia.
  - destruct s as [|c s1]; [cbn in H; inversion H; subst; cbn; lia|].
    cbn [lex1] in H. cbn [String.length] in Hn.
    destruct (is_regular c).
    { destruct (lex1 rb re s1 (adv_char c p)) as [[t1 [r1 q1]]|] eqn:E; cbn [lcons] in H; [|discriminate].
      inversion H; subst. apply IHn in E; [|lia]. cbn [append String.length]. lia. }
    destruct (Ascii.eqb c BACKSLASH).
    { destruct s1 as [|d s2]; [discriminate|]. destruct (is_escapable d); [|discriminate].
      destruct (lex1 rb re s2 _) as [[t1 [r1 q1]]|] eqn:E; cbn [lcons] in H; [|discriminate].
      inversion H; subst. apply IHn in E; [|cbn [String.length] in Hn; lia]. cbn [append String.length]. lia. }
    destruct (Ascii.eqb c DOT).
    { destruct (starts_with "..." (String c s1)).
      - inversion H; subst. cbn. lia.
      - destruct (lex1 rb re s1 (adv_char c p)) as [[t1 [r1 q1]]|] eqn:E; cbn [lcons] in H; [|discriminate].
        inversion H; subst. apply IHn in E; [|lia]. cbn [append String.length]. lia. }
    inversion H; subst. cbn. lia.
Qed.


Lemma terminal_consumes : forall c i t i', terminal c i = Ok (t, i') ->
    (String.length (rest i') < String.length (rest i))%nat.
Proof.
  intros [rb re] [s p] t i' H. unfold terminal in H. cbn [reset_after_backslash reset_after_escaped] in H.
  rewrite terminal_spec in H. destruct (lex1 rb re s p) as [[t0 [r q]]|] eqn:E; [|discriminate].
  pose proof (lex1_len _ _ _ _ _ _ _ _ (Nat.le_refl _) E).
  destruct t0; [discriminate|]. inversion H; subst. cbn in *. lia.
Qed.
