(** bash's removal of the typed word up to its last word-break character, as the interpreter
    models it ([BashSem.strip_reply]: `${prefix##*$char}` for every character of COMP_WORDBREAKS,
    `${prefix%$shortest_suffix}`, `${matches[@]#$superfluous_prefix}`, all three with pattern
    semantics), is [Spec.Meaning.strip] when the typed word contains no glob character and no
    word-break character is one of \ ? * [ (true of bash's default COMP_WORDBREAKS). *)
From CG Require Import Base.Prelude Model.Glob Model.BashSem Spec.Meaning Proofs.GlobFacts Proofs.MeaningFacts.

Definition break_ok (c : ascii) : bool :=
  negb (aeq c c_bslash || aeq c c_quest || aeq c c_star || aeq c c_lbrack).

Fixpoint breaks_ok (wb : string) : bool :=
  match wb with EmptyString => true | String c r => break_ok c && breaks_ok r end.

(** *** string helpers *)
Lemma gsdrop_eq n : forall s, Glob.sdrop n s = Meaning.sdrop n s.
Proof. induction n as [| n IH]; intros [| a s]; cbn; try reflexivity. apply IH. Qed.

Lemma length_sdrop n : forall s, String.length (Glob.sdrop n s) = (String.length s - n)%nat.
Proof. induction n as [| n IH]; intros [| a s]; cbn; try reflexivity. apply IH. Qed.

Lemma length_stake n : forall s, (n <= String.length s)%nat -> String.length (stake n s) = n.
Proof. induction n as [| n IH]; intros [| a s] H; cbn in *; try reflexivity; try lia. rewrite IH; [reflexivity | lia]. Qed.

Lemma stake_sdrop n : forall s, append (stake n s) (Glob.sdrop n s) = s.
Proof. induction n as [| n IH]; intros [| a s]; cbn; try reflexivity. rewrite IH. reflexivity. Qed.

Lemma plain_stake n : forall s, plain s = true -> plain (stake n s) = true.
Proof.
  induction n as [| n IH]; intros [| a s] H; cbn in *; try reflexivity.
  apply andb_true_iff in H. destruct H as [H1 H2]. rewrite H1, (IH s H2). reflexivity.
Qed.

Lemma plain_sdrop n : forall s, plain s = true -> plain (Glob.sdrop n s) = true.
Proof.
  induction n as [| n IH]; intros [| a s] H; cbn in *; try reflexivity; try assumption.
  apply andb_true_iff in H. destruct H as [_ H2]. apply IH. assumption.
Qed.

Lemma stake_append n : forall s x, (n <= String.length s)%nat -> stake n (append s x) = stake n s.
Proof.
  induction n as [| n IH]; intros [| a s] x H; cbn in *; try reflexivity; try lia.
  rewrite IH; [reflexivity | lia].
Qed.

Lemma string_eq_length a b : a = b -> String.length a = String.length b.
Proof. intros ->. reflexivity. Qed.

(** *** first_cut *)
Lemma first_cut_some ks test k : first_cut ks test = Some k -> In k ks /\ test k = true.
Proof.
  induction ks as [| x r IH]; cbn [first_cut]; intro H; [discriminate |].
  destruct (test x) eqn:E; [inversion H; subst; split; [left; reflexivity | exact E] |].
  destruct (IH H) as [H1 H2]. split; [right; exact H1 | exact H2].
Qed.

Lemma first_cut_unique ks test k0 :
  In k0 ks -> test k0 = true -> (forall k, In k ks -> test k = true -> k = k0) -> first_cut ks test = Some k0.
Proof.
  induction ks as [| x r IH]; intros Hin Ht Hu; [destruct Hin |].
  cbn [first_cut]. destruct (test x) eqn:E.
  - f_equal. apply Hu; [left; reflexivity | exact E].
  - destruct Hin as [-> | Hin]; [congruence |]. apply IH; [exact Hin | exact Ht |].
    intros k Hk Hk'. apply Hu; [right; exact Hk | exact Hk'].
Qed.

Lemma first_cut_none ks test : (forall k, In k ks -> test k = false) -> first_cut ks test = None.
Proof.
  induction ks as [| x r IH]; intro H; [reflexivity |]. cbn [first_cut].
  rewrite (H x (or_introl eq_refl)). apply IH. intros k Hk. apply H. right; exact Hk.
Qed.

Lemma in_upto n k : In k (upto n) <-> (k <= n)%nat.
Proof. unfold upto. rewrite in_seq. lia. Qed.

Lemma in_downfrom n k : In k (downfrom n) <-> (k <= n)%nat.
Proof. unfold downfrom. rewrite <- in_rev. apply in_upto. Qed.

(** the first element of [downfrom n] that passes the test is the largest one *)
Lemma first_cut_downfrom_max n test k :
  first_cut (downfrom n) test = Some k -> forall k', (k < k' <= n)%nat -> test k' = false.
Proof.
  unfold downfrom, upto. induction n as [| n IH]; intros H k' Hk'.
  - cbn in H. destruct (test 0%nat); inversion H; subst; lia.
  - replace (seq 0 (S (S n))) with (seq 0 (S n) ++ [S n]) in H by (rewrite (seq_S (S n) 0); reflexivity).
    rewrite rev_app_distr in H. cbn [rev app first_cut] in H.
    destruct (test (S n)) eqn:E; [inversion H; subst; lia |].
    destruct (Nat.eq_dec k' (S n)) as [-> | Hne]; [exact E |]. apply (IH H). lia.
Qed.

(** *** the three removals on plain text *)
Lemma parse_star_char c : break_ok c = true -> parse 3 false (String c_star (String c EmptyString)) = Some [TStar; TChar c].
Proof.
  unfold break_ok. intro H. apply negb_true_iff in H. apply orb_false_iff in H. destruct H as [H H4].
  apply orb_false_iff in H. destruct H as [H H3]. apply orb_false_iff in H. destruct H as [H1 H2].
  cbn [parse andb]. unfold aeq in *.
  assert (E1 : Ascii.eqb c_star c_bslash = false) by reflexivity.
  assert (E2 : Ascii.eqb c_star c_quest = false) by reflexivity.
  assert (E3 : Ascii.eqb c_star c_star = true) by reflexivity.
  rewrite E1, E2, E3. cbn [option_map parse andb]. rewrite H1, H2, H3, H4. reflexivity.
Qed.

(** position just after the last occurrence of [c] (0 if there is none) *)
Fixpoint last_pos (c : ascii) (p : string) : nat :=
  match p with
  | EmptyString => O
  | String a r => match last_pos c r with
                  | S k => S (S k)
                  | O => if Ascii.eqb a c then 1%nat else O
                  end
  end.

Lemma last_pos_le c p : (last_pos c p <= String.length p)%nat.
Proof.
  induction p as [| a r IH]; cbn [last_pos String.length]; [lia |].
  destruct (last_pos c r); [destruct (Ascii.eqb a c); lia | lia].
Qed.

(** [stake k p] ends with [c] *)
Definition ends_with (c : ascii) (s : string) : bool := gmatch [TStar; TChar c] s.

Lemma ends_with_cons c a s : ends_with c (String a s) = (Ascii.eqb c a && match s with EmptyString => true | _ => false end) || ends_with c s.
Proof. unfold ends_with. cbn [gmatch]. unfold aeq. destruct s; reflexivity. Qed.

Lemma ends_with_nil c : ends_with c EmptyString = false.
Proof. reflexivity. Qed.

Lemma ends_with_stake c : forall p k, (k <= String.length p)%nat ->
  ends_with c (stake k p) = true -> (k <= last_pos c p)%nat.
Proof.
  induction p as [| a r IH]; intros k Hk H.
  - destruct k; cbn in *; [discriminate | lia].
  - destruct k as [| k]; [cbn in H; discriminate |]. cbn [stake] in H. rewrite ends_with_cons in H.
    cbn [String.length] in Hk. cbn [last_pos]. apply orb_true_iff in H. destruct H as [H | H].
    + apply andb_true_iff in H. destruct H as [Hc Hs]. apply Ascii.eqb_eq in Hc. subst a.
      assert (k = 0%nat).
      { destruct k; [reflexivity |]. destruct r; cbn in Hs; [cbn in Hk; lia | discriminate]. }
      subst k. destruct (last_pos c r); [rewrite Ascii.eqb_refl; lia | lia].
    + assert (k <= last_pos c r)%nat by (apply IH; [lia | exact H]).
      destruct (last_pos c r) as [| j] eqn:E; [| lia].
      assert (k = 0%nat) by lia. subst k. cbn in H. discriminate.
Qed.

Lemma stake_last_pos_ends c : forall p, (0 < last_pos c p)%nat -> ends_with c (stake (last_pos c p) p) = true.
Proof.
  induction p as [| a r IH]; cbn [last_pos]; intro H; [lia |].
  destruct (last_pos c r) as [| j] eqn:E.
  - destruct (Ascii.eqb a c) eqn:Ea; [| lia]. apply Ascii.eqb_eq in Ea. subst a. cbn [stake]. rewrite ends_with_cons.
    rewrite Ascii.eqb_refl. reflexivity.
  - change (stake (S (S j)) (String a r)) with (String a (stake (S j) r)). rewrite ends_with_cons.
    rewrite IH by lia. apply orb_true_r.
Qed.

Lemma first_cut_downfrom_spec n test k0 :
  (k0 <= n)%nat -> test k0 = true -> (forall k, (k0 < k <= n)%nat -> test k = false) ->
  first_cut (downfrom n) test = Some k0.
Proof.
  unfold downfrom, upto. induction n as [| n IH]; intros Hk Ht Hmax.
  - assert (k0 = 0%nat) by lia. subst. cbn. rewrite Ht. reflexivity.
  - replace (seq 0 (S (S n))) with (seq 0 (S n) ++ [S n]) by (rewrite (seq_S (S n) 0); reflexivity).
    rewrite rev_app_distr. cbn [rev app first_cut].
    destruct (Nat.eq_dec k0 (S n)) as [-> | Hne]; [rewrite Ht; reflexivity |].
    rewrite (Hmax (S n)) by lia. apply IH; [lia | exact Ht | intros k Hk'; apply Hmax; lia].
Qed.

Lemma first_cut_upto_spec n test k0 :
  (k0 <= n)%nat -> test k0 = true -> (forall k, (k < k0)%nat -> test k = false) ->
  first_cut (upto n) test = Some k0.
Proof.
  unfold upto. intros Hk Ht Hmin.
  assert (G : forall len start, (start <= k0 < start + len)%nat -> first_cut (seq start len) test = Some k0).
  { induction len as [| len IH]; intros start Hs; [lia |]. cbn [seq first_cut].
    destruct (Nat.eq_dec start k0) as [-> | Hne]; [rewrite Ht; reflexivity |].
    rewrite (Hmin start) by lia. apply IH. lia. }
  apply G. lia.
Qed.

Lemma rm_longest_star_char c p :
  break_ok c = true -> rm_longest_prefix (String c_star (String c EmptyString)) p = Some (Glob.sdrop (last_pos c p) p).
Proof.
  intro Hc. unfold rm_longest_prefix, with_pat. cbn [String.length]. rewrite (parse_star_char c Hc).
  change (fun k => gmatch [TStar; TChar c] (stake k p)) with (fun k => ends_with c (stake k p)).
  destruct (last_pos c p) as [| j] eqn:E.
  - rewrite first_cut_none; [reflexivity |]. intros k Hk. apply in_downfrom in Hk.
    destruct (ends_with c (stake k p)) eqn:Ee; [| reflexivity].
    pose proof (ends_with_stake c p k Hk Ee) as Hle. rewrite E in Hle. assert (k = 0%nat) by lia. subst k.
    replace (stake 0 p) with EmptyString in Ee by (destruct p; reflexivity). rewrite ends_with_nil in Ee. discriminate.
  - rewrite (first_cut_downfrom_spec _ _ (S j)); [reflexivity | | |].
    + rewrite <- E. apply last_pos_le.
    + rewrite <- E. apply stake_last_pos_ends. lia.
    + intros k Hk. destruct (ends_with c (stake k p)) eqn:Ee; [| reflexivity].
      apply ends_with_stake in Ee; [| lia]. rewrite E in Ee. lia.
Qed.

(** the cut position over all break characters *)
Fixpoint max_pos (wb p : string) : nat :=
  match wb with
  | EmptyString => O
  | String c r => Nat.max (last_pos c p) (max_pos r p)
  end.

Lemma max_pos_le wb p : (max_pos wb p <= String.length p)%nat.
Proof. induction wb as [| c r IH]; cbn [max_pos]; [lia |]. pose proof (last_pos_le c p). lia. Qed.

Lemma max_pos_cons wb a r :
  max_pos wb (String a r) = match max_pos wb r with
                            | S k => S (S k)
                            | O => if contains_char a wb then 1%nat else O
                            end.
Proof.
  induction wb as [| c wb IH]; [reflexivity |]. cbn [max_pos last_pos contains_char]. rewrite IH.
  rewrite (Ascii.eqb_sym c a).
  destruct (last_pos c r) as [| j] eqn:E1; destruct (max_pos wb r) as [| j2] eqn:E2; cbn [Nat.max].
  - destruct (Ascii.eqb a c); destruct (contains_char a wb); reflexivity.
  - destruct (Ascii.eqb a c); cbn; reflexivity.
  - destruct (contains_char a wb); cbn; try reflexivity; try (f_equal; lia).
  - cbn; try reflexivity; try (f_equal; lia).
Qed.

Lemma last_break_max_pos wb p : last_break wb p = max_pos wb p.
Proof.
  induction p as [| a r IH]; cbn [last_break].
  - induction wb as [| c wb IHw]; [reflexivity |]. cbn [max_pos last_pos]. rewrite <- IHw. reflexivity.
  - rewrite max_pos_cons, IH. reflexivity.
Qed.

Lemma shortest_suffix_spec : forall wb p k,
    breaks_ok wb = true -> (k <= String.length p)%nat ->
    shortest_suffix wb p (Glob.sdrop k p) = Ok (Glob.sdrop (Nat.max k (max_pos wb p)) p).
Proof.
  induction wb as [| c wb IH]; intros p k Hok Hk; cbn [shortest_suffix max_pos].
  - rewrite Nat.max_0_r. reflexivity.
  - cbn [breaks_ok] in Hok. apply andb_true_iff in Hok. destruct Hok as [Hc Hwb].
    rewrite (rm_longest_star_char c p Hc). rewrite !length_sdrop.
    pose proof (last_pos_le c p) as Hl.
    destruct (Nat.ltb (String.length p - last_pos c p) (String.length p - k)) eqn:E.
    + apply Nat.ltb_lt in E. rewrite (IH p (last_pos c p) Hwb Hl). f_equal. f_equal. lia.
    + apply Nat.ltb_ge in E. rewrite (IH p k Hwb Hk). f_equal. f_equal. lia.
Qed.

Lemma sdrop_full_eq k : forall p, (k <= String.length p)%nat -> Glob.sdrop k p = p -> k = 0%nat.
Proof.
  intros p Hk E. apply string_eq_length in E. rewrite length_sdrop in E.
  destruct p as [| a p']; [cbn [String.length] in Hk; lia |]. cbn [String.length] in *. lia.
Qed.

Lemma rm_shortest_suffix_plain p k :
  plain p = true -> (k <= String.length p)%nat ->
  rm_shortest_suffix (Glob.sdrop k p) p = Some (stake k p).
Proof.
  intros Hp Hk. unfold rm_shortest_suffix, with_pat. rewrite (parse_plain false _ (plain_sdrop k p Hp)).
  rewrite (first_cut_downfrom_spec _ _ k); [reflexivity | exact Hk | rewrite gmatch_chars; apply String.eqb_refl |].
  intros k' Hk'. rewrite gmatch_chars. apply String.eqb_neq. intro E. apply string_eq_length in E.
  rewrite !length_sdrop in E. lia.
Qed.

Lemma rm_shortest_prefix_plain p k m :
  plain p = true -> (k <= String.length p)%nat -> String.prefix p m = true ->
  rm_shortest_prefix (stake k p) m = Some (Glob.sdrop k m).
Proof.
  intros Hp Hk Hm. unfold rm_shortest_prefix, with_pat. rewrite (parse_plain false _ (plain_stake k p Hp)).
  apply prefix_split in Hm.
  assert (Hlen : (String.length p <= String.length m)%nat) by (rewrite Hm, length_append; lia).
  assert (Est : stake k m = stake k p) by (rewrite Hm; apply stake_append; exact Hk).
  rewrite (first_cut_upto_spec _ _ k); [reflexivity | lia | rewrite gmatch_chars, Est; apply String.eqb_refl |].
  intros k' Hk'. rewrite gmatch_chars. apply String.eqb_neq. intro E. apply string_eq_length in E.
  rewrite (length_stake k p Hk), (length_stake k' m) in E by lia. lia.
Qed.

(** *** strip_reply *)
Theorem strip_reply_plain (benv : BashSem.env) (p : string) (ms : list string) :
  breaks_ok (BashSem.e_wordbreaks benv) = true -> plain p = true ->
  (forall m, In m ms -> String.prefix p m = true) ->
  strip_reply benv p ms = Ok (map (Meaning.strip (BashSem.e_wordbreaks benv) p) ms).
Proof.
  intros Hwb Hp Hms. unfold strip_reply.
  pose proof (shortest_suffix_spec (BashSem.e_wordbreaks benv) p 0 Hwb (Nat.le_0_l _)) as Hs.
  cbn [Glob.sdrop] in Hs. change (Glob.sdrop 0 p) with p in Hs. rewrite Hs. cbn [obind Nat.max].
  set (K := max_pos (BashSem.e_wordbreaks benv) p).
  assert (HK : (K <= String.length p)%nat) by apply max_pos_le.
  assert (Estrip : forall m, Meaning.strip (BashSem.e_wordbreaks benv) p m = Glob.sdrop K m).
  { intro m. unfold Meaning.strip. rewrite last_break_max_pos, gsdrop_eq. reflexivity. }
  destruct (String.eqb (Glob.sdrop K p) p) eqn:E.
  - apply String.eqb_eq in E. apply (sdrop_full_eq K p HK) in E. cbn [obind].
    induction ms as [| m ms IH]; [reflexivity |]. cbn [omap map].
    assert (Er : rm_shortest_prefix EmptyString m = Some m).
    { unfold rm_shortest_prefix, with_pat. cbn. destruct m; reflexivity. }
    rewrite Er. cbn [obind]. rewrite IH by (intros m' Hm'; apply Hms; right; exact Hm'). cbn [obind].
    rewrite Estrip, E. reflexivity.
  - rewrite (rm_shortest_suffix_plain p K Hp HK). cbn [obind].
    induction ms as [| m ms IH]; [reflexivity |]. cbn [omap map].
    rewrite (rm_shortest_prefix_plain p K m Hp HK (Hms m (or_introl eq_refl))). cbn [obind].
    rewrite IH by (intros m' Hm'; apply Hms; right; exact Hm'). cbn [obind]. rewrite Estrip. reflexivity.
Qed.

(** bash's default COMP_WORDBREAKS: space, tab, newline, double quote, single quote, @ > < = ; | & ( : *)
Definition bash_default_wordbreaks : string :=
  String (ch 32) (String (ch 9) (String (ch 10) """'@><=;|&(:")).

Lemma default_wordbreaks_ok : breaks_ok bash_default_wordbreaks = true.
Proof. reflexivity. Qed.
