(** Locating a tree only changes its spans; trees without sub-words are fixed by [flatten_expr]. *)
From CG Require Import Base.Prelude Model.Ast Model.Lexer Model.Parser Spec.Printer
  Proofs.LexBase Proofs.ExprDefs.
From CGgen Require Import Consts.

Lemma fst_loc_body : forall c lay ctx e p, exists pb,
    fst (loc c lay ctx e p) = fst (body_loc c lay ctx e pb).
Proof.
  intros. rewrite loc_eq. cbv zeta.
  match goal with |- exists pb, fst (let '(e', pe) := body_loc c lay ctx e ?q in _) = _ => exists q; destruct (body_loc c lay ctx e q) end.
  reflexivity.
Qed.

Lemma erase_loc_list : forall (g : nat -> expr -> pos -> expr * pos) sepadv xs,
    Forall (fun x => forall k q, erase (fst (g k x q)) = erase x) xs ->
    forall k q, map erase (fst (loc_list g sepadv k xs q)) = map erase xs.
Proof.
  induction 1; intros k q; cbn [loc_list map]; auto.
  destruct (g k x (match k with O => q | S _ => sepadv k q end)) as [x' q1] eqn:E1.
  destruct (loc_list g sepadv (S k) l q1) as [rs q2] eqn:E2.
  cbn [fst map]. f_equal.
  - specialize (H k (match k with O => q | S _ => sepadv k q end)). rewrite E1 in H. exact H.
  - specialize (IHForall (S k) q1). rewrite E2 in IHForall. exact IHForall.
Qed.

Lemma erase_loc_sub : forall (g : nat -> nat -> expr -> pos -> expr * pos) xs,
    Forall (fun x => forall k cx q, erase (fst (g k cx x q)) = erase x) xs ->
    forall k prev q, map erase (fst (loc_sub g k prev xs q)) = map erase xs.
Proof.
  induction 1; intros k prev q; cbn [loc_sub map]; auto.
  destruct (g k (factor_ctx prev x) x q) as [x' q1] eqn:E1.
  destruct (loc_sub g (S k) (factor_open (factor_ctx prev x) x) l q1) as [rs q2] eqn:E2.
  cbn [fst map]. f_equal.
  - specialize (H k (factor_ctx prev x) q). rewrite E1 in H. exact H.
  - specialize (IHForall (S k) (factor_open (factor_ctx prev x) x) q1). rewrite E2 in IHForall. exact IHForall.
Qed.

Definition EraseQ (e : expr) : Prop :=
  (forall c lay ctx p, erase (fst (loc c lay ctx e p)) = erase e)
  /\ match e with
     | Sequence fs _ => Forall (fun x => forall c lay ctx p, erase (fst (loc c lay ctx x p)) = erase x) fs
     | _ => True
     end.

Lemma Forall_EraseQ : forall cs, Forall EraseQ cs ->
    Forall (fun x => forall c lay ctx p, erase (fst (loc c lay ctx x p)) = erase x) cs.
Proof. induction 1; constructor; auto. destruct H; auto. Qed.

Ltac start :=
  intros cf lay ctx p;
  match goal with
  | |- erase (fst (loc ?c0 ?lay0 ?ctx0 ?e0 ?p0)) = _ =>
      destruct (fst_loc_body c0 lay0 ctx0 e0 p0) as [pb Epb]; rewrite Epb; clear Epb; cbn [body_loc]
  end.

Theorem erase_loc_all : forall e, EraseQ e.
Proof.
  induction e using expr_ind'; (split; [|try (cbn iota; constructor)]).
  - start. destruct d; reflexivity.
  - start. reflexivity.
  - start. reflexivity.
  - start. apply Forall_EraseQ in H.
    destruct (loc_list _ _ 0 cs pb) as [cs' p1] eqn:E. cbn [fst erase]. f_equal.
    pose proof (erase_loc_list (fun k x q => loc cf (sub lay k) 3 x q) (fun k q => adv_str (seq_sep (lay []) k) q) cs) as X.
    rewrite <- (X ltac:(eapply Forall_impl; [|exact H]; cbn beta; intros a Ha k q; apply Ha) 0%nat pb). rewrite E. reflexivity.
  - apply Forall_EraseQ; auto.
  - start. apply Forall_EraseQ in H.
    destruct (loc_list _ _ 0 cs pb) as [cs' p1] eqn:E. cbn [fst erase]. f_equal.
    pose proof (erase_loc_list (fun k x q => loc cf (sub lay k) 2 x q) (fun k q => adv_str (alt_sep (lay []) k) q) cs) as X.
    rewrite <- (X ltac:(eapply Forall_impl; [|exact H]; cbn beta; intros a Ha k q; apply Ha) 0%nat pb). rewrite E. reflexivity.
  - start. destruct IHe as [IH _]. specialize (IH cf (sub lay 0) 0%nat (adv_str (gap_text (nl_gap (lay []) 0)) (adv_char LBRACK pb))).
    destruct (loc cf (sub lay 0) 0 e _) as [ch' p2]. cbn [fst erase] in *. rewrite IH. reflexivity.
  - start. destruct IHe as [IH _]. specialize (IH cf (sub lay 0) 6%nat pb).
    destruct (loc cf (sub lay 0) 6 e pb) as [ch' p2]. cbn [fst erase] in *. rewrite IH. reflexivity.
  - start. destruct IHe as [IH _]. specialize (IH cf (sub lay 0) (if open_end e then 7 else 4)%nat pb).
    destruct (loc cf (sub lay 0) _ e pb) as [ch' p2]. cbn [fst erase] in *. rewrite IH. reflexivity.
  - start. apply Forall_EraseQ in H.
    destruct (loc_list _ _ 0 cs pb) as [cs' p1] eqn:E. cbn [fst erase]. f_equal.
    pose proof (erase_loc_list (fun k x q => loc cf (sub lay k) 1 x q) (fun k q => adv_str (fb_sep (lay []) k) q) cs) as X.
    rewrite <- (X ltac:(eapply Forall_impl; [|exact H]; cbn beta; intros a Ha k q; apply Ha) 0%nat pb). rewrite E. reflexivity.
  - intros cf lay ctx p. destruct (fst_loc_body cf lay ctx (Subword e l sp) p) as [pb Epb]; rewrite Epb; clear Epb.
    destruct IHe as [IH IHfs]. destruct e; cbn [body_loc].
    all: try (specialize (IH cf (sub lay 0) 5%nat pb);
              match goal with |- context [loc ?a ?b 5 ?x ?d] => destruct (loc a b 5 x d) as [r' p1] end;
              cbn [fst erase] in *; rewrite IH; reflexivity).
    destruct (loc_sub _ 0 false children pb) as [cs' p1] eqn:E. cbn [fst erase]. f_equal. f_equal.
    pose proof (erase_loc_sub (fun k cx x q => loc cf (sub (sub lay 0) k) cx x q) children) as X.
    rewrite <- (X ltac:(eapply Forall_impl; [|exact IHfs]; cbn beta; intros a Ha k cx q; apply Ha) 0%nat false pb). rewrite E. reflexivity.
Qed.

Theorem erase_loc : forall c lay ctx e p, erase (fst (loc c lay ctx e p)) = erase e.
Proof. intros. apply erase_loc_all. Qed.

(** *** Sub-word freedom *)

Fixpoint nosub (e : expr) : bool :=
  match e with
  | Terminal _ _ _ _ | NontermRef _ _ _ | Command _ _ _ _ => true
  | Sequence cs _ | Alternative cs _ | Fallback cs _ => forallb nosub cs
  | Optional c _ | Many1 c _ | DistDescr c _ _ => nosub c
  | Subword _ _ _ => false
  end.

Lemma forallb_map_ext : forall (f : expr -> bool) (g : expr -> expr) cs,
    Forall (fun x => f (g x) = f x) cs -> forallb f (map g cs) = forallb f cs.
Proof. induction 1; cbn; auto. rewrite H, IHForall. reflexivity. Qed.

Lemma nosub_erase : forall e, nosub (erase e) = nosub e.
Proof.
  induction e using expr_ind'; cbn [erase nosub]; auto; apply forallb_map_ext; auto.
Qed.

Lemma map_id_ext : forall (g : expr -> expr) cs, Forall (fun x => g x = x) cs -> map g cs = cs.
Proof. induction 1; cbn; auto. rewrite H, IHForall. reflexivity. Qed.

Lemma flatten_nosub : forall e, nosub e = true -> flatten_expr e = e.
Proof.
  induction e using expr_ind'; cbn [nosub flatten_expr]; intros N; auto; try discriminate;
    try (rewrite IHe by assumption; reflexivity).
  all: f_equal; apply map_id_ext; rewrite forallb_forall in N; rewrite Forall_forall in *; intros x Hx; apply H; auto.
Qed.

Lemma wfb_nosub : forall e, wfb true e = true -> nosub e = true.
Proof.
  induction e using expr_ind'; cbn [nosub wfb]; intros W; auto; try discriminate.
  all: apply andb_true_iff in W as [_ W]; rewrite forallb_forall in *; rewrite Forall_forall in *; intros x Hx; apply H; auto.
Qed.

Lemma nosub_loc : forall c lay ctx e p, wfb true e = true -> nosub (fst (loc c lay ctx e p)) = true.
Proof.
  intros. rewrite <- nosub_erase, erase_loc, nosub_erase. apply wfb_nosub; assumption.
Qed.

Lemma flatten_loc : forall c lay ctx e p, wfb true e = true ->
    flatten_expr (fst (loc c lay ctx e p)) = fst (loc c lay ctx e p).
Proof. intros. apply flatten_nosub, nosub_loc; assumption. Qed.
