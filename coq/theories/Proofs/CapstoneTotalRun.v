(** Source-level corollary of the capstone, C17/C06: the functions of the script [compile_bash]
    returns, interpreted on its tables ([BashSem.run_from Repaired]), terminate without reaching a
    panic site, for every environment and every command line -- provided no within-word literal is
    empty (what the parser guarantees; read here off the validated literal orders). *)
From CG Require Import Base.Prelude Model.Ast Model.Check Model.Dfa Model.Driver Model.Tables Model.EmitBash
  Model.Compiler Model.BashSem.
From CG Require Import Proofs.TablesSound Proofs.TableLookup Proofs.C12Proofs Proofs.C17Total Proofs.CapstoneMeaning.
From CG Require Props.C17.
Open Scope N_scope.
Open Scope list_scope.

Definition sub_lits_nonempty (o : oracles) : bool :=
  forallb (fun e => forallb (fun td => negb (String.eqb (fst td) EmptyString)) (snd e)) (o_sub_lits o).

Lemma sub_tables_nonempty sh c om os nd a :
  all_tables sh c om os = Ok (nd, a) ->
  forallb (fun e => forallb (fun td : string * string => negb (String.eqb (fst td) EmptyString)) (snd e)) os = true ->
  wf_subword_literals a.
Proof.
  intros Ha Hne pi sid T Hin.
  apply (proj1 (subwords_exact sh c om os nd a Ha pi sid T)) in Hin.
  destruct Hin as [rt [sd [_ [_ [_ Hg]]]]].
  destruct (glt_inv _ _ _ _ _ _ _ _ Hg) as [rt' F]. pose proof (gf_lits _ _ _ _ _ _ _ _ _ F) as Hl.
  intros id l Hil. unfold lits_of, literal_texts in Hil. apply indexed_from_in in Hil. destruct Hil as [_ Hn].
  apply nth_error_In in Hn. rewrite Hl in Hn. apply in_map_iff in Hn. destruct Hn as [[[i t] ds] [E Hn]].
  cbn [fst snd] in E. subst t. apply all_literals_in in Hn. destruct Hn as [_ Hn]. apply nth_error_In in Hn.
  destruct (assocN pi os) as [ord|] eqn:Eo; [|destruct Hn].
  rewrite forallb_forall in Hne. apply assocN_in in Eo. specialize (Hne (pi, ord) Eo). cbn [snd] in Hne.
  rewrite forallb_forall in Hne. specialize (Hne (l, ds) Hn). cbn [fst] in Hne.
  apply negb_true_iff, String.eqb_neq in Hne. exact Hne.
Qed.

Theorem compile_bash_run_total o builtins text s :
  compile_bash o builtins text = Ok s -> sub_lits_nonempty o = true ->
  exists v c nd a,
    compile (pick_table (o_pops o)) (o_fuel o) builtins text Bash = Ok (v, c)
    /\ all_tables Bash c (o_main_lits o) (o_sub_lits o) = Ok (nd, a)
    /\ forall e ws p,
         run_from Repaired (d_start (c_main c)) a e ws p <> OutOfFuel
         /\ (forall site, run_from Repaired (d_start (c_main c)) a e ws p <> Panic site)
         /\ (forall r, run_from Repaired (d_start (c_main c)) a e ws p = Ok r -> r_rc r = 0 \/ r_rc r = 1).
Proof.
  intros H Hne. destruct (compile_bash_inv o builtins text s H) as [g [v [c [nd [a [_ [_ [_ [Hc [_ [_ [Ha _]]]]]]]]]]]].
  exists v, c, nd, a. split; [exact Hc|]. split; [exact Ha|].
  intros e ws p. apply Props.C17.C17_repaired_total. eapply sub_tables_nonempty; eauto.
Qed.
