(** "Nothing follows an undefined nonterminal inside a word" is a consequence of the regex stage.

    [Regex.from_valid_expr] succeeds only on trees all of whose words have their placeholders last
    ([Mistakes.ph_last], checkproofs' [PhPool.from_valid_expr_placeholder]).  [ph_last] of a word
    gives a syntactic invariant [tail_rx] of its translation [trw]; the invariant is preserved by
    linear forms and makes what is left after [WAny] the empty sentence.  Hence, for a compiled
    grammar, the conjunct [eps_only] of [Domain.wpoint_ok] holds at every point [explore] visits:
    [C01_domain_core] implies [C01_domain] (and [C01_tail_only]). *)
From CG Require Import Base.Prelude Model.Ast Model.Check Model.Driver Spec.Choice Spec.Mistakes.
From CG Require Import Spec.Rx Spec.Meaning Spec.Domain Spec.DomainCore.
From CG Require Import Proofs.CheckLemmas Proofs.CheckWarnings Proofs.CheckOrder Proofs.CheckUndefined.
From CG Require Import Proofs.CheckSpacesSpec Proofs.TreeFacts Proofs.CheckTree.
From CG Require Import Proofs.PhExpr Proofs.PhSkel Proofs.PhPool Proofs.PhSpec Proofs.PhTree.
From CG Require Proofs.DfaMeaning Proofs.LangBridge Model.Regex.

Local Open Scope list_scope.

(** * The syntactic invariant *)
Definition any_in (r : rx wleaf) : bool :=
  existsb (fun a => match a with WAny => true | _ => false end) (leaves r).

Fixpoint tail_rx (r : rx wleaf) : bool :=
  match r with
  | Zero | Eps | Leaf _ => true
  | Cat a b => negb (any_in a) && tail_rx b
  | Alt a b => tail_rx a && tail_rx b
  | Plus a => negb (any_in a)
  end.

Lemma any_in_false r : any_in r = false <-> ~ In WAny (leaves r).
Proof.
  unfold any_in. split.
  - intros H Hin. assert (E : existsb (fun a => match a with WAny => true | _ => false end) (leaves r) = true).
    { apply existsb_exists. exists WAny. split; [exact Hin|reflexivity]. }
    congruence.
  - intro H. destruct (existsb _ (leaves r)) eqn:E; [|reflexivity]. exfalso.
    apply existsb_exists in E. destruct E as [a [Hin Ha]]. destruct a; try discriminate. exact (H Hin).
Qed.

Lemma any_in_Cat a b : any_in (Cat a b) = any_in a || any_in b.
Proof. unfold any_in. cbn [leaves]. apply existsb_app. Qed.
Lemma any_in_Alt a b : any_in (Alt a b) = any_in a || any_in b.
Proof. unfold any_in. cbn [leaves]. apply existsb_app. Qed.

Lemma any_in_cat a b : any_in a = false -> any_in b = false -> any_in (cat a b) = false.
Proof.
  rewrite !any_in_false. intros Ha Hb Hin. apply LangBridge.leaves_cat in Hin. tauto.
Qed.

Lemma any_in_alt a b : any_in a = false -> any_in b = false -> any_in (alt a b) = false.
Proof.
  rewrite !any_in_false. intros Ha Hb Hin. apply LangBridge.leaves_alt in Hin. tauto.
Qed.

Lemma noany_tail r : any_in r = false -> tail_rx r = true.
Proof.
  induction r; cbn [tail_rx]; intro H; try reflexivity.
  - rewrite any_in_Cat in H. apply orb_false_iff in H. destruct H as [H1 H2].
    rewrite H1, (IHr2 H2). reflexivity.
  - rewrite any_in_Alt in H. apply orb_false_iff in H. destruct H as [H1 H2].
    rewrite (IHr1 H1), (IHr2 H2). reflexivity.
  - unfold any_in in *. cbn [leaves] in H. rewrite H. reflexivity.
Qed.

Lemma tail_cat a b : any_in a = false -> tail_rx b = true -> tail_rx (cat a b) = true.
Proof.
  intros Ha Hb. pose proof (noany_tail a Ha) as Ta.
  destruct a; destruct b; cbn [cat]; try reflexivity; try exact Hb; try exact Ta;
    cbn [tail_rx]; rewrite Ha; cbn [negb andb]; exact Hb.
Qed.

Lemma tail_cat_eps a : tail_rx a = true -> tail_rx (cat a Eps) = true.
Proof. intro H. destruct a; cbn [cat]; try reflexivity; exact H. Qed.

Lemma tail_alt a b : tail_rx a = true -> tail_rx b = true -> tail_rx (alt a b) = true.
Proof.
  intros Ha Hb.
  destruct a; destruct b; cbn [alt]; try reflexivity; try exact Hb; try exact Ha;
    cbn [tail_rx]; cbn [tail_rx] in Ha, Hb; rewrite ?Ha, ?Hb; reflexivity.
Qed.

(** * From the word to its translation *)
Lemma noph_noany w : contains_ph isref w = false -> any_in (trw w) = false.
Proof.
  induction w using expr_ind'; cbn [contains_ph trw]; intro Hc; try reflexivity.
  - discriminate.
  - induction H as [|x l Hx Hl IH]; [reflexivity|].
    cbn [existsb] in Hc. apply orb_false_iff in Hc. destruct Hc as [H1 H2].
    apply any_in_cat; [exact (Hx H1)|exact (IH H2)].
  - induction H as [|x l Hx Hl IH]; [reflexivity|].
    cbn [existsb] in Hc. apply orb_false_iff in Hc. destruct Hc as [H1 H2].
    apply any_in_alt; [exact (Hx H1)|exact (IH H2)].
  - rewrite any_in_Alt, (IHw Hc). reflexivity.
  - exact (IHw Hc).
  - exact (IHw Hc).
  - induction H as [|x l Hx Hl IH]; [reflexivity|].
    cbn [existsb] in Hc. apply orb_false_iff in Hc. destruct Hc as [H1 H2].
    apply any_in_alt; [exact (Hx H1)|exact (IH H2)].
  - exact (IHw Hc).
Qed.

Lemma ph_tail w : ph_last isref w = true -> tail_rx (trw w) = true.
Proof.
  induction w using expr_ind'; try (intros _; reflexivity).
  - rewrite ph_last_seq. cbn [trw].
    induction H as [|x l Hx Hl IH]; intro Hs; [reflexivity|].
    destruct l as [|y l'].
    + cbn [seq_b] in Hs. apply tail_cat_eps. exact (Hx Hs).
    + change (seq_b (x :: y :: l')) with (negb (contains_ph isref x) && seq_b (y :: l')) in Hs.
      apply andb_true_iff in Hs. destruct Hs as [H1 H2]. apply negb_true_iff in H1.
      apply tail_cat; [exact (noph_noany x H1)|exact (IH H2)].
  - cbn [ph_last trw]. induction H as [|x l Hx Hl IH]; intro Hs; [reflexivity|].
    cbn [forallb] in Hs. apply andb_true_iff in Hs. destruct Hs as [H1 H2].
    apply tail_alt; [exact (Hx H1)|exact (IH H2)].
  - cbn [ph_last trw tail_rx]. intro Hs. rewrite (IHw Hs). reflexivity.
  - cbn [ph_last trw tail_rx]. intro Hs. apply negb_true_iff in Hs. rewrite (noph_noany w Hs). reflexivity.
  - cbn [ph_last trw]. exact IHw.
  - cbn [ph_last trw]. induction H as [|x l Hx Hl IH]; intro Hs; [reflexivity|].
    cbn [forallb] in Hs. apply andb_true_iff in Hs. destruct Hs as [H1 H2].
    apply tail_alt; [exact (Hx H1)|exact (IH H2)].
  - cbn [ph_last trw]. exact IHw.
Qed.

(** * The invariant is preserved by linear forms; after [WAny] nothing is left *)
Lemma lf_noany r : any_in r = false ->
  forall a k, In (a, k) (lf r) -> a <> WAny /\ any_in k = false.
Proof.
  intros Hr a k Hin. destruct (DfaMeaning.lf_leaves r a k Hin) as [Ha Hk].
  rewrite any_in_false in Hr. split.
  - intro E. subst a. exact (Hr Ha).
  - apply any_in_false. intro Hw. exact (Hr (Hk _ Hw)).
Qed.

Lemma eps_only_Eps : eps_only Eps = true.
Proof. reflexivity. Qed.

Lemma tail_lf r : tail_rx r = true ->
  forall a k, In (a, k) (lf r) -> tail_rx k = true /\ (a = WAny -> eps_only k = true).
Proof.
  induction r; cbn [tail_rx lf]; intros Ht x k Hin.
  - destruct Hin.
  - destruct Hin.
  - destruct Hin as [E|[]]. inversion E; subst. split; [reflexivity|intros _; reflexivity].
  - apply andb_true_iff in Ht. destruct Ht as [H1 H2]. apply negb_true_iff in H1.
    apply in_app_or in Hin. destruct Hin as [Hin|Hin].
    + apply in_map_iff in Hin. destruct Hin as [[y k'] [E Hin]]. cbn [fst snd] in E. inversion E; subst.
      destruct (lf_noany r1 H1 _ _ Hin) as [Hy Hk']. split.
      * apply tail_cat; assumption.
      * intro E'. contradiction.
    + destruct (nullable r1); [|destruct Hin]. exact (IHr2 H2 _ _ Hin).
  - apply andb_true_iff in Ht. destruct Ht as [H1 H2].
    apply in_app_or in Hin. destruct Hin as [Hin|Hin]; [exact (IHr1 H1 _ _ Hin)|exact (IHr2 H2 _ _ Hin)].
  - apply negb_true_iff in Ht.
    apply in_map_iff in Hin. destruct Hin as [[y k'] [E Hin]]. cbn [fst snd] in E. inversion E; subst.
    destruct (lf_noany r Ht _ _ Hin) as [Hy Hk']. split.
    + apply tail_cat; [exact Hk'|]. unfold star. cbn [tail_rx]. rewrite Ht. reflexivity.
    + intro E'. contradiction.
Qed.

(** * [explore] under an invariant of the states *)
Section ExploreInv.
  Context {A : Type}.
  Variable eqA : A -> A -> bool.
  Variable si : A -> A -> bool.
  Variables ok1 ok2 : list (A * rx A) -> bool.
  Variable Inv : list (rx A) -> Prop.
  Hypothesis Hok : forall s, Inv s -> ok1 (flat_map lf s) = true -> ok2 (flat_map lf s) = true.
  Hypothesis Hsucc : forall s, Inv s -> Forall Inv (succs eqA si s).

  Lemma explore_inv : forall f todo seen,
    Forall Inv todo -> explore eqA si ok1 f todo seen = true -> explore eqA si ok2 f todo seen = true.
  Proof.
    induction f as [|f IH]; intros todo seen Ht; cbn [explore]; [discriminate|].
    destruct todo as [|s rest]; [reflexivity|].
    inversion Ht as [|? ? Hs Hrest]; subst.
    destruct (existsb (state_eqb eqA s) seen).
    - apply IH. exact Hrest.
    - intro H. apply andb_true_iff in H. destruct H as [H1 H2].
      rewrite (Hok s Hs H1). cbn [andb]. apply IH; [|exact H2].
      apply Forall_app. split; [exact Hrest|exact (Hsucc s Hs)].
  Qed.
End ExploreInv.

Lemma dedup_rx_sub {A} (eqA : A -> A -> bool) (l : list (rx A)) r : In r (dedup_rx eqA l) -> In r l.
Proof.
  induction l as [|x l IH]; cbn [dedup_rx]; [tauto|].
  destruct (mem_rx eqA x (dedup_rx eqA l)).
  - intro H. right. exact (IH H).
  - intros [E|H]; [left; exact E|right; exact (IH H)].
Qed.

Definition tails (s : list (rx wleaf)) : Prop := Forall (fun r => tail_rx r = true) s.

Lemma tails_succs s : tails s -> Forall tails (succs wleaf_eqb wsame_item s).
Proof.
  intro Hs. apply Forall_forall. intros t Ht. unfold succs in Ht.
  apply in_map_iff in Ht. destruct Ht as [a [E _]]. subst t.
  apply Forall_forall. intros r Hr. apply dedup_rx_sub in Hr.
  apply in_map_iff in Hr. destruct Hr as [[b k] [E Hin]]. cbn [snd] in E. subst k.
  apply filter_In in Hin. destruct Hin as [Hin _].
  apply in_flat_map in Hin. destruct Hin as [x [Hx Hin]].
  unfold tails in Hs. rewrite Forall_forall in Hs.
  exact (proj1 (tail_lf x (Hs x Hx) _ _ Hin)).
Qed.

Lemma tails_point s : tails s -> wtail_point (flat_map lf s) = true.
Proof.
  intro Hs. unfold wtail_point. apply forallb_forall. intros [a k] Hin. cbn [fst snd].
  apply in_flat_map in Hin. destruct Hin as [x [Hx Hin]].
  unfold tails in Hs. rewrite Forall_forall in Hs.
  destruct a; try reflexivity. exact (proj2 (tail_lf x (Hs x Hx) _ _ Hin) eq_refl).
Qed.

Lemma word_core_ok x : tail_rx x = true -> word_core x = true -> word_ok x = true.
Proof.
  intros Hx H. unfold word_core in H. unfold word_ok.
  apply andb_true_iff in H. destruct H as [H1 H2]. rewrite H1. cbn [andb].
  refine (explore_inv wleaf_eqb wsame_item wpoint_core wpoint_ok tails _ tails_succs _ _ _ _ H2).
  - intros s Hs Hc. change (wpoint_ok (flat_map lf s)) with (wpoint_core (flat_map lf s) && wtail_point (flat_map lf s)).
    rewrite Hc, (tails_point s Hs). reflexivity.
  - constructor; [|constructor]. constructor; [exact Hx|constructor].
Qed.

Lemma word_core_tail x : tail_rx x = true -> word_core x = true ->
  explore wleaf_eqb wsame_item wtail_point explore_fuel [[x]] [] = true.
Proof.
  intros Hx H. unfold word_core in H. apply andb_true_iff in H. destruct H as [_ H2].
  refine (explore_inv wleaf_eqb wsame_item wpoint_core wtail_point tails _ tails_succs _ _ _ _ H2).
  - intros s Hs _. exact (tails_point s Hs).
  - constructor; [|constructor]. constructor; [exact Hx|constructor].
Qed.

(** * The words of the translated tree are the translations of the words of the tree *)
Lemma sub_leaves e : forall x lv, In (LSub x lv) (leaves (tr e)) -> exists c, In c (words_of e) /\ x = trw c.
Proof.
  induction e using expr_ind'; cbn [tr words_of]; intros x lv Hin.
  - destruct Hin as [E|[]]. discriminate.
  - destruct Hin as [E|[]]. discriminate.
  - destruct Hin as [E|[]]. discriminate.
  - induction H as [|y r Hy Hr IH]; [destruct Hin|].
    apply LangBridge.leaves_cat in Hin. cbn [flat_map]. destruct Hin as [Hin|Hin].
    + destruct (Hy _ _ Hin) as [c [Hc E]]. exists c. split; [apply in_or_app; left; exact Hc|exact E].
    + destruct (IH Hin) as [c [Hc E]]. exists c. split; [apply in_or_app; right; exact Hc|exact E].
  - induction H as [|y r Hy Hr IH]; [destruct Hin|].
    apply LangBridge.leaves_alt in Hin. cbn [flat_map]. destruct Hin as [Hin|Hin].
    + destruct (Hy _ _ Hin) as [c [Hc E]]. exists c. split; [apply in_or_app; left; exact Hc|exact E].
    + destruct (IH Hin) as [c [Hc E]]. exists c. split; [apply in_or_app; right; exact Hc|exact E].
  - cbn [leaves] in Hin. rewrite app_nil_r in Hin. exact (IHe _ _ Hin).
  - cbn [leaves] in Hin. exact (IHe _ _ Hin).
  - exact (IHe _ _ Hin).
  - induction H as [|y r Hy Hr IH]; [destruct Hin|].
    apply LangBridge.leaves_alt in Hin. cbn [flat_map]. destruct Hin as [Hin|Hin].
    + destruct (Hy _ _ Hin) as [c [Hc E]]. exists c. split; [apply in_or_app; left; exact Hc|exact E].
    + destruct (IH Hin) as [c [Hc E]]. exists c. split; [apply in_or_app; right; exact Hc|exact E].
  - destruct Hin as [E|[]]. inversion E; subst. exists e. split; [left; reflexivity|reflexivity].
Qed.

Lemma subwords_words e x : In x (subwords_of (tr e)) -> exists c, In c (words_of e) /\ x = trw c.
Proof.
  unfold subwords_of. intro Hin. apply in_flat_map in Hin. destruct Hin as [a [Ha Hx]].
  destruct a; try (destruct Hx; fail). destruct Hx as [E|[]]. subst. exact (sub_leaves e _ _ Ha).
Qed.

(** * Trees accepted by the regex stage *)
Theorem regex_ok_tails e rp :
  TreeFacts.dd_free e = true -> flat_subwords e = true -> alts_nonempty e = true ->
  (forall c, In c (words_of e) -> ops_nonempty c = true) ->
  Regex.from_valid_expr e = Ok rp ->
  forall x, In x (subwords_of (tr e)) -> tail_rx x = true.
Proof.
  intros Hd Hf Ha Ho Hr x Hx.
  destruct (subwords_words e x Hx) as [c [Hc E]]. subst x.
  apply ph_tail. destruct (ph_last isref c) eqn:Hp; [reflexivity|]. exfalso.
  destruct (from_valid_expr_placeholder e Hd Hf Ha Ho) as [Hiff _].
  destruct (proj2 Hiff (ex_intro _ c (conj Hc Hp))) as [a [b Herr]]. congruence.
Qed.

Theorem core_domain e :
  (forall x, In x (subwords_of (tr e)) -> tail_rx x = true) ->
  C01_domain_core e = true -> C01_domain e = true /\ C01_tail_only e = true.
Proof.
  intros Ht H. unfold C01_domain_core in H. apply andb_true_iff in H. destruct H as [H1 H2].
  rewrite forallb_forall in H1. split.
  - unfold C01_domain. rewrite H2, andb_true_r. apply forallb_forall. intros x Hx.
    exact (word_core_ok x (Ht x Hx) (H1 x Hx)).
  - unfold C01_tail_only. apply forallb_forall. intros x Hx.
    exact (word_core_tail x (Ht x Hx) (H1 x Hx)).
Qed.

Lemma domain_core e : C01_domain e = true -> C01_domain_core e = true.
Proof.
  unfold C01_domain, C01_domain_core. intro H. apply andb_true_iff in H. destruct H as [H1 H2].
  rewrite H2, andb_true_r. rewrite forallb_forall in *. intros x Hx. specialize (H1 x Hx).
  unfold word_ok in H1. unfold word_core. apply andb_true_iff in H1. destruct H1 as [Ha Hb].
  rewrite Ha. cbn [andb].
  refine (explore_inv wleaf_eqb wsame_item wpoint_ok wpoint_core (fun _ => True) _ _ _ _ _ _ Hb).
  - intros s _ Hc. change (wpoint_ok (flat_map lf s)) with (wpoint_core (flat_map lf s) && wtail_point (flat_map lf s)) in Hc.
    apply andb_true_iff in Hc. exact (proj1 Hc).
  - intros s _. apply Forall_forall. intros; exact I.
  - constructor; [exact I|constructor].
Qed.

(** * Compiled grammars: the operands the words of the validated tree need *)
Lemma valid_words_ops builtins g sh v :
  from_grammar builtins g sh = Ok v -> grammar_ops_nonempty g = true ->
  forall c, In c (words_of (v_expr v)) -> ops_nonempty c = true.
Proof.
  intros Hv Hg.
  pose proof (from_grammar_ok builtins g sh v Hv) as A.
  assert (Hexpr : v_expr v = propagate (collapse (resolve (a_table _ _ _ _ A)
                     (mt builtins sh (a_us _ _ _ _ A) (a_fs _ _ _ _ A)
                         (map d_name (defs1_of (a_defs0 _ _ _ _ A))) None (expr0_of g)))) 0).
  { pose proof (a_v _ _ _ _ A) as Hav. apply (f_equal v_expr) in Hav. exact Hav. }
  pose proof (words_agree builtins g sh _ _ _ (a_collect _ _ _ _ A) (a_specs _ _ _ _ A) _
                          (a_order _ _ _ _ A) (expr0_of g) None) as Hw.
  cbn zeta in Hw.
  assert (Hw' : wsk isref (v_expr v) = wsk (isP builtins g sh) (expand g sh (fuel_of g) (expr0_of g)))
    by (rewrite Hexpr; exact Hw).
  clear Hw. rename Hw' into Hw.
  assert (Hops : forall n rhs, plain_chosen g sh n = Some rhs -> ops_nonempty rhs = true).
  { intros n rhs Hn. apply plain_chosen_plain in Hn. apply plain_definition_some_in in Hn.
    destruct Hn as [nsp Hin]. unfold grammar_ops_nonempty in Hg. rewrite forallb_forall in Hg.
    apply (Hg _ Hin). }
  assert (He0 : ops_nonempty (expr0_of g) = true).
  { assert (Hall : forallb ops_nonempty (map snd (call_variants g)) = true).
    { apply forallb_forall. intros e He. apply in_map_iff in He. destruct He as [[[n s] e'] [Heq Hin]].
      cbn in Heq. subst e'. unfold call_variants in Hin. apply in_flat_map in Hin.
      destruct Hin as [st [Hst Hin]]. destruct st; [|destruct Hin]. destruct Hin as [Hin|[]].
      inversion Hin; subst. unfold grammar_ops_nonempty in Hg. rewrite forallb_forall in Hg.
      apply (Hg _ Hst). }
    pose proof (a_dedup _ _ _ _ A) as Hd. unfold cv_names in Hd. unfold expr0_of.
    destruct (call_variants g) as [|x [|y r]] eqn:E; cbn [map] in *.
    - discriminate.
    - cbn in Hall. rewrite andb_true_r in Hall. exact Hall.
    - exact Hall. }
  intros c Hc. rewrite (ops_nonempty_sk isref c).
  assert (Hin : In (skw isref c) (wsk isref (v_expr v))) by (apply in_map; exact Hc).
  rewrite Hw in Hin. apply in_map_iff in Hin. destruct Hin as [w [Heq Hin]]. rewrite <- Heq.
  rewrite <- ops_nonempty_sk. eapply words_ops; [|exact Hin].
  apply (expand_ops g sh Hops). exact He0.
Qed.

Lemma compile_valid_regex pick fuel v c :
  compile_valid pick fuel v = Ok c -> exists rp, Regex.from_valid_expr (v_expr v) = Ok rp.
Proof.
  unfold compile_valid. intro H.
  destruct (Regex.from_valid_expr (v_expr v)) as [rp| | |]; cbn in H; try discriminate.
  exists rp. reflexivity.
Qed.

Theorem compiled_tails builtins g sh v pick fuel c :
  from_grammar builtins g sh = Ok v -> grammar_ops_nonempty g = true ->
  compile_valid pick fuel v = Ok c ->
  forall x, In x (subwords_of (tr (v_expr v))) -> tail_rx x = true.
Proof.
  intros Hv Hg Hc.
  destruct (check_tree builtins g sh v Hv) as (Hdd & Hflat & _ & Halts).
  specialize (Halts (grammar_ops_alts g Hg)).
  destruct (compile_valid_regex pick fuel v c Hc) as [rp Hr].
  exact (regex_ok_tails (v_expr v) rp Hdd Hflat Halts (valid_words_ops builtins g sh v Hv Hg) Hr).
Qed.

Theorem compiled_domain builtins g sh v pick fuel c :
  from_grammar builtins g sh = Ok v -> grammar_ops_nonempty g = true ->
  compile_valid pick fuel v = Ok c ->
  (C01_domain_core (v_expr v) = true <-> C01_domain (v_expr v) = true) /\
  (C01_domain_core (v_expr v) = true -> C01_tail_only (v_expr v) = true).
Proof.
  intros Hv Hg Hc. pose proof (compiled_tails builtins g sh v pick fuel c Hv Hg Hc) as Ht.
  split; [split|].
  - intro H. exact (proj1 (core_domain _ Ht H)).
  - apply domain_core.
  - intro H. exact (proj2 (core_domain _ Ht H)).
Qed.
