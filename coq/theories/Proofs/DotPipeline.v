(** C16 on what the pipeline produces: the two theorems of Props/C16.v applied to every automaton
    [Driver.compile] returns and to every regex [Regex.from_expr] builds from a validated tree. *)
From CG Require Import Base.Prelude Model.Dfa Model.Dot Spec.DotRead Spec.DotSpec.
From CG Require Import Proofs.DotDfaMain Proofs.DotRegex Proofs.DotRegexTotal Proofs.DotPipelineRegex.
From CG Require Model.Ast Model.Parser Model.Check Model.Regex Model.Driver Model.DotOfRegex.
From CG Require Proofs.TreeFacts Proofs.CheckTree Proofs.DriverCorrect Proofs.DotPipelineDfa Proofs.DotFromExpr.
From CG Require Props.C05b.

Theorem compile_valid_dfa_dot pick fuel v c base :
  TreeFacts.alts_nonempty (Check.v_expr v) = true ->
  Driver.compile_valid pick fuel v = Ok c ->
  exists text g, of_dfa base c = Ok text /\ read text = Some g /\ gview_equiv (view g) (graph_of_dfa base c).
Proof.
  intros Ha H. destruct (DotPipelineDfa.compile_valid_dot_wf pick fuel v c Ha H) as [A B].
  exact (dfa_dot_current_min base c A B).
Qed.

Lemma compile_parts pick fuel builtins text sh v c :
  Driver.compile pick fuel builtins text sh = Ok (v, c) ->
  exists g, Parser.parse text = Ok g /\ Check.from_grammar builtins g sh = Ok v
            /\ Driver.compile_valid pick fuel v = Ok c.
Proof.
  unfold Driver.compile. intro H.
  destruct (Parser.parse text) as [g| | |] eqn:Eg; cbn [obind] in H; try discriminate.
  destruct (Check.from_grammar builtins g sh) as [v'| | |] eqn:Ev; cbn [Driver.lift obind] in H; try discriminate.
  destruct (Driver.compile_valid pick fuel v') as [c'| | |] eqn:Ec; cbn [obind] in H; try discriminate.
  injection H as <- <-. now exists g.
Qed.

Theorem pipeline_dfa_dot pick fuel builtins text sh v c base :
  Driver.compile pick fuel builtins text sh = Ok (v, c) ->
  exists out g, of_dfa base c = Ok out /\ read out = Some g /\ gview_equiv (view g) (graph_of_dfa base c).
Proof.
  intro H. destruct (compile_parts _ _ _ _ _ _ _ H) as [g [Hg [Hv Hc]]].
  apply (compile_valid_dfa_dot pick fuel v c base); [|exact Hc].
  destruct (CheckTree.check_tree builtins g sh v Hv) as [_ [_ [_ Halts]]].
  apply Halts. exact (Props.C05b.parse_alts_nonempty text g Hg).
Qed.

Theorem validated_regex_dot builtins g sh v r pl :
  Check.from_grammar builtins g sh = Ok v ->
  Regex.from_expr (Check.v_expr v) [] = Ok (r, pl) ->
  exists out gr, DotOfRegex.regex_to_dot pl r = Ok out /\ read out = Some gr
                 /\ regex_ok gr (spec_pool (DotOfRegex.conv_pool pl)) (spec_items (DotOfRegex.conv_regex r)).
Proof.
  intros Hv Hr. destruct (CheckTree.check_tree builtins g sh v Hv) as [_ [Hflat _]].
  destruct (from_expr_rx_hyps (Check.v_expr v) [] r pl Hflat (Forall_nil _) Hr) as [A B].
  exact (regex_dot_current_total _ _ A B).
Qed.

Theorem pipeline_regex_dot pick fuel builtins text sh v c :
  Driver.compile pick fuel builtins text sh = Ok (v, c) ->
  exists r pl out gr, Regex.from_valid_expr (Check.v_expr v) = Ok (r, pl)
                      /\ DotOfRegex.regex_to_dot pl r = Ok out /\ read out = Some gr
                      /\ regex_ok gr (spec_pool (DotOfRegex.conv_pool pl)) (spec_items (DotOfRegex.conv_regex r)).
Proof.
  intro H. destruct (compile_parts _ _ _ _ _ _ _ H) as [g [Hg [Hv Hc]]].
  unfold Driver.compile_valid in Hc.
  destruct (Regex.from_valid_expr (Check.v_expr v)) as [[r pl]| | |] eqn:E; cbn [Driver.lift obind] in Hc; try discriminate.
  exists r, pl. destruct (validated_regex_dot builtins g sh v r pl Hv (DriverCorrect.from_valid_expr_ok _ _ _ E)) as [out [gr K]].
  exists out, gr. split; [reflexivity|exact K].
Qed.
