(** From "no description of the grammar is empty" to "the literal orders the emitter uses have no
    repeated entry": descriptions of the regex inputs, of the automata, of every automaton of the
    within-word pool. *)
From CG Require Import Base.Prelude Model.Ast Model.Parser Model.Check Model.Dfa Model.Subset Model.Driver Model.Tables Model.Compiler
  Model.Regex.
From CG Require Import Proofs.TablesSound Proofs.FromExpr Proofs.SubCompiled Proofs.DriverCorrect Proofs.C02Total
  Proofs.CompilerTotal Proofs.TreeFacts Proofs.CapstoneCommands Proofs.CapstoneDescr Proofs.CheckProvenance.

Definition rdescr_ok (ri : rinput) : Prop :=
  match ri with RLit _ d _ _ => dgood d | _ => True end.

Definition pool_descr_ok (pl : pool) : Prop := Forall (fun rr => Forall rdescr_ok (r_inputs rr)) pl.

Lemma pool_intern_descr r pl rid pl' :
  pool_intern r pl = (rid, pl') -> Forall rdescr_ok (r_inputs r) -> pool_descr_ok pl -> pool_descr_ok pl'.
Proof.
  unfold pool_intern. destruct (pool_find r pl 0); intro H; inversion H; subst; intros Hr Hp; [exact Hp|].
  apply Forall_snoc; assumption.
Qed.

Lemma do_from_expr_descr e : forall s pl id t s' pl',
  tok e ->
  do_from_expr e s pl = Ok (id, t, s', pl') ->
  Forall rdescr_ok (b_inputs s) -> pool_descr_ok pl ->
  Forall rdescr_ok (b_inputs s') /\ pool_descr_ok pl'.
Proof.
  assert (Hl : forall cs,
             Forall (fun e => forall s pl id t s' pl', tok e ->
                                do_from_expr e s pl = Ok (id, t, s', pl') ->
                                Forall rdescr_ok (b_inputs s) -> pool_descr_ok pl ->
                                Forall rdescr_ok (b_inputs s') /\ pool_descr_ok pl') cs ->
             forall s pl ids ts s' pl', Forall tok cs ->
               do_children do_from_expr cs s pl = Ok (ids, ts, s', pl') ->
               Forall rdescr_ok (b_inputs s) -> pool_descr_ok pl ->
               Forall rdescr_ok (b_inputs s') /\ pool_descr_ok pl').
  { induction 1 as [|x r Hx _ IH]; intros s pl ids ts s' pl' Hi H Hs Hp; cbn [do_children] in H.
    - inversion H; subst. auto.
    - destruct (do_from_expr x s pl) as [[[[id1 t1] s1] pl1]| | |] eqn:E1; cbn [obind] in H; try discriminate.
      destruct (do_children do_from_expr r s1 pl1) as [[[[ids2 ts2] s2] pl2]| | |] eqn:E2; cbn [obind] in H; try discriminate.
      inversion H; subst. inversion Hi as [|? ? Hi1 Hi2]; subst.
      destruct (Hx s pl id1 t1 s1 pl1 Hi1 E1 Hs Hp) as [Hs1 Hp1].
      exact (IH s1 pl1 ids2 ts2 s' pl' Hi2 E2 Hs1 Hp1). }
  induction e using expr_ind'; intros s pl id t0 s' pl' Hi HD Hs Hp; cbn [do_from_expr] in HD.
  - inversion HD; subst. cbn [alloc push_input b_inputs]. split; [|exact Hp].
    apply Forall_snoc; [exact Hs|]. cbn. apply Hi. left. reflexivity.
  - inversion HD; subst. cbn [alloc push_input b_inputs]. split; [apply Forall_snoc; [exact Hs|exact I]|exact Hp].
  - inversion HD; subst. cbn [alloc push_input b_inputs]. split; [apply Forall_snoc; [exact Hs|exact I]|exact Hp].
  - destruct (do_children do_from_expr cs s pl) as [[[[ids ts] s1] pl1]| | |] eqn:E; cbn [obind] in HD; try discriminate.
    inversion HD; subst. cbn [alloc b_inputs]. unfold tok in Hi. cbn [tdescrs] in Hi.
    exact (Hl cs H s pl ids ts s1 pl' (proj1 (tok_list cs) Hi) E Hs Hp).
  - destruct (do_children do_from_expr cs s pl) as [[[[ids ts] s1] pl1]| | |] eqn:E; cbn [obind] in HD; try discriminate.
    inversion HD; subst. cbn [alloc b_inputs]. unfold tok in Hi. cbn [tdescrs] in Hi.
    exact (Hl cs H s pl ids ts s1 pl' (proj1 (tok_list cs) Hi) E Hs Hp).
  - destruct (do_from_expr e s pl) as [[[[cid ct] s1] pl1]| | |] eqn:E; cbn [obind] in HD; try discriminate.
    inversion HD; subst. cbn [alloc b_inputs]. exact (IHe s pl cid ct s1 pl' Hi E Hs Hp).
  - destruct (do_from_expr e s pl) as [[[[cid ct] s1] pl1]| | |] eqn:E; cbn [obind] in HD; try discriminate.
    inversion HD; subst. cbn [alloc b_inputs]. exact (IHe s pl cid ct s1 pl' Hi E Hs Hp).
  - discriminate.
  - destruct (do_children do_from_expr cs s pl) as [[[[ids ts] s1] pl1]| | |] eqn:E; cbn [obind] in HD; try discriminate.
    inversion HD; subst. cbn [alloc b_inputs]. unfold tok in Hi. cbn [tdescrs] in Hi.
    exact (Hl cs H s pl ids ts s1 pl' (proj1 (tok_list cs) Hi) E Hs Hp).
  - destruct (do_from_expr e empty_bst pl) as [[[[cid ct] cs] pl1]| | |] eqn:E; cbn [obind] in HD; try discriminate.
    destruct (pool_intern (finish_regex cid ct cs) pl1) as [rid pl2] eqn:Ei.
    inversion HD; subst. cbn [alloc push_input b_inputs].
    destruct (IHe empty_bst pl cid ct cs pl1 Hi E (Forall_nil _) Hp) as [Hcs Hp1].
    split; [apply Forall_snoc; [exact Hs|exact I]|].
    eapply pool_intern_descr; [exact Ei|rewrite finish_regex_inputs; exact Hcs|exact Hp1].
Qed.

Lemma from_expr_descr e r pl :
  tok e -> from_expr e [] = Ok (r, pl) -> Forall rdescr_ok (r_inputs r) /\ pool_descr_ok pl.
Proof.
  unfold from_expr. intros Ht H.
  destruct (do_from_expr e empty_bst []) as [[[[id t] s] pl1]| | |] eqn:E; cbn [obind] in H; try discriminate.
  inversion H; subst. rewrite finish_regex_inputs.
  exact (do_from_expr_descr e empty_bst [] id t s pl Ht E (Forall_nil _) (Forall_nil _)).
Qed.

Lemma dfa_no_empty_descr pick fuel submap r d states :
  dfa_from_regex pick fuel submap r = Ok (d, states) -> Forall rdescr_ok (r_inputs r) -> no_empty_descr d.
Proof.
  intros Hd Hr t l Hin.
  destruct (dfa_from_regex_input_origin _ _ _ _ _ _ _ Hd Hin) as [ri [Hri Hfi]].
  rewrite Forall_forall in Hr. specialize (Hr ri Hri).
  destruct ri as [t0 d0 l0 sp|n0 l0 sp|c0 z0 l0 sp|rid l0 sp]; cbn [from_input] in Hfi.
  - inversion Hfi; subst. apply Hr. reflexivity.
  - discriminate.
  - destruct z0; discriminate.
  - destruct (assocN rid submap); discriminate.
Qed.

(** every automaton of the pool is the minimised automaton of a pool regex *)
Lemma intern_dfa_in d : forall subs i k subs' x, intern_dfa d subs i = (k, subs') -> In x subs' -> In x subs \/ x = d.
Proof.
  induction subs as [|y r IH]; intros i k subs' x H Hx; cbn [intern_dfa] in H.
  - inversion H; subst. destruct Hx as [<-|[]]. auto.
  - destruct (DfaEqb.dfa_eqb y d).
    + inversion H; subst. auto.
    + destruct (intern_dfa d r (N.succ i)) as [k' r'] eqn:Ei. inversion H; subst.
      destruct Hx as [<-|Hx]; [left; left; reflexivity|].
      destruct (IH _ _ _ _ Ei Hx) as [H1|H1]; [left; right; exact H1|right; exact H1].
Qed.

Lemma compile_subs_all pick fuel pl : forall inputs cache subs cache' subs',
  (forall sd, In sd subs -> exists rid, sub_compiled pick fuel pl rid sd) ->
  compile_subs pick fuel inputs pl cache subs = Ok (cache', subs') ->
  forall sd, In sd subs' -> exists rid, sub_compiled pick fuel pl rid sd.
Proof.
  induction inputs as [|x inputs IH]; intros cache subs cache' subs' Hs H; cbn [compile_subs] in H.
  - inversion H; subst. exact Hs.
  - destruct x as [t d l sp|n l sp|c z l sp|rid l sp]; try (eapply IH; eauto; fail).
    destruct (assocN rid cache); [eapply IH; eauto|].
    destruct (nthN pl rid) as [r|] eqn:En; [|discriminate].
    destruct (compile_sub pick fuel r) as [d| | |] eqn:Ed; cbn [obind] in H; try discriminate.
    destruct (intern_dfa d subs 0) as [k subs1] eqn:Ei.
    eapply IH; [|exact H]. intros sd Hsd. destruct (intern_dfa_in d subs 0 k subs1 sd Ei Hsd) as [H1|H1]; [auto|subst sd].
    exists rid. destruct (compile_sub_ok pick fuel r d Ed) as [raw [st [A B]]]. exists r, raw, st. auto.
Qed.

(** the automata of a compiled grammar have no literal with the empty description *)
Theorem compiled_no_empty_descr pick fuel v c :
  compile_valid pick fuel v = Ok c -> tok (v_expr v) ->
  no_empty_descr (c_main c) /\ (forall sd, In sd (c_subs c) -> no_empty_descr sd).
Proof.
  intros H Ht.
  unfold compile_valid in H.
  destruct (from_valid_expr (v_expr v)) as [[r pl] | | |] eqn:E; simpl in H; try discriminate.
  apply from_valid_expr_ok in E.
  destruct (compile_subs pick fuel (r_inputs r) pl [] []) as [[submap subs] | | |] eqn:Es; simpl in H; try discriminate.
  destruct (dfa_from_regex pick fuel submap r) as [[raw st] | | |] eqn:Ed; simpl in H; try discriminate.
  destruct (Minimize.minimize raw) as [m | | |] eqn:Em; simpl in H; try discriminate.
  destruct (Ambiguity.check_ambiguity_best_effort m) as [[] | | |]; simpl in H; try discriminate.
  inversion H; subst c.
  destruct (from_expr_descr _ _ _ Ht E) as [Hr Hp]. split.
  - cbn [c_main].
    intros t l Hin. rewrite (minimize_inputs raw m Em) in Hin. exact (dfa_no_empty_descr _ _ _ _ _ _ Ed Hr t l Hin).
  - intros sd Hsd. cbn [c_subs] in Hsd.
    destruct (compile_subs_all pick fuel pl _ _ _ _ _ (fun sd0 (F : In sd0 []) => match F with end) Es sd Hsd)
      as [rid [rr [raw' [st' [Hn [Hd' Hmin]]]]]].
    intros t l Hin. rewrite (minimize_inputs raw' sd Hmin) in Hin.
    refine (dfa_no_empty_descr _ _ _ _ _ _ Hd' _ t l Hin).
    unfold pool_descr_ok in Hp. rewrite Forall_forall in Hp. apply Hp. unfold nthN in Hn. eapply nth_error_In. exact Hn.
Qed.

(** hence every literal order [orders_ok] accepts is duplicate-free *)
Theorem compiled_orders_nodup pick fuel v c om os :
  compile_valid pick fuel v = Ok c -> tok (v_expr v) ->
  orders_ok c om os = true ->
  NoDup om /\ (forall pi o, assocN pi os = Some o -> NoDup o).
Proof.
  intros H Ht Ho. destruct (compiled_no_empty_descr pick fuel v c H Ht) as [Hm Hs]. split.
  - exact (valid_order_NoDup _ om (orders_ok_main _ _ _ Ho) Hm).
  - intros pi o Ha. apply assocN_in in Ha.
    unfold orders_ok in Ho. apply andb_prop in Ho. destruct Ho as [Ho _].
    unfold valid_orders in Ho. apply andb_prop in Ho. destruct Ho as [_ Ho].
    rewrite forallb_forall in Ho. specialize (Ho (pi, o) Ha). cbn [fst snd] in Ho.
    destruct (nthN (c_subs c) pi) as [sd|] eqn:En; [|discriminate].
    apply (valid_order_NoDup sd o Ho). apply Hs. unfold nthN in En. eapply nth_error_In. exact En.
Qed.

(** ** decidable on the grammar text: no description string is empty *)
Definition dgoodb (d : option string) : bool :=
  match d with Some EmptyString => false | _ => true end.
Definition grammar_descr_okb (g : grammar) : bool :=
  forallb (fun s => forallb dgoodb (tdescrs (stmt_expr s))
                    && forallb (fun x => negb (String.eqb x EmptyString)) (ddescrs (stmt_expr s))) g.
Definition text_descr_ok (text : string) : bool :=
  match Parser.parse text with Ok g => grammar_descr_okb g | _ => false end.

Lemma grammar_descr_okb_sound g : grammar_descr_okb g = true -> grammar_descr_ok g.
Proof.
  unfold grammar_descr_okb. intros H s Hs. rewrite forallb_forall in H. specialize (H s Hs).
  apply andb_prop in H. destruct H as [H1 H2]. rewrite forallb_forall in H1, H2. split.
  - intros x Hx. specialize (H1 x Hx). unfold dgood. intros ->. discriminate.
  - intros x Hx. specialize (H2 x Hx). intros ->. discriminate.
Qed.

Lemma text_descr_ok_sound text g : Parser.parse text = Ok g -> text_descr_ok text = true -> grammar_descr_ok g.
Proof. unfold text_descr_ok. intros ->. apply grammar_descr_okb_sound. Qed.
