(** C16 on what the pipeline produces, --regex side, part 1: the arena [Regex.from_expr] builds.
    [do_from_expr] allocates bottom-up, so the children of a node have smaller indices; a leaf is
    allocated right after its input is pushed, so its position holds an input of its kind; the
    regex of a within-word expression is interned before its [NSub] node is allocated; every
    position pushed below a node has its leaf reachable from that node through [NCat]/[NOr] nodes
    ([Many1 c] = [NCat [c; NStar c]] reaches [c] directly).  Stated on [Model/Regex.v]'s types; part 2
    ([DotPipelineRegex.v]) carries it to the view [Model/DotOfRegex.v]. *)
From CG Require Import Base.Prelude Model.Ast Model.Regex.
From CG Require Import Proofs.SubsetConstr Proofs.FromExpr Proofs.TreeFacts.

(** ** List facts *)
Lemma nthN_snoc_inv {A} (l : list A) x m y :
  nthN (l ++ [x]) m = Some y -> (m < lenN l /\ nthN l m = Some y) \/ (m = lenN l /\ y = x).
Proof.
  unfold nthN, lenN. intro H. destruct (Nat.lt_ge_cases (N.to_nat m) (List.length l)) as [Hlt|Hge].
  - left. rewrite nth_error_app1 in H by exact Hlt. split; [lia|exact H].
  - right. rewrite nth_error_app2 in H by exact Hge.
    destruct (N.to_nat m - List.length l)%nat as [|k] eqn:E.
    + cbn in H. injection H as <-. split; [lia|reflexivity].
    + cbn in H. destruct k; discriminate.
Qed.

Lemma nthN_some_lt {A} (l : list A) m y : nthN l m = Some y -> m < lenN l.
Proof. unfold nthN, lenN. intro H. assert (nth_error l (N.to_nat m) <> None) by congruence. apply nth_error_Some in H0. lia. Qed.

Lemma prefix_nthN_lt {A} (l l' : list A) m : prefix l l' -> m < lenN l -> nthN l' m = nthN l m.
Proof. intros [k ->] H. unfold nthN, lenN in *. apply nth_error_app1. lia. Qed.

Lemma nthN_snoc_last {A} (l : list A) x : nthN (l ++ [x]) (lenN l) = Some x.
Proof. unfold lenN. apply nthN_app_mid. Qed.

(** ** What is kept true *)
Definition nd_ok (I : list rinput) (P : pool) (m : N) (x : rnode) : Prop :=
  match x with
  | NEps | NEnd _ | NStar _ => True
  | NCat l | NOr l => forall c, In c l -> c < m
  | NTerm p => exists t d l sp, nthN I p = Some (RLit t d l sp)
  | NNonterm p => exists n l sp, nthN I p = Some (RNonterm n l sp)
  | NCmd p => exists c z l sp, nthN I p = Some (RCmd c z l sp)
  | NSub p => exists rid l sp, nthN I p = Some (RSub rid l sp) /\ exists sr, nthN P rid = Some sr
  end.

Lemma nd_ok_mono I I' P P' m x : prefix I I' -> prefix P P' -> nd_ok I P m x -> nd_ok I' P' m x.
Proof.
  intros HI HP. destruct x; cbn [nd_ok]; auto.
  - intros [t [d [l [sp H]]]]. exists t, d, l, sp. eapply prefix_nthN; eauto.
  - intros [n [l [sp H]]]. exists n, l, sp. eapply prefix_nthN; eauto.
  - intros [c [z [l [sp H]]]]. exists c, z, l, sp. eapply prefix_nthN; eauto.
  - intros [rid [l [sp [H [sr Hs]]]]]. exists rid, l, sp. split; [eapply prefix_nthN; eauto|].
    exists sr. eapply prefix_nthN; eauto.
Qed.

Lemma nd_ok_nosub I P m x : nd_ok I P m x -> (forall p, x <> NSub p) -> nd_ok I [] m x.
Proof. destruct x; cbn [nd_ok]; auto. intros _ H. now elim (H p). Qed.

Inductive reach (A : list rnode) : N -> N -> Prop :=
| rc_here n : reach A n n
| rc_cat n l c m : nthN A n = Some (NCat l) -> In c l -> reach A c m -> reach A n m
| rc_or n l c m : nthN A n = Some (NOr l) -> In c l -> reach A c m -> reach A n m.

Lemma reach_mono A A' n m : prefix A A' -> reach A n m -> reach A' n m.
Proof.
  intros HP H. induction H as [n|n l c m E Hc _ IH|n l c m E Hc _ IH].
  - constructor.
  - eapply rc_cat; [eapply prefix_nthN; eauto|exact Hc|exact IH].
  - eapply rc_or; [eapply prefix_nthN; eauto|exact Hc|exact IH].
Qed.

Definition leaf_of (inp : rinput) (p : N) : rnode :=
  match inp with
  | RLit _ _ _ _ => NTerm p
  | RNonterm _ _ _ => NNonterm p
  | RCmd _ _ _ _ => NCmd p
  | RSub _ _ _ => NSub p
  end.

(** the new nodes are fine *)
Definition new_ok (s s' : bst) (P : pool) : Prop :=
  forall m x, lenN (b_nodes s) <= m -> nthN (b_nodes s') m = Some x -> nd_ok (b_inputs s') P m x.
(** the new positions have their leaves below one of [ids] *)
Definition covered (s s' : bst) (ids : list N) : Prop :=
  forall p inp, lenN (b_inputs s) <= p -> nthN (b_inputs s') p = Some inp ->
    exists id m, In id ids /\ reach (b_nodes s') id m /\ nthN (b_nodes s') m = Some (leaf_of inp p).
Definition nosub_new (s s' : bst) : Prop :=
  forall m x, lenN (b_nodes s) <= m -> nthN (b_nodes s') m = Some x -> forall p, x <> NSub p.

(** a regex whose arena is well built and covered, relative to a pool *)
Definition rgood (P : pool) (r : regex) : Prop :=
  r_root r < lenN (r_arena r)
  /\ (forall m x, nthN (r_arena r) m = Some x -> nd_ok (r_inputs r) P m x)
  /\ (forall p inp, nthN (r_inputs r) p = Some inp ->
        exists m, reach (r_arena r) (r_root r) m /\ nthN (r_arena r) m = Some (leaf_of inp p)).
(** a pooled regex: well built without reference to any pool, hence without within-word node *)
Definition sgood (r : regex) : Prop := rgood [] r.

Definition ext (s s' : bst) (pl pl' : pool) : Prop :=
  prefix (b_nodes s) (b_nodes s') /\ prefix (b_inputs s) (b_inputs s') /\ prefix pl pl'.

Lemma ext_refl s pl : ext s s pl pl.
Proof. repeat split; apply prefix_refl. Qed.

Lemma ext_trans s s1 s2 pl pl1 pl2 : ext s s1 pl pl1 -> ext s1 s2 pl1 pl2 -> ext s s2 pl pl2.
Proof. intros [A [B C]] [A' [B' C']]. repeat split; eapply prefix_trans; eauto. Qed.

Lemma new_ok_trans s s1 s2 pl pl1 pl2 :
  ext s s1 pl pl1 -> ext s1 s2 pl1 pl2 -> new_ok s s1 pl1 -> new_ok s1 s2 pl2 -> new_ok s s2 pl2.
Proof.
  intros [A [B C]] [A' [B' C']] H1 H2 m x Hm E.
  destruct (N.lt_ge_cases m (lenN (b_nodes s1))) as [Hlt|Hge].
  - rewrite (prefix_nthN_lt _ _ _ A' Hlt) in E. eapply nd_ok_mono; [exact B'|exact C'|]. now apply H1.
  - now apply H2.
Qed.

Lemma nosub_trans s s1 s2 : prefix (b_nodes s1) (b_nodes s2) -> nosub_new s s1 -> nosub_new s1 s2 -> nosub_new s s2.
Proof.
  intros A' H1 H2 m x Hm E. destruct (N.lt_ge_cases m (lenN (b_nodes s1))) as [Hlt|Hge].
  - rewrite (prefix_nthN_lt _ _ _ A' Hlt) in E. now apply (H1 m x).
  - now apply (H2 m x).
Qed.

Lemma covered_trans s s1 s2 ids1 ids2 :
  prefix (b_nodes s1) (b_nodes s2) -> prefix (b_inputs s1) (b_inputs s2) ->
  covered s s1 ids1 -> covered s1 s2 ids2 -> covered s s2 (ids1 ++ ids2).
Proof.
  intros A' B' H1 H2 p inp Hp E. destruct (N.lt_ge_cases p (lenN (b_inputs s1))) as [Hlt|Hge].
  - rewrite (prefix_nthN_lt _ _ _ B' Hlt) in E. destruct (H1 p inp Hp E) as [id [m [Hi [Hr Hn]]]].
    exists id, m. split; [apply in_or_app; now left|]. split; [eapply reach_mono; eauto|eapply prefix_nthN; eauto].
  - destruct (H2 p inp Hge E) as [id [m [Hi [Hr Hn]]]]. exists id, m. split; [apply in_or_app; now right|]. now split.
Qed.

(** allocating one node on top *)
Lemma alloc_spec n s id s' : alloc n s = (id, s') ->
  id = lenN (b_nodes s) /\ b_nodes s' = b_nodes s ++ [n] /\ b_inputs s' = b_inputs s.
Proof. unfold alloc. intro H. injection H as <- <-. auto. Qed.

Lemma alloc_new_ok s0 s n P :
  new_ok s0 s P -> nd_ok (b_inputs s) P (lenN (b_nodes s)) n ->
  new_ok s0 (mkbst (b_nodes s ++ [n]) (b_inputs s)) P.
Proof.
  intros H Hn m x Hm E. cbn [b_nodes b_inputs] in *. apply nthN_snoc_inv in E as [[Hlt E]|[-> ->]].
  - now apply H.
  - exact Hn.
Qed.

Lemma alloc_nosub s0 s n : nosub_new s0 s -> (forall p, n <> NSub p) -> nosub_new s0 (mkbst (b_nodes s ++ [n]) (b_inputs s)).
Proof.
  intros H Hn m x Hm E. cbn [b_nodes] in *. apply nthN_snoc_inv in E as [[Hlt E]|[-> ->]]; [now apply (H m x)|exact Hn].
Qed.

(** a parent over [ids] covers what they cover *)
Lemma covered_parent s0 s ids n :
  (n = NCat ids \/ n = NOr ids) -> covered s0 s ids ->
  covered s0 (mkbst (b_nodes s ++ [n]) (b_inputs s)) [lenN (b_nodes s)].
Proof.
  intros Hn H p inp Hp E. cbn [b_nodes b_inputs] in *. destruct (H p inp Hp E) as [id [m [Hi [Hr Hm]]]].
  exists (lenN (b_nodes s)), m. split; [now left|]. split.
  - destruct Hn as [->| ->]; [eapply rc_cat|eapply rc_or]; try apply nthN_snoc_last; try exact Hi;
      (eapply reach_mono; [apply prefix_snoc|exact Hr]).
  - eapply prefix_nthN; [apply prefix_snoc|exact Hm].
Qed.

(** ** The invariant of [do_from_expr] *)
Definition ids_in (s s' : bst) (ids : list N) : Prop :=
  forall id, In id ids -> lenN (b_nodes s) <= id < lenN (b_nodes s').

Definition inv (e : expr) : Prop :=
  forall s pl id t s' pl', do_from_expr e s pl = Ok (id, t, s', pl') ->
    ext s s' pl pl' /\ ids_in s s' [id] /\ new_ok s s' pl' /\ covered s s' [id]
    /\ (subword_free e = true -> nosub_new s s')
    /\ (flat_subwords e = true -> Forall sgood pl -> Forall sgood pl').

Definition inv_children (cs : list expr) : Prop :=
  forall s pl ids ts s' pl', do_children do_from_expr cs s pl = Ok (ids, ts, s', pl') ->
    ext s s' pl pl' /\ ids_in s s' ids /\ new_ok s s' pl' /\ covered s s' ids
    /\ (forallb subword_free cs = true -> nosub_new s s')
    /\ (forallb flat_subwords cs = true -> Forall sgood pl -> Forall sgood pl').

Lemma children_inv cs : Forall inv cs -> inv_children cs.
Proof.
  induction 1 as [|c cs Hc _ IH]; intros s pl ids ts s' pl' E; cbn [do_children] in E.
  - injection E as <- <- <- <-. split; [apply ext_refl|]. split; [intros ? []|]. split.
    + intros m x Hm Ex. apply nthN_some_lt in Ex. lia.
    + split; [intros p inp Hp Ex; apply nthN_some_lt in Ex; lia|]. split; [|auto].
      intros _ m x Hm Ex. apply nthN_some_lt in Ex. lia.
  - destruct (do_from_expr c s pl) as [[[[id t] s1] pl1]| | |] eqn:E1; cbn [obind] in E; try discriminate.
    destruct (do_children do_from_expr cs s1 pl1) as [[[[ids2 ts2] s2] pl2]| | |] eqn:E2; cbn [obind] in E; try discriminate.
    injection E as <- <- <- <-.
    destruct (Hc _ _ _ _ _ _ E1) as [X1 [I1 [N1 [C1 [S1 P1]]]]].
    destruct (IH _ _ _ _ _ _ E2) as [X2 [I2 [N2 [C2 [S2 P2]]]]].
    pose proof X1 as [A1 [B1 D1]]. pose proof X2 as [A2 [B2 D2]].
    pose proof (prefix_lenN _ _ A1) as L1. pose proof (prefix_lenN _ _ A2) as L2.
    split; [eapply ext_trans; eauto|]. split; [|split; [|split; [|split]]].
    + intros i [<-|Hi]; [specialize (I1 id (or_introl eq_refl)); lia|specialize (I2 i Hi); lia].
    + eapply new_ok_trans; eauto.
    + exact (covered_trans s s1 s2 [id] ids2 A2 B2 C1 C2).
    + cbn [forallb]. intro Hf. apply andb_true_iff in Hf as [F1 F2]. eapply nosub_trans; eauto.
    + cbn [forallb]. intros Hf Hp. apply andb_true_iff in Hf as [F1 F2]. auto.
Qed.

(** a leaf: one input pushed, one node allocated *)
Lemma leaf_inv s pl inp :
  (forall rid l sp, inp <> RSub rid l sp) ->
  let s' := mkbst (b_nodes s ++ [leaf_of inp (lenN (b_inputs s))]) (b_inputs s ++ [inp]) in
  ext s s' pl pl /\ ids_in s s' [lenN (b_nodes s)] /\ new_ok s s' pl /\ covered s s' [lenN (b_nodes s)] /\ nosub_new s s'.
Proof.
  intros Hns s'. unfold s'. split; [repeat split; try apply prefix_snoc; apply prefix_refl|]. split; [|split; [|split]].
  - intros i [<-|[]]. cbn [b_nodes]. rewrite lenN_snoc. lia.
  - intros m x Hm E. cbn [b_nodes b_inputs] in *. apply nthN_snoc_inv in E as [[Hlt _]|[-> ->]]; [lia|].
    destruct inp; cbn [leaf_of nd_ok]; try (repeat eexists; apply nthN_snoc_last). now elim (Hns rid l sp).
  - intros p i Hp E. cbn [b_nodes b_inputs] in *. apply nthN_snoc_inv in E as [[Hlt _]|[-> ->]]; [lia|].
    exists (lenN (b_nodes s)), (lenN (b_nodes s)). split; [now left|]. split; [constructor|apply nthN_snoc_last].
  - intros m x Hm E. cbn [b_nodes] in E. apply nthN_snoc_inv in E as [[Hlt _]|[_ ->]]; [lia|].
    intros p. destruct inp; cbn [leaf_of]; try discriminate. now elim (Hns rid l sp).
Qed.

Lemma subword_free_flat e : subword_free e = true -> flat_subwords e = true.
Proof.
  induction e using expr_ind'; cbn [subword_free flat_subwords]; auto; try discriminate.
  all: intro Hf; apply forallb_forall; intros x Hx; rewrite forallb_forall in Hf; rewrite Forall_forall in H; auto.
Qed.

(** finishing a regex: end marker and root on top *)
Lemma finish_rgood id t s0 P :
  ext empty_bst s0 [] [] \/ True ->
  ids_in empty_bst s0 [id] -> new_ok empty_bst s0 P -> covered empty_bst s0 [id] ->
  rgood P (finish_regex id t s0).
Proof.
  intros _ Hid Hn Hc. unfold finish_regex, alloc. cbn [b_nodes b_inputs].
  set (A1 := b_nodes s0 ++ [NEnd (lenN (b_inputs s0))]).
  assert (Hl1 : lenN A1 = N.succ (lenN (b_nodes s0))) by apply lenN_snoc.
  unfold rgood. cbn [r_root r_arena r_inputs]. split; [rewrite lenN_snoc; lia|]. split.
  - intros m x E. apply nthN_snoc_inv in E as [[Hlt E]|[-> ->]].
    + unfold A1 in E. apply nthN_snoc_inv in E as [[Hlt' E]|[-> ->]]; [|exact I].
      apply (Hn m x); [cbn; lia|exact E].
    + cbn [nd_ok]. specialize (Hid id (or_introl eq_refl)). cbn in Hid.
      intros c [<-|[<-|[]]]; rewrite Hl1; lia.
  - intros p inp E. destruct (Hc p inp) as [i [m [Hi [Hr Hm]]]]; [cbn; lia|exact E|].
    destruct Hi as [<-|[]]. exists m.
    assert (HP : prefix (b_nodes s0) (A1 ++ [NCat [id; lenN (b_nodes s0)]])).
    { eapply prefix_trans; [apply prefix_snoc|apply prefix_snoc]. }
    split; [|eapply prefix_nthN; eauto].
    eapply rc_cat; [apply nthN_snoc_last|now left|]. eapply reach_mono; eauto.
Qed.

Theorem do_from_expr_inv : forall e, inv e.
Proof.
  induction e as [t d l sp|n l sp|c z l sp|cs sp IH|cs sp IH|c sp IH|c sp IH|c d sp IH|cs sp IH|c l sp IH] using expr_ind';
    intros s pl id tr s' pl' E; cbn [do_from_expr] in E.
  - (* Terminal *)
    unfold push_input, alloc in E. cbn [b_nodes b_inputs] in E. injection E as <- <- <- <-.
    destruct (leaf_inv s pl (RLit t d l sp)) as [A [B [C [D F]]]]; [intros; discriminate|].
    split; [exact A|]. split; [exact B|]. split; [exact C|]. split; [exact D|]. split; [intros _; exact F|auto].
  - unfold push_input, alloc in E. cbn [b_nodes b_inputs] in E. injection E as <- <- <- <-.
    destruct (leaf_inv s pl (RNonterm n l sp)) as [A [B [C [D F]]]]; [intros; discriminate|].
    split; [exact A|]. split; [exact B|]. split; [exact C|]. split; [exact D|]. split; [intros _; exact F|auto].
  - unfold push_input, alloc in E. cbn [b_nodes b_inputs] in E. injection E as <- <- <- <-.
    destruct (leaf_inv s pl (RCmd c z l sp)) as [A [B [C [D F]]]]; [intros; discriminate|].
    split; [exact A|]. split; [exact B|]. split; [exact C|]. split; [exact D|]. split; [intros _; exact F|auto].
  - (* Sequence *)
    destruct (do_children do_from_expr cs s pl) as [[[[ids ts] s1] pl1]| | |] eqn:E1; cbn [obind] in E; try discriminate.
    unfold alloc in E. injection E as <- <- <- <-.
    destruct (children_inv cs IH _ _ _ _ _ _ E1) as [[A [B D]] [I1 [N1 [C1 [S1 P1]]]]].
    split; [repeat split; auto; eapply prefix_trans; [exact A|apply prefix_snoc]|]. split; [|split; [|split; [|split]]].
    + intros i [<-|[]]. cbn [b_nodes]. rewrite lenN_snoc. pose proof (prefix_lenN _ _ A). lia.
    + apply alloc_new_ok; [exact N1|]. cbn [nd_ok]. intros c Hc. apply (I1 c Hc).
    + apply (covered_parent s s1 ids); auto.
    + cbn [subword_free]. intro Hf. apply alloc_nosub; [auto|discriminate].
    + cbn [flat_subwords]. auto.
  - (* Alternative *)
    destruct (do_children do_from_expr cs s pl) as [[[[ids ts] s1] pl1]| | |] eqn:E1; cbn [obind] in E; try discriminate.
    unfold alloc in E. injection E as <- <- <- <-.
    destruct (children_inv cs IH _ _ _ _ _ _ E1) as [[A [B D]] [I1 [N1 [C1 [S1 P1]]]]].
    split; [repeat split; auto; eapply prefix_trans; [exact A|apply prefix_snoc]|]. split; [|split; [|split; [|split]]].
    + intros i [<-|[]]. cbn [b_nodes]. rewrite lenN_snoc. pose proof (prefix_lenN _ _ A). lia.
    + apply alloc_new_ok; [exact N1|]. cbn [nd_ok]. intros c Hc. apply (I1 c Hc).
    + apply (covered_parent s s1 ids); auto.
    + cbn [subword_free]. intro Hf. apply alloc_nosub; [auto|discriminate].
    + cbn [flat_subwords]. auto.
  - (* Optional: NOr [c; eps] *)
    destruct (do_from_expr c s pl) as [[[[cid ct] s1] pl1]| | |] eqn:E1; cbn [obind] in E; try discriminate.
    unfold alloc in E. cbn [b_nodes b_inputs] in E. injection E as <- <- <- <-.
    destruct (IH _ _ _ _ _ _ E1) as [[A [B D]] [I1 [N1 [C1 [S1 P1]]]]].
    set (s2 := mkbst (b_nodes s1 ++ [NEps]) (b_inputs s1)).
    assert (L2 : lenN (b_nodes s2) = N.succ (lenN (b_nodes s1))) by apply lenN_snoc.
    pose proof (prefix_lenN _ _ A) as LA. specialize (I1 cid (or_introl eq_refl)).
    split; [repeat split; auto; eapply prefix_trans; [exact A|]; eapply prefix_trans; apply prefix_snoc|].
    split; [|split; [|split; [|split]]].
    + intros i [<-|[]]. cbn [b_nodes]. rewrite !lenN_snoc. lia.
    + change (new_ok s (mkbst (b_nodes s2 ++ [NOr [cid; lenN (b_nodes s1)]]) (b_inputs s2)) pl1).
      apply alloc_new_ok; [apply alloc_new_ok; [exact N1|exact I]|].
      cbn [nd_ok]. intros x [<-|[<-|[]]]; lia.
    + change (covered s (mkbst (b_nodes s2 ++ [NOr [cid; lenN (b_nodes s1)]]) (b_inputs s2)) [lenN (b_nodes s2)]).
      apply (covered_parent s s2 [cid; lenN (b_nodes s1)]); [now right|].
      intros p inp Hp Ex. destruct (C1 p inp Hp Ex) as [i [m [Hi [Hr Hm]]]]. destruct Hi as [<-|[]].
      exists cid, m. split; [now left|]. split; [eapply reach_mono; [apply prefix_snoc|exact Hr]|eapply prefix_nthN; [apply prefix_snoc|exact Hm]].
    + cbn [subword_free]. intro Hf.
      change (nosub_new s (mkbst (b_nodes s2 ++ [NOr [cid; lenN (b_nodes s1)]]) (b_inputs s2))).
      apply alloc_nosub; [apply alloc_nosub; [auto|discriminate]|discriminate].
    + cbn [flat_subwords]. auto.
  - (* Many1: NCat [c; NStar c] *)
    destruct (do_from_expr c s pl) as [[[[cid ct] s1] pl1]| | |] eqn:E1; cbn [obind] in E; try discriminate.
    unfold alloc in E. cbn [b_nodes b_inputs] in E. injection E as <- <- <- <-.
    destruct (IH _ _ _ _ _ _ E1) as [[A [B D]] [I1 [N1 [C1 [S1 P1]]]]].
    set (s2 := mkbst (b_nodes s1 ++ [NStar cid]) (b_inputs s1)).
    assert (L2 : lenN (b_nodes s2) = N.succ (lenN (b_nodes s1))) by apply lenN_snoc.
    pose proof (prefix_lenN _ _ A) as LA. specialize (I1 cid (or_introl eq_refl)).
    split; [repeat split; auto; eapply prefix_trans; [exact A|]; eapply prefix_trans; apply prefix_snoc|].
    split; [|split; [|split; [|split]]].
    + intros i [<-|[]]. cbn [b_nodes]. rewrite !lenN_snoc. lia.
    + change (new_ok s (mkbst (b_nodes s2 ++ [NCat [cid; lenN (b_nodes s1)]]) (b_inputs s2)) pl1).
      apply alloc_new_ok; [apply alloc_new_ok; [exact N1|exact I]|].
      cbn [nd_ok]. intros x [<-|[<-|[]]]; lia.
    + change (covered s (mkbst (b_nodes s2 ++ [NCat [cid; lenN (b_nodes s1)]]) (b_inputs s2)) [lenN (b_nodes s2)]).
      apply (covered_parent s s2 [cid; lenN (b_nodes s1)]); [now left|].
      intros p inp Hp Ex. destruct (C1 p inp Hp Ex) as [i [m [Hi [Hr Hm]]]]. destruct Hi as [<-|[]].
      exists cid, m. split; [now left|]. split; [eapply reach_mono; [apply prefix_snoc|exact Hr]|eapply prefix_nthN; [apply prefix_snoc|exact Hm]].
    + cbn [subword_free]. intro Hf.
      change (nosub_new s (mkbst (b_nodes s2 ++ [NCat [cid; lenN (b_nodes s1)]]) (b_inputs s2))).
      apply alloc_nosub; [apply alloc_nosub; [auto|discriminate]|discriminate].
    + cbn [flat_subwords]. auto.
  - discriminate.
  - (* Fallback *)
    destruct (do_children do_from_expr cs s pl) as [[[[ids ts] s1] pl1]| | |] eqn:E1; cbn [obind] in E; try discriminate.
    unfold alloc in E. injection E as <- <- <- <-.
    destruct (children_inv cs IH _ _ _ _ _ _ E1) as [[A [B D]] [I1 [N1 [C1 [S1 P1]]]]].
    split; [repeat split; auto; eapply prefix_trans; [exact A|apply prefix_snoc]|]. split; [|split; [|split; [|split]]].
    + intros i [<-|[]]. cbn [b_nodes]. rewrite lenN_snoc. pose proof (prefix_lenN _ _ A). lia.
    + apply alloc_new_ok; [exact N1|]. cbn [nd_ok]. intros c Hc. apply (I1 c Hc).
    + apply (covered_parent s s1 ids); auto.
    + cbn [subword_free]. intro Hf. apply alloc_nosub; [auto|discriminate].
    + cbn [flat_subwords]. auto.
  - (* Subword *)
    destruct (do_from_expr c empty_bst pl) as [[[[cid ct] cs0] pl1]| | |] eqn:E1; cbn [obind] in E; try discriminate.
    destruct (pool_intern (finish_regex cid ct cs0) pl1) as [rid pl2] eqn:Ei.
    unfold push_input, alloc in E. cbn [b_nodes b_inputs] in E. injection E as <- <- <- <-.
    destruct (IH _ _ _ _ _ _ E1) as [[A [B D]] [I1 [N1 [C1 [S1 P1]]]]].
    destruct (pool_intern_spec _ _ _ _ Ei) as [Hpp Hrid].
    split; [repeat split; try apply prefix_snoc; eapply prefix_trans; eauto|]. split; [|split; [|split; [|split]]].
    + intros i [<-|[]]. cbn [b_nodes]. rewrite lenN_snoc. lia.
    + intros m x Hm Ex. cbn [b_nodes b_inputs] in *. apply nthN_snoc_inv in Ex as [[Hlt _]|[-> ->]]; [lia|].
      cbn [nd_ok]. exists rid, l, sp. split; [apply nthN_snoc_last|]. eexists. exact Hrid.
    + intros p i Hp Ex. cbn [b_nodes b_inputs] in *. apply nthN_snoc_inv in Ex as [[Hlt _]|[-> ->]]; [lia|].
      exists (lenN (b_nodes s)), (lenN (b_nodes s)). split; [now left|]. split; [constructor|apply nthN_snoc_last].
    + cbn [subword_free]. discriminate.
    + cbn [flat_subwords]. intros Hf Hp. specialize (P1 (subword_free_flat c Hf) Hp).
      unfold pool_intern in Ei. destruct (pool_find (finish_regex cid ct cs0) pl1 0); injection Ei as <- <-; [exact P1|].
      apply Forall_app. split; [exact P1|]. constructor; [|constructor].
      apply (finish_rgood cid ct cs0 []); [now right|exact I1| |exact C1].
      intros m x Hm Ex. eapply nd_ok_nosub; [exact (N1 m x Hm Ex)|]. exact (S1 Hf m x Hm Ex).
Qed.

(** ** [from_expr] *)
Theorem from_expr_rgood e pl r pl' :
  flat_subwords e = true -> Forall sgood pl -> from_expr e pl = Ok (r, pl') ->
  rgood pl' r /\ Forall sgood pl'.
Proof.
  intros Hf Hp H. unfold from_expr in H.
  destruct (do_from_expr e empty_bst pl) as [[[[id t] s] pl1]| | |] eqn:E; cbn [obind] in H; try discriminate.
  injection H as <- <-. destruct (do_from_expr_inv e _ _ _ _ _ _ E) as [_ [I1 [N1 [C1 [_ P1]]]]].
  split; [|auto]. apply finish_rgood; auto.
Qed.
