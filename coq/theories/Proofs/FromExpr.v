(** [do_from_expr] / [from_expr] against the specification: the tree built for an expression has
    the [shape] L-glushkov needs, and the expression denotes exactly the position words of the tree,
    read through the inputs of the positions. *)
From CG Require Import Base.Prelude Model.Ast Model.Regex Spec.Lang.
From CG Require Import Proofs.RxLang Proofs.Glushkov Proofs.SubsetConstr Proofs.LangDen.

(** *** Prefixes *)
Definition prefix {A} (l l' : list A) : Prop := exists m, l' = l ++ m.

Lemma prefix_refl : forall {A} (l : list A), prefix l l.
Proof. intros A l. exists []. rewrite app_nil_r. reflexivity. Qed.

Lemma prefix_trans : forall {A} (a b c : list A), prefix a b -> prefix b c -> prefix a c.
Proof. intros A a b c [m ->] [n ->]. exists (m ++ n). rewrite app_assoc. reflexivity. Qed.

Lemma prefix_snoc : forall {A} (l : list A) x, prefix l (l ++ [x]).
Proof. intros A l x. exists [x]. reflexivity. Qed.

Lemma prefix_nthN : forall {A} (l l' : list A) i x, prefix l l' -> nthN l i = Some x -> nthN l' i = Some x.
Proof.
  intros A l l' i x [m ->] H. unfold nthN in *. rewrite nth_error_app1; auto.
  apply nth_error_Some. congruence.
Qed.

Lemma prefix_lenN : forall {A} (l l' : list A), prefix l l' -> lenN l <= lenN l'.
Proof. intros A l l' [m ->]. unfold lenN. rewrite app_length. lia. Qed.

Lemma lenN_snoc : forall {A} (l : list A) x, lenN (l ++ [x]) = N.succ (lenN l).
Proof. intros A l x. unfold lenN. rewrite app_length. simpl. lia. Qed.

Lemma nthN_prefix_mid : forall {A} (l : list A) x l', prefix (l ++ [x]) l' -> nthN l' (lenN l) = Some x.
Proof.
  intros A l x l' [m ->]. rewrite <- app_assoc. simpl. apply nthN_app_mid.
Qed.

(** *** [regex_eqb] reflects equality *)
Lemma span_eqb_eq : forall a b, span_eqb a b = true -> a = b.
Proof.
  intros [a1 a2 a3] [b1 b2 b3]. unfold span_eqb. simpl. intros H.
  apply andb_true_iff in H. destruct H as [H H3]. apply andb_true_iff in H. destruct H as [H1 H2].
  apply N.eqb_eq in H1, H2, H3. congruence.
Qed.

Lemma rinput_eqb_eq : forall a b, rinput_eqb a b = true -> a = b.
Proof.
  intros a b H. destruct a, b; simpl in H; try discriminate;
    repeat match goal with
           | H : _ && _ = true |- _ => apply andb_true_iff in H; destruct H
           end;
    repeat match goal with
           | H : String.eqb _ _ = true |- _ => apply String.eqb_eq in H
           | H : N.eqb _ _ = true |- _ => apply N.eqb_eq in H
           | H : span_eqb _ _ = true |- _ => apply span_eqb_eq in H
           | H : option_eqb String.eqb _ _ = true |- _ => apply option_string_eqb_eq in H
           | H : Bool.eqb _ _ = true |- _ => apply eqb_prop in H
           end; congruence.
Qed.

Lemma rnode_eqb_eq : forall a b, rnode_eqb a b = true -> a = b.
Proof.
  intros a b H. destruct a, b; simpl in H; try discriminate; try reflexivity;
    try (apply N.eqb_eq in H; congruence); try (apply listN_eqb_eq in H; congruence).
Qed.

Lemma list_eqb_eq : forall {A} (eqb : A -> A -> bool),
  (forall a b, eqb a b = true -> a = b) -> forall l m, list_eqb eqb l m = true -> l = m.
Proof.
  intros A eqb H. induction l as [|x l IH]; intros [|y m] E; simpl in E; try discriminate; auto.
  apply andb_true_iff in E. destruct E as [E1 E2]. f_equal; auto.
Qed.

Lemma rx_eqb_eq : forall a b, rx_eqb a b = true -> a = b.
Proof.
  induction a using rx_ind'; intros b E; destruct b; simpl in E; try discriminate; auto.
  - apply andb_true_iff in E. destruct E as [E1 E2]. apply N.eqb_eq in E1. subst.
    destruct k, k0; try discriminate; reflexivity.
  - f_equal. revert cs0 E. induction H as [|x l Hx H IH]; intros [|y m] E; try discriminate; auto.
    apply andb_true_iff in E. destruct E as [E1 E2]. f_equal; auto.
  - f_equal. revert cs0 E. induction H as [|x l Hx H IH]; intros [|y m] E; try discriminate; auto.
    apply andb_true_iff in E. destruct E as [E1 E2]. f_equal; auto.
  - f_equal. auto.
Qed.

Lemma regex_eqb_eq : forall a b, regex_eqb a b = true -> a = b.
Proof.
  intros [a1 a2 a3 a4 a5] [b1 b2 b3 b4 b5]. unfold regex_eqb. simpl. intros H.
  repeat match goal with
         | H : _ && _ = true |- _ => apply andb_true_iff in H; destruct H
         end.
  apply N.eqb_eq in H. apply (list_eqb_eq _ rinput_eqb_eq) in H3. apply N.eqb_eq in H2.
  apply (list_eqb_eq _ rnode_eqb_eq) in H1. apply rx_eqb_eq in H0. congruence.
Qed.

Lemma pool_find_spec : forall r p i j, pool_find r p i = Some j ->
  exists k, j = i + N.of_nat k /\ nth_error p k = Some r.
Proof.
  intros r. induction p as [|x p IH]; intros i j H; simpl in H; [discriminate|].
  destruct (regex_eqb x r) eqn:E.
  - inversion H; subst. apply regex_eqb_eq in E. subst. exists O. split; [simpl; lia|reflexivity].
  - apply IH in H. destruct H as [k [Hj Hn]]. exists (S k). split; [lia|exact Hn].
Qed.

Lemma pool_intern_spec : forall r p rid p', pool_intern r p = (rid, p') ->
  prefix p p' /\ nthN p' rid = Some r.
Proof.
  intros r p rid p' H. unfold pool_intern in H. destruct (pool_find r p 0) as [j|] eqn:E.
  - inversion H; subst. split; [apply prefix_refl|].
    apply pool_find_spec in E. destruct E as [k [-> Hn]]. unfold nthN.
    rewrite N.add_0_l, Nnat.Nat2N.id. exact Hn.
  - inversion H; subst. split; [apply prefix_snoc|]. unfold lenN. apply nthN_app_mid.
Qed.

(** *** Position words read through the inputs *)
Section PosImg.
  Variable A : Type.
  Variable R : rinput -> A -> Prop.

  Definition Rp (inputs : list rinput) (p : N) (a : A) : Prop :=
    exists x, nthN inputs p = Some x /\ R x a.

  Definition pimg (inputs : list rinput) (L : list N -> Prop) (w : list A) : Prop :=
    exists ps, L ps /\ Forall2 (Rp inputs) ps w.

  Lemma pimg_iff : forall I (L L' : list N -> Prop), (forall ps, L ps <-> L' ps) ->
    forall w, pimg I L w <-> pimg I L' w.
  Proof. intros I L L' H w. split; intros [ps [H1 H2]]; exists ps; split; auto; apply H; auto. Qed.

  Lemma pimg_eps : forall I w, pimg I (Lrx XEps) w <-> w = [].
  Proof.
    intros I w. split.
    - intros [ps [H F]]. inversion H; subst. inversion F. reflexivity.
    - intros ->. exists []. split; constructor.
  Qed.

  Lemma pimg_pos : forall I k p w, pimg I (Lrx (XPos k p)) w <-> exists a, w = [a] /\ Rp I p a.
  Proof.
    intros I k p w. split.
    - intros [ps [H F]]. inversion H; subst. inversion F as [|? a ? m Ra F']; subst.
      inversion F'; subst. eauto.
    - intros [a [-> Ra]]. exists [p]. split; [constructor|repeat constructor; assumption].
  Qed.

  Lemma pimg_cat_nil : forall I w, pimg I (Lrx (XCat [])) w <-> w = [].
  Proof.
    intros I w. split.
    - intros [ps [H F]]. apply Lrx_cat_nil in H. subst. inversion F. reflexivity.
    - intros ->. exists []. split; constructor.
  Qed.

  Lemma pimg_cat_cons : forall I c cs w,
    pimg I (Lrx (XCat (c :: cs))) w <->
    exists u v, w = u ++ v /\ pimg I (Lrx c) u /\ pimg I (Lrx (XCat cs)) v.
  Proof.
    intros I c cs w. split.
    - intros [ps [H F]]. apply Lrx_cat_cons in H. destruct H as [u [v [-> [H1 H2]]]].
      apply Forall2_app_inv_l in F. destruct F as [u' [v' [F1 [F2 ->]]]].
      exists u', v'. split; [reflexivity|]. split; [exists u|exists v]; auto.
    - intros [u [v [-> [[x [H1 F1]] [z [H2 F2]]]]]]. exists (x ++ z). split.
      + apply Lrx_cat_cons. eauto.
      + apply Forall2_app; assumption.
  Qed.

  Lemma pimg_or_nil : forall I w, pimg I (Lrx (XOr [])) w <-> False.
  Proof. intros I w. split; [|tauto]. intros [ps [H _]]. apply Lrx_or_nil in H. exact H. Qed.

  Lemma pimg_or_cons : forall I c cs w,
    pimg I (Lrx (XOr (c :: cs))) w <-> pimg I (Lrx c) w \/ pimg I (Lrx (XOr cs)) w.
  Proof.
    intros I c cs w. split.
    - intros [ps [H F]]. apply Lrx_or_cons in H. destruct H; [left|right]; exists ps; auto.
    - intros [[ps [H F]]|[ps [H F]]]; exists ps; split; auto; apply Lrx_or_cons; auto.
  Qed.

  Lemma pimg_many : forall I c w,
    pimg I (Lrx (XCat [c; XStar c])) w <-> plusP (pimg I (Lrx c)) w.
  Proof.
    intros I c w. split.
    - intros [ps [H F]]. apply Lrx_many in H. revert w F.
      induction H as [u Hu|u v Hu Hv IH]; intros w F.
      + apply PP_one. exists u. auto.
      + apply Forall2_app_inv_l in F. destruct F as [u' [v' [F1 [F2 ->]]]].
        apply PP_more; [exists u; auto|]. apply IH. exact F2.
    - intros D. induction D as [u [x [H F]]|u v [x [H F]] D [z [H2 F2]]].
      + exists x. split; auto. apply Lrx_many. apply plus_one. exact H.
      + exists (x ++ z). split; [|apply Forall2_app; assumption].
        apply Lrx_many. apply plus_more; auto. apply Lrx_many. exact H2.
  Qed.

  Lemma pimg_mono : forall I I' L w, prefix I I' -> pimg I L w -> pimg I' L w.
  Proof.
    intros I I' L w HP [ps [H F]]. exists ps. split; [exact H|]. clear H.
    induction F as [|p a ps' w' Hpa F IH].
    - constructor.
    - constructor; [|exact IH]. destruct Hpa as [x [Hx Ra]].
      exists x. split; auto. eapply prefix_nthN; eauto.
  Qed.
End PosImg.

(** *** The builder *)
Lemma alloc_inputs : forall n s id s', alloc n s = (id, s') -> b_inputs s' = b_inputs s.
Proof. intros n s id s' H. unfold alloc in H. inversion H; subst. reflexivity. Qed.

Lemma push_input_spec : forall i s p s', push_input i s = (p, s') ->
  p = lenN (b_inputs s) /\ b_inputs s' = b_inputs s ++ [i].
Proof. intros i s p s' H. unfold push_input in H. inversion H; subst. auto. Qed.

Definition in_range (lo hi : N) (l : list N) : Prop := forall p, In p l -> lo <= p < hi.

Lemma in_range_disjoint : forall a b c l m, a <= b -> in_range a b l -> in_range b c m -> disjoint l m.
Proof. intros a b c l m _ H1 H2 x Hx Hy. specialize (H1 x Hx). specialize (H2 x Hy). lia. Qed.

Section Builder.
  Variable A : Type.
  Variable leaf : expr -> list A -> Prop.
  Variable R : rinput -> A -> Prop.
  Variable plF : pool.                 (* the final pool *)

  (** what is needed of a leaf: one new position, whose input means what the leaf denotes *)
  Hypothesis leaf_case : forall e s pl id t s' pl',
    is_leaf e = true -> do_from_expr e s pl = Ok (id, t, s', pl') -> prefix pl' plF ->
    exists x k, k <> KEnd /\ b_inputs s' = b_inputs s ++ [x] /\ t = XPos k (lenN (b_inputs s)) /\
                prefix pl pl' /\ forall w, leaf e w <-> exists a, w = [a] /\ R x a.

  Notation den := (den A leaf).
  Notation pimg := (pimg A R).

  Definition good (e : expr) : Prop :=
    forall s pl id t s' pl',
      do_from_expr e s pl = Ok (id, t, s', pl') -> prefix pl' plF ->
      prefix (b_inputs s) (b_inputs s') /\ prefix pl pl' /\ shape t /\
      in_range (lenN (b_inputs s)) (lenN (b_inputs s')) (positions t) /\
      forall I, prefix (b_inputs s') I -> forall w, den e w <-> pimg I (Lrx t) w.

  Lemma leaf_good : forall e, is_leaf e = true -> good e.
  Proof.
    intros e Hl s pl id t s' pl' E HP.
    destruct (leaf_case e s pl id t s' pl' Hl E HP) as [x [k [Hk [Hi [-> [Hpl Hw]]]]]].
    rewrite Hi. split; [apply prefix_snoc|]. split; [exact Hpl|]. split; [constructor; exact Hk|].
    split.
    - intros p [<-|[]]. rewrite lenN_snoc. lia.
    - intros I HI w. rewrite den_leaf_iff by exact Hl. rewrite Hw, pimg_pos.
      split; intros [a [-> Ha]]; exists a; split; auto.
      + exists x. split; auto. eapply nthN_prefix_mid; eauto.
      + destruct Ha as [x' [Hx' Ha]]. rewrite (nthN_prefix_mid _ _ _ HI) in Hx'. congruence.
  Qed.

  (** the children of an n-ary node *)
  Lemma children_good : forall cs, Forall good cs ->
    forall s pl ids ts s' pl',
      do_children do_from_expr cs s pl = Ok (ids, ts, s', pl') -> prefix pl' plF ->
      prefix (b_inputs s) (b_inputs s') /\ prefix pl pl' /\ Forall shape ts /\
      pairwise_disjoint (map positions ts) /\
      in_range (lenN (b_inputs s)) (lenN (b_inputs s')) (flat_map positions ts) /\
      forall I, prefix (b_inputs s') I ->
        (forall sp w, den (Sequence cs sp) w <-> pimg I (Lrx (XCat ts)) w) /\
        (forall w, (exists c, In c cs /\ den c w) <-> pimg I (Lrx (XOr ts)) w).
  Proof.
    intros cs HF. induction HF as [|c cs Hc HF IH]; intros s pl ids ts s' pl' E HP.
    - simpl in E. inversion E; subst. split; [apply prefix_refl|]. split; [apply prefix_refl|].
      split; [constructor|]. split; [exact I|]. split; [intros p []|].
      intros I0 HI. split.
      + intros sp w. rewrite den_seq_nil, pimg_cat_nil. tauto.
      + intros w. rewrite pimg_or_nil. split; [intros [c [[] _]]|tauto].
    - simpl in E.
      destruct (do_from_expr c s pl) as [[[[id t] s1] pl1]| | |] eqn:E1; simpl in E; try discriminate.
      destruct (do_children do_from_expr cs s1 pl1) as [[[[ids2 ts2] s2] pl2]| | |] eqn:E2;
        simpl in E; try discriminate.
      inversion E; subst.
      destruct (IH _ _ _ _ _ _ E2 HP) as [Pi2 [Pp2 [Sh2 [Dj2 [Rg2 L2]]]]].
      destruct (Hc _ _ _ _ _ _ E1 (prefix_trans _ _ _ Pp2 HP)) as [Pi1 [Pp1 [Sh1 [Rg1 L1]]]].
      split; [eapply prefix_trans; eauto|]. split; [eapply prefix_trans; eauto|].
      split; [constructor; auto|].
      pose proof (prefix_lenN _ _ Pi1) as Le1. pose proof (prefix_lenN _ _ Pi2) as Le2.
      split; [|split].
      + simpl. split; auto. apply Forall_forall. intros m Hm. apply in_map_iff in Hm.
        destruct Hm as [t' [<- Ht']]. intros x Hx Hy. specialize (Rg1 x Hx).
        assert (Hy' : In x (flat_map positions ts2)) by (apply in_flat_map; eauto).
        specialize (Rg2 x Hy'). lia.
      + intros p Hp. simpl in Hp. apply in_app_iff in Hp. destruct Hp as [Hp|Hp].
        * specialize (Rg1 p Hp). lia.
        * specialize (Rg2 p Hp). lia.
      + intros I0 HI. destruct (L2 I0 HI) as [L2s L2a].
        pose proof (L1 I0 (prefix_trans _ _ _ Pi2 HI)) as L1'. split.
        * intros sp w. rewrite den_seq_cons, pimg_cat_cons.
          split; intros [u [v [-> [H1 H2]]]]; exists u, v; (split; [reflexivity|]); split.
          -- apply L1'. exact H1.
          -- apply (L2s sp). exact H2.
          -- apply L1'. exact H1.
          -- apply (L2s sp). exact H2.
        * intros w. rewrite pimg_or_cons. split.
          -- intros [c' [[->|Hin] D]]; [left; apply L1'; exact D|right; apply L2a; eauto].
          -- intros [H|H].
             ++ exists c. split; [left; reflexivity|apply L1'; exact H].
             ++ apply L2a in H. destruct H as [c' [Hin D]]. exists c'. split; [right|]; auto.
  Qed.

  Theorem do_from_expr_good : forall e, good e.
  Proof.
    induction e using expr_ind'.
    - apply leaf_good. reflexivity.
    - apply leaf_good. reflexivity.
    - apply leaf_good. reflexivity.
    - (* Sequence *)
      intros s pl id t s' pl' E HP. simpl in E.
      destruct (do_children do_from_expr cs s pl) as [[[[ids ts] s1] pl1]| | |] eqn:E1;
        simpl in E; try discriminate.
      inversion E; subst. simpl.
      destruct (children_good cs H _ _ _ _ _ _ E1 HP) as [Pi [Pp [Sh [Dj [Rg L]]]]].
      split; [exact Pi|]. split; [exact Pp|]. split; [apply Sh_cat; auto|]. split; [exact Rg|].
      intros I HI w. apply (proj1 (L I HI)).
    - (* Alternative *)
      intros s pl id t s' pl' E HP. simpl in E.
      destruct (do_children do_from_expr cs s pl) as [[[[ids ts] s1] pl1]| | |] eqn:E1;
        simpl in E; try discriminate.
      inversion E; subst. simpl.
      destruct (children_good cs H _ _ _ _ _ _ E1 HP) as [Pi [Pp [Sh [Dj [Rg L]]]]].
      split; [exact Pi|]. split; [exact Pp|]. split; [apply Sh_or; auto|]. split; [exact Rg|].
      intros I HI w. rewrite den_alt. apply (proj2 (L I HI)).
    - (* Optional *)
      intros s pl id t s' pl' E HP. simpl in E.
      destruct (do_from_expr e s pl) as [[[[cid ct] s1] pl1]| | |] eqn:E1; simpl in E; try discriminate.
      inversion E; subst. simpl.
      destruct (IHe _ _ _ _ _ _ E1 HP) as [Pi [Pp [Sh [Rg L]]]].
      split; [exact Pi|]. split; [exact Pp|]. split.
      { apply Sh_or.
        - constructor; [exact Sh|]. constructor; [constructor|constructor].
        - simpl. split; [|split; [constructor|exact I]].
          constructor; [|constructor]. intros x _ []. }
      split.
      { intros p Hp. simpl in Hp. rewrite app_nil_r in Hp. apply Rg. exact Hp. }
      intros I0 HI w. rewrite den_opt, pimg_or_cons, pimg_or_cons, pimg_or_nil, pimg_eps.
      rewrite (L I0 HI w). tauto.
    - (* Many1 *)
      intros s pl id t s' pl' E HP. simpl in E.
      destruct (do_from_expr e s pl) as [[[[cid ct] s1] pl1]| | |] eqn:E1; simpl in E; try discriminate.
      inversion E; subst. simpl.
      destruct (IHe _ _ _ _ _ _ E1 HP) as [Pi [Pp [Sh [Rg L]]]].
      split; [exact Pi|]. split; [exact Pp|]. split; [apply Sh_many; exact Sh|]. split.
      { intros p Hp. simpl in Hp. rewrite app_nil_r in Hp. apply in_app_iff in Hp.
        destruct Hp; apply Rg; assumption. }
      intros I0 HI w. rewrite den_many, pimg_many. apply plusP_iff. apply (L I0 HI).
    - (* DistDescr *)
      intros s pl id t s' pl' E HP. simpl in E. discriminate.
    - (* Fallback *)
      intros s pl id t s' pl' E HP. simpl in E.
      destruct (do_children do_from_expr cs s pl) as [[[[ids ts] s1] pl1]| | |] eqn:E1;
        simpl in E; try discriminate.
      inversion E; subst. simpl.
      destruct (children_good cs H _ _ _ _ _ _ E1 HP) as [Pi [Pp [Sh [Dj [Rg L]]]]].
      split; [exact Pi|]. split; [exact Pp|]. split; [apply Sh_or; auto|]. split; [exact Rg|].
      intros I HI w. rewrite den_fb. apply (proj2 (L I HI)).
    - apply leaf_good. reflexivity.
  Qed.
End Builder.
