(** C13 end to end: for every input text, every span carried by an error of [Driver.compile], and
    by the warnings of an accepted grammar, starts at a byte of the text (composition of the
    parser's span soundness, the checker's naturality in spans and the regex builder's use of
    spans), so [Diag.render] never panics on it. *)
From CG Require Import Base.Prelude Model.Ast Model.Lexer Model.Parser Model.Check Model.Regex.
From CG Require Import Model.Dfa Model.Subset Model.Minimize Model.Ambiguity Model.Driver Model.Diag.
From CG Require Import Spec.Spans Proofs.SpanSound Proofs.DiagLines Proofs.DiagSpans Proofs.CheckProvenance.
From CGgen Require Import Consts.

(** the source of parse.rs has the span reset repaired (regenerated switches): what [parse] does
    is what the span theorems are about; this stops compiling if the reset comes back *)
Lemma pinned_repaired : pinned = repaired.
Proof. reflexivity. Qed.

Lemma parse_repaired : forall s, parse s = parse_with repaired s.
Proof. intros. unfold parse. rewrite pinned_repaired. reflexivity. Qed.

(** *** every span of a parsed grammar is sound *)

Lemma all_ok_in : forall s cs, all_ok s cs -> forall c, In c cs -> spans_ok s c.
Proof. induction cs; cbn; intros H c []; destruct H; subst; auto. Qed.

Lemma spans_ok_all : forall s e, spans_ok s e -> forall sp, In sp (all_spans e) -> span_ok s sp.
Proof.
  intros s. induction e using expr_ind'; cbn [spans_ok all_spans]; intros Hs x Hi.
  - destruct Hi as [<-|[]]. exact Hs.
  - destruct Hi as [<-|[]]. exact Hs.
  - destruct Hi as [<-|[]]. exact Hs.
  - destruct Hs as [H1 H2]. destruct Hi as [<-|Hi]; auto. fold (all_ok s cs) in H2.
    apply in_flat_map in Hi as (c0 & Hc & Hx). rewrite Forall_forall in H. eapply H; eauto. eapply all_ok_in; eauto.
  - destruct Hs as [H1 H2]. destruct Hi as [<-|Hi]; auto. fold (all_ok s cs) in H2.
    apply in_flat_map in Hi as (c0 & Hc & Hx). rewrite Forall_forall in H. eapply H; eauto. eapply all_ok_in; eauto.
  - destruct Hs as [H1 H2]. destruct Hi as [<-|Hi]; auto.
  - destruct Hs as [H1 H2]. destruct Hi as [<-|Hi]; auto.
  - destruct Hs as [H1 H2]. destruct Hi as [<-|Hi]; auto.
  - destruct Hs as [H1 H2]. destruct Hi as [<-|Hi]; auto. fold (all_ok s cs) in H2.
    apply in_flat_map in Hi as (c0 & Hc & Hx). rewrite Forall_forall in H. eapply H; eauto. eapply all_ok_in; eauto.
  - destruct Hs as [H1 H2]. destruct Hi as [<-|Hi]; auto.
Qed.

Lemma grammar_spans_ok : forall s g, Forall (stmt_ok s) g -> forall sp, In sp (grammar_spans g) -> span_ok s sp.
Proof.
  intros s g H sp Hi. unfold grammar_spans in Hi. apply in_flat_map in Hi as (st & Hst & Hx).
  rewrite Forall_forall in H. specialize (H st Hst).
  destruct st as [n nsp e|n nsp sh rhs]; cbn [stmt_ok stmt_spans] in *.
  - destruct H as [H1 H2]. destruct Hx as [<-|Hx]; auto. eapply spans_ok_all; eauto.
  - destruct H as (H1 & H2 & H3). destruct Hx as [<-|Hx]; auto. apply in_app_or in Hx as [Hx|Hx].
    + destruct sh as [[shn ssp]|]; [destruct Hx as [<-|[]]; exact H2|destruct Hx].
    + eapply spans_ok_all; eauto.
Qed.

Theorem parsed_spans_pos : forall text g, parse text = Ok g ->
    forall sp, In sp (grammar_spans g) -> pos_ok text sp.
Proof.
  intros text g H sp Hi. rewrite parse_repaired in H. apply span_ok_pos_ok.
  exact (grammar_spans_ok text g (parse_spans_sound text g H) sp Hi).
Qed.

(** *** where the errors of [compile] come from *)

Section Pipeline.
  Variable pick : nat -> list (list N) -> nat.
  Variable fuel : nat.
  Variable builtins : shell -> list (string * string).

  Lemma compile_sub_err : forall r e, compile_sub pick fuel r = Err e ->
      (exists x, e = DSubset x) \/ (exists x, e = DAmb x).
  Proof.
    intros r e H. unfold compile_sub in H.
    destruct (dfa_from_regex pick fuel [] r) as [raw|x| |]; cbn [lift obind] in H; try discriminate.
    2:{ inversion H; eauto. }
    destruct (check_ambiguity_best_effort (fst raw)) as [u|x| |]; cbn [lift obind] in H; try discriminate.
    2:{ inversion H; eauto. }
    destruct (minimize (fst raw)) as [m|x| |]; cbn [lift_noerr obind] in H; try discriminate.
    destruct (check_ambiguity_best_effort m) as [u2|x| |]; cbn [lift obind] in H; try discriminate.
    inversion H; eauto.
  Qed.

  Lemma compile_subs_err : forall inputs pl cache subs e,
      compile_subs pick fuel inputs pl cache subs = Err e ->
      (exists x, e = DSubset x) \/ (exists x, e = DAmb x).
  Proof.
    induction inputs as [|i rest IH]; intros pl cache subs e H; cbn [compile_subs] in H; [discriminate|].
    destruct i; eauto.
    destruct (assocN rid cache); eauto.
    destruct (nthN pl rid) as [r|]; [|discriminate].
    destruct (compile_sub pick fuel r) as [d|x| |] eqn:E; cbn [obind] in H; try discriminate.
    - destruct (intern_dfa d subs 0) as [k subs']. eauto.
    - inversion H; subst. eapply compile_sub_err; eauto.
  Qed.

  Lemma compile_valid_err : forall v e, compile_valid pick fuel v = Err e ->
      (exists re, e = DRegex re /\ from_valid_expr (v_expr v) = Err re)
      \/ (exists x, e = DSubset x) \/ (exists x, e = DAmb x).
  Proof.
    intros v e H. unfold compile_valid in H.
    destruct (from_valid_expr (v_expr v)) as [[r pl]|re| |] eqn:E; cbn [lift obind] in H; try discriminate.
    2:{ inversion H; subst. left. eauto. }
    right.
    destruct (compile_subs pick fuel (r_inputs r) pl [] []) as [[submap subs]|x| |] eqn:Cs; cbn [obind] in H; try discriminate.
    2:{ inversion H; subst. eapply compile_subs_err; eauto. }
    destruct (dfa_from_regex pick fuel submap r) as [raw|x| |]; cbn [lift obind] in H; try discriminate.
    2:{ inversion H; eauto. }
    destruct (minimize (fst raw)) as [m|x| |]; cbn [lift_noerr obind] in H; try discriminate.
    destruct (check_ambiguity_best_effort m) as [u2|x| |]; cbn [lift obind] in H; try discriminate.
    inversion H; eauto.
  Qed.

  Theorem compile_err_cases : forall text sh e, compile pick fuel builtins text sh = Err e ->
      (exists sp, e = DParse sp /\ parse text = Err sp)
      \/ (exists g ce, e = DCheck ce /\ parse text = Ok g /\ from_grammar builtins g sh = Err ce)
      \/ (exists g v re, e = DRegex re /\ parse text = Ok g /\ from_grammar builtins g sh = Ok v
                         /\ from_valid_expr (v_expr v) = Err re)
      \/ (exists x, e = DSubset x) \/ (exists x, e = DAmb x).
  Proof.
    intros text sh e H. unfold compile in H.
    destruct (parse text) as [g|sp| |] eqn:P; cbn [obind] in H; try discriminate.
    2:{ inversion H; subst. left. eauto. }
    destruct (from_grammar builtins g sh) as [v|ce| |] eqn:C; cbn [lift obind] in H; try discriminate.
    2:{ inversion H; subst. right. left. eauto. }
    destruct (compile_valid pick fuel v) as [c|x| |] eqn:V; cbn [obind] in H; try discriminate.
    inversion H; subst. destruct (compile_valid_err _ _ V) as [(re & -> & R)|[X|X]].
    - right. right. left. exists g, v, re. auto.
    - right. right. right. left. exact X.
    - right. right. right. right. exact X.
  Qed.

  (** *** the messages *)

  Lemma error_messages_spans : forall ce m, In m (error_messages (DCheck ce)) -> In (m_span m) (cerror_spans ce).
  Proof.
    intros ce m H. destruct ce; cbn [error_messages cerror_spans] in *.
    - destruct H.
    - apply in_map_iff in H as (x & <- & Hx). exact Hx.
    - destruct H as [<-|[]]. left; reflexivity.
    - destruct H as [<-|[<-|[]]]; cbn; auto.
    - destruct H as [<-|[]]. left; reflexivity.
    - destruct H as [<-|[]]. left; reflexivity.
    - apply in_map_iff in H as (x & <- & Hx). exact Hx.
    - destruct H as [<-|[<-|H]]; cbn; auto. apply in_map_iff in H as (x & <- & Hx). cbn. auto.
  Qed.

  Lemma from_machine_pos : forall text pre rest, text = append pre rest -> rest <> EmptyString ->
      pos_ok text (from_machine (mkin rest (adv_str pre pos0))).
  Proof.
    intros text pre rest E N. exists pre, rest. unfold from_machine. cbn [at_ sline scol secol]. repeat split; auto. lia.
  Qed.

  Theorem error_positions : forall text sh e, compile pick fuel builtins text sh = Err e ->
      Forall (fun m => pos_ok text (m_span m)) (error_messages e).
  Proof.
    intros text sh e H. apply Forall_forall. intros m Hm.
    destruct (compile_err_cases _ _ _ H) as [(sp & -> & P)|[(g & ce & -> & P & C)|[(g & v & re & -> & P & C & R)|[[x ->]|[x ->]]]]].
    - cbn [error_messages] in Hm. destruct Hm as [<-|[]]. cbn [m_span emsg].
      rewrite parse_repaired in P. destruct (parse_error_sound _ _ P) as (pre & rest & E & N & ->).
      apply from_machine_pos; auto.
    - eapply parsed_spans_pos; eauto.
      pose proof (checker_spans builtins g sh) as X. rewrite C in X. apply X. apply error_messages_spans. exact Hm.
    - destruct re as [a b]. cbn [error_messages] in Hm.
      destruct (unbounded_spans _ _ _ R) as [Ha Hb].
      pose proof (checker_spans builtins g sh) as X. rewrite C in X.
      eapply parsed_spans_pos; eauto. apply X. unfold valid_spans. apply in_or_app. left.
      destruct Hm as [<-|[<-|[]]]; cbn [m_span emsg]; assumption.
    - destruct Hm.
    - destruct Hm.
  Qed.

  Lemma insert_span_in : forall x l y, In y (insert_span x l) -> y = x \/ In y l.
  Proof.
    induction l as [|z l IH]; cbn [insert_span]; intros y H.
    - destruct H as [<-|[]]; auto.
    - destruct (span_leb x z).
      + destruct H as [<-|H]; auto.
      + destruct H as [<-|H]; [right; left; reflexivity|]. destruct (IH y H); auto. right; right; auto.
  Qed.

  Lemma sort_spans_in : forall l y, In y (sort_spans l) -> In y l.
  Proof.
    unfold sort_spans. induction l; cbn [fold_right]; intros y H; [destruct H|].
    apply insert_span_in in H as [->|H]; [left; reflexivity|right; auto].
  Qed.

  Lemma wmsgs_spans : forall label l m, In m (wmsgs label l) -> In (m_span m) l.
  Proof. intros label l m H. unfold wmsgs in H. apply in_map_iff in H as (x & <- & Hx). cbn. apply sort_spans_in; auto. Qed.

  Theorem warning_positions : forall text sh g v, parse text = Ok g -> from_grammar builtins g sh = Ok v ->
      Forall (fun m => pos_ok text (m_span m)) (warning_messages v).
  Proof.
    intros text sh g v P C. apply Forall_forall. intros m Hm.
    pose proof (checker_spans builtins g sh) as X. rewrite C in X.
    eapply parsed_spans_pos; eauto. apply X. unfold valid_spans. apply in_or_app. right.
    unfold warning_messages in Hm. apply in_app_or in Hm as [Hm|Hm]; [|apply in_app_or in Hm as [Hm|Hm]];
      apply wmsgs_spans in Hm.
    - apply in_or_app. left. apply in_map_iff in Hm as ([n sp] & <- & Hf). apply filter_In in Hf as [Hf _].
      apply in_map_iff. exists (n, sp). auto.
    - apply in_or_app. right. apply in_or_app. left. exact Hm.
    - apply in_or_app. right. apply in_or_app. right. exact Hm.
  Qed.

  (** *** rendering never panics *)

  Theorem render_errors_total : forall path text sh e, compile pick fuel builtins text sh = Err e ->
      Forall (fun m => exists r, render path text (m_span m) = Ok r) (error_messages e).
  Proof.
    intros path text sh e H. eapply Forall_impl; [|eapply error_positions; eauto].
    cbn beta. intros m Hm. apply render_total. exact Hm.
  Qed.

  Theorem render_warnings_total : forall path text sh g v, parse text = Ok g -> from_grammar builtins g sh = Ok v ->
      Forall (fun m => exists r, render path text (m_span m) = Ok r) (warning_messages v).
  Proof.
    intros path text sh g v P C. eapply Forall_impl; [|eapply warning_positions; eauto].
    cbn beta. intros m Hm. apply render_total. exact Hm.
  Qed.
End Pipeline.
