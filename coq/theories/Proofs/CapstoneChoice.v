(** Source-level corollary of the capstone, C11: the external commands the emitted bash script can
    run.  Composition of [compile_bash] with Part A / B / C of Proofs/CapstoneCommands.v. *)
From CG Require Import Base.Prelude Model.Ast Model.Parser Model.Check Model.Dfa Model.Driver Model.Tables
  Model.EmitBash Model.Compiler Spec.Choice Spec.ScriptRead Spec.Warnings.
From CG Require Import Proofs.TablesSound Proofs.BashCodec Proofs.BashScript Proofs.CapstoneMeaning Proofs.CapstoneCommands
  Proofs.CapstoneShape Proofs.CapstoneConverse Proofs.CapstoneReach.
From CG Require Props.C04.

Theorem compile_bash_commands o builtins text s :
  compile_bash o builtins text = Ok s ->
  exists g v c nd a,
    Parser.parse text = Ok g
    /\ compile (pick_table (o_pops o)) (o_fuel o) builtins text Bash = Ok (v, c)
    /\ all_tables Bash c (o_main_lits o) (o_sub_lits o) = Ok (nd, a)
    /\ (forall cm, In cm (a_commands a) -> cmd_source builtins g Bash cm)
    /\ (forall x cm, In x (used_names g Bash) -> Choice.spec builtins g Bash x = ChCommand cm -> In cm (a_commands a))
    /\ (name_ok (v_command v) -> no_nl (o_sig o) = true ->
        Forall (fun cm => body_ok (cmd_body cm)) (a_commands a) ->
        exists sts,
          script_stmts (v_command v) (d_start (c_main c)) nd a (o_groups o) = Ok sts
          /\ read_stmts Bash (v_command v) s = sts
          /\ forall b, In (SBody b) sts <-> exists cm, In cm (a_commands a) /\ b = cmd_body cm).
Proof.
  intro H. destruct (compile_bash_inv o builtins text s H) as [g [v [c [nd [a [Hg [Hv [Hcv [Hc [Halts [Ho [Ha [Vg Hs]]]]]]]]]]]]].
  exists g, v, c, nd, a. split; [exact Hg|]. split; [exact Hc|]. split; [exact Ha|]. split; [|split].
  - intros cm Hcm. destruct (all_tables_inv _ _ _ _ _ _ Ha) as [rt F].
    apply (from_grammar_cmds builtins g Bash v Hv).
    exact (compiled_commands _ _ v c _ Halts Hcv (af_cmds _ _ _ _ _ _ _ F) cm Hcm).
  - intros x cm Hu Hx. destruct (all_tables_inv _ _ _ _ _ _ Ha) as [rt F].
    apply (compiled_commands_complete _ _ v c _ Halts (parsed_sub_tree builtins text g Bash v Hg eq_refl Hv) Hcv
             (af_cmds _ _ _ _ _ _ _ F)).
    exact (reachable_commands builtins g Bash v Hv x cm Hu Hx).
  - intros Hn Hsig Hb.
    destruct (Props.C04.C04_embed_bash _ _ _ _ _ _ _ Hn Hsig Hb Hs) as [sts [S1 S2]].
    exists sts. split; [exact S1|]. split; [exact S2|]. apply (script_bodies _ _ _ _ _ _ S1).
Qed.
