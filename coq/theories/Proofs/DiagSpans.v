(** Every span that leaves the pipeline is a span of the parsed grammar:
    - the checker model is natural in spans ([CheckSpans.from_grammar_ms]), hence -- a free theorem --
      every span of its result (error, validated tree, warning maps) occurs in its input grammar;
    - the spans of an [UnboundedMatchable] error are spans of regex inputs, i.e. of leaves (literals,
      nonterminals, commands, words) of the validated tree. *)
From CG Require Import Base.Prelude Model.Ast Model.Check Model.Regex.
From CG Require Import Proofs.CheckSpans Proofs.FromExpr.

(** *** all the spans of a tree / grammar / result *)

Fixpoint all_spans (e : expr) : list span :=
  match e with
  | Terminal _ _ _ sp | NontermRef _ _ sp | Command _ _ _ sp => [sp]
  | Sequence cs sp | Alternative cs sp | Fallback cs sp => sp :: flat_map all_spans cs
  | Optional c sp | Many1 c sp | DistDescr c _ sp | Subword c _ sp => sp :: all_spans c
  end.

Definition stmt_spans (st : statement) : list span :=
  match st with
  | CallVariant _ sp e => sp :: all_spans e
  | NontermDef _ sp sh rhs =>
      sp :: match sh with Some (_, ssp) => [ssp] | None => [] end ++ all_spans rhs
  end.

Definition grammar_spans (g : grammar) : list span := flat_map stmt_spans g.

Definition cerror_spans (e : cerror) : list span :=
  match e with
  | MissingCallVariants => []
  | VaryingCommandNames spans | NonterminalDefinitionsCycle spans => spans
  | InvalidCommandName sp | UnknownShell sp | NonCommandSpecialization sp => [sp]
  | DuplicateNonterminalDefinition a b => [a; b]
  | SubwordSpaces l r trace => l :: r :: trace
  end.

Definition valid_spans (v : valid_grammar) : list span :=
  all_spans (v_expr v) ++ map snd (v_undefined v) ++ map snd (v_unused v) ++ map snd (v_unused_specs v).

(** *** fixed points of span maps *)

Section Fix.
  Variable f : span -> span.

  Lemma map_fix_in : forall (l : list span), (forall sp, In sp l -> f sp = sp) -> map f l = l.
  Proof. induction l; cbn; intros H; auto. rewrite H by auto. f_equal. apply IHl. auto. Qed.

  Lemma map_fix_out : forall (l : list span), map f l = l -> forall sp, In sp l -> f sp = sp.
  Proof.
    induction l as [|a l IH]; cbn [map]; intros H sp Hi; [destruct Hi|].
    injection H as H1 H2. destruct Hi as [<-|Hi]; [exact H1|apply IH; assumption].
  Qed.

  Lemma map_ms_in : forall cs,
      Forall (fun e => (forall x, In x (all_spans e) -> f x = x) -> ms f e = e) cs ->
      (forall x, In x (flat_map all_spans cs) -> f x = x) -> map (ms f) cs = cs.
  Proof.
    induction 1 as [|e l He Hl IH]; cbn [map flat_map]; intros Hs; auto. f_equal.
    - apply He. intros. apply Hs. apply in_or_app. auto.
    - apply IH. intros. apply Hs. apply in_or_app. auto.
  Qed.

  Lemma ms_fix_in : forall e, (forall x, In x (all_spans e) -> f x = x) -> ms f e = e.
  Proof.
    induction e using expr_ind'; cbn [all_spans ms]; intros Hs; rewrite (Hs sp) by (left; reflexivity);
      try reflexivity;
      try (rewrite IHe by (intros; apply Hs; right; assumption); reflexivity);
      rewrite (map_ms_in cs H) by (intros; apply Hs; right; assumption); reflexivity.
  Qed.

  Lemma map_ms_out : forall cs, Forall (fun e => ms f e = e -> forall x, In x (all_spans e) -> f x = x) cs ->
      map (ms f) cs = cs -> forall x, In x (flat_map all_spans cs) -> f x = x.
  Proof.
    induction 1; cbn [map flat_map]; intros E y Hi; [contradiction|]. injection E as E1 E2.
    apply in_app_or in Hi as [Hi|Hi]; [apply H; assumption|apply IHForall; assumption].
  Qed.

  Lemma ms_fix_out : forall e, ms f e = e -> forall x, In x (all_spans e) -> f x = x.
  Proof.
    induction e using expr_ind'; cbn [all_spans ms]; intros E x Hi.
    - injection E as Ea. destruct Hi as [<-|[]]. exact Ea.
    - injection E as Ea. destruct Hi as [<-|[]]. exact Ea.
    - injection E as Ea. destruct Hi as [<-|[]]. exact Ea.
    - injection E as Ea Eb. destruct Hi as [<-|Hi]; [exact Eb|]. eapply map_ms_out; eauto.
    - injection E as Ea Eb. destruct Hi as [<-|Hi]; [exact Eb|]. eapply map_ms_out; eauto.
    - injection E as Ea Eb. destruct Hi as [<-|Hi]; [exact Eb|]. apply IHe; assumption.
    - injection E as Ea Eb. destruct Hi as [<-|Hi]; [exact Eb|]. apply IHe; assumption.
    - injection E as Ea Eb. destruct Hi as [<-|Hi]; [exact Eb|]. apply IHe; assumption.
    - injection E as Ea Eb. destruct Hi as [<-|Hi]; [exact Eb|]. eapply map_ms_out; eauto.
    - injection E as Ea Eb. destruct Hi as [<-|Hi]; [exact Eb|]. apply IHe; assumption.
  Qed.

  Lemma ms_grammar_fix_in : forall g, (forall sp, In sp (grammar_spans g) -> f sp = sp) -> ms_grammar f g = g.
  Proof.
    unfold ms_grammar, grammar_spans. induction g as [|st g IH]; cbn [map flat_map]; intros Hs; auto.
    f_equal; [|apply IH; intros; apply Hs; apply in_or_app; auto].
    assert (Hst : forall sp, In sp (stmt_spans st) -> f sp = sp) by (intros; apply Hs; apply in_or_app; auto).
    destruct st as [n sp e|n sp [[sh ssp]|] rhs]; cbn [ms_stmt stmt_spans option_map fst snd] in *.
    - rewrite Hst by (left; reflexivity). rewrite ms_fix_in by (intros; apply Hst; right; auto). reflexivity.
    - rewrite Hst by (left; reflexivity). rewrite (Hst ssp) by (right; left; reflexivity).
      rewrite ms_fix_in by (intros; apply Hst; right; right; auto). reflexivity.
    - rewrite Hst by (left; reflexivity). rewrite ms_fix_in by (intros; apply Hst; right; auto). reflexivity.
  Qed.

  Lemma msp_fix_out : forall l, msp f l = l -> forall sp, In sp (map snd l) -> f sp = sp.
  Proof.
    unfold msp. induction l as [|[n s] l IH]; cbn [map fst snd]; intros E sp Hi; [destruct Hi|].
    injection E as E1 E2. destruct Hi as [<-|Hi]; [exact E1|apply IH; assumption].
  Qed.

  Lemma ms_err_fix_out : forall e, ms_err f e = e -> forall x, In x (cerror_spans e) -> f x = x.
  Proof.
    intros e E x Hi; destruct e; cbn [ms_err cerror_spans] in *; try (injection E; intros).
    - destruct Hi.
    - eapply map_fix_out; eauto.
    - destruct Hi as [<-|[]]. assumption.
    - destruct Hi as [<-|[<-|[]]]; assumption.
    - destruct Hi as [<-|[]]. assumption.
    - destruct Hi as [<-|[]]. assumption.
    - eapply map_fix_out; eauto.
    - destruct Hi as [<-|[<-|Hi]]; try assumption. eapply map_fix_out; eauto.
  Qed.

  Lemma ms_valid_fix_out : forall v, ms_valid f v = v -> forall x, In x (valid_spans v) -> f x = x.
  Proof.
    intros [cmd e u1 u2 u3] E x Hi. unfold ms_valid, valid_spans in *. cbn [v_command v_expr v_undefined v_unused v_unused_specs] in *.
    assert (A1 : ms f e = e) by congruence.
    assert (A2 : msp f u1 = u1) by congruence.
    assert (A3 : msp f u2 = u2) by congruence.
    assert (A4 : msp f u3 = u3) by congruence.
    apply in_app_or in Hi as [Hi|Hi]; [exact (ms_fix_out e A1 x Hi)|].
    apply in_app_or in Hi as [Hi|Hi]; [exact (msp_fix_out u1 A2 x Hi)|].
    apply in_app_or in Hi as [Hi|Hi]; [exact (msp_fix_out u2 A3 x Hi)|exact (msp_fix_out u3 A4 x Hi)].
  Qed.
End Fix.

(** *** the free theorem *)

Definition bump (x : span) : span := mkspan (sline x + 1) (scol x) (secol x).

Definition keep (S : list span) (x : span) : span := if existsb (span_eqb x) S then x else bump x.

Lemma span_eqb_refl : forall a, span_eqb a a = true.
Proof. intros [l c e]. unfold span_eqb. cbn. rewrite !N.eqb_refl. reflexivity. Qed.

Lemma keep_in : forall S x, In x S -> keep S x = x.
Proof.
  intros S x H. unfold keep. replace (existsb (span_eqb x) S) with true; auto.
  symmetry. apply existsb_exists. exists x. split; auto. apply span_eqb_refl.
Qed.

Lemma keep_fixed : forall S x, keep S x = x -> In x S.
Proof.
  intros S x H. unfold keep in H. destruct (existsb (span_eqb x) S) eqn:E.
  - apply existsb_exists in E as (y & Hy & Ey). apply span_eqb_eq in Ey. subst. exact Hy.
  - exfalso. destruct x as [l c e]. unfold bump in H. cbn in H. inversion H. lia.
Qed.

Theorem checker_spans : forall builtins g sh,
    match from_grammar builtins g sh with
    | Ok v => forall sp, In sp (valid_spans v) -> In sp (grammar_spans g)
    | Err e => forall sp, In sp (cerror_spans e) -> In sp (grammar_spans g)
    | _ => True
    end.
Proof.
  intros builtins g sh. set (f := keep (grammar_spans g)).
  pose proof (from_grammar_ms f builtins g sh) as N.
  rewrite (ms_grammar_fix_in f g) in N by (intros; apply keep_in; auto).
  destruct (from_grammar builtins g sh) as [v|e| |]; cbn [ms_res] in N; auto.
  - injection N as N1. intros sp Hi. apply keep_fixed. eapply ms_valid_fix_out; [symmetry; exact N1|exact Hi].
  - injection N as N1. intros sp Hi. apply keep_fixed. eapply ms_err_fix_out; [symmetry; exact N1|exact Hi].
Qed.

(** *** regex inputs carry spans of the tree *)

Lemma pool_intern_in : forall r p rid p', pool_intern r p = (rid, p') -> forall x, In x p' -> In x p \/ x = r.
Proof.
  intros r p rid p' H x Hx. unfold pool_intern in H. destruct (pool_find r p 0).
  - inversion H; subst. auto.
  - inversion H; subst. apply in_app_or in Hx as [Hx|[<-|[]]]; auto.
Qed.

Lemma finish_inputs : forall id t s, r_inputs (finish_regex id t s) = b_inputs s.
Proof. intros. reflexivity. Qed.

Definition DoQ (e : expr) : Prop :=
  forall s pl id t s' pl',
    do_from_expr e s pl = Ok (id, t, s', pl') ->
    (forall i, In i (b_inputs s') -> In i (b_inputs s) \/ In (rinput_span i) (all_spans e)) /\
    (forall r, In r pl' -> In r pl \/ forall i, In i (r_inputs r) -> In (rinput_span i) (all_spans e)).

Lemma do_children_spans : forall cs, Forall DoQ cs ->
    forall s pl ids ts s' pl',
      do_children do_from_expr cs s pl = Ok (ids, ts, s', pl') ->
      (forall i, In i (b_inputs s') -> In i (b_inputs s) \/ In (rinput_span i) (flat_map all_spans cs)) /\
      (forall r, In r pl' -> In r pl \/ forall i, In i (r_inputs r) -> In (rinput_span i) (flat_map all_spans cs)).
Proof.
  induction 1 as [|c cs Hc Hcs IH]; intros s pl ids ts s' pl' H; cbn [do_children] in H.
  - inversion H; subst. split; auto.
  - destruct (do_from_expr c s pl) as [[[[id t] s1] pl1]| | |] eqn:E; cbn [obind] in H; try discriminate.
    destruct (do_children do_from_expr cs s1 pl1) as [[[[ids2 ts2] s2] pl2]| | |] eqn:E2; cbn [obind] in H; try discriminate.
    inversion H; subst. destruct (Hc _ _ _ _ _ _ E) as [A1 B1]. destruct (IH _ _ _ _ _ _ E2) as [A2 B2].
    cbn [flat_map]. split.
    + intros i Hi. destruct (A2 i Hi) as [Hi1|Hi1]; [|right; apply in_or_app; auto].
      destruct (A1 i Hi1); [auto|right; apply in_or_app; auto].
    + intros r Hr. destruct (B2 r Hr) as [Hr1|Hr1]; [|right; intros; apply in_or_app; auto].
      destruct (B1 r Hr1) as [|Hx]; [auto|right; intros; apply in_or_app; auto].
Qed.

Lemma do_from_expr_spans : forall e, DoQ e.
Proof.
  induction e using expr_ind'; intros s pl id t0 s' pl' Hd; cbn [do_from_expr] in Hd.
  - cbn in Hd. inversion Hd; subst. cbn [b_inputs all_spans]. split; auto.
    intros i Hi. apply in_app_or in Hi as [Hi|[<-|[]]]; auto. right. left. reflexivity.
  - cbn in Hd. inversion Hd; subst. cbn [b_inputs all_spans]. split; auto.
    intros i Hi. apply in_app_or in Hi as [Hi|[<-|[]]]; auto. right. left. reflexivity.
  - cbn in Hd. inversion Hd; subst. cbn [b_inputs all_spans]. split; auto.
    intros i Hi. apply in_app_or in Hi as [Hi|[<-|[]]]; auto. right. left. reflexivity.
  - destruct (do_children do_from_expr cs s pl) as [[[[ids ts] s1] pl1]| | |] eqn:E; cbn [obind] in Hd; try discriminate.
    cbn in Hd. inversion Hd; subst. cbn [b_inputs all_spans].
    destruct (do_children_spans cs H _ _ _ _ _ _ E) as [A B]. split.
    + intros i Hi. destruct (A i Hi); [auto|right; right; auto].
    + intros r Hr. destruct (B r Hr) as [|Hx]; [auto|right; intros; right; auto].
  - destruct (do_children do_from_expr cs s pl) as [[[[ids ts] s1] pl1]| | |] eqn:E; cbn [obind] in Hd; try discriminate.
    cbn in Hd. inversion Hd; subst. cbn [b_inputs all_spans].
    destruct (do_children_spans cs H _ _ _ _ _ _ E) as [A B]. split.
    + intros i Hi. destruct (A i Hi); [auto|right; right; auto].
    + intros r Hr. destruct (B r Hr) as [|Hx]; [auto|right; intros; right; auto].
  - destruct (do_from_expr e s pl) as [[[[cid ct] s1] pl1]| | |] eqn:E; cbn [obind] in Hd; try discriminate.
    cbn in Hd. inversion Hd; subst. cbn [b_inputs all_spans]. destruct (IHe _ _ _ _ _ _ E) as [A B]. split.
    + intros i Hi. destruct (A i Hi); [auto|right; right; auto].
    + intros r Hr. destruct (B r Hr) as [|Hx]; [auto|right; intros; right; auto].
  - destruct (do_from_expr e s pl) as [[[[cid ct] s1] pl1]| | |] eqn:E; cbn [obind] in Hd; try discriminate.
    cbn in Hd. inversion Hd; subst. cbn [b_inputs all_spans]. destruct (IHe _ _ _ _ _ _ E) as [A B]. split.
    + intros i Hi. destruct (A i Hi); [auto|right; right; auto].
    + intros r Hr. destruct (B r Hr) as [|Hx]; [auto|right; intros; right; auto].
  - discriminate.
  - destruct (do_children do_from_expr cs s pl) as [[[[ids ts] s1] pl1]| | |] eqn:E; cbn [obind] in Hd; try discriminate.
    cbn in Hd. inversion Hd; subst. cbn [b_inputs all_spans].
    destruct (do_children_spans cs H _ _ _ _ _ _ E) as [A B]. split.
    + intros i Hi. destruct (A i Hi); [auto|right; right; auto].
    + intros r Hr. destruct (B r Hr) as [|Hx]; [auto|right; intros; right; auto].
  - destruct (do_from_expr e empty_bst pl) as [[[[cid ct] cs] pl1]| | |] eqn:E; cbn [obind] in Hd; try discriminate.
    destruct (pool_intern (finish_regex cid ct cs) pl1) as [rid pl2] eqn:Pi.
    cbn in Hd. inversion Hd; subst. cbn [b_inputs all_spans]. destruct (IHe _ _ _ _ _ _ E) as [A B]. split.
    + intros i Hi. apply in_app_or in Hi as [Hi|[<-|[]]]; auto. right. left. reflexivity.
    + intros r Hr. destruct (pool_intern_in _ _ _ _ Pi r Hr) as [Hr1 | ->].
      * destruct (B r Hr1) as [|Hx]; [auto|right; intros; right; auto].
      * right. intros i Hi. rewrite finish_inputs in Hi. destruct (A i Hi) as [[]|]. right. auto.
Qed.

Lemma do_children_no_err : forall cs,
    Forall (fun e => forall s pl x, do_from_expr e s pl = Err x -> False) cs ->
    forall s pl x, do_children do_from_expr cs s pl = Err x -> False.
Proof.
  induction 1 as [|c cs Hc Hcs IH]; intros s pl x H; cbn [do_children] in H; [discriminate|].
  destruct (do_from_expr c s pl) as [[[[id t] s1] pl1]|y| |] eqn:E; cbn [obind] in H; try discriminate.
  - destruct (do_children do_from_expr cs s1 pl1) as [[[[ids2 ts2] s2] pl2]|y| |] eqn:E2; cbn [obind] in H; try discriminate.
    eapply IH; eauto.
  - eapply Hc; eauto.
Qed.

Lemma do_from_expr_no_err : forall e s pl x, do_from_expr e s pl = Err x -> False.
Proof.
  induction e using expr_ind'; intros s pl x Hd; cbn [do_from_expr] in Hd; try (cbn in Hd; discriminate).
  - destruct (do_children do_from_expr cs s pl) as [[[[ids ts] s1] pl1]|y| |] eqn:E; cbn [obind] in Hd; try discriminate.
    eapply do_children_no_err; eauto.
  - destruct (do_children do_from_expr cs s pl) as [[[[ids ts] s1] pl1]|y| |] eqn:E; cbn [obind] in Hd; try discriminate.
    eapply do_children_no_err; eauto.
  - destruct (do_from_expr e s pl) as [[[[cid ct] s1] pl1]|y| |] eqn:E; cbn [obind] in Hd; try discriminate. eauto.
  - destruct (do_from_expr e s pl) as [[[[cid ct] s1] pl1]|y| |] eqn:E; cbn [obind] in Hd; try discriminate. eauto.
  - destruct (do_children do_from_expr cs s pl) as [[[[ids ts] s1] pl1]|y| |] eqn:E; cbn [obind] in Hd; try discriminate.
    eapply do_children_no_err; eauto.
  - destruct (do_from_expr e empty_bst pl) as [[[[cid ct] cs] pl1]|y| |] eqn:E; cbn [obind] in Hd; try discriminate.
    + destruct (pool_intern (finish_regex cid ct cs) pl1). cbn in Hd. discriminate.
    + eauto.
Qed.

Lemma from_expr_spans : forall e r pl, from_expr e [] = Ok (r, pl) ->
    forall sub, In sub pl -> forall i, In i (r_inputs sub) -> In (rinput_span i) (all_spans e).
Proof.
  intros e r pl H sub Hs i Hi. unfold from_expr in H.
  destruct (do_from_expr e empty_bst []) as [[[[id t] s] pl1]| | |] eqn:E; cbn [obind] in H; try discriminate.
  inversion H; subst. destruct (do_from_expr_spans e _ _ _ _ _ _ E) as [_ B].
  destruct (B sub Hs) as [[]|Hx]. auto.
Qed.

(** *** where [UnboundedMatchable] gets its spans *)

Definition ispans (r : regex) : list span := map rinput_span (r_inputs r).

Lemma input_at_in : forall r p i, input_at r p = Ok i -> In i (r_inputs r).
Proof.
  intros r p i H. unfold input_at in H. destruct (nthN (r_inputs r) p) eqn:E; inversion H; subst.
  unfold nthN in E. eapply nth_error_In; eauto.
Qed.

Lemma omap_in : forall {E A B} (f : A -> outcome E B) (P : B -> Prop) l l',
    (forall a b, f a = Ok b -> P b) -> omap f l = Ok l' -> forall b, In b l' -> P b.
Proof.
  intros E A B f P. induction l; intros l' Hf H b Hb; cbn [omap] in H.
  - inversion H; subst. destruct Hb.
  - destruct (f a) eqn:Fa; cbn [obind] in H; try discriminate.
    destruct (omap f l) eqn:Fl; cbn [obind] in H; try discriminate. inversion H; subst.
    destruct Hb as [<-|Hb]; eauto.
Qed.

Lemma inputs_of_in : forall r fp l, inputs_of r fp = Ok l -> forall i, In i l -> In i (r_inputs r).
Proof. intros r fp l H. unfold inputs_of in H. eapply omap_in; eauto. apply input_at_in. Qed.

Lemma inputs_of_no_err : forall r fp e, inputs_of r fp = Err e -> False.
Proof.
  intros r fp e. unfold inputs_of. generalize (filter (fun p => negb (N.eqb p (r_end r))) fp).
  induction l; cbn [omap]; intros H; [discriminate|].
  unfold input_at at 1 in H. destruct (nthN (r_inputs r) a); cbn [obind] in H; [|discriminate].
  destruct (omap (input_at r) l) eqn:O; cbn [obind] in H; try discriminate. apply IHl. congruence.
Qed.

Section TailSpans.
  Variable r : regex.
  Variable fw : list (N * list N).

  Definition pp_ok (pp : option rinput) : Prop := forall p, pp = Some p -> In p (r_inputs r).

  Lemma tail_only_spans : forall fuel fp pp visited,
      pp_ok pp ->
      match tail_only r fw fuel fp pp visited with
      | Err (UnboundedMatchable a b) => In a (ispans r) /\ In b (ispans r)
      | _ => True
      end.
  Proof.
    induction fuel as [|f IH]; intros fp pp visited Hpp; cbn [tail_only]; auto.
    destruct (inputs_of r fp) as [inputs|e| |] eqn:Ei; cbn [obind]; auto.
    2:{ destruct (inputs_of_no_err _ _ _ Ei). }
    pose proof (inputs_of_in _ _ _ Ei) as Hin.
    destruct (first_clash pp inputs) as [[a b]|] eqn:Ec.
    { unfold first_clash in Ec. destruct pp as [q|]; [|discriminate]. destruct inputs as [|inp rest]; [discriminate|].
      inversion Ec; subst. split; apply in_map; [apply Hpp; reflexivity|apply Hin; left; reflexivity]. }
    clear Ec Ei.
    generalize visited. induction fp as [|p ps IHps]; intros vis; auto.
    destruct (memN p vis); [apply IHps|].
    destruct (assocN p fw) as [follow|]; [|apply IHps].
    unfold input_at at 1. destruct (nthN (r_inputs r) p) as [inp|] eqn:En; cbn [obind]; auto.
    assert (Hinp : In inp (r_inputs r)) by (unfold nthN in En; eapply nth_error_In; eauto).
    destruct (is_star_subword inp) as [st|e0| |] eqn:Est; cbn [obind]; auto.
    2:{ destruct inp; discriminate. }
    assert (Hnext : pp_ok (opt_or pp (if st then Some inp else None))).
    { intros q Hq. destruct pp as [q'|]; cbn [opt_or] in Hq; [apply Hpp; auto|].
      destruct st; [inversion Hq; subst; exact Hinp|discriminate]. }
    specialize (IH follow (opt_or pp (if st then Some inp else None)) (p :: vis) Hnext).
    destruct (tail_only r fw f follow _ (p :: vis)) as [v1|[a b]| |]; cbn [obind]; auto.
    apply IHps.
  Qed.
End TailSpans.

Lemma check_tail_only_spans : forall r,
    match check_tail_only r with
    | Err (UnboundedMatchable a b) => In a (ispans r) /\ In b (ispans r)
    | _ => True
    end.
Proof.
  intros r. unfold check_tail_only.
  pose proof (tail_only_spans r (regex_follow r) (regex_fuel r) (regex_first r) None [r_end r]
                ltac:(intros p Hp; discriminate)) as X.
  destruct (tail_only r (regex_follow r) (regex_fuel r) (regex_first r) None [r_end r]) as [v|[a b]| |]; cbn [obind]; auto.
Qed.

Definition from_pool (pl : pool) (a b : span) : Prop :=
  exists sub, In sub pl /\ In a (ispans sub) /\ In b (ispans sub).

Lemma check_each_sub_spans : forall pl ids checked,
    match check_each_sub pl ids checked with
    | Err (UnboundedMatchable a b) => from_pool pl a b
    | _ => True
    end.
Proof.
  intros pl. induction ids as [|rid rest IH]; intros checked; cbn [check_each_sub]; auto.
  destruct (nthN pl rid) as [sub|] eqn:E; auto.
  pose proof (check_tail_only_spans sub) as X.
  destruct (check_tail_only sub) as [u|[a b]| |]; cbn [obind]; auto.
  - apply IH.
  - exists sub. split; [unfold nthN in E; eapply nth_error_In; eauto|exact X].
Qed.

Lemma check_subwords_spans : forall r fw pl fuel fp visited checked,
    match check_subwords r fw pl fuel fp visited checked with
    | Err (UnboundedMatchable a b) => from_pool pl a b
    | _ => True
    end.
Proof.
  intros r fw pl. induction fuel as [|f IH]; intros fp visited checked; cbn [check_subwords]; auto.
  destruct (inputs_of r fp) as [inputs|e| |] eqn:Ei; cbn [obind]; auto.
  2:{ destruct (inputs_of_no_err _ _ _ Ei). }
  pose proof (check_each_sub_spans pl (filter (fun rid => negb (memN rid checked)) (sub_ids_of inputs)) checked) as X.
  destruct (check_each_sub pl _ checked) as [checked1|[a b]| |]; cbn [obind]; auto.
  clear X Ei. generalize visited checked1. induction fp as [|p ps IHps]; intros vis chk; auto.
  destruct (memN p vis); [apply IHps|].
  destruct (assocN p fw) as [follow|]; [|apply IHps].
  specialize (IH follow (p :: vis) chk).
  destruct (check_subwords r fw pl f follow (p :: vis) chk) as [vc|[a b]| |]; cbn [obind]; auto. apply IHps.
Qed.

Theorem unbounded_spans : forall e a b, from_valid_expr e = Err (UnboundedMatchable a b) ->
    In a (all_spans e) /\ In b (all_spans e).
Proof.
  intros e a b H. unfold from_valid_expr in H.
  destruct (from_expr e []) as [[r pl]|x| |] eqn:E; cbn [obind] in H; try discriminate.
  2:{ exfalso. unfold from_expr in E.
      destruct (do_from_expr e empty_bst []) as [[[[id t] s] pl1]|y| |] eqn:E0; cbn [obind] in E; try discriminate.
      eapply do_from_expr_no_err; eauto. }
  cbn [fst snd] in H. unfold check_ambiguities in H.
  pose proof (check_subwords_spans r (regex_follow r) pl (regex_fuel r) (regex_first r) [r_end r] []) as X.
  destruct (check_subwords r (regex_follow r) pl (regex_fuel r) (regex_first r) [r_end r] []) as [vc|[a' b']| |];
    cbn [obind] in H; try discriminate.
  inversion H; subst. destruct X as (sub & Hs & Ha & Hb).
  unfold ispans in *. apply in_map_iff in Ha as (ia & <- & Hia). apply in_map_iff in Hb as (ib & <- & Hib).
  split; eapply from_expr_spans; eauto.
Qed.
