(** Every span that leaves the pipeline is a span of the parsed grammar:
    - the checker model is natural in spans ([CheckSpans.from_grammar_ms]), hence -- a free theorem --
      every span of its result (error, validated tree, warning maps) occurs in its input grammar;
    - the spans of an [UnboundedMatchable] error are spans of regex inputs, i.e. of leaves (literals,
      nonterminals, commands, words) of the validated tree. *)
From CG Require Import Base.Prelude Model.Ast Model.Check Model.Regex.
From CG Require Import Proofs.CheckSpans Proofs.FromExpr.

(** *** all the spans of a tree / grammar / result *)

Fixpoint all_spans (e : expr) : list span :=
  match e with
  | Terminal _ _ _ sp | NontermRef _ _ sp | Command _ _ _ sp => [sp]
  | Sequence cs sp | Alternative cs sp | Fallback cs sp => sp :: flat_map all_spans cs
  | Optional c sp | Many1 c sp | DistDescr c _ sp | Subword c _ sp => sp :: all_spans c
  end.

Definition stmt_spans (st : statement) : list span :=
  match st with
  | CallVariant _ sp e => sp :: all_spans e
  | NontermDef _ sp sh rhs =>
      sp :: match sh with Some (_, ssp) => [ssp] | None => [] end ++ all_spans rhs
  end.

Definition grammar_spans (g : grammar) : list span := flat_map stmt_spans g.

Definition cerror_spans (e : cerror) : list span :=
  match e with
  | MissingCallVariants => []
  | VaryingCommandNames spans | NonterminalDefinitionsCycle spans => spans
  | InvalidCommandName sp | UnknownShell sp | NonCommandSpecialization sp => [sp]
  | DuplicateNonterminalDefinition a b => [a; b]
  | SubwordSpaces l r trace => l :: r :: trace
  end.

Definition valid_spans (v : valid_grammar) : list span :=
  all_spans (v_expr v) ++ map snd (v_undefined v) ++ map snd (v_unused v) ++ map snd (v_unused_specs v).

(** *** fixed points of span maps *)

Section Fix.
  Variable f : span -> span.

  Lemma map_fix_in : forall (l : list span), (forall sp, In sp l -> f sp = sp) -> map f l = l.
  Proof. induction l; cbn; intros H; auto. rewrite H by auto. f_equal. apply IHl. auto. Qed.

  Lemma map_fix_out : forall (l : list span), map f l = l -> forall sp, In sp l -> f sp = sp.
  Proof.
    induction l as [|a l IH]; cbn [map]; intros H sp Hi; [destruct Hi|].
    injection H as H1 H2. destruct Hi as [<-|Hi]; [exact H1|apply IH; assumption].
  Qed.

  Lemma map_ms_in : forall cs,
      Forall (fun e => (forall x, In x (all_spans e) -> f x = x) -> ms f e = e) cs ->
      (forall x, In x (flat_map all_spans cs) -> f x = x) -> map (ms f) cs = cs.
  Proof.
    induction 1 as [|e l He Hl IH]; cbn [map flat_map]; intros Hs; auto. f_equal.
    - apply He. intros. apply Hs. apply in_or_app. auto.
    - apply IH. intros. apply Hs. apply in_or_app. auto.
  Qed.

  Lemma ms_fix_in : forall e, (forall x, In x (all_spans e) -> f x = x) -> ms f e = e.
  Proof.
    induction e using expr_ind'; cbn [all_spans ms]; intros Hs; rewrite (Hs sp) by (left; reflexivity);
      try reflexivity;
      try (rewrite IHe by (intros; apply Hs; right; assumption); reflexivity);
      rewrite (map_ms_in cs H) by (intros; apply Hs; right; assumption); reflexivity.
  Qed.

  Lemma map_ms_out : forall cs, Forall (fun e => ms f e = e -> forall x, In x (all_spans e) -> f x = x) cs ->
      map (ms f) cs = cs -> forall x, In x (flat_map all_spans cs) -> f x = x.
  Proof.
    induction 1; cbn [map flat_map]; intros E y Hi; [contradiction|]. injection E as E1 E2.
    apply in_app_or in Hi as [Hi|Hi]; [apply H; assumption|apply IHForall; assumption].
  Qed.

  Lemma ms_fix_out : forall e, ms f e = e -> forall x, In x (all_spans e) -> f x = x.
  Proof.
    induction e using expr_ind'; cbn [all_spans ms]; intros E x Hi.
    - injection E as Ea. destruct Hi as [<-|[]]. exact Ea.
    - injection E as Ea. destruct Hi as [<-|[]]. exact Ea.
    - injection E as Ea. destruct Hi as [<-|[]]. exact Ea.
    - injection E as Ea Eb. destruct Hi as [<-|Hi]; [exact Eb|]. eapply map_ms_out; eauto.
    - injection E as Ea Eb. destruct Hi as [<-|Hi]; [exact Eb|]. eapply map_ms_out; eauto.
    - injection E as Ea Eb. destruct Hi as [<-|Hi]; [exact Eb|]. apply IHe; assumption.
    - injection E as Ea Eb. destruct Hi as [<-|Hi]; [exact Eb|]. apply IHe; assumption.
    - injection E as Ea Eb. destruct Hi as [<-|Hi]; [exact Eb|]. apply IHe; assumption.
    - injection E as Ea Eb. destruct Hi as [<-|Hi]; [exact Eb|]. eapply map_ms_out; eauto.
    - injection E as Ea Eb. destruct Hi as [<-|Hi]; [exact Eb|]. apply IHe; assumption.
  Qed.

  Lemma ms_grammar_fix_in : forall g, (forall sp, In sp (grammar_spans g) -> f sp = sp) -> ms_grammar f g = g.
  Proof.
    unfold ms_grammar, grammar_spans. induction g as [|st g IH]; cbn [map flat_map]; intros Hs; auto.
    f_equal; [|apply IH; intros; apply Hs; apply in_or_app; auto].
    assert (Hst : forall sp, In sp (stmt_spans st) -> f sp = sp) by (intros; apply Hs; apply in_or_app; auto).
    destruct st as [n sp e|n sp [[sh ssp]|] rhs]; cbn [ms_stmt stmt_spans option_map fst snd] in *.
    - rewrite Hst by (left; reflexivity). rewrite ms_fix_in by (intros; apply Hst; right; auto). reflexivity.
    - rewrite Hst by (left; reflexivity). rewrite (Hst ssp) by (right; left; reflexivity).
      rewrite ms_fix_in by (intros; apply Hst; right; right; auto). reflexivity.
    - rewrite Hst by (left; reflexivity). rewrite ms_fix_in by (intros; apply Hst; right; auto). reflexivity.
  Qed.

  Lemma msp_fix_out : forall l, msp f l = l -> forall sp, In sp (map snd l) -> f sp = sp.
  Proof.
    unfold msp. induction l as [|[n s] l IH]; cbn [map fst snd]; intros E sp Hi; [destruct Hi|].
    injection E as E1 E2. destruct Hi as [<-|Hi]; [exact E1|apply IH; assumption].
  Qed.

  Lemma ms_err_fix_out : forall e, ms_err f e = e -> forall x, In x (cerror_spans e) -> f x = x.
  Proof.
    intros e E x Hi; destruct e; cbn [ms_err cerror_spans] in *; try (injection E; intros).
    - destruct Hi.
    - eapply map_fix_out; eauto.
    - destruct Hi as [<-|[]]. assumption.
    - destruct Hi as [<-|[<-|[]]]; assumption.
    - destruct Hi as [<-|[]]. assumption.
    - destruct Hi as [<-|[]]. assumption.
    - eapply map_fix_out; eauto.
    - destruct Hi as [<-|[<-|Hi]]; try assumption. eapply map_fix_out; eauto.
  Qed.

  Lemma ms_valid_fix_out : forall v, ms_valid f v = v -> forall x, In x (valid_spans v) -> f x = x.
  Proof.
    intros [cmd e u1 u2 u3] E x Hi. unfold ms_valid, valid_spans in *. cbn [v_command v_expr v_undefined v_unused v_unused_specs] in *.
    assert (A1 : ms f e = e) by congruence.
    assert (A2 : msp f u1 = u1) by congruence.
    assert (A3 : msp f u2 = u2) by congruence.
    assert (A4 : msp f u3 = u3) by congruence.
    apply in_app_or in Hi as [Hi|Hi]; [exact (ms_fix_out e A1 x Hi)|].
    apply in_app_or in Hi as [Hi|Hi]; [exact (msp_fix_out u1 A2 x Hi)|].
    apply in_app_or in Hi as [Hi|Hi]; [exact (msp_fix_out u2 A3 x Hi)|exact (msp_fix_out u3 A4 x Hi)].
  Qed.
End Fix.

(** *** the free theorem *)

Definition bump (x : span) : span := mkspan (sline x + 1) (scol x) (secol x).

Definition keep (S : list span) (x : span) : span := if existsb (span_eqb x) S then x else bump x.

Lemma span_eqb_refl : forall a, span_eqb a a = true.
Proof. intros [l c e]. unfold span_eqb. cbn. rewrite !N.eqb_refl. reflexivity. Qed.

Lemma keep_in : forall S x, In x S -> keep S x = x.
Proof.
  intros S x H. unfold keep. replace (existsb (span_eqb x) S) with true; auto.
  symmetry. apply existsb_exists. exists x. split; auto. apply span_eqb_refl.
Qed.

Lemma keep_fixed : forall S x, keep S x = x -> In x S.
Proof.
  intros S x H. unfold keep in H. destruct (existsb (span_eqb x) S) eqn:E.
  - apply existsb_exists in E as (y & Hy & Ey). apply span_eqb_eq in Ey. subst. exact Hy.
  - exfalso. destruct x as [l c e]. unfold bump in H. cbn in H. inversion H. lia.
Qed.

Theorem checker_spans : forall builtins g sh,
    match from_grammar builtins g sh with
    | Ok v => forall sp, In sp (valid_spans v) -> In sp (grammar_spans g)
    | Err e => forall sp, In sp (cerror_spans e) -> In sp (grammar_spans g)
    | _ => True
    end.
Proof.
  intros builtins g sh. set (f := keep (grammar_spans g)).
  pose proof (from_grammar_ms f builtins g sh) as N.
  rewrite (ms_grammar_fix_in f g) in N by (intros; apply keep_in; auto).
  destruct (from_grammar builtins g sh) as [v|e| |]; cbn [ms_res] in N; auto.
  - injection N as N1. intros sp Hi. apply keep_fixed. eapply ms_valid_fix_out; [symmetry; exact N1|exact Hi].
  - injection N as N1. intros sp Hi. apply keep_fixed. eapply ms_err_fix_out; [symmetry; exact N1|exact Hi].
Qed.
