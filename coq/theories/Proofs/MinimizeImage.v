(** Facts about the raw automaton and the data [do_minimize] derives from it before the loop:
    [iter_transitions], [get_all_states], the completed transition function [delta], the
    target-sorted transition image, the [find_bounds] window and [transitions_to_group]. *)
From CG Require Import Base.Prelude Model.Dfa Model.Minimize Spec.DfaEquiv Spec.MinimizeSpec
  Proofs.MinimizeBasics.

(** *** association lists *)
Lemma assocN_In {V} k (l : list (N * V)) v : assocN k l = Some v -> In (k, v) l.
Proof.
  induction l as [|[k' v'] r IH]; cbn [assocN]; [discriminate|].
  destruct (N.eqb_spec k k') as [->|Hn].
  - intro E. inversion E; subst. left. reflexivity.
  - intro E. right. apply IH. exact E.
Qed.

Lemma assocN_NoDup {V} k (l : list (N * V)) v :
  NoDup (map fst l) -> In (k, v) l -> assocN k l = Some v.
Proof.
  induction l as [|[k' v'] r IH]; cbn [assocN map fst]; intros ND H; [contradiction|].
  inversion ND as [|? ? Hn Hr]; subst.
  destruct H as [H|H].
  - inversion H; subst. rewrite N.eqb_refl. reflexivity.
  - destruct (N.eqb_spec k k') as [->|Hne].
    + exfalso. apply Hn. apply in_map_iff. exists (k', v). auto.
    + apply IH; assumption.
Qed.

Lemma assocN_None {V} k (l : list (N * V)) : assocN k l = None <-> ~ In k (map fst l).
Proof.
  induction l as [|[k' v'] r IH]; cbn [assocN map fst In]; [tauto|].
  destruct (N.eqb_spec k k') as [->|Hne].
  - split; [discriminate|]. intro H. exfalso. apply H. left. reflexivity.
  - rewrite IH. split; [intros H [F|F]; [congruence|contradiction]|tauto].
Qed.

Lemma in_input_ids d i : In i (input_ids d) <-> i < lenN (d_inputs d).
Proof.
  unfold input_ids, lenN. rewrite in_map_iff. split.
  - intros [k [E H]]. apply in_seq in H. lia.
  - intro H. exists (N.to_nat i). split; [lia|]. apply in_seq. lia.
Qed.

(** *** transitions of a well-formed automaton *)
Lemma iter_transitions_In d t :
  In t (iter_transitions d) <->
  exists row, In (tr_from t, row) (d_trans d) /\ In (tr_input t, tr_to t) row.
Proof.
  unfold iter_transitions. rewrite in_flat_map. split.
  - intros [[f row] [H1 H2]]. cbn [fst snd] in H2. apply in_map_iff in H2.
    destruct H2 as [[i to] [E H2]]. cbn [fst snd] in E. subst t. cbn. exists row. auto.
  - intros [row [H1 H2]]. exists (tr_from t, row). split; [exact H1|]. cbn [fst snd].
    apply in_map_iff. exists (tr_input t, tr_to t). split; [destruct t; reflexivity|exact H2].
Qed.

Section Raw.
  Variable d : dfa.
  Hypothesis W : wf d.

  Lemma step_iter x a t : step d x a = Some t <-> In (mktr x t a) (iter_transitions d).
  Proof.
    unfold step. rewrite iter_transitions_In. cbn [tr_from tr_to tr_input]. split.
    - destruct (assocN x (d_trans d)) as [row|] eqn:E; [|discriminate].
      intro H. exists row. split; apply assocN_In; assumption.
    - intros [row [H1 H2]].
      rewrite (assocN_NoDup _ _ _ (wf_keys _ W) H1).
      apply assocN_NoDup; [eapply (wf_rows _ W); eauto|exact H2].
  Qed.

  Lemma in_states_cases s :
    In s (states d) <-> s = d_start d \/ In s (trans_states d) \/ In s (d_accepting d).
  Proof.
    unfold states. rewrite nodup_In. cbn [In]. rewrite in_app_iff. intuition.
  Qed.

  Lemma trans_states_In s :
    In s (trans_states d) <->
    In s (map fst (d_trans d)) \/ exists t, In t (iter_transitions d) /\ s = tr_to t.
  Proof.
    unfold trans_states. rewrite in_flat_map. split.
    - intros [[f row] [H1 H2]]. cbn [fst snd] in H2. destruct H2 as [H2|H2].
      + subst. left. apply in_map_iff. exists (s, row). auto.
      + apply in_map_iff in H2. destruct H2 as [[i to] [E H2]]. cbn in E. subst.
        right. exists (mktr f s i). split; [|reflexivity]. apply iter_transitions_In. exists row. auto.
    - intros [H|[t [H E]]].
      + apply in_map_iff in H. destruct H as [[f row] [E H]]. cbn in E. subst.
        exists (s, row). split; [exact H|]. left. reflexivity.
      + apply iter_transitions_In in H. destruct H as [row [H1 H2]].
        exists (tr_from t, row). split; [exact H1|]. right. cbn [snd]. apply in_map_iff.
        exists (tr_input t, tr_to t). auto.
  Qed.

  Lemma iter_from_state t : In t (iter_transitions d) -> In (tr_from t) (states d).
  Proof.
    intro H. apply in_states_cases. right. left. apply trans_states_In. left.
    apply iter_transitions_In in H. destruct H as [row [H1 _]]. apply in_map_iff. exists (tr_from t, row). auto.
  Qed.

  Lemma iter_to_state t : In t (iter_transitions d) -> In (tr_to t) (states d).
  Proof.
    intro H. apply in_states_cases. right. left. apply trans_states_In. right. exists t. auto.
  Qed.

  Lemma iter_input t : In t (iter_transitions d) -> In (tr_input t) (input_ids d).
  Proof.
    intro H. apply iter_transitions_In in H. destruct H as [row [H1 H2]].
    apply in_input_ids. eapply (wf_inputs _ W); eauto.
  Qed.

  Lemma key_state x : In x (map fst (d_trans d)) -> In x (states d).
  Proof. intro H. apply in_states_cases. right. left. apply trans_states_In. left. exact H. Qed.

  Lemma zero_not_key : ~ In 0 (map fst (d_trans d)).
  Proof. intro H. apply (wf_nozero _ W). apply key_state. exact H. Qed.

  Lemma step_zero a : step d 0 a = None.
  Proof.
    unfold step. destruct (assocN 0 (d_trans d)) as [row|] eqn:E; [|reflexivity].
    exfalso. apply zero_not_key. apply assocN_In in E. apply in_map_iff. exists (0, row). auto.
  Qed.

  Lemma delta_zero a : delta d 0 a = 0.
  Proof. unfold delta. rewrite step_zero. reflexivity. Qed.

  Lemma is_accepting_zero : is_accepting d 0 = false.
  Proof.
    unfold is_accepting. apply memN_false. intro H. apply (wf_nozero _ W).
    apply in_states_cases. auto.
  Qed.

  Lemma delta_nonletter x a : ~ In a (input_ids d) -> delta d x a = 0.
  Proof.
    intro H. unfold delta. destruct (step d x a) as [t|] eqn:E; [|reflexivity].
    exfalso. apply H. apply step_iter in E. apply iter_input in E. exact E.
  Qed.

  Lemma step_nonzero x a t : step d x a = Some t -> t <> 0.
  Proof.
    intros E F. subst. apply step_iter, iter_to_state in E. apply (wf_nozero _ W). exact E.
  Qed.

  (** acceptance through the completed transition function *)
  Lemma accepts_from_delta x a w : accepts_from d x (a :: w) = accepts_from d (delta d x a) w.
  Proof.
    unfold accepts_from, delta. cbn [run]. destruct (step d x a) as [t|]; [reflexivity|].
    clear x. induction w as [|b w IH]; cbn [run]; [rewrite is_accepting_zero; reflexivity|].
    rewrite step_zero. reflexivity.
  Qed.

  Lemma accepts_from_fold w x : accepts_from d x w = is_accepting d (fold_left (delta d) w x).
  Proof.
    revert x. induction w as [|a w IH]; intro x; [reflexivity|].
    rewrite accepts_from_delta, IH. reflexivity.
  Qed.

  (** *** get_all_states *)
  Lemma all_states_fold l s x :
    In x (fold_left (fun s t => bm_insert (tr_to t) (bm_insert (tr_from t) s)) l s)
    <-> In x s \/ exists t, In t l /\ (x = tr_from t \/ x = tr_to t).
  Proof.
    revert s. induction l as [|t r IH]; intro s; cbn [fold_left].
    - split; [auto|]. intros [H|[t [[] _]]]. exact H.
    - rewrite IH, !bm_insert_In. split.
      + intros [[H|[H|H]]|[u [H1 H2]]].
        * right. exists t. split; [left; reflexivity|auto].
        * right. exists t. split; [left; reflexivity|auto].
        * auto.
        * right. exists u. split; [right; exact H1|exact H2].
      + intros [H|[u [[H1|H1] H2]]].
        * auto.
        * subst u. left. destruct H2; auto.
        * right. exists u. auto.
  Qed.

  Lemma all_states_In x :
    In x (get_all_states d) <->
    x = 0 \/ exists t, In t (iter_transitions d) /\ (x = tr_from t \/ x = tr_to t).
  Proof.
    unfold get_all_states. rewrite bm_insert_In, all_states_fold. cbn [In]. tauto.
  Qed.

  Lemma all_states_sorted : sortedN (get_all_states d).
  Proof.
    unfold get_all_states. apply bm_insert_sorted.
    generalize (iter_transitions d). intro l.
    assert (H : sortedN []) by exact I. revert H. generalize (@nil N).
    induction l as [|t r IH]; intros s H; cbn [fold_left]; [exact H|].
    apply IH. apply bm_insert_sorted, bm_insert_sorted, H.
  Qed.

  (** the universe of the partition *)
  Definition universe : list N := get_all_states d ++ d_accepting d.

  Lemma universe_In x : In x universe <-> In x (get_all_states d) \/ In x (d_accepting d).
  Proof. unfold universe. apply in_app_iff. Qed.

  Lemma universe_zero : In 0 universe.
  Proof. apply universe_In. left. apply all_states_In. auto. Qed.

  Lemma universe_state x : In x universe -> x <> 0 -> In x (states d).
  Proof.
    intros H Hn. apply universe_In in H. destruct H as [H|H].
    - apply all_states_In in H. destruct H as [H|[t [H1 [H2|H2]]]]; [contradiction| |]; subst.
      + apply iter_from_state. exact H1.
      + apply iter_to_state. exact H1.
    - apply in_states_cases. auto.
  Qed.

  Lemma universe_key x : In x universe -> x <> 0 -> In x (map fst (d_trans d)).
  Proof. intros H Hn. apply (wf_closed _ W). apply universe_state; assumption. Qed.

  Lemma delta_closed x a : In x universe -> In (delta d x a) universe.
  Proof.
    intros _. unfold delta. destruct (step d x a) as [t|] eqn:E; [|apply universe_zero].
    apply universe_In. left. apply all_states_In. right. apply step_iter in E.
    exists (mktr x t a). split; [exact E|]. right. reflexivity.
  Qed.

  (** *** the transition image *)
  Lemma transition_eqb_iff a b : transition_eqb a b = true <-> a = b.
  Proof.
    unfold transition_eqb. rewrite !andb_true_iff, !N.eqb_eq. destruct a, b; cbn. split.
    - intros [[-> ->] ->]. reflexivity.
    - intro E. inversion E. auto.
  Qed.

  Lemma dedup_In l t : In t (dedup l) <-> In t l.
  Proof.
    induction l as [|a r IH]; [tauto|]. cbn [dedup]. destruct r as [|b r'].
    - tauto.
    - destruct (transition_eqb a b) eqn:E.
      + apply transition_eqb_iff in E. subst. rewrite IH. cbn [In]. tauto.
      + cbn [In] in *. rewrite IH. tauto.
  Qed.

  Fixpoint sorted_to (l : list transition) : Prop :=
    match l with
    | [] => True
    | t :: r => (forall u, In u r -> tr_to t <= tr_to u) /\ sorted_to r
    end.

  Lemma dedup_sorted l : sorted_to l -> sorted_to (dedup l).
  Proof.
    induction l as [|a r IH]; [auto|]. cbn [dedup]. destruct r as [|b r'].
    - auto.
    - intros [A B]. destruct (transition_eqb a b); [apply IH; exact B|].
      cbn [sorted_to]. split; [|apply IH; exact B].
      intros u Hu. apply (proj1 (dedup_In _ _)) in Hu. apply A. exact Hu.
  Qed.

  Lemma insert_by_to_In t l u : In u (insert_by_to t l) <-> u = t \/ In u l.
  Proof.
    induction l as [|v r IH]; cbn [insert_by_to In]; [intuition|].
    destruct (N.ltb (tr_to v) (tr_to t)); cbn [In]; [rewrite IH|]; intuition.
  Qed.

  Lemma insert_by_to_sorted t l : sorted_to l -> sorted_to (insert_by_to t l).
  Proof.
    induction l as [|v r IH]; cbn [insert_by_to sorted_to]; [intros _; split; [intros u []|exact I]|].
    intros [A B]. destruct (N.ltb_spec (tr_to v) (tr_to t)); cbn [sorted_to].
    - split; [|apply IH; exact B]. intros u Hu. apply insert_by_to_In in Hu.
      destruct Hu as [->|Hu]; [lia|apply A; exact Hu].
    - split; [|split; assumption]. intros u [->|Hu]; [exact H|]. specialize (A _ Hu). lia.
  Qed.

  Lemma sort_by_to_In l u : In u (sort_by_to l) <-> In u l.
  Proof.
    induction l as [|t r IH]; cbn [sort_by_to fold_right]; [tauto|].
    fold (sort_by_to r). rewrite insert_by_to_In, IH. cbn [In]. intuition.
  Qed.

  Lemma sort_by_to_sorted l : sorted_to (sort_by_to l).
  Proof.
    induction l as [|t r IH]; cbn [sort_by_to fold_right]; [exact I|].
    apply insert_by_to_sorted. exact IH.
  Qed.

  Lemma completed_row_In f row t :
    In (f, row) (d_trans d) ->
    (In t (completed_row d (f, row)) <->
     tr_from t = f /\ In (tr_input t) (input_ids d) /\ tr_to t = delta d f (tr_input t)).
  Proof.
    intro Hrow.
    assert (Hstep : forall i, step d f i = assocN i row).
    { intro i. unfold step. rewrite (assocN_NoDup _ _ _ (wf_keys _ W) Hrow). reflexivity. }
    unfold completed_row. cbn [fst snd]. rewrite in_app_iff, !in_map_iff. split.
    - intros [[[i to] [E H]]|[i [E H]]]; subst t; cbn [tr_from tr_to tr_input fst snd].
      + split; [reflexivity|]. split.
        * apply in_input_ids. eapply (wf_inputs _ W); eauto.
        * unfold delta. rewrite Hstep. rewrite (assocN_NoDup _ _ _ (wf_rows _ W _ _ Hrow) H). reflexivity.
      + apply filter_In in H. destruct H as [H1 H2]. apply negb_true_iff, memN_false in H2.
        split; [reflexivity|]. split; [exact H1|].
        unfold delta. rewrite Hstep. apply assocN_None in H2. rewrite H2. reflexivity.
    - intros [E1 [E2 E3]]. destruct t as [tf tt ti]. cbn [tr_from tr_to tr_input] in *. subst tf.
      unfold delta in E3. rewrite Hstep in E3. destruct (assocN ti row) as [to|] eqn:E.
      + subst tt. left. exists (ti, to). split; [reflexivity|]. apply assocN_In. exact E.
      + subst tt. right. exists ti. split; [reflexivity|]. apply filter_In. split; [exact E2|].
        apply negb_true_iff, memN_false. apply assocN_None. exact E.
  Qed.

  Lemma image_In t :
    In t (make_transitions_image d) <->
    In (tr_from t) (map fst (d_trans d)) /\ In (tr_input t) (input_ids d)
    /\ tr_to t = delta d (tr_from t) (tr_input t).
  Proof.
    unfold make_transitions_image. rewrite dedup_In, sort_by_to_In, in_flat_map. split.
    - intros [[f row] [H1 H2]]. apply (completed_row_In f row t H1) in H2.
      destruct H2 as [E1 [E2 E3]]. subst f. split; [|auto].
      apply in_map_iff. exists (tr_from t, row). auto.
    - intros [H1 [H2 H3]]. apply in_map_iff in H1. destruct H1 as [[f row] [E H1]]. cbn [fst] in E. subst f.
      exists (tr_from t, row). split; [exact H1|]. apply completed_row_In; auto.
  Qed.

  Lemma image_sorted : sorted_to (make_transitions_image d).
  Proof. unfold make_transitions_image. apply dedup_sorted, sort_by_to_sorted. Qed.

  (** *** find_bounds *)
  Lemma drop_below_spec mn l :
    sorted_to l ->
    sorted_to (drop_below mn l) /\ forall t, In t (drop_below mn l) <-> In t l /\ mn <= tr_to t.
  Proof.
    induction l as [|u r IH]; cbn [drop_below sorted_to]; [intros _; split; [exact I|intro; cbn; tauto]|].
    intros [A B]. destruct (N.ltb_spec (tr_to u) mn).
    - destruct (IH B) as [I1 I2]. split; [exact I1|]. intro t. rewrite I2. cbn [In]. split; [tauto|].
      intros [[->|Ht] Hm]; [lia|tauto].
    - split; [cbn [sorted_to]; auto|]. intro t. cbn [In]. split; [|tauto].
      intros [->|Ht]; [auto|]. specialize (A _ Ht). split; [auto|lia].
  Qed.

  Lemma take_upto_spec mx l :
    sorted_to l -> forall t, In t (take_upto mx l) <-> In t l /\ tr_to t <= mx.
  Proof.
    induction l as [|u r IH]; cbn [take_upto sorted_to]; [intros _ t; cbn; tauto|].
    intros [A B] t. destruct (N.leb_spec (tr_to u) mx).
    - cbn [In]. rewrite (IH B). split; [|tauto]. intros [->|[H1 H2]]; auto.
    - cbn [In]. split; [intros []|]. intros [[->|Ht] Hm]; [lia|]. specialize (A _ Ht). lia.
  Qed.

  Lemma find_bounds_some l mn mx ts :
    sorted_to l -> find_bounds l mn mx = Some ts ->
    forall t, In t ts <-> In t l /\ mn <= tr_to t /\ tr_to t <= mx.
  Proof.
    intros S E t. unfold find_bounds in E. destruct (drop_below_spec mn l S) as [S' H'].
    assert (H := take_upto_spec mx _ S' t).
    destruct (take_upto mx (drop_below mn l)); [discriminate|]. inversion E; subst.
    rewrite H, H'. tauto.
  Qed.

  Lemma find_bounds_none l mn mx :
    sorted_to l -> find_bounds l mn mx = None ->
    forall t, In t l -> ~ (mn <= tr_to t /\ tr_to t <= mx).
  Proof.
    intros S E t Ht [H1 H2]. unfold find_bounds in E. destruct (drop_below_spec mn l S) as [S' H'].
    assert (H := take_upto_spec mx _ S' t).
    destruct (take_upto mx (drop_below mn l)); [|discriminate].
    apply (proj2 H). rewrite H'. auto.
  Qed.

  (** *** transitions_to_group *)
  Definition gt_mem (m : list (N * list N)) (a x : N) : Prop := exists X, In (a, X) m /\ In x X.

  Lemma gt_insert_mem a x m a' x' :
    gt_mem (gt_insert a x m) a' x' <-> (a' = a /\ x' = x) \/ gt_mem m a' x'.
  Proof.
    unfold gt_mem. induction m as [|[i s] r IH]; cbn [gt_insert].
    - split.
      + intros [X [[E|[]] H]]. inversion E; subst. destruct H as [->|[]]. auto.
      + intros [[-> ->]|[X [[] _]]]. exists [x]. split; left; reflexivity.
    - destruct (N.eqb_spec i a) as [->|Hn].
      + split.
        * intros [X [[E|H1] H2]].
          -- inversion E; subst. apply bm_insert_In in H2. destruct H2 as [->|H2]; [auto|].
             right. exists s. split; [left; reflexivity|exact H2].
          -- right. exists X. split; [right; exact H1|exact H2].
        * intros [[-> ->]|[X [[E|H1] H2]]].
          -- exists (bm_insert x s). split; [left; reflexivity|]. apply bm_insert_In. auto.
          -- inversion E; subst. exists (bm_insert x X). split; [left; reflexivity|]. apply bm_insert_In. auto.
          -- exists X. split; [right; exact H1|exact H2].
      + split.
        * intros [X [[E|H1] H2]].
          -- inversion E; subst. right. exists X. split; [left; reflexivity|exact H2].
          -- destruct (proj1 IH (ex_intro _ X (conj H1 H2))) as [H|[X' [H3 H4]]]; [auto|].
             right. exists X'. split; [right; exact H3|exact H4].
        * intros [H|[X [[E|H1] H2]]].
          -- destruct (proj2 IH (or_introl H)) as [X [H1 H2]]. exists X. split; [right; exact H1|exact H2].
          -- inversion E; subst. exists X. split; [left; reflexivity|exact H2].
          -- destruct (proj2 IH (or_intror (ex_intro _ X (conj H1 H2)))) as [X' [H3 H4]].
             exists X'. split; [right; exact H3|exact H4].
  Qed.

  Lemma gt_insert_keys a x m : NoDup (map fst m) -> NoDup (map fst (gt_insert a x m)).
  Proof.
    induction m as [|[i s] r IH]; cbn [gt_insert map fst]; intro ND.
    - constructor; [intros []|constructor].
    - inversion ND as [|? ? Hn Hr]; subst. destruct (N.eqb_spec i a) as [->|Hne]; cbn [map fst].
      + constructor; assumption.
      + constructor; [|apply IH; exact Hr].
        intro F. apply Hn. clear - F Hne. induction r as [|[j s'] r IH]; cbn [gt_insert map fst In] in *.
        * destruct F as [F|[]]. congruence.
        * destruct (N.eqb_spec j a) as [->|Hj]; cbn [map fst In] in F; [exact F|].
          destruct F as [F|F]; [auto|right; apply IH; exact F].
  Qed.

  Lemma ttg_spec ts G :
    let m := transitions_to_group ts G in
    NoDup (map fst m)
    /\ forall a x, gt_mem m a x <-> exists t, In t ts /\ tr_from t = x /\ tr_input t = a /\ In (tr_to t) G.
  Proof.
    unfold transitions_to_group.
    assert (Gen : forall l m0,
               NoDup (map fst m0) ->
               let m := fold_left (fun m t => if memN (tr_to t) G then gt_insert (tr_input t) (tr_from t) m else m) l m0 in
               NoDup (map fst m)
               /\ forall a x, gt_mem m a x <->
                              gt_mem m0 a x \/ exists t, In t l /\ tr_from t = x /\ tr_input t = a /\ In (tr_to t) G).
    { induction l as [|t r IH]; intros m0 ND; cbn [fold_left].
      - split; [exact ND|]. intros a x. split; [auto|]. intros [H|[t [[] _]]]. exact H.
      - destruct (memN (tr_to t) G) eqn:E.
        + destruct (IH (gt_insert (tr_input t) (tr_from t) m0) (gt_insert_keys _ _ _ ND)) as [I1 I2].
          split; [exact I1|]. intros a x. rewrite I2, gt_insert_mem. apply memN_iff in E. split.
          * intros [[[-> ->]|H]|[u [H1 H2]]]; [right; exists t; cbn; auto|auto|right; exists u; cbn; tauto].
          * intros [H|[u [[->|H1] [H2 [H3 H4]]]]]; [auto|left; left; auto|right; exists u; auto].
        + destruct (IH m0 ND) as [I1 I2]. split; [exact I1|]. intros a x. rewrite I2.
          apply memN_false in E. split.
          * intros [H|[u [H1 H2]]]; [auto|right; exists u; cbn; tauto].
          * intros [H|[u [[->|H1] [H2 [H3 H4]]]]]; [auto|contradiction|right; exists u; auto]. }
    destruct (Gen ts [] (NoDup_nil _)) as [G1 G2]. split; [exact G1|].
    intros a x. rewrite G2. split; [|auto]. intros [[X [[] _]]|H]. exact H.
  Qed.

  Lemma gt_mem_In m a X x : NoDup (map fst m) -> In (a, X) m -> (In x X <-> gt_mem m a x).
  Proof.
    intros ND H. split; [intro Hx; exists X; auto|].
    intros [X' [H' Hx]]. assert (X = X'); [|subst; exact Hx].
    clear Hx. induction m as [|[i s] r IH]; [contradiction|]. cbn [map fst] in ND.
    inversion ND as [|? ? Hn Hr]; subst.
    destruct H as [H|H], H' as [H'|H'].
    - congruence.
    - inversion H; subst. exfalso. apply Hn. apply in_map_iff. exists (a, X'). auto.
    - inversion H'; subst. exfalso. apply Hn. apply in_map_iff. exists (a, X). auto.
    - apply IH; assumption.
  Qed.
End Raw.
